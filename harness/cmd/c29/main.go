// Correspondence runner and property oracle for C29: requests of every service
// the server implements (and the stubs), channel-level inputs and a client that
// does not read, against a server running in a CHILD PROCESS; after every
// request the process must still be alive, and a canary client on its own
// connection must still be answered.  Outcome (answer class / crash site /
// hang) and the server's tables are compared with the Lean model
// (Model/SrvHandlers.lean, Model/SrvRobust.lean).
//
// Oracle, on the implementation alone: the server process does not exit and
// the canary is answered within a generous bound.
package main

import (
	"bytes"
	"context"
	"fmt"
	"math"
	"sort"
	"strings"
	"sync"
	"time"

	"github.com/gopcua/opcua/ua"
	"github.com/gopcua/opcua/uacp"

	"verifharness/internal/h"
	"verifharness/internal/srvx"
)

const canaryBound = 8 * time.Second

// extra (non-step) observations of a scenario
type extra struct {
	Line string // driver request ("" = oracle only)
	Impl string
	Case string
	// oracle verdict
	Bad    bool
	Sig    string
	Detail string
}

type scen struct {
	took time.Duration
	name string
	spec srvx.ChildSpec
	run  func(s *scen, e *srvx.Episode)
	ep   *srvx.Episode
	ex   []extra
	// canary result at the end (when the process is alive)
	canaryErr string
	canaryDur time.Duration
}

type keys struct {
	srvCert []byte
	cl      *srvx.Identity
}

var ks keys

func signChan(e *srvx.Episode) *srvx.Chan {
	ch, err := srvx.OpenStd(context.Background(), e.Child.URL, ua.SecurityPolicyURIBasic256Sha256, ua.MessageSecurityModeSign, ks.cl, ks.srvCert, 10*time.Second)
	if err != nil {
		e.Infra = "open Sign channel: " + err.Error()
		return nil
	}
	return ch
}

// goDuration is what Subscription.run computes from the requested interval.
func goInterval(ms float64) (int64, string) {
	dur := time.Duration(ms) // float64 -> int64 conversion of the Go compiler / CPU
	d := time.Millisecond * dur
	switch {
	case d <= 0:
		return int64(dur), "subms"
	case d < 60*time.Second:
		return int64(dur), "small"
	}
	return int64(dur), "huge"
}

func (s *scen) createSub(e *srvx.Episode, kind string, ms float64, keepalive uint32) srvx.Result {
	dur, cls := goInterval(ms)
	s.ex = append(s.ex, extra{Line: fmt.Sprintf("interval %d", dur), Impl: cls, Case: fmt.Sprintf("interval %v ms", ms)})
	e.PostWait = 0
	if cls == "subms" {
		e.PostWait = 3 * time.Second
	} else if cls == "small" {
		e.PostWait = time.Duration(float64(keepalive+3)*ms)*time.Millisecond + 1500*time.Millisecond
		if e.PostWait > 4*time.Second {
			e.PostWait = 400 * time.Millisecond // the first keep-alive is far away: nothing to wait for
		}
	}
	r := e.Do(kind, "createsub "+cls, srvx.CreateSubReq(ms, 100000, keepalive), fmt.Sprintf("interval=%v keepalive=%d", ms, keepalive))
	e.PostWait = 0
	if cr, ok := r.Resp.(*ua.CreateSubscriptionResponse); ok {
		rev := cr.RevisedPublishingInterval
		rdur, rcls := goInterval(rev)
		// the interval the server says it uses must be one the ticker accepts
		x := extra{Line: fmt.Sprintf("interval %d", rdur), Impl: rcls, Case: fmt.Sprintf("revised interval %v ms (requested %v)", rev, ms)}
		if rcls == "subms" && !e.Dead {
			x.Bad, x.Detail = true, fmt.Sprintf("CreateSubscription answered RevisedPublishingInterval=%v for a request of %v: not a usable interval", rev, ms)
		}
		s.ex = append(s.ex, x)
		if ms == math.Trunc(ms) && math.Abs(ms) < 1e15 {
			s.ex = append(s.ex, extra{Line: fmt.Sprintf("revise %d", int64(ms)), Impl: fmt.Sprintf("%d", int64(rev)), Case: fmt.Sprintf("revise %v", ms)})
		}
	}
	return r
}

// sub1 creates a subscription (huge interval) with one item, owned by the valid session.
func sub1(e *srvx.Episode) (uint32, uint32) {
	res := e.Do("valid", "createsub huge", srvx.CreateSubReq(3600000, 100000, 100000), "")
	cr, ok := res.Resp.(*ua.CreateSubscriptionResponse)
	if !ok {
		return 0, 0
	}
	r2 := e.Do("valid", fmt.Sprintf("createitems %d 1", cr.SubscriptionID), srvx.CreateItemsReq(cr.SubscriptionID, 1, srvx.TestVar()), "")
	ir, ok := r2.Resp.(*ua.CreateMonitoredItemsResponse)
	if !ok || len(ir.Results) != 1 {
		return cr.SubscriptionID, 0
	}
	return cr.SubscriptionID, ir.Results[0].MonitoredItemID
}

func browseStep(s *scen, e *srvx.Episode, node *ua.NodeID, refsTest bool, rt uint32, inc bool) {
	browseRef(s, e, node, refsTest, ua.NewNumericNodeID(0, rt), rt, inc)
}

// browseRef: rt is the numeric id the model is asked about (an id that is in no table for reference
// types outside namespace 0)
func browseRef(s *scen, e *srvx.Episode, node *ua.NodeID, refsTest bool, ref *ua.NodeID, rt uint32, inc bool) {
	// the browsed nodes (Objects folder 85 / the test folder) have forward references of types
	// Organizes(35), HasTypeDefinition(40) and HasComponent(47): another type is always present
	other := 1
	cls := "?"
	s.ex = append(s.ex, extra{Line: fmt.Sprintf("browsecls %d %d %d", rt, b2i(inc), other), Impl: "", Case: fmt.Sprintf("browse rt=%d inc=%v", rt, inc)})
	idx := len(s.ex) - 1
	pre := len(e.Recs)
	// the model request needs the class; it is taken from the outcome (crash in suitableRefType = loop)
	res := e.Do("missing", "browse PENDING "+fmt.Sprint(b2i(refsTest)), srvx.BrowseReq(node, ref, inc, ua.BrowseDirectionForward), fmt.Sprintf("refType=%v includeSubtypes=%v", ref, inc))
	_ = res
	if len(e.Recs) > pre {
		rec := &e.Recs[len(e.Recs)-1]
		cls = "plain"
		if strings.HasPrefix(rec.Out, "crash suitableRefType") {
			cls = "loop"
		}
		rec.Req = fmt.Sprintf("browse %s %d", cls, b2i(refsTest))
	}
	s.ex[idx].Impl = cls
}

func b2i(b bool) int {
	if b {
		return 1
	}
	return 0
}

func ids(xs ...uint32) string {
	if len(xs) == 0 {
		return "-"
	}
	s := make([]string, len(xs))
	for i, x := range xs {
		s[i] = fmt.Sprint(x)
	}
	return strings.Join(s, ",")
}

// ---------------------------------------------------------------- scenarios

func scenarios(o *h.Opts, rnd *h.Rand) []*scen {
	var out []*scen
	add := func(name string, spec srvx.ChildSpec, run func(s *scen, e *srvx.Episode)) {
		out = append(out, &scen{name: name, spec: spec, run: run})
	}

	// ---- the long harmless sequence: every service, odd but harmless arguments
	add("safe", srvx.ChildSpec{}, func(s *scen, e *srvx.Episode) {
		e.Cast()
		e.Do("missing", "findservers", &ua.FindServersRequest{}, "")
		e.Do("missing", "getendpoints", &ua.GetEndpointsRequest{EndpointURL: "x"}, "")
		e.Do("valid", "read", srvx.ReadReq(srvx.TestVar(), ua.AttributeIDValue), "")
		e.Do("valid", "write 77", srvx.WriteValueReq(srvx.TestVar(), 77), "")
		s.mustAnswer(e, "Read of a map-namespace variable", e.ChA.Do(srvx.ReadReq(srvx.TestMapVar(), ua.AttributeIDValue), nil, 6*time.Second))
		s.mustAnswer(e, "Write of a map-namespace variable", e.ChA.Do(srvx.WriteValueReq(srvx.TestMapVar(), 9), nil, 6*time.Second))
		e.Do("missing", "publish", srvx.PublishReq(), "")
		e.Do("unknown", "publish", srvx.PublishReq(), "")
		e.Do("valid2", "publish", srvx.PublishReq(), "")
		e.Do("closed", "activate 0 1", srvx.ActivateSessionReq(nil, ""), "")
		e.Do("unknown", "close", &ua.CloseSessionRequest{}, "")
		for _, n := range srvx.StubNames() {
			e.Do("valid", "other "+n, srvx.StubRequest(n), "")
		}
		// intervals that are fine
		for _, ms := range []float64{1, 50, 3600000, 1e9} {
			r := s.createSub(e, "valid", ms, 100000)
			if cr, ok := r.Resp.(*ua.CreateSubscriptionResponse); ok {
				e.Do("valid", "delsubs "+ids(cr.SubscriptionID), srvx.DeleteSubsReq(cr.SubscriptionID), "")
			}
		}
		sub, item := sub1(e)
		e.Do("valid", "setmode "+ids(item), srvx.SetModeReq(sub, item), "")
		e.Do("valid2", "setmode "+ids(item), srvx.SetModeReq(sub, item), "other session")
		e.Do("valid", "setmode -", srvx.SetModeReq(sub), "")
		e.Do("missing", "delitems -", srvx.DeleteItemsReq(sub), "")
		e.Do("valid2", fmt.Sprintf("createitems %d 1", sub), srvx.CreateItemsReq(sub, 1, srvx.TestVar()), "other session")
		e.Do("missing", "createitems 71 3", srvx.CreateItemsReq(71, 3, srvx.TestVar()), "unknown subscription")
		e.Do("valid2", "delsubs "+ids(sub, 71), srvx.DeleteSubsReq(sub, 71), "other session")
		e.Do("missing", "delsubs 71,72,73", srvx.DeleteSubsReq(71, 72, 73), "")
		e.Do("valid", "write 78", srvx.WriteValueReq(srvx.TestVar(), 78), "monitored node")
		e.Do("valid", "delitems "+ids(item), srvx.DeleteItemsReq(sub, item), "")
		e.Do("valid", "delsubs "+ids(sub), srvx.DeleteSubsReq(sub), "")
		// browse: every shape that is harmless according to the generated table is exercised by
		// sampling reference types; the crashing ones have their own scenarios
		browseStep(s, e, ua.NewNumericNodeID(0, 85), false, 0, false)
		browseStep(s, e, ua.NewNumericNodeID(0, 85), false, 33, true)
		browseStep(s, e, ua.NewNumericNodeID(0, 85), false, 35, false)
		browseStep(s, e, ua.NewNumericNodeID(0, 85), false, 40, false)
		browseStep(s, e, ua.NewNumericNodeID(0, 85), false, 999999, false)
		browseStep(s, e, ua.NewNumericNodeID(0, 85), false, 999999, true) // unknown reference type, subtypes wanted: getSubRefs of a missing node
		browseRef(s, e, ua.NewNumericNodeID(0, 85), false, ua.NewStringNodeID(77, "nope"), 999998, true)
		browseRef(s, e, srvx.TestFolder(), true, ua.NewNumericNodeID(3, 33), 999997, true)
		for _, rt := range []uint32{32, 36, 37, 38, 39, 41, 44, 45, 46, 47, 48, 49, 51, 52, 53, 54, 56, 117, 129, 131} {
			if o.Thorough() || rnd.Chance(35) {
				browseStep(s, e, ua.NewNumericNodeID(0, 85), false, rt, false)
			}
		}
		browseStep(s, e, srvx.TestFolder(), true, 0, true)
		// oversized and empty arrays (oracle only: the model has no element count)
		big := &ua.ReadRequest{}
		for i := 0; i < 5000; i++ {
			big.NodesToRead = append(big.NodesToRead, &ua.ReadValueID{NodeID: ua.NewNumericNodeID(uint16(i%4), uint32(i)), AttributeID: ua.AttributeID(i % 30)})
		}
		s.oracleOnly(e, "read of 5000 nodes", e.ChA.Do(big, nil, 20*time.Second))
		s.oracleOnly(e, "read of 0 nodes", e.ChA.Do(&ua.ReadRequest{}, nil, 5*time.Second))
		s.oracleOnly(e, "write of 0 nodes", e.ChA.Do(&ua.WriteRequest{}, nil, 5*time.Second))
		s.oracleOnly(e, "browse of 0 nodes", e.ChA.Do(&ua.BrowseRequest{View: &ua.ViewDescription{ViewID: ua.NewTwoByteNodeID(0)}}, nil, 5*time.Second))
		bb := &ua.BrowseRequest{View: &ua.ViewDescription{ViewID: ua.NewTwoByteNodeID(0)}}
		for i := 0; i < 300; i++ {
			bb.NodesToBrowse = append(bb.NodesToBrowse, &ua.BrowseDescription{NodeID: ua.NewNumericNodeID(uint16(i%3), uint32(80+i)), ReferenceTypeID: ua.NewNumericNodeID(0, 0), IncludeSubtypes: true, BrowseDirection: ua.BrowseDirection(i % 4), ResultMask: 63})
		}
		s.oracleOnly(e, "browse of 300 nodes", e.ChA.Do(bb, nil, 20*time.Second))
		s.oracleOnly(e, "read with out-of-range namespace / attribute", e.ChA.Do(&ua.ReadRequest{NodesToRead: []*ua.ReadValueID{
			{NodeID: ua.NewNumericNodeID(9999, 1), AttributeID: ua.AttributeIDValue}, {NodeID: srvx.TestVar(), AttributeID: 4000}, {NodeID: ua.NewGUIDNodeID(1, "72962B91-FA75-4AE6-8D28-B404DC7DAF63"), AttributeID: 0}}}, nil, 5*time.Second))
		// 300 PublishRequests of a valid session in one go: the queue holds 100, the rest is dropped
		if rc, err := srvx.OpenRawNone(context.Background(), e.Child.URL); err == nil {
			for i := 0; i < 300; i++ {
				rc.Send(srvx.PublishReq(), e.Valid.Tok, 2*time.Second)
			}
			srvx.WaitUntil(5*time.Second, func() bool {
				_, st := e.State()
				if st == nil {
					return true
				}
				for _, x := range st.Sessions {
					if x.Queued >= 100 {
						return true
					}
				}
				return false
			})
			rc.Close()
			s.oracleOnly(e, "300 queued PublishRequests", srvx.Result{Class: "sent"})
		}
		// finally the writes that brick the test node without killing the server
		e.Do("missing", "writeattr DataType novalue", srvx.WriteAttrReq(srvx.TestVar(), ua.AttributeIDDataType, &ua.DataValue{}), "")
		browseStep(s, e, srvx.TestFolder(), true, 0, true)
		e.Do("missing", "writeattr Access wrongtype", srvx.WriteAttrReq(srvx.TestVar(), ua.AttributeIDUserAccessLevel, &ua.DataValue{EncodingMask: ua.DataValueValue, Value: ua.MustVariant(int32(3))}), "")
		e.Do("valid", "read", srvx.ReadReq(srvx.TestVar(), ua.AttributeIDValue), "after UserAccessLevel was overwritten")
		e.Do("valid", "write 79", srvx.WriteValueReq(srvx.TestVar(), 79), "after UserAccessLevel was overwritten")
	})

	// ---- handler crashes, one server each
	add("findservers-no-endpoints", srvx.ChildSpec{NoSecurity: true}, func(s *scen, e *srvx.Episode) {
		if e.NoChannel {
			s.oracleOnly(e, "a server without enabled security accepts no channel: FindServers cannot be reached", srvx.Result{Class: "no-channel"})
			return
		}
		e.Do("missing", "getendpoints", &ua.GetEndpointsRequest{EndpointURL: "x"}, "")
		e.Do("missing", "findservers", &ua.FindServersRequest{}, "server without EnableSecurity")
	})
	add("createsession-certs-on-sign-channel", srvx.ChildSpec{}, func(s *scen, e *srvx.Episode) {
		ch := signChan(e)
		if ch == nil {
			return
		}
		defer ch.Close()
		e.DoOn(ch, "missing", "createsession ? 1 rsa", srvx.CreateSessionReq(e.Child.URL, ks.cl.Cert), "")
		e.DoOn(ch, "missing", "createsession ? 1 unparsable", srvx.CreateSessionReq(e.Child.URL, []byte{0x30, 0x03, 0x02, 0x01, 0x01}), "")
		e.DoOn(ch, "missing", "createsession ? 1 nonrsa", srvx.CreateSessionReq(e.Child.URL, srvx.NonRSACert()), "ECDSA client certificate")
	})
	add("activatesession-nonrsa-on-sign-channel", srvx.ChildSpec{}, func(s *scen, e *srvx.Episode) {
		ch := signChan(e)
		if ch == nil {
			return
		}
		defer ch.Close()
		// an RSA session activated with a wrong signature is refused …
		r := e.Do("missing", "createsession ? 0 rsa", srvx.CreateSessionReq(e.Child.URL, ks.cl.Cert), "")
		if cr, ok := r.Resp.(*ua.CreateSessionResponse); ok {
			e.Valid = &srvx.Sess{Idx: e.TokIdx[cr.AuthenticationToken.String()], Tok: cr.AuthenticationToken}
			e.DoOn(ch, "valid", "activate 1 0", srvx.ActivateSessionReq([]byte{1, 2, 3}, "x"), "wrong signature")
		}
		// … a session created (over an unsecured channel) with an ECDSA certificate kills the server
		r = e.Do("missing", "createsession ? 0 nonrsa", srvx.CreateSessionReq(e.Child.URL, srvx.NonRSACert()), "")
		if cr, ok := r.Resp.(*ua.CreateSessionResponse); ok {
			e.Valid = &srvx.Sess{Idx: e.TokIdx[cr.AuthenticationToken.String()], Tok: cr.AuthenticationToken}
			e.DoOn(ch, "valid", "activate 1 0", srvx.ActivateSessionReq([]byte{1, 2, 3}, "x"), "session with ECDSA certificate")
		}
	})
	intervals := []float64{0, 0.5, math.NaN(), 9.3e15}
	if o.Thorough() {
		intervals = append(intervals, -5, math.Inf(1), 1e300, 0.999)
	}
	for _, ms := range intervals {
		ms := ms
		add(fmt.Sprintf("createsub-interval-%v", ms), srvx.ChildSpec{}, func(s *scen, e *srvx.Episode) {
			e.Cast()
			s.createSub(e, "valid", ms, 3)
		})
	}
	add("createsub-no-session-tick", srvx.ChildSpec{}, func(s *scen, e *srvx.Episode) {
		e.Cast()
		s.createSub(e, "missing", 20, 0)
	})
	add("delsubs-no-session", srvx.ChildSpec{}, func(s *scen, e *srvx.Episode) {
		e.Cast()
		sub, _ := sub1(e)
		e.Do("unknown", "delsubs "+ids(71, sub), srvx.DeleteSubsReq(71, sub), "existing subscription, unknown token")
	})
	add("delsubs-nil-owner", srvx.ChildSpec{}, func(s *scen, e *srvx.Episode) {
		e.Cast()
		r := e.Do("missing", "createsub huge", srvx.CreateSubReq(3600000, 100000, 100000), "")
		if cr, ok := r.Resp.(*ua.CreateSubscriptionResponse); ok {
			e.Do("valid", "delsubs "+ids(cr.SubscriptionID), srvx.DeleteSubsReq(cr.SubscriptionID), "activated session deletes a subscription that was created without session")
		}
	})
	add("createitems-no-session", srvx.ChildSpec{}, func(s *scen, e *srvx.Episode) {
		e.Cast()
		sub, _ := sub1(e)
		e.Do("closed", fmt.Sprintf("createitems %d 1", sub), srvx.CreateItemsReq(sub, 1, srvx.TestVar()), "existing subscription, closed session")
	})
	add("createitems-nil-owner", srvx.ChildSpec{}, func(s *scen, e *srvx.Episode) {
		e.Cast()
		r := e.Do("unknownstr", "createsub huge", srvx.CreateSubReq(3600000, 100000, 100000), "")
		if cr, ok := r.Resp.(*ua.CreateSubscriptionResponse); ok {
			e.Do("valid", fmt.Sprintf("createitems %d 1", cr.SubscriptionID), srvx.CreateItemsReq(cr.SubscriptionID, 1, srvx.TestVar()), "subscription created without session")
		}
	})
	add("setmode-unknown-id", srvx.ChildSpec{}, func(s *scen, e *srvx.Episode) {
		e.Cast()
		sub, item := sub1(e)
		e.Do("valid", "setmode "+ids(item, 4711), srvx.SetModeReq(sub, item, 4711), "activated session, unknown item id")
	})
	add("setmode-no-session", srvx.ChildSpec{}, func(s *scen, e *srvx.Episode) {
		e.Cast()
		sub, item := sub1(e)
		e.Do("missing", "setmode "+ids(item), srvx.SetModeReq(sub, item), "existing item, no session")
	})
	add("delitems-unknown-id", srvx.ChildSpec{}, func(s *scen, e *srvx.Episode) {
		e.Cast()
		sub, _ := sub1(e)
		e.Do("valid", "delitems 4711", srvx.DeleteItemsReq(sub, 4711), "activated session, unknown item id")
	})
	add("delitems-no-session", srvx.ChildSpec{}, func(s *scen, e *srvx.Episode) {
		e.Cast()
		sub, item := sub1(e)
		e.Do("unknown", "delitems "+ids(item), srvx.DeleteItemsReq(sub, item), "existing item, unknown token")
	})
	loopTypes := []uint32{33}
	if o.Thorough() {
		loopTypes = []uint32{31, 33, 34}
	} else {
		loopTypes = append(loopTypes, []uint32{31, 34}[rnd.Intn(2)])
	}
	for _, rt := range loopTypes {
		rt := rt
		add(fmt.Sprintf("browse-loop-%d", rt), srvx.ChildSpec{}, func(s *scen, e *srvx.Episode) {
			browseStep(s, e, ua.NewNumericNodeID(0, 85), false, rt, false)
		})
	}
	add("browse-datatype-overwritten", srvx.ChildSpec{}, func(s *scen, e *srvx.Episode) {
		e.Do("missing", "writeattr DataType wrongtype", srvx.WriteAttrReq(srvx.TestVar(), ua.AttributeIDDataType, &ua.DataValue{EncodingMask: ua.DataValueValue, Value: ua.MustVariant(int32(3))}), "no session")
		browseStep(s, e, srvx.TestFolder(), true, 0, true)
	})

	// ---- monitored items must not outlive their subscription: 120 value changes of the node afterwards
	add("items-after-subscription-delete", srvx.ChildSpec{}, func(s *scen, e *srvx.Episode) {
		e.Cast()
		for round, n := range []int{5, 2} {
			res := e.Do("valid", "createsub huge", srvx.CreateSubReq(3600000, 100000, 100000), "")
			cr, ok := res.Resp.(*ua.CreateSubscriptionResponse)
			if !ok {
				return
			}
			e.Do("valid", fmt.Sprintf("createitems %d %d", cr.SubscriptionID, n), srvx.CreateItemsReq(cr.SubscriptionID, n, srvx.TestVar()), "")
			e.Do("valid", "delsubs "+ids(cr.SubscriptionID), srvx.DeleteSubsReq(cr.SubscriptionID), "")
			for i := 0; i < 120 && !e.Dead; i++ {
				r := e.ChA.Do(srvx.WriteValueReq(srvx.TestVar(), int32(1000*round+i)), e.Valid.Tok, 5*time.Second)
				if r.Class != "ok" {
					x := extra{Case: fmt.Sprintf("Write #%d of the formerly monitored node after its subscription was deleted", i+1), Impl: r.Class, Bad: true,
						Detail: fmt.Sprintf("after deleting a subscription with %d monitored items, write #%d to the node got %q: notifications for leaked items block the dispatcher", n, i+1, r.String())}
					if e.Child.WaitExit(500 * time.Millisecond) {
						site, msg := e.Child.CrashSite()
						x.Detail += fmt.Sprintf(" (process died in %s [%s])", site, msg)
						e.Dead = true
					}
					s.ex = append(s.ex, x)
					return
				}
			}
			s.oracleOnly(e, fmt.Sprintf("120 writes after deleting a subscription with %d items", n), srvx.Result{Class: "ok"})
			e.Do("valid", "read", srvx.ReadReq(srvx.TestVar(), ua.AttributeIDValue), "tables after the writes")
		}
	})

	// ---- several clients at once: handlers rely on being run one at a time
	add("concurrent-clients", srvx.ChildSpec{}, func(s *scen, e *srvx.Episode) {
		var wg sync.WaitGroup
		for c := 0; c < 8; c++ {
			wg.Add(1)
			go func(c int) {
				defer wg.Done()
				ch, err := srvx.OpenStd(context.Background(), e.Child.URL, ua.SecurityPolicyURINone, ua.MessageSecurityModeNone, nil, nil, 8*time.Second)
				if err != nil {
					return
				}
				defer ch.Close()
				// requests are pipelined (not one at a time per client) so that a server which handles
				// them concurrently really has several in flight on the same node
				rc, err := srvx.OpenRawNone(context.Background(), e.Child.URL)
				if err != nil {
					return
				}
				defer rc.Close()
				go func() { // keep reading so that the responses do not pile up
					for {
						rc.Conn.SetReadDeadline(time.Now().Add(10 * time.Second))
						if _, err := rc.Conn.Receive(); err != nil {
							return
						}
					}
				}()
				for i := 0; i < 400; i++ {
					if e.Child.Exited() {
						return
					}
					dv := &ua.DataValue{EncodingMask: ua.DataValueValue, Value: ua.MustVariant(ua.NewLocalizedText(fmt.Sprintf("c%d-%d", c, i)))}
					rc.Send(srvx.WriteAttrReq(srvx.TestBigVar(), ua.AttributeID(20+c+i%40), dv), nil, 5*time.Second)
					rc.Send(srvx.ReadReq(srvx.TestBigVar(), ua.AttributeIDDescription), nil, 5*time.Second)
				}
				ch.Do(srvx.BrowseReq(srvx.TestFolder(), ua.NewNumericNodeID(0, 0), true, ua.BrowseDirectionBoth), nil, 10*time.Second)
			}(c)
		}
		wg.Wait()
		s.oracleOnly(e, "8 clients x 400 pipelined (Write attribute, Read) on one node", srvx.Result{Class: "done"})
	})

	// ---- a subscription whose publish loop is stalled by its own non-reading connection, then value
	// changes of the monitored node written over another connection
	add("stalled-subscription", srvx.ChildSpec{}, func(s *scen, e *srvx.Episode) { s.stalledSubscription(e) })

	// ---- raw frames straight after the handshake and on an open channel
	add("raw-frames", srvx.ChildSpec{}, func(s *scen, e *srvx.Episode) { s.rawFrames(e) })

	// ---- a node of a map-backed namespace: read, write, browse, monitored
	add("map-namespace", srvx.ChildSpec{}, func(s *scen, e *srvx.Episode) {
		e.Cast()
		tok := e.Valid.Tok
		m := srvx.TestMapVar()
		s.mustAnswer(e, "Read of a map-namespace variable", e.ChA.Do(srvx.ReadReq(m, ua.AttributeIDValue), nil, 6*time.Second))
		s.mustAnswer(e, "Write of a map-namespace variable", e.ChA.Do(srvx.WriteValueReq(m, 8), nil, 6*time.Second))
		s.mustAnswer(e, "Browse of the map namespace's Objects folder", e.ChA.Do(srvx.BrowseReq(ua.NewNumericNodeID(2, 85), ua.NewNumericNodeID(0, 0), true, ua.BrowseDirectionBoth), nil, 6*time.Second))
		res := e.Do("valid", "createsub huge", srvx.CreateSubReq(3600000, 100000, 100000), "")
		cr, ok := res.Resp.(*ua.CreateSubscriptionResponse)
		if !ok {
			return
		}
		e.Do("valid", fmt.Sprintf("createitems %d 2", cr.SubscriptionID), srvx.CreateItemsReq(cr.SubscriptionID, 2, m), "monitored items on a map-namespace variable")
		for i := 0; i < 5 && !e.Dead; i++ {
			if !s.mustAnswer(e, fmt.Sprintf("Write #%d of the monitored map-namespace variable", i+1), e.ChA.Do(srvx.WriteValueReq(m, int32(20+i)), tok, 6*time.Second)) {
				return
			}
		}
		s.mustAnswer(e, "Read of the monitored map-namespace variable", e.ChB.Do(srvx.ReadReq(m, ua.AttributeIDValue), nil, 6*time.Second))
		s.mustAnswer(e, "Write of a text variable of the map namespace", e.ChA.Do(srvx.WriteAttrReq(ua.NewStringNodeID(2, "t"), ua.AttributeIDValue, &ua.DataValue{EncodingMask: ua.DataValueValue, Value: ua.MustVariant("x")}), tok, 6*time.Second))
		e.Do("valid", "delsubs "+ids(cr.SubscriptionID), srvx.DeleteSubsReq(cr.SubscriptionID), "")
	})

	// ---- channel level
	add("signed-chunks", srvx.ChildSpec{}, func(s *scen, e *srvx.Episode) {
		for _, n := range []int{12, 16, 17, 24, 31, 32, 40, 100} {
			s.signedChunk(e, n)
		}
	})
	add("secure-opn-to-keyless-server", srvx.ChildSpec{NoKey: true}, func(s *scen, e *srvx.Episode) {
		ctx, cancel := context.WithTimeout(context.Background(), 3*time.Second)
		_, err := srvx.OpenStd(ctx, e.Child.URL, ua.SecurityPolicyURIBasic256Sha256, ua.MessageSecurityModeSign, ks.cl, ks.srvCert, 2*time.Second)
		cancel()
		s.oracleOnly(e, "Basic256Sha256 OPN to a server without private key", srvx.Result{Class: fmt.Sprintf("open: %v", err != nil)})
	})

	// ---- hang
	add("nonreading-client", srvx.ChildSpec{}, func(s *scen, e *srvx.Episode) { s.nonReading(e) })
	return out
}

// mustAnswer: a harmless request has to be answered (any answer); no answer = the dispatcher is stuck.
func (s *scen) mustAnswer(e *srvx.Episode, what string, res srvx.Result) bool {
	x := extra{Case: what, Impl: res.Class}
	ok := true
	if res.Class == "noresponse" || res.Class == "closed" {
		ok = false
		x.Bad = true
		x.Detail = fmt.Sprintf("%s: %s", what, res.String())
		if e.Child.WaitExit(time.Second) {
			site, msg := e.Child.CrashSite()
			x.Detail += fmt.Sprintf(" — the server process died in %s [%s]", site, msg)
			e.Dead = true
		} else if _, cerr := srvx.Canary(e.Child.URL, canaryBound); cerr != nil {
			x.Detail += fmt.Sprintf(" — and a canary client is not answered either (%v): the dispatcher is blocked", cerr)
			e.NoChannel = true
		}
	}
	s.ex = append(s.ex, x)
	return ok
}

// rawFrames sends frames that no client library produces, each on its own connection.
func (s *scen) rawFrames(e *srvx.Episode) {
	frame := func(typ string, declared uint32, total int) []byte {
		b := make([]byte, total)
		copy(b, typ)
		if total >= 8 {
			b[4], b[5], b[6], b[7] = byte(declared), byte(declared>>8), byte(declared>>16), byte(declared>>24)
		}
		for i := 8; i < total; i++ {
			b[i] = byte(0xA0 + i)
		}
		return b
	}
	type fr struct {
		name     string
		b        []byte
		declared uint32
		afterOPN bool
	}
	var frames []fr
	for _, n := range []int{8, 9, 10, 11, 12, 13, 16, 23, 24} {
		frames = append(frames, fr{fmt.Sprintf("MSGF of %d bytes after HEL/ACK", n), frame("MSGF", uint32(n), n), uint32(n), false})
	}
	for _, n := range []int{8, 11, 12, 20, 40} {
		frames = append(frames, fr{fmt.Sprintf("OPNF of %d bytes after HEL/ACK", n), frame("OPNF", uint32(n), n), uint32(n), false})
	}
	frames = append(frames,
		fr{"CLOF of 8 bytes", frame("CLOF", 8, 8), 8, false},
		fr{"unknown type XYZF of 8 bytes", frame("XYZF", 8, 8), 8, false},
		fr{"unknown type XYZF of 16 bytes", frame("XYZF", 16, 16), 16, false},
		fr{"MSGF declaring 4 bytes", frame("MSGF", 4, 8), 4, false},
		fr{"MSGF declaring 0 bytes", frame("MSGF", 0, 8), 0, false},
		fr{"MSGF declaring 4 GiB", frame("MSGF", 0xFFFFFFFF, 64), 0xFFFFFFFF, false},
		fr{"MSGF declaring 100 bytes, 20 sent, then close", frame("MSGF", 100, 20), 100, false},
		fr{"second HELF", frame("HELF", 32, 32), 32, false},
	)
	for _, n := range []int{8, 11, 12, 15, 16, 20, 23, 24, 30} {
		frames = append(frames, fr{fmt.Sprintf("MSGF of %d bytes on an open channel", n), frame("MSGF", uint32(n), n), uint32(n), true})
	}
	frames = append(frames, fr{"MSGA of 12 bytes on an open channel", frame("MSGA", 12, 12), 12, true},
		fr{"MSGC of 24 bytes on an open channel", frame("MSGC", 24, 24), 24, true})
	for _, f := range frames {
		if e.Dead {
			return
		}
		ctx, cancel := context.WithTimeout(context.Background(), 10*time.Second)
		var conn *uacp.Conn
		if f.afterOPN {
			rc, err := srvx.OpenRawNone(ctx, e.Child.URL)
			if err != nil {
				cancel()
				e.Infra = "raw channel: " + err.Error()
				return
			}
			conn = rc.Conn
			// the frame must name the channel it arrives on
			if len(f.b) >= 12 {
				f.b[8], f.b[9], f.b[10], f.b[11] = byte(rc.ChannelID), byte(rc.ChannelID>>8), byte(rc.ChannelID>>16), byte(rc.ChannelID>>24)
			}
			if len(f.b) >= 16 {
				f.b[12], f.b[13], f.b[14], f.b[15] = byte(rc.TokenID), byte(rc.TokenID>>8), byte(rc.TokenID>>16), byte(rc.TokenID>>24)
			}
		} else {
			c, err := uacp.Dial(ctx, e.Child.URL)
			if err != nil {
				cancel()
				e.Infra = "dial: " + err.Error()
				return
			}
			conn = c
		}
		conn.Write(f.b)
		x := extra{Line: fmt.Sprintf("rawframe %d", f.declared), Case: f.name, Impl: "noresponse"}
		if e.Child.WaitExit(250 * time.Millisecond) {
			site, msg := e.Child.CrashSite()
			x.Impl = "crash " + site
			x.Bad = true
			x.Detail = fmt.Sprintf("%s kills the server process in %s [%s]", f.name, site, msg)
			e.Dead = true
		}
		s.ex = append(s.ex, x)
		conn.Close()
		cancel()
	}
}

// oracleOnly records a step the model does not describe: only liveness counts.
func (s *scen) oracleOnly(e *srvx.Episode, what string, res srvx.Result) {
	x := extra{Case: what, Impl: res.Class}
	if e.Child.WaitExit(300 * time.Millisecond) {
		site, msg := e.Child.CrashSite()
		x.Bad, x.Sig, x.Detail = true, "", fmt.Sprintf("%s: server process died in %s [%s]", what, site, msg)
		e.Dead = true
	}
	s.ex = append(s.ex, x)
}

// signedChunk sends a MSG chunk of n bytes (valid channel and token id, garbage otherwise) on a
// Basic256Sha256 / Sign channel.
func (s *scen) signedChunk(e *srvx.Episode, n int) {
	if e.Dead {
		return
	}
	ch := signChan(e)
	if ch == nil {
		return
	}
	act := ch.SC.VerifActive()
	cid, tid := act.IDs()
	b := make([]byte, n)
	copy(b, []byte{'M', 'S', 'G', 'F', byte(n), byte(n >> 8), 0, 0, byte(cid), byte(cid >> 8), byte(cid >> 16), byte(cid >> 24)})
	if n >= 16 {
		copy(b[12:], []byte{byte(tid), byte(tid >> 8), byte(tid >> 16), byte(tid >> 24)})
	}
	ch.Conn.Write(b)
	x := extra{Line: fmt.Sprintf("signedchunk %d 32", n), Case: fmt.Sprintf("MSG chunk of %d bytes on a Sign channel", n), Impl: "noresponse"}
	if e.Child.WaitExit(1500 * time.Millisecond) {
		site, msg := e.Child.CrashSite()
		x.Impl = "crash " + site
		x.Bad, x.Sig = true, "C29.uasc-short-signed-chunk"
		x.Detail = fmt.Sprintf("a %d-byte MSG chunk on a Basic256Sha256/Sign channel kills the server process in %s [%s]", n, site, msg)
		e.Dead = true
	}
	s.ex = append(s.ex, x)
	ch.Conn.Close()
}

// stalledSubscription: connection A creates a subscription with one monitored item on a node
// holding a large value, sends PublishRequests and never reads; connection B (which reads) keeps
// writing the node.  The subscription goroutine ends up blocked sending to A; does B still get answers?
func (s *scen) stalledSubscription(e *srvx.Episode) {
	e.Cast()
	tok := e.Valid.Tok
	a, err := srvx.OpenRawNone(context.Background(), e.Child.URL)
	if err != nil {
		e.Infra = "raw channel: " + err.Error()
		return
	}
	defer a.Close()
	big := func(i int) *ua.WriteRequest {
		b := bytes.Repeat([]byte{byte(i)}, 1<<20)
		return srvx.WriteAttrReq(srvx.TestBigVar(), ua.AttributeIDValue, &ua.DataValue{EncodingMask: ua.DataValueValue, Value: ua.MustVariant(b)})
	}
	if r := e.ChA.Do(big(0), tok, 10*time.Second); r.Class != "ok" {
		e.Infra = "initial write: " + r.String()
		return
	}
	a.Send(srvx.CreateSubReq(5, 1000000, 1000000), tok, 5*time.Second)
	resp, err := a.Recv(10 * time.Second)
	cs, ok := resp.(*ua.CreateSubscriptionResponse)
	if err != nil || !ok {
		e.Infra = fmt.Sprintf("CreateSubscription over the raw channel: %T %v", resp, err)
		return
	}
	a.Send(srvx.CreateItemsReq(cs.SubscriptionID, 1, srvx.TestBigVar()), tok, 5*time.Second)
	if _, err := a.Recv(10 * time.Second); err != nil {
		e.Infra = "CreateMonitoredItems over the raw channel: " + err.Error()
		return
	}
	// from here on A never reads
	written, blockedAt := 0, -1
	var last srvx.Result
	for i := 1; i <= 400; i++ {
		if i%2 == 1 {
			for k := 0; k < 4; k++ {
				a.Send(srvx.PublishReq(), tok, 2*time.Second) // keeps the publish queue filled; errors (socket full) do not matter
			}
		}
		last = e.ChA.Do(big(i), tok, 10*time.Second)
		if last.Class != "ok" {
			blockedAt = i
			break
		}
		written++
	}
	x := extra{Case: fmt.Sprintf("subscription stalled by its non-reading connection, %d writes of the monitored node answered", written), Impl: "served"}
	if blockedAt > 0 {
		x.Impl = "blocked"
		// is it the dispatcher (everybody) and does it survive the departure of connection A?
		_, c1 := srvx.Canary(e.Child.URL, canaryBound)
		a.Close()
		time.Sleep(2 * time.Second)
		d2, c2 := srvx.Canary(e.Child.URL, canaryBound)
		x.Bad = true
		x.Sig = "C29.notifychannel-send-under-mutex-blocks-dispatcher"
		x.Detail = fmt.Sprintf("write #%d of the monitored node got %q; canary while the stalled connection is open: err=%v; after it was closed: %v err=%v", blockedAt, last.String(), c1, d2.Round(time.Millisecond), c2)
		if c1 == nil {
			x.Sig = "" // only the writer is stuck: something else
		}
		if e.Child.Exited() {
			site, msg := e.Child.CrashSite()
			x.Sig, x.Detail = "", x.Detail+fmt.Sprintf(" — the process died in %s [%s]", site, msg)
			e.Dead = true
		}
		e.Infra = ""
		e.NoChannel = true // no end-of-scenario canary: the verdict is above
		// the model: the goroutine received d notifications before it stalled; the channel holds 100
		if d := blockedAt - 1 - 100; d >= 0 && d <= 2*blockedAt {
			x.Line = fmt.Sprintf("notify %d %d", d, blockedAt)
			s.ex = append(s.ex, extra{Line: fmt.Sprintf("notify %d %d", d, blockedAt-1), Impl: "served", Case: "the write before"})
			after := "served"
			if c2 != nil {
				after = "blocked"
			}
			s.ex = append(s.ex, extra{Line: fmt.Sprintf("notifyafterclose %d %d", d, blockedAt), Impl: after, Case: "another client after the stalled connection was closed"})
		} else {
			x.Line = fmt.Sprintf("notify 0 %d", blockedAt) // fewer than 100 queued notifications cannot block: let the model object
		}
	} else {
		x.Line = "notify 0 400"
	}
	s.ex = append(s.ex, x)
}

// nonReading: a client sends requests and never reads the answers.
func (s *scen) nonReading(e *srvx.Episode) {
	rc, err := srvx.OpenRawNone(context.Background(), e.Child.URL)
	if err != nil {
		e.Infra = "raw channel: " + err.Error()
		return
	}
	defer rc.Close()
	if d, err := srvx.Canary(e.Child.URL, canaryBound); err != nil {
		e.Infra = fmt.Sprintf("canary before the attack: %v (%v)", err, d)
		return
	}
	const n, resp = 3000, 60000
	sent := 0
	for ; sent < n; sent++ {
		if err := rc.Send(srvx.ReadReq(srvx.TestBigVar(), ua.AttributeIDValue), nil, 2*time.Second); err != nil {
			break // the server no longer takes our requests either
		}
	}
	// once the dispatcher is blocked it stays blocked while we stay connected: probe a few times
	var d time.Duration
	var cerr error
	for i := 0; i < 6 && cerr == nil; i++ {
		time.Sleep(time.Second)
		d, cerr = srvx.Canary(e.Child.URL, canaryBound)
	}
	x := extra{Case: fmt.Sprintf("client sends %d ReadRequests (60 kB answers) and never reads", sent), Impl: "served"}
	if sent*resp > 4*(16<<20) {
		// far beyond anything socket buffers hold (16 MiB assumed as an upper bound)
		x.Line = fmt.Sprintf("hang %d %d %d", 16<<20, resp, sent)
	}
	if cerr != nil {
		x.Impl = "blocked"
		// the block must be caused by the attacker: after it disconnects the canary works again
		rc.Close()
		d2, err2 := srvx.Canary(e.Child.URL, canaryBound)
		x.Bad, x.Sig = true, "C29.nonreading-client-blocks-dispatcher"
		x.Detail = fmt.Sprintf("after %d requests of a client that does not read, another client's Read got no answer within %v (%v); after the first client disconnected it was answered in %v (err=%v)", sent, canaryBound, cerr, d2.Round(time.Millisecond), err2)
		if err2 != nil {
			x.Sig = ""
			x.Detail += " — the server did not recover"
		}
	} else {
		x.Detail = fmt.Sprintf("canary answered in %v", d.Round(time.Millisecond))
	}
	s.ex = append(s.ex, x)
}

// ---------------------------------------------------------------- evaluation

func sigOf(rec srvx.Rec) string {
	site := strings.TrimPrefix(rec.Out, "crash ")
	req := strings.Fields(rec.Req)
	unknownID := func() bool {
		if len(req) < 2 {
			return false
		}
		have := map[string]bool{}
		for _, f := range strings.Fields(rec.Pre) {
			if strings.HasPrefix(f, "I=") && f != "I=-" {
				for _, it := range strings.Split(f[2:], ",") {
					have[strings.Split(it, ":")[0]] = true
				}
			}
		}
		for _, id := range strings.Split(req[1], ",") {
			if id != "-" && !have[id] {
				return true
			}
		}
		return false
	}
	switch site {
	case "DiscoveryService.FindServers":
		return "C29.findservers-no-endpoints"
	case "SecureChannel.NewSessionSignature":
		return "C29.createsession-nonrsa-certificate"
	case "SecureChannel.VerifySessionSignature":
		return "C29.activatesession-nonrsa-certificate"
	case "Subscription.run":
		if strings.Contains(rec.Note, "NewTicker") {
			return "C29.createsubscription-nonpositive-interval"
		}
		return "C29.createsubscription-nil-session-tick"
	case "SubscriptionService.DeleteSubscriptions":
		return "C29.deletesubscriptions-nil-session"
	case "MonitoredItemService.CreateMonitoredItems":
		return "C29.createmonitoreditems-nil-session"
	case "MonitoredItemService.SetMonitoringMode":
		if unknownID() {
			return "C29.setmonitoringmode-unknown-id"
		}
		return "C29.setmonitoringmode-nil-session"
	case "MonitoredItemService.DeleteMonitoredItems":
		if unknownID() {
			return "C29.deletemonitoreditems-unknown-id"
		}
		return "C29.deletemonitoreditems-nil-session"
	case "suitableRefType":
		return "C29.browse-suitablereftype-loop"
	case "Node.DataType":
		return "C29.browse-datatype-type-assertion"
	}
	return ""
}

func evaluate(r *h.Result, d *h.Driver, s *scen) {
	e := s.ep
	if e.Infra != "" {
		r.InfraError = s.name + ": " + e.Infra
	}
	r.Hit("scenario:" + strings.SplitN(s.name, "-", 2)[0])
	for _, x := range e.Recs {
		cs := fmt.Sprintf("scen=%s step=%d kind=%s req=%s", s.name, x.N, x.Kind, strings.ReplaceAll(x.Req, " ", "_"))
		line := fmt.Sprintf("step %s | %d | %s", x.Pre, x.Tok, x.Req)
		r.Count(s.name+" "+line, true)
		crashed := strings.HasPrefix(x.Out, "crash")
		if d != nil {
			m := d.Ask(line)
			impl := x.Out + " | " + x.Post
			if crashed {
				// the tables of a dead process cannot be read: only the outcome is compared
				m = strings.SplitN(m, " | ", 2)[0]
				impl = x.Out
			}
			if m != impl {
				r.Disagree(line, m, impl)
			}
			sf := d.Ask(fmt.Sprintf("safe %s | %d | %s", x.Pre, x.Tok, x.Req))
			if (sf == "0") != crashed {
				r.Disagree("safe "+line, sf, fmt.Sprintf("crashed=%v", crashed))
			}
		}
		r.Hit("req:" + strings.Fields(x.Req)[0])
		r.Hit("out:" + strings.Fields(x.Out)[0])
		if crashed {
			sig := sigOf(x)
			detail := fmt.Sprintf("%s (token kind %s) %s: server process died: %s %s", x.Req, x.Kind, x.Note, x.Out, "")
			r.Fail(cs, sig, detail)
			if sig != "" {
				r.Confirm(sig, detail)
				r.Compare(d, fmt.Sprintf("sig29 %s | %d | %s", x.Pre, x.Tok, x.Req), sig)
			}
			r.Hit("crash:" + sig)
			r.Sample(cs + " -> " + x.Out)
		}
	}
	for i, x := range s.ex {
		cs := fmt.Sprintf("scen=%s extra=%d %s", s.name, i, x.Case)
		r.Count(cs+" "+x.Line, true)
		if x.Line != "" {
			r.Compare(d, x.Line, x.Impl)
			r.Hit("extra:" + strings.Fields(x.Line)[0] + ":" + strings.Fields(x.Impl + " ?")[0])
		} else {
			r.Hit("oracle-only")
		}
		if x.Bad {
			r.Fail(cs, x.Sig, x.Detail)
			if x.Sig != "" {
				r.Confirm(x.Sig, x.Detail)
			}
			r.Sample(cs + " -> " + x.Detail)
		}
	}
	// liveness at the end of a scenario that did not kill the server
	if !e.Dead && e.Infra == "" && !e.NoChannel {
		r.Count("canary "+s.name, false)
		if s.canaryErr != "" {
			r.Fail("scen="+s.name+" canary", "", fmt.Sprintf("server alive but the canary client was not answered within %v: %s", canaryBound, s.canaryErr))
		} else {
			r.Hit("canary-ok")
		}
	}
}

func main() {
	srvx.MaybeChild()
	o := h.ParseOpts()
	srvx.Quiet()
	r := h.NewResult("C29", o)
	d, err := h.StartDriver(o.Driver)
	if err != nil {
		r.InfraError = err.Error()
		r.Write(o.Out)
		return
	}
	defer d.Close()
	rnd := h.NewRand(o.Seed)
	r.Rule = "case = (server state, token, request) or a channel-level input; every scenario runs against its own server child process: one long harmless sequence over all 14 implemented services, the 23 stubs, odd intervals, oversized / empty arrays, 300 PublishRequests, attribute overwrites; one scenario per crashing call site and shape (FindServers without endpoints, CreateSession / ActivateSession with a non-RSA certificate on a signed channel, publishing intervals 0 / 0.5 / NaN / overflowing, subscription without session, nil sessions and unknown ids in DeleteSubscriptions / CreateMonitoredItems / SetMonitoringMode / DeleteMonitoredItems, Browse with IncludeSubtypes=false on reference types whose subtype list contains HasSubtype, Browse after the DataType attribute was overwritten), short signed chunks, a secure OPN to a key-less server, a client that never reads; after each step: process alive? tables; at the end a canary client; compared with the Lean step / safe / sig29 / browsecls / interval / signedchunk / hang functions"

	ka, err := h.LoadKey(o.Keys, 2048, "a")
	kb, err2 := h.LoadKey(o.Keys, 2048, "b")
	if err != nil || err2 != nil {
		r.InfraError = fmt.Sprint("keys: ", err, err2)
		r.Write(o.Out)
		return
	}
	ks = keys{srvCert: ka.CertDER, cl: &srvx.Identity{Key: kb.Key, Cert: kb.CertDER}}

	scens := scenarios(o, rnd)
	if o.Replay != "" {
		var keep []*scen
		for _, s := range scens {
			if strings.Contains(o.Replay+" ", "scen="+s.name+" ") {
				keep = append(keep, s)
			}
		}
		scens = keep
	}
	sem := make(chan struct{}, 8)
	var wg sync.WaitGroup
	for _, s := range scens {
		s.ep = srvx.NewEpisode(s.name, o, rnd.Fork(), s.spec)
		wg.Add(1)
		sem <- struct{}{}
		go func(s *scen) {
			defer wg.Done()
			defer func() { <-sem }()
			t0 := time.Now()
			defer func() { s.took = time.Since(t0) }()
			defer s.ep.Finish()
			if !s.ep.Setup() {
				return
			}
			s.run(s, s.ep)
			if !s.ep.Dead && s.ep.Infra == "" && !s.ep.NoChannel {
				if s.ep.Child.WaitExit(300 * time.Millisecond) {
					s.ep.Dead = true
					site, msg := s.ep.Child.CrashSite()
					s.ex = append(s.ex, extra{Case: "end of scenario", Bad: true, Detail: fmt.Sprintf("server process died after the scenario in %s [%s]", site, msg)})
					return
				}
				dur, err := srvx.Canary(s.ep.Child.URL, canaryBound)
				s.canaryDur = dur
				if err != nil {
					s.canaryErr = err.Error()
				}
			}
		}(s)
	}
	wg.Wait()
	var slow []string
	for _, s := range scens {
		evaluate(r, d, s)
		if s.took > 10*time.Second {
			slow = append(slow, fmt.Sprintf("%s %.0fs", s.name, s.took.Seconds()))
		}
	}
	if len(slow) > 0 {
		r.Notes = append(r.Notes, "scenarios that took more than 10 s: "+strings.Join(slow, ", "))
	}
	var want []string
	want = append(want, "canary-ok", "out:ok", "out:fault", "extra:hang:blocked", "extra:notify:blocked", "extra:notifyafterclose:blocked", "extra:rawframe:noresponse", "extra:signedchunk:noresponse", "extra:browsecls:plain")
	sort.Strings(want)
	for _, b := range want {
		if r.Distribution[b] == 0 && o.Replay == "" {
			r.Unreached = append(r.Unreached, b)
		}
	}
	r.Notes = append(r.Notes, "not exercised: blocking send on Subscription.NotifyChannel under MonitoredItemService.Mu (needs a subscription goroutine stuck in a send to a non-reading client; the dispatcher-level hang is the same mechanism); raw fuzzed chunks on the receive path are C13's subject")
	r.Write(o.Out)
}
