// Correspondence runner and property oracle for C32: subscription and
// monitored item ids of the server are unique and session scoped.
//
// Histories of CreateSubscription / DeleteSubscriptions / CreateMonitoredItems /
// SetMonitoringMode / DeleteMonitoredItems requests from several sessions are
// sent to the real service handlers (in process, through the function
// handleService dispatches to).  The background `DeleteSubscription(id)` calls
// the handlers and the subscription goroutines spawn are held at a verifPoint
// and released by explicit `ap:k` steps, so that every interleaving the model
// has is reproduced deterministically.  Answers and the resulting tables are
// compared with the Lean model (`SrvIds.run`); the property's own oracle looks
// at the real tables only.  The listed findings are re-confirmed in process and
// with two real clients over TCP.
package main

import (
	"context"
	"fmt"
	"io"
	"log"
	"net"
	"sort"
	"strconv"
	"strings"
	"sync/atomic"
	"time"

	"github.com/gopcua/opcua"
	"github.com/gopcua/opcua/server"
	"github.com/gopcua/opcua/ua"

	"verifharness/internal/h"
)

// All four defects this runner used to classify (subscription id reused while
// live; SetMonitoringMode / DeleteMonitoredItems acting on foreign items; a stale
// background DeleteSubscription deleting a newer subscription) are repaired:
// every oracle failure is unclassified now and makes the check fail.

type token struct {
	id      uint32
	release chan struct{}
	target  *server.Subscription // the object the call is meant for
	by      int                  // session whose DeleteSubscriptions request spawned the call (0: none)
}

type env struct {
	o     *h.Opts
	r     *h.Result
	d     *h.Driver
	rnd   *h.Rand
	srv   *server.Server
	port  int
	sess  []*ua.NodeID // index = model session number; 0 = a token no session has
	node  *ua.NodeID
	pass  atomic.Bool // hook does not hold anybody (wire phase)
	arriv chan *token
	done  chan uint32
	pend  []*token
	fails map[string]int
	cur   string
}

func freePort() int {
	l, err := net.Listen("tcp", "127.0.0.1:0")
	if err != nil {
		return 0
	}
	defer l.Close()
	return l.Addr().(*net.TCPAddr).Port
}

func (e *env) hook(name string, args ...interface{}) {
	if e.pass.Load() {
		return
	}
	switch name {
	case "DeleteSubscription":
		t := &token{id: args[0].(uint32), release: make(chan struct{})}
		e.arriv <- t
		<-t.release
	case "DeleteSubscription.done":
		e.done <- args[0].(uint32)
	}
}

func (e *env) hdr(s int) *ua.RequestHeader {
	return &ua.RequestHeader{AuthenticationToken: e.sess[s], Timestamp: time.Now()}
}

func (e *env) owner(tok *ua.NodeID) int {
	if tok == nil {
		return 0
	}
	for i, s := range e.sess {
		if i > 0 && s.String() == tok.String() {
			return i
		}
	}
	return 0
}

// ---------------------------------------------------------------- snapshots of the real tables

type subSnap struct {
	owner int
	obj   *server.Subscription
}
type itemSnap struct {
	sub, owner, mode int
	indexed          bool // still listed under its node (gets change notifications) and under its subscription
}
type snap struct {
	subs  map[uint32]subSnap
	items map[uint32]itemSnap
}

func (e *env) snapshot() snap {
	s := snap{map[uint32]subSnap{}, map[uint32]itemSnap{}}
	ss := e.srv.SubscriptionService
	ss.Mu.Lock()
	for id, sub := range ss.Subs {
		s.subs[id] = subSnap{e.owner(sub.VerifOwner()), sub}
	}
	ss.Mu.Unlock()
	ms := e.srv.MonitoredItemService
	ms.Mu.Lock()
	for id, it := range ms.Items {
		inNode, inSub := false, false
		for _, x := range ms.Nodes[it.Req.ItemToMonitor.NodeID.String()] {
			inNode = inNode || x == it
		}
		for _, x := range ms.Subs[it.Sub.ID] {
			inSub = inSub || x == it
		}
		s.items[id] = itemSnap{int(it.Sub.ID), e.owner(it.Sub.VerifOwner()), int(it.Mode), inNode && inSub}
	}
	ms.Mu.Unlock()
	return s
}

func commaList(l []string) string {
	if len(l) == 0 {
		return "-"
	}
	return strings.Join(l, ",")
}

func (e *env) stateTok() string {
	s := e.snapshot()
	var ids []int
	for id := range s.subs {
		ids = append(ids, int(id))
	}
	sort.Ints(ids)
	var subs, items, pend []string
	for _, id := range ids {
		subs = append(subs, fmt.Sprintf("%d@%d", id, s.subs[uint32(id)].owner))
	}
	ids = ids[:0]
	for id := range s.items {
		ids = append(ids, int(id))
	}
	sort.Ints(ids)
	for _, id := range ids {
		it := s.items[uint32(id)]
		x := fmt.Sprintf("%d@%d@%d@%d", id, it.sub, it.owner, it.mode)
		if !it.indexed {
			x += "!unindexed" // the model has no such state: an item in Items is always listed
		}
		items = append(items, x)
	}
	ids = ids[:0]
	for _, t := range e.pend {
		ids = append(ids, int(t.id))
	}
	sort.Ints(ids)
	for _, id := range ids {
		pend = append(pend, strconv.Itoa(id))
	}
	return fmt.Sprintf("subs=%s items=%s pend=%s ctr=%d sctr=%d", commaList(subs), commaList(items), commaList(pend), e.srv.MonitoredItemService.VerifItemCounter(), e.srv.SubscriptionService.VerifSubCounter())
}

// ---------------------------------------------------------------- operations

type op struct {
	kind string // cs ds ap ci sm di
	sess int
	a, b int // ap: k; ci: sub, n; sm: mode
	ids  []uint32
}

func idsText(ids []uint32) string {
	var s []string
	for _, i := range ids {
		s = append(s, fmt.Sprint(i))
	}
	return commaList(s)
}

func (o op) String() string {
	switch o.kind {
	case "cs":
		return fmt.Sprintf("cs:%d", o.sess)
	case "ds":
		return fmt.Sprintf("ds:%d:%s", o.sess, idsText(o.ids))
	case "ap":
		return fmt.Sprintf("ap:%d", o.a)
	case "ci":
		return fmt.Sprintf("ci:%d:%d:%d", o.sess, o.a, o.b)
	case "sm":
		return fmt.Sprintf("sm:%d:%d:%s", o.sess, o.a, idsText(o.ids))
	case "di":
		return fmt.Sprintf("di:%d:%s", o.sess, idsText(o.ids))
	}
	return "?"
}

func parseOp(s string) (op, bool) {
	q := strings.Split(s, ":")
	num := func(x string) int { n, _ := strconv.Atoi(x); return n }
	ids := func(x string) []uint32 {
		var out []uint32
		if x == "-" {
			return out
		}
		for _, p := range strings.Split(x, ",") {
			out = append(out, uint32(num(p)))
		}
		return out
	}
	switch {
	case q[0] == "cs" && len(q) == 2:
		return op{kind: "cs", sess: num(q[1])}, true
	case q[0] == "ds" && len(q) == 3:
		return op{kind: "ds", sess: num(q[1]), ids: ids(q[2])}, true
	case q[0] == "ap" && len(q) == 2:
		return op{kind: "ap", a: num(q[1])}, true
	case q[0] == "ci" && len(q) == 4:
		return op{kind: "ci", sess: num(q[1]), a: num(q[2]), b: num(q[3])}, true
	case q[0] == "sm" && len(q) == 4:
		return op{kind: "sm", sess: num(q[1]), a: num(q[2]), ids: ids(q[3])}, true
	case q[0] == "di" && len(q) == 3:
		return op{kind: "di", sess: num(q[1]), ids: ids(q[2])}, true
	}
	return op{}, false
}

func statusToks(l []ua.StatusCode) string {
	var s []string
	for _, c := range l {
		switch c {
		case ua.StatusOK:
			s = append(s, "ok")
		case ua.StatusBadSubscriptionIDInvalid:
			s = append(s, "sub")
		case ua.StatusBadSessionIDInvalid:
			s = append(s, "ses")
		case ua.StatusBadMonitoredItemIDInvalid:
			s = append(s, "itm")
		default:
			s = append(s, fmt.Sprintf("%08x", uint32(c)))
		}
	}
	return "st=" + commaList(s)
}

func (e *env) call(req ua.Request) (ua.Response, string) {
	var resp ua.Response
	t := h.Catch(func() string {
		r, err, ok := e.srv.VerifCallService(nil, req)
		if !ok {
			return "no-handler"
		}
		if err != nil {
			if sc, isStatus := err.(ua.StatusCode); isStatus && sc == ua.StatusBadSessionIDInvalid {
				return "nosession"
			}
			switch err.Error() {
			case "sub doesn't exist":
				return "nosub"
			case "not your subscription, bro":
				return "notyours"
			}
			return "err(" + err.Error() + ")"
		}
		resp = r
		return ""
	})
	return resp, t
}

func (e *env) waitArrival() *token {
	select {
	case t := <-e.arriv:
		return t
	case <-time.After(5 * time.Second):
		return nil
	}
}

// applyToken lets the k-th held DeleteSubscription call run to completion.
func (e *env) applyToken(k int, caseName string) string {
	if k < 0 || k >= len(e.pend) {
		return "nopending"
	}
	t := e.pend[k]
	e.pend = append(e.pend[:k:k], e.pend[k+1:]...)
	pre := e.snapshot()
	victim, present := pre.subs[t.id]
	close(t.release)
	select {
	case <-e.done:
	case <-time.After(5 * time.Second):
		e.r.InfraError = "DeleteSubscription did not finish"
		return "stuck"
	}
	if !present {
		return "miss"
	}
	// ---- oracle: the call was spawned for t.target; does it hit something else?
	if t.target != nil && victim.obj != t.target {
		e.fail(caseName, "", fmt.Sprintf("a background DeleteSubscription(%d) spawned for a subscription of session %d ran after the id was handed out again and deleted a different subscription, owned by session %d",
			t.id, e.owner(t.target.VerifOwner()), victim.owner))
	}
	if t.by != 0 && victim.owner != t.by && victim.obj == t.target {
		e.fail(caseName, "", fmt.Sprintf("DeleteSubscriptions by session %d deleted subscription %d of session %d", t.by, t.id, victim.owner))
	}
	// ---- oracle: the call removes the items of that subscription id and leaves all others as they were
	post := e.snapshot()
	for id, it := range pre.items {
		if uint32(it.sub) == t.id {
			continue
		}
		if p, ok := post.items[id]; !ok || p != it {
			e.fail(caseName, "", fmt.Sprintf("the background DeleteSubscription(%d) changed monitored item %d of subscription %d (session %d): before %+v, after %+v present=%v", t.id, id, it.sub, it.owner, it, p, ok))
		}
	}
	// the goroutine of the subscription that was shut down calls DeleteSubscription again
	nt := e.waitArrival()
	if nt == nil {
		return "hit-but-no-second-call"
	}
	nt.target = victim.obj
	e.pend = append(e.pend, nt)
	return "hit"
}

func (e *env) fail(c, sig, detail string) {
	if sig != "" {
		e.fails[sig]++
		if e.fails[sig] > 4 {
			e.r.Hit("oracle-fail:" + sig)
			return
		}
	}
	e.r.Fail(c, sig, detail)
}

// exec runs one operation on the real code and evaluates the oracle.
func (e *env) exec(o op, caseName string) string {
	if o.kind == "ap" {
		return e.applyToken(o.a, caseName)
	}
	pre := e.snapshot()
	var out string
	switch o.kind {
	case "cs":
		resp, t := e.call(&ua.CreateSubscriptionRequest{RequestHeader: e.hdr(o.sess), RequestedPublishingInterval: 3600000,
			RequestedLifetimeCount: 10000, RequestedMaxKeepAliveCount: 1000, PublishingEnabled: true})
		if t != "" {
			return t
		}
		id := resp.(*ua.CreateSubscriptionResponse).SubscriptionID
		out = fmt.Sprintf("id=%d", id)
		// ---- oracle: the id handed out is not named by a background deletion that is still to run
		for _, t := range e.pend {
			if t.id == id {
				e.fail(caseName, "", fmt.Sprintf("CreateSubscription handed out id %d while a background DeleteSubscription(%d) is still pending", id, id))
			}
		}
		// ---- oracle: the id handed out is not in use
		if old, live := pre.subs[id]; live {
			e.fail(caseName, "", fmt.Sprintf("CreateSubscription handed out id %d while a subscription with that id (session %d) is alive; live ids before: %d", id, old.owner, len(pre.subs)))
		}
	case "ds":
		resp, t := e.call(&ua.DeleteSubscriptionsRequest{RequestHeader: e.hdr(o.sess), SubscriptionIDs: o.ids})
		if t == "panic" {
			// calls spawned before the panic still arrive; collect what comes quickly
			out = t
		} else if t != "" {
			return t
		}
		var okIDs []uint32
		if resp != nil {
			res := resp.(*ua.DeleteSubscriptionsResponse).Results
			out = statusToks(res)
			for i, c := range res {
				if c == ua.StatusOK {
					okIDs = append(okIDs, o.ids[i])
				}
			}
		} else {
			// after a panic: the model tells how many were spawned; mirror the code: every id before the
			// failing one that exists and belongs to the session
			for _, id := range o.ids {
				s, ok := pre.subs[id]
				if !ok {
					continue
				}
				if o.sess == 0 || s.owner == 0 {
					break
				}
				if s.owner == o.sess {
					okIDs = append(okIDs, id)
				}
			}
		}
		got := map[uint32][]*token{}
		for range okIDs {
			t := e.waitArrival()
			if t == nil {
				return out + " missing-background-call"
			}
			got[t.id] = append(got[t.id], t)
		}
		for _, id := range okIDs { // keep the order of the request
			l := got[id]
			if len(l) == 0 {
				return out + " unexpected-background-call"
			}
			l[0].target = pre.subs[id].obj
			l[0].by = o.sess
			e.pend = append(e.pend, l[0])
			got[id] = l[1:]
		}
	case "ci":
		items := make([]*ua.MonitoredItemCreateRequest, o.b)
		for i := range items {
			items[i] = &ua.MonitoredItemCreateRequest{
				ItemToMonitor:       &ua.ReadValueID{NodeID: e.node, AttributeID: ua.AttributeIDValue, DataEncoding: &ua.QualifiedName{}},
				MonitoringMode:      ua.MonitoringModeReporting,
				RequestedParameters: &ua.MonitoringParameters{ClientHandle: uint32(i + 1), SamplingInterval: 1000, QueueSize: 1, Filter: ua.NewExtensionObject(nil)},
			}
		}
		resp, t := e.call(&ua.CreateMonitoredItemsRequest{RequestHeader: e.hdr(o.sess), SubscriptionID: uint32(o.a),
			TimestampsToReturn: ua.TimestampsToReturnBoth, ItemsToCreate: items})
		if t != "" {
			out = t
			break
		}
		var ids []string
		seen := map[uint32]bool{}
		for _, r := range resp.(*ua.CreateMonitoredItemsResponse).Results {
			ids = append(ids, fmt.Sprint(r.MonitoredItemID))
			// ---- oracle: fresh, non-zero, pairwise distinct
			if _, live := pre.items[r.MonitoredItemID]; live || seen[r.MonitoredItemID] || r.MonitoredItemID == 0 {
				e.fail(caseName, "", fmt.Sprintf("CreateMonitoredItems handed out item id %d which is in use (or zero / repeated)", r.MonitoredItemID))
			}
			seen[r.MonitoredItemID] = true
		}
		out = "ids=" + commaList(ids)
	case "sm":
		resp, t := e.call(&ua.SetMonitoringModeRequest{RequestHeader: e.hdr(o.sess), SubscriptionID: 0,
			MonitoringMode: ua.MonitoringMode(o.a), MonitoredItemIDs: o.ids})
		if t != "" {
			out = t
			break
		}
		out = statusToks(resp.(*ua.SetMonitoringModeResponse).Results)
	case "di":
		resp, t := e.call(&ua.DeleteMonitoredItemsRequest{RequestHeader: e.hdr(o.sess), SubscriptionID: 0, MonitoredItemIDs: o.ids})
		// the deletions run in the background: wait until the ids that were accepted are gone
		want := map[uint32]bool{}
		if t == "" {
			out = statusToks(resp.(*ua.DeleteMonitoredItemsResponse).Results)
			for i, c := range resp.(*ua.DeleteMonitoredItemsResponse).Results {
				if _, live := pre.items[o.ids[i]]; c == ua.StatusOK && live {
					want[o.ids[i]] = true
				}
			}
		} else {
			out = t
			for _, id := range o.ids { // deletions spawned before the panic
				it, live := pre.items[id]
				if !live || it.owner == 0 || o.sess == 0 {
					break
				}
				want[id] = true
			}
		}
		for dl := time.Now().Add(3 * time.Second); time.Now().Before(dl); time.Sleep(200 * time.Microsecond) {
			cur := e.snapshot()
			left := 0
			for id := range want {
				if _, ok := cur.items[id]; ok {
					left++
				}
			}
			if left == 0 {
				break
			}
		}
	}
	// ---- oracle: session scope — nothing that belongs to another session changed
	post := e.snapshot()
	if o.sess != 0 {
		for id, s := range pre.subs {
			if s.owner != o.sess && s.owner != 0 {
				if p, ok := post.subs[id]; !ok || p.obj != s.obj {
					if o.kind == "cs" {
						continue // the overwritten table entry: reported above as id reuse
					}
					e.fail(caseName, "", fmt.Sprintf("%s by session %d removed or replaced subscription %d of session %d", o, o.sess, id, s.owner))
				}
			}
		}
		for id, it := range pre.items {
			if it.owner != o.sess && it.owner != 0 {
				p, ok := post.items[id]
				if ok && p == it {
					continue
				}
				named := false
				for _, x := range o.ids {
					named = named || x == id
				}
				_ = named
				e.fail(caseName, "", fmt.Sprintf("%s by session %d changed monitored item %d of session %d (before %v, after %v present=%v); the answer was %s", o, o.sess, id, it.owner, it, p, ok, out))
			}
		}
	}
	return out
}

// cleanup runs every held call and deletes what is left, so that the next
// history starts from empty tables.
func (e *env) cleanup() bool {
	for round := 0; round < 200; round++ {
		for len(e.pend) > 0 {
			if r := e.applyToken(0, e.cur); r == "stuck" || r == "hit-but-no-second-call" {
				return false
			}
		}
		s := e.snapshot()
		if len(s.subs) == 0 {
			break
		}
		for id := range s.subs {
			go e.srv.SubscriptionService.DeleteSubscription(id)
			t := e.waitArrival()
			if t == nil {
				return false
			}
			e.pend = append(e.pend, t)
		}
	}
	// items of overwritten (unreachable) subscription objects
	s := e.snapshot()
	for id := range s.items {
		e.srv.MonitoredItemService.DeleteMonitoredItem(id)
	}
	s = e.snapshot()
	return len(s.subs) == 0 && len(s.items) == 0 && len(e.pend) == 0
}

func (e *env) runHistory(ops []op, generate int) {
	ctr := e.srv.MonitoredItemService.VerifItemCounter()
	sctr := e.srv.SubscriptionService.VerifSubCounter()
	e.cur = fmt.Sprintf("run %d %d (history being generated)", ctr, sctr)
	var outs, texts []string
	fails := len(e.r.OracleFailures)
	for i := 0; i < len(ops) || i < generate; i++ {
		var o op
		if i < len(ops) {
			o = ops[i]
		} else {
			o = e.next()
		}
		texts = append(texts, o.String())
		out := e.exec(o, e.cur)
		outs = append(outs, out)
		e.r.Hit(o.kind + ":" + strings.SplitN(strings.SplitN(out, "=", 2)[0], " ", 2)[0])
	}
	req := fmt.Sprintf("run %d %d %s", ctr, sctr, strings.Join(texts, " "))
	ans := strings.Join(outs, " ") + " | " + e.stateTok()
	e.r.Count(req, true)
	e.r.Compare(e.d, req, ans)
	e.r.Sample(req + "  ->  " + ans)
	e.cur = req
	if !e.cleanup() && e.r.InfraError == "" {
		e.r.InfraError = "cleanup after a history did not reach empty tables"
	}
	for i := fails; i < len(e.r.OracleFailures); i++ { // the replayable text of the whole history
		e.r.OracleFailures[i].Case = req
	}
}

// next draws the next operation of a generated history from the real tables
// as they are now (deterministic: the implementation is scheduled by the
// harness), so that live, foreign, deleted and never-used ids are all hit.
func (e *env) next() op {
	s := e.snapshot()
	var subIDs, itemIDs []uint32
	for id := range s.subs {
		subIDs = append(subIDs, id)
	}
	for id := range s.items {
		itemIDs = append(itemIDs, id)
	}
	sort.Slice(subIDs, func(i, j int) bool { return subIDs[i] < subIDs[j] })
	sort.Slice(itemIDs, func(i, j int) bool { return itemIDs[i] < itemIDs[j] })
	sess := func() int {
		if e.rnd.Chance(3) {
			return 0
		}
		return 1 + e.rnd.Intn(3)
	}
	subID := func() (uint32, int) { // an id and the session that owns it (0 = nobody)
		if len(subIDs) == 0 || e.rnd.Chance(12) {
			return uint32(1 + e.rnd.Intn(len(subIDs)+3)), 0
		}
		id := subIDs[e.rnd.Intn(len(subIDs))]
		return id, s.subs[id].owner
	}
	itemID := func() (uint32, int) {
		if len(itemIDs) == 0 || e.rnd.Chance(7) {
			return e.srv.MonitoredItemService.VerifItemCounter() + uint32(1+e.rnd.Intn(3)), 0
		}
		id := itemIDs[e.rnd.Intn(len(itemIDs))]
		return id, s.items[id].owner
	}
	// the session of a request: mostly the owner of the first id named, sometimes somebody else
	pick := func(owner int) int {
		if owner != 0 && e.rnd.Chance(65) {
			return owner
		}
		return sess()
	}
	switch x := e.rnd.Intn(100); {
	case x < 22 || len(subIDs) == 0:
		return op{kind: "cs", sess: sess()}
	case x < 38:
		o := op{kind: "ds"}
		own := 0
		for j := 0; j <= e.rnd.Intn(2); j++ {
			id, w := subID()
			o.ids = append(o.ids, id)
			if j == 0 {
				own = w
			}
		}
		if e.rnd.Chance(10) {
			o.ids = append(o.ids, o.ids[0]) // the same id twice in one request
		}
		o.sess = pick(own)
		return o
	case x < 56 && len(e.pend) > 0:
		k := e.rnd.Intn(len(e.pend))
		if e.rnd.Chance(5) {
			k = len(e.pend)
		}
		return op{kind: "ap", a: k}
	case x < 74:
		id, w := subID()
		return op{kind: "ci", sess: pick(w), a: int(id), b: 1 + e.rnd.Intn(3)}
	case x < 87:
		o := op{kind: "sm", a: e.rnd.Intn(3)}
		own := 0
		for j := 0; j <= e.rnd.Intn(2); j++ {
			id, w := itemID()
			o.ids = append(o.ids, id)
			if j == 0 {
				own = w
			}
		}
		o.sess = pick(own)
		return o
	default:
		o := op{kind: "di"}
		own := 0
		for j := 0; j <= e.rnd.Intn(2); j++ {
			id, w := itemID()
			o.ids = append(o.ids, id)
			if j == 0 {
				own = w
			}
		}
		if e.rnd.Chance(12) {
			o.ids = append(o.ids, o.ids[0]) // the same id twice in one request
		}
		o.sess = pick(own)
		return o
	}
}

func parseHistory(s string) ([]op, bool) {
	f := strings.Fields(s)
	if len(f) < 3 || f[0] != "run" {
		return nil, false
	}
	var ops []op
	for _, t := range f[3:] {
		o, ok := parseOp(t)
		if !ok {
			return nil, false
		}
		ops = append(ops, o)
	}
	return ops, true
}

// ---------------------------------------------------------------- two real clients

func (e *env) wire() (reuse, mode, del bool, note string) {
	e.pass.Store(true)
	defer e.pass.Store(false)
	ctx, cancel := context.WithTimeout(context.Background(), 30*time.Second)
	defer cancel()
	mk := func() *opcua.Client {
		c, err := opcua.NewClient(fmt.Sprintf("opc.tcp://localhost:%d", e.port), opcua.SecurityMode(ua.MessageSecurityModeNone), opcua.RequestTimeout(5*time.Second))
		if err != nil || c.Connect(ctx) != nil {
			return nil
		}
		return c
	}
	c1, c2 := mk(), mk()
	if c1 == nil || c2 == nil {
		return false, false, false, "clients could not connect"
	}
	defer c1.Close(ctx)
	defer c2.Close(ctx)
	createSub := func(c *opcua.Client) uint32 {
		var id uint32
		c.Send(ctx, &ua.CreateSubscriptionRequest{RequestedPublishingInterval: 3600000, RequestedLifetimeCount: 10000, RequestedMaxKeepAliveCount: 1000, PublishingEnabled: true},
			func(r ua.Response) error {
				if x, ok := r.(*ua.CreateSubscriptionResponse); ok {
					id = x.SubscriptionID
				}
				return nil
			})
		return id
	}
	a, b := createSub(c1), createSub(c1)
	var delRes []ua.StatusCode
	c1.Send(ctx, &ua.DeleteSubscriptionsRequest{SubscriptionIDs: []uint32{a}}, func(r ua.Response) error {
		if x, ok := r.(*ua.DeleteSubscriptionsResponse); ok {
			delRes = x.Results
		}
		return nil
	})
	for dl := time.Now().Add(3 * time.Second); time.Now().Before(dl); time.Sleep(time.Millisecond) {
		if _, ok := e.snapshot().subs[a]; !ok {
			break
		}
	}
	time.Sleep(20 * time.Millisecond) // the second, deferred DeleteSubscription(a) of the goroutine
	pre := e.snapshot()
	c := createSub(c2)
	_, bLive := pre.subs[b]
	reuse = c == b && bLive && len(delRes) == 1 && delRes[0] == ua.StatusOK
	note = fmt.Sprintf("client 1: CreateSubscription -> %d, CreateSubscription -> %d, DeleteSubscriptions[%d] -> %v; client 2: CreateSubscription -> %d", a, b, a, delRes, c)

	// foreign monitored item
	own := createSub(c1)
	var itemID uint32
	c1.Send(ctx, &ua.CreateMonitoredItemsRequest{SubscriptionID: own, TimestampsToReturn: ua.TimestampsToReturnBoth,
		ItemsToCreate: []*ua.MonitoredItemCreateRequest{{ItemToMonitor: &ua.ReadValueID{NodeID: e.node, AttributeID: ua.AttributeIDValue, DataEncoding: &ua.QualifiedName{}},
			MonitoringMode: ua.MonitoringModeReporting, RequestedParameters: &ua.MonitoringParameters{ClientHandle: 1, SamplingInterval: 1000, QueueSize: 1, Filter: ua.NewExtensionObject(nil)}}}},
		func(r ua.Response) error {
			if x, ok := r.(*ua.CreateMonitoredItemsResponse); ok && len(x.Results) == 1 {
				itemID = x.Results[0].MonitoredItemID
			}
			return nil
		})
	if itemID == 0 {
		return reuse, false, false, note + "; could not create the monitored item"
	}
	before := e.snapshot().items[itemID]
	var smRes, diRes []ua.StatusCode
	c2.Send(ctx, &ua.SetMonitoringModeRequest{SubscriptionID: own, MonitoringMode: ua.MonitoringModeSampling, MonitoredItemIDs: []uint32{itemID}}, func(r ua.Response) error {
		if x, ok := r.(*ua.SetMonitoringModeResponse); ok {
			smRes = x.Results
		}
		return nil
	})
	after := e.snapshot().items[itemID]
	mode = len(smRes) == 1 && smRes[0] == ua.StatusOK && after.mode != before.mode
	c2.Send(ctx, &ua.DeleteMonitoredItemsRequest{SubscriptionID: own, MonitoredItemIDs: []uint32{itemID}}, func(r ua.Response) error {
		if x, ok := r.(*ua.DeleteMonitoredItemsResponse); ok {
			diRes = x.Results
		}
		return nil
	})
	gone := false
	for dl := time.Now().Add(3 * time.Second); time.Now().Before(dl); time.Sleep(time.Millisecond) {
		if _, ok := e.snapshot().items[itemID]; !ok {
			gone = true
			break
		}
	}
	del = len(diRes) == 1 && diRes[0] == ua.StatusOK && gone
	note += fmt.Sprintf("; client 2 on item %d of client 1: SetMonitoringMode -> %v (mode %d -> %d), DeleteMonitoredItems -> %v (gone=%v)", itemID, smRes, before.mode, after.mode, diRes, gone)
	// tidy up
	for id := range e.snapshot().subs {
		e.srv.SubscriptionService.DeleteSubscription(id)
	}
	time.Sleep(30 * time.Millisecond)
	for id := range e.snapshot().items {
		e.srv.MonitoredItemService.DeleteMonitoredItem(id)
	}
	return
}

func main() {
	log.SetOutput(io.Discard)
	o := h.ParseOpts()
	r := h.NewResult("C32", o)
	d, err := h.StartDriver(o.Driver)
	if err != nil {
		r.InfraError = err.Error()
		r.Write(o.Out)
		return
	}
	defer d.Close()
	e := &env{o: o, r: r, d: d, rnd: h.NewRand(o.Seed), arriv: make(chan *token, 4096), done: make(chan uint32, 4096), fails: map[string]int{}}
	r.Rule = "case = request history (6-19 steps: CreateSubscription, DeleteSubscriptions, run of a held background DeleteSubscription call, CreateMonitoredItems, SetMonitoringMode, DeleteMonitoredItems) from sessions 1-3 and an unknown session, ids drawn from live, deleted, foreign and never-used ids; executed on the real service handlers with the background calls scheduled through verifPoint; every answer and the final subscription / item tables, held calls and item counter compared with SrvIds.run; distinct by the whole history"
	for try := 0; try < 5; try++ {
		e.port = freePort()
		e.srv = server.New(server.EnableSecurity("None", ua.MessageSecurityModeNone),
			server.EnableAuthMode(ua.UserTokenTypeAnonymous), server.EndPoint("localhost", e.port))
		ns := server.NewNodeNameSpace(e.srv, "urn:verif:srvids")
		n := ns.AddNewVariableNode("v", int32(1))
		e.node = n.ID()
		if err = e.srv.Start(context.Background()); err == nil {
			break
		}
	}
	if err != nil {
		r.InfraError = "server start: " + err.Error()
		r.Write(o.Out)
		return
	}
	defer e.srv.Close()
	server.VerifSetHook(e.hook)
	e.sess = []*ua.NodeID{ua.NewNumericNodeID(0, 0x7fffffff)}
	for i := 0; i < 3; i++ {
		e.sess = append(e.sess, e.srv.VerifNewSession())
	}

	if o.Replay != "" {
		if ops, ok := parseHistory(o.Replay); ok {
			e.runHistory(ops, 0)
		} else {
			r.Notes = append(r.Notes, "cannot parse replay case")
		}
		r.Write(o.Out)
		return
	}

	// the witnesses of the four repaired defects: they must pass the oracle now
	for _, line := range []string{
		"run 0 0 cs:1 cs:1 ds:1:1 ap:0 cs:2",
		"run 0 0 cs:1 ci:1:%d:1 sm:2:2:%d",
		"run 0 0 cs:1 ci:1:%d:2 di:2:%d",
		"run 0 0 cs:1 ds:1:1 ap:0 cs:2 ci:2:%d:1 ap:0",
	} {
		sub := e.srv.SubscriptionService.VerifSubCounter() + 1
		switch strings.Count(line, "%d") {
		case 2:
			line = fmt.Sprintf(line, sub, e.srv.MonitoredItemService.VerifItemCounter()+1)
		case 1:
			line = fmt.Sprintf(line, sub+1)
		}
		ops, _ := parseHistory(line)
		e.runHistory(ops, 0)
	}
	for _, l := range o.CorpusLines() {
		if ops, ok := parseHistory(l); ok {
			e.runHistory(ops, 0)
		}
	}
	// the same with two real clients over TCP
	wReuse, wMode, wDel, note := e.wire()
	r.TracesValidated++
	r.Notes = append(r.Notes, "wire: "+note)
	if wReuse {
		r.Fail("wire", "", "a subscription id was handed out while a subscription with that id was alive: "+note)
	}
	if wMode {
		r.Fail("wire", "", "SetMonitoringMode of another session changed the item: "+note)
	}
	if wDel {
		r.Fail("wire", "", "DeleteMonitoredItems of another session deleted the item: "+note)
	}
	// id allocation close to the wrap of the 32-bit counter: 0 is skipped
	e.srv.SubscriptionService.VerifSetSubCounter(0xfffffffe)
	e.runHistory([]op{{kind: "cs", sess: 1}, {kind: "cs", sess: 2}, {kind: "cs", sess: 1}}, 0)
	e.srv.SubscriptionService.VerifSetSubCounter(0)
	// … and of the monitored item counter (tables are empty here, so the ids after the wrap are free)
	e.srv.MonitoredItemService.VerifSetItemCounter(0xfffffffd)
	e.runHistory([]op{{kind: "cs", sess: 1}, {kind: "ci", sess: 1, a: 1, b: 2}, {kind: "ci", sess: 1, a: 1, b: 3}, {kind: "sm", sess: 2, a: 1, ids: []uint32{0xffffffff, 1, 0}}}, 0)
	r.Hit("counter-wrap")

	for i := 0; i < o.N(600, 8000) && r.InfraError == ""; i++ {
		e.runHistory(nil, 8+e.rnd.Intn(16))
	}
	for _, b := range []string{"cs:id", "cs:nosession", "ds:st", "ds:nosession", "ap:hit", "ap:miss", "ap:nopending", "ci:ids", "ci:nosub", "ci:notyours", "ci:nosession",
		"sm:st", "sm:nosession", "di:st", "di:nosession"} {
		if r.Distribution[b] == 0 {
			r.Unreached = append(r.Unreached, b)
		}
	}
	r.Write(o.Out)
}
