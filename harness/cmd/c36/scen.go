package main

// Concurrent scenarios run in a child process under the race detector.
// They drive the real client (package opcua), the real secure channel
// (package uasc, client and server kind) and the real server (package server)
// of the tree under test; nothing is checked here — the parent process reads
// the detector's reports.

import (
	"context"
	"fmt"
	"sync"
	"time"

	"github.com/gopcua/opcua"
	"github.com/gopcua/opcua/ua"

	"verifharness/internal/h"
	"verifharness/internal/xreal"
	"verifharness/internal/xsubs"
)

type scenStats struct {
	mu                                      sync.Mutex
	reads, writes, browses, notifs, errs    int
	subs, items, renewWaits, cuts, reconns  int
	closes, serverSets, modifies, unmonitor int
}

func (s *scenStats) add(p *int) { s.mu.Lock(); *p++; s.mu.Unlock() }

func (s *scenStats) String() string {
	s.mu.Lock()
	defer s.mu.Unlock()
	return fmt.Sprintf("reads=%d writes=%d browses=%d subs=%d items=%d notifs=%d serverSets=%d modifies=%d unmonitor=%d cuts=%d closes=%d errs=%d",
		s.reads, s.writes, s.browses, s.subs, s.items, s.notifs, s.serverSets, s.modifies, s.unmonitor, s.cuts, s.closes, s.errs)
}

// scenario runs one named workload for about d and returns a summary line.
//
//	mix        3 clients (own connection + session each) x 3 worker goroutines: Read / Write / Browse of shared
//	           nodes, one subscription with monitored items per client, server-side value changes, ModifySubscription,
//	           Unmonitor, concurrent Close at the end
//	renew      as mix with a secure channel lifetime of 0.4 s, so that both sides renew the token several times
//	           while requests are in flight
//	reconnect  as mix through a TCP proxy that cuts all connections twice; the clients reconnect automatically
func scenario(name string, seed uint64, d time.Duration) (string, error) {
	rnd := h.NewRand(seed)
	st := &scenStats{}
	const nvars = 4
	srv, err := xreal.StartReal(0, nvars)
	if err != nil {
		return "", fmt.Errorf("server start: %v", err)
	}
	defer srv.Close()
	url := srv.URL()
	var px *xsubs.Proxy
	if name == "reconnect" {
		px, err = xsubs.NewProxy(srv.Addr())
		if err != nil {
			return "", fmt.Errorf("proxy: %v", err)
		}
		defer px.Close()
		url = px.URL()
	}
	opts := []opcua.Option{opcua.SecurityMode(ua.MessageSecurityModeNone), opcua.RequestTimeout(3 * time.Second),
		opcua.AutoReconnect(name == "reconnect"), opcua.ReconnectInterval(50 * time.Millisecond), opcua.DialTimeout(2 * time.Second)}
	if name == "renew" {
		opts = append(opts, opcua.Lifetime(400*time.Millisecond))
	}
	ctx, cancelAll := context.WithCancel(context.Background())
	defer cancelAll()
	const nClients = 3
	var clients []*opcua.Client
	for i := 0; i < nClients; i++ {
		c, err := opcua.NewClient(url, opts...)
		if err == nil {
			cctx, cancel := context.WithTimeout(ctx, 10*time.Second)
			err = c.Connect(cctx)
			cancel()
		}
		if err != nil {
			return "", fmt.Errorf("client connect: %v", err)
		}
		clients = append(clients, c)
	}
	stop := make(chan struct{})
	var wg sync.WaitGroup
	stopped := func() bool {
		select {
		case <-stop:
			return true
		default:
			return false
		}
	}
	// workers
	for ci, c := range clients {
		for w := 0; w < 3; w++ {
			wg.Add(1)
			wr := rnd.Fork()
			go func(ci, w int, c *opcua.Client) {
				defer wg.Done()
				for k := 0; !stopped(); k++ {
					node := srv.NodeID(wr.Intn(nvars))
					rctx, cancel := context.WithTimeout(ctx, 3*time.Second)
					var err error
					switch wr.Intn(4) {
					case 0, 1:
						_, err = c.Read(rctx, &ua.ReadRequest{TimestampsToReturn: ua.TimestampsToReturnBoth,
							NodesToRead: []*ua.ReadValueID{{NodeID: node, AttributeID: ua.AttributeIDValue}}})
						st.add(&st.reads)
					case 2:
						_, err = c.Write(rctx, &ua.WriteRequest{NodesToWrite: []*ua.WriteValue{{NodeID: node, AttributeID: ua.AttributeIDValue,
							Value: &ua.DataValue{EncodingMask: ua.DataValueValue, Value: ua.MustVariant(int32(k))}}}})
						st.add(&st.writes)
					default:
						_, err = c.Browse(rctx, &ua.BrowseRequest{NodesToBrowse: []*ua.BrowseDescription{{NodeID: srv.NS.Objects().ID(),
							BrowseDirection: ua.BrowseDirectionForward, IncludeSubtypes: true, ResultMask: uint32(ua.BrowseResultMaskAll)}}})
						st.add(&st.browses)
					}
					cancel()
					if err != nil {
						st.add(&st.errs)
						time.Sleep(5 * time.Millisecond)
					}
				}
			}(ci, w, c)
		}
		// one subscription per client, driven by its own goroutine
		wg.Add(1)
		sr := rnd.Fork()
		go func(ci int, c *opcua.Client) {
			defer wg.Done()
			ch := make(chan *opcua.PublishNotificationData, 64)
			done := make(chan struct{})
			go func() {
				for {
					select {
					case <-ch:
						st.add(&st.notifs)
					case <-done:
						return
					}
				}
			}()
			defer close(done)
			for !stopped() {
				sctx, cancel := context.WithTimeout(ctx, 3*time.Second)
				sub, err := c.Subscribe(sctx, &opcua.SubscriptionParameters{Interval: 20 * time.Millisecond}, ch)
				cancel()
				if err != nil {
					st.add(&st.errs)
					time.Sleep(20 * time.Millisecond)
					continue
				}
				st.add(&st.subs)
				var ids []uint32
				for v := 0; v < nvars; v++ {
					mctx, cancel := context.WithTimeout(ctx, 3*time.Second)
					res, err := sub.Monitor(mctx, ua.TimestampsToReturnBoth, opcua.NewMonitoredItemCreateRequestWithDefaults(srv.NodeID(v), ua.AttributeIDValue, uint32(v+1)))
					cancel()
					if err == nil && len(res.Results) == 1 {
						ids = append(ids, res.Results[0].MonitoredItemID)
						st.add(&st.items)
					}
				}
				life := time.Duration(100+sr.Intn(300)) * time.Millisecond
				t0 := time.Now()
				for time.Since(t0) < life && !stopped() {
					_ = c.SubscriptionIDs()
					if sr.Chance(30) {
						mctx, cancel := context.WithTimeout(ctx, 3*time.Second)
						_, err := sub.ModifySubscription(mctx, opcua.SubscriptionParameters{Interval: time.Duration(10+sr.Intn(30)) * time.Millisecond})
						cancel()
						if err == nil {
							st.add(&st.modifies)
						}
					}
					time.Sleep(15 * time.Millisecond)
				}
				if len(ids) > 1 {
					mctx, cancel := context.WithTimeout(ctx, 3*time.Second)
					if _, err := sub.Unmonitor(mctx, ids[0]); err == nil {
						st.add(&st.unmonitor)
					}
					cancel()
				}
				cctx, cancel := context.WithTimeout(ctx, 3*time.Second)
				sub.Cancel(cctx)
				cancel()
			}
		}(ci, c)
	}
	// server-side value changes (what an application embedding the server does)
	wg.Add(1)
	xr := rnd.Fork()
	go func() {
		defer wg.Done()
		for k := 0; !stopped(); k++ {
			srv.Set(xr.Intn(nvars), int32(k))
			srv.Get(xr.Intn(nvars))
			st.add(&st.serverSets)
			time.Sleep(time.Millisecond)
		}
	}()
	// faults
	if px != nil {
		wg.Add(1)
		go func() {
			defer wg.Done()
			for i := 0; i < 2; i++ {
				select {
				case <-stop:
					return
				case <-time.After(d / 3):
				}
				px.Cut()
				st.add(&st.cuts)
			}
		}()
	}
	time.Sleep(d)
	// close one client while its workers are still busy, then stop everybody
	cctx, cancel := context.WithTimeout(ctx, 3*time.Second)
	clients[0].Close(cctx)
	cancel()
	st.add(&st.closes)
	time.Sleep(50 * time.Millisecond)
	close(stop)
	wg.Wait()
	for _, c := range clients[1:] {
		cctx, cancel := context.WithTimeout(ctx, 3*time.Second)
		c.Close(cctx)
		cancel()
		st.add(&st.closes)
	}
	return st.String(), nil
}
