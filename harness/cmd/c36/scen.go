package main

// Concurrent scenarios run in a child process under the race detector.
// They drive the real client (package opcua), the real secure channel
// (package uasc, client and server kind) and the real server (package server)
// of the tree under test; nothing is checked here — the parent process reads
// the detector's reports.

import (
	"context"
	"fmt"
	"sync"
	"time"

	"github.com/gopcua/opcua"
	"github.com/gopcua/opcua/ua"

	"verifharness/internal/h"
	"verifharness/internal/xreal"
	"verifharness/internal/xsubs"
)

type scenStats struct {
	mu                                      sync.Mutex
	reads, writes, browses, notifs, errs    int
	subs, items, renewWaits, cuts, reconns  int
	closes, serverSets, modifies, unmonitor int
	hung                                    int
}

// subscribeWD calls Client.Subscribe under a watchdog: Subscribe sends on the client's resume channel without
// looking at the context and blocks for good once the publish loop is gone (a liveness defect that belongs to
// C27, not to this property); such a call is abandoned (hung = true) and the worker stops subscribing.
func subscribeWD(ctx context.Context, c *opcua.Client, p *opcua.SubscriptionParameters, ch chan<- *opcua.PublishNotificationData) (sub *opcua.Subscription, err error, hung bool) {
	type res struct {
		sub *opcua.Subscription
		err error
	}
	done := make(chan res, 1)
	go func() {
		sctx, cancel := context.WithTimeout(ctx, 3*time.Second)
		defer cancel()
		s, e := c.Subscribe(sctx, p, ch)
		done <- res{s, e}
	}()
	select {
	case r := <-done:
		return r.sub, r.err, false
	case <-time.After(6 * time.Second):
		return nil, nil, true
	}
}

// waitWG waits for the workers, but not for ever.
func waitWG(wg *sync.WaitGroup, d time.Duration) bool {
	done := make(chan struct{})
	go func() { wg.Wait(); close(done) }()
	select {
	case <-done:
		return true
	case <-time.After(d):
		return false
	}
}

func (s *scenStats) add(p *int) { s.mu.Lock(); *p++; s.mu.Unlock() }

func (s *scenStats) String() string {
	s.mu.Lock()
	defer s.mu.Unlock()
	return fmt.Sprintf("reads=%d writes=%d browses=%d subs=%d items=%d notifs=%d serverSets=%d modifies=%d unmonitor=%d cuts=%d closes=%d errs=%d subscribe-hung=%d",
		s.reads, s.writes, s.browses, s.subs, s.items, s.notifs, s.serverSets, s.modifies, s.unmonitor, s.cuts, s.closes, s.errs, s.hung)
}

// scenario runs one named workload for about d and returns a summary line.
//
//	mix        3 clients (own connection + session each) x 3 worker goroutines: Read / Write / Browse of shared
//	           nodes, one subscription with monitored items per client, server-side value changes, ModifySubscription,
//	           Unmonitor, concurrent Close at the end
//	renew      as mix with a secure channel lifetime of 0.4 s, so that both sides renew the token several times
//	           while requests are in flight
//	reconnect  as mix through a TCP proxy that cuts all connections twice; the clients reconnect automatically
//	scripted   the client against a scripted server that answers ModifySubscription and publishes data (see below)
func scenario(name string, seed uint64, d time.Duration) (string, error) {
	if name == "scripted" {
		return scenarioScripted(seed, d)
	}
	rnd := h.NewRand(seed)
	st := &scenStats{}
	const nvars = 4
	srv, err := xreal.StartReal(0, nvars)
	if err != nil {
		return "", fmt.Errorf("server start: %v", err)
	}
	defer srv.Close()
	url := srv.URL()
	var px *xsubs.Proxy
	if name == "reconnect" {
		px, err = xsubs.NewProxy(srv.Addr())
		if err != nil {
			return "", fmt.Errorf("proxy: %v", err)
		}
		defer px.Close()
		url = px.URL()
	}
	opts := []opcua.Option{opcua.SecurityMode(ua.MessageSecurityModeNone), opcua.RequestTimeout(3 * time.Second),
		opcua.AutoReconnect(name == "reconnect"), opcua.ReconnectInterval(50 * time.Millisecond), opcua.DialTimeout(2 * time.Second)}
	if name == "renew" {
		opts = append(opts, opcua.Lifetime(400*time.Millisecond))
	}
	ctx, cancelAll := context.WithCancel(context.Background())
	defer cancelAll()
	const nClients = 3
	var clients []*opcua.Client
	for i := 0; i < nClients; i++ {
		c, err := opcua.NewClient(url, opts...)
		if err == nil {
			cctx, cancel := context.WithTimeout(ctx, 10*time.Second)
			err = c.Connect(cctx)
			cancel()
		}
		if err != nil {
			return "", fmt.Errorf("client connect: %v", err)
		}
		clients = append(clients, c)
	}
	stop := make(chan struct{})
	var wg sync.WaitGroup
	stopped := func() bool {
		select {
		case <-stop:
			return true
		default:
			return false
		}
	}
	// workers
	for ci, c := range clients {
		for w := 0; w < 3; w++ {
			wg.Add(1)
			wr := rnd.Fork()
			go func(ci, w int, c *opcua.Client) {
				defer wg.Done()
				for k := 0; !stopped(); k++ {
					node := srv.NodeID(wr.Intn(nvars))
					rctx, cancel := context.WithTimeout(ctx, 3*time.Second)
					var err error
					switch wr.Intn(4) {
					case 0, 1:
						_, err = c.Read(rctx, &ua.ReadRequest{TimestampsToReturn: ua.TimestampsToReturnBoth,
							NodesToRead: []*ua.ReadValueID{{NodeID: node, AttributeID: ua.AttributeIDValue}}})
						st.add(&st.reads)
					case 2:
						_, err = c.Write(rctx, &ua.WriteRequest{NodesToWrite: []*ua.WriteValue{{NodeID: node, AttributeID: ua.AttributeIDValue,
							Value: &ua.DataValue{EncodingMask: ua.DataValueValue, Value: ua.MustVariant(int32(k))}}}})
						st.add(&st.writes)
					default:
						_, err = c.Browse(rctx, &ua.BrowseRequest{NodesToBrowse: []*ua.BrowseDescription{{NodeID: srv.NS.Objects().ID(),
							BrowseDirection: ua.BrowseDirectionForward, IncludeSubtypes: true, ResultMask: uint32(ua.BrowseResultMaskAll)}}})
						st.add(&st.browses)
					}
					cancel()
					if err != nil {
						st.add(&st.errs)
						time.Sleep(5 * time.Millisecond)
					}
				}
			}(ci, w, c)
		}
		// one subscription per client, driven by its own goroutine
		wg.Add(1)
		sr := rnd.Fork()
		go func(ci int, c *opcua.Client) {
			defer wg.Done()
			ch := make(chan *opcua.PublishNotificationData, 64)
			done := make(chan struct{})
			go func() {
				for {
					select {
					case <-ch:
						st.add(&st.notifs)
					case <-done:
						return
					}
				}
			}()
			defer close(done)
			// The first subscription stays alive with all variables monitored (steady notification traffic);
			// two more are created and cancelled, after that the worker churns monitored items on the first
			// one.  (More Subscribe calls would block: every Subscribe puts a token on the client's resume
			// channel, capacity 2, which only a paused publish loop takes off.)
			var base *opcua.Subscription
			cycles := 0
			for !stopped() {
				if base != nil && cycles >= 3 {
					mctx, cancel := context.WithTimeout(ctx, 3*time.Second)
					res, err := base.Monitor(mctx, ua.TimestampsToReturnBoth, opcua.NewMonitoredItemCreateRequestWithDefaults(srv.NodeID(sr.Intn(nvars)), ua.AttributeIDValue, uint32(100+sr.Intn(50))))
					cancel()
					_ = c.SubscriptionIDs()
					time.Sleep(time.Duration(10+sr.Intn(40)) * time.Millisecond)
					if err == nil && len(res.Results) == 1 {
						st.add(&st.items)
						mctx, cancel := context.WithTimeout(ctx, 3*time.Second)
						if _, err := base.Unmonitor(mctx, res.Results[0].MonitoredItemID); err == nil {
							st.add(&st.unmonitor)
						}
						cancel()
					} else {
						st.add(&st.errs)
					}
					continue
				}
				sub, err, hung := subscribeWD(ctx, c, &opcua.SubscriptionParameters{Interval: 20 * time.Millisecond}, ch)
				if hung {
					st.add(&st.hung)
					return
				}
				if err != nil {
					st.add(&st.errs)
					time.Sleep(20 * time.Millisecond)
					continue
				}
				st.add(&st.subs)
				var ids []uint32
				for v := 0; v < nvars; v++ {
					mctx, cancel := context.WithTimeout(ctx, 3*time.Second)
					res, err := sub.Monitor(mctx, ua.TimestampsToReturnBoth, opcua.NewMonitoredItemCreateRequestWithDefaults(srv.NodeID(v), ua.AttributeIDValue, uint32(v+1)))
					cancel()
					if err == nil && len(res.Results) == 1 {
						ids = append(ids, res.Results[0].MonitoredItemID)
						st.add(&st.items)
					}
				}
				cycles++
				if base == nil {
					base = sub
					continue
				}
				life := time.Duration(100+sr.Intn(300)) * time.Millisecond
				t0 := time.Now()
				for time.Since(t0) < life && !stopped() {
					_ = c.SubscriptionIDs()
					if sr.Chance(30) {
						mctx, cancel := context.WithTimeout(ctx, 3*time.Second)
						_, err := sub.ModifySubscription(mctx, opcua.SubscriptionParameters{Interval: time.Duration(10+sr.Intn(30)) * time.Millisecond})
						cancel()
						if err == nil {
							st.add(&st.modifies)
						}
					}
					time.Sleep(15 * time.Millisecond)
				}
				if len(ids) > 1 {
					mctx, cancel := context.WithTimeout(ctx, 3*time.Second)
					if _, err := sub.Unmonitor(mctx, ids[0]); err == nil {
						st.add(&st.unmonitor)
					}
					cancel()
				}
				cctx, cancel := context.WithTimeout(ctx, 3*time.Second)
				sub.Cancel(cctx)
				cancel()
			}
		}(ci, c)
	}
	// server-side value changes (what an application embedding the server does)
	wg.Add(1)
	xr := rnd.Fork()
	go func() {
		defer wg.Done()
		for k := 0; !stopped(); k++ {
			srv.Set(xr.Intn(nvars), int32(k))
			srv.Get(xr.Intn(nvars))
			st.add(&st.serverSets)
			time.Sleep(time.Millisecond)
		}
	}()
	// faults
	if px != nil {
		wg.Add(1)
		go func() {
			defer wg.Done()
			for i := 0; i < 2; i++ {
				select {
				case <-stop:
					return
				case <-time.After(d / 3):
				}
				px.Cut()
				st.add(&st.cuts)
			}
		}()
	}
	time.Sleep(d)
	// close one client while its workers are still busy, then stop everybody
	cctx, cancel := context.WithTimeout(ctx, 3*time.Second)
	clients[0].Close(cctx)
	cancel()
	st.add(&st.closes)
	time.Sleep(50 * time.Millisecond)
	close(stop)
	if !waitWG(&wg, 20*time.Second) {
		return "", fmt.Errorf("workers did not stop: %s", st.String())
	}
	for _, c := range clients[1:] {
		cctx, cancel := context.WithTimeout(ctx, 3*time.Second)
		c.Close(cctx)
		cancel()
		st.add(&st.closes)
	}
	return st.String(), nil
}

// scenarioScripted drives the CLIENT against a scripted server (real uacp/uasc underneath) that, unlike the
// gopcua server, answers ModifySubscription and publishes data for every live subscription: two clients, per
// client one shared subscription that three goroutines modify / monitor / inspect while the publish loop runs,
// short-lived extra subscriptions, and two connection drops (the clients reconnect and recreate or restore
// their subscriptions).
func scenarioScripted(seed uint64, d time.Duration) (string, error) {
	rnd := h.NewRand(seed)
	st := &scenStats{}
	var mu sync.Mutex
	live := map[uint32]uint32{} // subscription id -> last sequence number
	var order []uint32
	srv, err := xsubs.StartScripted(func(s *xsubs.Scripted, c *xsubs.SConn, reqID uint32, r ua.Request) ua.Response {
		switch req := r.(type) {
		case *ua.ModifySubscriptionRequest:
			return &ua.ModifySubscriptionResponse{ResponseHeader: xsubs.Hdr(r, ua.StatusOK), RevisedPublishingInterval: req.RequestedPublishingInterval,
				RevisedLifetimeCount: req.RequestedLifetimeCount, RevisedMaxKeepAliveCount: req.RequestedMaxKeepAliveCount}
		case *ua.DeleteMonitoredItemsRequest:
			return &ua.DeleteMonitoredItemsResponse{ResponseHeader: xsubs.Hdr(r, ua.StatusOK), Results: make([]ua.StatusCode, len(req.MonitoredItemIDs)), DiagnosticInfos: []*ua.DiagnosticInfo{}}
		case *ua.CreateSubscriptionRequest:
			resp := s.Default(r)
			if cr, ok := resp.(*ua.CreateSubscriptionResponse); ok {
				mu.Lock()
				live[cr.SubscriptionID] = 0
				order = append(order, cr.SubscriptionID)
				mu.Unlock()
			}
			return resp
		case *ua.DeleteSubscriptionsRequest:
			mu.Lock()
			for _, id := range req.SubscriptionIDs {
				delete(live, id)
			}
			mu.Unlock()
			return s.Default(r)
		case *ua.PublishRequest:
			results := make([]ua.StatusCode, len(req.SubscriptionAcknowledgements))
			go func() {
				time.Sleep(3 * time.Millisecond)
				mu.Lock()
				var id, seq uint32
				for i := len(order) - 1; i >= 0 && id == 0; i-- {
					if _, ok := live[order[(i+int(reqID))%len(order)]]; ok {
						id = order[(i+int(reqID))%len(order)]
					}
				}
				if id != 0 {
					live[id]++
					seq = live[id]
				}
				mu.Unlock()
				if id == 0 {
					time.Sleep(20 * time.Millisecond)
					c.Reply(reqID, xsubs.Fault(r, ua.StatusBadNoSubscription))
					return
				}
				c.Reply(reqID, xsubs.DataResponse(r, id, seq, 1, results, 1, int32(seq)))
			}()
			return nil
		}
		return s.Default(r)
	})
	if err != nil {
		return "", fmt.Errorf("scripted server: %v", err)
	}
	defer srv.Close()
	ctx, cancelAll := context.WithCancel(context.Background())
	defer cancelAll()
	var clients []*opcua.Client
	for i := 0; i < 2; i++ {
		c, err := opcua.NewClient(srv.URL(), opcua.SecurityMode(ua.MessageSecurityModeNone), opcua.RequestTimeout(2*time.Second),
			opcua.AutoReconnect(true), opcua.ReconnectInterval(30*time.Millisecond), opcua.DialTimeout(2*time.Second))
		if err == nil {
			cctx, cancel := context.WithTimeout(ctx, 10*time.Second)
			err = c.Connect(cctx)
			cancel()
		}
		if err != nil {
			return "", fmt.Errorf("client connect: %v", err)
		}
		clients = append(clients, c)
	}
	stop := make(chan struct{})
	stopped := func() bool {
		select {
		case <-stop:
			return true
		default:
			return false
		}
	}
	var wg sync.WaitGroup
	for _, c := range clients {
		ch := make(chan *opcua.PublishNotificationData, 256)
		wg.Add(1)
		go func() {
			defer wg.Done()
			for {
				select {
				case <-ch:
					st.add(&st.notifs)
				case <-stop:
					return
				}
			}
		}()
		shared, err, hung := subscribeWD(ctx, c, &opcua.SubscriptionParameters{Interval: 10 * time.Millisecond}, ch)
		if err != nil || hung {
			close(stop)
			return "", fmt.Errorf("subscribe: %v (hung=%v)", err, hung)
		}
		st.add(&st.subs)
		for w := 0; w < 3; w++ {
			wg.Add(1)
			wr := rnd.Fork()
			go func(w int, c *opcua.Client) {
				defer wg.Done()
				for k := 0; !stopped(); k++ {
					rctx, cancel := context.WithTimeout(ctx, 2*time.Second)
					var err error
					switch wr.Intn(5) {
					case 0, 1:
						_, err = shared.ModifySubscription(rctx, opcua.SubscriptionParameters{Interval: time.Duration(5+wr.Intn(20)) * time.Millisecond})
						if err == nil {
							st.add(&st.modifies)
						}
					case 2:
						var res *ua.CreateMonitoredItemsResponse
						res, err = shared.Monitor(rctx, ua.TimestampsToReturnBoth, opcua.NewMonitoredItemCreateRequestWithDefaults(ua.NewNumericNodeID(2, uint32(k)), ua.AttributeIDValue, 1))
						if err == nil {
							st.add(&st.items)
							if len(res.Results) == 1 && wr.Chance(50) {
								if _, err2 := shared.Unmonitor(rctx, res.Results[0].MonitoredItemID); err2 == nil {
									st.add(&st.unmonitor)
								}
							}
						}
					case 3:
						_ = c.SubscriptionIDs()
						_, err = c.Read(rctx, &ua.ReadRequest{NodesToRead: []*ua.ReadValueID{{NodeID: ua.NewNumericNodeID(2, 1), AttributeID: ua.AttributeIDValue}}})
						st.add(&st.reads)
					default:
						var sub *opcua.Subscription
						var hung bool
						sub, err, hung = subscribeWD(ctx, c, &opcua.SubscriptionParameters{Interval: 10 * time.Millisecond}, ch)
						if hung {
							st.add(&st.hung)
							cancel()
							return
						}
						if err == nil {
							st.add(&st.subs)
							time.Sleep(time.Duration(wr.Intn(30)) * time.Millisecond)
							sub.Cancel(rctx)
						}
					}
					cancel()
					if err != nil {
						st.add(&st.errs)
						time.Sleep(3 * time.Millisecond)
					}
				}
			}(w, c)
		}
	}
	wg.Add(1)
	go func() {
		defer wg.Done()
		for i := 0; i < 2; i++ {
			select {
			case <-stop:
				return
			case <-time.After(d / 3):
			}
			srv.DropConns()
			st.add(&st.cuts)
		}
	}()
	time.Sleep(d)
	cctx, cancel := context.WithTimeout(ctx, 3*time.Second)
	clients[0].Close(cctx)
	cancel()
	st.add(&st.closes)
	close(stop)
	if !waitWG(&wg, 20*time.Second) {
		return "", fmt.Errorf("workers did not stop: %s", st.String())
	}
	cctx, cancel = context.WithTimeout(ctx, 3*time.Second)
	clients[1].Close(cctx)
	cancel()
	st.add(&st.closes)
	return st.String(), nil
}
