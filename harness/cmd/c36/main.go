// Correspondence runner for C36 (PARTIAL): data-race freedom, lockset part.
//
//	tie G   the lockset table is re-extracted from the tree under test (harness/internal/racefacts, the same
//	        code that generates Gen/RaceFacts.lean) and compared, field by field and source line by source
//	        line, with what the Lean driver computes from the generated file (verdict function, site lookup);
//	tie T   concurrent scenarios (real client, real secure channel, real server; see scen.go) run in child
//	        processes built with the race detector; every report is attributed to a table field:
//	          - race on a field the table calls candidate  -> consistent; finding `C36.<field>-<fnA>+<fnB>`
//	          - race on a field the table calls protected / readonly / atomic / sync
//	                                                        -> the table or the model is wrong: disagreement
//	          - race on memory outside the table           -> finding `C36.untabled-<fnA>+<fnB>` (the property's
//	                                                           own oracle, the detector, failed)
//	        A race whose signature is not listed in findings.d/C36.txt counts only if it shows up again when
//	        the same scenario is re-run (twice in a row); otherwise it is a note.  A listed finding that does
//	        not show up in this run is a note as well (./check prints it).
//
// The detector runs are confirmation of table entries, never a proof of absence.
package main

import (
	"bufio"
	"fmt"
	"io"
	"log"
	"os"
	"os/exec"
	"path/filepath"
	"regexp"
	"sort"
	"strconv"
	"strings"
	"time"

	"verifharness/internal/h"
	"verifharness/internal/racefacts"
)

type frame struct {
	fn   string // normalised: server.Node.SetAttribute
	file string // relative to the repository root when inside it, else absolute
	line int
	repo bool // inside the tree under test, package opcua / uasc / server, not a verif hook file
}

type race struct {
	kinds  [2]string // "Write", "Previous read", …
	stacks [2][]frame
}

var (
	reFrameFn   = regexp.MustCompile(`^  (\S.*)$`)
	reFrameFile = regexp.MustCompile(`^      (\S+):(\d+)( \+0x[0-9a-f]+)?$`)
	reHead      = regexp.MustCompile(`^(Read|Write|Previous read|Previous write|Atomic read|Atomic write|Previous atomic read|Previous atomic write) at `)
)

func normFn(s string) string {
	s = strings.TrimSuffix(s, "()")
	s = strings.ReplaceAll(s, "github.com/gopcua/opcua/", "")
	s = strings.ReplaceAll(s, "github.com/gopcua/opcua.", "opcua.")
	s = strings.ReplaceAll(s, "verifharness/internal/", "harness/")
	s = strings.ReplaceAll(s, "(*", "")
	s = strings.ReplaceAll(s, ")", "")
	return s
}

func covered(rel string) bool {
	base := filepath.Base(rel)
	if strings.HasPrefix(base, "verif_") || strings.HasSuffix(base, "_test.go") {
		return false
	}
	dir := filepath.Dir(rel)
	return dir == "." || dir == "uasc" || dir == "server"
}

// parseReports reads the detector's log files.
func parseReports(repo string, paths []string) []race {
	var out []race
	for _, p := range paths {
		f, err := os.Open(p)
		if err != nil {
			continue
		}
		sc := bufio.NewScanner(f)
		sc.Buffer(make([]byte, 1<<20), 1<<24)
		var cur *race
		idx := -1
		var pendingFn string
		flush := func() {
			if cur != nil && len(cur.stacks[0]) > 0 && len(cur.stacks[1]) > 0 {
				out = append(out, *cur)
			}
			cur, idx = nil, -1
		}
		for sc.Scan() {
			l := sc.Text()
			switch {
			case strings.HasPrefix(l, "WARNING: DATA RACE"):
				flush()
				cur = &race{}
			case cur == nil:
			case strings.HasPrefix(l, "=================="):
				flush()
			case reHead.MatchString(l):
				idx++
				if idx < 2 {
					cur.kinds[idx] = reHead.FindStringSubmatch(l)[1]
				}
			case strings.HasPrefix(l, "Goroutine ") || strings.HasPrefix(l, "Mutex "):
				idx = 2 // creation stacks are not needed
			case idx >= 0 && idx < 2 && reFrameFile.MatchString(l):
				m := reFrameFile.FindStringSubmatch(l)
				n, _ := strconv.Atoi(m[2])
				fr := frame{fn: normFn(pendingFn), file: m[1], line: n}
				if rel, err := filepath.Rel(repo, m[1]); err == nil && !strings.HasPrefix(rel, "..") {
					fr.file = rel
					fr.repo = covered(rel)
				}
				cur.stacks[idx] = append(cur.stacks[idx], fr)
			case idx >= 0 && idx < 2 && reFrameFn.MatchString(l):
				pendingFn = reFrameFn.FindStringSubmatch(l)[1]
			}
		}
		flush()
		f.Close()
	}
	return out
}

// attribution of one stack: the first frame (from the top) that is a table site,
// and the top frame outside the runtime.
type attrib struct {
	site    *frame
	fields  []string
	top     frame
	hookish bool // the top non-runtime frame is a verif hook file of the tree
}

func attribute(t *racefacts.Table, st []frame) attrib {
	var a attrib
	gotTop := false
	for i := range st {
		fr := &st[i]
		if !gotTop && !strings.HasPrefix(fr.fn, "runtime.") && !strings.HasPrefix(fr.fn, "sync.") && !strings.HasPrefix(fr.fn, "sync/atomic.") && !strings.HasPrefix(fr.fn, "internal/") {
			a.top = *fr
			gotTop = true
			a.hookish = strings.HasPrefix(filepath.Base(fr.file), "verif_")
		}
		if a.site == nil && fr.repo {
			if ss := t.At(fr.file, fr.line); len(ss) > 0 {
				a.site = fr
				seen := map[string]bool{}
				for _, s := range ss {
					if !seen[s.Field] {
						seen[s.Field] = true
						a.fields = append(a.fields, s.Field)
					}
				}
			}
		}
		// only the frames down to the first covered frame are looked at: what lies below merely called it
		if fr.repo {
			break
		}
	}
	if !gotTop && len(st) > 0 {
		a.top = st[0]
	}
	return a
}

type classified struct {
	sig     string
	field   string // "" = untabled
	verdict racefacts.Verdict
	detail  string
	ask     string // driver request
	want    string // what the Go side of the table says the driver answers
	hook    bool
}

func pairName(a, b string) string {
	if b < a {
		a, b = b, a
	}
	return a + "+" + b
}

// kindOK: the sites of field f at the frame's line can be the access the detector names
// (a reported write needs a write / atomic / WaitGroup site; a reported read any site).
func kindOK(t *racefacts.Table, fr *frame, f, kind string) bool {
	isWrite := strings.Contains(strings.ToLower(kind), "write")
	for _, s := range t.At(fr.file, fr.line) {
		if s.Field != f {
			continue
		}
		if !isWrite || s.Kind != "read" {
			return true
		}
	}
	return false
}

func isCand(v racefacts.Verdict) bool { return v.Kind == "candidate" || v.Kind == "foreign" }

func classify(t *racefacts.Table, rc race) classified {
	a, b := attribute(t, rc.stacks[0]), attribute(t, rc.stacks[1])
	c := classified{hook: a.hookish || b.hookish}
	c.detail = fmt.Sprintf("%s %s (%s:%d) / %s %s (%s:%d)", rc.kinds[0], a.top.fn, a.top.file, a.top.line, rc.kinds[1], b.top.fn, b.top.file, b.top.line)
	if a.site != nil && b.site != nil {
		var common []string
		for _, f := range a.fields {
			for _, g := range b.fields {
				if f == g && kindOK(t, a.site, f, rc.kinds[0]) && kindOK(t, b.site, f, rc.kinds[1]) &&
					(strings.Contains(strings.ToLower(rc.kinds[0]+rc.kinds[1]), "write")) {
					common = append(common, f)
				}
			}
		}
		if len(common) > 0 {
			c.ask = fmt.Sprintf("classify %s %d %s %d", a.site.file, a.site.line, b.site.file, b.site.line)
			// the driver lists every field with a site at both lines
			var parts []string
			for _, f := range a.fields {
				for _, g := range b.fields {
					if f == g {
						parts = append(parts, f+"="+strings.ReplaceAll(t.Verdict(f).String(), " ", "_"))
					}
				}
			}
			c.want = strings.Join(parts, ";")
			// prefer a field the table calls candidate (the line may touch several fields)
			c.field = common[0]
			for _, f := range common {
				if isCand(t.Verdict(f)) {
					c.field = f
					break
				}
			}
			c.verdict = t.Verdict(c.field)
			c.sig = "C36." + c.field + "-" + pairName(a.site.fn, b.site.fn)
			c.detail = fmt.Sprintf("%s %s (%s:%d) / %s %s (%s:%d) on %s [table: %s]", rc.kinds[0], a.site.fn, a.site.file, a.site.line,
				rc.kinds[1], b.site.fn, b.site.file, b.site.line, c.field, c.verdict)
			return c
		}
	}
	// one side writes a candidate field at a table site, the other side is not a table site (inlined
	// accessor, access through an alias): attributed to that field
	for k, x := range []attrib{a, b} {
		y := []attrib{b, a}[k]
		if x.site == nil || !strings.Contains(strings.ToLower(rc.kinds[k]), "write") {
			continue
		}
		for _, f := range x.fields {
			if isCand(t.Verdict(f)) && kindOK(t, x.site, f, rc.kinds[k]) {
				c.field, c.verdict = f, t.Verdict(f)
				c.sig = "C36." + f + "-" + pairName(x.site.fn, y.top.fn)
				c.detail = fmt.Sprintf("%s %s (%s:%d) on %s [table: %s] / %s %s (%s:%d, not a table site)", rc.kinds[k], x.site.fn, x.site.file, x.site.line,
					f, c.verdict, rc.kinds[1-k], y.top.fn, y.top.file, y.top.line)
				return c
			}
		}
	}
	c.sig = "C36.untabled-" + pairName(a.top.fn, b.top.fn)
	return c
}

type scenRun struct {
	name    string
	seed    uint64
	ms      int
	summary string
	races   []race
	err     string
}

func runScenario(repo, name string, seed uint64, ms int) scenRun {
	sr := scenRun{name: name, seed: seed, ms: ms}
	dir, err := os.MkdirTemp("", "c36-")
	if err != nil {
		sr.err = err.Error()
		return sr
	}
	defer os.RemoveAll(dir)
	cmd := exec.Command(os.Args[0])
	cmd.Env = append(os.Environ(), "C36_CHILD="+name, "C36_SEED="+strconv.FormatUint(seed, 10), "C36_MS="+strconv.Itoa(ms),
		"GORACE=log_path="+filepath.Join(dir, "race")+" halt_on_error=0 exitcode=0 history_size=4")
	outb := &strings.Builder{}
	cmd.Stdout, cmd.Stderr = outb, io.Discard
	done := make(chan error, 1)
	if err := cmd.Start(); err != nil {
		sr.err = err.Error()
		return sr
	}
	go func() { done <- cmd.Wait() }()
	select {
	case err = <-done:
	case <-time.After(time.Duration(ms)*time.Millisecond + 90*time.Second):
		cmd.Process.Kill()
		<-done
		sr.err = "scenario child timed out"
	}
	for _, l := range strings.Split(outb.String(), "\n") {
		if strings.HasPrefix(l, "C36-CHILD-OK ") {
			sr.summary = strings.TrimPrefix(l, "C36-CHILD-OK ")
		}
		if strings.HasPrefix(l, "C36-CHILD-ERROR ") {
			sr.err = strings.TrimPrefix(l, "C36-CHILD-ERROR ")
		}
	}
	if sr.summary == "" && sr.err == "" {
		sr.err = fmt.Sprintf("scenario child gave no summary (%v)", err)
	}
	logs, _ := filepath.Glob(filepath.Join(dir, "race*"))
	sr.races = parseReports(repo, logs)
	return sr
}

func knownSigs(root string) map[string]bool {
	out := map[string]bool{}
	paths, _ := filepath.Glob(filepath.Join(root, "findings.d", "*.txt"))
	paths = append(paths, filepath.Join(root, "KNOWN_FINDINGS.txt"))
	re := regexp.MustCompile(`^finding:\s+property=C36\s+sig=(\S+)`)
	for _, p := range paths {
		b, err := os.ReadFile(p)
		if err != nil {
			continue
		}
		for _, l := range strings.Split(string(b), "\n") {
			if m := re.FindStringSubmatch(strings.TrimSpace(l)); m != nil {
				out[m[1]] = true
			}
		}
	}
	return out
}

type scenSpec struct {
	name string
	off  uint64
	ms   int
}

func main() {
	log.SetOutput(io.Discard)
	if name := os.Getenv("C36_CHILD"); name != "" {
		seed, _ := strconv.ParseUint(os.Getenv("C36_SEED"), 10, 64)
		ms, _ := strconv.Atoi(os.Getenv("C36_MS"))
		sum, err := scenario(name, seed, time.Duration(ms)*time.Millisecond)
		if err != nil {
			fmt.Println("C36-CHILD-ERROR", err)
			os.Exit(3)
		}
		fmt.Println("C36-CHILD-OK", sum)
		return
	}
	if filter := os.Getenv("C36_DUMP"); filter != "" {
		// maintenance aid: C36_DUMP=all|<substring of a field name> prints the table of the tree VERIF_REPO
		dumpTable(filter)
		return
	}
	o := h.ParseOpts()
	r := h.NewResult("C36", o)
	repo := os.Getenv("VERIF_REPO")
	if repo == "" {
		repo = "/repo"
	}
	d, err := h.StartDriver(o.Driver)
	if err != nil {
		r.InfraError = err.Error()
		r.Write(o.Out)
		return
	}
	defer d.Close()
	r.Rule = "case = (a) one field / one source line of the lockset table re-extracted from the tree (verdict and site lookup, Go analysis vs. Lean driver over Gen/RaceFacts.lean), (b) one data race reported by the Go race detector in a concurrent scenario (3 real clients x (3 request workers + 1 subscription worker), real server with server-side value changes; variants: channel renewal every 0.3 s, two connection cuts with automatic reconnect; concurrent Close), attributed to a table field by the first stack frame that is a table site; distinct by field / function pair"

	t, err := racefacts.Analyze(repo)
	if err != nil {
		// the fact base cannot be produced: same meaning as a failed generator topic
		r.Disagree("racefacts", "table", "analysis failed: "+err.Error())
		r.Write(o.Out)
		return
	}

	// ---------------------------------------------------------------- tie G: table vs. generated Lean facts
	if d != nil {
		nf := 0
		for _, f := range t.Fields {
			nf++
			if f.Class == "lock" {
				continue
			}
			v := t.Verdict(f.Name)
			r.Count("verdict "+f.Name+" "+v.String(), true)
			r.Hit("field-" + v.Kind)
			r.Compare(d, "verdict "+f.Name, v.String())
			if v.Kind == "candidate" {
				n := 0
				live := []racefacts.Site{}
				for _, s := range t.SitesOf(f.Name) {
					if !s.Fresh {
						live = append(live, s)
					}
				}
				for _, a := range live {
					for _, b := range live {
						if racefacts.UnprotectedPair(a, b) {
							n++
						}
					}
				}
				r.Compare(d, "pairs "+f.Name, strconv.Itoa(n))
			}
		}
		r.Compare(d, "count", fmt.Sprintf("%d %d", len(t.Sites), nf))
		type pos struct {
			file string
			line int
		}
		seen := map[pos]bool{}
		for _, s := range t.Sites {
			p := pos{s.File, s.Line}
			if seen[p] {
				continue
			}
			seen[p] = true
			var parts []string
			for _, x := range t.At(s.File, s.Line) {
				parts = append(parts, fmt.Sprintf("%d:%s:%s", x.ID, x.Field, x.Kind))
			}
			r.Count(fmt.Sprintf("at %s %d", s.File, s.Line), true)
			r.Hit("site-line")
			r.Compare(d, fmt.Sprintf("at %s %d", s.File, s.Line), strings.Join(parts, ";"))
		}
		r.Compare(d, "at no/such/file.go 1", "none")
		r.Compare(d, "classify no/such/file.go 1 client.go 1", "outside")
	} else {
		for _, f := range t.Fields {
			if f.Class != "lock" {
				r.Hit("field-" + t.Verdict(f.Name).Kind)
			}
		}
	}
	r.Notes = append(r.Notes, t.Notes...)
	var cands []string
	for _, f := range t.Fields {
		if f.Class != "lock" && t.Verdict(f.Name).Kind == "candidate" {
			cands = append(cands, f.Name)
		}
	}
	r.Notes = append(r.Notes, fmt.Sprintf("fields the table calls candidate (lockset violation; only those confirmed by the detector are findings): %s", strings.Join(cands, " ")))

	// ---------------------------------------------------------------- tie T: detector runs
	root := "/verif"
	if o.Corpus != "" {
		root = filepath.Dir(filepath.Dir(filepath.Clean(o.Corpus)))
	}
	known := knownSigs(root)
	var specs []scenSpec
	if o.Replay != "" {
		// "scen <name> <seed> <ms> …"
		f := strings.Fields(o.Replay)
		if len(f) >= 4 && f[0] == "scen" {
			sd, _ := strconv.ParseUint(f[2], 10, 64)
			ms, _ := strconv.Atoi(f[3])
			specs = append(specs, scenSpec{f[1], sd - o.Seed, ms})
		}
	}
	if len(specs) == 0 {
		for _, l := range o.CorpusLines() {
			f := strings.Fields(l)
			if len(f) == 4 && f[0] == "scen" && (f[3] == "quick" || o.Thorough()) {
				off, _ := strconv.ParseUint(f[2], 10, 64)
				specs = append(specs, scenSpec{f[1], off, 0})
			}
		}
	}
	if len(specs) == 0 {
		specs = []scenSpec{{"mix", 0, 0}, {"renew", 0, 0}, {"reconnect", 0, 0}}
	}
	sigSeen := map[string]string{}
	for _, sp := range specs {
		ms := sp.ms
		if ms == 0 {
			ms = o.N(2500, 8000)
			if sp.name == "renew" {
				ms = o.N(4000, 12000)
			}
		}
		seed := o.Seed + sp.off
		var sr scenRun
		for try := 0; try < 2; try++ {
			sr = runScenario(repo, sp.name, seed, ms)
			if sr.err == "" {
				break
			}
		}
		if sr.err != "" {
			r.InfraError = fmt.Sprintf("scenario %s: %s", sp.name, sr.err)
			break
		}
		r.TracesValidated++
		r.Hit("scenario-" + sp.name)
		r.Notes = append(r.Notes, fmt.Sprintf("scenario %s seed %d %d ms: %s; %d race reports", sp.name, seed, ms, sr.summary, len(sr.races)))
		caseOf := func(sig string) string { return fmt.Sprintf("scen %s %d %d %s", sp.name, seed, ms, sig) }
		// classify; unknown signatures must reproduce in an immediate re-run of the same scenario
		var unknown []classified
		handled := map[string]bool{}
		for _, rc := range sr.races {
			c := classify(t, rc)
			if handled[c.sig] {
				continue
			}
			handled[c.sig] = true
			r.Count(c.sig, true)
			if c.hook {
				r.Hit("race-in-verif-hook-ignored")
				r.Notes = append(r.Notes, "race with a verif hook frame on top (not product code), ignored: "+c.detail)
				continue
			}
			if c.ask != "" {
				r.Compare(d, c.ask, c.want)
			}
			safe := c.field != "" && c.verdict.Kind != "candidate" && c.verdict.Kind != "foreign"
			switch {
			case safe:
				unknown = append(unknown, c) // table says protected: needs the re-run before it counts
			case known[c.sig]:
				r.Hit("race-known-" + map[bool]string{true: "candidate-field", false: "untabled"}[c.field != ""])
				r.Fail(caseOf(c.sig), c.sig, c.detail)
				r.Confirm(c.sig, c.detail)
				if _, ok := sigSeen[c.sig]; !ok {
					sigSeen[c.sig] = sp.name
				}
			default:
				unknown = append(unknown, c)
			}
		}
		if len(unknown) > 0 {
			again := runScenario(repo, sp.name, seed, ms)
			r.TracesValidated++
			re := map[string]bool{}
			for _, rc := range again.races {
				re[classify(t, rc).sig] = true
			}
			for _, c := range unknown {
				safe := c.field != "" && c.verdict.Kind != "candidate" && c.verdict.Kind != "foreign"
				switch {
				case !re[c.sig]:
					r.Hit("race-seen-once-not-reproduced")
					r.Notes = append(r.Notes, fmt.Sprintf("unlisted race seen once in scenario %s and not again in the immediate re-run (note only): %s %s", sp.name, c.sig, c.detail))
				case safe:
					r.Hit("RACE-ON-PROTECTED-FIELD")
					r.Disagree(caseOf(c.sig), "table verdict "+c.verdict.String()+": no race possible under the lockset theorem", "race detector (twice in a row): "+c.detail)
				default:
					r.Hit("race-unlisted-reproduced")
					r.Fail(caseOf(c.sig), c.sig, "data race reported twice in a row, not listed in findings.d/C36.txt: "+c.detail)
				}
			}
		}
	}
	var ks []string
	for k, v := range sigSeen {
		ks = append(ks, k+" ("+v+")")
	}
	sort.Strings(ks)
	r.Notes = append(r.Notes, "listed races confirmed by the detector in this run: "+strings.Join(ks, ", "))
	for _, b := range []string{"field-protected", "field-candidate", "field-readonly", "field-atomic", "scenario-mix"} {
		if r.Distribution[b] == 0 {
			r.Unreached = append(r.Unreached, b)
		}
	}
	r.Write(o.Out)
}

func dumpTable(filter string) {
	repo := os.Getenv("VERIF_REPO")
	if repo == "" {
		repo = "/repo"
	}
	t, err := racefacts.Analyze(repo)
	if err != nil {
		fmt.Println(err)
		os.Exit(1)
	}
	count := map[string]int{}
	for _, f := range t.Fields {
		if f.Class == "lock" {
			continue
		}
		v := t.Verdict(f.Name)
		count[v.Kind]++
		ss := t.SitesOf(f.Name)
		fmt.Printf("%-48s %-7s %-45s sites=%d\n", f.Name, f.Class, v.String(), len(ss))
		if filter == "all" || (filter == "cand" && v.Kind == "candidate") || strings.Contains(f.Name, filter) {
			for _, s := range ss {
				fmt.Printf("      %4d %s:%d %-40s %-10s fresh=%v W=%v R=%v roots=%v\n", s.ID, s.File, s.Line, s.Fn, s.Kind, s.Fresh, s.HeldW, s.HeldR, s.Roots)
			}
		}
	}
	fmt.Println("##", count, "sites", len(t.Sites))
}
