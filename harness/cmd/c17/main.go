// Correspondence runner and property oracle for C17 (chunks secured with an
// expired token are rejected).
//
// A real client-kind secure channel (Sign / SignAndEncrypt) receives
// OpenSecureChannel responses through the real handleOpenSecureChannelResponse
// (hook VerifHandleOPNResponse: issue + renewals with chosen token ids and
// nonces), expiry timers fire through the real scheduleExpiration (hook
// VerifExpireNow back-dates the token's creation time so that the timer is due;
// once per run the goroutine started by the real code itself is observed, in
// the thorough tier after a real 2 s timer), and chunks secured with the keys
// of each token are injected and read with the real readChunk.  The Lean model
// `Tokens` gets the same events.
package main

import (
	"fmt"
	"sort"
	"strings"
	"sync"
	"time"

	"github.com/gopcua/opcua/ua"
	"github.com/gopcua/opcua/uasc"

	"verifharness/internal/h"
)

const sigTokIdx = "C17.expiry-indexes-by-token-id"

type env struct {
	o     *h.Opts
	r     *h.Result
	d     *h.Driver
	rnd   *h.Rand
	keyA  *h.KeyPair
	keyB  *h.KeyPair
	known int
	evMu  sync.Mutex
	done  map[[2]uint32]int // expire.done events seen
}

type ev struct {
	kind         string // o e c
	ch, tok, key uint32
}

func (v ev) String() string {
	if v.kind == "c" {
		return fmt.Sprintf("c:%d:%d", v.ch, v.key)
	}
	return fmt.Sprintf("%s:%d:%d:%d", v.kind, v.ch, v.tok, v.key)
}

type tcase struct {
	uri  string
	mode ua.MessageSecurityMode
	evs  []ev
}

func short(uri string) string { return uri[strings.LastIndex(uri, "#")+1:] }

func (e *env) gen() *tcase {
	tc := &tcase{}
	uris := []string{ua.SecurityPolicyURIBasic256Sha256, ua.SecurityPolicyURIAes128Sha256RsaOaep, ua.SecurityPolicyURIBasic256}
	tc.uri = uris[e.rnd.Intn(len(uris))]
	tc.mode = ua.MessageSecurityModeSign
	if e.rnd.Bool() {
		tc.mode = ua.MessageSecurityModeSignAndEncrypt
	}
	ch := uint32(e.rnd.Pick(7, 5, 1))
	tok := uint32(e.rnd.Pick(1, 1, int(ch), int(ch), 100)) // first token id: often equal to the channel id
	key := uint32(1)
	type inst struct{ ch, tok, key uint32 }
	var insts []inst
	used := map[uint32]bool{}
	n := 3 + e.rnd.Intn(8)
	for i := 0; i < n; i++ {
		switch {
		case len(insts) == 0 || e.rnd.Chance(30):
			c := ch
			if len(insts) > 0 && e.rnd.Chance(15) {
				c = insts[e.rnd.Intn(len(insts))].tok // a second channel id that coincides with a token id
			}
			for used[tok] {
				tok++
			}
			used[tok] = true
			insts = append(insts, inst{c, tok, key})
			tc.evs = append(tc.evs, ev{"o", c, tok, key})
			tok++
			if e.rnd.Chance(10) {
				tok = ch // a later token numbered like the channel
			}
			key++
		case e.rnd.Chance(35):
			x := insts[e.rnd.Intn(len(insts))]
			tc.evs = append(tc.evs, ev{"e", x.ch, x.tok, x.key})
		default:
			x := insts[e.rnd.Intn(len(insts))]
			c := ev{"c", x.ch, 0, x.key}
			if e.rnd.Chance(10) {
				c.key = 99 // keys nobody negotiated
			}
			if e.rnd.Chance(10) {
				c.ch = 1234 // a channel id without instances
			}
			tc.evs = append(tc.evs, c)
		}
	}
	// probe every token's keys at the end
	for _, x := range insts {
		tc.evs = append(tc.evs, ev{"c", x.ch, 0, x.key})
	}
	return tc
}

func (e *env) line(tc *tcase) string {
	toks := make([]string, len(tc.evs))
	for i, v := range tc.evs {
		toks[i] = v.String()
	}
	return fmt.Sprintf("tokens %s %d %s", short(tc.uri), tc.mode, strings.Join(toks, " "))
}

func tableText(t map[uint32][]uint32) string {
	var keys []int
	for k, l := range t {
		if len(l) > 0 {
			keys = append(keys, int(k))
		}
	}
	sort.Ints(keys)
	var parts []string
	for _, k := range keys {
		var ids []string
		for _, id := range t[uint32(k)] {
			ids = append(ids, fmt.Sprint(id))
		}
		parts = append(parts, fmt.Sprintf("%d:%s", k, strings.Join(ids, ",")))
	}
	return "tab=" + strings.Join(parts, ";")
}

type nonces struct{ local, server []byte }

// exec runs the events on a real channel; mode "sync": expiry through VerifExpireNow.
func (e *env) exec(tc *tcase) (verdicts []string, table string, ok bool) {
	cfg := h.RecvSecureConfig(tc.uri, tc.mode, e.keyA, e.keyB.CertDER)
	if tc.mode == ua.MessageSecurityModeNone {
		cfg = h.RecvNoneConfig()
	}
	rc, err := h.RecvFreshChannel(cfg, h.RecvAck(65535, 65535, 512, 2*1024*1024), false, 0, 0)
	if err != nil {
		e.r.InfraError = "channel: " + err.Error()
		return
	}
	defer rc.Close()
	defer rc.SC.VerifForget()
	ns := map[uint32]*nonces{}
	nonce := func(k uint32) *nonces {
		if ns[k] == nil {
			ns[k] = &nonces{e.rnd.Bytes(32), e.rnd.Bytes(32)}
		}
		return ns[k]
	}
	seq := uint32(1)
	for _, v := range tc.evs {
		switch v.kind {
		case "o":
			n := nonce(v.key)
			if err := rc.SC.VerifHandleOPNResponse(v.ch, v.tok, time.Now(), 3600000, n.local, n.server); err != nil {
				e.r.InfraError = "handleOpenSecureChannelResponse: " + err.Error()
				return
			}
		case "e":
			if !rc.SC.VerifExpireNow(v.ch, v.tok) {
				e.r.InfraError = "VerifExpireNow: unknown instance"
				return
			}
		case "c":
			var w []byte
			var err error
			if tc.mode == ua.MessageSecurityModeNone {
				// no keys: the chunk's second component is the token id it carries in its header
				w = h.RecvRefChunk{Type: 'F', ChannelID: v.ch, TokenID: v.key, Seq: seq, Req: seq, Body: []byte{1, 2, 3, 4}}.Raw()
			} else {
				n := nonce(v.key)
				sealer, serr := h.NewRecvSealer(tc.uri, tc.mode, n.local, n.server)
				if serr != nil {
					e.r.InfraError = "sealer: " + serr.Error()
					return
				}
				w, err = sealer.Seal(h.RecvRefChunk{Type: 'F', ChannelID: v.ch, TokenID: 1, Seq: seq, Req: seq, Body: []byte{1, 2, 3, 4}})
			}
			seq++
			if err != nil {
				e.r.InfraError = "seal: " + err.Error()
				return
			}
			rc.Peer.SetWriteDeadline(time.Now().Add(10 * time.Second))
			if _, err := rc.Peer.Write(w); err != nil {
				e.r.InfraError = "write: " + err.Error()
				return
			}
			rc.Conn.SetReadDeadline(time.Now().Add(20 * time.Second))
			_, rerr := rc.SC.VerifReadChunk()
			switch {
			case rerr == nil:
				verdicts = append(verdicts, "acc")
			case rerr == ua.StatusBadSecurityChecksFailed:
				verdicts = append(verdicts, "security")
			case strings.Contains(rerr.Error(), "unable to find instance"):
				verdicts = append(verdicts, "noinstance")
			case strings.Contains(rerr.Error(), "timeout"):
				e.r.InfraError = "readChunk timed out"
				return
			default:
				verdicts = append(verdicts, "err:"+strings.ReplaceAll(rerr.Error(), " ", "_"))
			}
		}
	}
	return verdicts, tableText(rc.SC.VerifInstanceTable()), true
}

func (e *env) runCase(tc *tcase) {
	line := e.line(tc)
	verdicts, table, ok := e.exec(tc)
	if !ok {
		return
	}
	impl := strings.TrimSpace(strings.Join(verdicts, " ") + " " + table)
	nontrivial := false
	for _, v := range tc.evs {
		if v.kind == "e" {
			nontrivial = true
		}
	}
	e.r.Count(line, nontrivial)
	e.r.Hit(fmt.Sprintf("mode:%d", tc.mode))
	e.r.Sample(fmt.Sprintf("%s -> %s", line, impl))
	req := "tokens " + strings.Join(strings.Fields(line)[3:], " ")
	if tc.mode == ua.MessageSecurityModeNone {
		// mode None: model `verdictsNone`; the property (about keys) has no oracle here
		e.r.Compare(e.d, "tokensnone "+strings.Join(strings.Fields(line)[3:], " "), impl)
		for i, v := range verdicts {
			e.r.Hit("none-mode:verdict:" + v)
			_ = i
		}
		return
	}
	e.r.Compare(e.d, req, impl)

	// ---- the property's own oracle: after a token has been replaced (a later OPN on
	// its channel) and its expiry has fired, chunks under its keys must be rejected
	type tk struct{ ch, tok uint32 }
	byKey := map[uint32]tk{}
	replaced := map[uint32]bool{} // by key
	expired := map[uint32]bool{}
	vi := 0
	for _, v := range tc.evs {
		switch v.kind {
		case "o":
			for k, x := range byKey {
				if x.ch == v.ch {
					replaced[k] = true
				}
			}
			byKey[v.key] = tk{v.ch, v.tok}
		case "e":
			expired[v.key] = true
			e.r.Hit(map[bool]string{true: "expire:tok=chan", false: "expire:tok≠chan"}[v.ch == v.tok])
		case "c":
			verdict := verdicts[vi]
			vi++
			x, known := byKey[v.key]
			e.r.Hit("verdict:" + strings.SplitN(verdict, ":", 2)[0])
			if known && x.ch == v.ch && replaced[v.key] && expired[v.key] {
				e.r.Hit("probe:superseded-and-expired")
				if verdict == "acc" {
					sig := ""
					if x.tok != x.ch { // signature: the expired token's id differs from its channel id
						sig = sigTokIdx
						e.r.Confirm(sig, fmt.Sprintf("%s mode %d: channel %d token %d replaced and expired (scheduleExpiration ran), a chunk under its keys is still accepted; table %s", short(tc.uri), tc.mode, x.ch, x.tok, table))
						e.known++
						if e.known > 3 {
							e.r.Hit("oracle-fail:" + sig)
							continue
						}
					}
					e.r.Fail(line, sig, fmt.Sprintf("chunk under the keys of token %d (channel %d), which was replaced and whose expiry has fired, is accepted", x.tok, x.ch))
				}
			}
		}
	}
}

// async: the expiry goroutine the real code starts itself when it handles an
// OpenSecureChannel response. Channel ch, first token tok (creation time so far
// in the past that the expiry is due after `delay`), renewed by tok+1.
func (e *env) asyncCase(ch, tok uint32, delay time.Duration) {
	uri, mode := ua.SecurityPolicyURIBasic256Sha256, ua.MessageSecurityModeSignAndEncrypt
	cfg := h.RecvSecureConfig(uri, mode, e.keyA, e.keyB.CertDER)
	rc, err := h.RecvFreshChannel(cfg, h.RecvAck(65535, 65535, 512, 2*1024*1024), false, 0, 0)
	if err != nil {
		e.r.InfraError = "channel: " + err.Error()
		return
	}
	defer rc.Close()
	defer rc.SC.VerifForget()
	n1 := &nonces{e.rnd.Bytes(32), e.rnd.Bytes(32)}
	n2 := &nonces{e.rnd.Bytes(32), e.rnd.Bytes(32)}
	e.evMu.Lock()
	delete(e.done, [2]uint32{ch, tok}) // events of earlier cases with the same ids
	e.evMu.Unlock()
	// lifetime 1 h: the expiry is due at createdAt + 4500 s
	created := time.Now().Add(-4500*time.Second + delay)
	if err := rc.SC.VerifHandleOPNResponse(ch, tok, created, 3600000, n1.local, n1.server); err != nil {
		e.r.InfraError = err.Error()
		return
	}
	if err := rc.SC.VerifHandleOPNResponse(ch, tok+1, time.Now(), 3600000, n2.local, n2.server); err != nil {
		e.r.InfraError = err.Error()
		return
	}
	// the timer is due (after `delay`): the goroutine must finish shortly afterwards
	ran := false
	deadline := time.Now().Add(delay + 15*time.Second)
	for !ran && time.Now().Before(deadline) {
		e.evMu.Lock()
		ran = e.done[[2]uint32{ch, tok}] > 0
		e.evMu.Unlock()
		if !ran {
			time.Sleep(5 * time.Millisecond)
		}
	}
	e.evMu.Lock()
	delete(e.done, [2]uint32{ch, tok})
	e.evMu.Unlock()
	sealer, _ := h.NewRecvSealer(uri, mode, n1.local, n1.server)
	w, err := sealer.Seal(h.RecvRefChunk{Type: 'F', ChannelID: ch, TokenID: tok, Seq: 9, Req: 9, Body: []byte{1}})
	if err != nil {
		e.r.InfraError = err.Error()
		return
	}
	rc.Peer.Write(w)
	rc.Conn.SetReadDeadline(time.Now().Add(20 * time.Second))
	_, rerr := rc.SC.VerifReadChunk()
	table := tableText(rc.SC.VerifInstanceTable())
	c := fmt.Sprintf("async delay=%s o:%d:%d:1(expiry due) o:%d:%d:2 wait(expire.done) c:%d:1", delay, ch, tok, ch, tok+1, ch)
	e.r.Count(c, true)
	e.r.Hit("async:real-goroutine")
	e.r.Hit(map[bool]string{true: "async:expiry-ran", false: "async:expiry-did-not-run"}[ran])
	e.r.TracesValidated++
	if rerr == nil {
		// the chunk under the replaced and long expired token is accepted
		sig := ""
		if tok != ch && ran { // signature as above; an expiry that never ran is a different defect
			sig = sigTokIdx
			e.r.Confirm(sig, fmt.Sprintf("real expiry goroutine (timer %s) finished for channel %d token %d, renewed by token %d: a chunk under token %d's keys is still accepted; table %s", delay, ch, tok, tok+1, tok, table))
		}
		detail := fmt.Sprintf("chunk under the keys of the replaced token %d, whose lifetime + 25%% elapsed long ago, is accepted; table %s", tok, table)
		if !ran {
			detail += " — the expiry of the token never ran (no expire.done within 15 s of the due time)"
		}
		e.r.Fail(c, sig, detail)
	}
	if e.d != nil && ran {
		impl := map[bool]string{true: "acc", false: "security"}[rerr == nil] + " " + table
		e.r.Compare(e.d, fmt.Sprintf("tokens o:%d:%d:1 o:%d:%d:2 e:%d:%d:1 c:%d:1", ch, tok, ch, tok+1, ch, tok, ch), impl)
	}
}

func (e *env) replay(line string) {
	f := strings.Fields(line)
	if len(f) < 4 || f[0] != "tokens" {
		return
	}
	tc := &tcase{}
	for _, u := range []string{ua.SecurityPolicyURIBasic256Sha256, ua.SecurityPolicyURIAes128Sha256RsaOaep, ua.SecurityPolicyURIBasic256, ua.SecurityPolicyURINone} {
		if short(u) == f[1] {
			tc.uri = u
		}
	}
	var m int
	fmt.Sscan(f[2], &m)
	tc.mode = ua.MessageSecurityMode(m)
	for _, t := range f[3:] {
		p := strings.Split(t, ":")
		v := ev{kind: p[0]}
		if p[0] == "c" && len(p) == 3 {
			fmt.Sscan(p[1], &v.ch)
			fmt.Sscan(p[2], &v.key)
		} else if len(p) == 4 {
			fmt.Sscan(p[1], &v.ch)
			fmt.Sscan(p[2], &v.tok)
			fmt.Sscan(p[3], &v.key)
		} else {
			return
		}
		tc.evs = append(tc.evs, v)
	}
	if tc.uri != "" {
		e.runCase(tc)
	}
}

func main() {
	o := h.ParseOpts()
	r := h.NewResult("C17", o)
	d, err := h.StartDriver(o.Driver)
	if err != nil {
		r.InfraError = err.Error()
		r.Write(o.Out)
		return
	}
	defer d.Close()
	e := &env{o: o, r: r, d: d, rnd: h.NewRand(o.Seed), done: map[[2]uint32]int{}}
	if e.keyA, err = h.LoadKey(o.Keys, 2048, "a"); err == nil {
		e.keyB, err = h.LoadKey(o.Keys, 2048, "b")
	}
	if err != nil {
		r.InfraError = "keys: " + err.Error()
		r.Write(o.Out)
		return
	}
	uasc.VerifSetHook(func(name string, args ...interface{}) {
		if name == "expire.done" && len(args) == 2 {
			e.evMu.Lock()
			e.done[[2]uint32{args[0].(uint32), args[1].(uint32)}]++
			e.evMu.Unlock()
		}
	})
	r.Rule = "case = (policy, mode, event list): o = OpenSecureChannel response handled by the real handleOpenSecureChannelResponse (channel id, token id, fresh nonces), e = the real scheduleExpiration run to completion for that token (creation time back-dated so that the timer is due), c = a chunk secured with the keys of a token (or unknown keys / unknown channel id) read by the real readChunk; verdict list and final instance table vs Lean Tokens.verdicts/runEvs; plus one run per check where the expiry goroutine started by the real code itself is awaited (thorough: after a real 2 s timer). First token ids equal to the channel id in 40% of the cases. non-trivial = contains an expiry; distinct by text"
	if o.Replay != "" {
		e.replay(o.Replay)
		r.Write(o.Out)
		return
	}
	for _, l := range o.CorpusLines() {
		e.replay(l)
	}
	e.asyncCase(7, 1, 0) // token id ≠ channel id: the finding
	e.asyncCase(5, 5, 0) // token id = channel id: the expiry must work
	if o.Thorough() {
		e.asyncCase(7, 1, 2*time.Second)
		e.asyncCase(5, 5, 2*time.Second)
	}
	n := o.N(200, 4000)
	for i := 0; i < n && r.InfraError == ""; i++ {
		tc := e.gen()
		if i%5 == 4 { // a channel in mode None: chunks carry token ids, there are no keys
			tc.uri, tc.mode = ua.SecurityPolicyURINone, ua.MessageSecurityModeNone
		}
		e.runCase(tc)
	}
	for _, b := range []string{"verdict:acc", "verdict:security", "verdict:noinstance", "expire:tok=chan", "expire:tok≠chan", "probe:superseded-and-expired", "async:real-goroutine", "mode:1", "none-mode:verdict:acc", "none-mode:verdict:noinstance"} {
		if r.Distribution[b] == 0 {
			r.Unreached = append(r.Unreached, b)
		}
	}
	r.Write(o.Out)
}
