// Correspondence runner and property oracle for C15: the public
// uapolicy.Asymmetric API (and the bare RSAOAEP / PKCS1v15 structs) with the
// committed test keys against the Lean model of the block loops, the generated
// constructor guards and parameters; plus the property's own oracle on the
// implementation: round trip for every length, signatures verify only for the
// signed bytes and the right key, keys outside the Part 7 range are refused.
package main

import (
	"bytes"
	"crypto"
	"crypto/rand"
	"crypto/rsa"
	"crypto/sha1"
	"crypto/sha256"
	"fmt"
	"math/big"
	"strconv"
	"strings"

	"github.com/gopcua/opcua/ua"
	"github.com/gopcua/opcua/uapolicy"

	"verifharness/internal/h"
)

func short(uri string) string { return uri[strings.LastIndex(uri, "#")+1:] }

// specBits is the Part 7 table (MinAsymmetricKeyLength, MaxAsymmetricKeyLength)
// written independently of the code (oracle side).
var specBits = map[string][2]int{
	"Basic128Rsa15":         {1024, 2048},
	"Basic256":              {1024, 2048},
	"Basic256Sha256":        {2048, 4096},
	"Aes128_Sha256_RsaOaep": {2048, 4096},
	"Aes256_Sha256_RsaPss":  {2048, 4096},
}

type env struct {
	o    *h.Opts
	r    *h.Result
	d    *h.Driver
	rnd  *h.Rand
	keys map[string]*rsa.PrivateKey // "<bits>_<who>"
	sigs map[string]bool            // known-finding failures already recorded per policy
}

// synthetic public key with a modulus of exactly `bits` bits (only Size() is
// looked at by the constructors)
func synthPub(bits int) *rsa.PublicKey {
	n := new(big.Int).Lsh(big.NewInt(1), uint(bits-1))
	n.Or(n, big.NewInt(1))
	return &rsa.PublicKey{N: n, E: 65537}
}

func bitsArg(b int) string {
	if b < 0 {
		return "-"
	}
	return strconv.Itoa(b)
}

// accept runs the real constructor on synthetic keys; bits < 0 = nil key.
func (e *env) accept(uri string, lbits, rbits int) {
	pol := short(uri)
	var lk *rsa.PrivateKey
	var rk *rsa.PublicKey
	if lbits >= 0 {
		lk = &rsa.PrivateKey{PublicKey: *synthPub(lbits)}
	}
	if rbits >= 0 {
		rk = synthPub(rbits)
	}
	res := h.Catch(func() string {
		_, err := uapolicy.Asymmetric(uri, lk, rk)
		if err != nil {
			return "err"
		}
		return "ok"
	})
	c := fmt.Sprintf("accept %s %s %s", pol, bitsArg(lbits), bitsArg(rbits))
	e.r.Count(c, true)
	e.r.Hit("accept:" + res)
	e.r.Compare(e.d, c, res)
	// ---- oracle on the implementation: exactly the Part 7 range
	sp, limited := specBits[pol]
	want := "ok"
	for _, b := range []int{lbits, rbits} {
		if b >= 0 && limited && (b < sp[0] || b > sp[1]) {
			want = "err"
		}
	}
	if res != want {
		e.r.Fail(c, "", fmt.Sprintf("constructor says %s, Part 7 range %d..%d says %s", res, sp[0], sp[1], want))
	}
}

func (e *env) acceptAll() {
	uris := uapolicy.SupportedPolicies()
	maxBits := 4200
	for _, uri := range uris {
		for b := 1; b <= maxBits; b++ {
			// every bit length near the limits, every 3rd elsewhere in quick
			near := false
			for _, lim := range []int{1024, 2048, 4096} {
				if b >= lim-20 && b <= lim+20 {
					near = true
				}
			}
			if !near && !e.o.Thorough() && b%3 != e.rnd.Intn(3) {
				continue
			}
			e.accept(uri, -1, b)
			e.accept(uri, b, -1)
			e.accept(uri, b, b)
		}
		e.accept(uri, -1, -1)
		// mixed pairs around the limits
		edge := []int{1016, 1017, 1023, 1024, 1025, 2040, 2041, 2047, 2048, 2049, 3072, 4095, 4096, 4097, 4104}
		for _, l := range edge {
			for _, r := range edge {
				e.accept(uri, l, r)
			}
		}
	}
}

func (e *env) key(bits int, who string) *rsa.PrivateKey {
	id := fmt.Sprintf("%d_%s", bits, who)
	if k, ok := e.keys[id]; ok {
		return k
	}
	var k *rsa.PrivateKey
	if bits == 1024 || bits == 2048 || bits == 3072 || bits == 4096 {
		kp, err := h.LoadKey(e.o.Keys, bits, who)
		if err != nil {
			e.r.InfraError = "LoadKey: " + err.Error()
			return nil
		}
		k = kp.Key
	} else {
		var err error
		// odd sizes are generated (the answers compared depend on the size only)
		for i := 0; i < 20; i++ {
			k, err = rsa.GenerateKey(rand.Reader, bits)
			if err == nil && k.N.BitLen() == bits {
				break
			}
		}
		if err != nil || k == nil {
			e.r.InfraError = fmt.Sprintf("GenerateKey(%d): %v", bits, err)
			return nil
		}
	}
	e.keys[id] = k
	return k
}

func ceilDiv(a, b int) int { return (a + b - 1) / b }

// lengths to try for a block capacity mb and key size k
func (e *env) lengths(mb, k int, all bool) []int {
	if all {
		var out []int
		for n := 0; n <= 3*k; n++ {
			out = append(out, n)
		}
		return out
	}
	out := []int{0, 1, mb - 1, mb, mb + 1, 2*mb - 1, 2 * mb, 2*mb + 1, 3 * mb, 3 * k}
	for i := 0; i < e.o.N(6, 40); i++ {
		out = append(out, e.rnd.Intn(3*k+1))
	}
	return out
}

// pair exercises algorithm A = Asymmetric(uri, a, pub(b)) against
// B = Asymmetric(uri, b, pub(a)): A encrypts/signs, B decrypts/verifies.
func (e *env) pair(uri string, abits, bbits int, all bool) {
	pol := short(uri)
	ka, kb := e.key(abits, "a"), e.key(bbits, "b")
	if ka == nil || kb == nil {
		return
	}
	A, errA := uapolicy.Asymmetric(uri, ka, &kb.PublicKey)
	B, errB := uapolicy.Asymmetric(uri, kb, &ka.PublicKey)
	if errA != nil || errB != nil {
		e.r.Fail(fmt.Sprintf("pair %s %d %d", pol, abits, bbits), "", fmt.Sprintf("constructor refused keys within the range: %v %v", errA, errB))
		return
	}
	la, lb := ka.PublicKey.Size(), kb.PublicKey.Size()
	c := fmt.Sprintf("params %s %d %d", pol, la, lb)
	e.r.Count(c, true)
	e.r.Compare(e.d, c, fmt.Sprintf("%d %d %d %d %d", A.BlockSize(), A.PlaintextBlockSize(), A.SignatureLength(), A.RemoteSignatureLength(), A.NonceLength()))
	e.r.Hit("policy:" + pol)
	e.r.Hit(fmt.Sprintf("keybits:%d", bbits))

	k := lb
	mb := A.PlaintextBlockSize()
	if uri == ua.SecurityPolicyURINone {
		k, mb = 1, 1
	}
	// ---------------- encryption: A → B
	for _, n := range e.lengths(mb, max(k, 64), all) {
		if n < 0 {
			continue
		}
		p := e.rnd.Bytes(n)
		var ct []byte
		res := h.Catch(func() string {
			var err error
			ct, err = A.Encrypt(p)
			if err != nil {
				return "err"
			}
			q, err := B.Decrypt(ct)
			if err != nil || !bytes.Equal(q, p) {
				return fmt.Sprintf("ok %d nort", len(ct))
			}
			return fmt.Sprintf("ok %d rt", len(ct))
		})
		cs := fmt.Sprintf("enc %s %d %d", pol, k, n)
		if uri == ua.SecurityPolicyURINone {
			cs = fmt.Sprintf("enc %s 1 %d", pol, n)
		}
		e.r.Count(cs, true)
		e.r.Compare(e.d, cs, res)
		switch {
		case n == 0:
			e.r.Hit("len:0")
		case n%mb == 0:
			e.r.Hit("len:exact-multiple")
		case n < mb:
			e.r.Hit("len:one-block")
		default:
			e.r.Hit("len:multi-block")
		}
		// ---- oracle: round trip (implementation alone)
		if !strings.HasSuffix(res, " rt") {
			e.r.Fail(fmt.Sprintf("%s keys=%d/%d", cs, abits, bbits), "", "Decrypt(Encrypt(p)) != p: "+res)
			continue
		}
		e.r.Sample(fmt.Sprintf("%s -> %s (blocks of %d plaintext bytes)", cs, res, mb))
		if uri == ua.SecurityPolicyURINone || len(ct) == 0 {
			continue
		}
		// wrong private key must not return the plaintext
		if n > 0 && (n == 1 || n == mb+1) {
			out := h.Catch(func() string {
				q, err := A.Decrypt(ct) // A holds key a, the ciphertext is for b
				if err == nil && bytes.Equal(q, p) {
					return "same"
				}
				return "rejected"
			})
			e.r.Hit("wrong-key-decrypt:" + out)
			if out != "rejected" {
				e.r.Fail(cs+" wrong-key", "", "ciphertext for key b decrypted with key a: "+out)
			}
		}
		// truncated ciphertext: whole blocks give a prefix, anything else an error
		if n == 2*mb+1 || n == mb {
			for _, t := range []int{0, k, len(ct) - k, len(ct) - 1, k + 1, k - 1} {
				if t < 0 || t > len(ct) {
					continue
				}
				if t%k != 0 && strings.Contains(pol, "Rsa15") {
					// PKCS#1 v1.5 padding of a random block is valid with probability ~2^-17: not compared
					e.r.Hit("dec:trunc-pkcs-skipped")
					continue
				}
				out := h.Catch(func() string {
					q, err := B.Decrypt(ct[:t])
					if err != nil {
						return "err"
					}
					return fmt.Sprintf("ok %d", len(q))
				})
				dc := fmt.Sprintf("dec %s %d %d %d", pol, k, n, t)
				e.r.Count(dc, true)
				e.r.Hit("dec:" + strings.Fields(out)[0])
				e.r.Compare(e.d, dc, out)
				if out == "panic" {
					e.r.Fail(dc, "", "Decrypt panicked on a truncated ciphertext")
				}
			}
		}
	}
	if uri == ua.SecurityPolicyURINone {
		return
	}
	// ---------------- signatures: A signs (key a), B verifies (pub a)
	other, _ := uapolicy.Asymmetric(uri, kb, &e.key(bbits, "a").PublicKey) // verifies with another identity of b's size
	if abits == bbits {
		other, _ = uapolicy.Asymmetric(uri, kb, &kb.PublicKey)
	}
	for _, n := range []int{0, 1, 31, 32, 64, 1000, 5000 + e.rnd.Intn(3000)} {
		m := e.rnd.Bytes(n)
		cs := fmt.Sprintf("sig %s %d/%d len=%d", pol, abits, bbits, n)
		e.r.Count(cs, true)
		res := h.Catch(func() string {
			s, err := A.Signature(m)
			if err != nil {
				return "sign-err " + err.Error()
			}
			if len(s) != A.SignatureLength() || len(s) != B.RemoteSignatureLength() {
				return fmt.Sprintf("siglen %d want %d/%d", len(s), A.SignatureLength(), B.RemoteSignatureLength())
			}
			if err := B.VerifySignature(m, s); err != nil {
				return "genuine-rejected"
			}
			// tampered message (every position for short messages, a random one otherwise)
			for i := 0; i < len(m); i++ {
				if len(m) > 64 {
					i = e.rnd.Intn(len(m))
				}
				m2 := append([]byte{}, m...)
				m2[i] ^= 1 << uint(e.rnd.Intn(8))
				if B.VerifySignature(m2, s) == nil {
					return fmt.Sprintf("tampered-msg-accepted@%d", i)
				}
				if len(m) > 64 {
					break
				}
			}
			if B.VerifySignature(append(append([]byte{}, m...), 0), s) == nil {
				return "extended-msg-accepted"
			}
			if len(m) > 0 && B.VerifySignature(m[:len(m)-1], s) == nil {
				return "truncated-msg-accepted"
			}
			for j := 0; j < 6; j++ {
				s2 := append([]byte{}, s...)
				s2[e.rnd.Intn(len(s2))] ^= 1 << uint(e.rnd.Intn(8))
				if B.VerifySignature(m, s2) == nil {
					return "tampered-sig-accepted"
				}
			}
			if B.VerifySignature(m, s[:len(s)-1]) == nil || B.VerifySignature(m, append(append([]byte{}, s...), 0)) == nil {
				return "resized-sig-accepted"
			}
			if other != nil && other.VerifySignature(m, s) == nil {
				return "wrong-key-accepted"
			}
			return "ok"
		})
		e.r.Hit("sig:" + strings.Fields(res)[0])
		if res != "ok" {
			e.r.Fail(cs, "", "signature oracle: "+res)
		}
	}
}

// raw runs the bare structs without the constructor limits.
func (e *env) raw(scheme string, key *rsa.PrivateKey, n int) {
	k := key.PublicKey.Size()
	p := e.rnd.Bytes(n)
	res := h.Catch(func() string {
		var ct, q []byte
		var err error
		switch scheme {
		case "pkcs1v15":
			ct, err = (&uapolicy.PKCS1v15{PublicKey: &key.PublicKey}).Encrypt(p)
			if err == nil {
				q, err = (&uapolicy.PKCS1v15{PrivateKey: key}).Decrypt(ct)
			}
		case "oaepSha1":
			ct, err = (&uapolicy.RSAOAEP{Hash: crypto.SHA1, PublicKey: &key.PublicKey}).Encrypt(p)
			if err == nil {
				q, err = (&uapolicy.RSAOAEP{Hash: crypto.SHA1, PrivateKey: key}).Decrypt(ct)
			}
		case "oaepSha256":
			ct, err = (&uapolicy.RSAOAEP{Hash: crypto.SHA256, PublicKey: &key.PublicKey}).Encrypt(p)
			if err == nil {
				q, err = (&uapolicy.RSAOAEP{Hash: crypto.SHA256, PrivateKey: key}).Decrypt(ct)
			}
		}
		if err != nil {
			return "err"
		}
		if !bytes.Equal(p, q) {
			return fmt.Sprintf("ok %d nort", len(ct))
		}
		return fmt.Sprintf("ok %d rt", len(ct))
	})
	c := fmt.Sprintf("raw %s %d %d", scheme, k, n)
	e.r.Count(c, true)
	e.r.Hit("raw:" + strings.Fields(res)[0])
	e.r.Compare(e.d, c, res)
	if len(e.r.Samples) < 8 && res == "panic" {
		e.r.Sample(c + " -> panic (bare struct, key below what any policy admits; not reachable through uapolicy.Asymmetric)")
	}
}

// rsaRef: PKCS#1 v1.5 signatures produced by the real code are verified by the
// independent Lean reference (modular exponentiation, EMSA-PKCS1-v1_5, SHA-1/256),
// bytes compared: the recovered encoded message against math/big, the verdict
// for genuine, bit-flipped, out-of-range and mis-sized signatures against
// uapolicy's VerifySignature. Public parts of the committed keys only.
func (e *env) rsaRef() {
	algs := map[string]string{"Basic128Rsa15": "sha1", "Basic256": "sha1", "Basic256Sha256": "sha256", "Aes128_Sha256_RsaOaep": "sha256"}
	sizes := []int{1024, 2048, 3072, 4096}
	for _, uri := range uapolicy.SupportedPolicies() {
		pol := short(uri)
		alg, ok := algs[pol]
		if !ok {
			continue // None: no signature; Aes256_Sha256_RsaPss: PSS stays abstract
		}
		sp := specBits[pol]
		for _, bits := range sizes {
			if bits < sp[0] || bits > sp[1] {
				continue
			}
			for _, who := range []string{"a", "b"} {
				key := e.key(bits, who)
				if who == "b" {
					kp, err := h.LoadKey(e.o.Keys, bits, "b")
					if err != nil {
						e.r.InfraError = err.Error()
						return
					}
					key = kp.Key
				}
				if key == nil {
					return
				}
				signer, err1 := uapolicy.Asymmetric(uri, key, nil)
				verifier, err2 := uapolicy.Asymmetric(uri, nil, &key.PublicKey)
				if err1 != nil || err2 != nil {
					e.r.Fail("rsaref "+pol, "", fmt.Sprint("constructor: ", err1, err2))
					continue
				}
				nHex := h.Hex(key.PublicKey.N.Bytes())
				k := key.PublicKey.Size()
				lens := []int{0, 1, 55, 56, 64, 119, 1000 + e.rnd.Intn(3000)}
				if !e.o.Thorough() {
					lens = []int{0, 55 + e.rnd.Intn(10), 500 + e.rnd.Intn(2000)}
				}
				for _, n := range lens {
					msg := e.rnd.Bytes(n)
					sig, err := signer.Signature(msg)
					if err != nil {
						e.r.Fail("rsaref sign "+pol, "", err.Error())
						continue
					}
					ask := func(kind string, m, s []byte) {
						impl := "bad"
						if verifier.VerifySignature(m, s) == nil {
							impl = "ok"
						}
						line := fmt.Sprintf("rsaverify %s %s %d %s %s", alg, nHex, key.PublicKey.E, h.Hex(m), h.Hex(s))
						e.r.Count(line, true)
						e.r.Hit("rsaref:" + kind + ":" + impl)
						e.r.Hit(fmt.Sprintf("rsaref-key:%d", bits))
						if e.d != nil {
							if got := e.d.Ask(line); got != impl {
								e.r.Disagree(fmt.Sprintf("rsaverify %s %s bits=%d %s msglen=%d", alg, pol, bits, kind, len(m)), got, impl)
							}
						}
						// oracle on the implementation alone
						if (kind == "genuine") != (impl == "ok") {
							e.r.Fail(fmt.Sprintf("rsaref %s %d %s msglen=%d", pol, bits, kind, len(m)), "", "VerifySignature says "+impl)
						}
					}
					ask("genuine", msg, sig)
					// oracle: what the code calls an RSA-PKCS15-SHAx signature is one for a standard verifier
					// (crypto/rsa + crypto/sha*, directly, not through uapolicy)
					hh, hid := sha1.Sum(msg), crypto.SHA1
					dig := hh[:]
					if alg == "sha256" {
						h2 := sha256.Sum256(msg)
						dig, hid = h2[:], crypto.SHA256
					}
					if err := rsa.VerifyPKCS1v15(&key.PublicKey, hid, dig, sig); err != nil {
						e.r.Fail(fmt.Sprintf("rsaref %s %d standard-verifier msglen=%d msg=%s", pol, bits, n, h.Hex(msg[:min(n, 32)])), "",
							"the signature uapolicy produced is not a standard RSASSA-PKCS1-v1_5/"+alg+" signature of the message: "+err.Error())
					}
					s2 := append([]byte{}, sig...)
					s2[e.rnd.Intn(len(s2))] ^= 1 << uint(e.rnd.Intn(8))
					ask("sig-bit-flipped", msg, s2)
					if n > 0 {
						m2 := append([]byte{}, msg...)
						m2[e.rnd.Intn(n)] ^= 1 << uint(e.rnd.Intn(8))
						ask("msg-bit-flipped", m2, sig)
					}
					ask("sig-too-short", msg, sig[1:])
					ask("sig-equals-modulus", msg, key.PublicKey.N.FillBytes(make([]byte, k)))
					// the recovered encoded message, byte for byte, against math/big
					em := new(big.Int).Exp(new(big.Int).SetBytes(sig), big.NewInt(int64(key.PublicKey.E)), key.PublicKey.N).FillBytes(make([]byte, k))
					line := fmt.Sprintf("rsaem %s %d %s", nHex, key.PublicKey.E, h.Hex(sig))
					e.r.Count(line, true)
					e.r.Hit("rsaref:em")
					e.r.Compare(e.d, line, h.Hex(em))
					if len(em) < 11 || em[0] != 0 || em[1] != 1 {
						e.r.Fail("rsaref em "+pol, "", "recovered encoded message does not start with 00 01")
					}
				}
			}
		}
	}
}

func (e *env) nokey() {
	res := h.Catch(func() string {
		out := ""
		for _, uri := range uapolicy.SupportedPolicies() {
			if uri == ua.SecurityPolicyURINone {
				continue
			}
			a, err := uapolicy.Asymmetric(uri, nil, nil)
			if err != nil {
				return "ctor-err"
			}
			_, e1 := a.Encrypt([]byte{1})
			_, e2 := a.Decrypt([]byte{1})
			_, e3 := a.Signature([]byte{1})
			e4 := a.VerifySignature([]byte{1}, []byte{1})
			if e1 == nil || e2 == nil || e3 == nil || e4 == nil {
				return "no-key-accepted " + short(uri)
			}
			out = "err err"
		}
		return out
	})
	e.r.Count("nokey", true)
	e.r.Hit("nokey:" + strings.Fields(res)[0])
	e.r.Compare(e.d, "nokey", res)
	if res != "err err" {
		e.r.Fail("nokey", "", "algorithm without keys: "+res)
	}
}

func (e *env) replay(line string) {
	f := strings.Fields(line)
	uriOf := func(p string) string { return ua.SecurityPolicyURIPrefix + p }
	atoi := func(s string) int {
		if s == "-" {
			return -1
		}
		n, _ := strconv.Atoi(s)
		return n
	}
	switch {
	case len(f) == 4 && f[0] == "accept":
		e.accept(uriOf(f[1]), atoi(f[2]), atoi(f[3]))
	case len(f) >= 3 && (f[0] == "enc" || f[0] == "dec" || f[0] == "params" || f[0] == "sig" || f[0] == "pair"):
		// re-run the whole pair for the key size(s) named
		bits := atoi(f[2]) * 8
		if f[0] == "pair" {
			bits = atoi(f[2])
		}
		if f[0] == "sig" {
			bits = atoi(strings.Split(f[2], "/")[0])
		}
		if f[1] == "None" || bits < 1024 {
			bits = 2048
		}
		e.pair(uriOf(f[1]), bits, bits, true)
	default:
		e.all()
	}
}

func (e *env) all() {
	e.acceptAll()
	e.nokey()
	e.rsaRef()
	sizes := []int{1024, 2048, 3072, 4096}
	odd := []int{1032, 2056}
	if e.o.Thorough() {
		odd = []int{1032, 1528, 2056, 3080}
	}
	for _, uri := range uapolicy.SupportedPolicies() {
		pol := short(uri)
		sp, limited := specBits[pol]
		var ok []int
		for _, s := range append(append([]int{}, sizes...), odd...) {
			if !limited || (s >= sp[0] && s <= sp[1]) {
				ok = append(ok, s)
			}
		}
		if !limited {
			ok = []int{2048}
		}
		for _, s := range ok {
			all := e.o.Thorough() && s <= 2056
			e.pair(uri, s, s, all)
		}
		// mixed sizes: smallest with largest, both directions
		if len(ok) > 1 {
			lo, hi := ok[0], sizes[len(sizes)-1]
			if hi > sp[1] {
				hi = sp[1]
			}
			e.pair(uri, lo, hi, false)
			e.pair(uri, hi, lo, false)
		}
	}
	// bare structs with keys no policy admits: the model predicts the panic
	small := e.key(256, "a")
	mid := e.key(512, "a")
	k1024 := e.key(1024, "a")
	if small != nil && mid != nil && k1024 != nil {
		for _, n := range []int{0, 1, 21, 22, 60} {
			e.raw("pkcs1v15", small, n)
			e.raw("oaepSha1", small, n)
			e.raw("oaepSha1", mid, n)
			e.raw("oaepSha256", mid, n)
			e.raw("oaepSha256", k1024, n)
			e.raw("oaepSha1", k1024, n)
		}
	}
	e.r.Unreached = append(e.r.Unreached, "model outcome `diverge` (block size exactly 0: bare RSAOAEP with a 336-bit/SHA1 or 1040-bit/SHA256 key) is not executed against the real code (it would not return); unreachable through uapolicy.Asymmetric by C15_capacity")
}

func main() {
	o := h.ParseOpts()
	r := h.NewResult("C15", o)
	d, err := h.StartDriver(o.Driver)
	if err != nil {
		r.InfraError = err.Error()
		r.Write(o.Out)
		return
	}
	defer d.Close()
	e := &env{o: o, r: r, d: d, rnd: h.NewRand(o.Seed), keys: map[string]*rsa.PrivateKey{}, sigs: map[string]bool{}}
	r.Rule = "cases: (a) accept = constructor on synthetic keys of every bit length 1..4200 (all near the limits, a seeded third elsewhere in quick) as local, remote and both, plus mixed edge pairs, vs the generated guards; oracle = Part 7 range. (b) enc = A.Encrypt/B.Decrypt through uapolicy.Asymmetric for every policy x admissible key size (committed 1024..4096-bit keys, generated 1032/2056-bit keys, mixed sizes) x plaintext lengths 0,1,mb-1,mb,mb+1,2mb-1,2mb,2mb+1,3mb,3k + seeded random (thorough: every length 0..3k for keys <= 2056 bits) vs the Lean block-loop model (ciphertext length, round trip); truncated ciphertexts; wrong key. (c) sig = sign/verify with tampered message, signature, resized signature, other identity (oracle only). (d) raw = bare structs with undersized keys vs the model's panic prediction. Distinct by canonical request line."
	if o.Replay != "" {
		e.replay(o.Replay)
	} else {
		for _, l := range o.CorpusLines() {
			e.replay(l)
		}
		e.all()
	}
	r.Write(o.Out)
}
