// Correspondence runner and property oracle for C38: the real
// SetMaximumBodySize / signAndEncrypt (through the verif hooks) against the
// Lean length model, plus the property's own oracle on the implementation.
package main

import (
	"encoding/binary"
	"fmt"
	"strings"

	"github.com/gopcua/opcua/ua"
	"github.com/gopcua/opcua/uapolicy"
	"github.com/gopcua/opcua/uasc"

	"verifharness/internal/h"
)

func short(uri string) string { return uri[strings.LastIndex(uri, "#")+1:] }

type env struct {
	o   *h.Opts
	r   *h.Result
	d   *h.Driver
	rnd *h.Rand
}

func rawChunk(body []byte) ([]byte, *uasc.Message) {
	m := &uasc.Message{MessageHeader: &uasc.MessageHeader{
		Header:                  uasc.NewHeader(uasc.MessageTypeMessage, uasc.ChunkTypeFinal, 1),
		SymmetricSecurityHeader: uasc.NewSymmetricSecurityHeader(1),
		SequenceHeader:          uasc.NewSequenceHeader(1, 1),
	}}
	b := make([]byte, 0, 24+len(body))
	b = append(b, 'M', 'S', 'G', 'F', 0, 0, 0, 0, 1, 0, 0, 0, 1, 0, 0, 0, 1, 0, 0, 0, 1, 0, 0, 0)
	b = append(b, body...)
	// EncodeChunks writes MessageSize = 24 + len(body) into the unsecured chunk
	binary.LittleEndian.PutUint32(b[4:], uint32(len(b)))
	return b, m
}

// secure runs the real signAndEncrypt on a body of n bytes and reports
// "<chunkLen> <sizeField> <ok|encrypt-refuses>".
func secure(inst *uasc.VerifInstance, n int, rnd *h.Rand) (string, int, bool) {
	body := rnd.Bytes(n)
	b, m := rawChunk(body)
	out, err := inst.SignAndEncrypt(m, b)
	if err != nil {
		return "err " + err.Error(), 0, false
	}
	size := int(binary.LittleEndian.Uint32(out[4:8]))
	return fmt.Sprintf("%d %d ok", len(out), size), len(out), true
}

func (e *env) one(uri string, mode ua.MessageSecurityMode, cs int) {
	nonceL, nonceR := e.rnd.Bytes(32), e.rnd.Bytes(32)
	inst, err := uasc.VerifNewSymmetricInstance(uri, mode, nonceL, nonceR)
	if err != nil {
		e.r.InfraError = "VerifNewSymmetricInstance: " + err.Error()
		return
	}
	pol := short(uri)
	mb := int(inst.SetMaximumBodySize(cs))
	c := fmt.Sprintf("maxbody %s %d", pol, cs)
	e.r.Count(c, true)
	e.r.Hit("policy:" + pol)
	e.r.Hit(fmt.Sprintf("mode:%d", mode))
	e.r.Compare(e.d, c, fmt.Sprint(mb))
	e.r.Sample(fmt.Sprintf("%s mode=%d -> maxBody=%d", c, mode, mb))

	bodies := []int{0, 1, mb - 1, mb, mb + 1, e.rnd.Intn(mb + 1), e.rnd.Intn(mb + 1)}
	for _, n := range bodies {
		if n < 0 || n > 1<<25 {
			continue
		}
		res, l, ok := secure(inst, n, e.rnd)
		c := fmt.Sprintf("seclen %s %d %d", pol, mode, n)
		e.r.Count(c, true)
		e.r.Compare(e.d, c, res)
		if !ok {
			e.r.Fail(fmt.Sprintf("%s cs=%d", c, cs), "", "signAndEncrypt failed: "+res)
			continue
		}
		// ---- the property's own oracle, on the implementation alone
		size := strings.Fields(res)[1]
		if size != fmt.Sprint(l) {
			e.r.Fail(fmt.Sprintf("%s cs=%d", c, cs), "", fmt.Sprintf("MessageSize field %s but chunk has %d bytes", size, l))
		}
		if n <= mb && l > cs {
			e.r.Fail(fmt.Sprintf("%s cs=%d", c, cs), "", fmt.Sprintf("body %d ≤ maxBody %d gives a secured chunk of %d bytes > chunk size %d", n, mb, l, cs))
		}
		if mode == ua.MessageSecurityModeSignAndEncrypt {
			bs := inst.Algo().BlockSize()
			if (l-16)%bs != 0 {
				e.r.Fail(fmt.Sprintf("%s cs=%d", c, cs), "", fmt.Sprintf("encrypted part %d not a whole number of %d-byte blocks", l-16, bs))
			}
			// "padded to a whole cipher block": the padding never reaches a full block of
			// the real cipher (AES: 16 bytes, whatever the algorithm object reports)
			realBlock := 16
			if uri == ua.SecurityPolicyURINone {
				realBlock = 1
			}
			if pad := l - (16 + 8 + n + inst.Algo().SignatureLength() + 1); pad < 0 || pad >= realBlock {
				e.r.Fail(fmt.Sprintf("%s cs=%d", c, cs), "", fmt.Sprintf("%d padding bytes for a %d-byte cipher block: not padded to the next whole block", pad, realBlock))
			}
			if n == mb+1 && l <= cs {
				e.r.Fail(fmt.Sprintf("%s cs=%d", c, cs), "", fmt.Sprintf("maxBody %d is not tight: body %d still fits (%d ≤ %d)", mb, n, l, cs))
			}
		}
	}
}

func main() {
	o := h.ParseOpts()
	r := h.NewResult("C38", o)
	d, err := h.StartDriver(o.Driver)
	if err != nil {
		r.InfraError = err.Error()
		r.Write(o.Out)
		return
	}
	defer d.Close()
	e := &env{o, r, d, h.NewRand(o.Seed)}
	r.Rule = "case = (policy, mode, chunk size, body size): real SetMaximumBodySize and signAndEncrypt vs Lean maxBody/secureLen; all 6 policies x 3 modes; chunk sizes 8192..8192+span contiguous, boundary sizes and seeded random sizes; bodies 0,1,max-1,max,max+1 and two random; every case counts as non-trivial (each reaches the arithmetic), distinct by (policy, mode/size, value)"

	var sizes []int
	span := o.N(48, 4096)
	for cs := 8192; cs <= 8192+span; cs++ {
		sizes = append(sizes, cs)
	}
	sizes = append(sizes, 65519, 65520, 65521, 65535, 65536, 65537, 1<<17-1, 1<<17)
	for i := 0; i < o.N(20, 400); i++ {
		sizes = append(sizes, 8192+e.rnd.Intn(1<<18))
	}
	if o.Thorough() {
		sizes = append(sizes, 1<<20-1, 1<<20, 1<<20+1, 1<<24+5)
	}
	uris := uapolicy.SupportedPolicies()
	modes := []ua.MessageSecurityMode{ua.MessageSecurityModeNone, ua.MessageSecurityModeSign, ua.MessageSecurityModeSignAndEncrypt}
	for _, cs := range sizes {
		for _, uri := range uris {
			for _, mode := range modes {
				if uri == ua.SecurityPolicyURINone && mode != ua.MessageSecurityModeNone {
					continue // the channel constructor refuses None with a signing mode
				}
				e.one(uri, mode, cs)
			}
		}
	}
	r.Write(o.Out)
}
