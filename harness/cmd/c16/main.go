// Correspondence runner and property oracle for C16.
//
//	(a) the real scheduleRenewal is evaluated (through a hook that stops it at
//	    its verifPoint) for lifetimes 0…20000 ms, boundaries and random 32-bit
//	    values, and compared with the Lean model of the matched expression; the
//	    oracle (L/2 ≤ delay < L) runs on the real values; a live channel shows
//	    the immediate re-renewal for a 1 s lifetime;
//	(b) senders with real responses racing with renewals on a real client
//	    channel: traces validated by the Lean LTS, one renewal per token, every
//	    request completes; a forced race reproduces the WaitGroup panic in renew;
//	(c) the server re-key model is exercised through the driver (model level).
package main

import (
	"context"
	"fmt"
	"runtime"
	"strings"
	"sync"
	"sync/atomic"
	"time"

	"github.com/gopcua/opcua/ua"
	"github.com/gopcua/opcua/uacp"
	"github.com/gopcua/opcua/uapolicy"
	"github.com/gopcua/opcua/uasc"

	"verifharness/internal/h"
)

type env struct {
	o *h.Opts
	r *h.Result
	d *h.Driver
}

const (
	chanID   = 9
	initTok  = 5
	sigPanic = "C16.renew-waitgroup-panic"
)

// ---------------------------------------------------------------- (a)

type stopAt struct{ when time.Duration }

var stopValue = &stopAt{}

// realDelayNs evaluates the real scheduleRenewal for an arbitrary nanosecond lifetime.
func realDelayNs(ns uint64) (time.Duration, bool) {
	var got time.Duration
	seen := false
	uasc.VerifSetHook(func(name string, args ...interface{}) {
		if name == "renew.schedule" && len(args) == 3 {
			got, _ = args[2].(time.Duration)
			seen = true
			panic(stopValue)
		}
	})
	defer uasc.VerifSetHook(nil)
	uasc.VerifScheduleRenewal(time.Duration(ns), stopValue)
	return got, seen
}

// floatStep compares the IEEE-754 model of `int64(float64(x)*0.75)` (Lean: SendFloat.f64mul075) with the real
// expression for nanosecond lifetimes that are NOT whole milliseconds: below 2^53/3 ns the result is ⌊0.75x⌋,
// above it rounding to 53 bits shows (⌊0.75x⌋ or one more).
func (e *env) floatStep() {
	rnd := h.NewRand(e.o.Seed + 77)
	var xs []uint64
	const edge = 3002399751580330 // 2^53/3
	for d := uint64(0); d < 24; d++ {
		xs = append(xs, edge-8+d)
	}
	for i := 0; i < e.o.N(3000, 300000); i++ {
		switch i % 3 {
		case 0:
			xs = append(xs, rnd.U64()%4294967295000000)
		case 1:
			xs = append(xs, edge+rnd.U64()%(4294967295000000-edge))
		default:
			xs = append(xs, rnd.U64()%(1<<40))
		}
	}
	for _, x := range xs {
		when, ok := realDelayNs(x)
		if !ok {
			e.r.InfraError = "scheduleRenewal did not reach its verifPoint"
			return
		}
		c := fmt.Sprintf("f64 %d", x)
		e.r.Count(c, true)
		e.r.Compare(e.d, c, fmt.Sprint(int64(when)))
		switch uint64(when) {
		case 3 * x / 4:
			e.r.Hit("f64:floor")
		case 3*x/4 + 1:
			e.r.Hit("f64:floor-plus-one")
		default:
			e.r.Fail(c, "", fmt.Sprintf("int64(float64(%d)*0.75) = %d is neither ⌊0.75x⌋ nor ⌊0.75x⌋+1", x, int64(when)))
		}
	}
}

func realDelay(lifetimeMs uint64) (time.Duration, bool) {
	var got time.Duration
	seen := false
	uasc.VerifSetHook(func(name string, args ...interface{}) {
		if name == "renew.schedule" && len(args) == 3 {
			got, _ = args[2].(time.Duration)
			seen = true
			panic(stopValue)
		}
	})
	defer uasc.VerifSetHook(nil)
	uasc.VerifScheduleRenewal(time.Duration(lifetimeMs)*time.Millisecond, stopValue)
	return got, seen
}

func (e *env) delays() {
	r := e.r
	var ls []uint64
	for l := uint64(0); l <= uint64(e.o.N(20000, 10000000)); l++ {
		ls = append(ls, l)
	}
	for _, b := range []uint64{1333, 1334, 2000, 2001, 2666, 2667, 3999, 4000, 4001, 59999, 60000, 600000, 3600000, 1<<31 - 1, 1 << 31, 1<<32 - 1} {
		ls = append(ls, b, b+1)
	}
	rnd := h.NewRand(e.o.Seed)
	for i := 0; i < e.o.N(2000, 200000); i++ {
		ls = append(ls, rnd.U64()%(1<<32))
	}
	for _, l := range ls {
		if l >= 1<<32 {
			continue
		}
		when, ok := realDelay(l)
		if !ok {
			r.InfraError = "scheduleRenewal did not reach its verifPoint"
			return
		}
		c := fmt.Sprintf("delay %d", l)
		r.Count(c, true)
		r.Compare(e.d, c, fmt.Sprint(int64(when)))
		// ---- oracle on the implementation alone: L/2 ≤ delay < L
		life := time.Duration(l) * time.Millisecond
		in := 2*when >= life && when < life
		if in {
			r.Hit("delay:in-window")
		} else if l == 0 {
			r.Hit("delay:zero-lifetime")
		} else {
			r.Fail(c, "", fmt.Sprintf("lifetime %v: renewal scheduled after %v, not in [%v, %v)", life, when, life/2, life))
			if when == 0 {
				r.Hit("delay:immediate")
			} else {
				r.Hit("delay:out-of-window")
			}
		}
	}
	r.Sample(fmt.Sprintf("delays: %d lifetimes evaluated through the real scheduleRenewal", len(ls)))
	for _, l := range []uint64{1000, 1333, 1334, 2000, 2001, 2500, 2666, 2667, 4000} {
		when, _ := realDelay(l)
		win := "out"
		if 2*when >= time.Duration(l)*time.Millisecond && when < time.Duration(l)*time.Millisecond {
			win = "in"
		}
		c := fmt.Sprintf("window %d", l)
		r.Count(c, true)
		r.Compare(e.d, c, win)
	}
}

// ---------------------------------------------------------------- live channel helpers

type peer struct {
	conn     *uacp.Conn
	mu       sync.Mutex
	wire     []h.PeerChunk
	opnTimes []time.Time
	issued   map[uint32]uint32
	lifetime uint32
	nextTok  uint32
	seq      uint32
	respond  bool // answer MSG requests with a ReadResponse
	sameTok  bool // every renewal is answered with the same token id (as the gopcua server does)
	done     chan struct{}
}

func startPeer(conn *uacp.Conn, lifetime uint32, respond bool) *peer {
	p := &peer{conn: conn, issued: map[uint32]uint32{}, lifetime: lifetime, nextTok: initTok, seq: 9000, respond: respond, done: make(chan struct{})}
	go func() {
		defer close(p.done)
		for {
			c, err := h.PeerRead(conn)
			if err != nil {
				return
			}
			c.Body = nil
			p.mu.Lock()
			p.wire = append(p.wire, *c)
			p.mu.Unlock()
			switch {
			case c.Type == "OPN":
				p.mu.Lock()
				if !p.sameTok {
					p.nextTok++
				}
				tok := p.nextTok
				p.issued[c.ReqID] = tok
				p.opnTimes = append(p.opnTimes, time.Now())
				p.mu.Unlock()
				h.PeerSendOPNResponse(conn, chanID, tok, &p.seq, c.ReqID, p.lifetime)
			case c.Type == "MSG" && c.ChunkType == 'F' && p.respond:
				p.mu.Lock()
				tok := p.nextTok
				p.mu.Unlock()
				h.PeerSendMSG(conn, chanID, tok, &p.seq, c.ReqID, &ua.ReadResponse{ResponseHeader: h.RespHeader(c.ReqID, ua.StatusOK)}, 8000)
			}
		}
	}()
	return p
}

type scen struct {
	name string
	sc   *uasc.SecureChannel
	ctl  *h.SendCtl
	p    *peer
	base uint32
	stop func()
}

func (e *env) open(name string, base uint32, lifetime uint32, respond bool) *scen {
	cli, srv, cleanup, err := h.SendLoopbackSize(8192)
	if err != nil {
		e.r.InfraError = "loopback: " + err.Error()
		return nil
	}
	cfg := h.NoneConfig(100, 30*time.Second)
	errch := make(chan error, 64)
	sc, err := uasc.VerifOpenChannel(cli, cfg, false, chanID, initTok, base, nil, nil, errch)
	if err != nil {
		cleanup()
		e.r.InfraError = "open channel: " + err.Error()
		return nil
	}
	ctl := h.NewSendCtl()
	uasc.VerifSetHook(ctl.Hook)
	sc.VerifStartDispatcher()
	s := &scen{name: name, sc: sc, ctl: ctl, base: base}
	s.p = startPeer(srv, lifetime, respond)
	s.stop = func() {
		uasc.VerifSetHook(nil)
		ctl.ReleaseAll()
		done := make(chan struct{})
		go func() { sc.Close(); close(done) }()
		select {
		case <-done:
		case <-time.After(5 * time.Second):
		}
		cleanup()
		<-s.p.done
	}
	return s
}

func renewRecover(sc *uasc.SecureChannel, panicked *atomic.Value) (err error) {
	defer func() {
		if p := recover(); p != nil {
			panicked.Store(fmt.Sprint(p))
			err = fmt.Errorf("panic: %v", p)
		}
	}()
	return sc.Renew(context.Background())
}

func req(tag int) *ua.ReadRequest {
	return &ua.ReadRequest{NodesToRead: []*ua.ReadValueID{{NodeID: ua.NewNumericNodeID(0, uint32(tag)), AttributeID: ua.AttributeIDValue, DataEncoding: &ua.QualifiedName{}}}}
}

// quiesce waits until no goroutine of a finished scenario reaches a verifPoint any more.
func quiesce() {
	var n atomic.Int64
	uasc.VerifSetHook(func(string, ...interface{}) { n.Add(1) })
	defer uasc.VerifSetHook(nil)
	last := int64(-1)
	for i := 0; i < 40 && last != n.Load(); i++ {
		last = n.Load()
		time.Sleep(50 * time.Millisecond)
	}
}

// live: after a renewal answered with a 1000 ms lifetime the library schedules the next renewal itself;
// it must come no earlier than 500 ms and before 1000 ms.
func (e *env) storm() {
	s := e.open("live-lifetime-1000ms", 10, 1000, false)
	if s == nil {
		return
	}
	var panicked atomic.Value
	if err := renewRecover(s.sc, &panicked); err != nil {
		e.blocked(s.name + ": first renewal failed: " + err.Error())
		s.stop()
		return
	}
	deadline := time.Now().Add(4 * time.Second)
	n := 0
	for time.Now().Before(deadline) {
		s.p.mu.Lock()
		n = len(s.p.opnTimes)
		s.p.mu.Unlock()
		if n >= 2 {
			break
		}
		time.Sleep(2 * time.Millisecond)
	}
	s.p.mu.Lock()
	times := append([]time.Time(nil), s.p.opnTimes...)
	s.p.mu.Unlock()
	s.stop()
	quiesce()
	e.r.Count(s.name, true)
	e.r.Hit("scenario:live-1000ms")
	if n < 2 {
		e.r.Fail(s.name, "", "a token with a lifetime of 1000 ms was not renewed within 4 s")
		return
	}
	gap := times[1].Sub(times[0])
	e.r.Sample(fmt.Sprintf("%s: the library renewed the 1000 ms token %v after it was issued", s.name, gap.Round(time.Millisecond)))
	switch {
	case gap < 500*time.Millisecond:
		e.r.Fail(s.name, "", fmt.Sprintf("token with a lifetime of 1000 ms renewed after %v, before half of its lifetime", gap))
	case gap < 1000*time.Millisecond:
		e.r.Hit("live:renewed-in-window")
	default:
		e.r.Notes = append(e.r.Notes, fmt.Sprintf("%s: renewal observed after %v (timer due at 750 ms; machine slow?)", s.name, gap))
	}
}

// liveExpiry: a 1000 ms lifetime, the peer re-uses the token id for every renewal (as the gopcua server
// does); one request after the other for 2.8 s, across two or three renewals and the expiry of the first
// tokens (at 125 % of their lifetime). Every request has to complete.
func (e *env) liveExpiry() {
	s := e.open("live-renewals-and-expiry", 10, 1000, true)
	if s == nil {
		return
	}
	s.p.mu.Lock()
	s.p.sameTok = true
	s.p.mu.Unlock()
	var panicked atomic.Value
	if err := renewRecover(s.sc, &panicked); err != nil {
		e.blocked(s.name + ": first renewal failed: " + err.Error())
		s.stop()
		return
	}
	t0 := time.Now()
	n, failed := 0, ""
	for time.Since(t0) < 2800*time.Millisecond && failed == "" {
		err := s.sc.SendRequestWithTimeout(context.Background(), req(n), nil, 5*time.Second, func(v ua.Response) error {
			if _, ok := v.(*ua.ReadResponse); !ok {
				return fmt.Errorf("got %T", v)
			}
			return nil
		})
		if err != nil {
			failed = fmt.Sprintf("request #%d, issued %v after the first token was installed, failed: %v", n, time.Since(t0).Round(time.Millisecond), err)
		}
		n++
		time.Sleep(5 * time.Millisecond)
	}
	s.p.mu.Lock()
	opn := len(s.p.opnTimes)
	s.p.mu.Unlock()
	s.stop()
	quiesce()
	e.r.Count(s.name, true)
	e.r.Hit("scenario:live-renewals-and-expiry")
	e.r.Sample(fmt.Sprintf("%s: %d requests, %d OPN requests in %v", s.name, n, opn, time.Since(t0).Round(time.Millisecond)))
	switch {
	case failed != "":
		// oracle: requests issued at any moment around a renewal complete normally
		e.r.Fail(s.name, "", failed)
	case opn < 3:
		e.r.Notes = append(e.r.Notes, fmt.Sprintf("%s: only %d renewals in 2.8 s (machine slow?)", s.name, opn-1))
	default:
		e.r.Hit("live:requests-survive-renewals-and-expiry")
	}
}

// ---------------------------------------------------------------- (b)

func (e *env) validate(s *scen, evs []h.SendEv, nRenew int) {
	r := e.r
	labels, burned, _ := h.SeqLabels(evs, s.sc.VerifReqLocker())
	s.p.mu.Lock()
	wire := append([]h.PeerChunk(nil), s.p.wire...)
	issued := map[uint32]uint32{}
	for k, v := range s.p.issued {
		issued[k] = v
	}
	s.p.mu.Unlock()
	r.Count(s.name+" "+strings.Join(labels, ";"), nRenew > 0)
	r.Sample(fmt.Sprintf("%s: %d labels, %d renewals: %s", s.name, len(labels), nRenew, strings.Join(labels, "; ")))
	for _, l := range labels {
		r.Hit("label:" + strings.Fields(l)[0])
	}
	// oracle (implementation alone): every token is renewed at most once: the OPN requests on the wire
	// are exactly the renewals asked for
	opn := 0
	for _, c := range wire {
		if c.Type == "OPN" {
			opn++
		}
	}
	if opn != nRenew {
		r.Fail(s.name, "", fmt.Sprintf("%d renewals requested, %d OPN requests on the wire", nRenew, opn))
	}
	v := h.CheckWire(wire, burned, issued, initTok)
	if !v.OK {
		r.Hit("wire:c11-finding-visible")
	}
	if e.d == nil {
		return
	}
	e.d.Ask(fmt.Sprintf("reset %d %d", s.base, initTok))
	inGuard := true
	for i, l := range labels {
		if l == "rLock" && e.d.Ask("guard rLock") != "in" {
			inGuard = false
		}
		if a := e.d.Ask("lts " + l); a != "ok" {
			r.Disagree(s.name, fmt.Sprintf("%s at step %d `%s` of %s", a, i, l, strings.Join(labels, ";")), "step taken by the implementation")
			return
		}
	}
	r.TracesValidated++
	ren := e.d.Ask("renewed")
	cnt := 0
	seen := map[string]bool{}
	if ren != "-" {
		for _, x := range strings.Split(ren, ",") {
			cnt++
			if seen[x] {
				r.Disagree(s.name+" renewed", ren, "an instance renewed twice")
			}
			seen[x] = true
		}
	}
	if cnt != nRenew {
		r.Disagree(s.name+" renewed", ren, fmt.Sprintf("%d renewals", nRenew))
	}
	if st := e.d.Ask("state"); !strings.HasPrefix(st, "rpc=idle locked=false pend=0") {
		r.Disagree(s.name+" final state", st, "rpc=idle locked=false pend=0 (everything returned)")
	}
	if inGuard {
		r.Hit("guard:inside")
		if !v.OK {
			r.Disagree(s.name+" inside the guard", "Linked", v.Detail)
		}
	} else {
		r.Hit("guard:outside")
	}
}

// requests with real responses racing with renewals: every request completes
func (e *env) around(seed uint64, idx int) {
	rnd := h.NewRand(seed*6151 + uint64(idx))
	s := e.open(fmt.Sprintf("around-renewal %d %d", seed, idx), uint32(rnd.Intn(1<<20)), 3600000, true)
	if s == nil {
		return
	}
	var yield uint64
	ymod := uint64(2 + rnd.Intn(5))
	s.ctl.OnEvent = func(ev *h.SendEv) {
		if strings.HasPrefix(ev.Name, "cl.") || strings.HasPrefix(ev.Name, "handlers.") || ev.Name == "active.get" || ev.Name == "open.install" {
			return
		}
		if atomic.AddUint64(&yield, 1)%ymod == 0 {
			runtime.Gosched()
		}
	}
	nSenders := 2 + rnd.Intn(4)
	per := 2 + rnd.Intn(4)
	nRenew := 1 + rnd.Intn(2)
	var wg sync.WaitGroup
	var failed atomic.Value
	var panicked atomic.Value
	var okCalls atomic.Int64
	for k := 0; k < nSenders; k++ {
		wg.Add(1)
		go func(k int) {
			defer wg.Done()
			for i := 0; i < per; i++ {
				err := s.sc.SendRequestWithTimeout(context.Background(), req(k*100+i), nil, 30*time.Second, func(v ua.Response) error {
					if _, ok := v.(*ua.ReadResponse); !ok {
						return fmt.Errorf("got %T", v)
					}
					return nil
				})
				if err != nil {
					failed.Store(fmt.Sprintf("request %d/%d: %v", k, i, err))
				} else {
					okCalls.Add(1)
				}
			}
		}(k)
	}
	wg.Add(1)
	go func() {
		defer wg.Done()
		for i := 0; i < nRenew; i++ {
			runtime.Gosched()
			if err := renewRecover(s.sc, &panicked); err != nil && panicked.Load() == nil {
				failed.Store("renew: " + err.Error())
			}
		}
	}()
	done := make(chan struct{})
	go func() { wg.Wait(); close(done) }()
	hung := false
	select {
	case <-done:
	case <-time.After(45 * time.Second):
		hung = true
	}
	evs := s.ctl.Events()
	uasc.VerifSetHook(nil)
	e.r.Hit("scenario:around-renewal")
	switch {
	case panicked.Load() != nil:
		e.r.Fail(s.name, sigPanic, fmt.Sprintf("Renew panicked: %v", panicked.Load()))
		e.r.Confirm(sigPanic, s.name+": "+fmt.Sprint(panicked.Load()))
		e.r.Hit("scenario:renew-panicked")
	case hung:
		// a stuck call is a failure of the property unless the machine is the reason: report as infra with a note
		e.blocked(s.name + ": calls did not return within 45 s")
	case failed.Load() != nil:
		// oracle: requests issued around a renewal complete normally
		e.r.Fail(s.name, "", fmt.Sprintf("%v", failed.Load()))
	default:
		e.r.Hit("outcome:all-requests-completed")
		e.validate(s, evs, nRenew)
	}
	s.stop()
}

// aroundSecure: requests with real responses racing with renewals in Sign / SignAndEncrypt mode between a real
// client channel and a real server channel (Basic256Sha256, committed keys). The server re-keys its one
// instance on every renewal, so a request of a stale sender (C11 finding, outside the guard) is rejected there
// and times out; inside the guard every request must complete.
func (e *env) aroundSecure(seed uint64, idx int, mode ua.MessageSecurityMode) {
	rnd := h.NewRand(seed*32452843 + uint64(idx))
	name := fmt.Sprintf("around-renewal-secure %d %d mode=%d", seed, idx, mode)
	a, err1 := h.LoadKey(e.o.Keys, 2048, "a")
	b, err2 := h.LoadKey(e.o.Keys, 2048, "b")
	if err1 != nil || err2 != nil {
		e.r.Notes = append(e.r.Notes, fmt.Sprintf("%s: keys not available (%v %v)", name, err1, err2))
		return
	}
	cli, srv, cleanup, err := h.SendLoopbackSize(65535)
	if err != nil {
		e.r.InfraError = "loopback: " + err.Error()
		return
	}
	defer cleanup()
	uri := ua.SecurityPolicyURIBasic256Sha256
	ccfg := &uasc.Config{SecurityPolicyURI: uri, SecurityMode: mode, Certificate: a.CertDER, LocalKey: a.Key,
		RemoteCertificate: b.CertDER, Thumbprint: uapolicy.Thumbprint(b.CertDER), Lifetime: 3600000, RequestTimeout: 30 * time.Second, RequestIDSeed: 100}
	scfg := &uasc.Config{SecurityPolicyURI: uri, SecurityMode: mode, Certificate: b.CertDER, LocalKey: b.Key,
		RemoteCertificate: a.CertDER, Thumbprint: uapolicy.Thumbprint(a.CertDER), Lifetime: 3600000, RequestTimeout: 30 * time.Second}
	nC, nS := rnd.Bytes(32), rnd.Bytes(32)
	base := uint32(rnd.Intn(1 << 20))
	csc, err := uasc.VerifOpenChannel(cli, ccfg, false, chanID, initTok, base, nC, nS, make(chan error, 64))
	if err != nil {
		e.r.InfraError = name + ": client channel: " + err.Error()
		return
	}
	ssc, err := uasc.VerifOpenServerChannel(srv, scfg, chanID, initTok, 5000, nS, nC, make(chan error, 64))
	if err != nil {
		e.r.InfraError = name + ": server channel: " + err.Error()
		return
	}
	ctl := h.NewSendCtl()
	uasc.VerifSetHook(ctl.Hook)
	defer func() { uasc.VerifSetHook(nil); ctl.ReleaseAll() }()
	csc.VerifStartDispatcher()
	sctx, scancel := context.WithCancel(context.Background())
	defer scancel()
	var secFail atomic.Int64
	var srvG atomic.Int64
	go func() {
		srvG.Store(h.GoID())
		for {
			msg := ssc.Receive(sctx)
			if msg.Err != nil {
				if strings.Contains(msg.Err.Error(), "SecurityChecksFailed") {
					secFail.Add(1)
					continue
				}
				return
			}
			if rr, ok := msg.Request().(*ua.ReadRequest); ok {
				ssc.SendResponseWithContext(sctx, msg.RequestID, &ua.ReadResponse{ResponseHeader: h.RespHeader(rr.RequestHeader.RequestHandle, ua.StatusOK)})
			}
		}
	}()
	nSenders := 2 + rnd.Intn(3)
	per := 2 + rnd.Intn(3)
	nRenew := 1 + rnd.Intn(2)
	var wg sync.WaitGroup
	var failed atomic.Int64
	var firstErr atomic.Value
	var panicked atomic.Value
	for k := 0; k < nSenders; k++ {
		wg.Add(1)
		go func(k int) {
			defer wg.Done()
			for i := 0; i < per; i++ {
				err := csc.SendRequestWithTimeout(context.Background(), req(k*100+i), nil, 2*time.Second, func(v ua.Response) error {
					if _, ok := v.(*ua.ReadResponse); !ok {
						return fmt.Errorf("got %T", v)
					}
					return nil
				})
				if err != nil {
					failed.Add(1)
					firstErr.Store(fmt.Sprintf("request %d/%d: %v", k, i, err))
				}
			}
		}(k)
	}
	wg.Add(1)
	go func() {
		defer wg.Done()
		for i := 0; i < nRenew; i++ {
			runtime.Gosched()
			if err := renewRecover(csc, &panicked); err != nil && panicked.Load() == nil {
				failed.Add(1)
				firstErr.Store("renew: " + err.Error())
			}
		}
	}()
	done := make(chan struct{})
	go func() { wg.Wait(); close(done) }()
	select {
	case <-done:
	case <-time.After(90 * time.Second):
		e.blocked(name + ": calls did not return")
		return
	}
	evs := ctl.Events()
	uasc.VerifSetHook(nil)
	cli.Close()
	if panicked.Load() != nil {
		e.r.Fail(name, sigPanic, fmt.Sprintf("Renew panicked: %v", panicked.Load()))
		e.r.Hit("scenario:renew-panicked")
		return
	}
	e.r.Hit(fmt.Sprintf("scenario:around-renewal-secure-mode-%d", mode))
	// the server channel lives in the same process: leave its goroutine's events out of the client's trace
	var cevs []h.SendEv
	for _, ev := range evs {
		if ev.G != srvG.Load() {
			cevs = append(cevs, ev)
		}
	}
	labels, _, _ := h.SeqLabels(cevs, csc.VerifReqLocker())
	e.r.Count(name+" "+strings.Join(labels, ";"), true)
	inGuard := true
	if e.d != nil {
		e.d.Ask(fmt.Sprintf("reset %d %d", base, initTok))
		for i, l := range labels {
			if l == "rLock" && e.d.Ask("guard rLock") != "in" {
				inGuard = false
			}
			if a := e.d.Ask("lts " + l); a != "ok" {
				e.r.Disagree(name, fmt.Sprintf("%s at step %d `%s` of %s", a, i, l, strings.Join(labels, ";")), "step taken by the implementation")
				return
			}
		}
		e.r.TracesValidated++
		if ren := e.d.Ask("renewed"); ren == "-" || len(strings.Split(ren, ",")) != nRenew {
			e.r.Disagree(name+" renewed", ren, fmt.Sprintf("%d renewals", nRenew))
		}
	}
	switch {
	case failed.Load() == 0 && secFail.Load() == 0:
		e.r.Hit("secure:all-requests-completed")
	case inGuard:
		// oracle: requests issued around a renewal complete normally
		e.r.Fail(name, "", fmt.Sprintf("inside the guard %d call(s) failed (%v), %d chunk(s) rejected by the server", failed.Load(), firstErr.Load(), secFail.Load()))
	default:
		e.r.Hit("secure:stale-sender-rejected-by-rekeyed-server")
	}
}

// renewWithOutstanding: a request is outstanding (written, the peer holds the answer back) when a renewal comes
// due. The renewal must still go out and complete: pendingReq only covers the sending of a request, not the wait
// for its response. Then the held answer is released and the request completes under the new token.
func (e *env) renewWithOutstanding() {
	s := e.open("renewal-with-outstanding-request", 30, 3600000, false)
	if s == nil {
		return
	}
	defer s.stop()
	type res struct {
		err error
		ok  bool
	}
	out := make(chan res, 1)
	actx, acancel := context.WithCancel(context.Background())
	defer acancel()
	go func() {
		var x res
		x.err = s.sc.SendRequestWithTimeout(actx, req(1), nil, 120*time.Second, func(v ua.Response) error {
			_, x.ok = v.(*ua.ReadResponse)
			return nil
		})
		out <- x
	}()
	// the request is on the wire once the peer has seen it
	seen := func() (uint32, bool) {
		s.p.mu.Lock()
		defer s.p.mu.Unlock()
		for _, c := range s.p.wire {
			if c.Type == "MSG" {
				return c.ReqID, true
			}
		}
		return 0, false
	}
	var reqID uint32
	for dl := time.Now().Add(60 * time.Second); ; {
		if id, ok := seen(); ok {
			reqID = id
			break
		}
		if time.Now().After(dl) {
			e.blocked(s.name + ": the request was not written")
			return
		}
		time.Sleep(time.Millisecond)
	}
	var panicked atomic.Value
	rdone := make(chan error, 1)
	t0 := time.Now()
	go func() { rdone <- renewRecover(s.sc, &panicked) }()
	e.r.Count(s.name, true)
	e.r.Hit("scenario:renewal-with-outstanding-request")
	select {
	case err := <-rdone:
		if err != nil {
			e.r.Fail(s.name, "", fmt.Sprintf("renewal while a request is outstanding failed: %v", err))
			return
		}
	case <-time.After(45 * time.Second):
		// oracle: the token is renewed before it expires, whatever requests are waiting for their responses
		e.r.Fail(s.name, "", "a renewal that came due while a request was waiting for its response did not go out within 45 s: renew blocks (gate closed, no OPN request on the wire) until the outstanding request returns")
		return
	}
	el := time.Since(t0)
	// now the held answer: it is delivered, the request completes
	s.p.mu.Lock()
	tok := s.p.nextTok
	s.p.mu.Unlock()
	h.PeerSendMSG(s.p.conn, chanID, tok, &s.p.seq, reqID, &ua.ReadResponse{ResponseHeader: h.RespHeader(reqID, ua.StatusOK)}, 8000)
	select {
	case x := <-out:
		if x.err != nil || !x.ok {
			e.r.Fail(s.name, "", fmt.Sprintf("the request that was outstanding during the renewal did not complete: %v", x.err))
			return
		}
	case <-time.After(45 * time.Second):
		e.r.Fail(s.name, "", "the request that was outstanding during the renewal never got its (delivered) response")
		return
	}
	e.r.Hit("outstanding-request:renewal-completed")
	e.r.Sample(fmt.Sprintf("%s: renewal completed in %v while request %d waited for its answer", s.name, el.Round(time.Millisecond), reqID))
}

// wgRace tries to make pendingReq.Add hit the window between the wake-up and the return of pendingReq.Wait.
func (e *env) wgRace(attempts int) {
	for a := 0; a < attempts; a++ {
		s := e.open(fmt.Sprintf("waitgroup-race %d", a), 50, 3600000, false)
		if s == nil {
			return
		}
		const nB = 6
		var held []*h.SendRule
		holdA := s.ctl.BlockAt(func(ev *h.SendEv) bool { return ev.Name == "send.beforeLock" })
		var wg sync.WaitGroup
		actx, acancel := context.WithCancel(context.Background())
		defer acancel()
		send := func(tag int) {
			wg.Add(1)
			go func() {
				defer wg.Done()
				if tag == 1 {
					// A waits for a response (that never comes) so that it reaches wait.begin right after pendingReq.Done
					s.sc.SendRequestWithTimeout(actx, req(tag), nil, 30*time.Second, func(ua.Response) error { return nil })
					return
				}
				s.sc.SendRequestWithTimeout(context.Background(), req(tag), nil, 30*time.Second, nil)
			}()
		}
		send(1) // A: counted (pendingReq.Add done), parked before instance.Lock
		if holdA.WaitReached(60*time.Second) == nil {
			e.blocked(s.name + ": sender A did not reach send.beforeLock")
			s.stop()
			return
		}
		for i := 0; i < nB; i++ { // B_i: past the gate, not yet counted
			hb := s.ctl.BlockAt(func(ev *h.SendEv) bool { return ev.Name == "send.afterActive" })
			spin := time.Duration(i*(a%4)) * 500 * time.Nanosecond // spread the Adds over the microseconds after the Done
			hb.After = func() {
				for t0 := time.Now(); time.Since(t0) < spin; {
				}
			}
			held = append(held, hb)
			send(10 + i)
			if hb.WaitReached(60*time.Second) == nil {
				e.blocked(s.name + ": sender B did not reach send.afterActive")
				s.stop()
				return
			}
		}
		// when A announces pendingReq.Done, let the B's run into pendingReq.Add
		var once sync.Once
		s.ctl.OnEvent = func(ev *h.SendEv) {
			if ev.Name == "wait.begin" { // A has just called pendingReq.Done
				once.Do(func() {
					for _, hb := range held {
						hb.Release()
					}
				})
			}
		}
		var panicked atomic.Value
		rdone := make(chan error, 1)
		go func() { rdone <- renewRecover(s.sc, &panicked) }()
		// the renewer is inside pendingReq.Wait once it passed renew.beforeWait
		if s.ctl.WaitEvent(60*time.Second, func(ev *h.SendEv) bool { return ev.Name == "renew.beforeWait" }) == nil {
			e.blocked(s.name + ": renewer did not reach pendingReq.Wait")
			s.stop()
			return
		}
		time.Sleep(2 * time.Millisecond)
		holdA.Release()
		stuck := false
		select {
		case <-rdone:
		case <-time.After(45 * time.Second):
			e.blocked(s.name + ": renew did not return although every request it had to wait for was written long ago")
			stuck = true
		}
		s.ctl.ReleaseAll()
		acancel()
		wdone := make(chan struct{})
		go func() { wg.Wait(); close(wdone) }()
		select {
		case <-wdone:
		case <-time.After(30 * time.Second):
		}
		uasc.VerifSetHook(nil)
		e.r.Count(s.name, true)
		e.r.Hit("scenario:waitgroup-race")
		p := panicked.Load()
		s.stop()
		if p != nil {
			e.r.Fail(s.name, sigPanic, fmt.Sprintf("renew panicked: %v (attempt %d)", p, a+1))
			if strings.Contains(fmt.Sprint(p), "WaitGroup") {
				e.r.Confirm(sigPanic, fmt.Sprintf("%v after %d attempt(s): 6 senders held between the gate and pendingReq.Add are released when the last counted sender calls pendingReq.Done while renew waits in pendingReq.Wait", p, a+1))
			}
			return
		}
		if e.r.InfraError != "" || stuck {
			return
		}
	}
	e.r.Notes = append(e.r.Notes, fmt.Sprintf("waitgroup race: not hit in %d attempts", attempts))
}

// ---------------------------------------------------------------- (c)

const sigRekey = "C16.server-rekey-wrong-algorithm"

// rekeyForced: real server channel and real client channel in Sign mode; the server's receive goroutine is
// parked inside handleOpenSecureChannelRequest right after `instance.algo = <asymmetric>`, another goroutine
// sends a response on the same channel.
func (e *env) rekeyForced() {
	name := "server-rekey-forced"
	a, err1 := h.LoadKey(e.o.Keys, 2048, "a")
	b, err2 := h.LoadKey(e.o.Keys, 2048, "b")
	if err1 != nil || err2 != nil {
		e.r.Notes = append(e.r.Notes, fmt.Sprintf("%s: keys not available (%v %v)", name, err1, err2))
		return
	}
	cli, srv, cleanup, err := h.SendLoopbackSize(65535)
	if err != nil {
		e.r.InfraError = "loopback: " + err.Error()
		return
	}
	defer cleanup()
	uri := ua.SecurityPolicyURIBasic256Sha256
	ccfg := &uasc.Config{SecurityPolicyURI: uri, SecurityMode: ua.MessageSecurityModeSign, Certificate: a.CertDER, LocalKey: a.Key,
		RemoteCertificate: b.CertDER, Thumbprint: uapolicy.Thumbprint(b.CertDER), Lifetime: 3600000, RequestTimeout: 30 * time.Second}
	scfg := &uasc.Config{SecurityPolicyURI: uri, SecurityMode: ua.MessageSecurityModeSign, Certificate: b.CertDER, LocalKey: b.Key,
		RemoteCertificate: a.CertDER, Thumbprint: uapolicy.Thumbprint(a.CertDER), Lifetime: 3600000, RequestTimeout: 30 * time.Second}
	nC, nS := make([]byte, 32), make([]byte, 32)
	for i := range nC {
		nC[i], nS[i] = byte(i+1), byte(200-i)
	}
	cerr := make(chan error, 64)
	serr := make(chan error, 64)
	csc, err := uasc.VerifOpenChannel(cli, ccfg, false, 21, 1, 100, nC, nS, cerr)
	if err != nil {
		e.r.InfraError = name + ": client channel: " + err.Error()
		return
	}
	ssc, err := uasc.VerifOpenServerChannel(srv, scfg, 21, 1, 500, nS, nC, serr)
	if err != nil {
		e.r.InfraError = name + ": server channel: " + err.Error()
		return
	}
	ctl := h.NewSendCtl()
	uasc.VerifSetHook(ctl.Hook)
	defer func() { uasc.VerifSetHook(nil); ctl.ReleaseAll() }()
	csc.VerifStartDispatcher()
	sctx, scancel := context.WithCancel(context.Background())
	defer scancel()
	go func() { // the server's receive loop (as server/channel_broker does): answers ReadRequests
		for {
			msg := ssc.Receive(sctx)
			if msg.Err != nil {
				return
			}
			if rr, ok := msg.Request().(*ua.ReadRequest); ok {
				ssc.SendResponseWithContext(sctx, msg.RequestID, &ua.ReadResponse{ResponseHeader: h.RespHeader(rr.RequestHeader.RequestHandle, ua.StatusOK)})
			}
		}
	}()
	call := func(tag int) error {
		return csc.SendRequestWithTimeout(context.Background(), req(tag), nil, 60*time.Second, func(v ua.Response) error {
			if _, ok := v.(*ua.ReadResponse); !ok {
				return fmt.Errorf("got %T", v)
			}
			return nil
		})
	}
	drain := func(d time.Duration) error {
		select {
		case err := <-cerr:
			return err
		case <-time.After(d):
			return nil
		}
	}
	// sanity: request/response and an unsolicited response outside any renewal are fine
	if err := call(1); err != nil {
		e.r.Notes = append(e.r.Notes, name+": Sign-mode round trip failed, scenario skipped: "+err.Error())
		return
	}
	unsolicited := func(id uint32) error {
		return ssc.SendResponseWithContext(context.Background(), id, &ua.ReadResponse{ResponseHeader: h.RespHeader(id, ua.StatusOK)})
	}
	if err := unsolicited(7001); err != nil {
		e.r.Notes = append(e.r.Notes, name+": cannot send an unsolicited response: "+err.Error())
		return
	}
	if err := call(2); err != nil || drain(50*time.Millisecond) != nil {
		e.r.Notes = append(e.r.Notes, fmt.Sprintf("%s: control (response outside a renewal) failed: %v", name, err))
		return
	}
	// forced schedule
	hold := ctl.BlockAt(func(ev *h.SendEv) bool { return ev.Name == "srvopn.asym" })
	rdone := make(chan error, 1)
	go func() { rdone <- csc.Renew(context.Background()) }()
	if hold.WaitReached(60*time.Second) == nil {
		e.r.Notes = append(e.r.Notes, name+": server did not reach handleOpenSecureChannelRequest (machine slow?)")
		return
	}
	serrSend := unsolicited(7002) // a publish response of another goroutine, in the window
	got := drain(10 * time.Second)
	hold.Release()
	var rerr error
	select {
	case rerr = <-rdone:
	case <-time.After(60 * time.Second):
		rerr = fmt.Errorf("renew did not return")
	}
	e.r.Count(name, true)
	e.r.Hit("scenario:server-rekey-forced")
	detail := fmt.Sprintf("response sent by another goroutine while handleOpenSecureChannelRequest re-keys the instance: send err=%v, client dispatcher error=%v, renew=%v", serrSend, got, rerr)
	e.r.Sample(name + ": " + detail)
	// model: the server-side events replayed through the re-key LTS must put exactly the rejected chunk under the asymmetric algorithm
	if e.d != nil {
		var recvG int64 = -1
		evs := ctl.Events()
		for _, ev := range evs {
			if ev.Name == "srvopn.asym" {
				recvG = ev.G
			}
		}
		var ls []string
		inOPN := false
		cur := map[int64]int{}
		n := 0
		for _, ev := range evs {
			switch ev.Name {
			case "srvopn.readAsym":
				if ev.G == recvG { // the client's readChunk passes the same point for the OPN response
					ls = append(ls, "readOPN")
				}
			case "srvopn.asym":
				ls = append(ls, "handleAsym")
				inOPN = true
			case "srvopn.sent":
				inOPN = false
			case "srvopn.sym":
				ls = append(ls, "installSym")
			case "resp.lockedInst":
				if ev.G == recvG && inOPN {
					ls = append(ls, "respLock")
				} else {
					cur[ev.G] = n
					n++
					ls = append(ls, fmt.Sprintf("sLock%d", cur[ev.G]))
				}
			case "resp.chunk":
				if ev.G == recvG && inOPN {
					ls = append(ls, "respWrite")
				} else {
					ls = append(ls, fmt.Sprintf("sSecure%d", cur[ev.G]))
				}
			case "resp.unlockInst":
				if ev.G == recvG && inOPN {
					ls = append(ls, "respUnlock")
				} else {
					ls = append(ls, fmt.Sprintf("sUnlock%d", cur[ev.G]))
				}
			}
		}
		q := "rk " + strings.Join(ls, " ")
		m := e.d.Ask(q)
		nAsym := strings.Count(m, "m:asym")
		nRej := 0
		if got != nil {
			nRej = 1
		}
		e.r.Count(q, true)
		e.r.TracesValidated++
		if m == "reject" || m == "bad-op" || nAsym != nRej || strings.Count(m, "o:asym") != 1 {
			e.r.Disagree(q, m, fmt.Sprintf("%d MSG chunk(s) rejected by the client, 1 OPN response", nRej))
		}
	}
	if got != nil && strings.Contains(got.Error(), "SecurityChecksFailed") {
		// oracle: requests / responses issued around a renewal, on either side, complete normally
		e.r.Fail(name, sigRekey, detail)
		e.r.Confirm(sigRekey, detail)
	} else {
		e.r.Notes = append(e.r.Notes, name+": not reproduced: "+detail)
	}
}

// ---------------------------------------------------------------- corpus

func (e *env) modelOnly() {
	for _, line := range e.o.CorpusLines() {
		if e.d == nil {
			break
		}
		parts := strings.SplitN(line, "|", 2)
		if len(parts) != 2 {
			continue
		}
		q, want := strings.TrimSpace(parts[0]), strings.TrimSpace(parts[1])
		var got string
		if strings.HasPrefix(q, "trace ") {
			// trace <base> <tok>;label;label…  → answer of the last query word after '?'
			f := strings.Split(strings.TrimPrefix(q, "trace "), ";")
			e.d.Ask("reset " + strings.TrimSpace(f[0]))
			got = "ok"
			for _, l := range f[1:] {
				l = strings.TrimSpace(l)
				if strings.HasPrefix(l, "?") {
					got = e.d.Ask(strings.TrimPrefix(l, "?"))
					break
				}
				if a := e.d.Ask("lts " + l); a != "ok" {
					got = a
					break
				}
			}
		} else {
			got = e.d.Ask(q)
		}
		e.r.Count(line, true)
		e.r.Hit("corpus")
		if got != want {
			e.r.Disagree(q, got, want)
		}
	}
}

// blocked records that the implementation did not get to a point it has to reach (or did something it must
// not do) within the generous time allowed: the scenario is the failing input. Only trouble that says nothing
// about the library (sockets, keys, the driver, a machine too slow for a timing verdict) is reported as infra.
func (e *env) blocked(what string) {
	e.r.Fail(what, "", "the implementation did not complete this step (it blocks, or the step got lost): "+what)
}

// hasNew: an unclassified oracle failure or a model disagreement has been recorded — the verdict of the run is
// settled, the remaining (real-time) scenarios are skipped so that the failing input is reported quickly.
func (e *env) hasNew() bool {
	// (a model disagreement alone does not stop the run: the later scenarios may still produce the concrete failing input)
	for _, f := range e.r.OracleFailures {
		if f.Sig == "" {
			return true
		}
	}
	return false
}

func main() {
	o := h.ParseOpts()
	r := h.NewResult("C16", o)
	d, err := h.StartDriver(o.Driver)
	if err != nil {
		r.InfraError = err.Error()
		r.Write(o.Out)
		return
	}
	defer d.Close()
	e := &env{o, r, d}
	r.Rule = "cases: (a) one per lifetime value: the real scheduleRenewal evaluated up to its verifPoint vs the Lean delay model (0…20000 ms contiguous, boundaries, 2000 random 32-bit values), oracle L/2 ≤ delay < L on the real value; 3000 nanosecond lifetimes that are not whole milliseconds (around and above 2^53/3 ns) against the IEEE-754 model of the float64 step; one live channel whose 1000 ms token the library must renew between 500 and 1000 ms; (b) one per scenario: 2–5 senders with real responses racing with 1–2 renewals on a real client channel, trace replayed through the Lean LTS, renewals counted, all calls must complete; up to 25 attempts of a forced pendingReq.Add / pendingReq.Wait race; (c) corpus lines of the server re-key model. Every case is non-trivial; distinct by value / label sequence."
	e.modelOnly()
	if o.Replay != "" {
		var seed uint64
		var idx int
		var l uint64
		if _, err := fmt.Sscanf(o.Replay, "around-renewal %d %d", &seed, &idx); err == nil {
			e.around(seed, idx)
		} else if _, err := fmt.Sscanf(o.Replay, "delay %d", &l); err == nil {
			when, _ := realDelay(l)
			r.Count(o.Replay, true)
			r.Compare(d, o.Replay, fmt.Sprint(int64(when)))
			if life := time.Duration(l) * time.Millisecond; !(2*when >= life && when < life) {
				r.Fail(o.Replay, "", fmt.Sprintf("lifetime %v: renewal scheduled after %v", life, when))
			}
		} else if strings.HasPrefix(o.Replay, "live-renewals") {
			e.liveExpiry()
		} else if strings.HasPrefix(o.Replay, "live-lifetime") {
			e.storm()
		} else if strings.HasPrefix(o.Replay, "renewal-with-outstanding") {
			e.renewWithOutstanding()
		} else if strings.HasPrefix(o.Replay, "server-rekey") {
			e.rekeyForced()
		} else if strings.HasPrefix(o.Replay, "waitgroup-race") {
			e.wgRace(50)
		}
		r.Write(o.Out)
		return
	}
	e.delays()
	if r.InfraError == "" && !e.hasNew() {
		e.floatStep()
	}
	t0 := time.Now()
	n := o.N(60, 2000)
	for i := 0; i < n && r.InfraError == "" && !e.hasNew(); i++ {
		e.around(o.Seed, i)
		if !o.Thorough() && time.Since(t0) > 30*time.Second {
			r.Notes = append(r.Notes, fmt.Sprintf("stopped after %d scenarios (time budget)", i+1))
			break
		}
	}
	if r.InfraError == "" && !e.hasNew() {
		e.renewWithOutstanding()
	}
	nSec := o.N(4, 100)
	for i := 0; i < nSec && r.InfraError == "" && !e.hasNew(); i++ {
		mode := ua.MessageSecurityModeSign
		if i%2 == 1 {
			mode = ua.MessageSecurityModeSignAndEncrypt
		}
		e.aroundSecure(o.Seed, i, mode)
	}
	if r.InfraError == "" && !e.hasNew() {
		e.wgRace(o.N(120, 2000))
	}
	if r.InfraError == "" && !e.hasNew() {
		e.rekeyForced()
	}
	if r.InfraError == "" && !e.hasNew() {
		e.liveExpiry()
	}
	if r.InfraError == "" && !e.hasNew() {
		e.storm() // last: its renewal goroutines may outlive the scenario for a moment
	}
	for _, b := range []string{"delay:in-window", "f64:floor", "f64:floor-plus-one", "scenario:live-1000ms", "live:renewed-in-window", "live:requests-survive-renewals-and-expiry", "scenario:around-renewal", "outcome:all-requests-completed",
		"outstanding-request:renewal-completed", "scenario:around-renewal-secure-mode-2", "scenario:around-renewal-secure-mode-3", "label:rLock", "label:rInstall", "label:write", "guard:inside", "guard:outside", "scenario:waitgroup-race"} {
		if r.Distribution[b] == 0 {
			r.Unreached = append(r.Unreached, b)
		}
	}
	// an infrastructure problem that comes with a model disagreement or an unclassified oracle failure is a
	// result of the run, not a reason to discard it
	if r.InfraError != "" {
		bad := len(r.Disagreements) > 0
		for _, f := range r.OracleFailures {
			bad = bad || f.Sig == ""
		}
		if bad {
			r.Notes = append(r.Notes, "not reported as infra: "+r.InfraError)
			r.InfraError = ""
		}
	}
	r.Write(o.Out)
}
