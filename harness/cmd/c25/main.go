// Trace-validation runner and property oracle for C25 (connection state
// follows the documented lifecycle under faults).
//
// One case = a seeded fault scenario.  A child process (re-exec of this
// binary) runs the real /repo/server in-process, a fault-injecting TCP proxy in
// front of it and the real client (auto-reconnect on, reconnect interval
// 30 ms) through the proxy.  It records a trace of events:
//
//	u.connect / u.connect.ok|err / u.close / u.close.end     (harness, around the calls)
//	st <State>                                               (opcua.StateChangedFunc)
//	dial                                                     (net.Dialer.Control: one per TCP connect attempt)
//	m.error <class> / m.action <name> / m.done               (verifPoints in Client.monitor, when compiled in)
//	f.<fault>                                                (harness: fault injected; not part of the LTS)
//
// The parent replays every trace through the Lean LTS (`lts` protocol of
// drv_C25) — the trace must be a path of the model — and evaluates the
// property's own oracle on the trace alone.
package main

import (
	"bufio"
	"context"
	"errors"
	"fmt"
	"io"
	"log"
	"net"
	"os"
	"runtime"
	"strings"
	"sync"
	"sync/atomic"
	"syscall"
	"time"

	"github.com/gopcua/opcua"
	"github.com/gopcua/opcua/server"
	"github.com/gopcua/opcua/ua"
	"github.com/gopcua/opcua/uacp"

	"verifharness/internal/h"
	"verifharness/internal/sscript"
)

// ------------------------------------------------------------------ proxy

type proxy struct {
	mu      sync.Mutex
	l       net.Listener
	addr    string       // listen address (fixed port after the first Listen)
	target  atomic.Value // string
	conns   map[net.Conn]bool
	stalled atomic.Bool
	accepts atomic.Int32
	refuse  atomic.Bool // accept and close at once (an RST-like refusal that is still counted)
	opnFail atomic.Bool // let HEL/ACK through and cut the connection when the client sends OpenSecureChannel
	opnHole atomic.Bool // let HEL/ACK through and swallow the client's OpenSecureChannel: the connection stays open, no answer
}

func newProxy(target string) (*proxy, error) {
	p := &proxy{conns: map[net.Conn]bool{}}
	p.target.Store(target)
	l, err := net.Listen("tcp", "127.0.0.1:0")
	if err != nil {
		return nil, err
	}
	p.l, p.addr = l, l.Addr().String()
	go p.acceptLoop(l)
	return p, nil
}

func (p *proxy) acceptLoop(l net.Listener) {
	for {
		c, err := l.Accept()
		if err != nil {
			return
		}
		p.accepts.Add(1)
		if p.refuse.Load() {
			c.Close()
			continue
		}
		go p.serve(c)
	}
}

func (p *proxy) serve(c net.Conn) {
	s, err := net.DialTimeout("tcp", p.target.Load().(string), 2*time.Second)
	if err != nil {
		c.Close()
		return
	}
	p.mu.Lock()
	p.conns[c], p.conns[s] = true, true
	p.mu.Unlock()
	pipe := func(dst, src net.Conn) {
		buf := make([]byte, 32<<10)
		for {
			n, err := src.Read(buf)
			for p.stalled.Load() {
				time.Sleep(2 * time.Millisecond)
			}
			if n >= 3 && src == c && string(buf[:3]) == "OPN" && p.opnFail.Load() {
				break // the client's OpenSecureChannel request is dropped with the connection
			}
			if n >= 3 && src == c && string(buf[:3]) == "OPN" && p.opnHole.Load() {
				if err != nil {
					break
				}
				continue // swallowed: the client waits for an answer that never comes
			}
			if n > 0 {
				if _, werr := dst.Write(buf[:n]); werr != nil {
					break
				}
			}
			if err != nil {
				break
			}
		}
		dst.Close()
		src.Close()
		p.mu.Lock()
		delete(p.conns, dst)
		delete(p.conns, src)
		p.mu.Unlock()
	}
	go pipe(s, c)
	go pipe(c, s)
}

// cut closes every proxied connection.
func (p *proxy) cut() {
	p.mu.Lock()
	for c := range p.conns {
		c.Close()
	}
	p.mu.Unlock()
}

// down closes the listener (connection refused) and the connections.
func (p *proxy) down() {
	p.mu.Lock()
	if p.l != nil {
		p.l.Close()
		p.l = nil
	}
	p.mu.Unlock()
	p.cut()
}

// up listens again on the same port.
func (p *proxy) up() error {
	p.mu.Lock()
	defer p.mu.Unlock()
	if p.l != nil {
		return nil
	}
	var err error
	for i := 0; i < 50; i++ {
		var l net.Listener
		l, err = net.Listen("tcp", p.addr)
		if err == nil {
			p.l = l
			go p.acceptLoop(l)
			return nil
		}
		time.Sleep(10 * time.Millisecond)
	}
	return err
}

// ------------------------------------------------------------------ child

type trace struct {
	mu sync.Mutex
	ev []string
	t0 time.Time
}

func (t *trace) add(s string) {
	t.mu.Lock()
	t.ev = append(t.ev, s)
	t.mu.Unlock()
}
func (t *trace) snapshot() []string {
	t.mu.Lock()
	defer t.mu.Unlock()
	return append([]string(nil), t.ev...)
}

var actionNames = []string{"none", "createSecureChannel", "restoreSession", "recreateSession", "restoreSubscriptions", "transferSubscriptions", "abortReconnect"}

func errClass(err error) string {
	switch {
	case err == nil:
		return "nil"
	case errors.Is(err, io.EOF):
		return "eof"
	case errors.Is(err, syscall.ECONNREFUSED):
		return "refused"
	case errors.Is(err, ua.StatusBadSecureChannelIDInvalid):
		return "badChannel"
	case errors.Is(err, ua.StatusBadSessionIDInvalid):
		return "badSession"
	case errors.Is(err, ua.StatusBadSubscriptionIDInvalid):
		return "badSubscription"
	default:
		return "other"
	}
}

var (
	srvOnce    sync.Once
	srvTargets []string
	srvErr     error
)

// servers starts (once per process) two independent in-process servers.
func servers() ([]string, error) {
	srvOnce.Do(func() {
		var wg sync.WaitGroup
		res := make([]string, 2)
		errs := make([]error, 2)
		for i := 0; i < 2; i++ {
			wg.Add(1)
			go func(i int) {
				defer wg.Done()
				_, res[i], errs[i] = startServer()
			}(i)
		}
		wg.Wait()
		srvTargets = res
		for _, e := range errs {
			if e != nil {
				srvErr = e
			}
		}
	})
	return srvTargets, srvErr
}

// startServer starts a fresh in-process server on a fresh port.
func startServer() (*server.Server, string, error) {
	var err error
	for i := 0; i < 20; i++ {
		port := freePort()
		s := server.New(
			server.EndPoint("127.0.0.1", port),
			server.EnableSecurity("None", ua.MessageSecurityModeNone),
			server.EnableAuthMode(ua.UserTokenTypeAnonymous),
		)
		if err = s.Start(context.Background()); err == nil {
			return s, fmt.Sprintf("127.0.0.1:%d", port), nil
		}
		time.Sleep(10 * time.Millisecond)
	}
	return nil, "", err
}

func freePort() int {
	l, err := net.Listen("tcp", "127.0.0.1:0")
	if err != nil {
		return 0
	}
	defer l.Close()
	return l.Addr().(*net.TCPAddr).Port
}

// clientGoroutines counts goroutines that belong to the client.
func clientGoroutines() (int, string) {
	buf := make([]byte, 1<<20)
	n := runtime.Stack(buf, true)
	cnt := 0
	var which []string
	for _, g := range strings.Split(string(buf[:n]), "\n\n") {
		for _, mark := range []string{"opcua.(*Client).monitor(", "opcua.(*Client).monitorSubscriptions(", "uasc.(*SecureChannel).dispatcher(", "uasc.(*SecureChannel).scheduleRenewal("} {
			if strings.Contains(g, mark) {
				cnt++
				which = append(which, strings.TrimSuffix(mark, "("))
				break
			}
		}
	}
	return cnt, strings.Join(which, ",")
}

// scenario: space separated steps
//
//	auto=<0|1>        first token: AutoReconnect
//	w<ms>             wait
//	cut               cut all connections
//	down<ms>          proxy refuses connections for <ms>, then comes back
//	rst<ms>           proxy accepts and closes at once for <ms>
//	stall<ms>         proxy stops forwarding for <ms>
//	restart           server restarted (sessions lost), connections cut
//	sdown<ms>         server stopped for <ms> (proxy up: its dial to the server fails), then restarted
//	read              a Read through the client (result recorded, not part of the LTS)
//	close             client.Close (terminal unless followed by w)
//	closeAt:<action>  Close is called while the monitor is held at the top of that action (forced interleaving)
func runScenario(sc string) (events []string, extra string) {
	tr := &trace{t0: time.Now()}
	steps := strings.Fields(sc)
	auto := true
	if len(steps) > 0 && strings.HasPrefix(steps[0], "auto=") {
		auto = steps[0] == "auto=1"
		steps = steps[1:]
	}
	// ch: the states are also delivered through StateChangedCh and recorded as "f.ch <State>"
	// c:opnfail / c:down: the first Connect is made while that fault is active (it fails), then the
	// fault is lifted and Connect is called again on the same client
	useCh, connectFault, cancelConnectCtx := false, "", false
	for len(steps) > 0 && (steps[0] == "ch" || steps[0] == "cctx" || strings.HasPrefix(steps[0], "c:") || strings.HasPrefix(steps[0], "#")) {
		if steps[0] == "ch" {
			useCh = true
		} else if steps[0] == "cctx" {
			// Connect gets its own context which is cancelled as soon as Connect has returned (the usual
			// `ctx, cancel := context.WithTimeout(...); defer cancel()`): connection and monitor must survive that
			cancelConnectCtx = true
		} else if strings.HasPrefix(steps[0], "c:") {
			connectFault = steps[0][2:]
		}
		steps = steps[1:]
	}
	// two long-lived server instances per process: "restart" switches the proxy to the other
	// one (which knows none of the sessions and subscriptions of the first: session loss)
	targets, err := servers()
	if err != nil {
		return nil, "infra: server: " + err.Error()
	}
	cur := 0
	target := targets[cur]
	px, err := newProxy(target)
	if err != nil {
		return nil, "infra: proxy: " + err.Error()
	}
	defer px.down()

	var cutAtDone atomic.Bool
	var closeAt atomic.Value // string: action name at which to call Close
	closeAt.Store("")
	holdCh := make(chan struct{})
	var held atomic.Bool
	hooksSeen := false
	opcua.VerifSetHook(func(name string, args ...interface{}) {
		switch name {
		case "monitor.error":
			hooksSeen = true
			e, _ := args[0].(error)
			tr.add("m.error " + errClass(e))
		case "monitor.action":
			hooksSeen = true
			a := int(args[0].(uint8))
			tr.add("m.action " + actionNames[a])
			if want := closeAt.Load().(string); want != "" && want == actionNames[a] && held.CompareAndSwap(false, true) {
				<-holdCh // the harness calls Close now and releases us afterwards
			}
		case "monitor.done":
			tr.add("m.done")
			if cutAtDone.CompareAndSwap(true, false) {
				// the connection is lost between the report of Connected and the monitor's drain of c.sechanErr
				tr.add("f.cutAtDone")
				px.cut()
				time.Sleep(60 * time.Millisecond) // let the dispatcher of the new channel report its EOF
			}
		}
	})
	defer opcua.VerifSetHook(nil)

	dialer := &uacp.Dialer{
		Dialer: &net.Dialer{Timeout: 2 * time.Second, Control: func(network, address string, c syscall.RawConn) error {
			tr.add("dial")
			return nil
		}},
		ClientACK: uacp.DefaultClientACK,
	}
	opts := []opcua.Option{
		opcua.SecurityMode(ua.MessageSecurityModeNone),
		opcua.AutoReconnect(auto),
		opcua.ReconnectInterval(30 * time.Millisecond),
		opcua.RequestTimeout(2 * time.Second),
		opcua.Dialer(dialer),
		opcua.StateChangedFunc(func(s opcua.ConnState) { tr.add("st " + s.String()) }),
	}
	if useCh {
		stateCh := make(chan opcua.ConnState)
		go func() {
			for s := range stateCh {
				tr.add("f.ch " + s.String())
			}
		}()
		opts = append(opts, opcua.StateChangedCh(stateCh))
	}
	c, err := opcua.NewClient("opc.tcp://"+px.addr, opts...)
	if err != nil {
		return nil, "infra: newclient: " + err.Error()
	}
	ctx := context.Background()
	if connectFault != "" {
		switch connectFault {
		case "opnfail":
			px.opnFail.Store(true)
		case "down":
			px.down()
		case "rst":
			px.refuse.Store(true)
		}
		tr.add("f." + connectFault)
		tr.add("u.connect")
		if err := c.Connect(ctx); err == nil {
			return tr.snapshot(), "infra: Connect succeeded under fault " + connectFault
		}
		tr.add("u.connect.err")
		px.opnFail.Store(false)
		px.refuse.Store(false)
		if err := px.up(); err != nil {
			return tr.snapshot(), "infra: proxy up: " + err.Error()
		}
		tr.add("f.up")
		time.Sleep(30 * time.Millisecond)
	}
	tr.add("u.connect")
	cctx, ccancel := context.WithCancel(ctx)
	if err := c.Connect(cctx); err != nil {
		ccancel()
		tr.add("u.connect.err")
		return tr.snapshot(), "connect failed: " + err.Error()
	}
	tr.add("u.connect.ok")
	if cancelConnectCtx {
		ccancel()
		tr.add("f.connectctx.cancelled")
	}
	defer ccancel()

	closed := false
	doClose := func() {
		tr.add("u.close")
		c.Close(ctx)
		tr.add("u.close.end")
		closed = true
	}
	waitConnected := func(d time.Duration) bool {
		deadline := time.Now().Add(d)
		for time.Now().Before(deadline) {
			if c.State() == opcua.Connected {
				return true
			}
			time.Sleep(5 * time.Millisecond)
		}
		return false
	}
	ms := func(s string) time.Duration {
		var n int
		fmt.Sscan(s, &n)
		return time.Duration(n) * time.Millisecond
	}
	for _, st := range steps {
		if closed {
			if strings.HasPrefix(st, "w") && st != "waitclosed" {
				time.Sleep(ms(st[1:]))
			}
			continue
		}
		switch {
		case strings.HasPrefix(st, "w") && st != "waitclosed":
			time.Sleep(ms(st[1:]))
		case st == "cut":
			tr.add("f.cut")
			px.cut()
		case st == "down":
			tr.add("f.down")
			px.down()
		case st == "up":
			if err := px.up(); err != nil {
				return tr.snapshot(), "infra: proxy up: " + err.Error()
			}
			tr.add("f.up")
		case strings.HasPrefix(st, "down"):
			tr.add("f.down")
			px.down()
			time.Sleep(ms(st[4:]))
			if err := px.up(); err != nil {
				return tr.snapshot(), "infra: proxy up: " + err.Error()
			}
			tr.add("f.up")
		case strings.HasPrefix(st, "rst"):
			tr.add("f.rst")
			px.refuse.Store(true)
			px.cut()
			time.Sleep(ms(st[3:]))
			px.refuse.Store(false)
			tr.add("f.up")
		case strings.HasPrefix(st, "opnfail"):
			// connections get through HEL/ACK and are cut at the OpenSecureChannel request
			tr.add("f.opnfail")
			px.opnFail.Store(true)
			px.cut()
			time.Sleep(ms(st[7:]))
			px.opnFail.Store(false)
			tr.add("f.up")
		case strings.HasPrefix(st, "blackhole"):
			// the server side accepts TCP and answers HEL/ACK but never answers OpenSecureChannel
			tr.add("f.blackhole")
			px.opnHole.Store(true)
			px.cut()
			time.Sleep(ms(st[9:]))
			px.opnHole.Store(false)
			px.cut() // the half-open attempts of the outage end with it
			tr.add("f.up")
		case st == "waitclosed":
			deadline := time.Now().Add(5 * time.Second)
			for c.State() != opcua.Closed && time.Now().Before(deadline) {
				time.Sleep(2 * time.Millisecond)
			}
			time.Sleep(40 * time.Millisecond)
		case strings.HasPrefix(st, "stall"):
			tr.add("f.stall")
			px.stalled.Store(true)
			time.Sleep(ms(st[5:]))
			px.stalled.Store(false)
			tr.add("f.up")
		case st == "restart", strings.HasPrefix(st, "sdown"):
			// another server instance (which knows none of the sessions and subscriptions) takes over
			tr.add("f.restart")
			px.target.Store("127.0.0.1:1") // nothing listens there: the proxy closes what it accepts
			px.cut()
			if strings.HasPrefix(st, "sdown") {
				time.Sleep(ms(st[5:]))
			}
			cur = 1 - cur
			px.target.Store(targets[cur])
			tr.add("f.up")
		case st == "read":
			_, err := c.Node(ua.NewNumericNodeID(0, 2258)).Value(ctx)
			tr.add("f.read." + map[bool]string{true: "ok", false: "err"}[err == nil])
		case st == "close":
			doClose()
		case st == "cutAt:done":
			cutAtDone.Store(true)
		case strings.HasPrefix(st, "closeAt:"):
			// arm the trap: when the monitor reaches the top of that action it is held,
			// Close is called and returns, then the monitor is released
			closeAt.Store(st[len("closeAt:"):])
		case st == "trap":
			deadline := time.Now().Add(5 * time.Second)
			for !held.Load() && time.Now().Before(deadline) {
				time.Sleep(2 * time.Millisecond)
			}
			if !held.Load() {
				closeAt.Store("")
				tr.add("f.trap.notreached")
				continue
			}
			tr.add("f.trap")
			doClose()
			close(holdCh)
		}
	}
	if px.up() != nil {
		return tr.snapshot(), "infra: proxy up"
	}
	if held.Load() && !closed { // a trap that sprang without a `trap` step
		tr.add("f.trap")
		doClose()
		close(holdCh)
	}
	res := ""
	if !closed {
		// heal: everything is up; the client must come back (auto-reconnect) and work
		closeAt.Store("")
		if auto {
			ok := waitConnected(15 * time.Second)
			tr.add("f.healed." + map[bool]string{true: "connected", false: "notconnected:" + c.State().String()}[ok])
			if ok {
				time.Sleep(30 * time.Millisecond) // let the monitor finish its round (m.done)
				_, err := c.Node(ua.NewNumericNodeID(0, 2258)).Value(ctx)
				if err != nil {
					// one retry: the request may have raced with a late fault effect
					if waitConnected(5 * time.Second) {
						_, err = c.Node(ua.NewNumericNodeID(0, 2258)).Value(ctx)
					}
				}
				tr.add("f.finalread." + map[bool]string{true: "ok", false: "err"}[err == nil])
				if err != nil {
					res = "final read: " + err.Error()
				} else {
					// the recovered connection must stay up: no further state report without a new fault
					n0 := len(tr.snapshot())
					time.Sleep(300 * time.Millisecond)
					for _, e := range tr.snapshot()[n0:] {
						if strings.HasPrefix(e, "st ") {
							tr.add("f.unstable " + strings.TrimPrefix(e, "st "))
							break
						}
					}
				}
			}
		} else {
			time.Sleep(150 * time.Millisecond)
		}
		doClose()
	}
	// after Close: no further events are expected; give stragglers time to show up
	time.Sleep(250 * time.Millisecond)
	tr.add("f.settled")
	time.Sleep(100 * time.Millisecond)
	n, which := clientGoroutines()
	tr.add(fmt.Sprintf("f.goroutines %d %s", n, which))
	_ = hooksSeen
	return tr.snapshot(), res
}

func child() {
	log.SetOutput(io.Discard)
	in := bufio.NewScanner(os.Stdin)
	out := bufio.NewWriter(os.Stdout)
	for in.Scan() {
		f := strings.SplitN(in.Text(), " ", 3)
		if len(f) != 3 {
			continue
		}
		ev, extra := runScenario(f[2])
		if strings.HasPrefix(extra, "infra:") {
			fmt.Fprintf(out, "%s infra-scenario | %s\n", f[0], extra)
		} else {
			fmt.Fprintf(out, "%s %s | %s\n", f[0], strings.Join(ev, ";"), strings.ReplaceAll(extra, "\n", " "))
		}
		out.Flush()
	}
}

// ------------------------------------------------------------------ parent

var docTable = map[string][]string{ // connstate.go, stuttering allowed
	"Closed":       {"Connecting", "Closed"},
	"Connecting":   {"Connecting", "Connected", "Closed"},
	"Connected":    {"Disconnected", "Closed"},
	"Disconnected": {"Reconnecting", "Connected", "Closed"},
	"Reconnecting": {"Reconnecting", "Connected", "Closed"},
}

func documented(from, to string) bool {
	for _, x := range docTable[from] {
		if x == to {
			return true
		}
	}
	return false
}

func scenarios(o *h.Opts, rnd *h.Rand) []string {
	fixed := []string{
		"auto=1 w30",
		"auto=1 w30 cut w50",
		"auto=1 w20 cut w5 cut w40",
		"auto=1 w30 down150 w30",
		"auto=1 w30 rst120 w30",
		"auto=1 w30 stall150 w30",
		"auto=1 w30 restart w30",
		"auto=1 w30 sdown120 w20 cut w30",
		"auto=1 w30 down w80 close w150",
		"auto=1 w30 cut close w100",
		"auto=1 w30 restart close w100",
		"auto=0 w30 cut w100",
		"auto=0 w30 down100 w50",
		"auto=0 w30 close w50",
		"auto=1 w30 opnfail150 w30",
		"auto=1 w30 restart opnfail120 w30",
		"auto=1 c:opnfail w200",
		"auto=1 c:down w100 cut w50",
		"auto=1 c:rst w100",
		"auto=0 ch #1 w30 cut waitclosed",
		"auto=0 ch #2 w30 cut waitclosed",
		"auto=0 ch #3 w20 cut waitclosed",
		"auto=0 ch #4 w20 down60 waitclosed",
		"auto=0 ch #5 w30 rst50 waitclosed",
		"auto=0 ch #6 w10 cut waitclosed",
		"auto=1 ch w30 cut w60",
		"auto=1 w30 cutAt:done cut w150",
		"auto=1 w30 blackhole2300 w30",
		"auto=1 cctx w60",
		"auto=1 cctx w30 cut w50",
		"auto=0 cctx w60",
		"auto=1 w30 closeAt:createSecureChannel cut trap w100",
		"auto=1 w30 closeAt:restoreSession cut trap w100",
		"auto=1 w30 closeAt:restoreSubscriptions cut trap w100",
		"auto=1 w30 closeAt:recreateSession restart trap w100",
		"auto=1 w30 closeAt:transferSubscriptions restart trap w100",
	}
	faults := []string{"cut", "down%d", "rst%d", "stall%d", "restart", "sdown%d", "cut", "down%d", "opnfail%d"}
	for i := 0; i < o.N(6, 150); i++ {
		sc := "auto=1 w" + fmt.Sprint(10+rnd.Intn(40))
		n := 1 + rnd.Intn(4)
		for j := 0; j < n; j++ {
			f := faults[rnd.Intn(len(faults))]
			if strings.Contains(f, "%d") {
				f = fmt.Sprintf(f, 20+rnd.Intn(160))
			}
			sc += " " + f + " w" + fmt.Sprint(rnd.Intn(120))
		}
		switch rnd.Intn(6) {
		case 0:
			sc += " close w100"
		case 1:
			acts := []string{"createSecureChannel", "restoreSession", "recreateSession", "restoreSubscriptions", "transferSubscriptions"}
			sc = strings.Replace(sc, " ", " closeAt:"+acts[rnd.Intn(len(acts))]+" ", 2)
			sc = strings.Replace(sc, "closeAt:", "XcloseAt:", 1) // keep only the second insertion (after the first wait)
			parts := strings.Fields(sc)
			var out []string
			for _, p := range parts {
				if !strings.HasPrefix(p, "XcloseAt:") {
					out = append(out, p)
				}
			}
			sc = strings.Join(out, " ")
		}
		fixed = append(fixed, sc)
	}
	return fixed
}

// faultInsideLastRound: a fault was injected after the last dial of the last reconnect round and
// before its m.done, and no Disconnected was reported afterwards: the error of the new connection
// arrived before the monitor's drain at the end of the round
func faultInsideLastRound(marks []string) bool {
	lastDone := -1
	for i, e := range marks {
		if e == "m.done" {
			lastDone = i
		}
	}
	if lastDone < 0 {
		return false
	}
	for _, e := range marks[lastDone:] {
		if e == "st Disconnected" {
			return false
		}
	}
	lastDial := -1
	for i := lastDone; i >= 0; i-- {
		if marks[i] == "dial" {
			lastDial = i
			break
		}
	}
	hi := lastDone + 3
	if hi > len(marks) {
		hi = len(marks)
	}
	for _, e := range marks[lastDial+1 : hi] {
		switch e {
		case "f.cut", "f.restart", "f.opnfail", "f.rst", "f.down", "f.cutAtDone":
			return true
		}
	}
	return false
}

func token(ev string) string { return strings.Replace(ev, " ", ":", 1) }

func main() {
	if os.Getenv("VERIF_C25_CHILD") != "" {
		child()
		return
	}
	o := h.ParseOpts()
	if sc := os.Getenv("VERIF_C25_EXPLORE"); sc != "" {
		ev, extra := runScenario(sc)
		fmt.Println(strings.Join(ev, "\n"))
		fmt.Println("extra:", extra)
		return
	}
	r := h.NewResult("C25", o)
	d, err := h.StartDriver(o.Driver)
	if err != nil {
		r.InfraError = err.Error()
		r.Write(o.Out)
		return
	}
	defer d.Close()
	rnd := h.NewRand(o.Seed)
	r.Rule = "case = fault scenario (auto-reconnect flag; sequence of waits, connection cuts, refused / reset connections, stalls, server restarts with session loss, server outages; optional Close at a wall-clock point or forced at the head of a monitor action); the real client behind a fault-injecting TCP proxy against the real in-process server; the recorded trace (user calls, state callbacks, TCP connect attempts, monitor verifPoints) is replayed through the Lean LTS ConnLts (subset construction over hidden environment answers); 19 fixed scenarios covering every fault kind, Close during every reconnect action, auto-reconnect off, plus seeded random scenarios; distinct by scenario text"
	// the Go copy of the documented automaton must be the Lean one
	for from := range docTable {
		for _, to := range []string{"Closed", "Connected", "Connecting", "Disconnected", "Reconnecting"} {
			want := "0"
			if documented(from, to) {
				want = "1"
			}
			r.Compare(d, "doc "+from+" "+to, want)
		}
	}

	var cases []string
	if o.Replay != "" {
		cases = []string{o.Replay}
	} else {
		seen := map[string]bool{}
		for _, l := range append(o.CorpusLines(), scenarios(o, rnd)...) {
			if !seen[l] {
				seen[l] = true
				cases = append(cases, l)
			}
		}
	}
	outs := make([]sscript.Answer, len(cases))
	const workers = 8
	var wg sync.WaitGroup
	for w := 0; w < workers; w++ {
		var idx []int
		for i := w; i < len(cases); i += workers {
			idx = append(idx, i)
		}
		if len(idx) == 0 {
			continue
		}
		wg.Add(1)
		go func(idx []int) {
			defer wg.Done()
			sscript.RunBatch([]string{"VERIF_C25_CHILD=1"}, cases, idx, outs, o.Seed, 40*time.Second)
		}(idx)
	}
	wg.Wait()

	for i, sc := range cases {
		out := outs[i]
		if out.Infra != "" || out.Line == "infra-scenario" {
			r.InfraError = "scenario " + sc + ": " + out.Infra + " " + out.Extra
			r.Write(o.Out)
			return
		}
		if out.Died != "" {
			r.Count(sc, true)
			r.Fail(sc, "", "the client process died: "+out.Died)
			continue
		}
		r.Count(sc, true)
		events := strings.Split(out.Line, ";")
		hooks, auto := "1", "1"
		if strings.HasPrefix(sc, "auto=0") {
			auto = "0"
		}
		var lts []string   // events of the LTS alphabet
		var marks []string // everything, for the oracle
		sawDisc, sawErr := false, false
		for _, e := range events {
			sawDisc = sawDisc || e == "st Disconnected"
			sawErr = sawErr || strings.HasPrefix(e, "m.error")
			marks = append(marks, e)
			if !strings.HasPrefix(e, "f.") {
				lts = append(lts, token(e))
			}
		}
		if sawDisc && !sawErr { // the monitor reported Disconnected but no verifPoint fired: built without the points
			hooks = "0"
			r.Hit("no-verifpoints")
		}
		for _, e := range events {
			switch {
			case strings.HasPrefix(e, "f.") && !strings.HasPrefix(e, "f.goroutines") && !strings.HasPrefix(e, "f.healed") && !strings.HasPrefix(e, "f.final"):
				r.Hit("fault:" + strings.TrimPrefix(e, "f."))
			case strings.HasPrefix(e, "m.action"):
				r.Hit("action:" + strings.TrimPrefix(e, "m.action "))
			case strings.HasPrefix(e, "m.error"):
				r.Hit("error:" + strings.TrimPrefix(e, "m.error "))
			case strings.HasPrefix(e, "st "):
				r.Hit("state:" + strings.TrimPrefix(e, "st "))
			}
		}
		r.Sample(sc + " -> " + strings.Join(lts, " "))

		// ---- trace validation: the trace must be a path of the Lean LTS
		ans := "?"
		if d != nil {
			ans = d.Ask("trace " + auto + " " + hooks + " " + strings.Join(lts, " "))
			if !strings.HasPrefix(ans, "ok") {
				r.Disagree("trace "+auto+" "+hooks+" "+strings.Join(lts, " "), ans, "the implementation produced this trace (scenario: "+sc+")")
			} else {
				r.TracesValidated++
			}
		}

		// ---- the property's own oracle, on the trace alone
		last, closeEnded, userClosed := "Closed", false, false
		lastSt := ""
		faultSinceConnected := false
		lostInDrain := false // the connection was cut while the monitor was between `Connected` and its drain
		var chStates []string
		chClosedBeforeClose, sawMonitorDisc := false, false
		lastFaultIdx, lastDialIdx := -1, -1
		sawConnectOk, sawAbort := false, false
		for ei, e := range marks {
			if e == "u.connect.ok" {
				sawConnectOk = true
			}
			if e == "m.action abortReconnect" {
				sawAbort = true // the documented non-recoverable case (connection refused as channel error)
			}
			switch e {
			case "f.cut", "f.down", "f.rst", "f.stall", "f.restart", "f.opnfail", "f.cutAtDone", "f.blackhole":
				lastFaultIdx = ei
			case "dial":
				lastDialIdx = ei
			}
			switch {
			case strings.HasPrefix(e, "f.ch "):
				x := strings.TrimPrefix(e, "f.ch ")
				chStates = append(chStates, x)
				if x == "Closed" && !userClosed {
					chClosedBeforeClose = true
				}
			case e == "f.cutAtDone":
				lostInDrain = true
			case e == "f.cut" || e == "f.down" || e == "f.rst" || e == "f.stall" || e == "f.restart" || e == "f.opnfail" || e == "f.blackhole":
				faultSinceConnected = true
			case e == "u.close":
				userClosed = true
			case e == "u.close.end":
				closeEnded = true
			case e == "dial" && closeEnded:
				r.Fail(sc, "", "TCP connect attempt after Close returned")
			case strings.HasPrefix(e, "st "):
				x := strings.TrimPrefix(e, "st ")
				lastSt = x
				if x == "Connected" {
					// a fault injected after the last dial may have hit the connection that is being reported now
					faultSinceConnected = lastFaultIdx > lastDialIdx
				}
				if x == "Closed" && auto == "1" && !userClosed && sawConnectOk && !sawAbort {
					r.Fail(sc, "", "auto-reconnect on and Close not called, but the client reported Closed by itself")
				}
				if x == "Disconnected" {
					sawMonitorDisc = true
					if !faultSinceConnected && !userClosed {
						// the client reports a lost connection although nothing happened to it since it was (re)connected
						sig := ""
						if strings.Contains(sc, " c:") {
							sig = "C25.stale-error-after-failed-connect"
						}
						r.Fail(sc, sig, "Disconnected reported without any fault since the last Connected")
						if sig != "" {
							r.Confirm(sig, sc+" -> "+strings.Join(lts, " "))
						}
					}
				}
				if !documented(last, x) {
					sig := ""
					// narrow signature: a report out of Closed by the monitor goroutine after the user's Close reported Closed
					if userClosed && last == "Closed" && (x == "Reconnecting" || x == "Connected" || x == "Disconnected") {
						sig = "C25.state-after-close"
					}
					r.Fail(sc, sig, "undocumented transition "+last+" -> "+x)
					if sig != "" {
						r.Confirm(sig, sc+" -> … "+last+" -> "+x)
					}
				} else if closeEnded && x != "Closed" {
					sig := ""
					if x == "Reconnecting" || x == "Connected" || x == "Disconnected" {
						sig = "C25.state-after-close"
					}
					r.Fail(sc, sig, "state "+x+" reported after Close returned")
				}
				last = x
			case strings.HasPrefix(e, "f.unstable"):
				r.Fail(sc, "", "the recovered connection did not stay up: the client reported "+strings.TrimPrefix(e, "f.unstable ")+" within 300 ms of a successful Read without any new fault")
			case strings.HasPrefix(e, "f.healed.notconnected"):
				r.Fail(sc, "", "auto-reconnect on, server reachable again, but the client did not return to Connected within 15 s: "+e)
			case e == "f.finalread.err":
				sig := ""
				if lostInDrain || faultInsideLastRound(marks) {
					sig = "C25.error-lost-in-reconnect-drain"
				}
				r.Fail(sc, sig, "client reports Connected after the faults but a Read fails: "+out.Extra)
				if sig != "" {
					r.Confirm(sig, sc+" -> "+strings.Join(lts, " "))
				}
			case strings.HasPrefix(e, "f.goroutines "):
				if f := strings.Fields(e); len(f) >= 2 && f[1] != "0" {
					r.Fail(sc, "", "client goroutines still running 350 ms after Close: "+e)
				}
			}
		}
		if userClosed && lastSt != "Closed" {
			r.Fail(sc, "", "last reported state after Close is "+lastSt)
		}
		if strings.Contains(sc, " ch ") {
			r.Hit("state-channel")
			if len(chStates) == 0 || chStates[len(chStates)-1] != "Closed" {
				r.Fail(sc, "", "StateChangedCh: the last state delivered on the channel is not Closed: "+strings.Join(chStates, ","))
			}
			if auto == "0" && sawMonitorDisc && !chClosedBeforeClose {
				r.Fail(sc, "", "StateChangedCh: auto-reconnect off, connection lost, but Closed was not delivered on the channel before the user called Close: "+strings.Join(chStates, ","))
			}
		}
	}
	for _, b := range []string{"action:createSecureChannel", "action:restoreSession", "action:recreateSession", "action:transferSubscriptions",
		"action:restoreSubscriptions", "fault:cut", "fault:down", "fault:rst", "fault:stall", "fault:restart", "fault:trap",
		"state:Reconnecting", "state:Disconnected"} {
		if r.Distribution[b] == 0 && o.Replay == "" && r.Distribution["no-verifpoints"] == 0 {
			r.Unreached = append(r.Unreached, b)
		}
	}
	r.Write(o.Out)
}
