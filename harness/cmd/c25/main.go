// Trace-validation runner and property oracle for C25 (connection state
// follows the documented lifecycle under faults).
//
// One case = a seeded fault scenario.  A child process (re-exec of this
// binary) runs the real /repo/server in-process, a fault-injecting TCP proxy in
// front of it and the real client (auto-reconnect on, reconnect interval
// 30 ms) through the proxy.  It records a trace of events:
//
//	u.connect / u.connect.ok|err / u.close / u.close.end     (harness, around the calls)
//	st <State>                                               (opcua.StateChangedFunc)
//	dial                                                     (net.Dialer.Control: one per TCP connect attempt)
//	m.error <class> / m.action <name> / m.done               (verifPoints in Client.monitor, when compiled in)
//	f.<fault>                                                (harness: fault injected; not part of the LTS)
//
// The parent replays every trace through the Lean LTS (`lts` protocol of
// drv_C25) — the trace must be a path of the model — and evaluates the
// property's own oracle on the trace alone.
package main

import (
	"bufio"
	"context"
	"errors"
	"fmt"
	"io"
	"log"
	"net"
	"os"
	"runtime"
	"strings"
	"sync"
	"sync/atomic"
	"syscall"
	"time"

	"github.com/gopcua/opcua"
	"github.com/gopcua/opcua/server"
	"github.com/gopcua/opcua/ua"
	"github.com/gopcua/opcua/uacp"

	"verifharness/internal/h"
	"verifharness/internal/sscript"
)

// ------------------------------------------------------------------ proxy

type proxy struct {
	mu      sync.Mutex
	l       net.Listener
	addr    string // listen address (fixed port after the first Listen)
	target  string
	conns   map[net.Conn]bool
	stalled atomic.Bool
	accepts atomic.Int32
	refuse  atomic.Bool // accept and close at once (an RST-like refusal that is still counted)
}

func newProxy(target string) (*proxy, error) {
	p := &proxy{target: target, conns: map[net.Conn]bool{}}
	l, err := net.Listen("tcp", "127.0.0.1:0")
	if err != nil {
		return nil, err
	}
	p.l, p.addr = l, l.Addr().String()
	go p.acceptLoop(l)
	return p, nil
}

func (p *proxy) acceptLoop(l net.Listener) {
	for {
		c, err := l.Accept()
		if err != nil {
			return
		}
		p.accepts.Add(1)
		if p.refuse.Load() {
			c.Close()
			continue
		}
		go p.serve(c)
	}
}

func (p *proxy) serve(c net.Conn) {
	s, err := net.DialTimeout("tcp", p.target, 2*time.Second)
	if err != nil {
		c.Close()
		return
	}
	p.mu.Lock()
	p.conns[c], p.conns[s] = true, true
	p.mu.Unlock()
	pipe := func(dst, src net.Conn) {
		buf := make([]byte, 32<<10)
		for {
			n, err := src.Read(buf)
			for p.stalled.Load() {
				time.Sleep(2 * time.Millisecond)
			}
			if n > 0 {
				if _, werr := dst.Write(buf[:n]); werr != nil {
					break
				}
			}
			if err != nil {
				break
			}
		}
		dst.Close()
		src.Close()
		p.mu.Lock()
		delete(p.conns, dst)
		delete(p.conns, src)
		p.mu.Unlock()
	}
	go pipe(s, c)
	go pipe(c, s)
}

// cut closes every proxied connection.
func (p *proxy) cut() {
	p.mu.Lock()
	for c := range p.conns {
		c.Close()
	}
	p.mu.Unlock()
}

// down closes the listener (connection refused) and the connections.
func (p *proxy) down() {
	p.mu.Lock()
	if p.l != nil {
		p.l.Close()
		p.l = nil
	}
	p.mu.Unlock()
	p.cut()
}

// up listens again on the same port.
func (p *proxy) up() error {
	p.mu.Lock()
	defer p.mu.Unlock()
	if p.l != nil {
		return nil
	}
	var err error
	for i := 0; i < 50; i++ {
		var l net.Listener
		l, err = net.Listen("tcp", p.addr)
		if err == nil {
			p.l = l
			go p.acceptLoop(l)
			return nil
		}
		time.Sleep(10 * time.Millisecond)
	}
	return err
}

// ------------------------------------------------------------------ child

type trace struct {
	mu sync.Mutex
	ev []string
	t0 time.Time
}

func (t *trace) add(s string) {
	t.mu.Lock()
	t.ev = append(t.ev, s)
	t.mu.Unlock()
}
func (t *trace) snapshot() []string {
	t.mu.Lock()
	defer t.mu.Unlock()
	return append([]string(nil), t.ev...)
}

var actionNames = []string{"none", "createSecureChannel", "restoreSession", "recreateSession", "restoreSubscriptions", "transferSubscriptions", "abortReconnect"}

func errClass(err error) string {
	switch {
	case err == nil:
		return "nil"
	case errors.Is(err, io.EOF):
		return "eof"
	case errors.Is(err, syscall.ECONNREFUSED):
		return "refused"
	case errors.Is(err, ua.StatusBadSecureChannelIDInvalid):
		return "badChannel"
	case errors.Is(err, ua.StatusBadSessionIDInvalid):
		return "badSession"
	case errors.Is(err, ua.StatusBadSubscriptionIDInvalid):
		return "badSubscription"
	default:
		return "other"
	}
}

func startServer(port int) (*server.Server, error) {
	s := server.New(
		server.EndPoint("127.0.0.1", port),
		server.EnableSecurity("None", ua.MessageSecurityModeNone),
		server.EnableAuthMode(ua.UserTokenTypeAnonymous),
	)
	var err error
	for i := 0; i < 50; i++ {
		if err = s.Start(context.Background()); err == nil {
			return s, nil
		}
		time.Sleep(20 * time.Millisecond)
	}
	return nil, err
}

func freePort() int {
	l, err := net.Listen("tcp", "127.0.0.1:0")
	if err != nil {
		return 0
	}
	defer l.Close()
	return l.Addr().(*net.TCPAddr).Port
}

// clientGoroutines counts goroutines that belong to the client.
func clientGoroutines() (int, string) {
	buf := make([]byte, 1<<20)
	n := runtime.Stack(buf, true)
	cnt := 0
	var which []string
	for _, g := range strings.Split(string(buf[:n]), "\n\n") {
		for _, mark := range []string{"opcua.(*Client).monitor(", "opcua.(*Client).monitorSubscriptions(", "uasc.(*SecureChannel).dispatcher(", "uasc.(*SecureChannel).scheduleRenewal("} {
			if strings.Contains(g, mark) {
				cnt++
				which = append(which, strings.TrimSuffix(mark, "("))
				break
			}
		}
	}
	return cnt, strings.Join(which, ",")
}

// scenario: space separated steps
//
//	auto=<0|1>        first token: AutoReconnect
//	w<ms>             wait
//	cut               cut all connections
//	down<ms>          proxy refuses connections for <ms>, then comes back
//	rst<ms>           proxy accepts and closes at once for <ms>
//	stall<ms>         proxy stops forwarding for <ms>
//	restart           server restarted (sessions lost), connections cut
//	sdown<ms>         server stopped for <ms> (proxy up: its dial to the server fails), then restarted
//	read              a Read through the client (result recorded, not part of the LTS)
//	close             client.Close (terminal unless followed by w)
//	closeAt:<action>  Close is called while the monitor is held at the top of that action (forced interleaving)
func runScenario(sc string) (events []string, extra string) {
	tr := &trace{t0: time.Now()}
	steps := strings.Fields(sc)
	auto := true
	if len(steps) > 0 && strings.HasPrefix(steps[0], "auto=") {
		auto = steps[0] == "auto=1"
		steps = steps[1:]
	}
	port := freePort()
	srv, err := startServer(port)
	if err != nil {
		return nil, "infra: server: " + err.Error()
	}
	defer func() {
		if srv != nil {
			srv.Close()
		}
	}()
	px, err := newProxy(fmt.Sprintf("127.0.0.1:%d", port))
	if err != nil {
		return nil, "infra: proxy: " + err.Error()
	}
	defer px.down()

	var closeAt atomic.Value // string: action name at which to call Close
	closeAt.Store("")
	holdCh := make(chan struct{})
	var held atomic.Bool
	hooksSeen := false
	opcua.VerifSetHook(func(name string, args ...interface{}) {
		switch name {
		case "monitor.error":
			hooksSeen = true
			e, _ := args[0].(error)
			tr.add("m.error " + errClass(e))
		case "monitor.action":
			hooksSeen = true
			a := int(args[0].(uint8))
			tr.add("m.action " + actionNames[a])
			if want := closeAt.Load().(string); want != "" && want == actionNames[a] && held.CompareAndSwap(false, true) {
				<-holdCh // the harness calls Close now and releases us afterwards
			}
		case "monitor.done":
			tr.add("m.done")
		}
	})
	defer opcua.VerifSetHook(nil)

	dialer := &uacp.Dialer{
		Dialer: &net.Dialer{Timeout: 2 * time.Second, Control: func(network, address string, c syscall.RawConn) error {
			tr.add("dial")
			return nil
		}},
		ClientACK: uacp.DefaultClientACK,
	}
	c, err := opcua.NewClient("opc.tcp://"+px.addr,
		opcua.SecurityMode(ua.MessageSecurityModeNone),
		opcua.AutoReconnect(auto),
		opcua.ReconnectInterval(30*time.Millisecond),
		opcua.RequestTimeout(2*time.Second),
		opcua.Dialer(dialer),
		opcua.StateChangedFunc(func(s opcua.ConnState) { tr.add("st " + s.String()) }),
	)
	if err != nil {
		return nil, "infra: newclient: " + err.Error()
	}
	ctx := context.Background()
	tr.add("u.connect")
	if err := c.Connect(ctx); err != nil {
		tr.add("u.connect.err")
		return tr.snapshot(), "connect failed: " + err.Error()
	}
	tr.add("u.connect.ok")

	closed := false
	doClose := func() {
		tr.add("u.close")
		c.Close(ctx)
		tr.add("u.close.end")
		closed = true
	}
	waitConnected := func(d time.Duration) bool {
		deadline := time.Now().Add(d)
		for time.Now().Before(deadline) {
			if c.State() == opcua.Connected {
				return true
			}
			time.Sleep(5 * time.Millisecond)
		}
		return false
	}
	ms := func(s string) time.Duration {
		var n int
		fmt.Sscan(s, &n)
		return time.Duration(n) * time.Millisecond
	}
	for _, st := range steps {
		if closed {
			if strings.HasPrefix(st, "w") {
				time.Sleep(ms(st[1:]))
			}
			continue
		}
		switch {
		case strings.HasPrefix(st, "w"):
			time.Sleep(ms(st[1:]))
		case st == "cut":
			tr.add("f.cut")
			px.cut()
		case strings.HasPrefix(st, "down"):
			tr.add("f.down")
			px.down()
			time.Sleep(ms(st[4:]))
			if err := px.up(); err != nil {
				return tr.snapshot(), "infra: proxy up: " + err.Error()
			}
			tr.add("f.up")
		case strings.HasPrefix(st, "rst"):
			tr.add("f.rst")
			px.refuse.Store(true)
			px.cut()
			time.Sleep(ms(st[3:]))
			px.refuse.Store(false)
			tr.add("f.up")
		case strings.HasPrefix(st, "stall"):
			tr.add("f.stall")
			px.stalled.Store(true)
			time.Sleep(ms(st[5:]))
			px.stalled.Store(false)
			tr.add("f.up")
		case st == "restart", strings.HasPrefix(st, "sdown"):
			tr.add("f.restart")
			srv.Close()
			srv = nil
			px.cut()
			if strings.HasPrefix(st, "sdown") {
				time.Sleep(ms(st[5:]))
			}
			srv, err = startServer(port)
			if err != nil {
				return tr.snapshot(), "infra: server restart: " + err.Error()
			}
			tr.add("f.up")
		case st == "read":
			_, err := c.Node(ua.NewNumericNodeID(0, 2258)).Value(ctx)
			tr.add("f.read." + map[bool]string{true: "ok", false: "err"}[err == nil])
		case st == "close":
			doClose()
		case strings.HasPrefix(st, "closeAt:"):
			closeAt.Store(st[len("closeAt:"):])
			// wait until the monitor is held there (or give up: the action was not reached)
			deadline := time.Now().Add(5 * time.Second)
			for !held.Load() && time.Now().Before(deadline) {
				time.Sleep(2 * time.Millisecond)
			}
			if !held.Load() {
				closeAt.Store("")
				tr.add("f.closeAt.notreached")
				continue
			}
			doClose()
			close(holdCh)
		}
	}
	res := ""
	if !closed {
		// heal: everything is up; the client must come back (auto-reconnect) and work
		if auto {
			ok := waitConnected(15 * time.Second)
			tr.add("f.healed." + map[bool]string{true: "connected", false: "notconnected:" + c.State().String()}[ok])
			if ok {
				time.Sleep(30 * time.Millisecond) // let the monitor finish its round (m.done)
				_, err := c.Node(ua.NewNumericNodeID(0, 2258)).Value(ctx)
				if err != nil {
					// one retry: the request may have raced with a late fault effect
					if waitConnected(5 * time.Second) {
						_, err = c.Node(ua.NewNumericNodeID(0, 2258)).Value(ctx)
					}
				}
				tr.add("f.finalread." + map[bool]string{true: "ok", false: "err"}[err == nil])
				if err != nil {
					res = "final read: " + err.Error()
				}
			}
		} else {
			time.Sleep(150 * time.Millisecond)
		}
		doClose()
	}
	// after Close: no further events are expected; give stragglers time to show up
	time.Sleep(250 * time.Millisecond)
	tr.add("f.settled")
	time.Sleep(100 * time.Millisecond)
	n, which := clientGoroutines()
	tr.add(fmt.Sprintf("f.goroutines %d %s", n, which))
	if !hooksSeen {
		tr.add("f.nohooks")
	}
	return tr.snapshot(), res
}

func child() {
	log.SetOutput(io.Discard)
	in := bufio.NewScanner(os.Stdin)
	out := bufio.NewWriter(os.Stdout)
	for in.Scan() {
		f := strings.SplitN(in.Text(), " ", 3)
		if len(f) != 3 {
			continue
		}
		ev, extra := runScenario(f[2])
		if strings.HasPrefix(extra, "infra:") {
			fmt.Fprintf(out, "%s infra-scenario | %s\n", f[0], extra)
		} else {
			fmt.Fprintf(out, "%s %s | %s\n", f[0], strings.Join(ev, ";"), strings.ReplaceAll(extra, "\n", " "))
		}
		out.Flush()
	}
}

func main() {
	if os.Getenv("VERIF_C25_CHILD") != "" {
		child()
		return
	}
	o := h.ParseOpts()
	if os.Getenv("VERIF_C25_EXPLORE") != "" {
		ev, extra := runScenario(os.Getenv("VERIF_C25_EXPLORE"))
		fmt.Println(strings.Join(ev, "\n"))
		fmt.Println("extra:", extra)
		return
	}
	_ = sscript.RunBatch
	r := h.NewResult("C25", o)
	r.Write(o.Out)
}
