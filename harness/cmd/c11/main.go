// Correspondence runner and property oracle for C11: concurrent senders and
// token renewals on a real client channel (None mode, loopback TCP; the peer
// reads the sequence headers off the wire), concurrent response senders on a
// real server channel, and three forced interleavings that reproduce the
// recorded findings. The verifPoint events are replayed through the Lean LTS
// `SendSeq` (every step must be accepted, the model's wire must equal the
// real wire); the oracle (numbers +1 per chunk, messages contiguous) is
// evaluated on the chunks the peer received.
package main

import (
	"context"
	"fmt"
	"runtime"
	"strings"
	"sync"
	"sync/atomic"
	"time"

	"github.com/gopcua/opcua/ua"
	"github.com/gopcua/opcua/uacp"
	"github.com/gopcua/opcua/uapolicy"
	"github.com/gopcua/opcua/uasc"

	"verifharness/internal/h"
)

type env struct {
	o *h.Opts
	r *h.Result
	d *h.Driver
}

const (
	chanID  = 7
	initTok = 3
)

// bigReq is a request that needs `chunks` chunks with 8 KiB buffers.
func bigReq(chunks int, tag byte) *ua.WriteRequest {
	n := 16
	if chunks > 1 {
		n = (chunks-1)*8100 + 500
	}
	b := make([]byte, n)
	for i := range b {
		b[i] = tag
	}
	return &ua.WriteRequest{NodesToWrite: []*ua.WriteValue{{
		NodeID: ua.NewNumericNodeID(0, 1), AttributeID: ua.AttributeIDValue,
		Value: &ua.DataValue{EncodingMask: ua.DataValueValue, Value: ua.MustVariant(b)},
	}}}
}

type peer struct {
	conn     *uacp.Conn
	mu       sync.Mutex
	wire     []h.PeerChunk
	answered map[uint32]uint32         // request id of an answered OPN request -> token issued
	answer   func(c *h.PeerChunk) bool // for OPN requests: answer?
	nextTok  uint32
	seq      uint32
	done     chan struct{}
}

func startPeer(conn *uacp.Conn, answer func(*h.PeerChunk) bool) *peer {
	p := &peer{conn: conn, answered: map[uint32]uint32{}, answer: answer, nextTok: initTok, seq: 5000, done: make(chan struct{})}
	go func() {
		defer close(p.done)
		for {
			c, err := h.PeerRead(conn)
			if err != nil {
				return
			}
			c.Body = nil
			p.mu.Lock()
			p.wire = append(p.wire, *c)
			p.mu.Unlock()
			if c.Type == "OPN" && (p.answer == nil || p.answer(c)) {
				p.mu.Lock()
				p.nextTok++
				tok := p.nextTok
				p.answered[c.ReqID] = tok
				p.mu.Unlock()
				h.PeerSendOPNResponse(conn, chanID, tok, &p.seq, c.ReqID, 3600000)
			}
		}
	}()
	return p
}

// reply answers a withheld OPN request.
func (p *peer) reply(reqID uint32) {
	p.mu.Lock()
	p.nextTok++
	tok := p.nextTok
	p.answered[reqID] = tok
	p.mu.Unlock()
	h.PeerSendOPNResponse(p.conn, chanID, tok, &p.seq, reqID, 3600000)
}

// opnRequests returns the request ids of the OPN request chunks seen so far.
func (p *peer) opnRequests() []uint32 {
	p.mu.Lock()
	defer p.mu.Unlock()
	var out []uint32
	for _, c := range p.wire {
		if c.Type == "OPN" {
			out = append(out, c.ReqID)
		}
	}
	return out
}

func (p *peer) snapshot() ([]h.PeerChunk, map[uint32]uint32) {
	p.mu.Lock()
	defer p.mu.Unlock()
	a := map[uint32]uint32{}
	for k, v := range p.answered {
		a[k] = v
	}
	return append([]h.PeerChunk(nil), p.wire...), a
}

// waitWire waits until the peer has seen n chunks.
func (p *peer) waitWire(n int, d time.Duration) bool {
	dl := time.Now().Add(d)
	for time.Now().Before(dl) {
		p.mu.Lock()
		l := len(p.wire)
		p.mu.Unlock()
		if l >= n {
			return true
		}
		time.Sleep(time.Millisecond)
	}
	return false
}

type scen struct {
	name string
	cli  *uacp.Conn
	srv  *uacp.Conn
	sc   *uasc.SecureChannel
	ctl  *h.SendCtl
	p    *peer
	base uint32
	stop func()
}

func (e *env) open(name string, base uint32, reqTimeout time.Duration, server bool, answer func(*h.PeerChunk) bool) *scen {
	cli, srv, cleanup, err := h.SendLoopbackSize(8192)
	if err != nil {
		e.r.InfraError = "loopback: " + err.Error()
		return nil
	}
	cfg := h.NoneConfig(uint32(100), reqTimeout)
	errch := make(chan error, 64)
	var sc *uasc.SecureChannel
	if server {
		sc, err = uasc.VerifOpenServerChannel(cli, cfg, chanID, initTok, base, nil, nil, errch)
	} else {
		sc, err = uasc.VerifOpenChannel(cli, cfg, false, chanID, initTok, base, nil, nil, errch)
	}
	if err != nil {
		cleanup()
		e.r.InfraError = "open channel: " + err.Error()
		return nil
	}
	ctl := h.NewSendCtl()
	uasc.VerifSetHook(ctl.Hook)
	if !server {
		sc.VerifStartDispatcher()
	}
	s := &scen{name: name, cli: cli, srv: srv, sc: sc, ctl: ctl, base: base}
	s.p = startPeer(srv, answer)
	s.stop = func() {
		uasc.VerifSetHook(nil)
		ctl.ReleaseAll()
		if !server {
			sc.Close() // ends the renewal / expiry timers of the renewed tokens
		}
		cleanup()
		<-s.p.done
	}
	return s
}

// finish replays the trace through the model, compares the wires and runs the oracle.
// expectSigs: findings this scenario was built to reproduce.
func (e *env) finish(s *scen, evs []h.SendEv, expectSigs ...string) {
	r := e.r
	wire, answered := s.p.snapshot()
	labels, burned, truncated, _ := h.SeqLabelsT(evs, s.sc.VerifReqLocker())
	multi := 0
	for _, c := range wire {
		if c.ChunkType == 'C' {
			multi++
		}
	}
	r.Count(s.name+" "+strings.Join(labels, ";"), len(wire) >= 2)
	r.Sample(fmt.Sprintf("%s: %d labels, %d chunks on the wire (%d intermediate): %s", s.name, len(labels), len(wire), multi, strings.Join(labels, "; ")))
	for _, l := range labels {
		r.Hit("label:" + strings.Fields(l)[0])
	}
	if multi > 0 {
		r.Hit("multi-chunk-message")
	}

	// ---- oracle on the implementation alone
	v := h.CheckWireT(wire, burned, truncated, answered, initTok)
	switch {
	case v.OK:
		r.Hit("wire:consecutive")
	case v.Explained:
		for _, sig := range v.Sigs {
			r.Fail(s.name, sig, v.Detail)
			for _, x := range expectSigs {
				if x == sig {
					r.Confirm(sig, s.name+": "+v.Detail)
				}
			}
		}
	default:
		r.Fail(s.name, "", v.Detail)
	}
	for _, x := range expectSigs {
		found := false
		for _, sig := range v.Sigs {
			found = found || sig == x
		}
		if !found {
			r.Notes = append(r.Notes, fmt.Sprintf("%s: forced interleaving did not reproduce %s (wire ok=%v)", s.name, x, v.OK))
		}
	}

	// ---- model
	if e.d == nil {
		return
	}
	e.d.Ask(fmt.Sprintf("reset %d %d", s.base, initTok))
	inGuard := true
	for i, l := range labels {
		if l == "rLock" || strings.HasPrefix(l, "abort") || l == "rFail" || strings.HasPrefix(l, "respGetActive") {
			if e.d.Ask("guard "+l) != "in" {
				inGuard = false
			}
		}
		if a := e.d.Ask("lts " + l); a != "ok" {
			r.Disagree(s.name, fmt.Sprintf("%s at step %d `%s` of %s", a, i, l, strings.Join(labels, ";")), "step taken by the implementation")
			return
		}
	}
	r.TracesValidated++
	// wires: the model's chunks (token, number) per instance must be the real ones
	var mw []string
	if a := e.d.Ask("wire"); a != "-" {
		for _, c := range strings.Split(a, ",") {
			f := strings.Split(c, ":")
			mw = append(mw, f[1]+":"+f[2])
		}
	}
	var iw []string
	for _, c := range wire {
		if c.Type == "CLO" {
			continue
		}
		iw = append(iw, fmt.Sprintf("%d:%d", c.TokenID, c.Seq))
	}
	if strings.Join(mw, ",") != strings.Join(iw, ",") {
		// two senders on different instances write concurrently only outside the guard; compare per token then
		proj := func(w []string) map[string]string {
			m := map[string]string{}
			for _, x := range w {
				t := strings.Split(x, ":")[0]
				m[t] += x + ","
			}
			return m
		}
		a, b := proj(mw), proj(iw)
		same := len(a) == len(b)
		for k, x := range a {
			same = same && b[k] == x
		}
		if !same || inGuard {
			r.Disagree(s.name+" wire", strings.Join(mw, ","), strings.Join(iw, ","))
		}
	}
	linked := e.d.Ask("linked")
	if len(truncated) > 0 {
		// a message abandoned after its first chunk: the model's `Linked` counts the unfinished message as an
		// offence, the property (numbers, no interleaving) does not
		e.r.Hit("message-abandoned-mid-way")
	} else if (linked == "true") != v.OK {
		r.Disagree(s.name+" linked", linked, fmt.Sprint(v.OK))
	}
	if inGuard {
		r.Hit("guard:inside")
		if !v.OK {
			// theorem C11_partial: cannot happen unless the model is not the code
			r.Disagree(s.name+" inside the guard", "Linked (C11_partial)", "wire not consecutive: "+v.Detail)
		}
	} else {
		r.Hit("guard:outside")
	}
}

// ---------------------------------------------------------------- scenarios

// random client scenario: senders and renewals race freely
func (e *env) randomClient(seed uint64, idx int) {
	rnd := h.NewRand(seed*7919 + uint64(idx))
	base := uint32(rnd.Intn(1 << 20))
	if rnd.Chance(30) {
		base = 0xFFFFFFFF - 1023 - uint32(rnd.Intn(12)) // the counter wraps inside the scenario
		e.r.Hit("counter-near-wrap")
	}
	s := e.open(fmt.Sprintf("random-client %d %d", seed, idx), base, 60*time.Second, false, nil)
	if s == nil {
		return
	}
	var yield uint64
	ymod := uint64(2 + rnd.Intn(5))
	s.ctl.OnEvent = func(ev *h.SendEv) {
		if strings.HasPrefix(ev.Name, "cl.") || strings.HasPrefix(ev.Name, "handlers.") || ev.Name == "active.get" || ev.Name == "open.install" {
			return
		}
		if atomic.AddUint64(&yield, 1)%ymod == 0 {
			runtime.Gosched()
		}
	}
	nSenders := 2 + rnd.Intn(5)
	perSender := 1 + rnd.Intn(4)
	nRenew := rnd.Intn(3)
	var wg sync.WaitGroup
	var errs atomic.Int64
	var panicked atomic.Value
	for k := 0; k < nSenders; k++ {
		wg.Add(1)
		chunks := make([]int, perSender)
		for i := range chunks {
			chunks[i] = 1
			if rnd.Chance(30) {
				chunks[i] = 2 + rnd.Intn(2)
			}
		}
		go func(k int) {
			defer wg.Done()
			for _, c := range chunks {
				if err := s.sc.SendRequestWithTimeout(context.Background(), bigReq(c, byte(k)), nil, 60*time.Second, nil); err != nil {
					errs.Add(1)
				}
			}
		}(k)
	}
	wg.Add(1)
	go func() {
		defer wg.Done()
		for i := 0; i < nRenew; i++ {
			runtime.Gosched()
			if err := renewRecover(s.sc, &panicked); err != nil {
				errs.Add(1)
			}
		}
	}()
	done := make(chan struct{})
	go func() { wg.Wait(); close(done) }()
	select {
	case <-done:
	case <-time.After(60 * time.Second):
		e.blocked(s.name + ": senders did not finish")
	}
	evs := s.ctl.Events()
	want := 0
	for _, ev := range evs {
		if ev.Name == "send.chunk" {
			want++
		}
	}
	if !s.p.waitWire(want, 60*time.Second) && e.r.InfraError == "" {
		e.blocked(s.name + ": peer did not receive all chunks")
	}
	uasc.VerifSetHook(nil)
	if errs.Load() > 0 && e.r.InfraError == "" {
		e.r.InfraError = fmt.Sprintf("%s: %d calls failed", s.name, errs.Load())
	}
	if p := panicked.Load(); p != nil {
		// recorded under C16 (C16.renew-waitgroup-panic): pendingReq.Add raced with pendingReq.Wait.
		// The renewal goroutine died half way; nothing to compare for this scenario.
		e.r.Hit("scenario:renew-panicked")
		e.r.Notes = append(e.r.Notes, fmt.Sprintf("%s: Renew panicked: %v (finding of C16)", s.name, p))
		e.r.InfraError = ""
		s.stop()
		return
	}
	if nRenew > 0 {
		e.r.Hit("scenario:with-renewal")
	} else {
		e.r.Hit("scenario:no-renewal")
	}
	if e.r.InfraError == "" {
		e.finish(s, evs)
	}
	s.stop()
}

// server scenario: concurrent response senders on one server channel, no renewal
func (e *env) serverFixed(seed uint64, idx int) {
	rnd := h.NewRand(seed*104729 + uint64(idx))
	base := uint32(rnd.Intn(1 << 20))
	if rnd.Chance(30) {
		base = 0xFFFFFFFF - 1023 - uint32(rnd.Intn(12))
	}
	s := e.open(fmt.Sprintf("server-fixed %d %d", seed, idx), base, 60*time.Second, true, nil)
	if s == nil {
		return
	}
	n := 2 + rnd.Intn(5)
	var wg sync.WaitGroup
	var errs atomic.Int64
	for k := 0; k < n; k++ {
		wg.Add(1)
		size := 16
		if rnd.Chance(40) {
			size = 8100*(1+rnd.Intn(2)) + 300
		}
		per := 1 + rnd.Intn(3)
		go func(k int) {
			defer wg.Done()
			for i := 0; i < per; i++ {
				resp := &ua.ReadResponse{ResponseHeader: h.RespHeader(uint32(k), ua.StatusOK),
					Results: []*ua.DataValue{{EncodingMask: ua.DataValueValue, Value: ua.MustVariant(make([]byte, size))}}}
				if err := s.sc.SendResponseWithContext(context.Background(), uint32(1000+k*10+i), resp); err != nil {
					errs.Add(1)
				}
				runtime.Gosched()
			}
		}(k)
	}
	wg.Wait()
	evs := s.ctl.Events()
	want := 0
	for _, ev := range evs {
		if ev.Name == "resp.chunk" {
			want++
		}
	}
	if !s.p.waitWire(want, 60*time.Second) {
		e.blocked(s.name + ": peer did not receive all chunks")
	}
	uasc.VerifSetHook(nil)
	if errs.Load() > 0 && e.r.InfraError == "" {
		e.r.InfraError = fmt.Sprintf("%s: %d calls failed", s.name, errs.Load())
	}
	e.r.Hit("scenario:server-responses")
	if e.r.InfraError == "" {
		e.finish(s, evs)
	}
	s.stop()
}

// renewRecover calls Renew and converts a panic of the library (WaitGroup misuse, see
// C16.renew-waitgroup-panic) into an error so that the run survives it.
func renewRecover(sc *uasc.SecureChannel, panicked *atomic.Value) (err error) {
	defer func() {
		if p := recover(); p != nil {
			panicked.Store(fmt.Sprint(p))
			err = fmt.Errorf("panic: %v", p)
		}
	}()
	return sc.Renew(context.Background())
}

func small(tag byte) *ua.WriteRequest { return bigReq(1, tag) }

// forcedStale: a sender is held between the gate and pendingReq.Add while a whole renewal runs.
func (e *env) forcedStale() {
	s := e.open("forced-stale-counter", 100, 60*time.Second, false, nil)
	if s == nil {
		return
	}
	defer s.stop()
	// one ordinary message first
	s.sc.SendRequestWithTimeout(context.Background(), small(1), nil, 60*time.Second, nil)
	hold := s.ctl.BlockAt(func(ev *h.SendEv) bool { return ev.Name == "send.afterActive" })
	sdone := make(chan error, 1)
	go func() { sdone <- s.sc.SendRequestWithTimeout(context.Background(), small(2), nil, 60*time.Second, nil) }()
	if hold.WaitReached(60*time.Second) == nil {
		e.blocked(s.name + ": sender did not reach send.afterActive")
		return
	}
	if err := s.sc.Renew(context.Background()); err != nil {
		e.blocked(s.name + ": renew failed: " + err.Error())
		return
	}
	hold.Release()
	select {
	case <-sdone:
	case <-time.After(60 * time.Second):
		e.blocked(s.name + ": held sender did not finish")
		return
	}
	// a message under the new token
	s.sc.SendRequestWithTimeout(context.Background(), small(3), nil, 60*time.Second, nil)
	s.p.waitWire(4, 60*time.Second)
	evs := s.ctl.Events()
	uasc.VerifSetHook(nil)
	e.r.Hit("scenario:forced-stale")
	e.finish(s, evs, "C11.stale-counter-after-renewal")
}

// forcedFailedRenewal: the peer does not answer the OPN request.
func (e *env) forcedFailedRenewal() {
	s := e.open("forced-failed-renewal", 200, 50*time.Millisecond, false, func(*h.PeerChunk) bool { return false })
	if s == nil {
		return
	}
	defer s.stop()
	s.sc.SendRequestWithTimeout(context.Background(), small(1), nil, 60*time.Second, nil)
	err := s.sc.Renew(context.Background())
	if err == nil {
		e.blocked(s.name + ": renewal without an answer succeeded")
		return
	}
	s.sc.SendRequestWithTimeout(context.Background(), small(2), nil, 60*time.Second, nil)
	s.p.waitWire(3, 60*time.Second)
	evs := s.ctl.Events()
	uasc.VerifSetHook(nil)
	e.r.Hit("scenario:forced-failed-renewal")
	e.finish(s, evs, "C11.failed-renewal-burns-number")
}

// forcedAbort: (1) a request whose context is already done must not consume a number (repaired);
// (2) a request whose context ends after its number was drawn (held at send.numbered) still burns it.
func (e *env) forcedAbort() {
	s := e.open("forced-aborted-send", 300, 60*time.Second, false, nil)
	if s == nil {
		return
	}
	defer s.stop()
	s.sc.SendRequestWithTimeout(context.Background(), small(1), nil, 60*time.Second, nil)
	ctx, cancel := context.WithCancel(context.Background())
	cancel()
	if err := s.sc.SendRequestWithTimeout(ctx, small(2), nil, 60*time.Second, nil); err == nil {
		e.blocked(s.name + ": request with a cancelled context succeeded")
		return
	}
	s.sc.SendRequestWithTimeout(context.Background(), small(3), nil, 60*time.Second, nil)
	s.p.waitWire(2, 60*time.Second)
	if w, _ := s.p.snapshot(); len(w) == 2 && w[1].Seq != h.NextSeq(w[0].Seq) {
		e.r.Fail(s.name+" (context done before the call)", "", fmt.Sprintf("a request whose context was already done consumed a sequence number: wire %s, %s", w[0], w[1]))
	} else {
		e.r.Hit("precancelled-send-draws-no-number")
	}
	// (2)
	hold := s.ctl.BlockAt(func(ev *h.SendEv) bool { return ev.Name == "send.numbered" })
	ctx2, cancel2 := context.WithCancel(context.Background())
	defer cancel2()
	done := make(chan error, 1)
	go func() { done <- s.sc.SendRequestWithTimeout(ctx2, small(4), nil, 60*time.Second, nil) }()
	if hold.WaitReached(60*time.Second) == nil {
		e.blocked(s.name + ": sender did not reach send.numbered")
		return
	}
	cancel2()
	hold.Release()
	select {
	case err := <-done:
		if err == nil {
			e.r.Notes = append(e.r.Notes, s.name+": the held request was sent although its context ended")
		}
	case <-time.After(60 * time.Second):
		e.blocked(s.name + ": held sender did not return")
		return
	}
	s.sc.SendRequestWithTimeout(context.Background(), small(5), nil, 60*time.Second, nil)
	s.p.waitWire(3, 60*time.Second)
	evs := s.ctl.Events()
	uasc.VerifSetHook(nil)
	e.r.Hit("scenario:forced-aborted-send")
	e.finish(s, evs, "C11.aborted-send-burns-number")
}

// forcedOverlap: the public Renew() is called while a renewal is in progress. conditionLocker.lock() does not
// block; the second renewal waits for the old instance's mutex; when the first one finishes its unlock()
// opens the gate although the second renewal is still running, and the second one renews the superseded token.
func (e *env) forcedOverlap() {
	s := e.open("forced-overlapping-renewals", 400, 60*time.Second, false, func(*h.PeerChunk) bool { return false })
	if s == nil {
		return
	}
	defer s.stop()
	gate := s.sc.VerifReqLocker()
	s.sc.SendRequestWithTimeout(context.Background(), small(1), nil, 60*time.Second, nil)
	var panicked atomic.Value
	r1 := make(chan error, 1)
	go func() { r1 <- renewRecover(s.sc, &panicked) }()
	waitOPN := func(n int) bool {
		dl := time.Now().Add(60 * time.Second)
		for time.Now().Before(dl) {
			if len(s.p.opnRequests()) >= n {
				return true
			}
			time.Sleep(time.Millisecond)
		}
		return false
	}
	if !waitOPN(1) {
		e.blocked(s.name + ": first OPN request not seen")
		return
	}
	r2 := make(chan error, 1)
	go func() { r2 <- renewRecover(s.sc, &panicked) }()
	nAfterWait := func() int {
		n := 0
		for _, ev := range s.ctl.Events() {
			if ev.Name == "renew.afterWait" {
				n++
			}
		}
		return n
	}
	for dl := time.Now().Add(60 * time.Second); nAfterWait() < 2; {
		if time.Now().After(dl) {
			e.blocked(s.name + ": second renewal did not get past pendingReq.Wait")
			return
		}
		time.Sleep(time.Millisecond)
	}
	sd := make(chan error, 1)
	go func() { sd <- s.sc.SendRequestWithTimeout(context.Background(), small(2), nil, 60*time.Second, nil) }()
	if s.ctl.WaitEvent(60*time.Second, func(ev *h.SendEv) bool { return ev.Name == "cl.block" && ev.Arg(0) == gate }) == nil {
		e.blocked(s.name + ": the request did not block at the gate")
		return
	}
	s.p.reply(s.p.opnRequests()[0]) // the first renewal completes: its unlock opens the gate
	select {
	case <-r1:
	case <-time.After(60 * time.Second):
		e.blocked(s.name + ": first renewal did not return")
		return
	}
	if !waitOPN(2) {
		e.blocked(s.name + ": second OPN request not seen")
		return
	}
	select {
	case <-sd: // the request got through while the second renewal was still waiting for its answer
	case <-time.After(60 * time.Second):
		e.r.Notes = append(e.r.Notes, s.name+": the request stayed blocked during the second renewal")
	}
	s.p.reply(s.p.opnRequests()[1])
	select {
	case <-r2:
	case <-time.After(60 * time.Second):
		e.blocked(s.name + ": second renewal did not return")
		return
	}
	s.sc.SendRequestWithTimeout(context.Background(), small(3), nil, 60*time.Second, nil)
	s.p.waitWire(5, 60*time.Second)
	evs := s.ctl.Events()
	uasc.VerifSetHook(nil)
	e.r.Hit("scenario:forced-overlapping-renewals")
	if p := panicked.Load(); p != nil {
		e.r.Notes = append(e.r.Notes, fmt.Sprintf("%s: a renewal panicked: %v", s.name, p))
		return
	}
	// ---- oracle on the wire
	wire, answered := s.p.snapshot()
	v := h.CheckWireT(wire, nil, nil, answered, initTok)
	var ws []string
	for _, c := range wire {
		ws = append(ws, c.String())
	}
	detail := strings.Join(ws, " | ")
	switch {
	case v.OK:
		e.r.Notes = append(e.r.Notes, s.name+": not reproduced, wire consecutive: "+detail)
	case v.Explained:
		for _, sig := range v.Sigs {
			e.r.Fail(s.name, sig, v.Detail+"; wire: "+detail)
			if sig == "C11.overlapping-renewals" {
				e.r.Confirm(sig, v.Detail+"; wire: "+detail)
			}
		}
	default:
		e.r.Fail(s.name, "", v.Detail+"; wire: "+detail)
	}
	// ---- the gate LTS on the recorded lock / unlock / pass events
	ren := map[int64]int{}
	var ls []string
	for _, ev := range evs {
		if ev.Arg(0) != gate {
			continue
		}
		switch ev.Name {
		case "cl.lock":
			if _, ok := ren[ev.G]; !ok {
				ren[ev.G] = len(ren)
			}
			ls = append(ls, fmt.Sprintf("rLock%d", ren[ev.G]))
		case "cl.unlock":
			if i, ok := ren[ev.G]; ok {
				ls = append(ls, fmt.Sprintf("rUnlock%d", i))
			} else {
				ls = append(ls, "close")
			}
		case "cl.pass":
			if _, ok := ren[ev.G]; !ok {
				ls = append(ls, "pass0")
			}
		}
	}
	q := "gt " + strings.Join(ls, " ")
	e.r.Count(q, true)
	e.r.Sample(s.name + ": " + q + " ;; wire: " + detail)
	if e.d != nil {
		a := e.d.Ask(q)
		if a == "reject" || a == "bad-op" {
			e.r.Disagree(q, a, "gate operations of the implementation")
		} else {
			e.r.TracesValidated++
			// a request passed the gate while the second renewal was in progress ⇔ badPass > 0
			if strings.HasSuffix(a, "badPass=0") != v.OK {
				e.r.Disagree(q+" (requests passing during a renewal)", a, fmt.Sprintf("wire ok=%v", v.OK))
			}
		}
	}
}

// forcedClose: Close() while a renewal is in progress. close() unlocks the gate first thing; its own
// CloseSecureChannelRequest then passes the gate, reads the old active instance and is numbered from the
// stale counter once the renewal has finished (the stale-counter finding through another door).
func (e *env) forcedClose() {
	s := e.open("forced-close-during-renewal", 500, 60*time.Second, false, func(*h.PeerChunk) bool { return false })
	if s == nil {
		return
	}
	defer s.stop()
	gate := s.sc.VerifReqLocker()
	s.sc.SendRequestWithTimeout(context.Background(), small(1), nil, 60*time.Second, nil)
	var panicked atomic.Value
	r1 := make(chan error, 1)
	go func() { r1 <- renewRecover(s.sc, &panicked) }()
	for dl := time.Now().Add(60 * time.Second); len(s.p.opnRequests()) < 1; {
		if time.Now().After(dl) {
			e.blocked(s.name + ": OPN request not seen")
			return
		}
		time.Sleep(time.Millisecond)
	}
	cd := make(chan error, 1)
	n0 := len(s.ctl.Events())
	go func() { cd <- s.sc.Close() }()
	// the CLO request is past the gate once it announces that it waits for the instance mutex
	if s.ctl.WaitEvent(60*time.Second, func(ev *h.SendEv) bool { return ev.Name == "send.beforeLock" && ev.I >= n0 }) == nil {
		e.blocked(s.name + ": Close() did not get to send its request")
		return
	}
	s.p.reply(s.p.opnRequests()[0])
	select {
	case <-r1:
	case <-time.After(60 * time.Second):
		e.blocked(s.name + ": renewal did not return")
		return
	}
	select {
	case <-cd:
	case <-time.After(60 * time.Second):
		e.blocked(s.name + ": Close() did not return")
		return
	}
	s.p.waitWire(3, 60*time.Second)
	evs := s.ctl.Events()
	uasc.VerifSetHook(nil)
	e.r.Hit("scenario:forced-close-during-renewal")
	wire, answered := s.p.snapshot()
	v := h.CheckWireT(wire, nil, nil, answered, initTok)
	var ws []string
	for _, c := range wire {
		ws = append(ws, c.String())
	}
	detail := strings.Join(ws, " | ")
	switch {
	case v.OK:
		e.r.Notes = append(e.r.Notes, s.name+": wire consecutive: "+detail)
	case v.Explained:
		for _, sig := range v.Sigs {
			e.r.Fail(s.name, sig, v.Detail+"; wire: "+detail)
		}
		e.r.Hit("close-during-renewal:stale-number")
	default:
		e.r.Fail(s.name, "", v.Detail+"; wire: "+detail)
	}
	ren := map[int64]int{}
	var ls []string
	for _, ev := range evs {
		if ev.Arg(0) != gate {
			continue
		}
		switch ev.Name {
		case "cl.lock":
			if _, ok := ren[ev.G]; !ok {
				ren[ev.G] = len(ren)
			}
			ls = append(ls, fmt.Sprintf("rLock%d", ren[ev.G]))
		case "cl.unlock":
			if i, ok := ren[ev.G]; ok {
				ls = append(ls, fmt.Sprintf("rUnlock%d", i))
			} else {
				ls = append(ls, "close")
			}
		case "cl.pass":
			if _, ok := ren[ev.G]; !ok {
				ls = append(ls, "pass0")
			}
		}
	}
	q := "gt " + strings.Join(ls, " ")
	e.r.Count(q, true)
	e.r.Sample(s.name + ": " + q + " ;; wire: " + detail)
	if e.d != nil {
		a := e.d.Ask(q)
		if a == "reject" || a == "bad-op" {
			e.r.Disagree(q, a, "gate operations of the implementation")
		} else {
			e.r.TracesValidated++
			if strings.HasSuffix(a, "badPass=0") != v.OK {
				e.r.Disagree(q+" (requests passing during a renewal)", a, fmt.Sprintf("wire ok=%v", v.OK))
			}
		}
	}
}

// secureClient: the random client scenario in Sign or SignAndEncrypt mode (Basic256Sha256, committed test keys)
// against a REAL server channel: the client's events are replayed through the LTS as usual; the wire is what the
// server channel's readChunk verified and decrypted (verifPoint recv.chunk). After a renewal the server has
// re-keyed its one instance, so a chunk of a stale sender (finding C11.stale-counter-after-renewal) fails its
// security check there; that is only tolerated for traces outside the guard.
func (e *env) secureClient(seed uint64, idx int, mode ua.MessageSecurityMode) {
	rnd := h.NewRand(seed*15485863 + uint64(idx))
	name := fmt.Sprintf("secure-client %d %d mode=%d", seed, idx, mode)
	a, err1 := h.LoadKey(e.o.Keys, 2048, "a")
	b, err2 := h.LoadKey(e.o.Keys, 2048, "b")
	if err1 != nil || err2 != nil {
		e.r.Notes = append(e.r.Notes, fmt.Sprintf("%s: keys not available (%v %v)", name, err1, err2))
		return
	}
	cli, srv, cleanup, err := h.SendLoopbackSize(8192)
	if err != nil {
		e.r.InfraError = "loopback: " + err.Error()
		return
	}
	defer cleanup()
	uri := ua.SecurityPolicyURIBasic256Sha256
	ccfg := &uasc.Config{SecurityPolicyURI: uri, SecurityMode: mode, Certificate: a.CertDER, LocalKey: a.Key,
		RemoteCertificate: b.CertDER, Thumbprint: uapolicy.Thumbprint(b.CertDER), Lifetime: 3600000, RequestTimeout: 30 * time.Second, RequestIDSeed: 100}
	scfg := &uasc.Config{SecurityPolicyURI: uri, SecurityMode: mode, Certificate: b.CertDER, LocalKey: b.Key,
		RemoteCertificate: a.CertDER, Thumbprint: uapolicy.Thumbprint(a.CertDER), Lifetime: 3600000, RequestTimeout: 30 * time.Second}
	nC, nS := rnd.Bytes(32), rnd.Bytes(32)
	base := uint32(rnd.Intn(1 << 20))
	csc, err := uasc.VerifOpenChannel(cli, ccfg, false, chanID, initTok, base, nC, nS, make(chan error, 64))
	if err != nil {
		e.r.InfraError = name + ": client channel: " + err.Error()
		return
	}
	ssc, err := uasc.VerifOpenServerChannel(srv, scfg, chanID, initTok, 5000, nS, nC, make(chan error, 64))
	if err != nil {
		e.r.InfraError = name + ": server channel: " + err.Error()
		return
	}
	ctl := h.NewSendCtl()
	uasc.VerifSetHook(ctl.Hook)
	defer func() { uasc.VerifSetHook(nil); ctl.ReleaseAll() }()
	csc.VerifStartDispatcher()
	sctx, scancel := context.WithCancel(context.Background())
	defer scancel()
	var srvG int64 = -1
	var secFail atomic.Int64
	srvDone := make(chan struct{})
	go func() { // the server's receive loop
		defer close(srvDone)
		srvG = h.GoID()
		for {
			msg := ssc.Receive(sctx)
			if msg.Err != nil {
				if strings.Contains(msg.Err.Error(), "SecurityChecksFailed") {
					secFail.Add(1)
					continue
				}
				return
			}
		}
	}()
	nSenders := 2 + rnd.Intn(3)
	per := 1 + rnd.Intn(3)
	nRenew := rnd.Intn(2)
	var wg sync.WaitGroup
	var errs atomic.Int64
	var panicked atomic.Value
	for k := 0; k < nSenders; k++ {
		wg.Add(1)
		chunks := make([]int, per)
		for i := range chunks {
			chunks[i] = 1 + rnd.Intn(3)*rnd.Intn(2)
		}
		go func(k int) {
			defer wg.Done()
			for _, c := range chunks {
				if err := csc.SendRequestWithTimeout(context.Background(), bigReq(c, byte(k)), nil, 30*time.Second, nil); err != nil {
					errs.Add(1)
				}
			}
		}(k)
	}
	wg.Add(1)
	go func() {
		defer wg.Done()
		for i := 0; i < nRenew; i++ {
			if err := renewRecover(csc, &panicked); err != nil {
				errs.Add(1)
			}
		}
	}()
	done := make(chan struct{})
	go func() { wg.Wait(); close(done) }()
	select {
	case <-done:
	case <-time.After(90 * time.Second):
		e.blocked(name + ": senders did not finish")
		return
	}
	// wait until the server has read everything that was written
	want := 0
	for _, ev := range ctl.Events() {
		if ev.Name == "send.chunk" {
			want++
		}
	}
	got := func() int {
		n := int(secFail.Load())
		for _, ev := range ctl.Events() {
			if ev.Name == "recv.chunk" && ev.G == srvG {
				n++
			}
		}
		return n
	}
	for dl := time.Now().Add(30 * time.Second); got() < want && time.Now().Before(dl); {
		time.Sleep(2 * time.Millisecond)
	}
	evs := ctl.Events()
	uasc.VerifSetHook(nil)
	cli.Close()
	<-srvDone
	if panicked.Load() != nil {
		e.r.Hit("scenario:renew-panicked")
		return
	}
	if errs.Load() > 0 {
		e.r.InfraError = fmt.Sprintf("%s: %d calls failed", name, errs.Load())
		return
	}
	e.r.Hit(fmt.Sprintf("scenario:secure-mode-%d", mode))
	// the wire as the server verified it
	var wire []h.PeerChunk
	issued := map[uint32]uint32{}
	for _, ev := range evs {
		if ev.Name != "recv.chunk" || ev.G != srvG {
			continue
		}
		m, ok := ev.Arg(0).(*uasc.MessageChunk)
		if !ok || m == nil {
			continue
		}
		c := h.PeerChunk{Type: m.MessageType, ChunkType: m.ChunkType, Seq: m.SequenceHeader.SequenceNumber, ReqID: m.SequenceHeader.RequestID}
		if m.SymmetricSecurityHeader != nil {
			c.TokenID = m.SymmetricSecurityHeader.TokenID
		}
		if c.Type == "OPN" {
			issued[c.ReqID] = initTok // the gopcua server answers every renewal with the same token id
		}
		wire = append(wire, c)
	}
	var cevs []h.SendEv // the client's own events
	for _, ev := range evs {
		if ev.G != srvG {
			cevs = append(cevs, ev)
		}
	}
	labels, burned, truncated, _ := h.SeqLabelsT(cevs, csc.VerifReqLocker())
	e.r.Count(name+" "+strings.Join(labels, ";"), len(wire) >= 2)
	for _, l := range labels {
		e.r.Hit("label:" + strings.Fields(l)[0])
	}
	// oracle on what the server accepted: consecutive numbers (the token id never changes on this server, so the
	// stale classification by token does not apply: a stale chunk does not get this far, it is counted in secFail)
	v := h.CheckWireT(wire, burned, truncated, map[uint32]uint32{}, initTok)
	inGuard := true
	if e.d != nil {
		e.d.Ask(fmt.Sprintf("reset %d %d", base, initTok))
		for i, l := range labels {
			if l == "rLock" && e.d.Ask("guard rLock") != "in" {
				inGuard = false
			}
			if a := e.d.Ask("lts " + l); a != "ok" {
				e.r.Disagree(name, fmt.Sprintf("%s at step %d `%s` of %s", a, i, l, strings.Join(labels, ";")), "step taken by the implementation")
				return
			}
		}
		e.r.TracesValidated++
	}
	if inGuard {
		e.r.Hit("secure:guard-inside")
		if secFail.Load() > 0 {
			e.r.Fail(name, "", fmt.Sprintf("%d chunk(s) failed the server's security check although no sender overlapped a renewal", secFail.Load()))
		}
		if !v.OK {
			e.r.Fail(name, "", "inside the guard: "+v.Detail)
		}
	} else {
		e.r.Hit("secure:guard-outside")
		if secFail.Load() > 0 || !v.OK {
			e.r.Fail(name, "C11.stale-counter-after-renewal", fmt.Sprintf("%d chunk(s) of a stale sender rejected by the re-keyed server; %s", secFail.Load(), v.Detail))
		}
	}
}

// forcedGated: a request is issued while a renewal is waiting for its (held) OPN response. It has to wait at the
// gate and must only then pick the channel instance to send with — so everything on the wire is consecutively
// numbered. (Unlike the stale-counter finding the request starts AFTER the renewal closed the gate: no offence
// here is attributable to that finding.)
func (e *env) forcedGated() {
	s := e.open("forced-request-during-held-renewal", 600, 60*time.Second, false, func(*h.PeerChunk) bool { return false })
	if s == nil {
		return
	}
	defer s.stop()
	gate := s.sc.VerifReqLocker()
	s.sc.SendRequestWithTimeout(context.Background(), small(1), nil, 60*time.Second, nil)
	var panicked atomic.Value
	r1 := make(chan error, 1)
	go func() { r1 <- renewRecover(s.sc, &panicked) }()
	for dl := time.Now().Add(60 * time.Second); len(s.p.opnRequests()) < 1; {
		if time.Now().After(dl) {
			e.blocked(s.name + ": OPN request not seen")
			return
		}
		time.Sleep(time.Millisecond)
	}
	n0 := len(s.ctl.Events())
	sd := make(chan error, 1)
	go func() {
		sd <- s.sc.SendRequestWithTimeout(context.Background(), bigReq(2, 2), nil, 60*time.Second, nil)
	}()
	if s.ctl.WaitEvent(60*time.Second, func(ev *h.SendEv) bool { return ev.Name == "cl.block" && ev.Arg(0) == gate && ev.I >= n0 }) == nil {
		e.blocked(s.name + ": the request did not wait at the gate although a renewal is in progress")
		return
	}
	s.p.reply(s.p.opnRequests()[0])
	select {
	case err := <-r1:
		if err != nil {
			e.blocked(s.name + ": renewal failed: " + err.Error())
			return
		}
	case <-time.After(60 * time.Second):
		e.blocked(s.name + ": renewal did not return")
		return
	}
	select {
	case err := <-sd:
		if err != nil {
			e.blocked(s.name + ": the request issued during the renewal failed: " + err.Error())
			return
		}
	case <-time.After(60 * time.Second):
		e.blocked(s.name + ": the request issued during the renewal did not return")
		return
	}
	s.sc.SendRequestWithTimeout(context.Background(), small(3), nil, 60*time.Second, nil)
	s.p.waitWire(5, 60*time.Second)
	evs := s.ctl.Events()
	uasc.VerifSetHook(nil)
	e.r.Hit("scenario:forced-request-during-held-renewal")
	wire, answered := s.p.snapshot()
	var ws []string
	for _, c := range wire {
		ws = append(ws, c.String())
	}
	if d := h.CheckWireT(wire, nil, nil, answered, initTok); !d.OK {
		e.r.Fail(s.name, "", d.Detail+"; wire: "+strings.Join(ws, " | "))
	} else {
		e.r.Hit("gated-request:wire-consecutive")
	}
	// model
	labels, _, _, _ := h.SeqLabelsT(evs, gate)
	e.r.Count(s.name+" "+strings.Join(labels, ";"), true)
	e.r.Sample(s.name + ": " + strings.Join(ws, " | "))
	if e.d != nil {
		e.d.Ask(fmt.Sprintf("reset %d %d", s.base, initTok))
		for i, l := range labels {
			if a := e.d.Ask("lts " + l); a != "ok" {
				e.r.Disagree(s.name, fmt.Sprintf("%s at step %d `%s` of %s", a, i, l, strings.Join(labels, ";")), "step taken by the implementation")
				return
			}
		}
		e.r.TracesValidated++
		if a := e.d.Ask("linked"); a != "true" {
			e.r.Disagree(s.name+" linked", a, "true")
		}
	}
}

// forcedAbortMid: the context of a three-chunk request ends after its second chunk: the message stays
// unfinished, the numbers drawn so far are all on the wire and the next message continues them.
func (e *env) forcedAbortMid() {
	s := e.open("forced-abort-mid-message", 700, 60*time.Second, false, nil)
	if s == nil {
		return
	}
	defer s.stop()
	s.sc.SendRequestWithTimeout(context.Background(), small(1), nil, 60*time.Second, nil)
	hold := s.ctl.BlockAt(func(ev *h.SendEv) bool { return ev.Name == "send.chunk" && ev.Int(2) == 1 })
	ctx, cancel := context.WithCancel(context.Background())
	defer cancel()
	done := make(chan error, 1)
	go func() { done <- s.sc.SendRequestWithTimeout(ctx, bigReq(3, 2), nil, 60*time.Second, nil) }()
	if hold.WaitReached(60*time.Second) == nil {
		e.blocked(s.name + ": sender did not reach its second chunk")
		return
	}
	cancel()
	hold.Release()
	select {
	case err := <-done:
		if err == nil {
			e.r.Notes = append(e.r.Notes, s.name+": the request was sent completely although its context ended")
		}
	case <-time.After(60 * time.Second):
		e.blocked(s.name + ": sender did not return")
		return
	}
	s.sc.SendRequestWithTimeout(context.Background(), small(3), nil, 60*time.Second, nil)
	s.p.waitWire(4, 60*time.Second)
	evs := s.ctl.Events()
	uasc.VerifSetHook(nil)
	e.r.Hit("scenario:forced-abort-mid-message")
	e.finish(s, evs)
}

func (e *env) corpus() {
	// model-only traces: `trace <base> <tok>|<label>;…|<expected wire>|<expected linked>`
	for _, line := range e.o.CorpusLines() {
		if !strings.HasPrefix(line, "trace ") || e.d == nil {
			continue
		}
		parts := strings.Split(strings.TrimPrefix(line, "trace "), "|")
		if len(parts) != 4 {
			continue
		}
		e.d.Ask("reset " + strings.TrimSpace(parts[0]))
		res := "ok"
		query := ""
		for _, l := range strings.Split(parts[1], ";") {
			l = strings.TrimSpace(l)
			if strings.HasPrefix(l, "?") {
				query = strings.TrimPrefix(l, "?")
				break
			}
			if a := e.d.Ask("lts " + l); a != "ok" {
				res = a
				break
			}
		}
		got := res
		if query != "" {
			got = e.d.Ask(query)
		} else if res == "ok" {
			got = e.d.Ask("wire") + "|" + e.d.Ask("linked")
		}
		want := strings.TrimSpace(parts[2]) + "|" + strings.TrimSpace(parts[3])
		if strings.TrimSpace(parts[3]) == "" {
			want = strings.TrimSpace(parts[2])
		}
		e.r.Count(line, true)
		e.r.Hit("corpus")
		if got != want {
			e.r.Disagree(line, got, want)
		}
	}
}

// blocked records that the implementation did not get to a point it has to reach (or did something it must
// not do) within the generous time allowed: the scenario is the failing input. Only trouble that says nothing
// about the library (sockets, keys, the driver, a machine too slow for a timing verdict) is reported as infra.
func (e *env) blocked(what string) {
	e.r.Fail(what, "", "the implementation did not complete this step (it blocks, or the step got lost): "+what)
}

// hasNew: an unclassified oracle failure or a model disagreement has been recorded — the verdict of the run is
// settled, the remaining (real-time) scenarios are skipped so that the failing input is reported quickly.
func (e *env) hasNew() bool {
	// (a model disagreement alone does not stop the run: the later scenarios may still produce the concrete failing input)
	for _, f := range e.r.OracleFailures {
		if f.Sig == "" {
			return true
		}
	}
	return false
}

func main() {
	o := h.ParseOpts()
	r := h.NewResult("C11", o)
	d, err := h.StartDriver(o.Driver)
	if err != nil {
		r.InfraError = err.Error()
		r.Write(o.Out)
		return
	}
	defer d.Close()
	e := &env{o, r, d}
	r.Rule = "case = one channel scenario: (a) 2–6 concurrent request senders (1–3 chunk messages, 8 KiB chunks) racing with 0–2 Renew calls on a real client channel, (b) 2–6 concurrent response senders on a real server channel, (c) three forced interleavings (sender held between gate and pendingReq.Add across a renewal; unanswered OPN; request whose context ends between numbering and writing, plus one whose context is done beforehand); the recorded verifPoint events are replayed through the Lean LTS, the model's wire must equal the chunks the peer received, the oracle (number = next of predecessor, messages contiguous) runs on the received chunks; non-trivial = at least two chunks; distinct by label sequence."
	e.corpus()
	if o.Replay != "" {
		var seed uint64
		var idx int
		switch {
		case strings.HasPrefix(o.Replay, "forced-stale"):
			e.forcedStale()
		case strings.HasPrefix(o.Replay, "forced-failed"):
			e.forcedFailedRenewal()
		case strings.HasPrefix(o.Replay, "forced-close"):
			e.forcedClose()
		case strings.HasPrefix(o.Replay, "forced-request-during"):
			e.forcedGated()
		case strings.HasPrefix(o.Replay, "forced-overlapping"):
			e.forcedOverlap()
		case strings.HasPrefix(o.Replay, "forced-abort-mid"):
			e.forcedAbortMid()
		case strings.HasPrefix(o.Replay, "forced-aborted"):
			e.forcedAbort()
		default:
			if _, err := fmt.Sscanf(o.Replay, "random-client %d %d", &seed, &idx); err == nil {
				e.randomClient(seed, idx)
			} else if _, err := fmt.Sscanf(o.Replay, "server-fixed %d %d", &seed, &idx); err == nil {
				e.serverFixed(seed, idx)
			}
		}
		r.Write(o.Out)
		return
	}
	e.forcedStale()
	if r.InfraError == "" && !e.hasNew() {
		e.forcedFailedRenewal()
	}
	if r.InfraError == "" && !e.hasNew() {
		e.forcedAbort()
	}
	if r.InfraError == "" && !e.hasNew() {
		e.forcedAbortMid()
	}
	if r.InfraError == "" && !e.hasNew() {
		e.forcedGated()
	}
	if r.InfraError == "" && !e.hasNew() {
		e.forcedOverlap()
	}
	if r.InfraError == "" && !e.hasNew() {
		e.forcedClose()
	}
	t0 := time.Now()
	n := o.N(120, 3000)
	for i := 0; i < n && r.InfraError == "" && !e.hasNew(); i++ {
		if i%3 == 2 {
			e.serverFixed(o.Seed, i)
		} else {
			e.randomClient(o.Seed, i)
		}
		if !o.Thorough() && time.Since(t0) > 50*time.Second {
			r.Notes = append(r.Notes, fmt.Sprintf("stopped after %d scenarios (time budget)", i+1))
			break
		}
	}
	// non-None modes: the same client scenario against a real server channel
	nSec := o.N(4, 120)
	for i := 0; i < nSec && r.InfraError == "" && !e.hasNew(); i++ {
		mode := ua.MessageSecurityModeSign
		if i%2 == 1 {
			mode = ua.MessageSecurityModeSignAndEncrypt
		}
		e.secureClient(o.Seed, i, mode)
	}
	for _, b := range []string{"scenario:secure-mode-2", "scenario:secure-mode-3", "label:spawn", "label:gate", "label:getActive", "label:pendAdd", "label:respGetActive", "label:lockInst", "label:newMsg", "label:write",
		"label:abort", "label:unlockInst", "label:pendDone", "label:rLock", "label:rWaitBegin", "label:rWaitDone", "label:rLockOld", "label:rCopy", "label:rSendOPN",
		"label:rInstall", "label:rFail", "label:rUnlockOld", "label:rUnlock", "guard:inside", "guard:outside", "multi-chunk-message", "counter-near-wrap", "message-abandoned-mid-way", "precancelled-send-draws-no-number", "scenario:forced-overlapping-renewals", "close-during-renewal:stale-number", "gated-request:wire-consecutive"} {
		if r.Distribution[b] == 0 {
			r.Unreached = append(r.Unreached, b)
		}
	}
	// an infrastructure problem that comes with a model disagreement or an unclassified oracle failure is a
	// result of the run, not a reason to discard it
	if r.InfraError != "" {
		bad := len(r.Disagreements) > 0
		for _, f := range r.OracleFailures {
			bad = bad || f.Sig == ""
		}
		if bad {
			r.Notes = append(r.Notes, "not reported as infra: "+r.InfraError)
			r.InfraError = ""
		}
	}
	r.Write(o.Out)
}
