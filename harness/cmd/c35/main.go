// Correspondence runner and property oracle for C35: service requests with
// chosen authentication tokens (missing, unknown, closed, not yet activated,
// valid, valid on another channel) over raw secure channels (the real uasc
// client channel, no client session layer) against a server running in a
// child process; response class and change of the server's tables are
// compared with the Lean model of the dispatch (Model/SrvHandlers.lean).
//
// Oracle, on the implementation alone: a non-exempt request whose token does
// not name a created, activated, not closed session must be answered with a
// session error and must leave the server's tables and the test variable
// unchanged; exempt services must work without a session; a valid session
// must be served.
package main

import (
	"fmt"
	"strings"
	"sync"
	"time"

	"github.com/gopcua/opcua/ua"

	"verifharness/internal/h"
	"verifharness/internal/srvx"
)

var allKinds = []string{"missing", "unknown", "unknownstr", "aliasns", "aliasstr", "sessionid", "closedsid", "closed", "notactivated", "valid", "validB"}

// requests that cannot hit a dereference whatever the token is
func safeRequests(v int32) []struct {
	m string
	r ua.Request
} {
	return []struct {
		m string
		r ua.Request
	}{
		{"findservers", &ua.FindServersRequest{}},
		{"getendpoints", &ua.GetEndpointsRequest{EndpointURL: "opc.tcp://localhost:0"}},
		{"read", srvx.ReadReq(srvx.TestVar(), ua.AttributeIDValue)},
		{fmt.Sprintf("write %d", v), srvx.WriteValueReq(srvx.TestVar(), v)},
		{"browse plain 1", srvx.BrowseReq(srvx.TestFolder(), ua.NewNumericNodeID(0, 0), true, ua.BrowseDirectionBoth)},
		{"publish", srvx.PublishReq()},
		{"delsubs 71,72", srvx.DeleteSubsReq(71, 72)},
		{"delsubs -", srvx.DeleteSubsReq()},
		{"createitems 71 1", srvx.CreateItemsReq(71, 1, srvx.TestVar())},
		{"setmode -", srvx.SetModeReq(71)},
		{"delitems -", srvx.DeleteItemsReq(71)},
	}
}

// the matrix episode: every service family x every token kind, no request that can dereference
func epMatrix(e *srvx.Episode) {
	e.Cast()
	v := int32(10)
	for _, kind := range allKinds {
		for _, q := range safeRequests(v) {
			e.Do(kind, q.m, q.r, "")
			v++
		}
		// session services with this token
		if kind == "notactivated" {
			// activating turns the session into a valid one: use a throw-away session for this step
			tmp, save := e.NewSession("missing", false, false), e.NotAct
			e.NotAct = tmp
			e.Do(kind, "activate 0 1", srvx.ActivateSessionReq(nil, ""), "")
			e.NotAct = save
		} else {
			e.Do(kind, "activate 0 1", srvx.ActivateSessionReq(nil, ""), "")
		}
		e.NewSession(kind, false, false)
		// CreateSubscription; a subscription without owner is removed behind the services' back afterwards
		res := e.Do(kind, "createsub huge", srvx.CreateSubReq(3600000, 100000, 100000), "")
		if cr, ok := res.Resp.(*ua.CreateSubscriptionResponse); ok {
			if kind == "valid" || kind == "validB" || kind == "notactivated" {
				e.Do(kind, fmt.Sprintf("delsubs %d", cr.SubscriptionID), srvx.DeleteSubsReq(cr.SubscriptionID), "")
			} else {
				e.Child.DeleteSub(cr.SubscriptionID)
				srvx.WaitUntil(3*time.Second, func() bool {
					_, st := e.State()
					if st == nil {
						return true
					}
					for _, u := range st.Subs {
						if u.ID == cr.SubscriptionID {
							return false
						}
					}
					return true
				})
			}
		}
	}
	// the stub services: all of them without a session, a seeded few with the other kinds
	names := srvx.StubNames()
	for _, n := range names {
		e.Do("missing", "other "+n, srvx.StubRequest(n), "")
	}
	for _, kind := range allKinds[1:] {
		for i := 0; i < 3; i++ {
			n := names[e.Rnd.Intn(len(names))]
			e.Do(kind, "other "+n, srvx.StubRequest(n), "")
		}
	}
	// closing: unknown token (answered Good, nothing happens), then a not activated session
	e.Do("unknown", "close", &ua.CloseSessionRequest{}, "")
	e.Do("missing", "close", &ua.CloseSessionRequest{}, "")
	// monitored items and ownership with valid sessions
	res := e.Do("valid", "createsub huge", srvx.CreateSubReq(3600000, 100000, 100000), "")
	if cr, ok := res.Resp.(*ua.CreateSubscriptionResponse); ok {
		id := cr.SubscriptionID
		r2 := e.Do("valid", fmt.Sprintf("createitems %d 2", id), srvx.CreateItemsReq(id, 2, srvx.TestVar()), "")
		e.Do("valid2", fmt.Sprintf("createitems %d 1", id), srvx.CreateItemsReq(id, 1, srvx.TestVar()), "other session's subscription")
		e.Do("validB", fmt.Sprintf("createitems %d 0", id), srvx.CreateItemsReq(id, 0, srvx.TestVar()), "")
		if ir, ok := r2.Resp.(*ua.CreateMonitoredItemsResponse); ok && len(ir.Results) == 2 {
			a, b := ir.Results[0].MonitoredItemID, ir.Results[1].MonitoredItemID
			e.Do("valid", fmt.Sprintf("setmode %d,%d", a, b), srvx.SetModeReq(id, a, b), "")
			e.Do("valid2", fmt.Sprintf("setmode %d", a), srvx.SetModeReq(id, a), "other session's item")
			e.Do("valid", fmt.Sprintf("delitems %d", a), srvx.DeleteItemsReq(id, a), "")
		}
		// the other session names a subscription of ITS OWN together with the victim's item ids
		if r3 := e.Do("valid2", "createsub huge", srvx.CreateSubReq(3600000, 100000, 100000), ""); r3.Resp != nil {
			if own, ok := r3.Resp.(*ua.CreateSubscriptionResponse); ok {
				if ir, ok := r2.Resp.(*ua.CreateMonitoredItemsResponse); ok && len(ir.Results) == 2 {
					b := ir.Results[1].MonitoredItemID
					e.Do("valid2", fmt.Sprintf("delitems %d", b), srvx.DeleteItemsReq(own.SubscriptionID, b), "other session's item, own subscription id")
					e.Do("valid2", fmt.Sprintf("setmode %d", b), srvx.SetModeReq(own.SubscriptionID, b), "other session's item, own subscription id")
				}
				e.Do("valid2", fmt.Sprintf("delsubs %d", own.SubscriptionID), srvx.DeleteSubsReq(own.SubscriptionID), "")
			}
		}
		e.Do("valid2", fmt.Sprintf("delsubs %d,71", id), srvx.DeleteSubsReq(id, 71), "other session's subscription")
		e.Do("valid", fmt.Sprintf("delsubs %d", id), srvx.DeleteSubsReq(id), "")
	}
	// a session that is closed and whose token is used again at once, with no request of another
	// session in between (a lookup cache would still know it)
	{
		tmp := e.NewSession("missing", true, false)
		saveV, saveC := e.Valid, e.Closed
		e.Valid = tmp
		e.Do("valid", "publish", srvx.PublishReq(), "most recently used session")
		res := e.Do("valid", "createsub huge", srvx.CreateSubReq(3600000, 100000, 100000), "")
		e.Do("valid", "close", &ua.CloseSessionRequest{}, "")
		e.Valid, e.Closed = saveV, tmp
		e.Do("closed", "publish", srvx.PublishReq(), "token of the session closed by the previous request")
		e.Do("closed", "read", srvx.ReadReq(srvx.TestVar(), ua.AttributeIDValue), "token of the session closed two requests ago")
		if cr, ok := res.Resp.(*ua.CreateSubscriptionResponse); ok {
			// the closed session's own subscription: its token must not delete it any more
			e.Do("closed", fmt.Sprintf("delsubs %d", cr.SubscriptionID), srvx.DeleteSubsReq(cr.SubscriptionID), "closed session deletes its own subscription")
			e.Do("closed", fmt.Sprintf("createitems %d 1", cr.SubscriptionID), srvx.CreateItemsReq(cr.SubscriptionID, 1, srvx.TestVar()), "closed session adds items to its own subscription")
			e.Child.DeleteSub(cr.SubscriptionID)
			srvx.WaitUntil(3*time.Second, func() bool {
				_, st := e.State()
				if st == nil {
					return true
				}
				for _, u := range st.Subs {
					if u.ID == cr.SubscriptionID {
						return false
					}
				}
				return true
			})
		}
		e.Closed = saveC
	}
	// seeded random tail
	for i := 0; i < e.O.N(40, 400); i++ {
		kind := allKinds[e.Rnd.Intn(len(allKinds))]
		qs := safeRequests(int32(1000 + i))
		q := qs[e.Rnd.Intn(len(qs))]
		if q.m == "publish" && (kind == "valid" || kind == "validB" || kind == "notactivated") && !e.Rnd.Chance(15) {
			continue // each of these costs a timeout
		}
		e.Do(kind, q.m, q.r, "random")
	}
}

// existing-id episodes: a subscription with an item owned by a valid session, then one request
// without a valid session that names it (these used to dereference the nil session and kill the server)
func epCrash(which string) func(e *srvx.Episode) {
	return func(e *srvx.Episode) {
		e.Cast()
		res := e.Do("valid", "createsub huge", srvx.CreateSubReq(3600000, 100000, 100000), "")
		cr, ok := res.Resp.(*ua.CreateSubscriptionResponse)
		if !ok {
			return
		}
		id := cr.SubscriptionID
		r2 := e.Do("valid", fmt.Sprintf("createitems %d 1", id), srvx.CreateItemsReq(id, 1, srvx.TestVar()), "")
		ir, ok := r2.Resp.(*ua.CreateMonitoredItemsResponse)
		if !ok || len(ir.Results) != 1 {
			return
		}
		item := ir.Results[0].MonitoredItemID
		switch which {
		case "delsubs":
			e.Do("missing", fmt.Sprintf("delsubs %d", id), srvx.DeleteSubsReq(id), "existing subscription, no session")
		case "createitems":
			e.Do("unknown", fmt.Sprintf("createitems %d 1", id), srvx.CreateItemsReq(id, 1, srvx.TestVar()), "existing subscription, unknown token")
		case "setmode":
			e.Do("closed", fmt.Sprintf("setmode %d", item), srvx.SetModeReq(id, item), "existing item, closed session")
		case "delitems":
			e.Do("notactivated", fmt.Sprintf("delitems %d", item), srvx.DeleteItemsReq(id, item), "existing item, session never activated")
		}
	}
}

// the signed-channel episode: channel A is Basic256Sha256 / Sign (or SignAndEncrypt), sessions carry the
// client certificate and are activated with a real client signature; channel B stays None
func epSigned(e *srvx.Episode) {
	e.Cast()
	v := int32(500)
	for _, kind := range allKinds {
		for _, q := range safeRequests(v) {
			if q.m == "publish" && (kind == "valid" || kind == "validB" || kind == "notactivated") && kind != "valid" {
				continue // one queued publish (kind valid) is enough: each costs a timeout
			}
			e.Do(kind, q.m, q.r, "signed channel")
			v++
		}
		res := e.Do(kind, "createsub huge", srvx.CreateSubReq(3600000, 100000, 100000), "signed channel")
		if cr, ok := res.Resp.(*ua.CreateSubscriptionResponse); ok {
			e.Do(kind, fmt.Sprintf("delsubs %d", cr.SubscriptionID), srvx.DeleteSubsReq(cr.SubscriptionID), "")
		}
		e.Do(kind, "other CallRequest", srvx.StubRequest("CallRequest"), "signed channel")
	}
	// activation: a wrong client signature is refused and leaves the session as it was; the right one
	// activates it; a token without session is refused before any signature is looked at
	tmp := e.NewSession("missing", false, false)
	if tmp.Tok != nil {
		e.Activate(tmp, false)
		saveN := e.NotAct
		e.NotAct = tmp
		e.Do("notactivated", "read", srvx.ReadReq(srvx.TestVar(), ua.AttributeIDValue), "session whose activation was refused")
		e.Do("notactivated", "write 777", srvx.WriteValueReq(srvx.TestVar(), 777), "session whose activation was refused")
		e.NotAct = saveN
		e.Activate(tmp, true)
	}
	e.Do("unknown", "activate 1 0", srvx.ActivateSessionReq([]byte{1, 2, 3}, "x"), "")
	e.Do("closed", "activate 1 0", srvx.ActivateSessionReq([]byte{1, 2, 3}, "x"), "")
}

func classify(kind, fam string) string {
	if kind == "notactivated" {
		return "C35.not-activated-session-accepted"
	}
	return "C35." + fam + "-without-session"
}

var failCount = map[string]int{}

func evaluate(r *h.Result, d *h.Driver, e *srvx.Episode) {
	if e.Infra != "" {
		r.InfraError = e.Name + ": " + e.Infra
	}
	for _, x := range e.Recs {
		cs := fmt.Sprintf("ep=%s step=%d kind=%s req=%s", x.Ep, x.N, x.Kind, strings.ReplaceAll(x.Req, " ", "_"))
		line := fmt.Sprintf("step %s | %d | %s", x.Pre, x.Tok, x.Req)
		r.Count(x.Kind+" "+line, true)
		r.Compare(d, line, x.Out+" | "+x.Post)
		oc := strings.Fields(x.Out)[0]
		r.Hit("kind:" + x.Kind)
		r.Hit("req:" + strings.Fields(x.Req)[0])
		r.Hit("out:" + oc)
		if r.Evaluations%61 == 0 {
			r.Sample(cs + " -> " + x.Out)
		}
		valid := x.Kind == "valid" || x.Kind == "validB" || x.Kind == "valid2"
		changed := x.Pre != x.Post
		switch {
		case x.Exempt:
			// discovery and session creation work without a session; ActivateSession needs a created session
			switch strings.Fields(x.Req)[0] {
			case "findservers", "getendpoints", "createsession":
				if oc != "ok" {
					r.Fail(cs, "", "exempt service not answered: "+x.Out)
				}
			case "activate":
				created := valid || x.Kind == "notactivated"
				if created && x.Req == "activate 1 0" {
					// a wrong client signature on a signed channel must be refused and change nothing
					if oc != "fault" || changed {
						r.Fail(cs, "", "ActivateSession with a wrong client signature: "+x.Out)
					}
					r.Hit("activation-refused-bad-signature")
					continue
				}
				if !created && (oc != "sessionerr" || changed) {
					r.Fail(cs, "", "ActivateSession for a token without session: "+x.Out)
				}
				if created && oc != "ok" {
					r.Fail(cs, "", "ActivateSession of a created session refused: "+x.Out)
				}
			}
		case valid:
			if oc == "sessionerr" {
				r.Fail(cs, "", "request of an activated session refused: "+x.Out)
			}
			if strings.Contains(x.Note, "other session") {
				// a foreign (though valid) token for this object: no action may be performed
				if changed || strings.Contains(x.Out, "Good") {
					r.Fail(cs, "", fmt.Sprintf("%s by a session that does not own the object: answered %s, state %s -> %s", x.Req, x.Out, x.Pre, x.Post))
				}
				r.Hit("foreign-refused")
			}
			r.Hit("served-valid")
		default:
			// ---- the property: session error and no action
			if oc == "sessionerr" && !changed {
				r.Hit("refused:" + x.Family)
				continue
			}
			sig := classify(x.Kind, x.Family)
			what := "answered " + x.Out
			if changed {
				what += fmt.Sprintf(" and changed the server state (%s -> %s)", x.Pre, x.Post)
			}
			detail := fmt.Sprintf("%s with token kind %s: %s %s", x.Req, x.Kind, what, x.Note)
			if failCount[sig] < 3 { // h.Result keeps 50 failures: leave room for unlisted signatures
				failCount[sig]++
				r.Fail(cs, sig, detail)
			}
			r.Confirm(sig, detail)
			r.Hit("violation:" + sig)
			r.Compare(d, fmt.Sprintf("class35 %s | %d | %s", x.Pre, x.Tok, x.Req), sig)
		}
	}
}

func main() {
	srvx.MaybeChild()
	o := h.ParseOpts()
	srvx.Quiet()
	r := h.NewResult("C35", o)
	d, err := h.StartDriver(o.Driver)
	if err != nil {
		r.InfraError = err.Error()
		r.Write(o.Out)
		return
	}
	defer d.Close()
	rnd := h.NewRand(o.Seed)
	r.Rule = "case = (server state, token kind, request): server in a child process, two raw secure channels (None); token kinds missing / unknown numeric / unknown string / closed / created-not-activated / valid / valid on the other channel; requests of every implemented service (ids chosen so that no nil session is dereferenced in the matrix episode), all 23 stub services, session services; plus four episodes ending in a request that dereferences the nil session (server crash observed); response class and the server's session / subscription / item tables and test value before and after are compared with the Lean step function; distinct by (state, token, request)"

	type epdef struct {
		name string
		run  func(*srvx.Episode)
	}
	eps := []epdef{{"matrix", epMatrix}, {"signed", epSigned}, {"crash-delsubs", epCrash("delsubs")}, {"crash-createitems", epCrash("createitems")},
		{"crash-setmode", epCrash("setmode")}, {"crash-delitems", epCrash("delitems")}}
	if o.Replay != "" {
		var keep []epdef
		for _, e := range eps {
			if strings.Contains(o.Replay, "ep="+e.name+" ") || strings.HasSuffix(o.Replay, "ep="+e.name) {
				keep = append(keep, e)
			}
		}
		eps = keep
	}
	out := make([]*srvx.Episode, len(eps))
	var wg sync.WaitGroup
	for i, def := range eps {
		e := srvx.NewEpisode(def.name, o, rnd.Fork(), srvx.ChildSpec{})
		if def.name == "signed" {
			ka, err1 := h.LoadKey(o.Keys, 2048, "a")
			kb, err2 := h.LoadKey(o.Keys, 2048, "b")
			if err1 != nil || err2 != nil {
				r.InfraError = fmt.Sprint("keys: ", err1, err2)
				r.Write(o.Out)
				return
			}
			e.SecPolicy, e.SecMode = ua.SecurityPolicyURIBasic256Sha256, ua.MessageSecurityModeSign
			if o.Seed%2 == 0 || o.Thorough() {
				e.SecMode = ua.MessageSecurityModeSignAndEncrypt
			}
			e.Client, e.ServerCertDER = &srvx.Identity{Key: kb.Key, Cert: kb.CertDER}, ka.CertDER
		}
		out[i] = e
		wg.Add(1)
		go func(e *srvx.Episode, run func(*srvx.Episode)) {
			defer wg.Done()
			defer e.Finish()
			if e.Setup() {
				run(e)
			}
		}(e, def.run)
	}
	wg.Wait()
	for _, e := range out {
		evaluate(r, d, e)
	}
	for _, b := range []string{"out:ok", "out:sessionerr", "out:fault", "out:noresponse", "served-valid", "refused:publish",
		"refused:subscription", "refused:monitoreditems", "activation-refused-bad-signature", "foreign-refused", "kind:sessionid", "kind:closedsid",
		"violation:C35.read-without-session", "violation:C35.write-without-session", "violation:C35.browse-without-session",
		"violation:C35.unsupported-without-session", "violation:C35.not-activated-session-accepted"} {
		if r.Distribution[b] == 0 && o.Replay == "" {
			r.Unreached = append(r.Unreached, b)
		}
	}
	r.Notes = append(r.Notes, "all requests travel over SecurityPolicy None channels; CreateSession / ActivateSession signature paths on signed channels are exercised by C29 and C22")
	r.Write(o.Out)
}
