package main

import (
	"context"
	"fmt"
	"time"

	"github.com/gopcua/opcua/ua"

	"verifharness/internal/h"
	"verifharness/internal/srvx"
)

func main() {
	srvx.MaybeChild()
	o := h.ParseOpts()
	srvx.Quiet()
	t0 := time.Now()
	c, err := srvx.StartChild(srvx.ChildSpec{Keys: o.Keys})
	if err != nil {
		panic(err)
	}
	defer c.Kill()
	fmt.Println("child ready", time.Since(t0), c.URL)
	ctx := context.Background()
	ch, err := srvx.OpenStd(ctx, c.URL, ua.SecurityPolicyURINone, ua.MessageSecurityModeNone, nil, nil, 3*time.Second)
	if err != nil {
		panic(err)
	}
	show := func(what string, r srvx.Result) {
		st, err := c.State()
		fmt.Printf("%-40s -> %-40s state=%+v err=%v\n", what, r.String(), st, err)
	}
	to := 2 * time.Second
	var nilTok *ua.NodeID
	show("read no token", ch.Do(srvx.ReadReq(srvx.TestVar(), ua.AttributeIDValue), nilTok, to))
	show("write no token", ch.Do(srvx.WriteValueReq(srvx.TestVar(), 7), nilTok, to))
	show("browse no token", ch.Do(srvx.BrowseReq(srvx.TestFolder(), ua.NewNumericNodeID(0, 0), true, ua.BrowseDirectionBoth), nilTok, to))
	show("publish no token", ch.Do(srvx.PublishReq(), nilTok, 500*time.Millisecond))
	show("publish unknown", ch.Do(srvx.PublishReq(), ua.NewNumericNodeID(0, 12345), 500*time.Millisecond))
	show("activate unknown", ch.Do(srvx.ActivateSessionReq(nil, ""), ua.NewNumericNodeID(0, 12345), to))
	show("close unknown", ch.Do(&ua.CloseSessionRequest{}, ua.NewNumericNodeID(0, 12345), to))
	r := ch.Do(srvx.CreateSessionReq(c.URL, nil), nilTok, to)
	show("createsession", r)
	fmt.Println(c.Stderr())
	tok := r.Resp.(*ua.CreateSessionResponse).AuthenticationToken
	fmt.Println("token", tok)
	show("publish notactivated", ch.Do(srvx.PublishReq(), tok, 500*time.Millisecond))
	show("activate", ch.Do(srvx.ActivateSessionReq(nil, ""), tok, to))
	show("createsub no token huge", ch.Do(srvx.CreateSubReq(3600000, 1000, 100), nilTok, to))
	show("createsub tok huge", ch.Do(srvx.CreateSubReq(3600000, 1000, 100), tok, to))
	show("delsubs unknown no token", ch.Do(srvx.DeleteSubsReq(77, 78), nilTok, to))
	show("createitems unknown sub", ch.Do(srvx.CreateItemsReq(77, 1, srvx.TestVar()), nilTok, to))
	show("createitems sub2 tok", ch.Do(srvx.CreateItemsReq(2, 2, srvx.TestVar()), tok, to))
	show("setmode [] no token", ch.Do(srvx.SetModeReq(2), nilTok, to))
	show("delitems [] no token", ch.Do(srvx.DeleteItemsReq(2), nilTok, to))
	show("setmode [1] tok", ch.Do(srvx.SetModeReq(2, 1), tok, to))
	show("delitems [1] tok", ch.Do(srvx.DeleteItemsReq(2, 1), tok, to))
	time.Sleep(100 * time.Millisecond)
	show("delsubs [2] tok", ch.Do(srvx.DeleteSubsReq(2), tok, to))
	time.Sleep(100 * time.Millisecond)
	for _, n := range srvx.StubNames() {
		show(n, ch.Do(srvx.StubRequest(n), nilTok, to))
	}
	show("close tok", ch.Do(&ua.CloseSessionRequest{}, tok, to))
	show("read closed tok", ch.Do(srvx.ReadReq(srvx.TestVar(), ua.AttributeIDValue), tok, to))
	show("findservers", ch.Do(&ua.FindServersRequest{}, nilTok, to))
	show("getendpoints", ch.Do(&ua.GetEndpointsRequest{EndpointURL: "opc.tcp://localhost:0"}, nilTok, to))
	d, err := srvx.Canary(c.URL, 3*time.Second)
	fmt.Println("canary", d, err)
	// crash: delete sub 1 (nil owner) without token
	show("delsubs [1] no token", ch.Do(srvx.DeleteSubsReq(1), nilTok, to))
	fmt.Println("exited", c.WaitExit(3*time.Second))
	fmt.Println(c.CrashSite())
	d, err = srvx.Canary(c.URL, 1*time.Second)
	fmt.Println("canary", d, err)
}
