// Correspondence runner and property oracle for C22 (a session is established
// only after the server proves its identity).
//
// One case = (policy, mode, server behaviour).  For every case a CHILD process
// (re-exec of this binary) starts a scripted server (internal/sscript: real
// uacp + uasc on the server side, genuine secure channel for the policy and
// mode) whose CreateSession / ActivateSession / Read answers follow the
// behaviour, runs the real `opcua.Client.Connect` against it and prints
//
//	<ok|err|panic> <state,state,…> <activateSent>
//
// A panic in any goroutine kills the child; the parent classifies it from the
// exit status and stderr.  The parent compares the line with the Lean model
// (`Session.connect` evaluated with the code facts generated from the tree) and
// evaluates the property's own oracle on the implementation alone.
package main

import (
	"bufio"
	"bytes"
	"context"
	"crypto/ecdsa"
	"crypto/elliptic"
	"crypto/rand"
	"crypto/x509"
	"crypto/x509/pkix"
	"fmt"
	"io"
	"log"
	"math/big"
	"os"
	"os/exec"
	"sort"
	"strings"
	"sync"
	"sync/atomic"
	"time"

	"github.com/gopcua/opcua"
	"github.com/gopcua/opcua/id"
	"github.com/gopcua/opcua/ua"
	"github.com/gopcua/opcua/uapolicy"
	"github.com/gopcua/opcua/uasc"

	"verifharness/internal/h"
	"verifharness/internal/sscript"
)

const (
	sigNil    = "C22.nil-session-after-bad-signature"
	sigNonRsa = "C22.non-rsa-server-cert"
)

type kase struct {
	policy                                                  string // short name
	mode                                                    int    // 1 none 2 sign 3 signAndEncrypt
	create, cert, sigKey, sigData, mangle, activate, nsRead string
	nsStrings                                               int
}

func (k kase) String() string {
	return fmt.Sprintf("%s %d %s %s %s %s %s %s %s %d", k.policy, k.mode, k.create, k.cert, k.sigKey, k.sigData, k.mangle, k.activate, k.nsRead, k.nsStrings)
}

// a policy written "R:<policy>" marks a reconnect case: the client is connected to a genuine server, the
// connection is dropped, the session restore is refused and the behaviour applies to the CreateSession of the
// monitor's recreateSession action
func (k kase) reconnect() bool { return strings.HasPrefix(k.policy, "R:") }
func (k kase) pol() string     { return strings.TrimPrefix(k.policy, "R:") }

func (k kase) modelReq() string {
	if k.reconnect() {
		return fmt.Sprintf("recreate %d %s %s %s %s %s %s %s %d", k.mode, k.create, k.cert, k.sigKey, k.sigData, k.mangle, k.activate, k.nsRead, k.nsStrings)
	}
	return fmt.Sprintf("connect %d %s %s %s %s %s %s %s %d", k.mode, k.create, k.cert, k.sigKey, k.sigData, k.mangle, k.activate, k.nsRead, k.nsStrings)
}

func parseKase(s string) (kase, error) {
	var k kase
	_, err := fmt.Sscanf(s, "%s %d %s %s %s %s %s %s %s %d", &k.policy, &k.mode, &k.create, &k.cert, &k.sigKey, &k.sigData, &k.mangle, &k.activate, &k.nsRead, &k.nsStrings)
	return k, err
}

// sigValid: the signature was made with the private key of the certificate in
// the response, over (client certificate ‖ client nonce), and not mangled.
// This is by construction of the scripted server, not a model judgement.
func (k kase) sigValid() bool {
	// a chain is identified by its FIRST certificate
	keyOfCert := map[string]string{"own": "own", "otherRsa": "other", "chainOwnOther": "own", "chainOtherOwn": "other"}[k.cert]
	return keyOfCert != "" && keyOfCert == k.sigKey && k.sigData == "right" && k.mangle == "intact"
}

var (
	resps    = []string{"ok", "badStatus", "fault", "wrongType"}
	certs    = []string{"own", "otherRsa", "wrongSize", "unparsable", "empty", "nonRsa", "chainOwnOther", "chainOtherOwn"}
	sigKeys  = []string{"own", "other"}
	sigDatas = []string{"right", "wrongNonce", "wrongCert"}
	mangles  = []string{"intact", "bitFlipped", "truncated", "empty"}
)

// ------------------------------------------------------------------ child

func oldPolicy(p string) bool { return p == "Basic128Rsa15" || p == "Basic256" }

func ecCert() []byte {
	key, err := ecdsa.GenerateKey(elliptic.P256(), rand.Reader)
	if err != nil {
		panic(err)
	}
	tpl := &x509.Certificate{SerialNumber: big.NewInt(7), Subject: pkix.Name{CommonName: "verif-ec"},
		NotBefore: time.Now().Add(-time.Hour), NotAfter: time.Now().Add(24 * time.Hour)}
	der, err := x509.CreateCertificate(rand.Reader, tpl, tpl, &key.PublicKey, key)
	if err != nil {
		panic(err)
	}
	return der
}

// child reads cases from stdin (one per line) and answers each with one line
//
//	<index> <ok|err|panic> <states> <activateSent> | <panic text>
//
// A panic in the goroutine of Connect is recovered and reported; a panic in
// any other goroutine kills this process and the parent sees which case had
// no answer.
// leafCert makes a self-signed NON-CA certificate for the key pair (the committed test certificates are CA:TRUE).
func leafCert(kp *h.KeyPair) []byte {
	tpl := &x509.Certificate{SerialNumber: big.NewInt(99), Subject: pkix.Name{CommonName: "verif-foreign-leaf"},
		NotBefore: time.Now().Add(-time.Hour), NotAfter: time.Now().Add(24 * time.Hour),
		KeyUsage: x509.KeyUsageDigitalSignature, BasicConstraintsValid: true, IsCA: false}
	der, err := x509.CreateCertificate(rand.Reader, tpl, tpl, &kp.Key.PublicKey, kp.Key)
	if err != nil {
		panic(err)
	}
	return der
}

func child(keys string) {
	log.SetOutput(io.Discard) // the client logs the verification error; keep stderr for panics
	in := bufio.NewScanner(os.Stdin)
	out := bufio.NewWriter(os.Stdout)
	for in.Scan() {
		f := strings.SplitN(in.Text(), " ", 3)
		if len(f) != 3 {
			continue
		}
		k, err := parseKase(f[2])
		if err != nil {
			fmt.Println("infra bad case:", err)
			os.Exit(4)
		}
		seed := uint64(0)
		fmt.Sscan(f[1], &seed)
		line, msg := one(k, keys, seed)
		fmt.Fprintf(out, "%s %s | %s\n", f[0], line, msg)
		out.Flush()
	}
}

var keyCache = map[string]*h.KeyPair{}

func one(k kase, keys string, seed uint64) (line, panicMsg string) {
	load := func(bits int, who string) *h.KeyPair {
		id := fmt.Sprint(bits, who)
		if kp := keyCache[id]; kp != nil {
			return kp
		}
		kp, err := h.LoadKey(keys, bits, who)
		if err != nil {
			fmt.Println("infra key:", err)
			os.Exit(4)
		}
		keyCache[id] = kp
		return kp
	}
	srvK := load(2048, "a")
	othK := load(2048, "b")
	var cliK, badSize *h.KeyPair
	if oldPolicy(k.pol()) {
		cliK, badSize = load(1024, "a"), load(4096, "b")
	} else {
		cliK, badSize = load(3072, "a"), load(1024, "b")
	}
	uri := ua.FormatSecurityPolicyURI(k.pol())
	var phase, actN, createN atomic.Int32
	mode := ua.MessageSecurityMode(k.mode)
	rnd := h.NewRand(seed)

	respOf := func(kind string, req ua.Request, good func(hdr *ua.ResponseHeader) ua.Response, other ua.Response) ua.Response {
		switch kind {
		case "ok":
			return good(sscript.Header(req, ua.StatusOK))
		case "badStatus":
			return good(sscript.Header(req, ua.StatusBadInternalError))
		case "fault":
			return sscript.Fault(req, ua.StatusBadSecurityChecksFailed)
		default: // wrongType
			return other
		}
	}

	script := func(s *sscript.Server, sc *uasc.SecureChannel, r ua.Request) ua.Response {
		switch req := r.(type) {
		case *ua.CreateSessionRequest:
			if k.reconnect() {
				if phase.Load() == 0 {
					return nil // the first connection is to a genuine server
				}
				createN.Add(1)
			}
			var cert []byte
			switch k.cert {
			case "own":
				cert = srvK.CertDER
			case "otherRsa":
				cert = othK.CertDER
			case "wrongSize":
				cert = badSize.CertDER
			case "unparsable":
				cert = append([]byte{0x30, 0x82, 0x01, 0x00}, rnd.Bytes(200)...)
			case "empty":
				cert = nil
			case "nonRsa":
				cert = ecCert()
			case "chainOwnOther":
				// the genuine certificate followed by a foreign end-entity (non-CA) certificate for the other key
				cert = append(append([]byte{}, srvK.CertDER...), leafCert(othK)...)
			case "chainOtherOwn":
				cert = append(leafCert(othK), srvK.CertDER...)
			}
			signKey := srvK.Key
			if k.sigKey == "other" {
				signKey = othK.Key
			}
			var data []byte
			switch k.sigData {
			case "right":
				data = append(append([]byte{}, req.ClientCertificate...), req.ClientNonce...)
			case "wrongNonce":
				n := append([]byte{}, req.ClientNonce...)
				if len(n) == 0 {
					n = []byte{0}
				}
				n[rnd.Intn(len(n))] ^= 0x01
				data = append(append([]byte{}, req.ClientCertificate...), n...)
			case "wrongCert":
				data = append(append([]byte{}, srvK.CertDER...), req.ClientNonce...)
			}
			var sig []byte
			alg := ""
			if uri == ua.SecurityPolicyURINone {
				sig = rnd.Bytes(256) // no signature algorithm in policy None: any bytes
			} else {
				enc, err := uapolicy.Asymmetric(uri, signKey, &cliK.Key.PublicKey)
				if err != nil {
					fmt.Println("infra asymmetric:", err)
					os.Exit(4)
				}
				sig, err = enc.Signature(data)
				if err != nil {
					fmt.Println("infra sign:", err)
					os.Exit(4)
				}
				alg = enc.SignatureURI()
			}
			switch k.mangle {
			case "bitFlipped":
				sig[rnd.Intn(len(sig))] ^= 1 << uint(rnd.Intn(8))
			case "truncated":
				sig = sig[:len(sig)-1]
			case "empty":
				sig = nil
			}
			return respOf(k.create, r, func(hdr *ua.ResponseHeader) ua.Response {
				return &ua.CreateSessionResponse{
					ResponseHeader:        hdr,
					SessionID:             ua.NewNumericNodeID(1, 4711),
					AuthenticationToken:   ua.NewNumericNodeID(1, 4712),
					RevisedSessionTimeout: 60000,
					ServerNonce:           rnd.Bytes(32),
					ServerCertificate:     cert,
					ServerSignature:       &ua.SignatureData{Algorithm: alg, Signature: sig},
					ServerEndpoints:       []*ua.EndpointDescription{},
				}
			}, &ua.ActivateSessionResponse{ResponseHeader: sscript.Header(r, ua.StatusOK)})
		case *ua.ActivateSessionRequest:
			if k.reconnect() {
				if phase.Load() == 0 {
					return nil
				}
				if actN.Add(1) == 1 {
					// the session restore on the new channel is refused: the client must recreate the session
					return sscript.Fault(r, ua.StatusBadSessionIDInvalid)
				}
			}
			return respOf(k.activate, r, func(hdr *ua.ResponseHeader) ua.Response {
				return &ua.ActivateSessionResponse{ResponseHeader: hdr, ServerNonce: rnd.Bytes(32)}
			}, &ua.ReadResponse{ResponseHeader: sscript.Header(r, ua.StatusOK)})
		case *ua.ReadRequest:
			if len(req.NodesToRead) == 1 && req.NodesToRead[0].NodeID.IntID() == id.Server_NamespaceArray {
				return respOf(k.nsRead, r, func(hdr *ua.ResponseHeader) ua.Response {
					v := ua.MustVariant([]string{"http://opcfoundation.org/UA/", "urn:verif"})
					if k.nsStrings == 0 {
						v = ua.MustVariant(int32(7))
					}
					return &ua.ReadResponse{ResponseHeader: hdr, Results: []*ua.DataValue{{EncodingMask: ua.DataValueValue, Value: v}}}
				}, &ua.BrowseResponse{ResponseHeader: sscript.Header(r, ua.StatusOK)})
			}
		}
		return nil
	}

	srv, err := sscript.Start(srvK.CertDER, srvK.Key, script)
	if err != nil {
		fmt.Println("infra listen:", err)
		os.Exit(4)
	}
	defer srv.Close()

	var mu sync.Mutex
	var states []string
	opts := []opcua.Option{
		opcua.SecurityPolicy(k.pol()),
		opcua.SecurityMode(mode),
		opcua.AutoReconnect(k.reconnect()),
		opcua.ReconnectInterval(20 * time.Millisecond),
		opcua.RequestTimeout(30 * time.Second),
		opcua.DialTimeout(30 * time.Second),
		opcua.StateChangedFunc(func(s opcua.ConnState) {
			mu.Lock()
			states = append(states, s.String())
			mu.Unlock()
		}),
	}
	if uri != ua.SecurityPolicyURINone {
		opts = append(opts, opcua.Certificate(cliK.CertDER), opcua.PrivateKey(cliK.Key), opcua.RemoteCertificate(srvK.CertDER))
	}
	c, err := opcua.NewClient(srv.URL(), opts...)
	if err != nil {
		fmt.Println("infra newclient:", err)
		os.Exit(4)
	}
	report := func(out string) string {
		time.Sleep(20 * time.Millisecond) // let the monitor goroutine emit its final Closed
		mu.Lock()
		var st []string
		for _, s := range states { // stuttering is not observable in the model: collapse repeats
			if len(st) == 0 || st[len(st)-1] != s {
				st = append(st, s)
			}
		}
		mu.Unlock()
		// After Connected the monitor goroutine runs concurrently with Connect: on a
		// Bad reply to the namespace Read it may report Disconnected before Close
		// reports Closed.  That interleaving is C25's subject; here only the states
		// up to the first Connected and the final one are compared.
		for i, s := range st {
			if s == "Connected" && i+1 < len(st) {
				st = append(st[:i+1], st[len(st)-1])
				break
			}
		}
		act := 0
		for _, r := range srv.Seen() {
			if r == "ActivateSession" {
				act = 1
			}
		}
		return fmt.Sprintf("%s %s %d", out, strings.Join(st, ","), act)
	}
	defer func() {
		if e := recover(); e != nil {
			line, panicMsg = report("panic"), strings.ReplaceAll(fmt.Sprint(e), "\n", " ")
		}
	}()
	ctx, cancel := context.WithTimeout(context.Background(), 120*time.Second)
	defer cancel()
	err = c.Connect(ctx)
	if err != nil {
		sawCreate := false
		for _, r := range srv.Seen() {
			if r == "CreateSession" {
				sawCreate = true
			}
		}
		if !sawCreate {
			// Dial / OpenSecureChannel did not get through (machine overloaded): not a case outcome
			return "dialfail", strings.ReplaceAll(err.Error(), "\n", " ")
		}
		return report("err"), strings.ReplaceAll(err.Error(), "\n", " ")
	}
	if c.State() != opcua.Connected {
		return report("ok-but-state-" + c.State().String()), ""
	}
	if k.reconnect() {
		// phase 1: drop the connection; the monitor reconnects, the restore is refused, recreateSession runs
		mu.Lock()
		n0 := len(states)
		mu.Unlock()
		phase.Store(1)
		srv.DropAll()
		outcome := "retry"
		deadline := time.Now().Add(20 * time.Second)
		for time.Now().Before(deadline) {
			mu.Lock()
			again := false
			for _, s := range states[n0:] {
				if s == "Connected" {
					again = true
				}
			}
			mu.Unlock()
			if again {
				outcome = "session"
				break
			}
			if createN.Load() >= 3 { // the action was retried twice more without a session: it does not get through
				break
			}
			time.Sleep(5 * time.Millisecond)
		}
		if outcome == "retry" && createN.Load() == 0 {
			return "dialfail", "the reconnect never reached CreateSession"
		}
		act := 0
		if actN.Load() > 1 { // more than the refused restore
			act = 1
		}
		line = fmt.Sprintf("%s %d", outcome, act)
		go c.Close(context.Background())
		return line, ""
	}
	line = report("ok")
	c.Close(ctx)
	return line, ""
}

// ------------------------------------------------------------------ parent

type outcome struct {
	line   string // canonical line, or "panic ? ?" for a panic outside Connect's goroutine
	stderr string // panic text
	infra  string
}

// runBatch runs cases[idx...] in child processes; a child that dies is
// replaced and the case it was working on is recorded as a panic.
func runBatch(cases []kase, idx []int, outs []outcome, keys string, seed uint64) {
	pos := 0
	restarts := 0
	for pos < len(idx) {
		cmd := exec.Command(os.Args[0])
		cmd.Env = append(os.Environ(), "VERIF_C22_CHILD=1", "VERIF_C22_KEYS="+keys, "GOTRACEBACK=single")
		var se bytes.Buffer
		cmd.Stderr = &se
		stdin, _ := cmd.StdinPipe()
		stdout, _ := cmd.StdoutPipe()
		if err := cmd.Start(); err != nil {
			outs[idx[pos]].infra = err.Error()
			return
		}
		go func(from int) {
			for _, i := range idx[from:] {
				fmt.Fprintf(stdin, "%d %d %s\n", i, seed*1000003+uint64(i), cases[i].String())
			}
			stdin.Close()
		}(pos)
		rd := bufio.NewScanner(stdout)
		rd.Buffer(make([]byte, 1<<20), 1<<20)
		timer := time.AfterFunc(time.Duration(120+10*len(idx))*time.Second, func() { cmd.Process.Kill() })
		for rd.Scan() {
			l := rd.Text()
			if strings.HasPrefix(l, "infra") {
				outs[idx[pos]].infra = l
				cmd.Process.Kill()
				cmd.Wait()
				timer.Stop()
				return
			}
			var i int
			if _, err := fmt.Sscan(l, &i); err != nil || pos >= len(idx) || i != idx[pos] {
				continue
			}
			rest := strings.SplitN(l, " ", 2)[1]
			parts := strings.SplitN(rest, " | ", 2)
			outs[i].line = strings.TrimSpace(parts[0])
			if len(parts) == 2 {
				outs[i].stderr = parts[1]
			}
			pos++
		}
		cmd.Wait()
		timer.Stop()
		if pos < len(idx) {
			// the child died while working on idx[pos]
			if strings.Contains(se.String(), "panic:") || strings.Contains(se.String(), "fatal error:") {
				if f := os.Getenv("VERIF_C22_STACKS"); f != "" {
					if fh, err := os.OpenFile(f, os.O_APPEND|os.O_CREATE|os.O_WRONLY, 0o644); err == nil {
						fmt.Fprintf(fh, "=== %s\n%s\n", cases[idx[pos]].String(), se.String())
						fh.Close()
					}
				}
				// keep the panic line and the first frame of the stack: the panic may come from a goroutine
				// a previous case of this child left behind (e.g. a Close running concurrently)
				where := ""
				for _, l := range strings.Split(se.String(), "\n") {
					if strings.Contains(l, ".go:") {
						where = " at " + strings.TrimSpace(l)
						break
					}
				}
				outs[idx[pos]] = outcome{line: "panic ? ?", stderr: firstLine(se.String()) + where}
				pos++
				continue
			}
			restarts++
			if restarts > 2 {
				outs[idx[pos]].infra = "child died without a panic: " + tail(se.String())
				return
			}
		}
	}
}

func tail(s string) string {
	if len(s) > 600 {
		return s[len(s)-600:]
	}
	return s
}

func main() {
	if os.Getenv("VERIF_C22_CHILD") != "" {
		child(os.Getenv("VERIF_C22_KEYS"))
		return
	}
	o := h.ParseOpts()
	r := h.NewResult("C22", o)
	d, err := h.StartDriver(o.Driver)
	if err != nil {
		r.InfraError = err.Error()
		r.Write(o.Out)
		return
	}
	defer d.Close()
	rnd := h.NewRand(o.Seed)
	r.Rule = "case = (policy, mode, CreateSession answer kind, certificate class, signing key, signed data, mangling, ActivateSession answer kind, namespace Read answer kind, namespace value type); real Client.Connect in a child process against a scripted server over the genuine secure channel vs Lean Session.connect; all 5 signed policies x {Sign, SignAndEncrypt} + None/None; per configuration: every single-factor variation of the genuine behaviour, every (certificate, key, data, mangling) signature combination in quick tier for one policy and in thorough tier for all, plus seeded random combinations; distinct by the whole tuple"
	if d != nil {
		r.Notes = append(r.Notes, "code facts read from the tree (verifyErrReturned rsaAssertChecked nilSessionChecked): "+d.Ask("facts"))
	}

	type cfg struct {
		policy string
		mode   int
	}
	var cfgs []cfg
	for _, uri := range uapolicy.SupportedPolicies() {
		p := uri[strings.LastIndex(uri, "#")+1:]
		if p == "None" {
			cfgs = append(cfgs, cfg{p, 1})
			continue
		}
		cfgs = append(cfgs, cfg{p, 2}, cfg{p, 3})
	}
	sort.Slice(cfgs, func(i, j int) bool {
		return cfgs[i].policy+fmt.Sprint(cfgs[i].mode) < cfgs[j].policy+fmt.Sprint(cfgs[j].mode)
	})

	genuine := func(c cfg) kase {
		return kase{c.policy, c.mode, "ok", "own", "own", "right", "intact", "ok", "ok", 1}
	}
	seen := map[string]bool{}
	var cases []kase
	add := func(k kase) {
		if !seen[k.String()] {
			seen[k.String()] = true
			cases = append(cases, k)
		}
	}
	if o.Replay != "" {
		k, err := parseKase(o.Replay)
		if err != nil {
			r.InfraError = "bad replay case: " + err.Error()
			r.Write(o.Out)
			return
		}
		add(k)
	} else {
		for _, l := range o.CorpusLines() {
			if k, err := parseKase(l); err == nil {
				add(k)
			}
		}
		fullFor := cfgs[rnd.Intn(len(cfgs)-1)] // one signed configuration gets the full signature product in quick tier
		if fullFor.mode == 1 {
			fullFor = cfgs[0]
		}
		for _, c := range cfgs {
			g := genuine(c)
			add(g)
			for _, x := range resps[1:] {
				k := g
				k.create = x
				add(k)
				k = g
				k.activate = x
				add(k)
				k = g
				k.nsRead = x
				add(k)
			}
			k := g
			k.nsStrings = 0
			add(k)
			for _, x := range certs[1:] {
				k := g
				k.cert = x
				add(k)
				k.create = "badStatus"
				add(k)
			}
			k = g
			k.sigKey = "other"
			add(k)
			k.cert = "otherRsa" // valid under the other certificate
			add(k)
			for _, ch := range []string{"chainOwnOther", "chainOtherOwn"} {
				for _, sk := range sigKeys {
					k := g
					k.cert, k.sigKey = ch, sk
					add(k)
				}
			}
			for _, x := range sigDatas[1:] {
				k := g
				k.sigData = x
				add(k)
			}
			for _, x := range mangles[1:] {
				k := g
				k.mangle = x
				add(k)
			}
			if o.Thorough() || c == fullFor {
				for _, ce := range certs {
					for _, sk := range sigKeys {
						for _, sd := range sigDatas {
							for _, mg := range mangles {
								k := g
								k.cert, k.sigKey, k.sigData, k.mangle = ce, sk, sd, mg
								add(k)
							}
						}
					}
				}
			}
			for i := 0; i < o.N(6, 60); i++ {
				k := kase{c.policy, c.mode, resps[rnd.Intn(4)], certs[rnd.Intn(6)], sigKeys[rnd.Intn(2)], sigDatas[rnd.Intn(3)],
					mangles[rnd.Intn(4)], resps[rnd.Intn(4)], resps[rnd.Intn(4)], rnd.Intn(2)}
				k.cert = certs[rnd.Intn(len(certs))]
				if rnd.Chance(60) {
					k.create = "ok"
				}
				add(k)
			}
		}
	}

	// reconnect cases: the monitor's recreateSession against every signature defect (two configurations)
	if o.Replay == "" {
		for _, c := range []cfg{{"R:Basic256Sha256", 2}, {"R:Aes256_Sha256_RsaPss", 3}, {"R:Basic128Rsa15", 3}} {
			if !o.Thorough() && c.policy == "R:Basic128Rsa15" {
				continue
			}
			g := genuine(c)
			add(g)
			for _, x := range mangles[1:] {
				k := g
				k.mangle = x
				add(k)
			}
			k := g
			k.sigKey = "other"
			add(k)
			k = g
			k.sigData = "wrongNonce"
			add(k)
			k = g
			k.cert = "unparsable"
			add(k)
			k = g
			k.cert = "nonRsa"
			add(k)
			k = g
			k.cert, k.sigKey = "chainOwnOther", "other" // the attack of the foreign key behind the genuine certificate
			add(k)
			k = g
			k.create = "fault"
			add(k)
			k = g
			k.activate = "fault"
			add(k)
		}
	}

	// run the cases in 8 child processes (round-robin); results are consumed in case order
	outs := make([]outcome, len(cases))
	const workers = 8
	var wg sync.WaitGroup
	for w := 0; w < workers; w++ {
		var idx []int
		for i := w; i < len(cases); i += workers {
			idx = append(idx, i)
		}
		if len(idx) == 0 {
			continue
		}
		wg.Add(1)
		go func(idx []int) {
			defer wg.Done()
			runBatch(cases, idx, outs, o.Keys, o.Seed)
		}(idx)
	}
	wg.Wait()
	// a case whose Dial did not get through is retried (alone) up to three times
	for i := range cases {
		for try := 0; try < 3 && outs[i].infra == "" && outs[i].line == "dialfail"; try++ {
			r.Hit("retry:dialfail")
			runBatch(cases, []int{i}, outs, o.Keys, o.Seed+uint64(try)+1)
		}
		if outs[i].line == "dialfail" {
			outs[i].infra = "Dial to the scripted server failed 4 times for " + cases[i].String() + ": " + outs[i].stderr
		}
	}

	for i, k := range cases {
		out := outs[i]
		if out.infra != "" {
			r.InfraError = out.infra
			r.Write(o.Out)
			return
		}
		c := k.String()
		r.Count(c, true)
		f := strings.Fields(out.line)
		res := "?"
		if len(f) > 0 {
			res = f[0]
		}
		modeName := map[int]string{1: "None", 2: "Sign", 3: "SignAndEncrypt"}[k.mode]
		r.Hit("policy:" + k.policy)
		r.Hit("mode:" + modeName)
		r.Hit("create:" + k.create)
		r.Hit("cert:" + k.cert)
		r.Hit("sig:" + k.sigKey + "/" + k.sigData + "/" + k.mangle)
		r.Hit("outcome:" + res)
		if k.sigValid() {
			r.Hit("signature:valid")
		} else {
			r.Hit("signature:invalid")
		}
		r.Sample(fmt.Sprintf("%s -> %s", c, out.line))
		r.Compare(d, k.modelReq(), out.line)
		if k.reconnect() {
			// ---- oracle for the reconnect path: no session, no activation, no panic without a valid signature
			r.Hit("reconnect")
			switch {
			case res == "panic":
				r.Fail(c, "", "the client panicked while re-creating the session: "+firstLine(out.stderr))
			case !k.sigValid() && res == "session":
				r.Fail(c, "", "reconnect: the client reports Connected again although the server signature does not verify")
			case !k.sigValid() && len(f) > 1 && f[1] == "1":
				r.Fail(c, "", "reconnect: ActivateSessionRequest sent although the server signature does not verify")
			case k.sigValid() && k.create == "ok" && k.activate == "ok" && res != "session":
				r.Fail(c, "", "reconnect: a genuine server did not get its session back: "+out.line)
			}
			continue
		}

		// ---- the property's own oracle, on the implementation alone
		signed := k.mode != 1
		states := ""
		act := ""
		if len(f) == 3 {
			states, act = f[1], f[2]
		}
		if res == "panic" {
			sig := ""
			switch {
			case signed && !k.sigValid() && k.create == "ok" && k.cert != "nonRsa" &&
				strings.Contains(out.stderr, "nil pointer dereference"):
				sig = sigNil
			case signed && k.cert == "nonRsa" && (k.create == "ok" || k.create == "badStatus") &&
				strings.Contains(out.stderr, "interface conversion") && strings.Contains(out.stderr, "rsa.PublicKey"):
				sig = sigNonRsa
			}
			r.Fail(c, sig, "Connect panicked: "+firstLine(out.stderr))
			if sig != "" {
				r.Confirm(sig, c+" -> "+firstLine(out.stderr))
			}
			continue
		}
		if signed && !k.sigValid() {
			if res != "err" {
				r.Fail(c, "", "Connect returned "+res+" although the server signature does not verify")
			}
			if strings.Contains(states, "Connected") {
				r.Fail(c, "", "client reported Connected although the server signature does not verify: "+states)
			}
			if act == "1" {
				r.Fail(c, "", "ActivateSessionRequest sent although the server signature does not verify")
			}
			if !strings.HasSuffix(states, "Closed") {
				r.Fail(c, "", "client not Closed after the rejected session: "+states)
			}
		}
		if k.sigValid() && k.create == "ok" && k.activate == "ok" && k.nsRead == "ok" && k.nsStrings == 1 {
			if res != "ok" || !strings.HasSuffix(states, "Connected") {
				r.Fail(c, "", "a genuine server was not connected: "+out.line+" "+firstLine(out.stderr))
			}
		}
		if strings.HasPrefix(res, "ok-but") {
			r.Fail(c, "", "Connect returned nil but the state is not Connected: "+out.line)
		}
	}
	for _, b := range []string{"outcome:ok", "outcome:err", "mode:None", "mode:Sign", "mode:SignAndEncrypt"} {
		if r.Distribution[b] == 0 && o.Replay == "" {
			r.Unreached = append(r.Unreached, b)
		}
	}
	r.Write(o.Out)
}

func firstLine(s string) string {
	for _, l := range strings.Split(s, "\n") {
		if strings.Contains(l, "panic") {
			return strings.TrimSpace(l)
		}
	}
	if i := strings.IndexByte(s, '\n'); i >= 0 {
		return s[:i]
	}
	return s
}
