// Correspondence runner and property oracle for C06: a real gopcua client
// (uacp.Dialer.Dial → Conn.Handshake, uasc.NewSecureChannel, Open) and a real
// gopcua server end (uacp.Listen/Accept → srvhandshake,
// uasc.NewServerSecureChannel, Receive) talk over loopback TCP through a
// recording proxy that only notes the type and size of every frame in each
// direction.  After the HEL/ACK exchange and a None-mode OpenSecureChannel a
// message with a body of chosen size travels in one direction; recorded are
// both sides' negotiated limits, the chunks on the wire, what the sender
// returned and what the receiver made of it.  The Lean model (`Limits`) is
// asked the same question.
package main

import (
	"context"
	"encoding/binary"
	"fmt"
	"io"
	"net"
	"strconv"
	"strings"
	"sync"
	"time"

	"github.com/gopcua/opcua/ua"
	"github.com/gopcua/opcua/uacp"
	"github.com/gopcua/opcua/uapolicy"
	"github.com/gopcua/opcua/uasc"

	"verifharness/internal/h"
)

// per-step timeout; the thorough tier moves messages of several MiB on a machine shared with other checks
var stepTimeout = 15 * time.Second

type ack4 struct{ rcv, snd, maxMsg, maxChunks uint32 }

func (a ack4) String() string { return fmt.Sprintf("%d %d %d %d", a.rcv, a.snd, a.maxMsg, a.maxChunks) }
func (a ack4) ack() *uacp.Acknowledge {
	return &uacp.Acknowledge{ReceiveBufSize: a.rcv, SendBufSize: a.snd, MaxMessageSize: a.maxMsg, MaxChunkCount: a.maxChunks}
}
func ofConn(c *uacp.Conn) ack4 {
	return ack4{c.ReceiveBufSize(), c.SendBufSize(), c.MaxMessageSize(), c.MaxChunkCount()}
}

// ------------------------------------------------------------ recording proxy

type frameRec struct {
	typ   string
	chunk byte
	size  uint32
}

type proxy struct {
	ln   net.Listener
	mu   sync.Mutex
	recs [2][]frameRec // 0 = client→server, 1 = server→client
	sig  chan struct{} // pinged after every recorded frame
	wg   sync.WaitGroup
	a, b net.Conn
}

func startProxy(target string) (*proxy, error) {
	ln, err := net.Listen("tcp", "127.0.0.1:0")
	if err != nil {
		return nil, err
	}
	p := &proxy{ln: ln, sig: make(chan struct{}, 1)}
	p.wg.Add(1)
	go func() {
		defer p.wg.Done()
		ln.(*net.TCPListener).SetDeadline(time.Now().Add(stepTimeout))
		a, err := ln.Accept()
		if err != nil {
			return
		}
		b, err := net.DialTimeout("tcp", target, stepTimeout)
		if err != nil {
			a.Close()
			return
		}
		p.mu.Lock()
		p.a, p.b = a, b
		p.mu.Unlock()
		p.wg.Add(2)
		go p.pump(a, b, 0)
		go p.pump(b, a, 1)
	}()
	return p, nil
}

// pump reads whole frames from src, records them and hands them to a forwarder
// goroutine through a queue, so that a sender is never held up by a receiver
// that stopped reading (it always gets to write its complete message); the
// forwarder drops what the destination no longer takes.
func (p *proxy) pump(src, dst net.Conn, dir int) {
	defer p.wg.Done()
	q := make(chan []byte, 8192)
	p.wg.Add(1)
	go func() {
		defer p.wg.Done()
		dead := false
		for b := range q {
			if dead {
				continue
			}
			dst.SetWriteDeadline(time.Now().Add(stepTimeout))
			if _, err := dst.Write(b); err != nil {
				dead = true
			}
		}
		if t, ok := dst.(*net.TCPConn); ok {
			t.CloseWrite()
		}
	}()
	defer close(q)
	hdr := make([]byte, 8)
	for {
		if _, err := io.ReadFull(src, hdr); err != nil {
			return
		}
		size := binary.LittleEndian.Uint32(hdr[4:])
		if size < 8 || size > 1<<26 {
			return
		}
		frame := make([]byte, size)
		copy(frame, hdr)
		if _, err := io.ReadFull(src, frame[8:]); err != nil {
			return
		}
		p.mu.Lock()
		p.recs[dir] = append(p.recs[dir], frameRec{string(hdr[:3]), hdr[3], size})
		p.mu.Unlock()
		select {
		case p.sig <- struct{}{}:
		default:
		}
		select {
		case q <- frame:
		default: // queue full: the receiver gave up long ago
		}
	}
}

func (p *proxy) frames(dir int) []frameRec {
	p.mu.Lock()
	defer p.mu.Unlock()
	return append([]frameRec(nil), p.recs[dir]...)
}

// waitFinal waits until a MSG frame with chunk type F (or A) beyond index from was recorded in dir.
func (p *proxy) waitFinal(dir, from int, d time.Duration) bool {
	deadline := time.After(d)
	for {
		fs := p.frames(dir)
		for _, f := range fs[min(from, len(fs)):] {
			if f.typ == "MSG" && (f.chunk == 'F' || f.chunk == 'A') {
				return true
			}
		}
		select {
		case <-p.sig:
		case <-time.After(20 * time.Millisecond):
		case <-deadline:
			return false
		}
	}
}

func (p *proxy) close() {
	p.ln.Close()
	p.mu.Lock()
	if p.a != nil {
		p.a.Close()
		p.b.Close()
	}
	p.mu.Unlock()
	p.wg.Wait()
}

// ------------------------------------------------------------ one link

type link struct {
	p          *proxy
	uln        *uacp.Listener
	cli, srv   *uacp.Conn
	csc, ssc   *uasc.SecureChannel
	cerr, serr chan error
	srvMsgs    chan *uasc.MessageBody
	ctx        context.Context
	cancel     context.CancelFunc
}

// signKeys, when set, are the two test identities used for the Sign-mode transfers
// (client = a, server = b; policy Basic256Sha256, 32 signature bytes per chunk).
var signKeys [2]*h.KeyPair

const signatureLen = 32

func cfgs(sign bool) (cli, srv *uasc.Config) {
	cli, srv = noneCfg(), noneCfg()
	if sign {
		a, b := signKeys[0], signKeys[1]
		cli.SecurityPolicyURI, cli.SecurityMode = ua.SecurityPolicyURIBasic256Sha256, ua.MessageSecurityModeSign
		cli.Certificate, cli.LocalKey, cli.RemoteCertificate, cli.Thumbprint = a.CertDER, a.Key, b.CertDER, uapolicy.Thumbprint(b.CertDER)
		srv.SecurityPolicyURI, srv.SecurityMode = ua.SecurityPolicyURIBasic256Sha256, ua.MessageSecurityModeSign
		srv.Certificate, srv.LocalKey = b.CertDER, b.Key
	}
	return
}

func noneCfg() *uasc.Config {
	return &uasc.Config{SecurityPolicyURI: ua.SecurityPolicyURINone, SecurityMode: ua.MessageSecurityModeNone,
		Lifetime: 3600000, RequestTimeout: stepTimeout}
}

func (l *link) close() {
	l.cancel()
	if l.csc != nil {
		l.csc.Close()
	}
	if l.cli != nil {
		l.cli.Close()
	}
	if l.srv != nil {
		l.srv.Close()
	}
	if l.uln != nil {
		l.uln.Close()
	}
	if l.p != nil {
		l.p.close()
	}
}

// connect runs the real HEL/ACK exchange: uacp.Listen + Accept on the server
// side, uacp.Dialer.Dial on the client side, through the proxy.
func connect(C, S ack4) (*link, error) {
	ctx, cancel := context.WithTimeout(context.Background(), 4*stepTimeout)
	l := &link{ctx: ctx, cancel: cancel}
	var err error
	if l.uln, err = uacp.Listen(ctx, "opc.tcp://127.0.0.1:0", S.ack()); err != nil {
		l.close()
		return nil, fmt.Errorf("uacp.Listen: %v", err)
	}
	if l.p, err = startProxy(l.uln.Addr().String()); err != nil {
		l.close()
		return nil, fmt.Errorf("proxy: %v", err)
	}
	type acc struct {
		c   *uacp.Conn
		err error
	}
	ch := make(chan acc, 1)
	go func() {
		c, err := l.uln.Accept(ctx)
		ch <- acc{c, err}
	}()
	d := &uacp.Dialer{Dialer: &net.Dialer{Timeout: stepTimeout}, ClientACK: C.ack()}
	l.cli, err = d.Dial(ctx, "opc.tcp://"+l.p.ln.Addr().String())
	if err != nil {
		l.uln.Close()
		<-ch
		l.close()
		return nil, fmt.Errorf("handshake(client): %v", err)
	}
	select {
	case a := <-ch:
		if a.err != nil {
			l.close()
			return nil, fmt.Errorf("handshake(server): %v", a.err)
		}
		l.srv = a.c
	case <-time.After(stepTimeout):
		l.uln.Close()
		l.close()
		return nil, fmt.Errorf("handshake(server): no Accept result")
	}
	return l, nil
}

// open performs a real None-mode OpenSecureChannel between the two ends.
func (l *link) open(seed uint32, sign bool) error {
	var err error
	ccfg, scfg := cfgs(sign)
	l.cerr, l.serr = make(chan error, 16), make(chan error, 16)
	l.ssc, err = uasc.NewServerSecureChannel("", l.srv, scfg, l.serr, 1000+seed, 1+seed%1000, 7000+seed)
	if err != nil {
		return err
	}
	l.srvMsgs = make(chan *uasc.MessageBody, 4)
	go func() {
		for {
			m := l.ssc.Receive(l.ctx)
			l.srvMsgs <- m
			if m.Err != nil {
				return
			}
		}
	}()
	l.csc, err = uasc.NewSecureChannel("opc.tcp://"+l.p.ln.Addr().String(), l.cli, ccfg, l.cerr)
	if err != nil {
		return err
	}
	octx, cancel := context.WithTimeout(l.ctx, stepTimeout)
	defer cancel()
	opened := make(chan error, 1)
	go func() { opened <- l.csc.Open(octx) }()
	select {
	case err := <-opened:
		if err != nil {
			return &openRefused{"client", err}
		}
	case m := <-l.srvMsgs:
		if m.Err != nil {
			cancel() // the server refused the OPN request: Open would wait for its timeout
			<-opened
			return &openRefused{"server", m.Err}
		}
		if err := <-opened; err != nil {
			return &openRefused{"client", err}
		}
		return nil
	}
	select {
	case m := <-l.srvMsgs:
		if m.Err != nil {
			return fmt.Errorf("server OPN: %v", m.Err)
		}
	case <-time.After(stepTimeout):
		return fmt.Errorf("server did not report the OPN")
	}
	return nil
}

// openRefused: one end refused the OpenSecureChannel message of the other.
type openRefused struct {
	side string
	err  error
}

func (o *openRefused) Error() string { return "open refused by the " + o.side + ": " + o.err.Error() }

// asymmetric security header of the None policy: URI (4+47), certificate (4), thumbprint (4)
const opnHeaders = 12 + 59 + 8

func verdictOf(err error) string {
	if err == nil {
		return "ok"
	}
	s := err.Error()
	switch {
	case err == io.EOF:
		// readChunk maps every error of Conn.Receive that comes without data to io.EOF,
		// "uacp: message too large" included; nobody closes a connection during a transfer
		return "chunk-too-large"
	case strings.Contains(s, "uacp: message too large"):
		return "chunk-too-large"
	case strings.Contains(s, "too many chunks"):
		return "too-many-chunks"
	case strings.Contains(s, "message too large"):
		return "message-too-large"
	}
	return "other:" + strings.ReplaceAll(s, " ", "_")
}

func okHeader(handle uint32) *ua.ResponseHeader {
	return &ua.ResponseHeader{Timestamp: time.Unix(1700000000, 0).UTC(), RequestHandle: handle, ServiceResult: ua.StatusOK,
		ServiceDiagnostics: &ua.DiagnosticInfo{}, StringTable: []string{}, AdditionalHeader: ua.NewExtensionObject(nil)}
}

func bigRequest(payload int) ua.Request {
	return &ua.WriteRequest{NodesToWrite: []*ua.WriteValue{{NodeID: ua.NewNumericNodeID(0, 1), AttributeID: ua.AttributeIDValue,
		Value: &ua.DataValue{EncodingMask: ua.DataValueValue, Value: ua.MustVariant(make([]byte, payload))}}}}
}

func bigResponse(payload int, handle uint32) ua.Response {
	return &ua.ReadResponse{ResponseHeader: okHeader(handle),
		Results: []*ua.DataValue{{EncodingMask: ua.DataValueValue, Value: ua.MustVariant(make([]byte, payload))}}}
}

type outcome struct {
	cview, sview ack4
	wire         []uint32 // MSG chunk sizes on the wire in the direction of the transfer
	n            int      // body bytes of the message = sum(size-24)
	complete     bool     // the final chunk was seen on the wire
	sender       string   // "sent" or "refused"
	verdict      string   // what the receiver made of it
	opnReq       int      // body bytes of the OpenSecureChannel request / response seen
	opnResp      int
	hsRefused    bool   // the client refused the Acknowledge (buffers below 8192): nothing else happened
	opn          string // "" or the side that refused the OpenSecureChannel message (then wire/n/verdict describe that message)
}

func msgSizes(fs []frameRec, perChunk int) (sizes []uint32, n int, final bool) {
	for _, f := range fs {
		if f.typ != "MSG" {
			continue
		}
		sizes = append(sizes, f.size)
		n += int(f.size) - perChunk
		if f.chunk == 'F' {
			final = true
		}
	}
	return
}

// transfer sends one message with `payload` bytes of ByteString in direction dir ("c2s" / "s2c").
func transfer(C, S ack4, dir string, payload int, seed uint32, sign bool) (*outcome, error) {
	perChunk := 24
	if sign {
		perChunk += signatureLen
	}
	l, err := connect(C, S)
	if err != nil {
		// Conn.Handshake refuses an Acknowledge whose buffers are below the protocol minimum
		if strings.Contains(err.Error(), "handshake(client)") && strings.Contains(err.Error(), "invalid buffer sizes in ACK") {
			return &outcome{hsRefused: true}, nil
		}
		return nil, err
	}
	defer l.close()
	out := &outcome{cview: ofConn(l.cli), sview: ofConn(l.srv)}
	if err := l.open(seed, sign); err != nil {
		or, ok := err.(*openRefused)
		if !ok {
			return nil, err
		}
		// the OPN request / response is itself a message that one end did not take
		d := 0
		if or.side == "client" {
			d = 1
		}
		for _, f := range l.p.frames(d) {
			if f.typ == "OPN" {
				out.wire = append(out.wire, f.size)
				out.n += int(f.size) - opnHeaders
			}
		}
		out.opn = or.side
		out.complete = true
		out.sender = "sent"
		out.verdict = verdictOf(or.err)
		return out, nil
	}
	for d := 0; d < 2; d++ {
		for _, f := range l.p.frames(d) {
			if f.typ == "OPN" && d == 0 {
				out.opnReq = int(f.size) - opnHeaders
			} else if f.typ == "OPN" {
				out.opnResp = int(f.size) - opnHeaders
			}
		}
	}
	type res struct {
		err  error
		resp ua.Response
	}
	cdone := make(chan res, 1)
	send := func(req ua.Request) {
		var got ua.Response
		err := l.csc.SendRequestWithTimeout(l.ctx, req, nil, stepTimeout, func(r ua.Response) error { got = r; return nil })
		cdone <- res{err, got}
	}
	switch dir {
	case "c2s":
		from := len(l.p.frames(0))
		go send(bigRequest(payload))
		var m *uasc.MessageBody
		select {
		case m = <-l.srvMsgs:
		case <-time.After(stepTimeout):
			return nil, fmt.Errorf("c2s: server reported nothing")
		}
		out.verdict = verdictOf(m.Err)
		if m.Err == nil {
			if _, ok := m.Request().(*ua.WriteRequest); !ok {
				out.verdict = fmt.Sprintf("other:%T", m.Request())
			}
			l.ssc.SendResponseWithContext(l.ctx, m.RequestID, &ua.WriteResponse{ResponseHeader: okHeader(m.RequestID), Results: []ua.StatusCode{ua.StatusOK}})
		}
		// let the client finish writing; its own result is a response or, after a refusal by the server, nothing
		fin := l.p.waitFinal(0, from, stepTimeout)
		if m.Err == nil {
			select {
			case r := <-cdone:
				out.sender = senderOf(r.err, fin)
			case <-time.After(stepTimeout):
				return nil, fmt.Errorf("c2s: client got no response")
			}
		} else {
			out.sender = senderOf(nil, fin)
		}
		out.wire, out.n, out.complete = msgSizes(l.p.frames(0)[from:], perChunk)
	case "s2c":
		go send(&ua.ReadRequest{NodesToRead: []*ua.ReadValueID{{NodeID: ua.NewNumericNodeID(0, 1), AttributeID: ua.AttributeIDValue, DataEncoding: &ua.QualifiedName{}}}})
		var m *uasc.MessageBody
		select {
		case m = <-l.srvMsgs:
		case <-time.After(stepTimeout):
			return nil, fmt.Errorf("s2c: server reported nothing")
		}
		if m.Err != nil {
			return nil, fmt.Errorf("s2c: small request refused: %v", m.Err)
		}
		from := len(l.p.frames(1))
		serr := l.ssc.SendResponseWithContext(l.ctx, m.RequestID, bigResponse(payload, m.RequestID))
		fin := l.p.waitFinal(1, from, stepTimeout)
		out.sender = senderOf(serr, fin)
		out.wire, out.n, out.complete = msgSizes(l.p.frames(1)[from:], perChunk)
		if !fin {
			out.verdict = "nothing-sent"
			break
		}
		select {
		case r := <-cdone:
			out.verdict = verdictOf(r.err)
			if r.err == nil {
				if _, ok := r.resp.(*ua.ReadResponse); !ok {
					out.verdict = fmt.Sprintf("other:%T", r.resp)
				}
			}
		case e := <-l.cerr:
			out.verdict = verdictOf(e)
		case <-time.After(stepTimeout):
			return nil, fmt.Errorf("s2c: client reported nothing")
		}
	}
	return out, nil
}

func senderOf(err error, final bool) string {
	if final {
		return "sent" // the whole message went onto the wire, whatever came back
	}
	if err != nil {
		return "refused"
	}
	return "incomplete"
}

// ------------------------------------------------------------ cases

type tcase struct {
	sign    bool // Basic256Sha256 / Sign instead of None
	dir     string
	C, S    ack4
	payload int
}

func (c tcase) line(n int) string {
	op := "xfer"
	if c.sign {
		op = "xfer-sign"
	}
	return fmt.Sprintf("%s %s %s %s %d", op, c.dir, c.C, c.S, n)
}

// adoptZero mirrors nothing of the implementation: it is the spec reading of
// an advertised limit (0 = no limit).
func exceeds(adv ack4, n, chunks int) bool {
	return (adv.maxMsg != 0 && uint64(n) > uint64(adv.maxMsg)) || (adv.maxChunks != 0 && uint64(chunks) > uint64(adv.maxChunks))
}

type env struct {
	r         *h.Result
	d         *h.Driver
	ovReq     int // body bytes of a request / response with a 0-byte payload… measured once
	ovResp    int
	seed      uint32
	def, defS ack4 // uacp.DefaultClientACK / DefaultServerACK of the tree under check
}

func (e *env) fail(c, sig, detail string) {
	e.r.Fail(c, sig, detail)
	if sig != "" {
		e.r.Confirm(sig, c+" : "+detail)
	}
}

// eval returns false when the channel could not be opened (further sizes are pointless).
func (e *env) eval(tc tcase) bool {
	e.seed++
	o, err := transfer(tc.C, tc.S, tc.dir, tc.payload, e.seed, tc.sign)
	if err == nil && o.sender == "incomplete" {
		// the final chunk did not show up within the step timeout and the sender reported no error: load, not behaviour
		e.seed++
		o, err = transfer(tc.C, tc.S, tc.dir, tc.payload, e.seed, tc.sign)
		if err == nil && o.sender == "incomplete" {
			err = fmt.Errorf("the message was not written completely within %v (twice)", stepTimeout)
		}
	}
	if err != nil {
		e.r.InfraError = fmt.Sprintf("%s payload=%d: %v", tc.line(-1), tc.payload, err)
		return false
	}
	want := tc.payload + e.ovReq
	if tc.dir == "s2c" {
		want = tc.payload + e.ovResp
	}
	if o.hsRefused {
		line := tc.line(want)
		e.r.Count(line, true)
		e.r.Compare(e.d, line, "handshake refused-by-client")
		e.r.Hit("handshake-refused(buffer<8192)")
		// oracle: the refusal is right exactly when the Acknowledge is below the protocol minimum
		if tc.S.rcv >= 8192 && tc.S.snd >= 8192 {
			e.fail(line, "", "the client refused an Acknowledge with buffers of at least 8192")
		}
		return false
	}
	if tc.S.rcv < 8192 || tc.S.snd < 8192 {
		e.fail(tc.line(want), "", fmt.Sprintf("the client adopted an Acknowledge with buffers %d/%d below the protocol minimum 8192", tc.S.rcv, tc.S.snd))
	}
	line := tc.line(want)
	if o.opn == "" && o.n != want && e.ovReq != 0 {
		e.r.InfraError = fmt.Sprintf("%s: message body has %d bytes, %d intended (calibration off)", line, o.n, want)
		return false
	}
	e.r.Count(line, true)
	maxw, last := uint32(0), uint32(0)
	for _, w := range o.wire {
		maxw = max(maxw, w)
		last = w
	}
	if o.opn != "" && tc.sign {
		e.fail(line, "", "OpenSecureChannel (Basic256Sha256, Sign) refused by the "+o.opn+": "+o.verdict)
		return false
	}
	var ans string
	if o.opn == "" {
		ans = fmt.Sprintf("neg %s | %s open ok wire %d %d %d send %s recv %s", o.cview, o.sview, len(o.wire), maxw, last, o.sender, o.verdict)
	} else {
		ans = fmt.Sprintf("neg %s | %s open refused-by-%s %s opn %d %d", o.cview, o.sview, o.opn, o.verdict, maxw, o.n)
		e.r.Hit("open-refused-by-" + o.opn)
		// from here on the message under the oracle is the OpenSecureChannel request / response
		tc.dir = map[string]string{"server": "c2s", "client": "s2c"}[o.opn]
	}
	e.r.Compare(e.d, line, ans)
	e.r.Sample(line + " -> " + ans)
	e.r.Hit("dir:" + tc.dir)
	if tc.sign {
		e.r.Hit("mode:Sign/Basic256Sha256")
	} else {
		e.r.Hit("mode:None")
	}
	e.r.Hit("verdict:" + strings.SplitN(o.verdict, ":", 2)[0])
	e.r.Hit("sender:" + o.sender)
	e.r.Hit(fmt.Sprintf("chunks:%d", min(len(o.wire), 5)))
	if tc.S.rcv != tc.S.snd || tc.C.rcv != tc.C.snd || tc.C.rcv != tc.S.rcv {
		e.r.Hit("buffers:asymmetric")
	} else {
		e.r.Hit("buffers:symmetric")
	}
	if tc.S.maxMsg == 0 || tc.S.maxChunks == 0 || tc.C.maxMsg == 0 || tc.C.maxChunks == 0 {
		e.r.Hit("limit:0(unlimited)")
	}
	if o.opn != "" {
		line += " [OpenSecureChannel message, " + strconv.Itoa(o.n) + " bytes]"
	}

	// ---- the property's own oracle, on the implementation alone.
	// Advertised values: the client's are its Hello (= C), the server's its Acknowledge (= S).
	advSender, advReceiver := tc.C, tc.S
	if tc.dir == "s2c" {
		advSender, advReceiver = tc.S, tc.C
	}
	// the recorded direction findings need a non-default configuration: between a default
	// client and a default server every failure of (1) or (2) is a new one
	isDefault := tc.C == e.def && tc.S == e.defS
	// (1) no chunk larger than the receive buffer the other side advertised
	legal := true
	for _, w := range o.wire {
		if w > advReceiver.rcv {
			legal = false
		}
	}
	if !legal {
		sig := ""
		if tc.dir == "c2s" && maxw <= tc.S.snd && tc.S.snd > tc.S.rcv {
			sig = "C06.client-send-direction"
		}
		if tc.dir == "s2c" && maxw <= tc.S.snd && tc.S.snd > tc.C.rcv {
			sig = "C06.server-ignores-hello-rcv"
		}
		if isDefault {
			sig = ""
		}
		e.fail(line, sig, fmt.Sprintf("%s put a chunk of %d bytes on the wire, the receiver advertised a receive buffer of %d", who(tc.dir), maxw, advReceiver.rcv))
	}
	maySend := min(advSender.snd, advReceiver.rcv)
	// (2) every chunk the other side may send is accepted
	if maxw <= maySend && o.verdict == "chunk-too-large" {
		sig := ""
		if tc.dir == "s2c" && maxw > tc.S.rcv && !isDefault {
			sig = "C06.client-recv-direction"
		}
		e.fail(line, sig, fmt.Sprintf("receiver refused a chunk of %d bytes although the sender may send up to min(%d, %d)", maxw, advSender.snd, advReceiver.rcv))
	}
	// (3) a message over the peer's limits is refused by the sender
	if exceeds(advReceiver, o.n, len(o.wire)) && o.sender == "sent" {
		sig := "C06.send-limit-client"
		if tc.dir == "s2c" {
			sig = "C06.send-limit-server"
		}
		e.fail(line, sig, fmt.Sprintf("message of %d bytes in %d chunks written in full although the peer advertised MaxMessageSize %d / MaxChunkCount %d", o.n, len(o.wire), advReceiver.maxMsg, advReceiver.maxChunks))
	}
	if !exceeds(advReceiver, o.n, len(o.wire)) && o.sender != "sent" {
		e.fail(line, "", fmt.Sprintf("sender did not send a message within the peer's limits (%s)", o.sender))
	}
	// (2', limits read as the specification does, 0 = none) a message within the receiver's advertised limits is accepted
	if legal && maxw <= maySend && !exceeds(advReceiver, o.n, len(o.wire)) && (o.verdict == "too-many-chunks" || o.verdict == "message-too-large") {
		// (a server refusing what it advertised, 0 = no limit included, was C06.zero-limit-server: repaired, no signature)
		sig := ""
		if tc.dir == "s2c" && ((o.verdict == "message-too-large" && uint64(o.n) > uint64(o.cview.maxMsg)) || (o.verdict == "too-many-chunks" && uint64(len(o.wire)-1) > uint64(o.cview.maxChunks))) {
			sig = "C06.client-limits-from-ack"
		}
		e.fail(line, sig, fmt.Sprintf("receiver answered %s to a message of %d bytes / %d chunks within the limits it advertised (MaxMessageSize %d, MaxChunkCount %d; 0 = no limit)", o.verdict, o.n, len(o.wire), advReceiver.maxMsg, advReceiver.maxChunks))
	}
	if strings.HasPrefix(o.verdict, "other:") {
		e.fail(line, "", "receiver failed with "+o.verdict)
	}
	return o.opn == ""
}

func who(dir string) string {
	if dir == "c2s" {
		return "the client"
	}
	return "the server"
}

// payloadFor picks the ByteString length that gives a message body of n bytes.
func (e *env) payloadFor(dir string, n int) int {
	ov := e.ovReq
	if dir == "s2c" {
		ov = e.ovResp
	}
	return max(n-ov, 0)
}

func parseCase(line string) (dir string, C, S ack4, n int, err error) {
	t := strings.Fields(line)
	if i := strings.Index(line, " ["); i > 0 { // "[OpenSecureChannel message, …]" suffix of a failure record
		t = strings.Fields(line[:i])
	}
	if len(t) != 11 || (t[0] != "xfer" && t[0] != "xfer-sign") {
		return "", C, S, 0, fmt.Errorf("not an xfer line: %q", line)
	}
	if t[0] == "xfer-sign" {
		defer func() { dir = "sign:" + dir }()
	}
	v := make([]uint32, 8)
	for i := range v {
		x, err := strconv.ParseUint(t[2+i], 10, 32)
		if err != nil {
			return "", C, S, 0, err
		}
		v[i] = uint32(x)
	}
	n, err = strconv.Atoi(t[10])
	return t[1], ack4{v[0], v[1], v[2], v[3]}, ack4{v[4], v[5], v[6], v[7]}, n, err
}

func main() {
	o := h.ParseOpts()
	r := h.NewResult("C06", o)
	d, err := h.StartDriver(o.Driver)
	if err != nil {
		r.InfraError = err.Error()
		r.Write(o.Out)
		return
	}
	defer d.Close()
	dc, ds := uacp.DefaultClientACK, uacp.DefaultServerACK
	def := ack4{dc.ReceiveBufSize, dc.SendBufSize, dc.MaxMessageSize, dc.MaxChunkCount}
	defS := ack4{ds.ReceiveBufSize, ds.SendBufSize, ds.MaxMessageSize, ds.MaxChunkCount}
	e := &env{r: r, d: d, seed: uint32(o.Seed) * 100000, def: def, defS: defS}
	if o.Thorough() {
		stepTimeout = 60 * time.Second
	}
	rnd := h.NewRand(o.Seed)
	r.Rule = "case = (direction, client Hello limits, server Acknowledge limits, message body size): real uacp.Dial/Listen handshake and None-mode OpenSecureChannel over loopback through a recording proxy, then one WriteRequest (client→server) or ReadResponse (server→client) whose body has the chosen size; compared with the Lean model: both sides' four negotiated limits, number/max/last size of the chunks on the wire, sender result, receiver verdict. Buffers from {8192, 8193, 16384, 65535, 65536, 2^20} independently for the four values, MaxMessageSize/MaxChunkCount from {0, small, default}, sizes at chunk boundaries and at the limits -1/0/+1; every case is non-trivial, distinct by line"

	// calibration: body bytes of a request / response around an empty payload
	for _, dir := range []string{"c2s", "s2c"} {
		oc, err := transfer(def, defS, dir, 1, 1, false)
		if err != nil || len(oc.wire) != 1 {
			r.InfraError = fmt.Sprintf("calibration %s: %v", dir, err)
			r.Write(o.Out)
			return
		}
		if dir == "c2s" {
			e.ovReq = oc.n - 1
			r.Notes = append(r.Notes, fmt.Sprintf("OpenSecureChannel bodies (None): request %d, response %d bytes", oc.opnReq, oc.opnResp))
		} else {
			e.ovResp = oc.n - 1
		}
	}
	r.Notes = append(r.Notes, fmt.Sprintf("message body = payload + %d (WriteRequest) / + %d (ReadResponse) bytes", e.ovReq, e.ovResp))

	run := func(dir string, C, S ack4, n int) bool {
		if r.InfraError != "" {
			return false
		}
		return e.eval(tcase{dir: dir, C: C, S: S, payload: e.payloadFor(dir, n)})
	}
	runSign := func(dir string, C, S ack4, n int) bool {
		if r.InfraError != "" || signKeys[0] == nil {
			return false
		}
		return e.eval(tcase{sign: true, dir: dir, C: C, S: S, payload: e.payloadFor(dir, n)})
	}
	if a, err := h.LoadKey(o.Keys, 2048, "a"); err == nil {
		if b, err := h.LoadKey(o.Keys, 2048, "b"); err == nil {
			signKeys = [2]*h.KeyPair{a, b}
		}
	}
	if signKeys[0] == nil {
		r.Notes = append(r.Notes, "test keys not found: no Sign-mode transfers")
	}
	runAny := func(dir string, C, S ack4, n int) bool {
		if d, ok := strings.CutPrefix(dir, "sign:"); ok {
			return runSign(d, C, S, n)
		}
		return run(dir, C, S, n)
	}
	if o.Replay != "" {
		dir, C, S, n, err := parseCase(o.Replay)
		if err != nil {
			r.InfraError = "bad replay case: " + err.Error()
		} else {
			runAny(dir, C, S, n)
		}
		r.Write(o.Out)
		return
	}
	for _, line := range o.CorpusLines() {
		dir, C, S, n, err := parseCase(line)
		if err != nil {
			r.Notes = append(r.Notes, "bad corpus line: "+err.Error())
			continue
		}
		runAny(dir, C, S, n)
		r.Hit("corpus")
	}

	// default client against default server (what opcua.NewClient / server.New use): both directions, up to the message limit
	for _, dir := range []string{"c2s", "s2c"} {
		mb := int(defS.snd) - 25
		for _, n := range []int{300, mb - 1, mb, mb + 1, 3*mb + 7, int(defS.maxMsg) - 1, int(defS.maxMsg), int(defS.maxMsg) + 1} {
			if n >= 200 && n <= 8<<20 {
				run(dir, def, defS, n)
				r.Hit("default-config")
			}
		}
	}
	// the same under a signing policy (Basic256Sha256, Sign): every chunk carries 32 signature bytes that
	// SetMaximumBodySize must have left room for; sizes around one and two full bodies
	sym8k := ack4{8192, 8192, 0, 0}
	for _, cfg := range [][2]ack4{{def, defS}, {sym8k, ack4{8192, 8192, defS.maxMsg, defS.maxChunks}}} {
		for _, dir := range []string{"c2s", "s2c"} {
			mbs := int(cfg[1].snd) - 12 - 4 - 8 - signatureLen - 1
			for _, n := range []int{300, mbs - 1, mbs, mbs + 1, 2*mbs + 5} {
				runSign(dir, cfg[0], cfg[1], n)
			}
		}
	}
	bufs := []int{8192, 8193, 16384, 65535, 65536, 1 << 20}
	pickBuf := func() uint32 { return uint32(bufs[rnd.Intn(len(bufs))]) }
	nconf := o.N(60, 1000)
	for i := 0; i < nconf && r.InfraError == ""; i++ {
		var C, S ack4
		switch rnd.Intn(4) {
		case 0: // symmetric
			b := pickBuf()
			C, S = ack4{b, b, 0, 0}, ack4{b, b, 0, 0}
		case 1: // client default, server asymmetric
			C, S = def, ack4{pickBuf(), pickBuf(), 0, 0}
		default:
			C, S = ack4{pickBuf(), pickBuf(), 0, 0}, ack4{pickBuf(), pickBuf(), 0, 0}
		}
		C.maxMsg = uint32(rnd.Pick(0, 0, 1, 30000, 100000, 2097152))
		C.maxChunks = uint32(rnd.Pick(0, 0, 1, 2, 5, 512))
		S.maxMsg = uint32(rnd.Pick(0, 30000, 100000, 2097152, 2097152, 2097152, 2097152))
		S.maxChunks = uint32(rnd.Pick(0, 1, 2, 5, 512, 512))
		dir := []string{"c2s", "s2c"}[rnd.Intn(2)]
		// the sender's body size per chunk under None: SendBufSize of the Conn - 25; both ends use the server's value
		mb := int(S.snd) - 25
		adv := S
		if dir == "s2c" {
			adv = C
		}
		var ns []int
		switch rnd.Intn(6) {
		case 0:
			ns = []int{200 + rnd.Intn(3000)}
		case 1:
			ns = []int{mb - 1, mb, mb + 1}
		case 2:
			k := 1 + rnd.Intn(4)
			ns = []int{k*mb - 1, k * mb, k*mb + 1 + rnd.Intn(mb-1)}
		case 3:
			if adv.maxMsg > 1 {
				ns = []int{int(adv.maxMsg) - 1, int(adv.maxMsg), int(adv.maxMsg) + 1}
			} else {
				ns = []int{300, 70000}
			}
		case 4:
			k := int(adv.maxChunks)
			if k == 0 || k > 6 {
				k = 2
			}
			ns = []int{(k-1)*mb + 100, k*mb + 100, (k+1)*mb + 100}
		default:
			ns = []int{int(S.rcv) - 25, int(S.rcv) - 24, int(C.rcv) - 24, 8192 - 24, 8192 - 23}
		}
		for _, n := range ns {
			if n < 200 {
				n = 200
			}
			if n > 5<<20 {
				n = 5 << 20
			}
			if !run(dir, C, S, n) {
				break
			}
		}
	}
	for _, b := range []string{"dir:c2s", "dir:s2c", "verdict:ok", "verdict:chunk-too-large", "verdict:too-many-chunks", "verdict:message-too-large",
		"handshake-refused(buffer<8192)", "mode:None", "mode:Sign/Basic256Sha256", "buffers:symmetric", "buffers:asymmetric", "limit:0(unlimited)", "chunks:1", "chunks:2", "chunks:5"} {
		if r.Distribution[b] == 0 {
			r.Unreached = append(r.Unreached, b)
		}
	}
	r.Write(o.Out)
}
