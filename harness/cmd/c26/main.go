// Correspondence runner and property oracle for C26 (subscriptions survive
// reconnects, notifications are acknowledged once).
//
//  1. pure differential: the real handleAcks / handleNotification (verif hooks)
//     against the Lean functions on generated inputs;
//  2. publish rounds: the real client and its real publish loop against a
//     scripted server that answers every PublishRequest as a script says;
//     the acknowledgements of every request on the wire are compared with the
//     Lean `requests` function and checked by the property's own oracle;
//  3. reconnect scenarios: the real client against the real gopcua server
//     behind a cutting TCP proxy (connection cut with the session kept; server
//     restart); the action trace of Client.monitor is replayed by the Lean
//     reconnect model, and the property's own oracle (every subscription keeps
//     delivering for every item) runs on the implementation alone.
package main

import (
	"context"
	"errors"
	"fmt"
	"io"
	"sort"
	"strings"
	"sync"
	"syscall"
	"time"

	"github.com/gopcua/opcua"
	"github.com/gopcua/opcua/server"
	"github.com/gopcua/opcua/ua"

	"verifharness/internal/h"
	"verifharness/internal/xreal"
	"verifharness/internal/xsubs"
)

const (
	sigServer   = "C26.server-subscription-dies-with-channel"
	sigGap      = "C26.republish-gives-up-at-gap"
	sigRecreate = "C26.recreate-failure-ignored"
)

type env struct {
	o   *h.Opts
	r   *h.Result
	d   *h.Driver
	rnd *h.Rand
}

// ---------------------------------------------------------------- 1. pure functions

var statusPool = []ua.StatusCode{
	ua.StatusOK, ua.StatusOK, ua.StatusOK,
	ua.StatusBadSubscriptionIDInvalid, ua.StatusBadSequenceNumberUnknown,
	ua.StatusBadInternalError, ua.StatusBadTimeout, ua.StatusBadTooManyPublishRequests,
	ua.StatusBad, ua.StatusUncertain, ua.StatusCode(0x00A70000),
}

// letter classifies a status code the way the property text does: Good, the two
// "server does not know it" codes, anything else.
func letter(s ua.StatusCode) byte {
	switch s {
	case ua.StatusOK:
		return 'o'
	case ua.StatusBadSubscriptionIDInvalid:
		return 'i'
	case ua.StatusBadSequenceNumberUnknown:
		return 'u'
	}
	return 'x'
}

func letters(res []ua.StatusCode) string {
	if len(res) == 0 {
		return "-"
	}
	b := make([]byte, len(res))
	for i, s := range res {
		b[i] = letter(s)
	}
	return string(b)
}

func showAcks(a []ua.SubscriptionAcknowledgement) string {
	if len(a) == 0 {
		return "-"
	}
	p := make([]string, len(a))
	for i, x := range a {
		p[i] = fmt.Sprintf("%d:%d", x.SubscriptionID, x.SequenceNumber)
	}
	return strings.Join(p, ",")
}

func showAckPtrs(a []*ua.SubscriptionAcknowledgement) string {
	v := make([]ua.SubscriptionAcknowledgement, len(a))
	for i, x := range a {
		v[i] = *x
	}
	return showAcks(v)
}

func bareClient() *opcua.Client {
	c, err := opcua.NewClient("opc.tcp://127.0.0.1:1", opcua.SecurityMode(ua.MessageSecurityModeNone))
	if err != nil {
		panic(err)
	}
	return c
}

func (e *env) pureAcks(pending []ua.SubscriptionAcknowledgement, res []ua.StatusCode) {
	c := bareClient()
	ptrs := make([]*ua.SubscriptionAcknowledgement, len(pending))
	for i := range pending {
		a := pending[i]
		ptrs[i] = &a
	}
	c.VerifSetPendingAcks(ptrs)
	out := h.Catch(func() string {
		c.VerifHandleAcks(res)
		return showAcks(c.VerifPendingAcks())
	})
	line := fmt.Sprintf("acks %s %s", showAcks(pending), letters(res))
	nontrivial := len(pending) > 0
	e.r.Count(line, nontrivial)
	switch {
	case len(pending) != len(res):
		e.r.Hit("acks:length-mismatch")
	case len(pending) == 0:
		e.r.Hit("acks:empty")
	default:
		e.r.Hit("acks:matched")
		for _, s := range res {
			e.r.Hit("acks:status-" + string(letter(s)))
		}
	}
	e.r.Compare(e.d, line, out)
	if e.r.Distribution["acks:matched"] == 3 && len(pending) == len(res) && len(pending) > 1 {
		e.r.Sample(line + " -> " + out)
	}
	// the property's own oracle on this call: an acknowledgement answered with
	// Good / unknown (matching result count) is not kept; one answered with
	// another code is kept
	if out != "panic" && len(pending) == len(res) {
		kept := c.VerifPendingAcks()
		k := 0
		for i, a := range pending {
			if letter(res[i]) == 'x' {
				if k >= len(kept) || kept[k] != a {
					e.r.Fail(line, "", fmt.Sprintf("acknowledgement %d:%d was answered %v but is not retried (left: %s)", a.SubscriptionID, a.SequenceNumber, res[i], out))
					break
				}
				k++
			}
		}
		if k != len(kept) {
			e.r.Fail(line, "", fmt.Sprintf("acknowledgements answered Good/unknown are sent again: %s", out))
		}
	}
	if out == "panic" {
		e.r.Fail(line, "", "handleAcks panics")
	}
}

func (e *env) pureNotif(known bool, last, next uint32, pending []ua.SubscriptionAcknowledgement, sub, seq uint32, ndata int) {
	c := bareClient()
	ptrs := make([]*ua.SubscriptionAcknowledgement, len(pending))
	for i := range pending {
		a := pending[i]
		ptrs[i] = &a
	}
	c.VerifSetPendingAcks(ptrs)
	var s *opcua.Subscription
	if known {
		s = c.VerifAddSub(sub, last, next)
	}
	res := xsubs.DataResponse(&ua.PublishRequest{RequestHeader: &ua.RequestHeader{}}, sub, seq, ndata, nil, 1, 1)
	out := h.Catch(func() string {
		ok := c.VerifHandleNotification(res)
		l, n := last, next
		if ok {
			l, n = s.VerifSeq()
		}
		return fmt.Sprintf("%d %d %s", l, n, showAcks(c.VerifPendingAcks()))
	})
	k := 0
	if known {
		k = 1
	}
	line := fmt.Sprintf("notif %d %d %d %s %d %d %d", k, last, next, showAcks(pending), sub, seq, ndata)
	e.r.Count(line, known)
	switch {
	case !known:
		e.r.Hit("notif:unknown-sub")
	case ndata == 0:
		e.r.Hit("notif:keepalive")
	case seq == 0xffffffff:
		e.r.Hit("notif:seq-wrap")
	case seq != next:
		e.r.Hit("notif:data-gap")
	default:
		e.r.Hit("notif:data-in-order")
	}
	e.r.Compare(e.d, line, out)
	if known && ndata > 0 && !strings.HasSuffix(out, fmt.Sprintf("%d:%d", sub, seq)) {
		e.r.Fail(line, "", "data notification is not queued for acknowledgement: "+out)
	}
}

func (e *env) randAcks(n int) []ua.SubscriptionAcknowledgement {
	out := make([]ua.SubscriptionAcknowledgement, n)
	for i := range out {
		out[i] = ua.SubscriptionAcknowledgement{SubscriptionID: uint32(1 + e.rnd.Intn(3)), SequenceNumber: uint32(1 + e.rnd.Intn(50))}
	}
	return out
}

func (e *env) pure() {
	n := e.o.N(300, 20000)
	for i := 0; i < n; i++ {
		np := e.rnd.Intn(6)
		nr := np
		if e.rnd.Chance(30) {
			nr = e.rnd.Intn(7)
		}
		res := make([]ua.StatusCode, nr)
		for j := range res {
			res[j] = statusPool[e.rnd.Intn(len(statusPool))]
		}
		e.pureAcks(e.randAcks(np), res)
	}
	for i := 0; i < n/2; i++ {
		known := !e.rnd.Chance(15)
		next := uint32(1 + e.rnd.Intn(40))
		seq := next
		switch e.rnd.Intn(6) {
		case 0:
			seq = next + uint32(1+e.rnd.Intn(5))
		case 1:
			seq = 0xffffffff
		}
		nd := e.rnd.Pick(0, 1, 1, 1, 2)
		e.pureNotif(known, next-1, next, e.randAcks(e.rnd.Intn(4)), uint32(1+e.rnd.Intn(3)), seq, nd)
	}
}

// ---------------------------------------------------------------- 2. publish rounds against a scripted server

type roundSpec struct {
	kind    string // data | keepalive | unknown | timeout
	seq     uint32
	results []ua.StatusCode // decided when the request arrives
}

func (e *env) rounds(seed uint64) {
	rnd := h.NewRand(seed)
	nround := 6 + rnd.Intn(6)
	var (
		mu       sync.Mutex
		acksSeen [][]ua.SubscriptionAcknowledgement
		specs    []roundSpec
		subID    uint32
		seq      uint32
		timeouts int
		held     int
	)
	srv, err := xsubs.StartScripted(nil)
	if err != nil {
		e.r.InfraError = "scripted server: " + err.Error()
		return
	}
	defer srv.Close()
	srv.Handler = func(s *xsubs.Scripted, c *xsubs.SConn, reqID uint32, r ua.Request) ua.Response {
		req, ok := r.(*ua.PublishRequest)
		if !ok {
			resp := s.Default(r)
			if cs, ok := resp.(*ua.CreateSubscriptionResponse); ok {
				mu.Lock()
				subID = cs.SubscriptionID
				mu.Unlock()
			}
			return resp
		}
		mu.Lock()
		defer mu.Unlock()
		acks := make([]ua.SubscriptionAcknowledgement, len(req.SubscriptionAcknowledgements))
		for i, a := range req.SubscriptionAcknowledgements {
			acks[i] = *a
		}
		acksSeen = append(acksSeen, acks)
		k := len(specs)
		if k >= nround {
			held++
			return nil
		}
		sp := roundSpec{}
		switch x := rnd.Intn(10); {
		case x < 5:
			sp.kind = "data"
		case x < 7:
			sp.kind = "keepalive"
		case x < 8:
			sp.kind = "unknown"
		default:
			if timeouts < 2 {
				sp.kind = "timeout"
				timeouts++
			} else {
				sp.kind = "data"
			}
		}
		if sp.kind == "timeout" {
			specs = append(specs, sp)
			return nil
		}
		n := len(acks)
		nr := n
		if rnd.Chance(25) {
			nr = rnd.Intn(n + 2)
		}
		sp.results = make([]ua.StatusCode, nr)
		for i := range sp.results {
			sp.results[i] = statusPool[rnd.Intn(len(statusPool))]
		}
		sid := subID
		nd := 1
		switch sp.kind {
		case "data":
			seq++
			sp.seq = seq
		case "keepalive":
			sp.seq = seq + 1
			nd = 0
		case "unknown":
			seq++
			sp.seq = seq
			sid = subID + 77
		}
		specs = append(specs, sp)
		return xsubs.DataResponse(r, sid, sp.seq, nd, sp.results, 1, int32(sp.seq))
	}

	ctx, cancel := context.WithTimeout(context.Background(), 20*time.Second)
	defer cancel()
	c, err := opcua.NewClient(srv.URL(), opcua.SecurityMode(ua.MessageSecurityModeNone), opcua.AutoReconnect(false), opcua.RequestTimeout(250*time.Millisecond))
	if err != nil {
		e.r.InfraError = err.Error()
		return
	}
	if err := c.Connect(ctx); err != nil {
		e.r.InfraError = "connect to scripted server: " + err.Error()
		return
	}
	xsubs.LoopStarted(c.VerifChanLens)
	defer c.Close(context.Background())
	notif := make(chan *opcua.PublishNotificationData, 256)
	sub, err := c.Subscribe(ctx, &opcua.SubscriptionParameters{Interval: 20 * time.Millisecond, MaxKeepAliveCount: 5, LifetimeCount: 100}, notif)
	if err != nil {
		e.r.InfraError = "subscribe at scripted server: " + err.Error()
		return
	}
	ok := xsubs.WaitFor(15*time.Second, func() bool { mu.Lock(); defer mu.Unlock(); return held >= 1 })
	mu.Lock()
	seen := append([][]ua.SubscriptionAcknowledgement(nil), acksSeen...)
	sp := append([]roundSpec(nil), specs...)
	sid := subID
	mu.Unlock()
	if !ok || len(seen) != len(sp)+1 {
		e.r.InfraError = fmt.Sprintf("rounds seed=%d: script not finished in time (%d requests for %d rounds)", seed, len(seen), len(sp))
		return
	}
	// model line
	var evs, obs []string
	for _, s := range sp {
		switch s.kind {
		case "timeout":
			evs = append(evs, "E")
		case "data":
			evs = append(evs, fmt.Sprintf("R:%s:%d:%d:1", letters(s.results), sid, s.seq))
		case "keepalive":
			evs = append(evs, fmt.Sprintf("R:%s:%d:%d:0", letters(s.results), sid, s.seq))
		case "unknown":
			evs = append(evs, fmt.Sprintf("R:%s:%d:%d:1", letters(s.results), sid+77, s.seq))
		}
		e.r.Hit("round:" + s.kind)
	}
	for _, a := range seen {
		obs = append(obs, showAcks(a))
	}
	last, next := sub.VerifSeq()
	line := fmt.Sprintf("rounds %d:0:1 - %s", sid, strings.Join(evs, " "))
	impl := strings.Join(obs, "/") + fmt.Sprintf(" ; %d:%d:%d", sid, last, next)
	e.r.Count(line, true)
	e.r.TracesValidated++
	e.r.Compare(e.d, line, impl)
	if seed%1000 < 2 {
		e.r.Sample(line + " -> " + impl)
	}

	// ---- the property's own oracle on the wire trace
	for i, s := range sp {
		if s.kind == "data" {
			want := ua.SubscriptionAcknowledgement{SubscriptionID: sid, SequenceNumber: s.seq}
			found := false
			for _, a := range seen[i+1] {
				if a == want {
					found = true
				}
			}
			if !found {
				e.r.Fail(line, "", fmt.Sprintf("notification %d:%d received in round %d is not acknowledged in the next PublishRequest (%s)", sid, s.seq, i, obs[i+1]))
			}
		}
		if s.kind != "timeout" && len(s.results) == len(seen[i]) {
			for j, st := range s.results {
				if letter(st) == 'x' {
					continue
				}
				a := seen[i][j]
				for k := i + 1; k < len(seen); k++ {
					for _, b := range seen[k] {
						if a == b {
							e.r.Fail(line, "", fmt.Sprintf("acknowledgement %d:%d was answered %v in round %d and is sent again in request %d", a.SubscriptionID, a.SequenceNumber, st, i, k))
						}
					}
				}
			}
		}
	}
}

// ---------------------------------------------------------------- 3. reconnect scenarios

type subRec struct {
	sub    *opcua.Subscription
	ch     chan *opcua.PublishNotificationData
	nodes  []int // variable indexes monitored
	handle []uint32
}

func errKind(err error) string {
	switch {
	case errors.Is(err, io.EOF):
		return "eof"
	case errors.Is(err, syscall.ECONNREFUSED):
		return "refused"
	case errors.Is(err, ua.StatusBadSecureChannelIDInvalid):
		return "chan"
	case errors.Is(err, ua.StatusBadSessionIDInvalid):
		return "sess"
	case errors.Is(err, ua.StatusBadSubscriptionIDInvalid):
		return "sub"
	case errors.Is(err, ua.StatusBadCertificateInvalid):
		return "cert"
	}
	return "other"
}

func registry(c *opcua.Client) string {
	var p []string
	for _, s := range c.VerifSubs() {
		p = append(p, fmt.Sprintf("%d:%d", s.SubscriptionID, s.VerifItemCount()))
	}
	if len(p) == 0 {
		return "-"
	}
	return strings.Join(p, ",")
}

// segment is one pass through the reconnect code of monitor.
type segment struct {
	kind    string
	actions []int
	// recreate events in order
	forgets []uint32
	created map[uint32]uint32
	done    int
	closed  bool
	resumed bool
	// ids of a TransferSubscriptions request the server accepted (all transferred)
	transferred []uint32
	// old ids whose recreated subscription was registered
	registered map[uint32]bool
}

func segments(evs []xsubs.Event) []*segment {
	var out []*segment
	var cur *segment
	for _, ev := range evs {
		switch ev.Name {
		case "monitor.error":
			err, _ := ev.Args[0].(error)
			cur = &segment{kind: errKind(err), created: map[uint32]uint32{}, registered: map[uint32]bool{}, done: -1}
			out = append(out, cur)
		case "monitor.action":
			if cur != nil {
				cur.actions = append(cur.actions, int(ev.Args[0].(uint8)))
			}
		case "forget.locked":
			if cur != nil && len(cur.actions) > 0 && cur.actions[len(cur.actions)-1] == 4 && !cur.closed {
				cur.forgets = append(cur.forgets, ev.Args[0].(uint32))
			}
		case "recreate.created":
			if cur != nil {
				cur.created[ev.Args[0].(uint32)] = ev.Args[1].(uint32)
			}
		case "recreate.registered":
			if cur != nil {
				cur.registered[ev.Args[0].(uint32)] = true
			}
		case "monitor.done":
			if cur != nil {
				cur.done = ev.Args[0].(int)
				cur.closed = true
			}
		case "publoop.resumed":
			if cur != nil && cur.closed {
				cur.resumed = true
			}
		}
	}
	return out
}

// steps renders the observed outcomes of a segment in the driver's syntax.
func (s *segment) steps() (string, bool) {
	var out []string
	for i, a := range s.actions {
		next := 0
		if i+1 < len(s.actions) {
			next = s.actions[i+1]
		}
		switch a {
		case 1:
			out = append(out, "D")
		case 2:
			switch next {
			case 4:
				out = append(out, "R011")
			case 3:
				out = append(out, "R001")
			case 1:
				out = append(out, "R010")
			default:
				return "", false
			}
		case 3:
			switch next {
			case 5:
				out = append(out, "S111")
			case 1:
				out = append(out, "S011")
			default:
				return "", false
			}
		case 5:
			if len(s.transferred) > 0 {
				// the server transferred every subscription: all are republished
				ids := make([]string, len(s.transferred))
				for j, f := range s.transferred {
					ids[j] = fmt.Sprint(f)
				}
				out = append(out, "T:"+strings.Join(ids, ",")+":r"+strings.Repeat("0", len(ids)))
				continue
			}
			// the gopcua server answers TransferSubscriptions with BadServiceUnsupported:
			// all ids are recreated in the order SubscriptionIDs() returned them
			ids := make([]string, len(s.forgets))
			for j, f := range s.forgets {
				ids[j] = fmt.Sprint(f)
			}
			l := strings.Join(ids, ",")
			if l == "" {
				l = "-"
			}
			out = append(out, "T:"+l+":u")
		case 4:
			if len(s.transferred) > 0 {
				// a transferred subscription whose republish failed is recreated: its id
				// shows up in a forget event
				bits := ""
				for _, id := range s.transferred {
					failed := false
					for _, f := range s.forgets {
						if f == id {
							failed = true
						}
					}
					if failed {
						bits += "0"
					} else {
						bits += "1"
					}
				}
				var recs []string
				for _, f := range s.forgets {
					if nid, ok := s.created[f]; ok {
						recs = append(recs, fmt.Sprintf("c%do", nid))
					} else {
						recs = append(recs, "f")
					}
				}
				l := "-"
				if len(recs) > 0 {
					l = strings.Join(recs, ",")
				}
				out = append(out, "P:"+bits+":"+l)
				continue
			}
			var recs []string
			for _, f := range s.forgets {
				if nid, ok := s.created[f]; ok {
					recs = append(recs, fmt.Sprintf("c%do", nid))
				} else {
					recs = append(recs, "f")
				}
			}
			l := strings.Join(recs, ",")
			if l == "" {
				l = "-"
			}
			out = append(out, "P:-:"+l)
		default:
			return "", false
		}
	}
	return strings.Join(out, " "), true
}

type scenResult struct {
	infra        string
	before       string
	after        string
	segs         []*segment
	missing      []string // "sub<k>/v<i>" pairs that did not deliver after the reconnect
	publishAfter int
	nBefore      int
	nAfter       int
	// subscriptions the server deleted on its own after the fault
	serverDeleted int
	// data publishes the server believes it sent after the fault
	serverSent int
	// transfer + republish against a server with a retransmission queue
	rt          *retransInfo
	republished map[uint32][]int32 // values the application received during the republish, per subscription
	nextAfter   map[uint32]uint32  // Subscription.nextSeq after the republish
}

func drainAll(subs []*subRec) {
	for _, s := range subs {
		for {
			select {
			case <-s.ch:
				continue
			default:
			}
			break
		}
	}
}

// delivered waits until the subscription's channel carries value v for handle.
func delivered(s *subRec, handle uint32, v int32, d time.Duration) bool {
	t := time.After(d)
	for {
		select {
		case m := <-s.ch:
			if m == nil || m.Error != nil {
				continue
			}
			if dc, ok := m.Value.(*ua.DataChangeNotification); ok {
				for _, it := range dc.MonitoredItems {
					if it.ClientHandle == handle && it.Value != nil && it.Value.Value != nil {
						if x, ok := it.Value.Value.Value().(int32); ok && x == v {
							return true
						}
					}
				}
			}
		case <-t:
			return false
		}
	}
}

// backend is the server side of a reconnect scenario.
type backend interface {
	URL() string
	NodeID(v int) *ua.NodeID
	// Change makes variable v (monitored by sub with the given client handle) take
	// the value val and has the server publish it.
	Change(sub *opcua.Subscription, handle uint32, v int, val int32) error
	Fault(kind string) error
	PublishAfter() int     // PublishRequests seen after the fault
	ServerDeleted() int    // subscriptions the server deleted after the fault
	ServerSent() int       // publish responses (data or keep-alive) the server believes it sent after the fault
	Retrans() *retransInfo // what a server with a retransmission queue saw (nil otherwise)
	Close()
}

// retransInfo: the scripted server's view of a transfer + republish.
type retransInfo struct {
	transferred []uint32            // ids of the accepted TransferSubscriptions request
	nextBefore  map[uint32]uint32   // per subscription: the sequence number after the last one the client received
	queue       map[uint32][]retMsg // per subscription: notifications sent but lost with the connection
	requested   map[uint32][]uint32 // per subscription: RetransmitSequenceNumber of every RepublishRequest
	acked       map[[2]uint32]int   // (subscription, sequence number) → how often it was acknowledged after the fault
	// the acknowledgements of the first PublishRequest after the fault that acknowledges a
	// republished message (a request the client sent just before the connection died may
	// still arrive after the fault was injected; it carries older acknowledgements only)
	firstAcks [][2]uint32
	sawFirst  bool
}

type retMsg struct {
	seq    uint32
	handle uint32
	val    int32
}

// realBackend: the gopcua server of /repo/server behind a cutting TCP proxy.
type realBackend struct {
	srv     *xreal.Real
	px      *xsubs.Proxy
	nvars   int
	mu      sync.Mutex
	faulted bool
	deleted int
	sent    int
}

func newRealBackend(nvars int) (*realBackend, error) {
	srv, err := xreal.StartReal(0, nvars)
	if err != nil {
		return nil, err
	}
	px, err := xsubs.NewProxy(srv.Addr())
	if err != nil {
		srv.Close()
		return nil, err
	}
	b := &realBackend{srv: srv, px: px, nvars: nvars}
	server.VerifSetHook(func(name string, args ...interface{}) {
		switch name {
		case "DeleteSubscription":
			b.mu.Lock()
			if b.faulted {
				b.deleted++
			}
			b.mu.Unlock()
		case "sub.publish", "sub.keepalive":
			b.mu.Lock()
			if b.faulted {
				b.sent++
			}
			b.mu.Unlock()
		}
	})
	return b, nil
}

func (b *realBackend) URL() string             { return b.px.URL() }
func (b *realBackend) NodeID(v int) *ua.NodeID { return b.srv.NodeID(v) }
func (b *realBackend) Change(sub *opcua.Subscription, handle uint32, v int, val int32) error {
	if st := b.srv.Set(v, val); st != ua.StatusOK {
		return fmt.Errorf("server write failed: %v", st)
	}
	return nil
}
func (b *realBackend) Fault(kind string) error {
	b.mu.Lock()
	b.faulted = true
	b.mu.Unlock()
	switch kind {
	case "cut":
		b.px.Cut()
	case "restart":
		b.px.Hold(true)
		b.px.Cut()
		b.srv.Close()
		b.mu.Lock()
		b.faulted = false // deletions caused by closing the old server do not count
		b.mu.Unlock()
		srv2, err := xreal.StartReal(0, b.nvars)
		if err != nil {
			return err
		}
		b.srv = srv2
		b.px.SetBackend(srv2.Addr())
		b.px.Hold(false)
	}
	return nil
}
func (b *realBackend) PublishAfter() int { return b.px.CountSinceCut(826) }
func (b *realBackend) ServerDeleted() int {
	b.mu.Lock()
	defer b.mu.Unlock()
	return b.deleted
}
func (b *realBackend) ServerSent() int {
	b.mu.Lock()
	defer b.mu.Unlock()
	return b.sent
}
func (b *realBackend) Retrans() *retransInfo { return nil }
func (b *realBackend) Close() {
	server.VerifSetHook(nil)
	b.px.Close()
	b.srv.Close()
}

// scriptedBackend: a server that keeps subscriptions (and, for kind
// "cut-scripted", the session) across a dropped connection and answers a
// PublishRequest on whatever connection it arrives — what the specification asks
// of a server.  It keeps track of subscriptions and monitored items: a data change
// is only published for an item that exists on the server.  With kind
// "session-scripted" the fault also invalidates the session (ActivateSession of the
// old session fails, the subscriptions outlive it, TransferSubscriptions is not
// supported): the client has to recreate the subscriptions, which are still alive
// on the server when it deletes them.
type scriptedBackend struct {
	srv          *xsubs.Scripted
	mu           sync.Mutex
	held         []heldPub
	after        int
	faulted      bool
	seq          map[uint32]uint32
	subs         map[uint32]map[uint32]bool // subscription id → client handles of its items
	nextSub      uint32
	nextItem     uint32
	sessionValid bool
	transferOK   bool
	rt           *retransInfo
	zombie       map[uint32]bool // transferred with Good but dead: Republish → BadSubscriptionIDInvalid
}

type heldPub struct {
	c     *xsubs.SConn
	reqID uint32
	req   ua.Request
	at    time.Time
}

// the client gives up on a PublishRequest after its request timeout (3 s in the
// scenarios); a held request older than this is not answered any more
const heldMaxAge = 2 * time.Second

func newScriptedBackend() (*scriptedBackend, error) {
	b := &scriptedBackend{seq: map[uint32]uint32{}, subs: map[uint32]map[uint32]bool{}, sessionValid: true}
	srv, err := xsubs.StartScripted(func(s *xsubs.Scripted, c *xsubs.SConn, reqID uint32, r ua.Request) ua.Response {
		b.mu.Lock()
		defer b.mu.Unlock()
		switch req := r.(type) {
		case *ua.PublishRequest:
			b.held = append(b.held, heldPub{c, reqID, r, time.Now()})
			if b.faulted {
				b.after++
				if b.rt != nil {
					var these [][2]uint32
					republished := false
					for _, a := range req.SubscriptionAcknowledgements {
						b.rt.acked[[2]uint32{a.SubscriptionID, a.SequenceNumber}]++
						these = append(these, [2]uint32{a.SubscriptionID, a.SequenceNumber})
						for _, m := range b.rt.queue[a.SubscriptionID] {
							if m.seq == a.SequenceNumber {
								republished = true
							}
						}
					}
					if republished && !b.rt.sawFirst {
						b.rt.firstAcks, b.rt.sawFirst = these, true
					}
				}
			}
			return nil
		case *ua.TransferSubscriptionsRequest:
			if !b.transferOK {
				break
			}
			res := make([]*ua.TransferResult, len(req.SubscriptionIDs))
			for i, id := range req.SubscriptionIDs {
				if b.zombie[id] {
					res[i] = &ua.TransferResult{StatusCode: ua.StatusOK, AvailableSequenceNumbers: []uint32{}}
					continue
				}
				if _, ok := b.subs[id]; !ok {
					res[i] = &ua.TransferResult{StatusCode: ua.StatusBadSubscriptionIDInvalid, AvailableSequenceNumbers: []uint32{}}
					continue
				}
				av := []uint32{}
				for _, m := range b.rt.queue[id] {
					av = append(av, m.seq)
				}
				res[i] = &ua.TransferResult{StatusCode: ua.StatusOK, AvailableSequenceNumbers: av}
			}
			b.rt.transferred = append([]uint32(nil), req.SubscriptionIDs...)
			return &ua.TransferSubscriptionsResponse{ResponseHeader: xsubs.Hdr(r, ua.StatusOK), Results: res, DiagnosticInfos: []*ua.DiagnosticInfo{}}
		case *ua.RepublishRequest:
			if b.rt == nil {
				break
			}
			b.rt.requested[req.SubscriptionID] = append(b.rt.requested[req.SubscriptionID], req.RetransmitSequenceNumber)
			if b.zombie[req.SubscriptionID] {
				return xsubs.Fault(r, ua.StatusBadSubscriptionIDInvalid)
			}
			for _, m := range b.rt.queue[req.SubscriptionID] {
				if m.seq == req.RetransmitSequenceNumber {
					resp := xsubs.DataResponse(r, req.SubscriptionID, m.seq, 1, nil, m.handle, m.val)
					return &ua.RepublishResponse{ResponseHeader: xsubs.Hdr(r, ua.StatusOK), NotificationMessage: resp.NotificationMessage}
				}
			}
			return xsubs.Fault(r, ua.StatusBadMessageNotAvailable)
		case *ua.CreateSessionRequest:
			b.sessionValid = true
		case *ua.ActivateSessionRequest:
			if !b.sessionValid {
				return xsubs.Fault(r, ua.StatusBadSessionIDInvalid)
			}
		case *ua.CreateSubscriptionRequest:
			b.nextSub++
			b.subs[b.nextSub] = map[uint32]bool{}
			return &ua.CreateSubscriptionResponse{
				ResponseHeader:            xsubs.Hdr(r, ua.StatusOK),
				SubscriptionID:            b.nextSub,
				RevisedPublishingInterval: req.RequestedPublishingInterval,
				RevisedLifetimeCount:      req.RequestedLifetimeCount,
				RevisedMaxKeepAliveCount:  req.RequestedMaxKeepAliveCount,
			}
		case *ua.CreateMonitoredItemsRequest:
			res := make([]*ua.MonitoredItemCreateResult, len(req.ItemsToCreate))
			for i, it := range req.ItemsToCreate {
				if items, ok := b.subs[req.SubscriptionID]; ok {
					b.nextItem++
					items[it.RequestedParameters.ClientHandle] = true
					res[i] = &ua.MonitoredItemCreateResult{StatusCode: ua.StatusOK, MonitoredItemID: b.nextItem, RevisedQueueSize: 1, FilterResult: ua.NewExtensionObject(nil)}
				} else {
					res[i] = &ua.MonitoredItemCreateResult{StatusCode: ua.StatusBadSubscriptionIDInvalid, FilterResult: ua.NewExtensionObject(nil)}
				}
			}
			return &ua.CreateMonitoredItemsResponse{ResponseHeader: xsubs.Hdr(r, ua.StatusOK), Results: res, DiagnosticInfos: []*ua.DiagnosticInfo{}}
		case *ua.DeleteSubscriptionsRequest:
			res := make([]ua.StatusCode, len(req.SubscriptionIDs))
			for i, id := range req.SubscriptionIDs {
				if _, ok := b.subs[id]; ok {
					delete(b.subs, id)
					res[i] = ua.StatusOK
				} else {
					res[i] = ua.StatusBadSubscriptionIDInvalid
				}
			}
			return &ua.DeleteSubscriptionsResponse{ResponseHeader: xsubs.Hdr(r, ua.StatusOK), Results: res, DiagnosticInfos: []*ua.DiagnosticInfo{}}
		}
		return s.Default(r)
	})
	if err != nil {
		return nil, err
	}
	b.srv = srv
	return b, nil
}

func (b *scriptedBackend) URL() string { return b.srv.URL() }
func (b *scriptedBackend) NodeID(v int) *ua.NodeID {
	return ua.NewStringNodeID(2, fmt.Sprintf("v%d", v))
}
func (b *scriptedBackend) Change(sub *opcua.Subscription, handle uint32, v int, val int32) error {
	// the value is only published if the subscription exists on the server and has
	// an item with that handle, and a PublishRequest is outstanding
	has := func() bool {
		items, ok := b.subs[sub.SubscriptionID]
		return ok && items[handle]
	}
	fresh := func() bool {
		b.mu.Lock()
		defer b.mu.Unlock()
		k := 0
		for _, x := range b.held {
			if time.Since(x.at) < heldMaxAge {
				b.held[k] = x
				k++
			}
		}
		b.held = b.held[:k]
		return k > 0
	}
	xsubs.WaitFor(4*time.Second, fresh)
	b.mu.Lock()
	if len(b.held) == 0 || !has() {
		b.mu.Unlock()
		return nil
	}
	hd := b.held[len(b.held)-1]
	b.held = b.held[:len(b.held)-1]
	b.seq[sub.SubscriptionID]++
	seq := b.seq[sub.SubscriptionID]
	b.mu.Unlock()
	hd.c.Reply(hd.reqID, xsubs.DataResponse(hd.req, sub.SubscriptionID, seq, 1, nil, handle, val))
	return nil
}
func (b *scriptedBackend) Fault(kind string) error {
	b.mu.Lock()
	b.faulted = true
	b.held = nil
	if kind == "session-scripted" || kind == "session2-scripted" || kind == "transfer-scripted" || kind == "transfer-gap-scripted" || kind == "transfer-dead-scripted" {
		b.sessionValid = false
	}
	if kind == "transfer-dead-scripted" {
		// the server accepts the transfer (Good) although the subscriptions are not usable in
		// the new session any more: Republish answers BadSubscriptionIDInvalid
		b.transferOK = true
		b.rt = &retransInfo{nextBefore: map[uint32]uint32{}, queue: map[uint32][]retMsg{}, requested: map[uint32][]uint32{}, acked: map[[2]uint32]int{}}
		b.zombie = map[uint32]bool{}
		for id := range b.subs {
			b.zombie[id] = true
			delete(b.subs, id)
		}
	}
	if kind == "transfer-scripted" || kind == "transfer-gap-scripted" {
		// the server supports TransferSubscriptions and keeps a retransmission queue:
		// two notifications per subscription were sent on the connection that is
		// about to die (the client never sees them); with "gap" the oldest of them has
		// already been dropped from the queue
		b.transferOK = true
		b.rt = &retransInfo{nextBefore: map[uint32]uint32{}, queue: map[uint32][]retMsg{}, requested: map[uint32][]uint32{}, acked: map[[2]uint32]int{}}
		for id, items := range b.subs {
			var hd uint32
			for x := range items {
				if hd == 0 || x < hd {
					hd = x
				}
			}
			b.rt.nextBefore[id] = b.seq[id] + 1
			for k := 0; k < 2; k++ {
				b.seq[id]++
				if kind == "transfer-gap-scripted" && k == 0 {
					continue
				}
				b.rt.queue[id] = append(b.rt.queue[id], retMsg{b.seq[id], hd, int32(5000 + 10*int(id) + k)})
			}
		}
	}
	b.mu.Unlock()
	b.srv.DropConns()
	return nil
}
func (b *scriptedBackend) Retrans() *retransInfo {
	b.mu.Lock()
	defer b.mu.Unlock()
	return b.rt
}
func (b *scriptedBackend) PublishAfter() int {
	b.mu.Lock()
	defer b.mu.Unlock()
	return b.after
}
func (b *scriptedBackend) ServerDeleted() int { return 0 }
func (b *scriptedBackend) ServerSent() int    { return 0 }
func (b *scriptedBackend) Close()             { b.srv.Close() }

func (e *env) scenario(kind string, nsubs, nitems int) *scenResult {
	res := &scenResult{}
	nvars := nsubs * nitems
	var be backend
	var err error
	if strings.HasSuffix(kind, "-scripted") {
		be, err = newScriptedBackend()
	} else {
		be, err = newRealBackend(nvars)
	}
	if err != nil {
		res.infra = "start server: " + err.Error()
		return res
	}
	defer be.Close()
	rec := xsubs.NewRecorder()
	opcua.VerifSetHook(rec.Hook)
	defer opcua.VerifSetHook(nil)
	c, err := opcua.NewClient(be.URL(), opcua.SecurityMode(ua.MessageSecurityModeNone), opcua.AutoReconnect(true),
		opcua.ReconnectInterval(50*time.Millisecond), opcua.RequestTimeout(3*time.Second))
	if err != nil {
		res.infra = err.Error()
		return res
	}
	ctx, cancel := context.WithTimeout(context.Background(), 30*time.Second)
	defer cancel()
	if err := c.Connect(ctx); err != nil {
		res.infra = "connect: " + err.Error()
		return res
	}
	xsubs.LoopStarted(c.VerifChanLens)
	defer c.Close(context.Background())
	var subs []*subRec
	for k := 0; k < nsubs; k++ {
		sr := &subRec{ch: make(chan *opcua.PublishNotificationData, 4096)}
		sr.sub, err = c.Subscribe(ctx, &opcua.SubscriptionParameters{Interval: 20 * time.Millisecond, MaxKeepAliveCount: 10, LifetimeCount: 1000}, sr.ch)
		if err != nil {
			res.infra = "subscribe: " + err.Error()
			return res
		}
		var reqs []*ua.MonitoredItemCreateRequest
		for i := 0; i < nitems; i++ {
			v := k*nitems + i
			hd := uint32(100 + v)
			sr.nodes = append(sr.nodes, v)
			sr.handle = append(sr.handle, hd)
			reqs = append(reqs, opcua.NewMonitoredItemCreateRequestWithDefaults(be.NodeID(v), ua.AttributeIDValue, hd))
		}
		// items with an even index are monitored with TimestampsToReturn=Both, the odd
		// ones with Source: a recreation has to handle more than one timestamp group
		groups := map[ua.TimestampsToReturn][]*ua.MonitoredItemCreateRequest{}
		for i, rq := range reqs {
			ts := ua.TimestampsToReturnBoth
			if i%2 == 1 {
				ts = ua.TimestampsToReturnSource
			}
			groups[ts] = append(groups[ts], rq)
		}
		for _, ts := range []ua.TimestampsToReturn{ua.TimestampsToReturnBoth, ua.TimestampsToReturnSource} {
			if len(groups[ts]) == 0 {
				continue
			}
			mres, err := sr.sub.Monitor(ctx, ts, groups[ts]...)
			if err != nil || len(mres.Results) != len(groups[ts]) {
				res.infra = fmt.Sprintf("monitor: %v", err)
				return res
			}
		}
		subs = append(subs, sr)
	}
	// sanity before the fault: every item delivers (otherwise the set-up, not the
	// reconnect, is at fault)
	val := int32(1000)
	for _, s := range subs {
		for i, v := range s.nodes {
			val++
			if err := be.Change(s.sub, s.handle[i], v, val); err != nil {
				res.infra = err.Error()
				return res
			}
			if !delivered(s, s.handle[i], val, 3*time.Second) {
				res.infra = fmt.Sprintf("item v%d does not deliver before the fault", v)
				return res
			}
		}
	}
	res.before = registry(c)
	res.nBefore = len(c.VerifSubs())
	mark := rec.Mark()

	// ---- the fault
	faultAndWait := func() string {
		doneBefore := rec.Hits("monitor.done")
		if err := be.Fault(kind); err != nil {
			return "fault: " + err.Error()
		}
		// wait for the reconnect to finish: monitor.done seen and no further error
		// segment opened for a while
		if !xsubs.WaitFor(10*time.Second, func() bool { return rec.Hits("monitor.done") > doneBefore }) {
			return "reconnect did not finish within 10 s"
		}
		for {
			a, b := rec.Hits("monitor.error"), rec.Hits("monitor.done")
			time.Sleep(600 * time.Millisecond)
			if rec.Hits("monitor.error") == a && rec.Hits("monitor.done") == b && a == b {
				break
			}
			if ctx.Err() != nil {
				return "reconnect keeps cycling"
			}
		}
		if c.State() != opcua.Connected {
			return fmt.Sprintf("client state %v after the reconnect", c.State())
		}
		res.segs = segments(rec.Events()[mark:])
		res.after = registry(c)
		res.nAfter = len(c.VerifSubs())
		res.publishAfter = be.PublishAfter()
		return ""
	}
	if res.infra = faultAndWait(); res.infra != "" {
		return res
	}

	if rt := be.Retrans(); rt != nil {
		res.rt = rt
		for _, sg := range res.segs {
			sg.transferred = rt.transferred
		}
		// what the application received while the client republished
		res.republished = map[uint32][]int32{}
		for _, s := range subs {
			for {
				var m *opcua.PublishNotificationData
				select {
				case m = <-s.ch:
				default:
				}
				if m == nil {
					break
				}
				if dc, ok := m.Value.(*ua.DataChangeNotification); ok && m.Error == nil {
					for _, it := range dc.MonitoredItems {
						if x, ok := it.Value.Value.Value().(int32); ok {
							res.republished[s.sub.SubscriptionID] = append(res.republished[s.sub.SubscriptionID], x)
						}
					}
				}
			}
			_, nx := s.sub.VerifSeq()
			if res.nextAfter == nil {
				res.nextAfter = map[uint32]uint32{}
			}
			res.nextAfter[s.sub.SubscriptionID] = nx
		}
	}
	// ---- the property's own oracle: every subscription that was active keeps
	// delivering data changes for all of its monitored items
	oracle := func() {
		res.missing = nil
		drainAll(subs)
		for k, s := range subs {
			for i, v := range s.nodes {
				val++
				if err := be.Change(s.sub, s.handle[i], v, val); err != nil {
					res.infra = err.Error()
					return
				}
				if !delivered(s, s.handle[i], val, 1500*time.Millisecond) {
					// one more change before the item counts as dead (a publish answered
					// just as the client's request timed out is lost without any defect)
					val++
					if err := be.Change(s.sub, s.handle[i], v, val); err != nil {
						res.infra = err.Error()
						return
					}
					if !delivered(s, s.handle[i], val, 1500*time.Millisecond) {
						res.missing = append(res.missing, fmt.Sprintf("sub%d/v%d", k, v))
					}
				}
			}
		}
	}
	oracle()
	if res.infra != "" {
		return res
	}
	if kind == "session2-scripted" && len(res.missing) == 0 {
		// a second session loss: the subscriptions recreated a moment ago are recreated
		// again, from what the client remembers of them now
		if res.infra = faultAndWait(); res.infra != "" {
			return res
		}
		oracle()
		if res.infra != "" {
			return res
		}
	}
	if be.Retrans() != nil {
		// let the PublishRequest that follows the last delivery arrive: it is the last
		// one in which an acknowledgement could still show up
		n := be.PublishAfter()
		xsubs.WaitFor(1500*time.Millisecond, func() bool { return be.PublishAfter() > n || be.PublishAfter() >= nvars+1 })
	}
	res.serverDeleted = be.ServerDeleted()
	res.serverSent = be.ServerSent()
	res.publishAfter = be.PublishAfter()
	return res
}

func u32s(l []uint32) string {
	if len(l) == 0 {
		return "-"
	}
	p := make([]string, len(l))
	for i, x := range l {
		p[i] = fmt.Sprint(x)
	}
	return strings.Join(p, ",")
}

// republishChecks: the transfer + republish part of a scenario against the scripted
// server with a retransmission queue.
func (e *env) republishChecks(name string, res *scenResult) {
	rt := res.rt
	var ids []uint32
	for id := range rt.queue {
		ids = append(ids, id)
	}
	sort.Slice(ids, func(i, j int) bool { return ids[i] < ids[j] })
	for _, id := range ids {
		q := rt.queue[id]
		var seqs []uint32
		valOf := map[int32]uint32{}
		for _, m := range q {
			seqs = append(seqs, m.seq)
			valOf[m.val] = m.seq
		}
		// ---- model: the real loop's requests, deliveries and final nextSeq
		var del []uint32
		for _, v := range res.republished[id] {
			if sq, ok := valOf[v]; ok {
				del = append(del, sq)
			} else {
				del = append(del, 0) // something that is not in the queue was delivered
			}
		}
		// the acknowledgements for this subscription's republished messages in the first
		// PublishRequest after the reconnect, in order
		var first []uint32
		for _, a := range rt.firstAcks {
			if a[0] == id {
				for _, m := range q {
					if m.seq == a[1] {
						first = append(first, a[1])
					}
				}
			}
		}
		line := fmt.Sprintf("republish %s %s %d", u32s(seqs), u32s(seqs), rt.nextBefore[id])
		impl := fmt.Sprintf("delivered=%s requested=%s next=%d outcome=done ok=1 acks=%s", u32s(del), u32s(rt.requested[id]), res.nextAfter[id], u32s(first))
		e.r.Count(name+" "+line, true)
		e.r.Hit("republish:loop")
		e.r.Compare(e.d, line, impl)
		e.r.Sample(name + ": " + line + " -> " + impl)
		// ---- own oracle 1: every notification the server still holds is delivered,
		// once, in order
		want := u32s(seqs)
		if u32s(del) != want {
			detail := fmt.Sprintf("%s: subscription %d expected message %d next; the server holds %s in its retransmission queue; RepublishRequests for %s; delivered to the application: %s",
				name, id, rt.nextBefore[id], want, u32s(rt.requested[id]), u32s(del))
			sig := ""
			if len(seqs) > 0 && seqs[0] > rt.nextBefore[id] && len(del) == 0 && u32s(rt.requested[id]) == fmt.Sprint(rt.nextBefore[id]) {
				sig = sigGap
			}
			e.r.Fail(name, sig, detail)
			if sig != "" {
				e.r.Confirm(sig, detail)
			}
		} else {
			e.r.Hit("republish:all-held-delivered-once")
		}
		// ---- own oracle 2: each notification the client received is acknowledged exactly once
		for _, sq := range del {
			n := rt.acked[[2]uint32{id, sq}]
			if n == 1 {
				e.r.Hit("republish:acknowledged-once")
				continue
			}
			detail := fmt.Sprintf("%s: republished notification %d/%d was handed to the application and acknowledged %d times in the %d PublishRequests that followed", name, id, sq, n, res.publishAfter)
			e.r.Fail(name, "", detail)
		}
	}
}

func sortReg(s string) string {
	if s == "-" {
		return s
	}
	p := strings.Split(s, ",")
	sort.Slice(p, func(i, j int) bool {
		var a, b, x int
		fmt.Sscanf(p[i], "%d:%d", &a, &x)
		fmt.Sscanf(p[j], "%d:%d", &b, &x)
		return a < b
	})
	return strings.Join(p, ",")
}

func (e *env) runScenario(kind string, nsubs, nitems int) {
	name := fmt.Sprintf("scenario %s subs=%d items=%d", kind, nsubs, nitems)
	var res *scenResult
	var line, impl, model string
	for attempt := 0; attempt < 2; attempt++ {
		res = e.scenario(kind, nsubs, nitems)
		if res.infra != "" {
			continue
		}
		// model replay of every segment, chained through the predicted registry
		reg := res.before
		model, impl, line = "", "", ""
		ok := true
		for i, s := range res.segs {
			st, good := s.steps()
			if !good || s.done < 0 {
				ok = false
				break
			}
			line = fmt.Sprintf("reconnect %s %s %s", reg, s.kind, st)
			loop := "paused"
			if s.resumed {
				loop = "running"
			}
			after := res.after
			if e.d != nil {
				model = e.d.Ask(line)
				f := strings.Fields(model)
				if len(f) == 5 {
					f[4] = sortReg(f[4])
					model = strings.Join(f, " ")
					if i+1 < len(res.segs) {
						after = f[4] // intermediate registries are not observed
					}
					reg = f[4]
				}
			}
			impl = fmt.Sprintf("0 1 %d %s %s", s.done, loop, after)
			if e.d != nil && model != impl {
				ok = false
				break
			}
		}
		if ok || e.d == nil {
			break
		}
		// a timing flake in the observation (e.g. the resume seen late) would show
		// up as a disagreement: run the scenario again before reporting it
		e.r.Hit("scenario-retry")
	}
	if res.infra != "" {
		e.r.InfraError = name + ": " + res.infra
		return
	}
	e.r.Count(name+" "+line, true)
	e.r.TracesValidated++
	e.r.Hit("scenario:" + kind)
	for _, s := range res.segs {
		e.r.Hit(fmt.Sprintf("path:%v", s.actions))
	}
	if e.d != nil && line != "" && model != impl {
		e.r.Disagree(line, model, impl)
	}
	e.r.Sample(fmt.Sprintf("%s: %s -> %s | publish requests after reconnect=%d missing=%v", name, line, impl, res.publishAfter, res.missing))

	if res.rt != nil {
		e.republishChecks(name, res)
	}
	if len(res.missing) == 0 {
		e.r.Hit("oracle:all-items-deliver")
		return
	}
	// classify the failure by narrow, observable predicates
	last := res.segs[len(res.segs)-1]
	viaTransfer := false
	for _, s := range res.segs {
		for _, a := range s.actions {
			if a == 5 {
				viaTransfer = true
			}
		}
	}
	collisions := 0
	for _, sg := range res.segs {
		for old := range sg.created {
			if !sg.registered[old] {
				collisions++
			}
		}
	}
	detail := fmt.Sprintf("%s: after the reconnect (actions %v, activeSubs=%d, publish loop resumed=%v, %d PublishRequests on the wire; server: %d subscriptions deleted, %d publish responses sent) no data change for %v; registry %s -> %s",
		name, last.actions, last.done, last.resumed, res.publishAfter, res.serverDeleted, res.serverSent, res.missing, res.before, res.after)
	switch {
	case kind == "cut" && !viaTransfer && last.resumed && res.publishAfter > 0 && res.nAfter == res.nBefore && (res.serverDeleted >= 1 || res.serverSent >= 1):
		// the client did its part (session restored, registry intact, publishing
		// again); the gopcua server answered on the channel the subscription was
		// created on — which is gone — and/or deleted the subscription
		e.r.Fail(name, sigServer, detail)
		e.r.Confirm(sigServer, detail)
	case viaTransfer && res.nAfter < res.nBefore && len(res.missing) <= (res.nBefore-res.nAfter)*nitems && collisions >= res.nBefore-res.nAfter:
		// every lost subscription was created on the server and then refused by
		// registerSubscription (id collision), and the failure was swallowed
		e.r.Fail(name, sigRecreate, detail)
		e.r.Confirm(sigRecreate, detail)
	default:
		e.r.Fail(name, "", detail)
	}
}

func main() {
	o := h.ParseOpts()
	r := h.NewResult("C26", o)
	d, err := h.StartDriver(o.Driver)
	if err != nil {
		r.InfraError = err.Error()
		r.Write(o.Out)
		return
	}
	defer d.Close()
	e := &env{o, r, d, h.NewRand(o.Seed)}
	r.Rule = "case = one handleAcks/handleNotification call on generated input (real functions via verif hooks vs Lean), one scripted publish history (real publish loop vs Lean `requests`, acknowledgements read off the wire) or one fault scenario (real client + real gopcua server behind a cutting proxy; monitor's action trace replayed by the Lean reconnect model); non-trivial = pending list non-empty / subscription registered / every scenario; distinct by canonical case text"

	if o.Replay != "" {
		f := strings.Fields(o.Replay)
		var kind string
		var a, b int
		switch {
		case len(f) >= 4 && f[0] == "scenario":
			kind = f[1]
			fmt.Sscanf(f[2], "subs=%d", &a)
			fmt.Sscanf(f[3], "items=%d", &b)
			e.runScenario(kind, a, b)
		case len(f) >= 1 && f[0] == "rounds":
			for i := 0; i < 20; i++ {
				e.rounds(o.Seed*1000 + uint64(i))
			}
		default:
			e.pure()
		}
		r.Write(o.Out)
		return
	}

	e.pure()
	for i := 0; i < o.N(4, 40); i++ {
		e.rounds(o.Seed*1000 + uint64(i))
		if r.InfraError != "" {
			r.Write(o.Out)
			return
		}
	}
	type sc struct {
		kind string
		a, b int
	}
	list := []sc{{"cut-scripted", 1, 1}, {"cut-scripted", 2, 2}, {"session2-scripted", 1, 2}, {"session-scripted", 2, 2}, {"transfer-scripted", 2, 1}, {"transfer-gap-scripted", 1, 1}, {"transfer-dead-scripted", 2, 1}, {"cut", 1, 1}, {"cut", 2, 2}, {"restart", 1, 2}, {"restart", 5, 1}, {"restart", 2, 1}}
	if o.Thorough() {
		for i := 0; i < 12; i++ {
			k := e.rnd.Pick(0, 1, 2, 3, 4, 5, 6, 7)
			kinds := []string{"cut", "restart", "cut-scripted", "session-scripted", "transfer-scripted", "transfer-gap-scripted", "session2-scripted", "transfer-dead-scripted"}
			list = append(list, sc{kinds[k], 1 + e.rnd.Intn(3), 1 + e.rnd.Intn(3)})
		}
	}
	// a broken tree makes scenarios slow (time-outs, retries): once an unclassified
	// oracle failure or a disagreement is on record the verdict is settled
	settled := func() bool {
		if len(r.Disagreements) > 0 {
			return true
		}
		for _, f := range r.OracleFailures {
			if f.Sig == "" {
				return true
			}
		}
		return false
	}
	for _, s := range list {
		if settled() {
			r.Notes = append(r.Notes, "remaining scenarios skipped after the first unclassified failure / disagreement")
			break
		}
		e.runScenario(s.kind, s.a, s.b)
		if r.InfraError != "" {
			break
		}
		// the id collision of C26.recreate-failure-ignored depends on the order in
		// which Go iterates over c.subs: a small map is walked from a random slot,
		// so with five subscriptions the colliding orders come up in 4 of 8 runs;
		// the witness scenario is run again until one did
		if s.kind == "restart" && s.a == 5 {
			for i := 0; i < 5 && r.InfraError == "" && !settled(); i++ {
				confirmed := false
				for _, f := range r.FindingsConfirmed {
					if f == sigRecreate {
						confirmed = true
					}
				}
				if confirmed {
					break
				}
				e.runScenario(s.kind, s.a, s.b)
			}
		}
	}
	for _, b := range []string{"acks:length-mismatch", "acks:matched", "acks:status-o", "acks:status-i", "acks:status-u", "acks:status-x",
		"notif:keepalive", "notif:data-in-order", "notif:data-gap", "notif:seq-wrap", "notif:unknown-sub",
		"round:data", "round:keepalive", "round:unknown", "round:timeout", "scenario:cut", "scenario:cut-scripted", "scenario:session-scripted", "scenario:transfer-scripted", "scenario:transfer-gap-scripted", "scenario:session2-scripted", "scenario:transfer-dead-scripted", "republish:loop", "scenario:restart"} {
		if r.Distribution[b] == 0 {
			r.Unreached = append(r.Unreached, b)
		}
	}
	r.Write(o.Out)
}
