// Correspondence runner and property oracle for C27 (subscription API calls and
// the publish loop never deadlock).
//
// A scenario is a sequence of macro operations on the real client (root package
// opcua) connected to a scripted server that holds PublishRequests until told
// to answer them:
//
//	S     a Subscribe call starts (in its own goroutine)
//	F     ForgetSubscription of a registered id
//	G     ForgetSubscription of an id that is not registered (a repeated Cancel)
//	Rok   the server answers the outstanding PublishRequest with a keep-alive
//	Rerr  … with a ServiceFault BadNoSubscription (publish() fails, the loop pauses itself);
//	      only when nothing is registered.  Rlie: the same answer while a subscription is registered
//	X     the server drops the connection (publish fails with EOF and Client.monitor
//	      starts a reconnect round)
//	Gt/Dl ForgetSubscription of an unknown id with a context deadline / the deadline passes
//	U     (first) the application's notification channel is unbuffered
//	Rdata the server answers with a data notification; T the application takes it;
//	I     the application calls SubscriptionIDs() (must return within a second)
//	Rbad  the server answers with a PublishResponse whose ServiceResult is BadInternalError and
//	      SubscriptionID 0 (the error is fanned out to every subscription and Client.monitor
//	      reconnects); Te: the consumer takes one error notification
//
// After every operation the system runs to quiescence and its abstract state
// (len(pausech), len(resumech), where the loop stands, who holds subMux, which
// calls have not returned) is read through the verif hooks / verifPoint events
// and must be one of the quiescent states the Lean LTS allows.  At the end the
// property's own oracle runs on the implementation alone: every call has
// returned, and a fresh Subscribe still gets a notification delivered.
package main

import (
	"context"
	"fmt"
	"strings"
	"sync"
	"time"

	"github.com/gopcua/opcua"
	"github.com/gopcua/opcua/ua"

	"verifharness/internal/h"
	"verifharness/internal/xsubs"
)

const (
	sigSelfPause = "C27.self-pause-full"
	sigForget    = "C27.forget-blocks-holding-submux"
	sigStall     = "C27.pause-overtakes-resume"
	sigNoSub     = "C27.badnosubscription-pauses-for-good"
)

type held struct {
	c     *xsubs.SConn
	reqID uint32
	req   ua.Request
}

type sys struct {
	srv  *xsubs.Scripted
	c    *opcua.Client
	rec  *xsubs.Recorder
	mu   sync.Mutex
	held []held // PublishRequests the server has not answered
	npub int    // PublishRequests received in total

	subs        []*opcua.Subscription // returned by Subscribe and not yet forgotten
	notif       chan *opcua.PublishNotificationData
	subStarted  int
	subReturned int
	fgStarted   int
	fgReturned  int
	seq         uint32
	timeout     time.Duration
	// sawBoth: at some quiescent point a pause and a resume token were queued
	// together (the select will pick between two ready channels)
	sawBoth bool
	// a forget with a context deadline: when it started, whether the deadline has
	// passed, whether it has returned
	dlStart    time.Time
	dlPassed   bool
	dlReturned bool
	dlStarted  bool
	// SubscriptionIDs() calls that did not return within a second
	idsBlocked int
	// error notifications the consumer waited for in vain
	errNotTaken int
	// the server answered BadNoSubscription while the client had a subscription registered
	noSubWhileRegistered bool
}

const forgetDeadline = 1500 * time.Millisecond

func newSys(reqTimeout time.Duration, reconnect, unbuffered bool) (*sys, error) {
	y := &sys{notif: make(chan *opcua.PublishNotificationData, 4096), timeout: reqTimeout}
	if unbuffered {
		y.notif = make(chan *opcua.PublishNotificationData)
	}
	srv, err := xsubs.StartScripted(nil)
	if err != nil {
		return nil, err
	}
	y.srv = srv
	srv.Handler = func(s *xsubs.Scripted, c *xsubs.SConn, reqID uint32, r ua.Request) ua.Response {
		if _, ok := r.(*ua.PublishRequest); ok {
			y.mu.Lock()
			y.held = append(y.held, held{c, reqID, r})
			y.npub++
			y.mu.Unlock()
			return nil
		}
		return s.Default(r)
	}
	y.rec = xsubs.NewRecorder()
	opcua.VerifSetHook(y.rec.Hook)
	y.c, err = opcua.NewClient(srv.URL(), opcua.SecurityMode(ua.MessageSecurityModeNone), opcua.AutoReconnect(reconnect),
		opcua.ReconnectInterval(30*time.Millisecond), opcua.RequestTimeout(reqTimeout))
	if err != nil {
		return nil, err
	}
	ctx, cancel := context.WithTimeout(context.Background(), 5*time.Second)
	defer cancel()
	if err := y.c.Connect(ctx); err != nil {
		return nil, err
	}
	return y, nil
}

func (y *sys) close() {
	ctx, cancel := context.WithTimeout(context.Background(), 500*time.Millisecond)
	y.c.Close(ctx)
	cancel()
	y.srv.Close()
	time.Sleep(30 * time.Millisecond)
	opcua.VerifSetHook(nil)
}

func (y *sys) heldCount() int {
	y.mu.Lock()
	defer y.mu.Unlock()
	return len(y.held)
}

// settle waits until neither the event log nor the server's request count has
// moved for a while.
func (y *sys) settle() {
	deadline := time.Now().Add(4 * time.Second)
	stable := 0
	for {
		a, b := y.rec.Mark(), y.npubNow()
		time.Sleep(50 * time.Millisecond)
		if y.rec.Mark() == a && y.npubNow() == b {
			stable++
		} else {
			stable = 0
		}
		if stable >= 2 || time.Now().After(deadline) {
			return
		}
	}
}

func (y *sys) npubNow() int {
	y.mu.Lock()
	defer y.mu.Unlock()
	return y.npub
}

type observation struct {
	pause, resume                      int
	loop, mux                          string
	subSend, subLock, fgWait, monPause int
	nsubs                              string
	fgHolding                          int
}

func (o observation) String() string {
	return fmt.Sprintf("%d,%d,%s,%s,%d,%d,%d,%d,%s", o.pause, o.resume, o.loop, o.mux, o.subSend, o.subLock, o.fgWait, o.monPause, o.nsubs)
}

func (y *sys) observe() observation {
	y.settle()
	var o observation
	o.pause, _, o.resume, _ = y.c.VerifChanLens()
	evs := y.rec.Events()
	o.loop = "sel"
	sendS, sentS, locked, done, merr, mpassed := 0, 0, 0, 0, 0, 0
	pendingErr := false
	for _, e := range evs {
		switch e.Name {
		case "publoop.paused", "publoop.pause.ignored":
			o.loop = "paused"
		case "publish.send":
			o.loop = "inflight"
		case "publoop.publish":
			o.loop = "pubStart"
		case "publish.lock":
			o.loop = "wantLock"
		case "publoop.error":
			o.loop = "selfPause"
		case "publoop.select", "publoop.resumed", "publoop.resume.ignored", "publoop.selfpaused":
			o.loop = "sel"
		case "publish.recv":
			o.loop = "recv" // transient: the switch on err follows at once
		case "resume.send":
			if e.Args[0] == "subscribe" {
				sendS++
			}
		case "resume.sent":
			if e.Args[0] == "subscribe" {
				sentS++
			}
		case "forget.locked":
			locked++
		case "forget.done":
			done++
		case "monitor.error":
			merr++
			pendingErr = true
		case "monitor.action", "monitor.done":
			if pendingErr {
				mpassed++
				pendingErr = false
			}
		}
	}
	o.subSend = sendS - sentS
	o.subLock = sentS - y.subReturned
	o.fgWait = y.fgStarted - locked
	o.fgHolding = locked - done
	o.monPause = merr - mpassed
	lockedWait := o.loop == "wantLock"
	if o.pause > 0 && o.resume > 0 {
		y.sawBoth = true
	}
	if n, ok := y.c.VerifTryNumSubs(); ok {
		o.mux, o.nsubs = "free", fmt.Sprint(n)
	} else {
		o.mux, o.nsubs = "held", "?"
	}
	// past `publish.lock` with the lock free: the response has been handled and the
	// loop is handing the notification to the application
	if lockedWait && o.mux == "free" {
		o.loop = "notifying"
	}
	return o
}

var subParams = &opcua.SubscriptionParameters{Interval: 20 * time.Millisecond, MaxKeepAliveCount: 10, LifetimeCount: 1000}

func (y *sys) apply(op string) bool {
	switch op {
	case "S":
		// with the connection down CreateSubscription fails before any signalling
		if y.c.State() != opcua.Connected {
			return false
		}
		y.mu.Lock()
		y.subStarted++
		y.mu.Unlock()
		go func() {
			sub, err := y.c.Subscribe(context.Background(), subParams, y.notif)
			y.mu.Lock()
			y.subReturned++
			if err == nil {
				y.subs = append(y.subs, sub)
			}
			y.mu.Unlock()
		}()
	case "F":
		y.mu.Lock()
		if len(y.subs) == 0 {
			y.mu.Unlock()
			return false
		}
		id := y.subs[len(y.subs)-1].SubscriptionID
		y.subs = y.subs[:len(y.subs)-1]
		y.fgStarted++
		y.mu.Unlock()
		go func() {
			y.c.ForgetSubscription(context.Background(), id)
			y.mu.Lock()
			y.fgReturned++
			y.mu.Unlock()
		}()
	case "G":
		y.mu.Lock()
		y.fgStarted++
		y.mu.Unlock()
		go func() {
			y.c.ForgetSubscription(context.Background(), 987654)
			y.mu.Lock()
			y.fgReturned++
			y.mu.Unlock()
		}()
	case "Gt":
		y.mu.Lock()
		y.fgStarted++
		y.dlStarted, y.dlStart = true, time.Now()
		y.mu.Unlock()
		go func() {
			ctx, cancel := context.WithTimeout(context.Background(), forgetDeadline)
			defer cancel()
			y.c.ForgetSubscription(ctx, 987655)
			y.mu.Lock()
			y.fgReturned++
			y.dlReturned = true
			y.mu.Unlock()
		}()
	case "Dl":
		if !y.dlStarted {
			return false
		}
		if d := forgetDeadline + 150*time.Millisecond - time.Since(y.dlStart); d > 0 {
			time.Sleep(d)
		}
		y.dlPassed = true
	case "Rdata":
		y.mu.Lock()
		if len(y.held) == 0 || len(y.subs) == 0 {
			y.mu.Unlock()
			return false
		}
		hd := y.held[len(y.held)-1]
		y.held = y.held[:len(y.held)-1]
		id := y.subs[len(y.subs)-1].SubscriptionID
		y.mu.Unlock()
		y.seq++
		hd.c.Reply(hd.reqID, xsubs.DataResponse(hd.req, id, y.seq, 1, nil, 5, int32(y.seq)))
	case "T":
		select {
		case <-y.notif:
		case <-time.After(time.Second):
			return false
		}
	case "I":
		done := make(chan struct{})
		go func() { y.c.SubscriptionIDs(); close(done) }()
		select {
		case <-done:
		case <-time.After(time.Second):
			y.idsBlocked++
		}
	case "Rbad":
		// a PublishResponse with an unhandled bad ServiceResult and SubscriptionID 0: the
		// error is fanned out to every subscription
		y.mu.Lock()
		if len(y.held) == 0 || len(y.subs) < 2 || y.subStarted != y.subReturned {
			y.mu.Unlock()
			return false
		}
		hd := y.held[len(y.held)-1]
		y.held = nil
		y.mu.Unlock()
		y.seq++
		resp := xsubs.DataResponse(hd.req, 0, y.seq, 0, nil, 0, 0)
		resp.ResponseHeader.ServiceResult = ua.StatusBadInternalError
		hd.c.Reply(hd.reqID, resp)
	case "Te":
		// the consumer takes one (error) notification
		select {
		case <-y.notif:
		case <-time.After(1500 * time.Millisecond):
			y.errNotTaken++
		}
	case "Rlie":
		// BadNoSubscription although a subscription is registered at the client (a late
		// answer to a request the server processed while it had none, or a server at fault)
		y.mu.Lock()
		if len(y.held) == 0 || len(y.subs) == 0 || y.subStarted != y.subReturned {
			y.mu.Unlock()
			return false
		}
		hd := y.held[len(y.held)-1]
		y.held = y.held[:len(y.held)-1]
		y.noSubWhileRegistered = true
		y.mu.Unlock()
		hd.c.Reply(hd.reqID, xsubs.Fault(hd.req, ua.StatusBadNoSubscription))
	case "Rok", "Rerr":
		y.mu.Lock()
		// BadNoSubscription is only sent when it is true (nothing registered, no
		// Subscribe under way): a lying server is not part of the property
		if len(y.held) == 0 || (op == "Rerr" && (len(y.subs) > 0 || y.subStarted != y.subReturned)) {
			y.mu.Unlock()
			return false
		}
		hd := y.held[len(y.held)-1]
		y.held = y.held[:len(y.held)-1]
		y.mu.Unlock()
		if op == "Rok" {
			y.seq++
			hd.c.Reply(hd.reqID, xsubs.DataResponse(hd.req, 424242, y.seq, 0, nil, 0, 0))
		} else {
			hd.c.Reply(hd.reqID, xsubs.Fault(hd.req, ua.StatusBadNoSubscription))
		}
	case "X":
		y.mu.Lock()
		// with subscriptions registered a dropped connection runs into the C26
		// finding (restoreSession path never resumes); here only the signalling
		// is of interest, so the connection is dropped when nothing is registered
		if len(y.subs) > 0 || y.subStarted != y.subReturned {
			y.mu.Unlock()
			return false
		}
		y.held = nil
		y.mu.Unlock()
		y.srv.DropConns()
	case "N":
	}
	return true
}

// probe: the property's own oracle.  Every call issued so far must have
// returned, a fresh Subscribe must return, and a data change the server then
// publishes for it must reach the application.
func (y *sys) probe() (ok bool, why string) {
	pending := func() (int, int) {
		y.mu.Lock()
		defer y.mu.Unlock()
		return y.subStarted - y.subReturned, y.fgStarted - y.fgReturned
	}
	// a fair environment: the server answers outstanding PublishRequests (Good,
	// keep-alive); calls that only waited for the loop to come round return now
	keepAlive := func() bool {
		y.mu.Lock()
		if len(y.held) == 0 {
			y.mu.Unlock()
			return false
		}
		hd := y.held[len(y.held)-1]
		y.held = y.held[:len(y.held)-1]
		y.mu.Unlock()
		y.seq++
		hd.c.Reply(hd.reqID, xsubs.DataResponse(hd.req, 424242, y.seq, 0, nil, 0, 0))
		return true
	}
	for i := 0; i < 6; i++ {
		if a, b := pending(); a == 0 && b == 0 {
			break
		}
		if !keepAlive() {
			break
		}
		y.settle()
	}
	if y.errNotTaken > 0 {
		return false, fmt.Sprintf("%d error notifications of a failed publish never reached the consumer", y.errNotTaken)
	}
	if y.idsBlocked > 0 {
		return false, fmt.Sprintf("%d SubscriptionIDs() calls did not return within 1 s (the publish loop was handing a notification to the application)", y.idsBlocked)
	}
	if pendS, pendF := pending(); pendS > 0 || pendF > 0 {
		return false, fmt.Sprintf("%d Subscribe and %d ForgetSubscription calls have not returned although the server answered every PublishRequest", pendS, pendF)
	}
	// the loop makes progress: with a registered subscription a PublishRequest is
	// outstanding at the server (or arrives shortly)
	idsCh := make(chan int, 1)
	go func() { idsCh <- len(y.c.SubscriptionIDs()) }()
	nreg := 0
	select {
	case nreg = <-idsCh:
	case <-time.After(1500 * time.Millisecond):
		return false, "SubscriptionIDs() does not return within 1.5 s although no other call is under way"
	}
	if n := nreg; n > 0 {
		if !xsubs.WaitFor(800*time.Millisecond, func() bool { return y.heldCount() > 0 }) {
			return false, fmt.Sprintf("%d subscriptions are registered but the publish loop sends no PublishRequest", n)
		}
	}
	done := make(chan *opcua.Subscription, 1)
	ch := make(chan *opcua.PublishNotificationData, 64)
	y.mu.Lock()
	y.subStarted++
	y.mu.Unlock()
	go func() {
		s, err := y.c.Subscribe(context.Background(), subParams, ch)
		y.mu.Lock()
		y.subReturned++
		y.mu.Unlock()
		if err != nil {
			s = nil
		}
		done <- s
	}()
	var sub *opcua.Subscription
	returned := false
	for i := 0; i < 10 && !returned; i++ {
		select {
		case sub = <-done:
			returned = true
		case <-time.After(200 * time.Millisecond):
			keepAlive()
		}
	}
	if !returned {
		return false, "a fresh Subscribe call does not return within 2 s although the server answers every PublishRequest"
	}
	if sub == nil {
		return false, "a fresh Subscribe call fails"
	}
	// answer PublishRequests with a data change for the new subscription until it is delivered
	deadline := time.Now().Add(2 * time.Second)
	for time.Now().Before(deadline) {
		y.mu.Lock()
		var hd *held
		if len(y.held) > 0 {
			x := y.held[len(y.held)-1]
			y.held = y.held[:len(y.held)-1]
			hd = &x
		}
		y.mu.Unlock()
		if hd != nil {
			y.seq++
			hd.c.Reply(hd.reqID, xsubs.DataResponse(hd.req, sub.SubscriptionID, 1, 1, nil, 5, 77))
		}
		select {
		case m := <-ch:
			if m != nil && m.Error == nil {
				return true, ""
			}
		case <-time.After(40 * time.Millisecond):
		}
	}
	return false, "the publish loop makes no progress: a data change published for a fresh subscription is not delivered within 2 s"
}

type env struct {
	o   *h.Opts
	r   *h.Result
	d   *h.Driver
	rnd *h.Rand
}

const initState = "1,0,free,sel,0,0,0,0,0,0,0,0"

// scenario runs the operations; returns false on an infrastructure problem.
func (e *env) scenario(ops []string) (infra string, disagree *h.Disagreement, fail *h.OracleFailure, confirmed string, trace string) {
	reconnect, unbuffered := false, false
	for _, op := range ops {
		if op == "X" || op == "Rbad" {
			reconnect = true
		}
		if op == "U" {
			unbuffered = true
		}
	}
	y, err := newSys(20*time.Second, reconnect, unbuffered)
	if err != nil {
		return "set-up: " + err.Error(), nil, nil, "", ""
	}
	defer y.close()
	name := "ops " + strings.Join(ops, " ")
	state := initState
	var steps []string
	check := func(op string) bool {
		obs := y.observe()
		req := fmt.Sprintf("member %s %s %s", state, op, obs)
		steps = append(steps, op+"→"+obs.String())
		if e.d == nil {
			return true
		}
		if ans := e.d.Ask(req); ans != "yes" {
			disagree = &h.Disagreement{Case: name + " | " + req, Model: "allowed quiescent states: " + e.d.Ask(fmt.Sprintf("after %s %s", state, op)), Impl: obs.String()}
			return false
		}
		// several quiescent outcomes for one operation: pause and resume tokens were queued
		// together on the way and the order in which the select read them decided (the
		// situation of C27.pause-overtakes-resume, even if no quiescent point shows both)
		if all := e.d.Ask(fmt.Sprintf("after %s %s", state, op)); strings.Contains(all, "|") {
			y.sawBoth = true
		}
		state = e.d.Ask(fmt.Sprintf("pick %s %s %s", state, op, obs))
		return true
	}
	if !check("N") {
		return "", disagree, nil, "", strings.Join(steps, " ")
	}
	for _, op := range ops {
		if disagree != nil {
			break // the model lost track; the property's own oracle below still runs
		}
		if op == "U" {
			continue // scenario option: unbuffered notification channel
		}
		if !y.apply(op) {
			continue // precondition not met (nothing registered / nothing outstanding): skipped
		}
		if op == "I" || op == "Te" {
			e.r.Hit("op:" + op)
			continue // no effect on the abstract state
		}
		e.r.Hit("op:" + op)
		check(op)
	}
	verdict := "?"
	if e.d != nil {
		verdict = e.d.Ask("verdict " + state)
		e.r.Hit("model-verdict:" + verdict)
	}
	ok, why := y.probe()
	post := y.observe()
	trace = strings.Join(steps, " ") + " | model " + verdict + " | probe ok=" + fmt.Sprint(ok) + " post=" + post.String()
	if ok {
		if disagree == nil && (verdict == "dead" || verdict == "stalled") {
			disagree = &h.Disagreement{Case: name + " | verdict " + state, Model: verdict, Impl: "every call returns, the loop publishes and a fresh subscription is served"}
		}
		return "", disagree, nil, "", trace
	}
	_, pcap, _, _ := y.c.VerifChanLens()
	detail := fmt.Sprintf("%s: %s; state after the probe: len(pausech)=%d/%d loop=%s subMux=%s forget-holding-lock=%d calls-waiting-for-lock=%d client=%v",
		name, why, post.pause, pcap, post.loop, post.mux, post.fgHolding, post.fgWait+post.subLock, y.c.State())
	sig := ""
	switch {
	case post.loop == "selfPause" && post.pause == pcap && post.fgHolding == 0:
		sig = sigSelfPause
	case post.fgHolding == 1 && post.mux == "held" && post.pause == pcap && !(y.dlPassed && !y.dlReturned):
		// (a forget whose context deadline has passed must have returned: that one
		// is not the recorded finding)
		sig = sigForget
	case y.noSubWhileRegistered && !y.sawBoth && post.loop == "paused" && post.pause == 0 && post.resume == 0 && post.mux == "free" && post.nsubs != "0" &&
		post.subSend+post.subLock+post.fgWait+post.monPause == 0:
		sig = sigNoSub
	case y.sawBoth && post.loop == "paused" && post.pause == 0 && post.resume == 0 && post.mux == "free" && post.nsubs != "0" &&
		post.subSend+post.subLock+post.fgWait+post.monPause == 0:
		sig = sigStall
	}
	return "", disagree, &h.OracleFailure{Case: name, Sig: sig, Detail: detail}, sig, trace
}

func (e *env) run(ops []string) {
	name := "ops " + strings.Join(ops, " ")
	var infra, confirmed, trace string
	var dis *h.Disagreement
	var fail *h.OracleFailure
	for attempt := 0; attempt < 3; attempt++ {
		infra, dis, fail, confirmed, trace = e.scenario(ops)
		if infra == "" && dis == nil {
			break
		}
		e.r.Hit("scenario-retry")
	}
	if infra != "" {
		e.r.InfraError = name + ": " + infra
		return
	}
	e.r.Count(name, true)
	e.r.TracesValidated++
	e.r.Sample(name + " :: " + trace)
	if dis != nil {
		e.r.Disagree(dis.Case, dis.Model, dis.Impl)
		// with the model out of step only an unclassified failure of the property's
		// own oracle is reported as well
		if fail != nil && fail.Sig == "" {
			e.r.Fail(fail.Case, fail.Sig, fail.Detail)
		}
		return
	}
	if fail != nil {
		e.r.Fail(fail.Case, fail.Sig, fail.Detail)
		if confirmed != "" {
			e.r.Confirm(confirmed, fail.Detail)
		}
	} else {
		e.r.Hit("oracle:progress")
	}
}

// gateScenario holds the publish loop at its very first select (verifPoint gate)
// until the first Subscribe has returned: the initial pause token of NewClient and
// the resume token are then both ready.  Returns true when the failing branch
// (resume read first) was taken.
func (e *env) gateScenario() bool {
	name := "gate: loop held at its first select until Subscribe returned"
	srv, err := xsubs.StartScripted(nil)
	if err != nil {
		e.r.InfraError = err.Error()
		return true
	}
	defer srv.Close()
	var mu sync.Mutex
	npub := 0
	srv.Handler = func(s *xsubs.Scripted, c *xsubs.SConn, reqID uint32, r ua.Request) ua.Response {
		if _, ok := r.(*ua.PublishRequest); ok {
			mu.Lock()
			npub++
			mu.Unlock()
			return nil
		}
		return s.Default(r)
	}
	rec := xsubs.NewRecorder()
	rec.Gate("publoop.select")
	opcua.VerifSetHook(rec.Hook)
	defer opcua.VerifSetHook(nil)
	c, err := opcua.NewClient(srv.URL(), opcua.SecurityMode(ua.MessageSecurityModeNone), opcua.AutoReconnect(false), opcua.RequestTimeout(20*time.Second))
	if err != nil {
		e.r.InfraError = err.Error()
		return true
	}
	ctx, cancel := context.WithTimeout(context.Background(), 5*time.Second)
	defer cancel()
	if err := c.Connect(ctx); err != nil {
		rec.ReleaseAll()
		e.r.InfraError = "gate scenario connect: " + err.Error()
		return true
	}
	defer func() {
		cctx, ccancel := context.WithTimeout(context.Background(), 500*time.Millisecond)
		c.Close(cctx)
		ccancel()
	}()
	if _, err := c.Subscribe(ctx, subParams, make(chan *opcua.PublishNotificationData, 16)); err != nil {
		rec.ReleaseAll()
		e.r.InfraError = "gate scenario subscribe: " + err.Error()
		return true
	}
	p, _, rs, _ := c.VerifChanLens()
	rec.Release("publoop.select")
	published := xsubs.WaitFor(700*time.Millisecond, func() bool { mu.Lock(); defer mu.Unlock(); return npub > 0 })
	e.r.Count(name, true)
	e.r.Hit("op:gate")
	// model: init with one Subscribe, no loop step before the call returned
	obs := "0,0,inflight,free,0,0,0,0,1"
	if !published {
		obs = "0,0,paused,free,0,0,0,0,1"
	}
	e.r.Compare(e.d, fmt.Sprintf("member %s S %s", initState, obs), "yes")
	if published {
		e.r.Hit("gate:pause-read-first")
		return false
	}
	detail := fmt.Sprintf("%s: len(pausech)=%d len(resumech)=%d when the loop reached its select; it took the resume token first and then the stale pause token: 1 subscription registered, no PublishRequest is ever sent", name, p, rs)
	e.r.Fail(name, sigStall, detail)
	e.r.Confirm(sigStall, detail)
	return true
}

// timeoutScenario exercises the "ignored error" branch of publish(): the server
// never answers, the request times out locally and the loop goes round.
func (e *env) timeoutScenario() {
	y, err := newSys(300*time.Millisecond, false, false)
	if err != nil {
		e.r.InfraError = "timeout scenario set-up: " + err.Error()
		return
	}
	defer y.close()
	y.apply("S")
	ok := xsubs.WaitFor(3*time.Second, func() bool { return y.npubNow() >= 3 })
	name := "timeout: S then no answer"
	e.r.Count(name, true)
	e.r.Hit("op:Rign")
	if !ok {
		e.r.Fail(name, "", fmt.Sprintf("after publish time-outs the loop does not send further PublishRequests (%d seen)", y.npubNow()))
		return
	}
	// model: S, then two ignored responses: the loop must be in flight again
	st := initState
	if e.d != nil {
		for _, op := range []string{"N", "S", "Rign", "Rign"} {
			all := e.d.Ask(fmt.Sprintf("after %s %s", st, op))
			st = strings.Split(all, "|")[0]
		}
		if !strings.Contains(st, ",inflight,") {
			e.r.Disagree(name, st, "in flight again after two time-outs")
		}
	}
}

func main() {
	o := h.ParseOpts()
	r := h.NewResult("C27", o)
	d, err := h.StartDriver(o.Driver)
	if err != nil {
		r.InfraError = err.Error()
		r.Write(o.Out)
		return
	}
	defer d.Close()
	e := &env{o, r, d, h.NewRand(o.Seed)}
	r.Rule = "case = one sequence of macro operations (Subscribe / ForgetSubscription of a registered or unknown id / publish answered Good or with a fault / connection dropped) on the real client against a scripted server holding PublishRequests; after every operation the quiescent abstract state (channel lengths, loop position, subMux, unreturned calls) read through verif hooks must be a quiescent state of the Lean LTS; at the end the property's oracle (all calls returned, a fresh subscription is served) runs on the implementation alone; every scenario is non-trivial, distinct by operation sequence"

	if o.Replay != "" {
		f := strings.Fields(o.Replay)
		if len(f) > 1 && f[0] == "ops" {
			e.run(f[1:])
		}
		r.Write(o.Out)
		return
	}
	for _, l := range o.CorpusLines() {
		f := strings.Fields(l)
		if len(f) > 1 && (f[0] == "ops" || f[0] == "ops*") {
			// `ops*`: the outcome depends on which ready channel a select picks; run
			// the witness until the failing branch was taken (at most 10 times)
			n := 1
			if f[0] == "ops*" {
				n = 10
			}
			for i := 0; i < n; i++ {
				before := len(r.OracleFailures)
				e.run(f[1:])
				if r.InfraError != "" {
					r.Write(o.Out)
					return
				}
				if len(r.OracleFailures) > before {
					break
				}
			}
		}
	}
	e.timeoutScenario()
	for i := 0; i < 10 && r.InfraError == ""; i++ {
		if e.gateScenario() {
			break
		}
	}
	pool := []string{"S", "S", "S", "F", "F", "F", "G", "G", "Rok", "Rok", "Rok", "Rerr", "Rerr", "X"}
	for i := 0; i < o.N(12, 110) && r.InfraError == ""; i++ {
		n := 4 + e.rnd.Intn(6)
		ops := []string{"S"}
		usedX := false
		for len(ops) < n {
			op := pool[e.rnd.Intn(len(pool))]
			if op == "X" {
				if usedX {
					continue
				}
				usedX = true
			}
			ops = append(ops, op)
		}
		e.run(ops)
	}
	for _, b := range []string{"op:S", "op:F", "op:G", "op:Rok", "op:Rerr", "op:X", "op:Rign", "op:gate", "op:Gt", "op:Dl", "op:Rdata", "op:T", "op:I", "op:Rlie", "op:Rbad", "op:Te", "model-verdict:dead", "model-verdict:live", "oracle:progress"} {
		if r.Distribution[b] == 0 {
			r.Unreached = append(r.Unreached, b)
		}
	}
	r.Write(o.Out)
}
