// Correspondence runner and property oracle for C19: calls with short
// timeouts on a real client channel against a scripted peer that answers
// early, exactly around the deadline, late or never, cancelled contexts, and
// renewals (open()) answered around their deadline. The verifPoint events are
// replayed through the Lean LTS `SendTimeout`; the oracle (bounded return,
// slot released, later responses still delivered) runs on the real channel.
// Two forced interleavings reproduce the recorded findings.
package main

import (
	"context"
	"fmt"
	"strings"
	"sync"
	"time"

	"github.com/gopcua/opcua/ua"
	"github.com/gopcua/opcua/uacp"
	"github.com/gopcua/opcua/uasc"

	"verifharness/internal/h"
)

const (
	chanID   = 11
	initTok  = 2
	sigWedge = "C19.rcvlocker-wedge"
	slackMs  = 60000 // model slack: scheduling latency the model tolerates before it refuses to let time pass
	marginOK = 3 * time.Second
	hang     = 25 * time.Second
)

type env struct {
	o *h.Opts
	r *h.Result
	d *h.Driver
}

type peerReq struct {
	reqID uint32
	tag   uint32
	opn   bool
}

type scen struct {
	name    string
	sc      *uasc.SecureChannel
	ctl     *h.SendCtl
	srv     *uacp.Conn
	reqs    chan peerReq
	seq     uint32
	mu      sync.Mutex
	tok     uint32
	cleanup func()
	done    chan struct{}
}

func (e *env) open(name string, reqTimeout time.Duration) *scen {
	return e.openR(name, reqTimeout, true)
}

// openR: with read=false the peer never reads from the connection (a stalled peer).
func (e *env) openR(name string, reqTimeout time.Duration, read bool) *scen {
	return e.openE(name, reqTimeout, read, 64)
}

// openE: errCap is the capacity of the error channel handed to the secure channel (it is never drained here).
func (e *env) openE(name string, reqTimeout time.Duration, read bool, errCap int) *scen {
	cli, srv, cleanup, err := h.SendLoopback()
	if err != nil {
		e.r.InfraError = "loopback: " + err.Error()
		return nil
	}
	cfg := h.NoneConfig(1000, reqTimeout)
	errch := make(chan error, errCap)
	sc, err := uasc.VerifOpenChannel(cli, cfg, false, chanID, initTok, 77, nil, nil, errch)
	if err != nil {
		cleanup()
		e.r.InfraError = "open channel: " + err.Error()
		return nil
	}
	s := &scen{name: name, sc: sc, ctl: h.NewSendCtl(), srv: srv, reqs: make(chan peerReq, 256), seq: 3000, tok: initTok, cleanup: cleanup, done: make(chan struct{})}
	uasc.VerifSetHook(s.ctl.Hook)
	sc.VerifStartDispatcher()
	if !read {
		close(s.done)
		return s
	}
	go func() {
		defer close(s.done)
		for {
			c, err := h.PeerRead(srv)
			if err != nil {
				return
			}
			switch c.Type {
			case "OPN":
				s.reqs <- peerReq{reqID: c.ReqID, opn: true}
			case "MSG":
				if _, svc, err := ua.DecodeService(c.Body); err == nil {
					if rr, ok := svc.(*ua.ReadRequest); ok && len(rr.NodesToRead) == 1 {
						s.reqs <- peerReq{reqID: c.ReqID, tag: rr.NodesToRead[0].NodeID.IntID()}
					}
				}
			}
		}
	}()
	return s
}

func (s *scen) answer(q peerReq) {
	s.mu.Lock()
	defer s.mu.Unlock()
	if q.opn {
		s.tok++
		h.PeerSendOPNResponse(s.srv, chanID, s.tok, &s.seq, q.reqID, 3600000)
		return
	}
	h.PeerSendMSG(s.srv, chanID, s.tok, &s.seq, q.reqID, &ua.ReadResponse{ResponseHeader: h.RespHeader(q.reqID, ua.StatusOK)}, 8000)
}

func (s *scen) stop() {
	uasc.VerifSetHook(nil)
	s.ctl.ReleaseAll()
	s.cleanup() // closing the connection ends dispatcher, pending calls (disconnected) and the peer
	<-s.done
}

func req(tag int) *ua.ReadRequest {
	return &ua.ReadRequest{NodesToRead: []*ua.ReadValueID{{NodeID: ua.NewNumericNodeID(0, uint32(tag)), AttributeID: ua.AttributeIDValue, DataEncoding: &ua.QualifiedName{}}}}
}

type call struct {
	k       int
	opn     bool
	plan    string // early, edge, late, drop, cancel, precancel
	timeout time.Duration
	ctx     context.Context
	cancel  context.CancelFunc
	start   time.Time
	end     time.Time
	err     error
	gotResp bool
	goid    int64
	done    chan struct{}
}

// labelsOf projects the events to labels of the timeout LTS; request ids are
// mapped to caller indices (unknown ids to indices ≥ n).
func labelsOf(evs []h.SendEv, calls []*call, rcv interface{}) []string {
	byG := map[int64]*call{}
	for _, c := range calls {
		byG[c.goid] = c
	}
	idOf := map[uint32]int{}
	next := len(calls)
	idx := func(id uint32) int {
		if k, ok := idOf[id]; ok {
			return k
		}
		idOf[id] = next
		next++
		return idOf[id]
	}
	waitDur := func(i int, g int64) (time.Duration, bool) {
		for j := i + 1; j < len(evs); j++ {
			if evs[j].G == g {
				if evs[j].Name == "wait.begin" {
					d, _ := evs[j].Arg(1).(time.Duration)
					return d, true
				}
				if evs[j].Name == "harness.return" {
					return 0, false
				}
			}
		}
		return 0, false
	}
	var out []string
	lastOPN := false
	pending := map[int64]string{} // caller goroutine -> "timeout" | "cancel" after the wait.* event
	for i := range evs {
		ev := &evs[i]
		c := byG[ev.G]
		switch ev.Name {
		case "handlers.register":
			if c != nil && ev.Bool(1) {
				idOf[ev.U32(0)] = c.k
				if d, ok := waitDur(i, ev.G); ok {
					o := 0
					if c.opn {
						o = 1
					}
					out = append(out, fmt.Sprintf("cSend %d %d %d", c.k, (d-uasc.VerifTimeoutLeniency()).Milliseconds(), o))
				} else {
					out = append(out, fmt.Sprintf("cSendFail %d", c.k))
				}
			}
		case "dispatch.recv":
			lastOPN = false
			if m, ok := ev.Arg(0).(*uasc.MessageBody); ok && m != nil {
				_, lastOPN = m.Response().(*ua.OpenSecureChannelResponse)
			}
		case "handlers.pop":
			b := 0
			if ev.Bool(1) {
				b = 1
			}
			if c == nil {
				o := 0
				if lastOPN {
					o = 1
				}
				out = append(out, fmt.Sprintf("dRecv %d %d %d", idx(ev.U32(0)), o, b))
			} else if p := pending[ev.G]; p != "" {
				out = append(out, fmt.Sprintf("%s %d %d", p, c.k, b))
				delete(pending, ev.G)
			}
		case "wait.timeout":
			if c != nil {
				pending[ev.G] = "cTimeout"
			}
		case "wait.ctxdone", "wait.disconnected":
			if c != nil {
				pending[ev.G] = "cCancel"
			}
		case "wait.msg":
			if c != nil {
				out = append(out, fmt.Sprintf("cRecv %d", c.k))
			}
		case "cl.lock":
			if ev.Arg(0) == rcv {
				out = append(out, "dRcvLock")
			}
		case "cl.unlock":
			if ev.Arg(0) == rcv && c != nil && c.opn {
				out = append(out, fmt.Sprintf("cUnlock %d", c.k))
			}
		case "cl.pass":
			if ev.Arg(0) == rcv {
				out = append(out, "dWait")
			}
		case "dispatch.beforeSend":
			out = append(out, "dSend")
		}
	}
	return out
}

// replay feeds the labels to the model, inserting the ticks the timeouts need. Returns false on a rejection.
func (e *env) replay(name string, n int, labels []string) bool {
	if e.d == nil {
		return true
	}
	e.d.Ask(fmt.Sprintf("reset %d %d", n+64, slackMs))
	for i, l := range labels {
		f := strings.Fields(l)
		if f[0] == "cTimeout" {
			var dl, now int
			fmt.Sscanf(e.d.Ask("caller "+f[1]), "waiting %d", &dl)
			fmt.Sscanf(e.d.Ask("summary"), "now=%d", &now)
			if dl > now {
				if a := e.d.Ask(fmt.Sprintf("lts tick %d", dl-now)); a != "ok" {
					e.r.Disagree(name, fmt.Sprintf("%s at `tick %d` before step %d of %s", a, dl-now, i, strings.Join(labels, ";")), "time passed in the implementation")
					return false
				}
			}
		}
		if a := e.d.Ask("lts " + l); a != "ok" {
			e.r.Disagree(name, fmt.Sprintf("%s at step %d `%s` of %s", a, i, l, strings.Join(labels, ";")), "step taken by the implementation")
			return false
		}
	}
	e.r.TracesValidated++
	return true
}

func (e *env) runCall(s *scen, c *call) {
	c.done = make(chan struct{})
	ready := make(chan struct{})
	go func() {
		c.goid = h.GoID()
		close(ready)
		defer close(c.done)
		c.start = time.Now()
		if c.opn {
			c.err = s.sc.Renew(c.ctx)
		} else {
			c.err = s.sc.SendRequestWithTimeout(c.ctx, req(c.k), nil, c.timeout, func(ua.Response) error { c.gotResp = true; return nil })
		}
		c.end = time.Now()
		s.ctl.Hook("harness.return", c.k)
	}()
	<-ready
}

// oracle on the implementation: bounded return. Returns false (and records) on a failure or flake.
func (e *env) bounded(s *scen, c *call, limit time.Duration) {
	el := c.end.Sub(c.start)
	switch {
	case el <= limit+marginOK:
		e.r.Hit("bounded:ok")
	case el <= limit+hang:
		if e.r.InfraError == "" {
			e.r.InfraError = fmt.Sprintf("%s: call %d returned after %v (limit %v): machine too slow for a timing verdict", s.name, c.k, el, limit)
		}
	default:
		e.r.Fail(s.name, "", fmt.Sprintf("call %d returned after %v, timeout + leniency = %v", c.k, el, limit))
	}
}

func (e *env) random(seed uint64, idx int) {
	rnd := h.NewRand(seed*3571 + uint64(idx))
	reqTimeout := time.Duration(40+rnd.Intn(60)) * time.Millisecond
	s := e.open(fmt.Sprintf("random %d %d", seed, idx), reqTimeout)
	if s == nil {
		return
	}
	defer s.stop()
	len0 := uasc.VerifTimeoutLeniency()
	n := 2 + rnd.Intn(5)
	withOpen := rnd.Chance(50)
	plans := []string{"early", "edge", "edge", "late", "drop", "cancel", "precancel"}
	var calls []*call
	for k := 0; k < n; k++ {
		c := &call{k: k, plan: plans[rnd.Intn(len(plans))], timeout: time.Duration(30+rnd.Intn(70)) * time.Millisecond}
		c.ctx, c.cancel = context.WithCancel(context.Background())
		if (c.plan == "drop" || c.plan == "late" || c.plan == "edge") && rnd.Bool() {
			// a context whose own deadline is far away must not replace the request timeout
			c.ctx, c.cancel = context.WithTimeout(context.Background(), 45*time.Second)
			e.r.Hit("ctx-with-far-deadline")
		}
		if c.plan == "precancel" {
			c.cancel()
		}
		calls = append(calls, c)
	}
	if withOpen {
		c := &call{k: n, opn: true, plan: []string{"early", "edge", "edge", "drop"}[rnd.Intn(4)], timeout: reqTimeout}
		c.ctx, c.cancel = context.WithCancel(context.Background())
		calls = append(calls, c)
	}
	jitter := func() time.Duration { return time.Duration(rnd.Intn(7)-3) * time.Millisecond }
	for _, c := range calls {
		e.runCall(s, c)
		e.r.Hit("plan:" + c.plan)
	}
	// the peer's schedule
	expect := 0
	for _, c := range calls {
		if c.plan != "precancel" {
			expect++
		}
	}
	byTag := func(q peerReq) *call {
		if q.opn {
			return calls[len(calls)-1]
		}
		if int(q.tag) < len(calls) {
			return calls[q.tag]
		}
		return nil
	}
	var timers sync.WaitGroup
	dl := time.After(60 * time.Second)
	for got := 0; got < expect; {
		select {
		case q := <-s.reqs:
			got++
			c := byTag(q)
			if c == nil {
				continue
			}
			var after time.Duration
			switch c.plan {
			case "early":
				after = 0
			case "edge":
				after = c.timeout + len0 + jitter() - time.Since(c.start)
			case "late":
				after = c.timeout + len0 + 40*time.Millisecond - time.Since(c.start)
			case "cancel":
				cc := c
				time.AfterFunc(time.Duration(5+rnd.Intn(20))*time.Millisecond, cc.cancel)
				after = 60 * time.Millisecond
			default:
				continue
			}
			if after < 0 {
				after = 0
			}
			timers.Add(1)
			qq := q
			time.AfterFunc(after, func() { defer timers.Done(); s.answer(qq) })
		case <-dl:
			e.blocked(s.name + ": peer did not receive all requests")
			return
		}
	}
	for _, c := range calls {
		select {
		case <-c.done:
		case <-time.After(hang + 5*time.Second):
			e.r.Fail(s.name, "", fmt.Sprintf("call %d (timeout %v) never returned", c.k, c.timeout))
			return
		}
	}
	timers.Wait()
	// ---- oracle: bounded
	for _, c := range calls {
		e.bounded(s, c, c.timeout+len0)
	}
	// ---- oracle: later responses are still delivered (probe), unless the known wedge happened
	probe := &call{k: len(calls), timeout: 10 * time.Second}
	probe.ctx, probe.cancel = context.WithCancel(context.Background())
	calls = append(calls, probe)
	e.runCall(s, probe)
	select {
	case q := <-s.reqs:
		s.answer(q)
	case <-time.After(60 * time.Second):
		e.blocked(s.name + ": peer did not receive the probe")
		return
	}
	wedged := false
	select {
	case <-probe.done:
	case <-time.After(3 * time.Second):
		// the peer has answered long ago; is the dispatcher parked at the gate?
		wedged = s.sc.VerifRcvLocked()
		probe.cancel()
		<-probe.done
	}
	if wedged {
		e.r.Fail(s.name, sigWedge, "dispatcher is blocked in rcvLocker.waitIfLock after open() returned; the answered probe request was not delivered")
		e.r.Hit("natural-wedge")
	} else if probe.err != nil || !probe.gotResp {
		e.r.Fail(s.name, "", fmt.Sprintf("probe request after the timeouts failed: %v", probe.err))
	} else {
		e.r.Hit("probe:delivered")
	}
	// wait for the dispatcher to be back in Receive (or parked)
	time.Sleep(5 * time.Millisecond)
	handlerIDs := map[uint32]bool{}
	for _, id := range s.sc.VerifHandlerIDs() {
		handlerIDs[id] = true
	}
	evs := s.ctl.Events()
	uasc.VerifSetHook(nil)

	// ---- oracle: slot released
	idOf := map[int]uint32{}
	for _, ev := range evs {
		if ev.Name == "handlers.register" && ev.Bool(1) {
			for _, c := range calls {
				if c.goid == ev.G {
					idOf[c.k] = ev.U32(0)
				}
			}
		}
	}
	for _, c := range calls {
		id, reg := idOf[c.k]
		if !reg {
			continue
		}
		if handlerIDs[id] {
			e.r.Fail(s.name, "", fmt.Sprintf("call %d (%s) has returned (%v) but its handler for request id %d is still registered", c.k, c.plan, c.err, id))
		}
		switch {
		case c.err == nil:
			e.r.Hit("outcome:ok")
		case c.err == ua.StatusBadTimeout:
			e.r.Hit("outcome:timeout")
		case c.err == context.Canceled:
			e.r.Hit("outcome:cancelled")
		default:
			e.r.Hit("outcome:error")
		}
	}

	// ---- model
	labels := labelsOf(evs, calls, s.sc.VerifRcvLocker())
	e.r.Count(s.name+" "+strings.Join(labels, ";"), true)
	e.r.Sample(fmt.Sprintf("%s: %s", s.name, strings.Join(labels, "; ")))
	for _, l := range labels {
		e.r.Hit("label:" + strings.Fields(l)[0])
	}
	if e.d == nil || !e.replay(s.name, len(calls), labels) {
		return
	}
	for _, c := range calls {
		m := e.d.Ask(fmt.Sprintf("caller %d", c.k))
		want := "?"
		switch {
		case c.err == nil && (c.gotResp || c.opn):
			want = "got"
		case c.err == ua.StatusBadTimeout:
			want = "timeout"
		case c.err == context.Canceled && c.plan == "precancel":
			want = "idle" // returns before anything is registered
		case c.err == context.Canceled:
			want = "cancelled"
		}
		if want == "idle" {
			if m != "idle" {
				e.r.Disagree(fmt.Sprintf("%s caller %d", s.name, c.k), m, "idle (context done before the call)")
			}
			continue
		}
		if !strings.HasPrefix(m, "finished") || !strings.HasSuffix(m, want) {
			e.r.Disagree(fmt.Sprintf("%s caller %d", s.name, c.k), m, "finished … "+want+fmt.Sprintf(" (err=%v)", c.err))
		}
		if id, reg := idOf[c.k]; reg {
			mh := e.d.Ask(fmt.Sprintf("handler %d", c.k))
			ih := "0"
			if handlerIDs[id] {
				ih = "1"
			}
			if mh != ih {
				e.r.Disagree(fmt.Sprintf("%s handler of caller %d", s.name, c.k), mh, ih)
			}
		}
	}
	mw := e.d.Ask("wedged")
	if (mw == "true") != wedged {
		e.r.Disagree(s.name+" wedged", mw, fmt.Sprint(wedged))
	}
}

// forcedWedge: the OPN response is popped by the dispatcher, open() times out and unlocks, then the dispatcher locks.
func (e *env) forcedWedge() {
	s := e.open("forced-rcvlocker-wedge", 100*time.Millisecond)
	if s == nil {
		return
	}
	defer s.stop()
	hold := s.ctl.BlockAt(func(ev *h.SendEv) bool { return ev.Name == "dispatch.afterPop" && ev.Bool(1) })
	opn := &call{k: 0, opn: true, timeout: 100 * time.Millisecond}
	opn.ctx, opn.cancel = context.WithCancel(context.Background())
	calls := []*call{opn}
	e.runCall(s, opn)
	select {
	case q := <-s.reqs:
		s.answer(q) // at once: the response is there long before the deadline
	case <-time.After(60 * time.Second):
		e.blocked(s.name + ": peer did not receive the OPN request")
		return
	}
	if hold.WaitReached(60*time.Second) == nil {
		e.blocked(s.name + ": dispatcher did not pop the OPN response")
		return
	}
	select {
	case <-opn.done: // timer fired, open() returned and ran its deferred unlock
	case <-time.After(hang):
		e.r.Fail(s.name, "", fmt.Sprintf("open() with a request timeout of 100 ms did not return within %v although its response was withheld from it", hang))
		return
	}
	hold.Release()
	if s.ctl.WaitEvent(60*time.Second, func(ev *h.SendEv) bool { return ev.Name == "cl.block" && ev.Arg(0) == s.sc.VerifRcvLocker() }) == nil {
		e.r.Notes = append(e.r.Notes, s.name+": dispatcher did not block at the gate")
	}
	probe := &call{k: 1, timeout: 300 * time.Millisecond}
	probe.ctx, probe.cancel = context.WithCancel(context.Background())
	calls = append(calls, probe)
	e.runCall(s, probe)
	select {
	case q := <-s.reqs:
		s.answer(q)
	case <-time.After(60 * time.Second):
		e.blocked(s.name + ": peer did not receive the probe")
		return
	}
	<-probe.done
	locked := s.sc.VerifRcvLocked()
	evs := s.ctl.Events()
	uasc.VerifSetHook(nil)
	e.r.Hit("scenario:forced-wedge")
	detail := fmt.Sprintf("Renew returned %v after %v; afterwards rcvLocker is locked=%v, the dispatcher waits in waitIfLock; a later request answered by the peer at once returned %v after %v", opn.err, opn.end.Sub(opn.start).Round(time.Millisecond), locked, probe.err, probe.end.Sub(probe.start).Round(time.Millisecond))
	if locked && probe.err == ua.StatusBadTimeout && opn.err == ua.StatusBadTimeout {
		e.r.Fail(s.name, sigWedge, detail)
		e.r.Confirm(sigWedge, detail)
	} else {
		e.r.Notes = append(e.r.Notes, s.name+": not reproduced: "+detail)
	}
	labels := labelsOf(evs, calls, s.sc.VerifRcvLocker())
	e.r.Count(s.name+" "+strings.Join(labels, ";"), true)
	e.r.Sample(s.name + ": " + strings.Join(labels, "; "))
	for _, l := range labels {
		e.r.Hit("label:" + strings.Fields(l)[0])
	}
	if e.d != nil && e.replay(s.name, 2, labels) {
		if mw := e.d.Ask("wedged"); (mw == "true") != locked {
			e.r.Disagree(s.name+" wedged", mw, fmt.Sprint(locked))
		}
	}
}

// forcedLeak: a send that fails after the handler was registered (context ends between the
// registration and the first write: the sender is held at send.numbered) must release its slot.
func (e *env) forcedLeak() {
	s := e.open("forced-failed-send", time.Second)
	if s == nil {
		return
	}
	defer s.stop()
	hold := s.ctl.BlockAt(func(ev *h.SendEv) bool { return ev.Name == "send.numbered" })
	c := &call{k: 0, plan: "midcancel", timeout: time.Second}
	c.ctx, c.cancel = context.WithCancel(context.Background())
	e.runCall(s, c)
	if hold.WaitReached(60*time.Second) == nil {
		e.blocked(s.name + ": sender did not reach send.numbered")
		return
	}
	c.cancel()
	hold.Release()
	select {
	case <-c.done:
	case <-time.After(hang):
		e.r.Fail(s.name, "", "a request whose context ended before the write did not return")
		return
	}
	ids := s.sc.VerifHandlerIDs()
	evs := s.ctl.Events()
	uasc.VerifSetHook(nil)
	e.r.Hit("scenario:forced-failed-send")
	registered := false
	for _, ev := range evs {
		registered = registered || (ev.Name == "handlers.register" && ev.Bool(1))
	}
	switch {
	case c.err == nil || !registered:
		e.r.Notes = append(e.r.Notes, fmt.Sprintf("%s: the send did not fail after the registration (err=%v registered=%v)", s.name, c.err, registered))
	case len(ids) != 0:
		// oracle: a call that returned has released its pending slot
		e.r.Fail(s.name, "", fmt.Sprintf("SendRequestWithTimeout returned %q after registering its handler; handlers still contains %v", c.err, ids))
	default:
		e.r.Hit("failed-send:slot-released")
	}
	labels := labelsOf(evs, []*call{c}, s.sc.VerifRcvLocker())
	e.r.Count(s.name+" "+strings.Join(labels, ";"), true)
	e.r.Sample(s.name + ": " + strings.Join(labels, "; "))
	for _, l := range labels {
		e.r.Hit("label:" + strings.Fields(l)[0])
	}
	if e.d != nil && e.replay(s.name, 1, labels) {
		if m := e.d.Ask("handler 0"); (m == "1") != (len(ids) != 0) {
			e.r.Disagree(s.name+" handler", m, fmt.Sprint(len(ids)))
		}
	}
}

// timeoutAfterLock: the response to the OpenSecureChannel request has been taken by the dispatcher, the gate is
// already locked (dispatcher parked at dispatch.beforeSend) when open()'s timer fires. open() returns and its
// deferred unlock opens the gate; the dispatcher hands the response to nobody and goes on. (This is NOT the
// interleaving of the recorded wedge, where the timeout falls between popHandler and rcvLocker.lock().)
func (e *env) timeoutAfterLock() {
	s := e.open("timeout-after-gate-locked", 100*time.Millisecond)
	if s == nil {
		return
	}
	defer s.stop()
	hold := s.ctl.BlockAt(func(ev *h.SendEv) bool { return ev.Name == "dispatch.beforeSend" })
	opn := &call{k: 0, opn: true, timeout: 100 * time.Millisecond}
	opn.ctx, opn.cancel = context.WithCancel(context.Background())
	calls := []*call{opn}
	e.runCall(s, opn)
	select {
	case q := <-s.reqs:
		s.answer(q)
	case <-time.After(60 * time.Second):
		e.blocked(s.name + ": peer did not receive the OPN request")
		return
	}
	if hold.WaitReached(60*time.Second) == nil {
		e.blocked(s.name + ": dispatcher did not get to hand the OPN response over")
		return
	}
	select {
	case <-opn.done:
	case <-time.After(hang):
		e.r.Fail(s.name, "", "open() with a request timeout of 100 ms did not return while its response was withheld from it")
		return
	}
	hold.Release()
	probe := &call{k: 1, timeout: 10 * time.Second}
	probe.ctx, probe.cancel = context.WithCancel(context.Background())
	calls = append(calls, probe)
	e.runCall(s, probe)
	select {
	case q := <-s.reqs:
		s.answer(q)
	case <-time.After(60 * time.Second):
		e.blocked(s.name + ": peer did not receive the probe")
		return
	}
	select {
	case <-probe.done:
	case <-time.After(hang):
		probe.cancel()
		<-probe.done
	}
	locked := s.sc.VerifRcvLocked()
	evs := s.ctl.Events()
	uasc.VerifSetHook(nil)
	e.r.Hit("scenario:timeout-after-gate-locked")
	if probe.err != nil || !probe.gotResp || locked {
		e.r.Fail(s.name, "", fmt.Sprintf("open() timed out (%v) after the dispatcher had locked the receive gate for its response; afterwards rcvLocker locked=%v and a request answered at once returned %v", opn.err, locked, probe.err))
	} else {
		e.r.Hit("timeout-after-lock:gate-reopened")
	}
	labels := labelsOf(evs, calls, s.sc.VerifRcvLocker())
	e.r.Count(s.name+" "+strings.Join(labels, ";"), true)
	e.r.Sample(s.name + ": " + strings.Join(labels, "; "))
	if e.d != nil && e.replay(s.name, 2, labels) {
		if mw := e.d.Ask("wedged"); (mw == "true") != locked {
			e.r.Disagree(s.name+" wedged", mw, fmt.Sprint(locked))
		}
	}
}

// faultsUndrained: the application does not drain the error channel (capacity 1). Several requests are answered with
// ServiceFaults (each is also reported on the error channel); the dispatcher must not get stuck on that report:
// every faulted call returns its fault and a later request is answered.
func (e *env) faultsUndrained() {
	s := e.openE("faults-with-undrained-error-channel", time.Second, true, 1)
	if s == nil {
		return
	}
	defer s.stop()
	var calls []*call
	for k := 0; k < 3; k++ {
		c := &call{k: k, timeout: 20 * time.Second}
		c.ctx, c.cancel = context.WithCancel(context.Background())
		calls = append(calls, c)
		e.runCall(s, c)
	}
	for got := 0; got < 3; got++ {
		select {
		case q := <-s.reqs:
			s.mu.Lock()
			h.PeerSendMSG(s.srv, chanID, s.tok, &s.seq, q.reqID, &ua.ServiceFault{ResponseHeader: h.RespHeader(q.reqID, ua.StatusBadNodeIDUnknown)}, 8000)
			s.mu.Unlock()
		case <-time.After(60 * time.Second):
			e.blocked(s.name + ": peer did not receive the requests")
			return
		}
	}
	probe := &call{k: 3, timeout: 10 * time.Second}
	probe.ctx, probe.cancel = context.WithCancel(context.Background())
	calls = append(calls, probe)
	e.runCall(s, probe)
	select {
	case q := <-s.reqs:
		s.answer(q)
	case <-time.After(60 * time.Second):
		e.blocked(s.name + ": peer did not receive the probe")
		return
	}
	bad := ""
	for _, c := range calls {
		select {
		case <-c.done:
			if c.k < 3 && c.err != ua.StatusBadNodeIDUnknown {
				bad = fmt.Sprintf("call %d was answered with a ServiceFault and returned %v", c.k, c.err)
			}
			if c.k == 3 && (c.err != nil || !c.gotResp) {
				bad = fmt.Sprintf("the request after three faults was answered at once and returned %v", c.err)
			}
		case <-time.After(hang + 10*time.Second):
			bad = fmt.Sprintf("call %d (answered by the peer) never returned: the dispatcher is stuck", c.k)
		}
		if bad != "" {
			break
		}
	}
	evs := s.ctl.Events()
	uasc.VerifSetHook(nil)
	for _, c := range calls {
		c.cancel()
	}
	e.r.Hit("scenario:faults-with-undrained-error-channel")
	if bad != "" {
		e.r.Fail(s.name, "", bad+" (error channel of capacity 1, not drained)")
		return
	}
	e.r.Hit("faults-undrained:all-delivered")
	labels := labelsOf(evs, calls, s.sc.VerifRcvLocker())
	e.r.Count(s.name+" "+strings.Join(labels, ";"), true)
	if e.d != nil {
		e.replay(s.name, 4, labels)
	}
}

// renewAfterFailed: a renewal that timed out must not prevent the next one.
func (e *env) renewAfterFailed() {
	s := e.open("renewal-after-failed-renewal", 100*time.Millisecond)
	if s == nil {
		return
	}
	defer s.stop()
	first := &call{k: 0, opn: true, timeout: 100 * time.Millisecond}
	first.ctx, first.cancel = context.WithCancel(context.Background())
	e.runCall(s, first)
	select {
	case <-s.reqs: // not answered
	case <-time.After(60 * time.Second):
		e.blocked(s.name + ": peer did not receive the first OPN request")
		return
	}
	select {
	case <-first.done:
	case <-time.After(hang):
		e.r.Fail(s.name, "", "an unanswered renewal with a request timeout of 100 ms did not return")
		return
	}
	second := &call{k: 1, opn: true, timeout: 100 * time.Millisecond}
	second.ctx, second.cancel = context.WithCancel(context.Background())
	e.runCall(s, second)
	select {
	case q := <-s.reqs:
		s.answer(q)
	case <-second.done:
	case <-time.After(60 * time.Second):
		e.blocked(s.name + ": peer did not receive the second OPN request")
		return
	}
	<-second.done
	probe := &call{k: 2, timeout: 10 * time.Second}
	probe.ctx, probe.cancel = context.WithCancel(context.Background())
	e.runCall(s, probe)
	select {
	case q := <-s.reqs:
		s.answer(q)
	case <-probe.done:
	case <-time.After(60 * time.Second):
	}
	<-probe.done
	evs := s.ctl.Events()
	uasc.VerifSetHook(nil)
	e.r.Hit("scenario:renewal-after-failed-renewal")
	if first.err == nil {
		e.r.Notes = append(e.r.Notes, s.name+": the unanswered renewal did not fail")
	}
	// oracle: the channel stays usable after a request (here: a renewal) timed out
	if second.err != nil {
		e.r.Fail(s.name, "", fmt.Sprintf("after a renewal that timed out (%v) the next renewal, answered at once, failed: %v", first.err, second.err))
	} else if probe.err != nil {
		e.r.Fail(s.name, "", fmt.Sprintf("after a failed and a successful renewal an answered request failed: %v", probe.err))
	} else {
		e.r.Hit("renewal-after-failure:ok")
	}
	calls := []*call{first, second, probe}
	labels := labelsOf(evs, calls, s.sc.VerifRcvLocker())
	e.r.Count(s.name+" "+strings.Join(labels, ";"), true)
	e.r.Sample(s.name + ": " + strings.Join(labels, "; "))
	for _, l := range labels {
		e.r.Hit("label:" + strings.Fields(l)[0])
	}
	if e.d != nil {
		e.replay(s.name, 3, labels)
	}
}

// stalledPeer: the peer stops reading; a request far larger than the socket buffers must give up
// within its timeout per chunk, not hang.
func (e *env) stalledPeer() {
	s := e.openR("stalled-peer", time.Second, false)
	if s == nil {
		return
	}
	defer s.stop()
	big := make([]byte, 24<<20)
	c := &call{k: 0, timeout: 300 * time.Millisecond, done: make(chan struct{})}
	c.ctx, c.cancel = context.WithCancel(context.Background())
	ready := make(chan struct{})
	go func() {
		c.goid = h.GoID()
		close(ready)
		defer close(c.done)
		c.start = time.Now()
		c.err = s.sc.SendRequestWithTimeout(c.ctx, &ua.WriteRequest{NodesToWrite: []*ua.WriteValue{{NodeID: ua.NewNumericNodeID(0, 1), AttributeID: ua.AttributeIDValue,
			Value: &ua.DataValue{EncodingMask: ua.DataValueValue, Value: ua.MustVariant(big)}}}}, nil, c.timeout, func(ua.Response) error { return nil })
		c.end = time.Now()
		s.ctl.Hook("harness.return", c.k)
	}()
	<-ready
	select {
	case <-c.done:
	case <-time.After(hang + 10*time.Second):
		e.r.Fail(s.name, "", "a 24 MB request (timeout 300 ms) to a peer that does not read never returned: a chunk is written without a deadline")
		c.cancel()
		return
	}
	ids := s.sc.VerifHandlerIDs()
	evs := s.ctl.Events()
	uasc.VerifSetHook(nil)
	e.r.Hit("scenario:stalled-peer")
	nch := 0
	for _, ev := range evs {
		if ev.Name == "send.chunk" {
			nch++
		}
	}
	e.r.Sample(fmt.Sprintf("%s: returned %v after %v and %d chunks", s.name, c.err, c.end.Sub(c.start).Round(time.Millisecond), nch))
	if c.err == nil {
		e.r.Notes = append(e.r.Notes, s.name+": the whole request fitted into the socket buffers")
	} else if len(ids) != 0 {
		e.r.Fail(s.name, "", fmt.Sprintf("the request failed (%v) but its handler is still registered", c.err))
	} else {
		e.r.Hit("stalled-peer:gave-up")
	}
	labels := labelsOf(evs, []*call{c}, s.sc.VerifRcvLocker())
	e.r.Count(s.name+" "+strings.Join(labels, ";"), true)
	if e.d != nil {
		e.replay(s.name, 1, labels)
	}
}

func (e *env) corpus() {
	// `trace <n> <slack>;label;…;?query|expected`
	for _, line := range e.o.CorpusLines() {
		if e.d == nil || !strings.HasPrefix(line, "trace ") {
			continue
		}
		parts := strings.SplitN(line, "|", 2)
		if len(parts) != 2 {
			continue
		}
		f := strings.Split(strings.TrimPrefix(parts[0], "trace "), ";")
		e.d.Ask("reset " + strings.TrimSpace(f[0]))
		got := "ok"
		for _, l := range f[1:] {
			l = strings.TrimSpace(l)
			if strings.HasPrefix(l, "?") {
				got = e.d.Ask(strings.TrimPrefix(l, "?"))
				break
			}
			if a := e.d.Ask("lts " + l); a != "ok" {
				got = a
				break
			}
		}
		e.r.Count(line, true)
		e.r.Hit("corpus")
		if got != strings.TrimSpace(parts[1]) {
			e.r.Disagree(parts[0], got, strings.TrimSpace(parts[1]))
		}
	}
}

// blocked records that the implementation did not get to a point it has to reach (or did something it must
// not do) within the generous time allowed: the scenario is the failing input. Only trouble that says nothing
// about the library (sockets, keys, the driver, a machine too slow for a timing verdict) is reported as infra.
func (e *env) blocked(what string) {
	e.r.Fail(what, "", "the implementation did not complete this step (it blocks, or the step got lost): "+what)
}

// hasNew: an unclassified oracle failure or a model disagreement has been recorded — the verdict of the run is
// settled, the remaining (real-time) scenarios are skipped so that the failing input is reported quickly.
func (e *env) hasNew() bool {
	// (a model disagreement alone does not stop the run: the later scenarios may still produce the concrete failing input)
	for _, f := range e.r.OracleFailures {
		if f.Sig == "" {
			return true
		}
	}
	return false
}

func main() {
	o := h.ParseOpts()
	r := h.NewResult("C19", o)
	d, err := h.StartDriver(o.Driver)
	if err != nil {
		r.InfraError = err.Error()
		r.Write(o.Out)
		return
	}
	defer d.Close()
	e := &env{o, r, d}
	r.Rule = "case = one channel scenario: 2–6 calls with 30–100 ms timeouts (+250 ms leniency) on a real client channel, a scripted peer answering early / within ±3 ms of the deadline / 40 ms late / never, contexts cancelled while waiting or before sending, in half of the scenarios a renewal (open()) answered early / at its deadline / never, then a probe request; events replayed through the Lean LTS (ticks inserted for the timeouts), outcomes, handler table and wedge state compared; oracle: return within timeout + leniency + 3 s (25 s = hang), slot released, probe delivered. Plus two forced interleavings and the corpus. Every case is non-trivial; distinct by label sequence."
	e.corpus()
	if o.Replay != "" {
		var seed uint64
		var idx int
		switch {
		case strings.HasPrefix(o.Replay, "forced-rcvlocker"):
			e.forcedWedge()
		case strings.HasPrefix(o.Replay, "forced-failed-send"):
			e.forcedLeak()
		case strings.HasPrefix(o.Replay, "timeout-after-gate"):
			e.timeoutAfterLock()
		case strings.HasPrefix(o.Replay, "faults-with-undrained"):
			e.faultsUndrained()
		case strings.HasPrefix(o.Replay, "renewal-after"):
			e.renewAfterFailed()
		case strings.HasPrefix(o.Replay, "stalled-peer"):
			e.stalledPeer()
		default:
			if _, err := fmt.Sscanf(o.Replay, "random %d %d", &seed, &idx); err == nil {
				e.random(seed, idx)
			}
		}
		r.Write(o.Out)
		return
	}
	e.forcedWedge()
	if r.InfraError == "" && !e.hasNew() {
		e.forcedLeak()
	}
	if r.InfraError == "" && !e.hasNew() {
		e.timeoutAfterLock()
	}
	if r.InfraError == "" && !e.hasNew() {
		e.faultsUndrained()
	}
	if r.InfraError == "" && !e.hasNew() {
		e.renewAfterFailed()
	}
	if r.InfraError == "" && !e.hasNew() {
		e.stalledPeer()
	}
	t0 := time.Now()
	n := o.N(40, 1200)
	for i := 0; i < n && r.InfraError == "" && !e.hasNew(); i++ {
		e.random(o.Seed, i)
		if !o.Thorough() && time.Since(t0) > 45*time.Second {
			r.Notes = append(r.Notes, fmt.Sprintf("stopped after %d scenarios (time budget)", i+1))
			break
		}
	}
	for _, b := range []string{"label:cSend", "label:cSendFail", "label:cRecv", "label:cTimeout", "label:cCancel", "label:cUnlock", "label:dRecv", "label:dRcvLock", "label:dSend", "label:dWait",
		"plan:edge", "plan:late", "plan:drop", "plan:cancel", "plan:precancel", "probe:delivered", "outcome:timeout", "outcome:ok", "scenario:forced-wedge", "scenario:forced-failed-send", "failed-send:slot-released", "renewal-after-failure:ok", "stalled-peer:gave-up", "timeout-after-lock:gate-reopened", "faults-undrained:all-delivered", "ctx-with-far-deadline"} {
		if r.Distribution[b] == 0 {
			r.Unreached = append(r.Unreached, b)
		}
	}
	// an infrastructure problem that comes with a model disagreement or an unclassified oracle failure is a
	// result of the run, not a reason to discard it
	if r.InfraError != "" {
		bad := len(r.Disagreements) > 0
		for _, f := range r.OracleFailures {
			bad = bad || f.Sig == ""
		}
		if bad {
			r.Notes = append(r.Notes, "not reported as infra: "+r.InfraError)
			r.InfraError = ""
		}
	}
	r.Write(o.Out)
}
