// Correspondence runner and property oracle for C24: the real
// opcua.SelectEndpoint / ua.FormatSecurityPolicyURI against the Lean model
// (Model/Endpoint.lean), plus the property's own oracle on the implementation.
//
// A case is one protocol line
//
//	sel <policyHex> <mode> (<uriHex> <mode> <level>)*
//	fmt <policyHex>
//
// so corpus lines, replays and generated cases are the same thing.
package main

import (
	"fmt"
	"strconv"
	"strings"

	"github.com/gopcua/opcua"
	"github.com/gopcua/opcua/ua"

	"verifharness/internal/h"
)

// ---- the specification's view of policy names (independent of package ua:
// OPC UA Part 7 profile URIs; a non-empty name that is not a URI under the
// OPC Foundation prefix is a fragment of it)
const specPrefix = "http://opcfoundation.org/UA/SecurityPolicy#"

var specNames = map[string]string{
	"None":                  specPrefix + "None",
	"Basic128Rsa15":         specPrefix + "Basic128Rsa15",
	"Basic256":              specPrefix + "Basic256",
	"Basic256Sha256":        specPrefix + "Basic256Sha256",
	"Aes128Sha256RsaOaep":   specPrefix + "Aes128_Sha256_RsaOaep",
	"Aes128_Sha256_RsaOaep": specPrefix + "Aes128_Sha256_RsaOaep",
	"Aes256Sha256RsaPss":    specPrefix + "Aes256_Sha256_RsaPss",
	"Aes256_Sha256_RsaPss":  specPrefix + "Aes256_Sha256_RsaPss",
}

func specPolicy(p string) string {
	if p == "" {
		return ""
	}
	if u, ok := specNames[p]; ok {
		return u
	}
	if strings.HasPrefix(p, specPrefix) {
		return p
	}
	return specPrefix + p
}

func specMatches(e *ua.EndpointDescription, policy string, mode ua.MessageSecurityMode) bool {
	return (policy == "" || e.SecurityPolicyURI == policy) && (mode == ua.MessageSecurityModeInvalid || e.SecurityMode == mode)
}

type env struct {
	o   *h.Opts
	r   *h.Result
	d   *h.Driver
	rnd *h.Rand
}

func hx(s string) string { return h.Hex([]byte(s)) }

// runFmt: one normalisation case
func (e *env) runFmt(line string, toks []string) {
	p := string(h.UnHex(toks[1]))
	got := h.Catch(func() string { return hx(ua.FormatSecurityPolicyURI(p)) })
	e.r.Count(line, p != "")
	e.r.Compare(e.d, line, got)
	switch {
	case p == "":
		e.r.Hit("fmt:empty")
	case specNames[p] != "":
		e.r.Hit("fmt:standard-name")
	case strings.HasPrefix(p, specPrefix):
		e.r.Hit("fmt:uri")
	default:
		e.r.Hit("fmt:other-name")
	}
	// oracle: the normalisation the property's "short names or URIs" relies on
	if want := hx(specPolicy(p)); got != want {
		e.r.Fail(line, "", fmt.Sprintf("FormatSecurityPolicyURI(%q) = %s, the profile URI is %s", p, got, want))
	}
}

// runSel: one selection case
func (e *env) runSel(line string, toks []string) {
	if (len(toks)-3)%3 != 0 || len(toks) < 3 {
		e.r.InfraError = "malformed case line: " + line
		return
	}
	policy := string(h.UnHex(toks[1]))
	m64, _ := strconv.ParseUint(toks[2], 10, 32)
	mode := ua.MessageSecurityMode(m64)
	var eps []*ua.EndpointDescription
	for i := 3; i < len(toks); i += 3 {
		em, _ := strconv.ParseUint(toks[i+1], 10, 32)
		lv, _ := strconv.ParseUint(toks[i+2], 10, 8)
		eps = append(eps, &ua.EndpointDescription{
			EndpointURL:       fmt.Sprintf("opc.tcp://h:%d", i/3), // identity tag only
			SecurityPolicyURI: string(h.UnHex(toks[i])),
			SecurityMode:      ua.MessageSecurityMode(em),
			SecurityLevel:     uint8(lv),
		})
	}
	orig := append([]*ua.EndpointDescription(nil), eps...) // SelectEndpoint sorts its argument in place
	var got *ua.EndpointDescription
	var err error
	res := h.Catch(func() string {
		got, err = opcua.SelectEndpoint(eps, policy, mode)
		if err != nil {
			return "err"
		}
		if got == nil {
			return "nil-without-error"
		}
		return fmt.Sprintf("ok %d", got.SecurityLevel)
	})
	e.r.Count(line, len(orig) >= 2)
	e.r.Compare(e.d, line, res)

	// ---- distribution
	switch {
	case len(orig) == 0:
		e.r.Hit("len:0")
	case len(orig) == 1:
		e.r.Hit("len:1")
	case len(orig) <= 4:
		e.r.Hit("len:2-4")
	default:
		e.r.Hit("len:5+")
	}
	switch {
	case policy == "" && mode == 0:
		e.r.Hit("query:dont-care-both")
	case policy == "":
		e.r.Hit("query:mode-only")
	case mode == 0:
		e.r.Hit("query:policy-only")
	default:
		e.r.Hit("query:both")
	}
	e.r.Hit("result:" + strings.Fields(res)[0])
	if _, std := specNames[strings.TrimPrefix(policy, specPrefix)]; !std && strings.ContainsAny(policy, "_-.#") {
		e.r.Hit("query:untabled-name-with-separator/" + strings.Fields(res)[0])
	}
	if len(orig) >= 3 && len(orig) <= 6 {
		var sb strings.Builder
		for _, x := range orig {
			fmt.Fprintf(&sb, " (%q,%d,%d)", strings.TrimPrefix(x.SecurityPolicyURI, specPrefix), x.SecurityMode, x.SecurityLevel)
		}
		e.r.Sample(fmt.Sprintf("SelectEndpoint([%s ], %q, %d) -> %s", sb.String(), policy, mode, res))
	}

	// ---- the property's own oracle, on the implementation alone
	sp := specPolicy(policy)
	best, nMatch, nBest, maxAll := -1, 0, 0, -1
	for _, x := range orig {
		if int(x.SecurityLevel) > maxAll {
			maxAll = int(x.SecurityLevel)
		}
		if specMatches(x, sp, mode) {
			nMatch++
			if int(x.SecurityLevel) > best {
				best, nBest = int(x.SecurityLevel), 1
			} else if int(x.SecurityLevel) == best {
				nBest++
			}
		}
	}
	if nBest >= 2 {
		e.r.Hit("ties-among-best-matches")
	}
	if nMatch > 0 && best < maxAll {
		e.r.Hit("best-match-below-top-level")
	}
	if nMatch > 0 && nMatch < len(orig) {
		e.r.Hit("some-but-not-all-match")
	}
	switch res {
	case "panic":
		e.r.Fail(line, "", "SelectEndpoint panics")
	case "nil-without-error":
		e.r.Fail(line, "", "SelectEndpoint returns (nil, nil)")
	case "err":
		if nMatch > 0 {
			e.r.Fail(line, "", fmt.Sprintf("SelectEndpoint fails although %d endpoint(s) match (best level %d)", nMatch, best))
		}
	default:
		member := false
		for _, x := range orig {
			if x == got {
				member = true
			}
		}
		if !member {
			e.r.Fail(line, "", "the returned endpoint is not one of the given endpoints")
		} else if !specMatches(got, sp, mode) {
			e.r.Fail(line, "", fmt.Sprintf("returned endpoint (policy %q mode %d) does not match the request (policy %q mode %d)", got.SecurityPolicyURI, got.SecurityMode, sp, mode))
		} else if int(got.SecurityLevel) < best {
			e.r.Fail(line, "", fmt.Sprintf("returned level %d but a matching endpoint has level %d", got.SecurityLevel, best))
		}
	}
}

func (e *env) run(line string) {
	toks := strings.Fields(line)
	switch {
	case len(toks) == 2 && toks[0] == "fmt":
		e.runFmt(line, toks)
	case len(toks) >= 3 && toks[0] == "sel":
		e.runSel(line, toks)
	default:
		e.r.InfraError = "unknown case line: " + line
	}
}

// ---- generators

var uriPool = []string{
	specPrefix + "None", specPrefix + "Basic128Rsa15", specPrefix + "Basic256", specPrefix + "Basic256Sha256",
	specPrefix + "Aes128_Sha256_RsaOaep", specPrefix + "Aes256_Sha256_RsaPss",
	specPrefix + "Foo", specPrefix, "", "None", "Basic256", "http://example.com/policy#X", specPrefix + "Basic256 ",
	// policies outside the table whose names carry separators (1.05 ECC / PubSub profiles and look-alikes)
	specPrefix + "ECC_nistP256", specPrefix + "ECC_curve25519", specPrefix + "PubSub_Aes128_CTR", specPrefix + "a_b",
	specPrefix + "Aes128Sha256RsaOaep", specPrefix + "basic256", specPrefix + "Basic256#", specPrefix + "Basic-256",
}

var queryPool = []string{
	"", "", "", "None", "Basic128Rsa15", "Basic256", "Basic256Sha256", "Aes128Sha256RsaOaep", "Aes256Sha256RsaPss",
	"Aes128_Sha256_RsaOaep", "Aes256_Sha256_RsaPss", "Foo", "none", "http://example.com/policy#X",
	specPrefix + "None", specPrefix + "Basic256", specPrefix + "Basic256Sha256", specPrefix + "Foo", specPrefix,
	specPrefix + "Aes128_Sha256_RsaOaep", "Basic256 ", "#None", "http://opcfoundation.org/UA/SecurityPolicy",
	"ECC_nistP256", specPrefix + "ECC_nistP256", "ECC_curve25519", "PubSub_Aes128_CTR", "a_b", "_", "ECCnistP256",
	specPrefix + "Aes128Sha256RsaOaep", "basic256", "BASIC256", "Basic-256", "Basic256#", " Basic256", "Basic_256",
}

// nameAlphabet: what a policy name can be made of (letters, digits and every separator a
// "normalisation" might be tempted to touch)
const nameAlphabet = "abzABZ019__--..##//::%% "

func randName(rnd *h.Rand) string {
	n := 1 + rnd.Intn(8)
	b := make([]byte, n)
	for i := range b {
		b[i] = nameAlphabet[rnd.Intn(len(nameAlphabet))]
	}
	return string(b)
}

func (e *env) genSel() string {
	rnd := e.rnd
	var n int
	switch rnd.Intn(10) {
	case 0:
		n = 0
	case 1:
		n = 1
	case 2, 3, 4, 5:
		n = 2 + rnd.Intn(3)
	default:
		n = 5 + rnd.Intn(12)
	}
	// few distinct URIs / modes / levels per list, so that ties and duplicates are the rule
	nu, nl := 1+rnd.Intn(4), 1+rnd.Intn(4)
	uris := make([]string, nu)
	for i := range uris {
		uris[i] = uriPool[rnd.Intn(len(uriPool))]
		if rnd.Chance(3) {
			uris[i] = string(rnd.Bytes(1 + rnd.Intn(4))) // arbitrary bytes
		}
		if rnd.Chance(12) {
			uris[i] = specPrefix + randName(rnd) // a policy outside the table
		}
	}
	levels := make([]int, nl)
	for i := range levels {
		levels[i] = rnd.Pick(0, 1, 2, 3, 127, 128, 254, 255, rnd.Intn(256))
	}
	modeOf := func() int { return rnd.Pick(1, 2, 3, 3, 2, 0, 4, rnd.Intn(6)) }
	var sb strings.Builder
	var q string
	if rnd.Chance(60) && n > 0 {
		// ask for something that is (likely) there, under one of its names
		u := uris[rnd.Intn(nu)]
		q = u
		if strings.HasPrefix(u, specPrefix) && rnd.Bool() {
			q = u[len(specPrefix):]
			if q == "Aes128_Sha256_RsaOaep" && rnd.Bool() {
				q = "Aes128Sha256RsaOaep"
			}
			if q == "Aes256_Sha256_RsaPss" && rnd.Bool() {
				q = "Aes256Sha256RsaPss"
			}
		}
	} else {
		q = queryPool[rnd.Intn(len(queryPool))]
	}
	if rnd.Chance(25) {
		q = ""
	}
	qm := rnd.Pick(0, 0, 1, 2, 3, 3, 4)
	fmt.Fprintf(&sb, "sel %s %d", hx(q), qm)
	for i := 0; i < n; i++ {
		fmt.Fprintf(&sb, " %s %d %d", hx(uris[rnd.Intn(nu)]), modeOf(), levels[rnd.Intn(nl)])
	}
	return sb.String()
}

func (e *env) genFmt() string {
	rnd := e.rnd
	q := queryPool[rnd.Intn(len(queryPool))]
	switch rnd.Intn(6) {
	case 0:
		q = string(rnd.Bytes(rnd.Intn(6)))
	case 1:
		q = specPrefix[:rnd.Intn(len(specPrefix)+1)] + q
	case 2:
		q = uriPool[rnd.Intn(len(uriPool))]
	case 3:
		q = randName(rnd)
		if rnd.Bool() {
			q = specPrefix + q
		}
	}
	return "fmt " + hx(q)
}

func main() {
	o := h.ParseOpts()
	r := h.NewResult("C24", o)
	d, err := h.StartDriver(o.Driver)
	if err != nil {
		r.InfraError = err.Error()
		r.Write(o.Out)
		return
	}
	defer d.Close()
	e := &env{o, r, d, h.NewRand(o.Seed)}
	r.Rule = "case = one protocol line: 'sel' = (query policy text, query mode, list of (policy URI, mode, level)) run through the real opcua.SelectEndpoint and the Lean selectWith, compared on error/level (ties may be ordered freely by sort.Sort); 'fmt' = ua.FormatSecurityPolicyURI vs formatPolicy on the bytes. Lists of 0..16 endpoints drawn from 1-4 URIs and 1-4 levels each (ties and duplicates are the rule). Non-trivial = lists with at least two endpoints / non-empty names; distinct by the whole line."

	if o.Replay != "" {
		e.run(strings.Trim(o.Replay, "\""))
		r.Write(o.Out)
		return
	}
	for _, l := range o.CorpusLines() {
		e.run(l)
	}
	// every documented name and URI once, against a list containing every standard policy in every mode
	var all strings.Builder
	for i, u := range uriPool[:6] {
		for m := 1; m <= 3; m++ {
			fmt.Fprintf(&all, " %s %d %d", hx(u), m, (i*3+m)%5)
		}
	}
	for _, q := range queryPool {
		e.run("fmt " + hx(q))
		for m := 0; m <= 4; m++ {
			e.run(fmt.Sprintf("sel %s %d%s", hx(q), m, all.String()))
		}
	}
	for i := 0; i < o.N(6000, 400000); i++ {
		l := e.genSel()
		e.run(l)
	}
	for i := 0; i < o.N(1500, 50000); i++ {
		e.run(e.genFmt())
	}
	for _, b := range []string{"len:0", "len:1", "len:2-4", "len:5+", "query:dont-care-both", "query:mode-only", "query:policy-only",
		"query:both", "result:ok", "result:err", "ties-among-best-matches", "best-match-below-top-level", "some-but-not-all-match",
		"fmt:empty", "fmt:standard-name", "fmt:uri", "fmt:other-name", "query:untabled-name-with-separator/ok"} {
		if r.Distribution[b] == 0 {
			r.Unreached = append(r.Unreached, b)
		}
	}
	r.Write(o.Out)
}
