// Correspondence runner and property oracle for C10 (a replayed secured chunk
// is never delivered twice).
//
// A history of properly secured chunks (Sign / SignAndEncrypt, real symmetric
// crypto, keys from known nonces) is sent to a real server-kind (and
// client-kind) channel; an adversary inserts verbatim copies of earlier frames
// or delays a whole message behind later ones.  The Lean model
// (`Recv.runSealed`) is fed what each frame opens to.  The property's oracle:
// every copy / delayed frame has to be rejected and the deliveries have to be
// those of the original history.
package main

import (
	"context"
	"fmt"
	"io"
	"strings"
	"time"

	"github.com/gopcua/opcua/ua"

	"verifharness/internal/h"
)

const (
	sigReplay  = "C10.replay-delivered-twice"
	sigReorder = "C10.no-sequence-check"
)

type env struct {
	o     *h.Opts
	r     *h.Result
	d     *h.Driver
	rnd   *h.Rand
	keyA  *h.KeyPair
	keyB  *h.KeyPair
	w     *h.RecvWorker
	known map[string]int
}

func (e *env) fail(c, sig, detail string) {
	if sig != "" {
		e.known[sig]++
		if e.known[sig] > 3 {
			e.r.Hit("oracle-fail:" + sig)
			return
		}
	}
	e.r.Fail(c, sig, detail)
}

type frame struct {
	chunk  h.RecvRefChunk
	kind   string // "orig", "copy", "late", "tampered"
	wire   []byte
	expect string // what the property demands for this frame: "", "deliver …", "reject"
}

type hcase struct {
	uri    string
	mode   ua.MessageSecurityMode
	server bool
	frames []frame
	goods  [][]byte // complete well-formed messages of the history
}

func short(uri string) string { return uri[strings.LastIndex(uri, "#")+1:] }

func (e *env) service(n int, response bool, reqid uint32) []byte {
	payload := e.rnd.Bytes(n)
	var v interface{}
	if response {
		v = &ua.ReadResponse{
			ResponseHeader: &ua.ResponseHeader{Timestamp: time.Unix(1700000000, 0).UTC(), RequestHandle: reqid,
				ServiceDiagnostics: &ua.DiagnosticInfo{}, StringTable: []string{}, AdditionalHeader: ua.NewExtensionObject(nil)},
			Results: []*ua.DataValue{{EncodingMask: ua.DataValueValue, Value: ua.MustVariant(payload)}},
		}
	} else {
		v = &ua.WriteRequest{
			RequestHeader: &ua.RequestHeader{AuthenticationToken: ua.NewTwoByteNodeID(0), Timestamp: time.Unix(1700000000, 0).UTC(),
				RequestHandle: reqid, AdditionalHeader: ua.NewExtensionObject(nil)},
			NodesToWrite: []*ua.WriteValue{{NodeID: ua.NewNumericNodeID(2, 1000+reqid%7), AttributeID: ua.AttributeIDValue,
				Value: &ua.DataValue{EncodingMask: ua.DataValueValue, Value: ua.MustVariant(payload)}}},
		}
	}
	tb, _ := ua.Encode(ua.NewFourByteExpandedNodeID(0, ua.ServiceTypeID(v)))
	bb, err := ua.Encode(v)
	if err != nil {
		e.r.InfraError = "reference message does not encode: " + err.Error()
		return nil
	}
	return append(tb, bb...)
}

// gen builds a history. adversary: "none" (control group), "copy", "late".
func (e *env) gen(adversary string) *hcase {
	hc := &hcase{server: e.rnd.Chance(70)}
	uris := []string{ua.SecurityPolicyURIBasic256Sha256, ua.SecurityPolicyURIAes128Sha256RsaOaep, ua.SecurityPolicyURIBasic256, ua.SecurityPolicyURIAes256Sha256RsaPss}
	hc.uri = uris[e.rnd.Intn(len(uris))]
	hc.mode = ua.MessageSecurityModeSign
	if e.rnd.Bool() {
		hc.mode = ua.MessageSecurityModeSignAndEncrypt
	}
	nm := 2 + e.rnd.Intn(4)
	type msg struct {
		frames []frame
	}
	var msgs []msg
	for i := 0; i < nm; i++ {
		req := uint32(10 + i)
		if i >= 2 && e.rnd.Chance(25) {
			req = uint32(10 + i - 2) // a request id is used again after its message is complete (messages i-2 and i never overlap)
		}
		body := e.service(e.rnd.Pick(0, 4, 40, 400, 3000), !hc.server, req)
		if body == nil {
			return nil
		}
		hc.goods = append(hc.goods, body)
		k := 1
		if e.rnd.Chance(45) {
			k = 2 + e.rnd.Intn(2)
		}
		var m msg
		for j := 0; j < k; j++ {
			lo, hi := len(body)*j/k, len(body)*(j+1)/k
			ct := byte('C')
			exp := ""
			if j == k-1 {
				ct = 'F'
				exp = h.RecvExpectMerged(req, body)
			}
			m.frames = append(m.frames, frame{chunk: h.RecvRefChunk{Type: ct, ChannelID: 11, TokenID: 22, Req: req, Body: body[lo:hi]}, kind: "orig", expect: exp})
		}
		msgs = append(msgs, m)
	}
	// wire order: message after message, neighbouring messages sometimes interleaved chunk by chunk
	for i := 0; i < nm; i++ {
		if i+1 < nm && e.rnd.Chance(35) {
			a, b := msgs[i].frames, msgs[i+1].frames
			for len(a) > 0 || len(b) > 0 {
				if len(b) == 0 || (len(a) > 0 && e.rnd.Bool()) {
					hc.frames, a = append(hc.frames, a[0]), a[1:]
				} else {
					hc.frames, b = append(hc.frames, b[0]), b[1:]
				}
			}
			i++
		} else {
			hc.frames = append(hc.frames, msgs[i].frames...)
		}
	}
	// numbering: consecutive from a start value; 4294967295 is followed by 0 (the wrap-around
	// Part 6 allows), and a peer may also start at 0
	seq := uint32(e.rnd.Pick(1, 2, 51, 1000, 70000, 0, 0, 4294967293, 4294967294, 4294967295))
	for i := range hc.frames {
		hc.frames[i].chunk.Seq = seq
		seq++
	}
	switch adversary {
	case "late":
		// the chunks of one request are held back and arrive after everything else
		req := hc.frames[e.rnd.Intn(len(hc.frames)/2+1)].chunk.Req
		var keep, late []frame
		lastOther := -1
		for i, f := range hc.frames {
			if f.chunk.Req != req {
				lastOther = i
			}
		}
		for i, f := range hc.frames {
			if f.chunk.Req == req && i < lastOther {
				f.kind, f.expect = "late", "reject"
				late = append(late, f)
			} else {
				keep = append(keep, f)
			}
		}
		if len(late) == 0 {
			return nil
		}
		// what is left of a partly delayed message can no longer be completed
		for i := range keep {
			if keep[i].chunk.Req == req {
				keep[i].kind, keep[i].expect = "late", "reject"
			}
		}
		hc.frames = append(keep, late...)
	case "dup":
		// only copies the code promises to drop: an intermediate chunk repeated before the
		// next chunk of its request (chunks of other requests may lie between)
		var cand []int
		for i, f := range hc.frames {
			if f.chunk.Type == 'C' {
				cand = append(cand, i)
			}
		}
		if len(cand) == 0 {
			return nil
		}
		i := cand[e.rnd.Intn(len(cand))]
		if e.rnd.Chance(50) {
			// number the stream so that exactly the chunk that gets repeated carries number 0
			// (numbering from 0, or through the wrap …, 4294967295, 0, 1, …)
			n := uint32(0) - uint32(i)
			for k := range hc.frames {
				hc.frames[k].chunk.Seq = n
				n++
			}
			seq = n
			e.r.Hit("dup:of-the-chunk-numbered-0")
		}
		j := i + 1
		for hc.frames[j].chunk.Req != hc.frames[i].chunk.Req {
			j++
		}
		at := i + 1 + e.rnd.Intn(j-i)
		cp := hc.frames[i]
		cp.kind, cp.expect = "copy", "reject"
		hc.frames = append(hc.frames[:at], append([]frame{cp}, hc.frames[at:]...)...)
	case "copy":
		nc := 1 + e.rnd.Intn(3)
		for c := 0; c < nc; c++ {
			i := e.rnd.Intn(len(hc.frames))
			if hc.frames[i].kind != "orig" {
				continue
			}
			cp := hc.frames[i]
			cp.kind, cp.expect = "copy", "reject"
			at := i + 1 // right behind the original …
			if e.rnd.Chance(60) {
				at = i + 1 + e.rnd.Intn(len(hc.frames)-i) // … or anywhere later
			}
			hc.frames = append(hc.frames[:at], append([]frame{cp}, hc.frames[at:]...)...)
		}
	}
	if e.rnd.Chance(15) {
		// a frame damaged in transit (any adversary): must be rejected, and is
		i := e.rnd.Intn(len(hc.frames) + 1)
		t := frame{chunk: h.RecvRefChunk{Type: 'F', ChannelID: 11, TokenID: 22, Seq: seq + 5, Req: 99, Body: e.rnd.Bytes(40)}, kind: "tampered", expect: "reject"}
		hc.frames = append(hc.frames[:i], append([]frame{t}, hc.frames[i:]...)...)
	}
	return hc
}

// benignCopies reports whether every copy in the history is a copy of an
// intermediate chunk with no other chunk of the same request id between the
// original and the copy: these the code promises to drop (C10_duplicate_in_message).
func benignCopies(hc *hcase) bool {
	for i, f := range hc.frames {
		if f.kind != "copy" {
			continue
		}
		if f.chunk.Type != 'C' {
			return false
		}
		ok := false
		for j := i - 1; j >= 0; j-- {
			g := hc.frames[j]
			if g.chunk.Req == f.chunk.Req {
				ok = g.chunk.Token() == f.chunk.Token()
				break
			}
		}
		if !ok {
			return false
		}
	}
	return true
}

func (e *env) line(hc *hcase) string {
	toks := make([]string, len(hc.frames))
	for i, f := range hc.frames {
		toks[i] = f.kind[:1] + "/" + f.chunk.Token()
	}
	k := "client"
	if hc.server {
		k = "server"
	}
	return fmt.Sprintf("history %s %d %s %s", short(hc.uri), hc.mode, k, strings.Join(toks, " "))
}

func (e *env) runCase(hc *hcase) {
	line := e.line(hc)
	// the model is asked first: a copy merged into a body can produce bytes on which
	// the decoder of the unchanged tree allocates gigabytes (C02); such histories are skipped
	var ans string
	if e.d != nil {
		toks := make([]string, len(hc.frames))
		for i, f := range hc.frames {
			toks[i] = f.chunk.Token()
			if f.kind == "tampered" {
				toks[i] = "x"
			}
		}
		ans = e.d.Ask("sealed 512 2097152 " + strings.Join(toks, " "))
		for _, t := range strings.Fields(ans) {
			if strings.HasPrefix(t, "merged:") {
				if !h.RecvSafeToDecode(h.UnHex(strings.Split(t, ":")[2]), hc.goods) {
					e.r.Hit("skipped:merged-bytes-would-hit-the-C02-allocation-defect")
					return
				}
			}
		}
	} else {
		for _, f := range hc.frames {
			if f.kind == "copy" && f.chunk.Type == 'C' {
				e.r.Hit("skipped:no-model-to-screen-merged-bytes")
				return
			}
		}
	}
	ln, rn := e.rnd.Bytes(32), e.rnd.Bytes(32)
	sealer, err := h.NewRecvSealer(hc.uri, hc.mode, ln, rn)
	if err != nil {
		e.r.InfraError = "sealer: " + err.Error()
		return
	}
	wires := map[string][]byte{}
	var out [][]byte
	for i := range hc.frames {
		f := &hc.frames[i]
		key := f.chunk.Token()
		w, ok := wires[key]
		if !ok {
			if w, err = sealer.Seal(f.chunk); err != nil {
				e.r.InfraError = "seal: " + err.Error()
				return
			}
			wires[key] = w
		}
		if f.kind == "tampered" {
			w = append([]byte{}, w...)
			w[24+e.rnd.Intn(len(w)-24)] ^= byte(1 + e.rnd.Intn(255))
		}
		f.wire = w // a copy is the same bytes as its original
		out = append(out, w)
	}
	job := &h.RecvJob{Setup: "open", Server: hc.server, URI: hc.uri, Mode: int(hc.mode), LocalNonce: ln, RemoteNonce: rn, KeyDir: e.o.Keys,
		Ack: []uint32{65535, 65535, 512, 2 * 1024 * 1024}, ChannelID: 11, TokenID: 22, Frames: out, DeadlineMs: 20000}
	res := e.w.Do(job)
	if res.Outcome == "timeout" {
		res = e.w.Do(job)
	}
	if strings.HasPrefix(res.Outcome, "panic") || strings.HasPrefix(res.Outcome, "crash") {
		e.r.Count(line, true)
		e.fail(line, "", "the receive path does not survive the history: "+res.Outcome)
		return
	}
	if res.Outcome != "ok" {
		e.r.InfraError = "worker: " + res.Outcome
		return
	}
	got := res.Results
	if res.Entries != 0 {
		for _, f := range hc.frames {
			if f.kind == "copy" && f.chunk.Type == 'C' || f.kind == "late" {
				res.Entries = 0 // such a frame legitimately leaves an unfinished message behind
			}
		}
		if res.Entries != 0 {
			e.fail(line, "", fmt.Sprintf("%d request ids still buffered although every message of the history is complete", res.Entries))
		}
	}
	adv := "none"
	for _, f := range hc.frames {
		if f.kind == "copy" || f.kind == "late" {
			adv = f.kind
		}
	}
	e.r.Count(line, adv != "none")
	e.r.Hit("adversary:" + adv)
	if adv == "copy" && benignCopies(hc) {
		e.r.Hit("copies:only-directly-repeated-intermediate-chunks")
	}
	e.r.Hit(fmt.Sprintf("mode:%d", hc.mode))
	e.r.Hit("policy:" + short(hc.uri))
	if hc.server {
		e.r.Hit("kind:server")
	} else {
		e.r.Hit("kind:client")
	}
	e.r.Sample(fmt.Sprintf("%.260s -> %.300v", line, got))

	// ---- model against implementation
	if e.d != nil {
		var want []string
		for _, t := range strings.Fields(ans) {
			e.r.Hit("model:" + strings.SplitN(t, ":", 2)[0])
			if t == "rej" {
				want = append(want, fmt.Sprintf("0 status:%d -", uint32(ua.StatusBadSecurityChecksFailed)))
			} else if x := h.RecvExpectFromModel(t); x != "" {
				want = append(want, x)
			}
		}
		if strings.Join(want, " | ") != strings.Join(got, " | ") {
			e.r.Disagree(line, ans+" => "+strings.Join(want, " | "), strings.Join(got, " | "))
		}
	}

	// ---- the property's own oracle, on the implementation alone
	var want []string
	firstAdv := -1 // index into `want` of the first copy / late frame
	for _, f := range hc.frames {
		if (f.kind == "copy" || f.kind == "late") && firstAdv < 0 {
			firstAdv = len(want)
		}
		if f.expect != "" {
			want = append(want, f.expect)
		}
	}
	// a frame that has to be rejected may produce an error result or be dropped
	// silently (both keep it from the application); everything else must match
	gi := 0
	for wi := 0; wi < len(want) || gi < len(got); {
		w, g := "(nothing)", "(nothing)"
		if wi < len(want) {
			w = want[wi]
		}
		if gi < len(got) {
			g = got[gi]
		}
		if w == "reject" {
			p := strings.Fields(g)
			if len(p) == 3 && p[1] != "nil" && p[2] == "-" && !(wi+1 < len(want) && want[wi+1] == g) {
				gi++ // rejected with an error
			}
			wi++
			continue
		}
		if w == g {
			wi++
			gi++
			continue
		}
		// signatures: the history contains a verbatim copy (a delayed message) and
		// everything before the first such frame was handled correctly
		sig := ""
		if firstAdv >= 0 && wi >= firstAdv && !(adv == "copy" && benignCopies(hc)) {
			if adv == "copy" {
				sig = sigReplay
			} else {
				sig = sigReorder
			}
			e.r.Confirm(sig, fmt.Sprintf("%s %s mode %d: result %d is %.90s, the property demands %.90s", short(hc.uri), map[bool]string{true: "server", false: "client"}[hc.server], hc.mode, gi, g, w))
		}
		e.fail(line, sig, fmt.Sprintf("result %d of Receive is %.200s; demanded: %.200s (copies and delayed frames must be rejected or ignored)", gi, g, w))
		return
	}
}

// renewalCase: a CLIENT channel handles OpenSecureChannel responses through the real
// handleOpenSecureChannelResponse (hook); a frame secured under the first token is
// delivered, the token is renewed, its expiry runs (real scheduleExpiration), and the
// adversary re-sends the captured frame. ch/tok: ids of the first token.
func (e *env) renewalCase(ch, tok uint32, mode ua.MessageSecurityMode) {
	uri := ua.SecurityPolicyURIBasic256Sha256
	cfg := h.RecvSecureConfig(uri, mode, e.keyA, e.keyB.CertDER)
	rc, err := h.RecvFreshChannel(cfg, h.RecvAck(65535, 65535, 512, 2*1024*1024), false, 0, 0)
	if err != nil {
		e.r.InfraError = "channel: " + err.Error()
		return
	}
	defer rc.Close()
	defer rc.SC.VerifForget()
	l1, s1, l2, s2 := e.rnd.Bytes(32), e.rnd.Bytes(32), e.rnd.Bytes(32), e.rnd.Bytes(32)
	body := e.service(40, true, 9)
	chunk := h.RecvRefChunk{Type: 'F', ChannelID: ch, TokenID: tok, Seq: 5, Req: 9, Body: body}
	sealer, err := h.NewRecvSealer(uri, mode, l1, s1)
	if err != nil {
		e.r.InfraError = err.Error()
		return
	}
	frame, err := sealer.Seal(chunk)
	if err != nil {
		e.r.InfraError = err.Error()
		return
	}
	recv := func() string {
		rc.Peer.Write(frame)
		rc.Conn.SetReadDeadline(time.Now().Add(20 * time.Second))
		ctx, cancel := context.WithTimeout(context.Background(), 20*time.Second)
		defer cancel()
		return h.RecvResultText(rc.SC.Receive(ctx))
	}
	if err := rc.SC.VerifHandleOPNResponse(ch, tok, time.Now(), 3600000, l1, s1); err != nil {
		e.r.InfraError = err.Error()
		return
	}
	first := recv()
	if err := rc.SC.VerifHandleOPNResponse(ch, tok+1, time.Now(), 3600000, l2, s2); err != nil {
		e.r.InfraError = err.Error()
		return
	}
	rc.SC.VerifExpireNow(ch, tok)
	second := recv()
	line := fmt.Sprintf("renewal %d o:%d:%d:1 f:%d:1:%s o:%d:%d:2 e:%d:%d:1 f:%d:1:%s", mode, ch, tok, ch, chunk.Token(), ch, tok+1, ch, tok, ch, chunk.Token())
	e.r.Count(line, true)
	e.r.Hit("adversary:copy-after-renewal")
	e.r.Hit(map[bool]string{true: "renewal:tok=chan", false: "renewal:tok≠chan"}[ch == tok])
	want := h.RecvExpectMerged(9, body)
	if e.d != nil {
		ans := e.d.Ask("tokrun 512 2097152 " + strings.Join(strings.Fields(line)[2:], " "))
		var exp []string
		for _, t := range strings.Fields(ans) {
			if t == "rej" {
				exp = append(exp, fmt.Sprintf("0 status:%d -", uint32(ua.StatusBadSecurityChecksFailed)))
			} else {
				exp = append(exp, h.RecvExpectFromModel(t))
			}
		}
		if strings.Join(exp, " | ") != first+" | "+second {
			e.r.Disagree(line, ans+" => "+strings.Join(exp, " | "), first+" | "+second)
		}
	}
	e.r.Notes = append(e.r.Notes, fmt.Sprintf("copy after renewal, client channel %d first token %d mode %d: original %s, copy after renewal+expiry %s",
		ch, tok, mode, map[bool]string{true: "delivered", false: "NOT delivered"}[first == want], map[bool]string{true: "DELIVERED AGAIN", false: "rejected (" + strings.Fields(second)[1] + ")"}[second == want]))
	if first != want {
		e.fail(line, "", "the original frame is not delivered: "+first)
		return
	}
	if second == want {
		// the copy is delivered again although its token was replaced and has expired
		sig := ""
		if ch != tok { // with token id = channel id the expiry works and the copy must be rejected
			sig = sigReplay
			e.r.Confirm(sigReplay, fmt.Sprintf("client channel %d, mode %d: frame of token %d delivered, token renewed by %d, expiry of token %d ran, the captured frame re-sent is delivered again", ch, mode, tok, tok+1, tok))
		}
		e.fail(line, sig, "a frame captured under the replaced and expired token is delivered a second time after the renewal")
	}
}

// opnReplayCase: a server channel (the server's default unsecured configuration) receives
// the same OpenSecureChannel request frame twice.
func (e *env) opnReplayCase() {
	cfg := h.RecvNoneConfig()
	cfg.LocalKey, cfg.Certificate = e.keyA.Key, e.keyA.CertDER
	rc, err := h.RecvFreshChannel(cfg, h.RecvAck(65535, 65535, 512, 2*1024*1024), true, 77, 5)
	if err != nil {
		e.r.InfraError = "channel: " + err.Error()
		return
	}
	defer rc.Close()
	req := &ua.OpenSecureChannelRequest{
		RequestHeader: &ua.RequestHeader{AuthenticationToken: ua.NewTwoByteNodeID(0), Timestamp: time.Unix(1700000000, 0).UTC(), RequestHandle: 1, AdditionalHeader: ua.NewExtensionObject(nil)},
		RequestType:   ua.SecurityTokenRequestTypeIssue, SecurityMode: ua.MessageSecurityModeNone, RequestedLifetime: 3600000,
	}
	tb, _ := ua.Encode(ua.NewFourByteExpandedNodeID(0, ua.ServiceTypeID(req)))
	bb, err := ua.Encode(req)
	if err != nil {
		e.r.InfraError = "OPN request does not encode: " + err.Error()
		return
	}
	lp := func(p []byte) []byte {
		if p == nil {
			return []byte{0xff, 0xff, 0xff, 0xff}
		}
		return append([]byte{byte(len(p)), byte(len(p) >> 8), 0, 0}, p...)
	}
	f := []byte("OPNF\x00\x00\x00\x00\x00\x00\x00\x00")
	f = append(f, lp([]byte(ua.SecurityPolicyURINone))...)
	f = append(f, lp(nil)...)
	f = append(f, lp(nil)...)
	f = append(f, 1, 0, 0, 0, 1, 0, 0, 0) // sequence number 1, request id 1
	f = append(f, tb...)
	f = append(f, bb...)
	f[4], f[5] = byte(len(f)), byte(len(f)>>8)
	// the responses are read and counted on the peer side
	responses := make(chan int, 1)
	go func() {
		n := 0
		hdr := make([]byte, 8)
		for {
			rc.Peer.SetReadDeadline(time.Now().Add(3 * time.Second))
			if _, err := io.ReadFull(rc.Peer, hdr); err != nil {
				break
			}
			rest := make([]byte, int(hdr[4])|int(hdr[5])<<8|int(hdr[6])<<16-8)
			if _, err := io.ReadFull(rc.Peer, rest); err != nil {
				break
			}
			if string(hdr[:3]) == "OPN" {
				n++
			}
		}
		responses <- n
	}()
	var got []string
	for i := 0; i < 2; i++ {
		rc.Peer.Write(f)
		rc.Conn.SetReadDeadline(time.Now().Add(20 * time.Second))
		ctx, cancel := context.WithTimeout(context.Background(), 20*time.Second)
		got = append(got, h.RecvResultText(rc.SC.Receive(ctx)))
		cancel()
	}
	n := <-responses
	table := rc.SC.VerifInstanceTable()
	line := "opn-replay server None: the same OpenSecureChannel request frame (sequence number 1, request id 1) twice"
	e.r.Count(line, true)
	e.r.Hit("adversary:opn-copy")
	e.r.Notes = append(e.r.Notes, fmt.Sprintf("OPN request frame sent twice to a server channel: results %v, %d OpenSecureChannel responses on the wire, instance table %v", got, n, table))
	if got[0] != "0 nil -" || n < 1 {
		e.fail(line, "", fmt.Sprintf("the original OpenSecureChannel request is not handled: %v, %d responses", got, n))
		return
	}
	if got[1] == "0 nil -" {
		e.r.Confirm(sigReplay, fmt.Sprintf("server channel: the same OPN request frame sent twice is handled twice (%d OpenSecureChannel responses sent, instance table %v)", n, table))
		e.fail(line, sigReplay, fmt.Sprintf("a verbatim copy of the OpenSecureChannel request is handled a second time: %d responses, instance table %v", n, table))
	}
}

// replay parses a history line back into a case.
func (e *env) replay(line string) {
	f := strings.Fields(line)
	if len(f) < 5 || f[0] != "history" {
		return
	}
	hc := &hcase{server: f[3] == "server"}
	for _, u := range []string{ua.SecurityPolicyURIBasic256Sha256, ua.SecurityPolicyURIAes128Sha256RsaOaep, ua.SecurityPolicyURIBasic256, ua.SecurityPolicyURIAes256Sha256RsaPss, ua.SecurityPolicyURIBasic128Rsa15} {
		if short(u) == f[1] {
			hc.uri = u
		}
	}
	var mode int
	fmt.Sscan(f[2], &mode)
	hc.mode = ua.MessageSecurityMode(mode)
	bodies := map[uint32][]byte{}
	for _, t := range f[4:] {
		kp := strings.SplitN(t, "/", 2)
		p := strings.Split(kp[1], ":")
		var ct, seq, req uint32
		fmt.Sscan(p[0], &ct)
		fmt.Sscan(p[1], &seq)
		fmt.Sscan(p[2], &req)
		fr := frame{chunk: h.RecvRefChunk{Type: byte(ct), ChannelID: 11, TokenID: 22, Seq: seq, Req: req, Body: h.UnHex(p[3])}}
		switch kp[0] {
		case "o":
			fr.kind = "orig"
			bodies[req] = append(bodies[req], fr.chunk.Body...)
			if ct == 'F' {
				fr.expect = h.RecvExpectMerged(req, bodies[req])
				hc.goods = append(hc.goods, bodies[req])
			}
		case "c":
			fr.kind, fr.expect = "copy", "reject"
		case "l":
			fr.kind, fr.expect = "late", "reject"
			bodies[req] = append(bodies[req], fr.chunk.Body...)
			if ct == 'F' {
				hc.goods = append(hc.goods, bodies[req])
			}
		default:
			fr.kind, fr.expect = "tampered", "reject"
		}
		hc.frames = append(hc.frames, fr)
	}
	if hc.uri != "" {
		e.runCase(hc)
	}
}

func main() {
	h.RecvWorkerMain()
	o := h.ParseOpts()
	r := h.NewResult("C10", o)
	d, err := h.StartDriver(o.Driver)
	if err != nil {
		r.InfraError = err.Error()
		r.Write(o.Out)
		return
	}
	defer d.Close()
	e := &env{o: o, r: r, d: d, rnd: h.NewRand(o.Seed), known: map[string]int{}, w: h.StartRecvWorker(3 << 20)}
	defer e.w.Close()
	if e.keyA, err = h.LoadKey(o.Keys, 2048, "a"); err == nil {
		e.keyB, err = h.LoadKey(o.Keys, 2048, "b")
	}
	if err != nil {
		r.InfraError = "keys: " + err.Error()
		r.Write(o.Out)
		return
	}
	r.Rule = "case = (policy, mode Sign|SignAndEncrypt, channel kind, history): 2-5 messages of 1-3 properly secured chunks (real symmetric crypto, keys from known nonces) sent to a real open channel over loopback TCP; adversary none (control: must be delivered exactly, request ids re-used after completion, neighbouring messages interleaved), dup (an intermediate chunk repeated before the next chunk of its request: must be dropped, no known signature applies), copy (1-3 verbatim copies of earlier frames inserted right behind the original or later), late (one complete message delayed behind all later ones); 15% of the histories carry a damaged frame. Real Receive vs Lean Recv.runSealed (fed what each frame opens to) and the property oracle (copies and delayed frames rejected, deliveries = original history). non-trivial = histories with an adversary; distinct by full text"
	if o.Replay != "" {
		e.replay(o.Replay)
		r.Write(o.Out)
		return
	}
	for _, l := range o.CorpusLines() {
		e.replay(l)
	}
	for _, mode := range []ua.MessageSecurityMode{ua.MessageSecurityModeSign, ua.MessageSecurityModeSignAndEncrypt} {
		e.renewalCase(7, 1, mode) // token id ≠ channel id: the copy is delivered again
		e.renewalCase(5, 5, mode) // token id = channel id: the expiry closes the window
	}
	e.opnReplayCase()
	n := o.N(150, 3000)
	for i := 0; i < n && r.InfraError == ""; i++ {
		adv := []string{"none", "copy", "copy", "late", "dup"}[i%5]
		if hc := e.gen(adv); hc != nil {
			e.runCase(hc)
		}
	}
	for _, b := range []string{"adversary:none", "adversary:copy", "adversary:late", "adversary:copy-after-renewal", "adversary:opn-copy", "mode:2", "mode:3", "kind:server", "kind:client", "model:rej", "model:cont", "model:merged"} {
		if r.Distribution[b] == 0 && (d != nil || !strings.HasPrefix(b, "model:")) {
			r.Unreached = append(r.Unreached, b)
		}
	}
	r.Write(o.Out)
}
