package main

import (
	"encoding/hex"
	"fmt"

	"github.com/gopcua/opcua/ua"
)

func main() {
	x := [][][]int32{{{1}, {2}}, {{3, 4}, {5, 6}}}
	v, err := ua.NewVariant(x)
	fmt.Println(err)
	b, err := v.Encode()
	fmt.Println(hex.EncodeToString(b), err, v.ArrayLength(), v.ArrayDimensions())
	w := &ua.Variant{}
	n, err := w.Decode(b)
	fmt.Println(n, len(b), err, w.Value())
	y := [][]string{{"a", "b"}, {"c", "d"}}
	v, err = ua.NewVariant(y)
	b, _ = v.Encode()
	fmt.Println(err, hex.EncodeToString(b))
	z := []ua.ByteArray{}
	v, err = ua.NewVariant(z)
	b, _ = v.Encode()
	fmt.Println(err, hex.EncodeToString(b))
}
