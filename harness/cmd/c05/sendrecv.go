// Writer side of C05: the real (*uacp.Conn).Send on one end of a loopback
// connection, the real Receive on the other end, then the decoding the
// handshake code applies to the delivered frame — against the Lean model
// `Uacp.send` / `receive` / `decodeFrame` (Model/UacpMsg.lean).  Both
// directions of the connection are used (the accepted and the dialled end
// take turns as the sender).
package main

import (
	"errors"
	"fmt"
	"net"
	"strings"
	"time"

	"github.com/gopcua/opcua/uacp"

	"verifharness/internal/h"
)

type srCase struct {
	snd, rcv uint32
	typ      string
	msg      interface{} // *uacp.Hello | *uacp.Acknowledge | *uacp.ReverseHello | *uacp.Error
	reverse  bool        // the dialled end sends (otherwise the accepted end)
}

func showMsg(m interface{}) string {
	switch x := m.(type) {
	case *uacp.Hello:
		return fmt.Sprintf("hello %d %d %d %d %d %s", x.Version, x.ReceiveBufSize, x.SendBufSize, x.MaxMessageSize, x.MaxChunkCount, h.Hex([]byte(x.EndpointURL)))
	case *uacp.Acknowledge:
		return fmt.Sprintf("ack %d %d %d %d %d", x.Version, x.ReceiveBufSize, x.SendBufSize, x.MaxMessageSize, x.MaxChunkCount)
	case *uacp.ReverseHello:
		return fmt.Sprintf("rhe %s %s", h.Hex([]byte(x.ServerURI)), h.Hex([]byte(x.EndpointURL)))
	case *uacp.Error:
		return fmt.Sprintf("err %d %s", x.ErrorCode, h.Hex([]byte(x.Reason)))
	}
	return "?"
}

func (c *srCase) line() string {
	return fmt.Sprintf("sendrecv %d %d %s %s", c.snd, c.rcv, h.Hex([]byte(c.typ)), showMsg(c.msg))
}

// decodeLikeHandshake is what Conn.Handshake / srvhandshake do with a frame.
func decodeLikeHandshake(b []byte) string {
	if len(b) < 8 {
		return "nodecode"
	}
	var m interface {
		Decode([]byte) (int, error)
	}
	switch string(b[:4]) {
	case "HELF":
		m = new(uacp.Hello)
	case "ACKF":
		m = new(uacp.Acknowledge)
	case "RHEF":
		m = new(uacp.ReverseHello)
	default:
		return "nodecode"
	}
	if _, err := m.Decode(b[8:]); err != nil {
		return "nodecode"
	}
	return showMsg(m)
}

func (e *env) sendRecv(c *srCase) {
	d := net.Dialer{Timeout: 10 * time.Second}
	dc, err := d.Dial("tcp", e.ln.Addr().String())
	if err != nil {
		e.r.InfraError = "dial: " + err.Error()
		return
	}
	defer dc.Close()
	e.ln.SetDeadline(time.Now().Add(10 * time.Second))
	ac, err := e.ln.AcceptTCP()
	if err != nil {
		e.r.InfraError = "accept: " + err.Error()
		return
	}
	defer ac.Close()
	sEnd, rEnd := ac, dc.(*net.TCPConn)
	if c.reverse {
		sEnd, rEnd = rEnd, sEnd
	}
	sender, _ := uacp.NewConn(sEnd, &uacp.Acknowledge{SendBufSize: c.snd, ReceiveBufSize: 65535})
	receiver, _ := uacp.NewConn(rEnd, &uacp.Acknowledge{ReceiveBufSize: c.rcv, SendBufSize: 65535})

	sEnd.SetWriteDeadline(time.Now().Add(ioDeadline))
	serr := sender.Send(c.typ, c.msg)
	var ans string
	var got []byte
	var rerr error
	if serr != nil {
		// nothing may be on the wire: a short read must time out
		rEnd.SetReadDeadline(time.Now().Add(30 * time.Millisecond))
		_, rerr = receiver.Receive()
		var ne net.Error
		if !(errors.As(rerr, &ne) && ne.Timeout()) {
			e.r.Fail(c.line(), "", fmt.Sprintf("Send returned %q but the peer read something / got %v", serr, rerr))
		}
		ans = "send-refused"
	} else {
		rEnd.SetReadDeadline(time.Now().Add(ioDeadline))
		got, rerr = receiver.Receive()
		body, _ := c.msg.(interface{ Encode() ([]byte, error) }).Encode()
		n := len(body) + 8
		if rerr != nil {
			ans = fmt.Sprintf("sent %d stop %s", n, classify(rerr))
		} else {
			ans = fmt.Sprintf("sent %d frame %d:%d %s", n, len(got), fnv32(got), decodeLikeHandshake(got))
		}
	}
	e.r.Count(c.line(), true)
	e.r.Compare(e.d, c.line(), ans)
	e.r.Sample(c.line() + " -> " + ans)
	e.r.Hit("sendrecv:" + strings.Fields(ans)[0])
	e.r.Hit("sendrecv-msg:" + strings.Fields(showMsg(c.msg))[0])
	if c.reverse {
		e.r.Hit("sendrecv-dir:dialled-end-sends")
	} else {
		e.r.Hit("sendrecv-dir:accepted-end-sends")
	}

	// ---- oracle on the implementation alone
	body, _ := c.msg.(interface{ Encode() ([]byte, error) }).Encode()
	size := len(body) + 8
	switch {
	case len(c.typ) != 4 || size > int(c.snd):
		if serr == nil {
			e.r.Fail(c.line(), "", fmt.Sprintf("Send wrote a frame of %d bytes with send buffer %d / type %q", size, c.snd, c.typ))
		}
	case serr != nil:
		e.r.Fail(c.line(), "", "Send refused a message that fits its send buffer: "+serr.Error())
	case size > int(c.rcv) || c.rcv < 8:
		// the receiver must refuse it with an error (rcv < 8: outside the property, see C13)
		if rerr == nil {
			e.r.Fail(c.line(), "", "a frame above the receive buffer was delivered")
		}
	default:
		want := showMsg(c.msg)
		if ue, ok := c.msg.(*uacp.Error); ok && strings.HasPrefix(c.typ, "ERR") {
			var re *uacp.Error
			if !errors.As(rerr, &re) || re.ErrorCode != ue.ErrorCode || re.Reason != ue.Reason {
				e.r.Fail(c.line(), "", fmt.Sprintf("ERR message came back as %v", rerr))
			}
		} else if strings.HasPrefix(c.typ, "ERR") {
			// a non-Error body under the ERR type: whatever Error.Decode makes of it, it is an error, not a frame
			if rerr == nil {
				e.r.Fail(c.line(), "", "ERR frame delivered as data")
			}
		} else if rerr != nil {
			e.r.Fail(c.line(), "", "frame within both buffers not delivered: "+rerr.Error())
		} else if len(got) != size || string(got[:4]) != c.typ || string(got[8:]) != string(body) {
			e.r.Fail(c.line(), "", "delivered frame is not header + encoded message")
		} else if map[string]string{"HELF": "hello", "ACKF": "ack", "RHEF": "rhe"}[c.typ] == strings.Fields(want)[0] {
			if dec := decodeLikeHandshake(got); dec != want {
				e.r.Fail(c.line(), "", fmt.Sprintf("round trip gives %s", dec))
			}
		}
	}
}

func genSR(rnd *h.Rand) *srCase {
	c := &srCase{reverse: rnd.Bool()}
	bufs := []int{8, 28, 33, 40, 64, 300, 8192, 65535}
	c.snd = uint32(bufs[rnd.Intn(len(bufs))])
	c.rcv = c.snd
	if rnd.Chance(40) {
		c.rcv = uint32(bufs[rnd.Intn(len(bufs))])
	}
	u32 := func() uint32 {
		return uint32(rnd.Pick(0, 1, 8192, 65535, 0x7fffffff, 0x80000000, 0xffffffff, rnd.Intn(1<<31)))
	}
	// string whose length puts the frame next to one of the buffers
	str := func(fixed int) string {
		n := rnd.Intn(40)
		switch rnd.Intn(5) {
		case 0:
			n = 0
		case 1:
			n = int(c.snd) - fixed + rnd.Intn(3) - 1
		case 2:
			n = int(c.rcv) - fixed + rnd.Intn(3) - 1
		}
		if n < 0 {
			n = 0
		}
		if n > 70000 {
			n = 70000
		}
		return string(rnd.Bytes(n))
	}
	kind := rnd.Intn(4)
	switch kind {
	case 0:
		c.typ, c.msg = "HELF", &uacp.Hello{Version: u32(), ReceiveBufSize: u32(), SendBufSize: u32(), MaxMessageSize: u32(), MaxChunkCount: u32(), EndpointURL: str(8 + 24)}
	case 1:
		c.typ, c.msg = "ACKF", &uacp.Acknowledge{Version: u32(), ReceiveBufSize: u32(), SendBufSize: u32(), MaxMessageSize: u32(), MaxChunkCount: u32()}
	case 2:
		c.typ, c.msg = "RHEF", &uacp.ReverseHello{ServerURI: str(8 + 8 + 3), EndpointURL: string(rnd.Bytes(3))}
	default:
		c.typ, c.msg = "ERRF", &uacp.Error{ErrorCode: u32(), Reason: str(8 + 8)}
	}
	switch rnd.Intn(12) {
	case 0:
		c.typ = c.typ[:3] // len(typ) != 4
	case 1:
		c.typ += "X"
	case 2:
		c.typ = c.typ[:3] + string(rune(rnd.Pick('C', 'A', 0, 0x7f))) // other chunk byte: delivered, not decoded by the handshake code
	case 3:
		c.typ = []string{"HELF", "ACKF", "RHEF", "ERRF", "MSGF"}[rnd.Intn(5)] // type and body do not belong together
	}
	return c
}
