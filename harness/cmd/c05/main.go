// Correspondence runner and property oracle for C05: the real
// (*uacp.Conn).Receive on a loopback TCP connection fed by a segmenting
// writer, against the Lean model `Uacp.receiveAll` on the same segments.
//
// One case = one TCP connection: the writer end sends the segments (one
// Write each, TCP_NODELAY), the reader end is a uacp.Conn created by
// uacp.NewConn with the chosen ReceiveBufSize and calls Receive until the
// first error.  The kernel may coalesce segments; the theorems say that the
// result does not depend on it.
package main

import (
	"bytes"
	"context"
	"encoding/binary"
	"errors"
	"fmt"
	"io"
	"net"
	"strconv"
	"strings"
	"time"

	"github.com/gopcua/opcua/uacp"

	"verifharness/internal/h"
)

const ioDeadline = 20 * time.Second

// a reader that stops later than this after the last byte was written was blocked (generous: loopback)
const hangAfter = 8 * time.Second

type stream struct {
	rcvBuf uint32
	segs   [][]byte
	good   [][]byte // well-formed frames before the first bad thing: what must be delivered
	kind   string   // clean toosmall toolarge errframe errgarbage truncated smallbuf replay
	seg    string   // name of the segmentation
	hold   bool     // the writer keeps its end open until the reader stopped
	paced  bool     // the writer sleeps between segments so that the reader sees short reads
	// != 0: the reader is a real client that sent this ReceiveBufSize in its Hello and got rcvBuf back in the Acknowledge
	helloRcv  uint32
	ackRcv    uint32 // ReceiveBufSize of that Acknowledge; the client ends up with min(helloRcv, ackRcv) = rcvBuf
	hsSkipped bool
}

func (s *stream) request() string {
	var sb strings.Builder
	sb.WriteString("recv ")
	sb.WriteString(strconv.FormatUint(uint64(s.rcvBuf), 10))
	for _, g := range s.segs {
		sb.WriteByte(' ')
		sb.WriteString(h.Hex(g))
	}
	return sb.String()
}

func fnv32(b []byte) uint32 {
	x := uint32(2166136261)
	for _, c := range b {
		x = (x ^ uint32(c)) * 16777619
	}
	return x
}

func classify(err error) string {
	var ue *uacp.Error
	var ne net.Error
	switch {
	case err == io.EOF:
		return "eof"
	case err == io.ErrUnexpectedEOF:
		return "ueof"
	case errors.As(err, &ue):
		return fmt.Sprintf("errf %d %s", ue.ErrorCode, h.Hex([]byte(ue.Reason)))
	case errors.As(err, &ne) && ne.Timeout():
		return "timeout"
	case strings.Contains(err.Error(), "message too large"):
		return "toolarge"
	case strings.Contains(err.Error(), "message too small"):
		return "toosmall"
	case strings.Contains(err.Error(), "failed to decode ERRF"):
		return "errdecode"
	}
	return "other:" + strings.ReplaceAll(err.Error(), " ", "_")
}

// pair sets up the two ends of one case.  Without a handshake the reader is
// uacp.NewConn over the accepted socket; with st.helloRcv != 0 the reader is a
// real client: uacp.Dialer.Dial (NewConn + Conn.Handshake) against this
// harness, which answers the Hello with an Acknowledge carrying st.rcvBuf — the
// frames then arrive over an ESTABLISHED connection whose receive buffer was
// negotiated, not configured.
func pair(ln *net.TCPListener, st *stream) (conn *uacp.Conn, wc *net.TCPConn, err error) {
	if st.helloRcv == 0 {
		d := net.Dialer{Timeout: 10 * time.Second}
		c, err := d.Dial("tcp", ln.Addr().String())
		if err != nil {
			return nil, nil, fmt.Errorf("dial: %v", err)
		}
		wc = c.(*net.TCPConn)
		ln.SetDeadline(time.Now().Add(10 * time.Second))
		rc, err := ln.AcceptTCP()
		if err != nil {
			wc.Close()
			return nil, nil, fmt.Errorf("accept: %v", err)
		}
		conn, err = uacp.NewConn(rc, &uacp.Acknowledge{ReceiveBufSize: st.rcvBuf, SendBufSize: st.rcvBuf})
		if err != nil {
			wc.Close()
			rc.Close()
			return nil, nil, fmt.Errorf("NewConn: %v", err)
		}
		return conn, wc, nil
	}
	type acc struct {
		c   *net.TCPConn
		err error
	}
	ch := make(chan acc, 1)
	go func() {
		ln.SetDeadline(time.Now().Add(10 * time.Second))
		c, err := ln.AcceptTCP()
		if err != nil {
			ch <- acc{nil, err}
			return
		}
		c.SetDeadline(time.Now().Add(ioDeadline))
		hdr := make([]byte, 8)
		if _, err = io.ReadFull(c, hdr); err == nil && string(hdr[:4]) == "HELF" {
			_, err = io.ReadFull(c, make([]byte, binary.LittleEndian.Uint32(hdr[4:])-8))
		} else if err == nil {
			err = fmt.Errorf("no Hello: %q", hdr[:4])
		}
		if err == nil {
			ack := header("ACK", 'F', 28)
			for _, v := range []uint32{0, st.ackRcv, 65535, 0, 0} {
				ack = binary.LittleEndian.AppendUint32(ack, v)
			}
			_, err = c.Write(ack)
		}
		c.SetDeadline(time.Time{})
		ch <- acc{c, err}
	}()
	ctx, cancel := context.WithTimeout(context.Background(), ioDeadline)
	defer cancel()
	dl := &uacp.Dialer{Dialer: &net.Dialer{Timeout: 10 * time.Second},
		ClientACK: &uacp.Acknowledge{ReceiveBufSize: st.helloRcv, SendBufSize: 65535}}
	conn, err = dl.Dial(ctx, "opc.tcp://"+ln.Addr().String())
	a := <-ch
	if err != nil || a.err != nil {
		if a.c != nil {
			a.c.Close()
		}
		if conn != nil {
			conn.Close()
		}
		return nil, nil, fmt.Errorf("handshake: dial=%v peer=%v", err, a.err)
	}
	if conn.ReceiveBufSize() != st.rcvBuf {
		// how Hello and Acknowledge combine is C06's business; this case needs a connection whose
		// negotiated receive buffer is st.rcvBuf, so fall back to the configured connection
		conn.Close()
		a.c.Close()
		st.helloRcv, st.hsSkipped = 0, true
		return pair(ln, st)
	}
	return conn, a.c, nil
}

// runOne plays the stream over a fresh loopback connection and returns the
// frames Receive delivered and the class of the error that ended the loop.
func runOne(ln *net.TCPListener, st *stream) (frames [][]byte, stop string, writerDone bool, infra error) {
	conn, wc, err := pair(ln, st)
	if err != nil {
		return nil, "", false, err
	}
	defer wc.Close()
	defer conn.Close()
	wc.SetNoDelay(true)

	type wres struct {
		ok bool
		at time.Time
	}
	done := make(chan wres, 1)
	go func() {
		ok := true
		for _, g := range st.segs {
			if len(g) == 0 {
				continue // an empty read does not exist on TCP; the model skips it as well
			}
			wc.SetWriteDeadline(time.Now().Add(ioDeadline))
			if _, err := wc.Write(g); err != nil {
				ok = false // the reader stopped and closed: expected after an error
				break
			}
			if st.paced {
				time.Sleep(300 * time.Microsecond)
			}
		}
		if !st.hold {
			wc.CloseWrite()
		}
		done <- wres{ok, time.Now()}
	}()

	for {
		conn.SetReadDeadline(time.Now().Add(ioDeadline))
		var b []byte
		var rerr error
		res := h.Catch(func() string {
			b, rerr = conn.Receive()
			return "ok"
		})
		if res == "panic" {
			stop = "panic"
			break
		}
		if rerr != nil {
			stop = classify(rerr)
			break
		}
		frames = append(frames, append([]byte(nil), b...))
	}
	stopped := time.Now()
	conn.Close()
	wc.Close()
	select {
	case w := <-done:
		writerDone = w.ok
		// everything had been written (and the writer waits) but Receive needed most of the
		// read deadline to give up: it was blocked waiting for bytes that were never to come
		if st.hold && w.ok && stopped.Sub(w.at) > hangAfter && stop != "timeout" {
			stop = "timeout"
		}
	case <-time.After(2 * ioDeadline):
		return frames, stop, false, fmt.Errorf("writer goroutine stuck")
	}
	return frames, stop, writerDone, nil
}

func answer(frames [][]byte, stop string) string {
	parts := []string{strconv.Itoa(len(frames))}
	for _, f := range frames {
		parts = append(parts, fmt.Sprintf("%d:%d", len(f), fnv32(f)))
	}
	return strings.Join(append(parts, stop), " ")
}

// ------------------------------------------------------------ generators

var types = []string{"MSG", "OPN", "CLO", "HEL", "ACK", "RHE", "XYZ", "ERX", "\x00\x00\x00"}

func header(typ string, chunk byte, size uint32) []byte {
	b := make([]byte, 8)
	copy(b, typ)
	b[3] = chunk
	binary.LittleEndian.PutUint32(b[4:], size)
	return b
}

func goodFrame(rnd *h.Rand, size int) []byte {
	typ := types[rnd.Intn(len(types))]
	if rnd.Chance(10) {
		typ = string(rnd.Bytes(3))
		if typ == "ERR" {
			typ = "ERS"
		}
	}
	chunk := byte(rnd.Pick('F', 'C', 'A', 0, 0xff))
	f := header(typ, chunk, uint32(size))
	return append(f, rnd.Bytes(size-8)...)
}

func frameSize(rnd *h.Rand, rcvBuf int, small bool) int {
	if rcvBuf == 8 {
		return 8
	}
	hi := rcvBuf
	if small && hi > 300 {
		hi = 300
	}
	switch rnd.Intn(8) {
	case 0:
		return 8
	case 1:
		return 9
	case 2:
		if small {
			return hi
		}
		return rcvBuf - 1
	case 3:
		if small {
			return hi - 1
		}
		return rcvBuf
	case 4:
		if !small {
			return 8 + rnd.Intn(rcvBuf-7)
		}
	}
	return 8 + rnd.Intn(hi-7)
}

func errFrame(code uint32, reasonLen uint32, reason, trailing []byte) []byte {
	body := make([]byte, 8)
	binary.LittleEndian.PutUint32(body, code)
	binary.LittleEndian.PutUint32(body[4:], reasonLen)
	body = append(body, reason...)
	body = append(body, trailing...)
	return append(header("ERR", 'F', uint32(8+len(body))), body...)
}

// segmentations of a byte string
func cut(rnd *h.Rand, data []byte, frames [][]byte, mode string) [][]byte {
	var out [][]byte
	switch mode {
	case "whole":
		return [][]byte{data}
	case "bytewise":
		for i := range data {
			out = append(out, data[i:i+1])
		}
	case "perframe":
		p := 0
		for _, f := range frames {
			out = append(out, data[p:p+len(f)])
			p += len(f)
		}
		if p < len(data) {
			out = append(out, data[p:])
		}
	case "headersplit": // every frame boundary falls 1..7 bytes into the next header
		p, last := 0, 0
		for _, f := range frames {
			k := p + 1 + rnd.Intn(7)
			if k > len(data) {
				k = len(data)
			}
			if k > last {
				out = append(out, data[last:k])
				last = k
			}
			p += len(f)
		}
		if last < len(data) {
			out = append(out, data[last:])
		}
	case "random", "randomempty":
		p := 0
		limit := 1500 // recursion depth of the model's readFull = segments per read
		for p < len(data) {
			n := 1 + rnd.Intn(rnd.Pick(2, 8, 64, 1024, 70000))
			if len(out) > limit {
				n = len(data)
			}
			if p+n > len(data) {
				n = len(data) - p
			}
			if mode == "randomempty" && rnd.Chance(15) {
				out = append(out, nil)
			}
			out = append(out, data[p:p+n])
			p += n
		}
		if mode == "randomempty" && rnd.Chance(30) {
			out = append(out, nil)
		}
	}
	return out
}

func gen(rnd *h.Rand, big bool) *stream {
	st := &stream{}
	rb := rnd.Pick(8, 9, 9, 16, 64, 64, 300, 8192, 8192, 65535)
	if big {
		rb = rnd.Pick(65535, 1<<20)
	}
	st.rcvBuf = uint32(rb)
	small := !big && rnd.Chance(70)
	nfr := rnd.Intn(7)
	if big {
		nfr = 1 + rnd.Intn(2)
	}
	var data []byte
	var all [][]byte
	for i := 0; i < nfr; i++ {
		f := goodFrame(rnd, frameSize(rnd, rb, small))
		st.good = append(st.good, f)
		all = append(all, f)
		data = append(data, f...)
	}
	kinds := []string{"clean", "clean", "clean", "toosmall", "toolarge", "errframe", "errgarbage", "truncated"}
	st.kind = kinds[rnd.Intn(len(kinds))]
	var tail []byte
	switch st.kind {
	case "toosmall":
		tail = header("MSG", 'F', uint32(rnd.Intn(8)))
		tail = append(tail, rnd.Bytes(rnd.Intn(20))...)
	case "toolarge":
		sz := uint32(rb + 1)
		switch rnd.Intn(4) {
		case 0:
			sz = uint32(rb) + 1 + uint32(rnd.Intn(100000))
		case 1:
			sz = 0xffffffff
		case 2:
			sz = 0x80000000
		}
		typ := "MSG"
		if rnd.Chance(25) {
			typ = "ERR" // the size check comes before the ERR decoding
		}
		tail = header(typ, 'F', sz)
		tail = append(tail, rnd.Bytes(rnd.Intn(40))...)
	case "errframe":
		reason := rnd.Bytes(rnd.Intn(30))
		var e []byte
		switch rnd.Intn(5) {
		case 0:
			e = errFrame(uint32(rnd.U64()), 0, nil, nil)
		case 1:
			e = errFrame(0x80010000, 0xffffffff, nil, rnd.Bytes(rnd.Intn(5)))
		case 2:
			e = errFrame(uint32(rnd.U64()), uint32(len(reason)), reason, rnd.Bytes(rnd.Intn(9))) // trailing bytes
		default:
			e = errFrame(uint32(rnd.U64()), uint32(len(reason)), reason, nil)
		}
		if len(e) > rb { // does not fit: choose the shortest ERR frame or turn into toolarge
			e = errFrame(0x80020000, 0, nil, nil)
			if len(e) > rb {
				st.kind = "toolarge"
			}
		}
		tail = e
	case "errgarbage":
		var e []byte
		switch rnd.Intn(3) {
		case 0: // body shorter than the two integers
			body := rnd.Bytes(rnd.Intn(8))
			e = append(header("ERR", 'F', uint32(8+len(body))), body...)
		case 1: // reason length beyond the body
			e = errFrame(1, uint32(5+rnd.Intn(1000)), rnd.Bytes(4), nil)
		default:
			e = errFrame(1, 0x7fffffff, rnd.Bytes(rnd.Intn(4)), nil)
		}
		if len(e) > rb {
			st.kind = "toolarge"
		}
		tail = e
	case "truncated":
		f := goodFrame(rnd, frameSize(rnd, rb, small || big))
		k := rnd.Intn(len(f))
		if rnd.Chance(30) && len(f) > 8 {
			k = 8
		}
		if k == 0 {
			st.kind = "clean"
		}
		tail = f[:k]
	}
	if st.kind != "clean" && st.kind != "truncated" {
		// more (good) frames after the bad one: they must not be delivered
		if rnd.Chance(40) {
			tail = append(tail, goodFrame(rnd, frameSize(rnd, rb, true))...)
		}
		st.hold = rnd.Chance(50)
	}
	data = append(data, tail...)
	if len(tail) > 0 {
		all = append(all, tail)
	}
	modes := []string{"whole", "bytewise", "perframe", "headersplit", "random", "random", "randomempty"}
	st.seg = modes[rnd.Intn(len(modes))]
	if st.seg == "bytewise" && len(data) > 1500 {
		st.seg = "random"
	}
	st.segs = cut(rnd, data, all, st.seg)
	st.paced = len(st.segs) > 1 && len(st.segs) <= 40 && rnd.Chance(25)
	return st
}

// ------------------------------------------------------------ evaluation

type env struct {
	r     *h.Result
	d     *h.Driver
	ln    *net.TCPListener
	abort bool
}

func (e *env) eval(st *stream) {
	req := st.request()
	var frames [][]byte
	var stop string
	for attempt := 0; attempt < 2; attempt++ {
		var done bool
		var infra error
		frames, stop, done, infra = runOne(e.ln, st)
		if infra != nil {
			e.r.InfraError = infra.Error()
			return
		}
		if stop != "timeout" {
			break
		}
		if !done {
			e.r.InfraError = "loopback writer did not finish within the deadline"
			return
		}
	}
	e.r.Count(req, true)
	stopClass := strings.Fields(stop)[0]
	e.r.Hit("kind:" + st.kind)
	e.r.Hit("seg:" + st.seg)
	e.r.Hit(fmt.Sprintf("rcvBuf:%d", st.rcvBuf))
	e.r.Hit("stop:" + stopClass)
	if st.hold {
		e.r.Hit("writer-holds-open")
	}
	if st.helloRcv != 0 {
		e.r.Hit("after-real-handshake")
	}
	if st.hsSkipped {
		e.r.Hit("note:handshake-gave-another-buffer(plain-conn-used)")
	}
	if st.paced {
		e.r.Hit("paced")
	}
	e.r.Hit(fmt.Sprintf("delivered:%d", min(len(frames), 7)))
	ans := answer(frames, stop)
	e.r.Compare(e.d, req, ans)
	total := 0
	for _, g := range st.segs {
		total += len(g)
	}
	e.r.Sample(fmt.Sprintf("rcvBuf=%d kind=%s seg=%s(%d segments, %d bytes) hold=%v -> %s", st.rcvBuf, st.kind, st.seg, len(st.segs), total, st.hold, ans))

	// ---- the property's own oracle, on the implementation alone
	short := req
	if len(short) > 3000 { // keep the replay record small; the seed reproduces the case
		short = fmt.Sprintf("%s… (%d chars) kind=%s seg=%s", req[:200], len(req), st.kind, st.seg)
	}
	if st.rcvBuf < 8 {
		return // outside the property (no negotiated buffer is below the header size): model comparison only
	}
	if stop == "panic" {
		e.r.Fail(short, "", "Receive panicked")
	}
	if stop == "timeout" {
		e.r.Fail(short, "", "Receive blocked for more than 8 s after all bytes had been written, until the read deadline (twice)")
		e.abort = true // every further case of this kind would cost two read deadlines
	}
	if st.kind == "replay" {
		// no construction knowledge: the frames that must be delivered are read off the byte stream
		st.good = specFrames(st)
	}
	if sp := specFrames(st); st.kind != "replay" && len(sp) != len(st.good) {
		e.r.InfraError = fmt.Sprintf("harness bug: generator expects %d frames, the framing rule %d: %s", len(st.good), len(sp), short)
		return
	}
	if len(frames) != len(st.good) {
		e.r.Fail(short, "", fmt.Sprintf("%d frames delivered, %d well-formed frames sent before the end/bad frame (stop=%s)", len(frames), len(st.good), stop))
	} else {
		for i := range frames {
			if !bytes.Equal(frames[i], st.good[i]) {
				e.r.Fail(short, "", fmt.Sprintf("frame %d differs from the frame sent", i))
				break
			}
		}
	}
	switch st.kind {
	case "replay":
	case "clean":
		if stop != "eof" {
			e.r.Fail(short, "", "clean end of stream reported as "+stop)
		}
	default: // malformed / ERR / truncated: an error, whichever — not success (impossible here), panic or hang
		if strings.HasPrefix(stop, "other:") {
			e.r.Hit("note:unclassified-error")
		}
	}
}

// specFrames states the framing rule on the plain byte stream: consecutive
// complete frames (8 ≤ size ≤ rcvBuf, all bytes present, type ≠ ERR) up to
// the first thing that is not one.
func specFrames(st *stream) [][]byte {
	var data []byte
	for _, g := range st.segs {
		data = append(data, g...)
	}
	var out [][]byte
	for len(data) >= 8 {
		size := uint64(binary.LittleEndian.Uint32(data[4:8]))
		if size < 8 || size > uint64(st.rcvBuf) || size > uint64(len(data)) || string(data[:3]) == "ERR" {
			break
		}
		out = append(out, data[:size])
		data = data[size:]
	}
	return out
}

func parseReplay(line string) (*stream, error) {
	t := strings.Fields(line)
	if len(t) < 2 || t[0] != "recv" {
		return nil, fmt.Errorf("not a recv line")
	}
	rb, err := strconv.ParseUint(t[1], 10, 32)
	if err != nil {
		return nil, err
	}
	st := &stream{rcvBuf: uint32(rb), kind: "replay", seg: "replay"}
	for _, x := range t[2:] {
		if strings.ContainsAny(x, "…(") {
			return nil, fmt.Errorf("abbreviated case: rerun with the seed")
		}
		st.segs = append(st.segs, h.UnHex(x))
	}
	// replayed streams are paced so that the reader really sees the segmentation
	st.paced = len(st.segs) <= 400
	return st, nil
}

func main() {
	o := h.ParseOpts()
	r := h.NewResult("C05", o)
	d, err := h.StartDriver(o.Driver)
	if err != nil {
		r.InfraError = err.Error()
		r.Write(o.Out)
		return
	}
	defer d.Close()
	l, err := net.Listen("tcp", "127.0.0.1:0")
	if err != nil {
		r.InfraError = "listen: " + err.Error()
		r.Write(o.Out)
		return
	}
	defer l.Close()
	e := &env{r: r, d: d, ln: l.(*net.TCPListener)}
	rnd := h.NewRand(o.Seed)
	r.Rule = "case = (receive buffer, list of TCP segments): frames delivered by the real uacp.Conn.Receive loop over loopback TCP and the class of the terminating error vs Lean receiveAll on the same segments; streams = 0..6 well-formed frames (sizes 8, 9, rcvBuf-1, rcvBuf, random; any type but ERR) followed by nothing / a header with size 0..7 / size > rcvBuf (up to 2^32-1) / a valid or garbage ERR frame / a truncated frame, optionally more frames behind; 7 segmentations (whole, bytewise, per frame, cut inside every header, random, random with empty reads), writer paced or holding the connection open; rcvBuf 0..7 only model vs impl (panic); every case is non-trivial, distinct by request line"

	if o.Replay != "" {
		if st, err := parseReplay(o.Replay); err == nil {
			e.eval(st)
			r.Write(o.Out)
			return
		}
		r.Notes = append(r.Notes, "replay case is abbreviated; running the seeded generation instead")
	}
	for _, line := range o.CorpusLines() {
		st, err := parseReplay(line)
		if err != nil {
			r.Notes = append(r.Notes, "bad corpus line: "+err.Error())
			continue
		}
		e.eval(st)
		r.Hit("corpus")
		if r.InfraError != "" {
			r.Write(o.Out)
			return
		}
	}
	n := o.N(400, 6000)
	nbig := o.N(3, 40)
	for i := 0; i < n+nbig && r.InfraError == "" && !e.abort; i++ {
		st := gen(rnd, i >= n)
		// one case in four runs over a connection established by the real client handshake:
		// the client configured another receive buffer than the one it then negotiates
		// (Handshake refuses buffers below 8192 and bounds the adopted value by the Hello)
		if st.rcvBuf >= 8192 && rnd.Chance(45) {
			bigger := uint32(rnd.Pick(65535, 1<<20, 1<<24))
			if bigger < st.rcvBuf {
				bigger = st.rcvBuf
			}
			switch rnd.Intn(3) {
			case 0:
				st.helloRcv, st.ackRcv = st.rcvBuf, st.rcvBuf
			case 1:
				st.helloRcv, st.ackRcv = st.rcvBuf, bigger
			default:
				st.helloRcv, st.ackRcv = bigger, st.rcvBuf
			}
		}
		e.eval(st)
	}
	// writer side: real Send on one end, real Receive on the other, both directions
	for i := 0; i < o.N(200, 4000) && r.InfraError == ""; i++ {
		e.sendRecv(genSR(rnd))
	}
	// rcvBuf below the header size: the slice expression b[:8] panics (C05_small_buffer); reported under C13
	for rb := 0; rb < 8 && r.InfraError == ""; rb++ {
		f := goodFrame(rnd, 8)
		e.eval(&stream{rcvBuf: uint32(rb), segs: [][]byte{f}, kind: "smallbuf", seg: "whole", good: nil, hold: false}) // the writer closes: a Receive that does not panic ends with EOF instead of waiting for the deadline
	}
	for _, b := range []string{"kind:clean", "kind:toosmall", "kind:toolarge", "kind:errframe", "kind:errgarbage", "kind:truncated", "kind:smallbuf",
		"stop:eof", "stop:ueof", "stop:toolarge", "stop:toosmall", "stop:errf", "stop:errdecode", "stop:panic",
		"sendrecv:send-refused", "sendrecv:sent", "sendrecv-msg:hello", "sendrecv-msg:ack", "sendrecv-msg:rhe", "sendrecv-msg:err", "sendrecv-dir:dialled-end-sends", "sendrecv-dir:accepted-end-sends", "after-real-handshake", "seg:whole", "seg:bytewise", "seg:perframe", "seg:headersplit", "seg:random", "seg:randomempty"} {
		if r.Distribution[b] == 0 {
			r.Unreached = append(r.Unreached, b)
		}
	}
	r.Write(o.Out)
}
