// Correspondence runner and property oracle for C23: random sequences of
// opcua.NewClient(url, options…) on the real code against the Lean heap model
// (Model/CfgAlias.lean with the generated alias facts), plus the property's
// own oracle on the implementation alone.
//
// A case is a program
//
//	prog (c <Option>:<seed>*)+      every listed instance is a new Option value
//	progr (c <Option>:<seed>*)+     identical instances are ONE Option value applied to several clients
//
// = clients constructed one after the other, each with a list of option
// instances (the option's parameters are derived from the seed).  For the
// model the program is translated into the assignments each option instance
// performs (measured on the real option in isolation on a pristine
// configuration, within the option's generated footprint); the model decides
// WHERE they land (own object / caller's object / package-level object) and
// predicts every client's effective configuration and the package defaults at
// the end of the program.
package main

import (
	"context"
	"crypto/rsa"
	"encoding/binary"
	"fmt"
	"io"
	"log"
	"net"
	"os"
	"reflect"
	"sort"
	"strconv"
	"strings"
	"time"

	"github.com/gopcua/opcua"
	"github.com/gopcua/opcua/ua"
	"github.com/gopcua/opcua/uacp"

	"verifharness/internal/h"
)

const url = "opc.tcp://127.0.0.1:4840"

type env struct {
	o      *h.Opts
	r      *h.Result
	d      *h.Driver
	rnd    *h.Rand
	keys   [2]*h.KeyPair
	fps    map[string][]h.CfgFp
	shared []h.CfgShared

	pristine     map[string]string        // leaf path -> value of a pristine newConfig()
	pristineObjs map[string]reflect.Value // shared path -> copy of the package-level object
}

// ---------------------------------------------------------------- options

type inst struct {
	name string
	seed uint32
}

func (i inst) String() string { return fmt.Sprintf("%s:%d", i.name, i.seed) }

var optionNames = []string{
	"ApplicationName", "ApplicationURI", "AuthAnonymous", "AuthCertificate", "AuthIssuedToken", "AuthPolicyID",
	"AuthPrivateKey", "AuthUsername", "AutoReconnect", "Certificate", "CertificateFile", "DialTimeout", "Dialer",
	"Lifetime", "Locales", "MaxChunkCount", "MaxMessageSize", "PrivateKey", "PrivateKeyFile", "ProductURI",
	"RandomRequestID", "ReceiveBufferSize", "ReconnectInterval", "RemoteCertificate", "RemoteCertificateFile",
	"RequestTimeout", "SecurityFromEndpoint", "SecurityMode", "SecurityModeString", "SecurityPolicy",
	"SendBufferSize", "SessionName", "SessionTimeout", "StateChangedCh", "StateChangedFunc",
}

// mk builds a NEW instance of the option (caller-supplied objects are
// allocated afresh on every call, so that evaluations do not influence each other).
func (e *env) mk(i inst) opcua.Option {
	s := i.seed
	str := fmt.Sprintf("v%d", s%5)
	num := []uint32{0, 1, 1234, 8192, 65535, 9999, s}[s%7]
	dur := time.Duration(1+s%4) * time.Second
	key := e.keys[s%2]
	switch i.name {
	case "ApplicationName":
		return opcua.ApplicationName(str)
	case "ApplicationURI":
		return opcua.ApplicationURI("urn:" + str)
	case "AuthAnonymous":
		return opcua.AuthAnonymous()
	case "AuthCertificate":
		return opcua.AuthCertificate(key.CertDER)
	case "AuthIssuedToken":
		return opcua.AuthIssuedToken([]byte(str))
	case "AuthPolicyID":
		return opcua.AuthPolicyID("policy-" + str)
	case "AuthPrivateKey":
		return opcua.AuthPrivateKey(key.Key)
	case "AuthUsername":
		return opcua.AuthUsername("user-"+str, "pw-"+str)
	case "AutoReconnect":
		return opcua.AutoReconnect(s%2 == 0)
	case "Certificate":
		if s%5 == 4 {
			return opcua.Certificate([]byte("not a certificate")) // NewClient fails after the other options ran
		}
		return opcua.Certificate(key.CertDER)
	case "CertificateFile":
		return opcua.CertificateFile(key.CertPEM)
	case "DialTimeout":
		return opcua.DialTimeout(dur)
	case "Dialer":
		// an object of the caller's own
		d := &uacp.Dialer{
			Dialer:    &net.Dialer{Timeout: dur, KeepAlive: time.Duration(s%3) * time.Second},
			ClientACK: &uacp.Acknowledge{ReceiveBufSize: 1000 + s%3, SendBufSize: 2000 + s%3, MaxChunkCount: s % 4, MaxMessageSize: 4000 + s%2},
		}
		if nilACKDialer(s) {
			d.ClientACK = nil // "use the defaults" (uacp.NewConn falls back to DefaultClientACK at dial time)
		}
		return opcua.Dialer(d)
	case "Lifetime":
		return opcua.Lifetime(dur * 100)
	case "Locales":
		return opcua.Locales([]string{"en", "de", "fr"}[:1+s%3]...)
	case "MaxChunkCount":
		return opcua.MaxChunkCount(num)
	case "MaxMessageSize":
		return opcua.MaxMessageSize(num)
	case "PrivateKey":
		return opcua.PrivateKey(key.Key)
	case "PrivateKeyFile":
		return opcua.PrivateKeyFile(key.KeyPEM)
	case "ProductURI":
		return opcua.ProductURI("urn:product:" + str)
	case "RandomRequestID":
		return opcua.RandomRequestID()
	case "ReceiveBufferSize":
		return opcua.ReceiveBufferSize(num)
	case "ReconnectInterval":
		return opcua.ReconnectInterval(dur)
	case "RemoteCertificate":
		return opcua.RemoteCertificate(key.CertDER)
	case "RemoteCertificateFile":
		return opcua.RemoteCertificateFile(key.CertPEM)
	case "RequestTimeout":
		return opcua.RequestTimeout(dur)
	case "SecurityFromEndpoint":
		ep := &ua.EndpointDescription{
			SecurityPolicyURI: []string{ua.SecurityPolicyURINone, ua.SecurityPolicyURIBasic256Sha256}[s%2],
			SecurityMode:      ua.MessageSecurityMode(1 + s%3),
			ServerCertificate: key.CertDER,
			UserIdentityTokens: []*ua.UserTokenPolicy{
				{PolicyID: "anon-" + str, TokenType: ua.UserTokenTypeAnonymous},
				{PolicyID: "user-" + str, TokenType: ua.UserTokenTypeUserName, SecurityPolicyURI: []string{"", ua.SecurityPolicyURIBasic256}[s%2]},
			},
		}
		return opcua.SecurityFromEndpoint(ep, ua.UserTokenType(s%4))
	case "SecurityMode":
		return opcua.SecurityMode(ua.MessageSecurityMode(1 + s%3))
	case "SecurityModeString":
		return opcua.SecurityModeString([]string{"None", "Sign", "SignAndEncrypt", "bogus"}[s%4])
	case "SecurityPolicy":
		return opcua.SecurityPolicy([]string{"None", "Basic256Sha256", "Basic256", ua.SecurityPolicyURIAes128Sha256RsaOaep}[s%4])
	case "SendBufferSize":
		return opcua.SendBufferSize(num)
	case "SessionName":
		return opcua.SessionName("session-" + str)
	case "SessionTimeout":
		return opcua.SessionTimeout(dur * 60)
	case "StateChangedCh":
		return opcua.StateChangedCh(make(chan opcua.ConnState, 8))
	case "StateChangedFunc":
		return opcua.StateChangedFunc(func(opcua.ConnState) {})
	}
	return nil
}

// nilACKDialer: the Dialer instance with this seed carries no ClientACK. A buffer
// option applied after it dereferences nil (a panic that is not C23's business),
// so the generator never lets one follow in the same client.
func nilACKDialer(seed uint32) bool { return seed%4 == 3 }

func isBufferOption(n string) bool {
	return n == "MaxMessageSize" || n == "MaxChunkCount" || n == "ReceiveBufferSize" || n == "SendBufferSize"
}

// ---------------------------------------------------------------- dumps

func dumpMap(cfg *opcua.Config) map[string]string {
	m := map[string]string{}
	for _, l := range opcua.VerifDumpConfig(cfg) {
		m[l.Path] = l.Value
	}
	return m
}

// resetDefaults puts the package-level objects the defaults point to back to
// their pristine content (the runner itself runs many programs in one process).
func (e *env) resetDefaults() {
	cfg := opcua.VerifNewConfig()
	for q, pv := range e.pristineObjs {
		obj := opcua.VerifConfigObject(cfg, q)
		if obj == nil {
			continue
		}
		reflect.ValueOf(obj).Elem().Set(pv.Elem())
	}
}

func under(prefix, path string) bool {
	return path == prefix || strings.HasPrefix(path, prefix+".") || strings.HasPrefix(path, prefix+"[")
}

// applyIsolated: the configuration the options produce on pristine defaults
func (e *env) applyIsolated(is []inst) (map[string]string, bool) {
	e.resetDefaults()
	opts := make([]opcua.Option, len(is))
	for k, i := range is {
		opts[k] = e.mk(i)
	}
	var cfg *opcua.Config
	var err error
	if h.Catch(func() string { cfg, err = opcua.ApplyConfig(opts...); return "" }) == "panic" || cfg == nil {
		e.resetDefaults()
		return nil, false
	}
	m := dumpMap(cfg)
	e.resetDefaults()
	return m, err == nil
}

// ---------------------------------------------------------------- one program

type client struct {
	insts []inst
}

func parseProg(line string) ([]client, bool) {
	t := strings.Fields(line)
	if len(t) < 2 || (t[0] != "prog" && t[0] != "progr") || t[1] != "c" {
		return nil, false
	}
	var cs []client
	for _, tok := range t[1:] {
		if tok == "c" {
			cs = append(cs, client{})
			continue
		}
		nm, sd, ok := strings.Cut(tok, ":")
		n, err := strconv.ParseUint(sd, 10, 32)
		if !ok || err != nil {
			return nil, false
		}
		cs[len(cs)-1].insts = append(cs[len(cs)-1].insts, inst{nm, uint32(n)})
	}
	return cs, true
}

func progLine(cs []client, reuse bool) string {
	var sb strings.Builder
	sb.WriteString("prog")
	if reuse {
		sb.WriteString("r")
	}
	for _, c := range cs {
		sb.WriteString(" c")
		for _, i := range c.insts {
			sb.WriteString(" " + i.String())
		}
	}
	return sb.String()
}

func hx(s string) string { return h.Hex([]byte(s)) }

// writesShared: some client uses one of the options that assign through
// dialer.ClientACK while its dialer is still the default one (the programs that
// exposed the repaired defect C23.shared-default-client-ack; distribution only).
func writesShared(cs []client) bool {
	for _, c := range cs {
		own := false
		for _, i := range c.insts {
			switch i.name {
			case "Dialer":
				own = true
			case "MaxMessageSize", "MaxChunkCount", "ReceiveBufferSize", "SendBufferSize":
				if !own {
					return true
				}
			}
		}
	}
	return false
}

func (e *env) run(line string) {
	cs, ok := parseProg(line)
	if !ok {
		e.r.InfraError = "malformed case: " + line
		return
	}
	e.r.Count(line, len(cs) >= 2)
	if writesShared(cs) {
		e.r.Hit("default-dialer-buffer-option-used")
	}
	e.r.Hit(fmt.Sprintf("clients:%d", min(len(cs), 4)))

	// ---- 1. the real program
	e.resetDefaults()
	cfgs := make([]*opcua.Config, len(cs))
	// "progr": one Option VALUE per distinct instance, applied to every client that lists it (the
	// usual slice of base options) — except Dialer(d), where sharing d is the caller's own doing
	reuse := strings.HasPrefix(line, "progr ")
	cache := map[inst]opcua.Option{}
	for k, c := range cs {
		opts := make([]opcua.Option, len(c.insts))
		for j, i := range c.insts {
			if o, ok := cache[i]; ok && reuse && i.name != "Dialer" {
				opts[j] = o
				e.r.Hit("option-value-applied-to-several-clients")
			} else {
				opts[j] = e.mk(i)
				cache[i] = opts[j]
			}
			e.r.Hit("opt:" + i.name)
			if i.name == "Dialer" && nilACKDialer(i.seed) {
				e.r.Hit("dialer-without-client-ack")
			}
		}
		var cl *opcua.Client
		var err error
		if h.Catch(func() string { cl, err = opcua.NewClient(url, opts...); return "" }) == "panic" {
			e.r.Fail(line, "", fmt.Sprintf("NewClient panics (client %d)", k))
			e.resetDefaults()
			return
		}
		if err == nil {
			cfgs[k] = opcua.VerifConfigOf(cl)
		} else {
			e.r.Hit("client-construction-fails")
		}
	}
	final := make([]map[string]string, len(cs))
	objs := make([]map[uintptr]string, len(cs)+1) // address -> path of every struct object a configuration reaches
	for k, cfg := range cfgs {
		if cfg != nil {
			final[k] = dumpMap(cfg)
			objs[k] = objectAddrs(cfg, final[k])
		}
	}
	nextCfg := opcua.VerifNewConfig()
	next := dumpMap(nextCfg) // what a client created now would start from
	objs[len(cs)] = objectAddrs(nextCfg, next)
	e.resetDefaults()

	var rep []string
	for k, m := range final {
		for p, v := range m {
			if e.pristine[p] != v || !has(e.pristine, p) {
				rep = append(rep, fmt.Sprintf("%d:%s=%s", k, p, hx(v)))
			}
		}
	}
	for _, s := range e.shared {
		for p, v := range next {
			if under(s.Path, p) && p != s.Path && e.pristine[p] != v {
				rep = append(rep, fmt.Sprintf("%s:%s=%s", s.Global, strings.TrimPrefix(p, s.Path+"."), hx(v)))
			}
		}
	}
	sort.Strings(rep)
	impl := "-"
	if len(rep) > 0 {
		impl = strings.Join(rep, " ")
	}

	// ---- 2. the property's own oracle, on the implementation alone
	isolated := make([]map[string]string, len(cs))
	for k, c := range cs {
		if isolated[k], _ = e.applyIsolated(c.insts); isolated[k] == nil {
			e.r.InfraError = "options panic in isolation: " + line
			return
		}
	}
	var bad []string
	for p, v := range next {
		if e.pristine[p] != v {
			bad = append(bad, fmt.Sprintf("the defaults a new client starts from changed: %s = %s (pristine %s)", p, v, e.pristine[p]))
		}
	}
	for k := range cs {
		if final[k] == nil {
			continue
		}
		for p, v := range final[k] {
			if isolated[k][p] != v {
				bad = append(bad, fmt.Sprintf("client %d reads %s = %s, its own options on pristine defaults give %s", k, p, v, isolated[k][p]))
			}
		}
	}
	// no two clients (nor a client and the defaults of the next one) reach the same object:
	// a shared object is a leak waiting for the first write through it
	for a := 0; a < len(objs); a++ {
		for b := a + 1; b < len(objs); b++ {
			for addr, pa := range objs[a] {
				if pb, ok := objs[b][addr]; ok {
					who := fmt.Sprintf("client %d", b)
					if b == len(cs) {
						who = "the defaults of the next client"
					}
					bad = append(bad, fmt.Sprintf("client %d (%s) and %s (%s) point to the same object", a, pa, who, pb))
				}
			}
		}
	}
	if len(bad) == 0 {
		e.r.Hit("oracle:isolated")
	} else {
		sort.Strings(bad)
		if writesShared(cs) {
			e.r.Hit("oracle-fail:through-default-client-ack") // the shape of the repaired C23.shared-default-client-ack
		}
		e.r.Fail(line, "", bad[0]+fmt.Sprintf(" (%d differences)", len(bad)))
	}

	// ---- 3. the program as the model sees it: per option instance, what it assigns (isolated, pristine)
	var req strings.Builder
	req.WriteString("run")
	user := 0
	// identity of the Option VALUE an instance is: in "progr" programs identical instances are one value
	values := map[inst]int{}
	valueID := func(i inst, k, j int) int {
		if reuse && i.name != "Dialer" {
			if v, ok := values[i]; ok {
				return v
			}
			values[i] = len(values)
			return values[i]
		}
		return 1000 + 100*k + j
	}
	for k, c := range cs {
		if cfgs[k] == nil {
			req.WriteString(" cx")
		} else {
			req.WriteString(" c")
		}
		before, _ := e.applyIsolated(nil)
		for j, i := range c.insts {
			after, _ := e.applyIsolated(c.insts[:j+1])
			if after == nil || before == nil {
				e.r.InfraError = "option panics in isolation: " + i.String()
				return
			}
			fp, ok := e.fps[i.name]
			if !ok {
				e.r.Disagree(line, "no footprint generated for option "+i.name, "option exists")
				return
			}
			covered := map[string]bool{}
			for _, f := range fp {
				isObj := false
				var leaves []string
				for p := range before {
					if under(f.Path, p) {
						leaves = append(leaves, p)
						isObj = isObj || p != f.Path
					}
				}
				for p := range after {
					if under(f.Path, p) {
						if !has(before, p) {
							leaves = append(leaves, p)
						}
						isObj = isObj || p != f.Path
					}
				}
				sort.Strings(leaves)
				if isObj {
					sharedRel := false
					for _, s := range e.shared {
						if under(f.Path, s.Path) || under(s.Path, f.Path) {
							sharedRel = true
						}
					}
					switch {
					case f.ParamRef:
						fmt.Fprintf(&req, " r %s u%d", f.Path, user)
						user++
						e.r.Hit("step:redirect-to-caller-object")
					case !sharedRel && f.Captured:
						// the constructor allocates outside the closure: one object per Option value
						fmt.Fprintf(&req, " r %s v%d", f.Path, valueID(i, k, j))
						e.r.Hit("step:redirect-to-option-value-object")
					case !sharedRel:
						fmt.Fprintf(&req, " r %s fresh", f.Path)
						e.r.Hit("step:redirect-fresh")
					default:
						e.r.Disagree(line, "(the model has no step for it)", "option "+i.name+" allocates an object at or around the shared default "+f.Path)
						return
					}
				}
				for _, p := range leaves {
					v, ok := after[p]
					if !ok {
						v = "<absent>"
					}
					fmt.Fprintf(&req, " w %s %s", p, hx(v))
					covered[p] = true
				}
			}
			// the generated footprint must cover everything the real option changed
			for p, v := range after {
				if before[p] != v && !covered[p] {
					e.r.Disagree(line, "footprint of "+i.name+" = "+fmt.Sprint(fp), "the option also changes "+p)
				}
			}
			for p := range before {
				if !has(after, p) && !covered[p] {
					e.r.Disagree(line, "footprint of "+i.name+" = "+fmt.Sprint(fp), "the option also removes "+p)
				}
			}
			before = after
		}
	}
	e.r.Compare(e.d, req.String(), impl)
	e.r.Sample(fmt.Sprintf("%s  ->  %s", line, decodeReport(impl)))
}

func has(m map[string]string, k string) bool { _, ok := m[k]; return ok }

// objectAddrs: the struct objects (paths with leaves below them) a configuration
// reaches, by address. Byte/string slices and opaque keys are values the caller
// may pass to several clients and are leaves of the dump: not included.
func objectAddrs(cfg *opcua.Config, dump map[string]string) map[uintptr]string {
	out := map[uintptr]string{}
	for p, addr := range opcua.VerifConfigPointers(cfg) {
		if has(dump, p) {
			continue // a leaf (slice, key)
		}
		out[addr] = p
	}
	return out
}

func decodeReport(rep string) string {
	if rep == "-" {
		return "nothing differs from the pristine defaults"
	}
	var out []string
	for _, t := range strings.Fields(rep) {
		k, v, _ := strings.Cut(t, "=")
		out = append(out, k+"="+string(h.UnHex(v)))
	}
	return strings.Join(out, " ")
}

// ---------------------------------------------------------------- the wire

// helloOnTheWire: configure one client, create a second one WITHOUT options and
// let it dial a local listener: the HEL message of the second client carries
// the first client's buffer sizes.
func (e *env) helloOnTheWire() string {
	ln, err := net.Listen("tcp", "127.0.0.1:0")
	if err != nil {
		return "no loopback listener: " + err.Error()
	}
	defer ln.Close()
	got := make(chan string, 1)
	go func() {
		c, err := ln.Accept()
		if err != nil {
			got <- "accept: " + err.Error()
			return
		}
		defer c.Close()
		c.SetDeadline(time.Now().Add(20 * time.Second))
		hdr := make([]byte, 8+20)
		if _, err := io.ReadFull(c, hdr); err != nil {
			got <- "read: " + err.Error()
			return
		}
		f := func(i int) uint32 { return binary.LittleEndian.Uint32(hdr[8+4*i:]) }
		got <- fmt.Sprintf("%s ReceiveBufSize=%d SendBufSize=%d MaxMessageSize=%d MaxChunkCount=%d", hdr[:3], f(1), f(2), f(3), f(4))
	}()
	e.resetDefaults()
	defer e.resetDefaults()
	if _, err := opcua.NewClient(url, opcua.MaxMessageSize(1234), opcua.ReceiveBufferSize(9999)); err != nil {
		return "NewClient: " + err.Error()
	}
	c2, err := opcua.NewClient("opc.tcp://" + ln.Addr().String())
	if err != nil {
		return "NewClient: " + err.Error()
	}
	ctx, cancel := context.WithTimeout(context.Background(), 20*time.Second)
	defer cancel()
	go c2.Dial(ctx)
	select {
	case s := <-got:
		return s
	case <-time.After(25 * time.Second):
		return "no HEL within 25 s"
	}
}

// ---------------------------------------------------------------- main

func (e *env) genProg() string {
	rnd := e.rnd
	n := 1 + rnd.Intn(4)
	cs := make([]client, n)
	focus := rnd.Chance(50) // half of the programs concentrate on the dialer / buffer options
	reuse := rnd.Chance(30) // a slice of base options whose VALUES are applied to several clients
	var base []inst
	pick := func() inst {
		name := optionNames[rnd.Intn(len(optionNames))]
		if focus && rnd.Chance(60) {
			name = []string{"MaxMessageSize", "MaxChunkCount", "ReceiveBufferSize", "SendBufferSize", "Dialer", "DialTimeout"}[rnd.Intn(6)]
		}
		if reuse && rnd.Chance(50) {
			name = []string{"AuthUsername", "AuthAnonymous", "AuthCertificate", "AuthIssuedToken", "SecurityFromEndpoint", "AuthPolicyID", "ApplicationName", "Locales"}[rnd.Intn(8)]
		}
		return inst{name, uint32(rnd.Intn(1000))}
	}
	if reuse {
		for j := 1 + rnd.Intn(3); j > 0; j-- {
			base = append(base, pick())
		}
	}
	for k := range cs {
		if reuse && rnd.Chance(80) {
			cs[k].insts = append(cs[k].insts, base...)
		}
		m := rnd.Intn(5)
		for j := 0; j < m; j++ {
			cs[k].insts = append(cs[k].insts, pick())
		}
		// no buffer option after a dialer without ClientACK (nil dereference, see nilACKDialer)
		noACK := false
		for j, i := range cs[k].insts {
			if i.name == "Dialer" {
				noACK = nilACKDialer(i.seed)
			} else if noACK && isBufferOption(i.name) {
				cs[k].insts[j] = inst{"DialTimeout", i.seed}
			}
		}
	}
	return progLine(cs, reuse)
}

func main() {
	o := h.ParseOpts()
	r := h.NewResult("C23", o)
	d, err := h.StartDriver(o.Driver)
	if err != nil {
		r.InfraError = err.Error()
		r.Write(o.Out)
		return
	}
	defer d.Close()
	e := &env{o: o, r: r, d: d, rnd: h.NewRand(o.Seed)}
	r.Rule = "case = a program: 1-4 clients built one after the other by the real opcua.NewClient, each with 0-4 instances of the 35 options of config.go (parameters derived from a seed; Dialer(d) with a fresh object of the caller's; a Certificate option that fails). Compared with the model: every (client, path) whose effective value at the end differs from the pristine defaults and every cell of the package-level defaults that changed. The assignments of each option instance are measured on the real option in isolation and must lie inside its generated footprint. Oracle (implementation alone): the defaults a new client starts from are pristine at the end, and every client reads what its own options give on pristine defaults. Non-trivial = at least two clients; distinct by the program text."

	repo := os.Getenv("VERIF_REPO")
	if repo == "" {
		repo = "/repo"
	}
	if e.fps, err = h.ConfigFootprints(repo); err == nil {
		if e.shared, err = h.ConfigAliasFacts(repo); err == nil {
			a, b := opcua.VerifNewConfig(), opcua.VerifNewConfig()
			e.shared, err = h.MergeAliasFacts(e.shared, h.DynShared(opcua.VerifConfigPointers(a), opcua.VerifConfigPointers(b)))
		}
	}
	if err != nil {
		r.InfraError = "source analysis: " + err.Error()
		r.Write(o.Out)
		return
	}
	for k, who := range []string{"a", "b"} {
		if e.keys[k], err = h.LoadKey(o.Keys, 1024, who); err != nil {
			r.InfraError = "keys: " + err.Error()
			r.Write(o.Out)
			return
		}
	}
	var _ *rsa.PrivateKey = e.keys[0].Key
	log.SetOutput(io.Discard) // the options log "ignoring …" messages
	opcua.VerifSetRandomRequestID(func() uint32 { return 4242 })
	// pristine state of this process (nothing has applied an option yet)
	cfg := opcua.VerifNewConfig()
	e.pristine = dumpMap(cfg)
	e.pristineObjs = map[string]reflect.Value{}
	for _, s := range e.shared {
		obj := opcua.VerifConfigObject(cfg, s.Path)
		if obj == nil {
			r.InfraError = "shared default " + s.Path + " is not a pointer the harness can restore"
			r.Write(o.Out)
			return
		}
		cp := reflect.New(reflect.TypeOf(obj).Elem())
		cp.Elem().Set(reflect.ValueOf(obj).Elem())
		e.pristineObjs[s.Path] = cp
	}
	// every option of config.go must be known to the runner, and vice versa
	for n := range e.fps {
		if e.mk(inst{n, 0}) == nil {
			r.Notes = append(r.Notes, "option "+n+" of config.go is not exercised by the runner")
			r.Hit("option-not-exercised")
		}
	}

	if o.Replay != "" {
		e.run(strings.Trim(o.Replay, "\""))
		r.Write(o.Out)
		return
	}
	for _, l := range o.CorpusLines() {
		e.run(l)
	}
	// every option once alone, followed by a client without options
	for _, n := range optionNames {
		e.run(fmt.Sprintf("prog c %s:%d c", n, 2))
	}
	for i := 0; i < o.N(700, 20000) && r.InfraError == ""; i++ {
		e.run(e.genProg())
	}
	if hel := e.helloOnTheWire(); strings.HasPrefix(hel, "HEL") {
		r.Notes = append(r.Notes, "on the wire: after NewClient(url, MaxMessageSize(1234), ReceiveBufferSize(9999)) a second client built WITHOUT options sends "+hel)
		if strings.Contains(hel, "ReceiveBufSize=9999") && strings.Contains(hel, "MaxMessageSize=1234") {
			r.Hit("wire:second-client-sends-first-clients-sizes")
		} else {
			r.Hit("wire:second-client-sends-defaults")
		}
	} else {
		r.Notes = append(r.Notes, "wire observation skipped: "+hel)
	}
	want := []string{"clients:1", "clients:2", "clients:3", "clients:4", "client-construction-fails", "step:redirect-to-caller-object",
		"step:redirect-fresh", "oracle:isolated", "default-dialer-buffer-option-used", "wire:second-client-sends-defaults",
		"dialer-without-client-ack", "option-value-applied-to-several-clients"}
	for _, n := range optionNames {
		want = append(want, "opt:"+n)
	}
	for _, b := range want {
		if r.Distribution[b] == 0 {
			r.Unreached = append(r.Unreached, b)
		}
	}
	r.Write(o.Out)
}
