// Correspondence runner and property oracle for C33: Browse returns exactly
// the matching references.
//
// The real Browse service (handler called in process, panics recovered; a
// sample also through a real client against a server in a CHILD process, so
// that a request that kills the server is observed, not suffered) is compared with the Lean model on the
// reference lists dumped from the live address space, and — independently —
// with an oracle computed in Go from that dump: direction, reference type equal
// or (only with IncludeSubtypes) in the transitive HasSubtype closure, class of
// the TARGET NODE in the mask.
package main

import (
	"bufio"
	"context"
	"fmt"
	"hash/fnv"
	"io"
	"log"
	"net"
	"os"
	"os/exec"
	"sort"
	"strconv"
	"strings"
	"time"

	"github.com/gopcua/opcua"
	"github.com/gopcua/opcua/id"
	"github.com/gopcua/opcua/server"
	"github.com/gopcua/opcua/ua"

	"verifharness/internal/h"
)

// All three defects this runner used to classify are repaired (subtypes matched
// although excluded; the deletion loop that panicked; the class mask applied to
// the class recorded in the reference): every difference between Browse and
// the specification is an unclassified oracle failure now.

// Node ids are abstract keys for the model.  Numeric ids: ns<<32 | id (0 = the null id).  String, GUID
// and opaque ids: bit 60 | 40 bits of a hash of the textual form; the ids the harness itself creates are
// registered in `named`, so that a key can be turned back into the id (parent and child process build the
// same server, hence the same table).
var named = map[uint64]*ua.NodeID{}

func key(n *ua.NodeID) (uint64, bool) {
	switch n.Type() {
	case ua.NodeIDTypeTwoByte, ua.NodeIDTypeFourByte, ua.NodeIDTypeNumeric:
		return uint64(n.Namespace())<<32 | uint64(n.IntID()), true
	}
	hs := fnv.New64a()
	hs.Write([]byte(n.String()))
	k := uint64(1)<<60 | hs.Sum64()&(1<<40-1)
	if old, ok := named[k]; ok && old.String() != n.String() {
		return 0, false // hash collision: treat like an id we cannot name
	}
	named[k] = n
	return k, true
}

func nodeID(k uint64) *ua.NodeID {
	if k>>60 != 0 {
		if n, ok := named[k]; ok {
			return n
		}
		return ua.NewStringNodeID(1, fmt.Sprintf("unknown-%d", k))
	}
	return ua.NewNumericNodeID(uint16(k>>32), uint32(k))
}

type ref struct {
	typ    uint64
	fwd    bool
	target uint64
	stored uint32
	actual uint32
	exists bool
	nilF   bool
}

func (r ref) tok() string { return fmt.Sprintf("%d:%d:%d", r.typ, b2i(r.fwd), r.target) }
func b2i(b bool) int {
	if b {
		return 1
	}
	return 0
}

type world struct {
	srv   *server.Server
	port  int
	refs  map[uint64][]ref // node -> its reference list, in the order of node.refs
	order []uint64
	// Go-side transitive closure of forward HasSubtype: closure[t][x] = x is a proper subtype of t
	closure map[uint64]map[uint64]bool
	classes map[uint64]uint32 // node -> class as read through the Read service
	skipped int
}

func freePort() int {
	l, err := net.Listen("tcp", "127.0.0.1:0")
	if err != nil {
		return 0
	}
	defer l.Close()
	return l.Addr().(*net.TCPAddr).Port
}

// build constructs the server: standard address space plus one added namespace
// with a folder, variables and cross-namespace references. Deterministic.
func build() (*world, error) {
	w := &world{refs: map[uint64][]ref{}, closure: map[uint64]map[uint64]bool{}}
	var err error
	for try := 0; try < 5; try++ {
		w.port = freePort()
		s := server.New(server.EnableSecurity("None", ua.MessageSecurityModeNone),
			server.EnableAuthMode(ua.UserTokenTypeAnonymous), server.EndPoint("localhost", w.port))
		ns0, _ := s.Namespace(0)
		ns1 := server.NewNodeNameSpace(s, "urn:verif:browse")
		obj := ns1.Objects()
		ns0.Objects().AddRef(obj, id.HasComponent, true)
		obj.AddRef(ns0.Objects(), id.HasComponent, false)
		folder := server.NewFolderNode(ua.NewNumericNodeID(ns1.ID(), 5000), "folder")
		ns1.AddNode(folder)
		obj.AddRef(folder, id.Organizes, true)
		folder.AddRef(obj, id.Organizes, false)
		for i := 0; i < 4; i++ {
			v := server.NewVariableNode(ua.NewNumericNodeID(ns1.ID(), uint32(5001+i)), fmt.Sprintf("v%d", i), int32(i))
			ns1.AddNode(v)
			rt := server.RefType(id.HasComponent)
			if i%2 == 1 {
				rt = server.RefType(id.HasProperty)
			}
			folder.AddRef(v, rt, true)
			v.AddRef(folder, rt, false)
			v.AddRef(ns0.Node(ua.NewNumericNodeID(0, id.BaseDataVariableType)), server.RefType(id.HasTypeDefinition), true)
		}
		// two DIFFERENT references to the same target (another type; the inverse direction)
		folder.AddRef(ns1.Node(ua.NewNumericNodeID(ns1.ID(), 5001)), id.Organizes, true)
		folder.AddRef(ns1.Node(ua.NewNumericNodeID(ns1.ID(), 5002)), id.HasProperty, false)
		// reference types whose ids are NOT numeric (string, GUID), standing alone in the hierarchy, and
		// references of those types between the nodes of this namespace
		strType := server.NewNode(ua.NewStringNodeID(ns1.ID(), "HasVerifString"), map[ua.AttributeID]*ua.DataValue{
			ua.AttributeIDNodeClass:  server.DataValueFromValue(uint32(ua.NodeClassReferenceType)),
			ua.AttributeIDBrowseName: server.DataValueFromValue(&ua.QualifiedName{NamespaceIndex: ns1.ID(), Name: "HasVerifString"}),
		}, nil, nil)
		guidType := server.NewNode(ua.NewGUIDNodeID(ns1.ID(), "72962B91-FA75-4AE6-8D28-B404DC7DAF63"), map[ua.AttributeID]*ua.DataValue{
			ua.AttributeIDNodeClass:  server.DataValueFromValue(uint32(ua.NodeClassReferenceType)),
			ua.AttributeIDBrowseName: server.DataValueFromValue(&ua.QualifiedName{NamespaceIndex: ns1.ID(), Name: "HasVerifGuid"}),
		}, nil, nil)
		ns1.AddNode(strType)
		ns1.AddNode(guidType)
		typedRef := func(from, to *server.Node, typ *ua.NodeID, fwd bool) {
			from.VerifAppendRef(&ua.ReferenceDescription{
				ReferenceTypeID: typ, IsForward: fwd, NodeID: ua.NewExpandedNodeID(to.ID(), "", 0),
				BrowseName: to.BrowseName(), DisplayName: to.DisplayName(), NodeClass: to.NodeClass(), TypeDefinition: to.DataType(),
			})
		}
		v0 := ns1.Node(ua.NewNumericNodeID(ns1.ID(), 5001))
		v1 := ns1.Node(ua.NewNumericNodeID(ns1.ID(), 5002))
		typedRef(folder, v0, strType.ID(), true)
		typedRef(v0, folder, strType.ID(), false)
		typedRef(folder, v1, guidType.ID(), true)
		typedRef(v1, folder, guidType.ID(), false)
		typedRef(obj, folder, guidType.ID(), true)
		key(strType.ID())
		key(guidType.ID())
		key(ua.NewStringNodeID(ns1.ID(), "NoSuchReferenceType"))
		key(ua.NewGUIDNodeID(0, "00000000-0000-0000-0000-000000000000"))
		// a reference whose recorded class goes stale: the target's class is changed afterwards
		late := server.NewVariableNode(ua.NewNumericNodeID(ns1.ID(), 5010), "late", int32(7))
		ns1.AddNode(late)
		folder.AddRef(late, id.HasComponent, true)
		late.SetNodeClass(ua.NodeClassObject)
		if err = s.Start(context.Background()); err == nil {
			w.srv = s
			break
		}
	}
	if err != nil {
		return nil, err
	}
	w.dump()
	return w, nil
}

// readAttr reads one attribute through the real Read handler (what a client gets).
func (w *world) readAttr(n *ua.NodeID, a ua.AttributeID) *ua.DataValue {
	var out *ua.DataValue
	h.Catch(func() string {
		resp, err, ok := w.srv.VerifCallService(nil, &ua.ReadRequest{RequestHeader: &ua.RequestHeader{},
			NodesToRead: []*ua.ReadValueID{{NodeID: n, AttributeID: a, DataEncoding: &ua.QualifiedName{}}}})
		if ok && err == nil {
			if rr, isRead := resp.(*ua.ReadResponse); isRead && len(rr.Results) == 1 {
				out = rr.Results[0]
			}
		}
		return ""
	})
	return out
}

// classOf is the class of a target node as a CLIENT sees it: the NodeClass attribute read through the
// Read service (and, as a side effect, every node's NodeClass has been read before it is browsed: the
// read path rewrites the stored representation, which must not change what Browse does).  Only when
// the attribute cannot be read the node's own accessor is used.
func (w *world) classOf(n *ua.NodeID) (uint32, bool) {
	t := w.srv.Node(n)
	if t == nil {
		return 0, false
	}
	k, ok := key(n)
	if c, hit := w.classes[k]; ok && hit {
		return c, true
	}
	c := uint32(t.NodeClass())
	if dv := w.readAttr(n, ua.AttributeIDNodeClass); dv != nil && dv.Status == ua.StatusOK && dv.Value != nil {
		switch v := dv.Value.Value().(type) {
		case int32:
			c = uint32(v)
		case uint32:
			c = v
		}
	}
	if ok {
		w.classes[k] = c
	}
	return c, true
}

// dump reads the reference lists of all nodes and recomputes the Go-side closure.
func (w *world) dump() {
	w.classes = map[uint64]uint32{}
	// clients look at the nodes before they browse: every attribute of the nodes of the added namespace
	if ns1i, err := w.srv.Namespace(1); err == nil {
		for _, nid := range ns1i.(*server.NodeNameSpace).VerifNodeIDs() {
			for _, a := range []ua.AttributeID{ua.AttributeIDNodeID, ua.AttributeIDNodeClass, ua.AttributeIDBrowseName, ua.AttributeIDDisplayName,
				ua.AttributeIDDescription, ua.AttributeIDValue, ua.AttributeIDDataType, ua.AttributeIDEventNotifier, ua.AttributeIDNodeClass} {
				w.readAttr(nid, a)
			}
		}
	}
	w.refs, w.closure, w.order, w.skipped = map[uint64][]ref{}, map[uint64]map[uint64]bool{}, nil, 0
	for nsi := 0; nsi < 2; nsi++ {
		ns, _ := w.srv.Namespace(nsi)
		nn := ns.(*server.NodeNameSpace)
		for _, nid := range nn.VerifNodeIDs() {
			k, ok := key(nid)
			if !ok {
				w.skipped++
				continue
			}
			n := nn.Node(nid)
			var rs []ref
			good := true
			for _, r := range n.VerifRefs() {
				x := ref{fwd: r.IsForward, stored: uint32(r.NodeClass)}
				x.nilF = r.NodeID == nil || r.BrowseName == nil || r.DisplayName == nil || r.TypeDefinition == nil
				if r.ReferenceTypeID == nil {
					good = false
					break
				}
				var ok1, ok2 bool
				x.typ, ok1 = key(r.ReferenceTypeID)
				ok2 = true
				if r.NodeID != nil {
					x.target, ok2 = key(r.NodeID.NodeID)
					x.actual, x.exists = w.classOf(r.NodeID.NodeID)
				}
				if !ok1 || !ok2 {
					good = false
					break
				}
				rs = append(rs, x)
			}
			if !good {
				w.skipped++
				continue
			}
			w.refs[k] = rs
			w.order = append(w.order, k)
		}
	}
	// Go-side closure (BFS, independent of getSubRefs)
	direct := map[uint64][]uint64{}
	for k, rs := range w.refs {
		for _, r := range rs {
			if r.typ == id.HasSubtype && r.fwd && !r.nilF {
				direct[k] = append(direct[k], r.target)
			}
		}
	}
	for k := range direct {
		seen := map[uint64]bool{}
		q := append([]uint64{}, direct[k]...)
		for len(q) > 0 {
			x := q[0]
			q = q[1:]
			if seen[x] {
				continue
			}
			seen[x] = true
			q = append(q, direct[x]...)
		}
		w.closure[k] = seen
	}
}

type bcase struct {
	node uint64
	dir  int
	rt   uint64
	sub  bool
	mask uint32
}

func (c bcase) String() string {
	return fmt.Sprintf("%d %d %d %d %d", c.node, c.dir, c.rt, b2i(c.sub), c.mask)
}

func parseCase(s string) (bcase, bool) {
	f := strings.Fields(s)
	if len(f) != 5 {
		return bcase{}, false
	}
	var v [5]uint64
	for i := range f {
		x, err := strconv.ParseUint(f[i], 10, 64)
		if err != nil {
			return bcase{}, false
		}
		v[i] = x
	}
	return bcase{v[0], int(v[1]), v[2], v[3] == 1, uint32(v[4])}, true
}

func (c bcase) request() *ua.BrowseRequest {
	rt := nodeID(c.rt)
	// the server has no continuation points and ignores the result mask: whatever the request asks
	// for here, the complete list of matching references must come back in one answer (varied
	// deterministically with the case, so that replay sends the same request)
	v := c.node*7 + uint64(c.dir)*3 + c.rt + uint64(c.mask)
	return &ua.BrowseRequest{
		RequestHeader:                 &ua.RequestHeader{},
		View:                          &ua.ViewDescription{ViewID: ua.NewTwoByteNodeID(0)},
		RequestedMaxReferencesPerNode: []uint32{0, 1, 2, 1000}[v%4],
		NodesToBrowse: []*ua.BrowseDescription{{
			NodeID: nodeID(c.node), BrowseDirection: ua.BrowseDirection(c.dir), ReferenceTypeID: rt,
			IncludeSubtypes: c.sub, NodeClassMask: c.mask,
			ResultMask: []uint32{uint32(ua.BrowseResultMaskAll), 0, uint32(ua.BrowseResultMaskReferenceTypeID), uint32(ua.BrowseResultMaskNodeClass)}[(v/4)%4],
		}},
	}
}

func resultTok(res *ua.BrowseResult) string {
	if res.StatusCode != ua.StatusOK {
		return fmt.Sprintf("status-%08x", uint32(res.StatusCode))
	}
	out := []string{"ok"}
	if len(res.ContinuationPoint) > 0 {
		out = append(out, "continuation-point") // BrowseNext is not supported: nothing may be held back
	}
	for _, r := range res.References {
		t, _ := key(r.ReferenceTypeID)
		g, _ := key(r.NodeID.NodeID)
		out = append(out, fmt.Sprintf("%d:%d:%d", t, b2i(r.IsForward), g))
	}
	return strings.Join(out, " ")
}

func (w *world) browseInProc(c bcase) string {
	return h.Catch(func() string {
		resp, err, ok := w.srv.VerifCallService(nil, c.request())
		if !ok || err != nil {
			return fmt.Sprintf("err(%v)", err)
		}
		return resultTok(resp.(*ua.BrowseResponse).Results[0])
	})
}

// ---------------------------------------------------------------- child: server + client over TCP

func childMain() {
	log.SetOutput(io.Discard)
	w, err := build()
	if err != nil {
		fmt.Println("child-error", err)
		return
	}
	ctx := context.Background()
	c, err := opcua.NewClient(fmt.Sprintf("opc.tcp://localhost:%d", w.port), opcua.SecurityMode(ua.MessageSecurityModeNone), opcua.RequestTimeout(5*time.Second))
	if err == nil {
		err = c.Connect(ctx)
	}
	if err != nil {
		fmt.Println("child-error", err)
		return
	}
	fmt.Println("ready")
	sc := bufio.NewScanner(os.Stdin)
	for sc.Scan() {
		bc, ok := parseCase(sc.Text())
		if !ok {
			fmt.Println("bad-case")
			continue
		}
		resp, err := c.Browse(ctx, bc.request())
		if err != nil || len(resp.Results) != 1 {
			fmt.Printf("err(%v)\n", err)
			continue
		}
		fmt.Println(resultTok(resp.Results[0]))
	}
}

type child struct {
	cmd    *exec.Cmd
	in     io.WriteCloser
	out    *bufio.Reader
	stderr *strings.Builder
}

func startChild() (*child, error) {
	cmd := exec.Command(os.Args[0])
	cmd.Env = append(os.Environ(), "C33_CHILD=1", "GOMEMLIMIT=1GiB")
	in, _ := cmd.StdinPipe()
	out, _ := cmd.StdoutPipe()
	sb := &strings.Builder{}
	cmd.Stderr = sb
	if err := cmd.Start(); err != nil {
		return nil, err
	}
	ch := &child{cmd, in, bufio.NewReaderSize(out, 1<<22), sb}
	l, err := ch.out.ReadString('\n')
	if err != nil || strings.TrimSpace(l) != "ready" {
		cmd.Process.Kill()
		cmd.Wait()
		return nil, fmt.Errorf("child did not come up: %q %v %s", l, err, sb.String())
	}
	return ch, nil
}

// ask returns the child's answer, or "died" when the process went away.
func (c *child) ask(line string) string {
	type ans struct {
		s   string
		err error
	}
	done := make(chan ans, 1)
	go func() {
		fmt.Fprintln(c.in, line)
		s, err := c.out.ReadString('\n')
		done <- ans{s, err}
	}()
	select {
	case a := <-done:
		if a.err != nil {
			return "died"
		}
		return strings.TrimSpace(a.s)
	case <-time.After(20 * time.Second):
		c.cmd.Process.Kill()
		return "timeout"
	}
}

func (c *child) stop() string {
	c.in.Close()
	c.cmd.Process.Kill()
	c.cmd.Wait()
	return c.stderr.String()
}

// ---------------------------------------------------------------- parent

type env struct {
	o   *h.Opts
	r   *h.Result
	d   *h.Driver
	rnd *h.Rand
	w   *world
}

func multiset(toks []string) map[string]int {
	m := map[string]int{}
	for _, t := range toks {
		m[t]++
	}
	return m
}

// expected is the property's filter, computed from the dump alone.
func (e *env) expected(c bcase) []string {
	var out []string
	for _, r := range e.w.refs[c.node] {
		if r.nilF {
			continue // cannot be encoded; none exists in the address spaces explored (checked in main)
		}
		dirOK := c.dir == 2 || (c.dir == 0 && r.fwd) || (c.dir == 1 && !r.fwd)
		typeOK := c.rt == 0 || r.typ == c.rt || (c.sub && e.w.closure[c.rt][r.typ])
		cls := r.actual // the class the target node has now …
		if !r.exists {
			cls = r.stored // … or, for a target outside the address space, the recorded one
		}
		classOK := c.mask == 0 || c.mask&cls != 0
		if dirOK && typeOK && classOK {
			out = append(out, r.tok())
		}
	}
	return out
}

func (e *env) modelLine(c bcase) string {
	p := []string{"b", strconv.Itoa(c.dir), fmt.Sprint(c.rt), strconv.Itoa(b2i(c.sub)), fmt.Sprint(c.mask)}
	for _, r := range e.w.refs[c.node] {
		p = append(p, fmt.Sprintf("%d:%d:%d:%d:%d:%d:%d", r.typ, b2i(r.fwd), r.target, r.stored, b2i(r.nilF), r.actual, b2i(r.exists)))
	}
	return strings.Join(p, " ")
}

var known = map[string]int{}

func (e *env) fail(c bcase, sig, detail string) {
	if sig != "" {
		known[sig]++
		if known[sig] > 5 {
			e.r.Hit("oracle-fail:" + sig)
			return
		}
	}
	e.r.Fail("browse "+c.String(), sig, detail)
}

// one runs a case in process, compares with the model, evaluates the oracle.
func (e *env) one(c bcase) string {
	impl := e.w.browseInProc(c)
	name := "browse " + c.String()
	_, knownNode := e.w.refs[c.node]
	if !knownNode {
		e.r.Count(name, false)
		e.r.Hit("unknown-node:" + strings.Fields(impl)[0])
		if impl != fmt.Sprintf("status-%08x", uint32(ua.StatusBadNodeIDUnknown)) && impl != fmt.Sprintf("status-%08x", uint32(ua.StatusBad)) {
			e.fail(c, "", "browse of an unknown node answered "+impl)
		}
		return impl
	}
	e.r.Count(name, true)
	e.r.Compare(e.d, e.modelLine(c), impl)
	e.r.Hit(fmt.Sprintf("dir:%d", c.dir))
	e.r.Hit(fmt.Sprintf("sub:%v", c.sub))
	switch {
	case c.rt == 0:
		e.r.Hit("reftype:none")
	case len(e.w.closure[c.rt]) > 0:
		e.r.Hit("reftype:with-subtypes")
	default:
		e.r.Hit("reftype:leaf-or-unknown")
	}
	if c.mask == 0 {
		e.r.Hit("mask:0")
	} else {
		e.r.Hit("mask:set")
	}
	// ---- the property's own oracle
	want := e.expected(c)
	if impl == "panic" {
		e.r.Hit("result:panic")
		e.fail(c, "", fmt.Sprintf("Browse panicked; the specification selects %d references", len(want)))
		return impl
	}
	if !strings.HasPrefix(impl, "ok") {
		e.fail(c, "", "Browse answered "+impl)
		return impl
	}
	got := strings.Fields(impl)[1:]
	if len(got) == 0 {
		e.r.Hit("result:empty")
	} else {
		e.r.Hit("result:refs")
	}
	gm, wm := multiset(got), multiset(want)
	var diffs []string
	for t, n := range gm {
		if n > wm[t] {
			diffs = append(diffs, "extra "+t)
		}
	}
	for t, n := range wm {
		if n > gm[t] {
			diffs = append(diffs, "missing "+t)
		}
	}
	sort.Strings(diffs)
	if len(diffs) > 0 {
		e.fail(c, "", fmt.Sprintf("Browse returned %d references, the specification selects %d: %s", len(got), len(want), strings.Join(diffs, ", ")))
	}
	return impl
}

func main() {
	if os.Getenv("C33_CHILD") != "" {
		childMain()
		return
	}
	log.SetOutput(io.Discard)
	o := h.ParseOpts()
	r := h.NewResult("C33", o)
	d, err := h.StartDriver(o.Driver)
	if err != nil {
		r.InfraError = err.Error()
		r.Write(o.Out)
		return
	}
	defer d.Close()
	w, err := build()
	if err != nil {
		r.InfraError = "server start: " + err.Error()
		r.Write(o.Out)
		return
	}
	defer w.srv.Close()
	e := &env{o, r, d, h.NewRand(o.Seed), w}
	r.Rule = "case = (node, direction, reference type, IncludeSubtypes, class mask): the real Browse handler in process (and a sample through a real client against a server in a child process) vs Browse.browse on the reference list dumped from the live address space, and vs the Go oracle (closure by BFS, class of the target node); nodes: 20 fixed (folders, Server, type nodes, reference types, an added namespace with a stale-class reference) + seeded random nodes; directions 0,1,2; reference types: none, every ReferenceType with subtypes, a sample of leaves, an unknown id, a non-reference-type id, reference types with a string and a GUID id (and unknown ones); the class of a target is what the Read service returns for its NodeClass attribute (all nodes have been read before they are browsed); masks 0, single classes, unions; plus getSubRefs and suitableRefType for all type pairs; distinct by the case text"

	nNil, nRefs := 0, 0
	for _, rs := range w.refs {
		for _, x := range rs {
			nRefs++
			if x.nilF {
				nNil++
			}
		}
	}
	r.Notes = append(r.Notes, fmt.Sprintf("address space: %d nodes dumped (%d skipped: non-numeric ids), %d references, %d with a nil field (Browse skips those)", len(w.order), w.skipped, nRefs, nNil))
	if nNil > 0 {
		r.Fail("dump", "", fmt.Sprintf("%d references with a nil NodeID/BrowseName/DisplayName/TypeDefinition are silently dropped by Browse", nNil))
	}

	if o.Replay != "" {
		if c, ok := parseCase(strings.TrimPrefix(o.Replay, "browse ")); ok {
			r.Sample("browse " + c.String() + " -> " + e.one(c))
		} else {
			r.Notes = append(r.Notes, "cannot parse replay case")
		}
		r.Write(o.Out)
		return
	}

	// reference types
	var refTypes, withSubs, leaves []uint64
	for _, k := range w.order {
		if k>>32 == 0 {
			if c, ok := w.classOf(nodeID(k)); ok && c == uint32(ua.NodeClassReferenceType) {
				refTypes = append(refTypes, k)
				if len(w.closure[k]) > 0 {
					withSubs = append(withSubs, k)
				} else {
					leaves = append(leaves, k)
				}
			}
		}
	}

	if len(leaves) == 0 || len(withSubs) == 0 {
		r.Fail("dump", "", fmt.Sprintf("the address space shows %d reference types with and %d without subtypes through the Read service", len(withSubs), len(leaves)))
		r.Write(o.Out)
		return
	}
	// (1) getSubRefs and suitableRefType against the model, all pairs
	for _, t := range append(append([]uint64{}, refTypes...), 58, 24, 99999) {
		impl := h.Catch(func() string {
			var s []string
			for _, n := range w.srv.VerifGetSubRefs(nodeID(t)) {
				k, _ := key(n)
				s = append(s, fmt.Sprint(k))
			}
			if len(s) == 0 {
				return "-"
			}
			return strings.Join(s, " ")
		})
		if t == 58 || t == 24 {
			continue // object / data type forests are not part of the generated table
		}
		line := fmt.Sprintf("subs %d", t)
		r.Count(line, true)
		r.Compare(d, line, impl)
	}
	t2s := refTypes
	for _, t1 := range append(append([]uint64{0}, refTypes...), 99999) {
		for _, t2 := range t2s {
			if !o.Thorough() && len(w.closure[t1]) == 0 && e.rnd.Intn(4) != 0 {
				continue
			}
			for _, sub := range []bool{true, false} {
				impl := h.Catch(func() string {
					if w.srv.VerifSuitableRefType(nodeID(t1), nodeID(t2), sub) {
						return "yes"
					}
					return "no"
				})
				line := fmt.Sprintf("srt %d %d %d", t1, t2, b2i(sub))
				r.Count(line, true)
				r.Hit("srt:" + impl)
				r.Compare(d, line, impl)
				// oracle on the type test alone
				want := t1 == 0 || t1 == t2 || (sub && w.closure[t1][t2])
				if (impl == "yes") != want || impl == "panic" {
					r.Fail(line, "", fmt.Sprintf("suitableRefType answered %s, the specification says %v", impl, want))
				}
			}
		}
	}

	// (2) Browse
	strT, _ := key(ua.NewStringNodeID(1, "HasVerifString"))
	guidT, _ := key(ua.NewGUIDNodeID(1, "72962B91-FA75-4AE6-8D28-B404DC7DAF63"))
	noT, _ := key(ua.NewStringNodeID(1, "NoSuchReferenceType"))
	zeroGuid, _ := key(ua.NewGUIDNodeID(0, "00000000-0000-0000-0000-000000000000"))
	nonNumeric := []uint64{strT, guidT, noT, zeroGuid}
	// suitableRefType with non-numeric ids on either side
	for _, t1 := range nonNumeric {
		for _, t2 := range append([]uint64{35, 47, 40}, nonNumeric...) {
			for _, sub := range []bool{true, false} {
				for _, pair := range [][2]uint64{{t1, t2}, {t2, t1}} {
					impl := h.Catch(func() string {
						if w.srv.VerifSuitableRefType(nodeID(pair[0]), nodeID(pair[1]), sub) {
							return "yes"
						}
						return "no"
					})
					line := fmt.Sprintf("srt %d %d %d", pair[0], pair[1], b2i(sub))
					r.Count(line, true)
					r.Hit("srt-non-numeric:" + impl)
					r.Compare(d, line, impl)
					if want := pair[0] == pair[1] || (sub && w.closure[pair[0]][pair[1]]); (impl == "yes") != want {
						r.Fail(line, "", fmt.Sprintf("suitableRefType answered %s, the specification says %v", impl, want))
					}
				}
			}
		}
	}
	nodes := []uint64{84, 85, 86, 87, 2253, 2256, 2255, 58, 61, 62, 63, 24, 31, 33, 34, 45, 47, 1<<32 | 85, 1<<32 | 5000, 1<<32 | 5001, 1<<32 | 5002}
	for i := 0; i < o.N(10, 120); i++ {
		nodes = append(nodes, w.order[e.rnd.Intn(len(w.order))])
	}
	masks := []uint32{0, 1, 2, 4, 8, 32, 1 | 2, 8 | 16 | 32 | 64, 0xff}
	var cases []bcase
	for ni, n := range nodes {
		big := len(w.refs[n]) > 200
		rts := []uint64{0, 99999, 58}
		rts = append(rts, nonNumeric...)
		rts = append(rts, withSubs...)
		for i := 0; i < 4; i++ {
			rts = append(rts, leaves[e.rnd.Intn(len(leaves))])
		}
		for _, x := range []uint64{35, 40, 46, 45} {
			rts = append(rts, x)
		}
		for _, rt := range rts {
			for dir := 0; dir < 3; dir++ {
				for _, sub := range []bool{true, false} {
					ms := []uint32{0, masks[1+e.rnd.Intn(len(masks)-1)]}
					if ni < 6 && !big && o.Thorough() {
						ms = masks
					}
					if big && e.rnd.Intn(3) != 0 {
						continue
					}
					for _, m := range ms {
						cases = append(cases, bcase{n, dir, rt, sub, m})
					}
				}
			}
		}
	}
	cases = append(cases, bcase{123456, 0, 0, true, 0}, bcase{7<<32 | 1, 0, 0, true, 0})
	for _, l := range o.CorpusLines() {
		if c, ok := parseCase(strings.TrimPrefix(l, "browse ")); ok {
			cases = append([]bcase{c}, cases...)
		}
	}
	results := map[string]string{}
	for _, c := range cases {
		res := e.one(c)
		results[c.String()] = res
		if len(w.refs[c.node]) < 40 {
			r.Sample("browse " + c.String() + " -> " + res)
		}
	}

	// (3) a sample over TCP: a real client against a server in a child process (a
	// request that crashes the server shows up as "died"); the former crash
	// witness Browse(ObjectsFolder, Forward, HierarchicalReferences, no subtypes)
	// is part of the sample
	if ch, err := startChild(); err == nil {
		n := 0
		wcases := append([]bcase{{85, 0, 33, false, 0}, {85, 2, 31, false, 0}, {2253, 0, 34, false, 0}, {2253, 0, 44, false, 0}}, cases...)
		for i, c := range wcases {
			if n >= o.N(150, 1500) || (i > 3 && e.rnd.Intn(3) != 0) {
				continue
			}
			want, ok := results[c.String()]
			if !ok {
				want = e.w.browseInProc(c)
			}
			n++
			got := ch.ask(c.String())
			r.TracesValidated++
			r.Hit("wire:" + strings.Fields(got)[0])
			if got != want {
				r.Disagree("wire browse "+c.String(), want, got)
			}
			if got == "died" || got == "timeout" {
				r.Fail("browse "+c.String(), "", "the request killed the server process: "+firstLine(ch.stderr.String(), "panic:"))
				break
			}
		}
		ch.stop()
	} else {
		r.InfraError = "child: " + err.Error()
	}
	// BrowseNext is answered with a ServiceFault BadServiceUnsupported (no continuation points exist)
	{
		resp, err, ok := w.srv.VerifCallService(nil, &ua.BrowseNextRequest{RequestHeader: &ua.RequestHeader{}, ContinuationPoints: [][]byte{{1}}})
		f, isFault := resp.(*ua.ServiceFault)
		if !ok || err != nil || !isFault || f.ResponseHeader.ServiceResult != ua.StatusBadServiceUnsupported {
			r.Fail("browsenext", "", fmt.Sprintf("BrowseNext answered %T %v", resp, err))
		}
		r.Hit("browsenext-unsupported")
	}
	// the former witness of the stale class: the folder's reference to i=5010 was recorded as Variable,
	// the node says Object now; mask=Object must return it, mask=Variable must not
	for _, c := range []bcase{{1<<32 | 5000, 0, 0, true, 1}, {1<<32 | 5000, 0, 0, true, 2}, {2253, 0, 0, true, 1}, {2253, 0, 0, true, 2}} {
		e.one(c)
		r.Hit("stale-class-witness")
	}
	// (4) the hierarchy changes while the server runs: a new reference type below HasComponent is
	// added AFTER the browses above, a node gets a reference of that type, and the supertypes must
	// select it (oracle only: the generated table of the model describes the hierarchy at start-up)
	{
		ns0, _ := w.srv.Namespace(0)
		ns1i, _ := w.srv.Namespace(1)
		ns1 := ns1i.(*server.NodeNameSpace)
		nt := server.NewNode(ua.NewNumericNodeID(ns1.ID(), 6000), map[ua.AttributeID]*ua.DataValue{
			ua.AttributeIDNodeClass:  server.DataValueFromValue(uint32(ua.NodeClassReferenceType)),
			ua.AttributeIDBrowseName: server.DataValueFromValue(&ua.QualifiedName{NamespaceIndex: ns1.ID(), Name: "HasVerifPart"}),
		}, nil, nil)
		ns1.AddNode(nt)
		hc := ns0.Node(ua.NewNumericNodeID(0, id.HasComponent))
		hc.AddRef(nt, id.HasSubtype, true)
		nt.AddRef(hc, id.HasSubtype, false)
		folder := ns1.Node(ua.NewNumericNodeID(ns1.ID(), 5000))
		target := ns1.Node(ua.NewNumericNodeID(ns1.ID(), 5003))
		newType, _ := key(nt.ID())
		// AddRef takes a ns-0 numeric type; build the reference by hand for the new type
		refs := folder.VerifRefs()
		proto := *refs[len(refs)-1]
		proto.ReferenceTypeID = nt.ID()
		proto.IsForward = true
		proto.NodeID = ua.NewExpandedNodeID(target.ID(), "", 0)
		proto.NodeClass = target.NodeClass()
		folder.VerifAppendRef(&proto)
		// … and the GUID-id type becomes a subtype of the string-id type
		if sn, gn := ns1.Node(nodeID(strT)), ns1.Node(nodeID(guidT)); sn != nil && gn != nil {
			sn.AddRef(gn, id.HasSubtype, true)
			gn.AddRef(sn, id.HasSubtype, false)
		}
		w.dump()
		d2 := e.d
		e.d = nil // no model for the changed hierarchy
		for _, rt := range []uint64{id.HasComponent, id.Aggregates, id.HasChild, id.HierarchicalReferences, id.References, newType, id.Organizes, 0, strT, guidT} {
			for _, sub := range []bool{true, false} {
				for dir := 0; dir < 3; dir++ {
					c := bcase{1<<32 | 5000, dir, rt, sub, 0}
					e.one(c)
					r.Hit("late-subtype-phase")
				}
			}
		}
		e.d = d2
	}
	for _, b := range []string{"dir:0", "dir:1", "dir:2", "sub:true", "sub:false", "reftype:none", "reftype:with-subtypes", "reftype:leaf-or-unknown",
		"mask:0", "mask:set", "result:empty", "result:refs", "srt:yes", "srt:no", "wire:ok", "late-subtype-phase", "stale-class-witness", "srt-non-numeric:yes", "srt-non-numeric:no"} {
		if r.Distribution[b] == 0 {
			r.Unreached = append(r.Unreached, b)
		}
	}
	r.Write(o.Out)
}

func firstLine(s, prefix string) string {
	for _, l := range strings.Split(s, "\n") {
		if strings.HasPrefix(l, prefix) {
			return l
		}
	}
	if len(s) > 120 {
		return s[:120]
	}
	return s
}
