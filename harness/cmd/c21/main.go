package main

func main() {}
