// Correspondence runner and property oracle for C21 (client calls never panic
// on any well-formed server response).
//
// One case = (operation, shape of the server's answers).  Child processes
// (re-exec of this binary) run, per case, a fresh scripted server
// (internal/sscript: real uacp/uasc on the server side) and a fresh real
// client, connect with well-behaved answers, arm the shaped answers and call
// the operation; the outcome class `value | error | panic` (a panic in the
// calling goroutine is recovered; a panic in a background goroutine kills the
// child, which the parent observes) is compared with the Lean model
// `ClientResp.outcome`.  For the publish loop the delivered notification
// classes are compared as well.
package main

import (
	"bufio"
	"context"
	"fmt"
	"io"
	"log"
	"os"
	"strconv"
	"strings"
	"sync"
	"sync/atomic"
	"time"

	"github.com/gopcua/opcua"
	"github.com/gopcua/opcua/id"
	"github.com/gopcua/opcua/ua"
	"github.com/gopcua/opcua/uasc"

	"verifharness/internal/h"
	"verifharness/internal/sscript"
)

// ------------------------------------------------------------------ cases

type kase struct {
	op, kind string
	nReq     int
	results  string // "-" or g/b letters
	val      string // absent | tid:s | tid:aN
	chain    string // "-" or kind:n,…
	flags    string // "-" or letters z d u k
	notifs   string // "-" or letters d e s o n
}

func (k kase) String() string {
	return fmt.Sprintf("%s %s %d %s %s %s %s %s", k.op, k.kind, k.nReq, k.results, k.val, k.chain, k.flags, k.notifs)
}

func parseKase(s string) (kase, error) {
	f := strings.Fields(s)
	if len(f) != 8 {
		return kase{}, fmt.Errorf("want 8 fields, got %d: %q", len(f), s)
	}
	n, err := strconv.Atoi(f[2])
	if err != nil {
		return kase{}, err
	}
	return kase{f[0], f[1], n, f[3], f[4], f[5], f[6], f[7]}, nil
}

func (k kase) res() []bool {
	if k.results == "-" {
		return nil
	}
	out := make([]bool, len(k.results))
	for i, c := range k.results {
		out[i] = c == 'g'
	}
	return out
}
func (k kase) has(c byte) bool { return strings.IndexByte(k.flags, c) >= 0 }

type link struct {
	kind string
	n    int
}

func (k kase) links() []link {
	if k.chain == "-" {
		return nil
	}
	var out []link
	for _, e := range strings.Split(k.chain, ",") {
		p := strings.Split(e, ":")
		n, _ := strconv.Atoi(p[1])
		out = append(out, link{p[0], n})
	}
	return out
}

// valParts: present, tid, isArray, arrLen
func (k kase) valParts() (bool, string, bool, int) {
	if k.val == "absent" {
		return false, "null", false, 0
	}
	p := strings.Split(k.val, ":")
	if p[1] == "s" {
		return true, p[0], false, 0
	}
	n, _ := strconv.Atoi(p[1][1:])
	return true, p[0], true, n
}

var plainOps = []string{"read", "write", "browse", "browseNext", "registerNodes", "unregisterNodes", "historyRead",
	"findServers", "findServersOnNetwork", "getEndpoints", "nodeAttributes", "subModify", "subUnmonitor",
	"subSetMonitoringMode", "subSetTriggering"}
var getterOps = []string{"nodeAttribute", "nodeClass", "browseName", "description", "displayName", "accessLevel",
	"userAccessLevel", "namespaceArray", "subStats"}
var backgroundOps = map[string]bool{"publish": true, "recreateItems": true, "transferOnReconnect": true}

// ------------------------------------------------------------------ finding signatures (decidable predicates on the case)

func firstOK(k kase) (bool, bool) { // (Attribute returns a variant, ok)
	r := k.res()
	if k.kind != "ok" || len(r) == 0 || !r[0] || k.val == "extobjNoBody:s" {
		return false, false
	}
	return true, true
}

func signature(k kase) string {
	r := k.res()
	ok := k.kind == "ok"
	present, tid, isArr, arrLen := k.valParts()
	typed := func(want, name string) string {
		if got, _ := firstOK(k); !got {
			return ""
		}
		if !present { // DataValue.Decode allocates a Null variant
			tid, isArr = "null", false
		}
		if isArr || tid != want {
			return name
		}
		return ""
	}
	switch k.op {
	case "subCancel":
		if ok && len(r) == 0 {
			return "C21.delete-empty-results"
		}
	case "subMonitor":
		if ok && len(r) < k.nReq {
			return "C21.monitor-fewer-results"
		}
	case "subModifyItems":
		if !k.has('u') && ok {
			for i := k.nReq; i < len(r); i++ {
				if r[i] {
					return "C21.modify-more-results"
				}
			}
		}
	case "recreateItems":
		all := true
		for _, b := range r {
			all = all && b
		}
		if ok && all && len(r) < k.nReq {
			return "C21.recreate-fewer-results"
		}
	case "transferOnReconnect":
		if ok && k.nReq < len(r) {
			return "C21.transfer-more-results"
		}
	case "references":
		if ok && len(r) == 0 {
			return "C21.browse-empty-results"
		}
		if ok {
			for _, l := range k.links() {
				if l.kind != "ok" {
					break
				}
				if l.n == 0 {
					return "C21.browsenext-empty-results"
				}
			}
		}
	case "nodeClass":
		if got, _ := firstOK(k); got {
			if present && isArr && arrLen == 0 && (tid == "int32" || tid == "sbyte") {
				return "C21.nodeclass-empty-int-array"
			}
		}
	case "browseName":
		return typed("qname", "C21.browsename-type-assertion")
	case "description":
		return typed("ltext", "C21.description-type-assertion")
	case "displayName":
		return typed("ltext", "C21.displayname-type-assertion")
	case "accessLevel":
		return typed("byte", "C21.accesslevel-type-assertion")
	case "userAccessLevel":
		return typed("byte", "C21.useraccesslevel-type-assertion")
	}
	return ""
}

// panicTextMatches: the panic message is of the kind the signature describes
func panicTextMatches(sig, msg string) bool {
	switch {
	case strings.Contains(sig, "type-assertion"), sig == "C21.nodeclass-empty-int-array":
		return strings.Contains(msg, "interface conversion")
	default:
		return strings.Contains(msg, "index out of range")
	}
}

// ------------------------------------------------------------------ child

func variantOf(tid string, isArr bool, n int) *ua.Variant {
	if !isArr {
		switch tid {
		case "null":
			return &ua.Variant{}
		case "byte":
			return ua.MustVariant(uint8(3))
		case "sbyte":
			return ua.MustVariant(int8(-3))
		case "int32":
			return ua.MustVariant(int32(42))
		case "qname":
			return ua.MustVariant(&ua.QualifiedName{NamespaceIndex: 1, Name: "q"})
		case "ltext":
			return ua.MustVariant(&ua.LocalizedText{EncodingMask: ua.LocalizedTextText, Text: "t"})
		case "string":
			return ua.MustVariant("s")
		case "extobj":
			return ua.MustVariant(eoBody())
		case "extobjNoBody":
			return ua.MustVariant(ua.NewExtensionObject(nil))
		default:
			return ua.MustVariant(float64(1.5))
		}
	}
	switch tid {
	case "sbyte":
		return ua.MustVariant(make([]int8, n))
	case "int32":
		return ua.MustVariant(make([]int32, n))
	case "qname":
		v := make([]*ua.QualifiedName, n)
		for i := range v {
			v[i] = &ua.QualifiedName{Name: "q"}
		}
		return ua.MustVariant(v)
	case "ltext":
		v := make([]*ua.LocalizedText, n)
		for i := range v {
			v[i] = &ua.LocalizedText{EncodingMask: ua.LocalizedTextText, Text: "t"}
		}
		return ua.MustVariant(v)
	case "string":
		v := make([]string, n)
		for i := range v {
			v[i] = "urn:x"
		}
		return ua.MustVariant(v)
	case "extobj", "extobjNoBody":
		v := make([]*ua.ExtensionObject, n)
		for i := range v {
			if tid == "extobj" {
				v[i] = eoBody()
			} else {
				v[i] = ua.NewExtensionObject(nil)
			}
		}
		return ua.MustVariant(v)
	default:
		return ua.MustVariant(make([]float64, n))
	}
}

func eoBody() *ua.ExtensionObject {
	return ua.NewExtensionObject(&ua.ReadValueID{NodeID: ua.NewNumericNodeID(0, 1), DataEncoding: &ua.QualifiedName{}})
}

func badOr(ok bool) ua.StatusCode {
	if ok {
		return ua.StatusOK
	}
	return ua.StatusBadNodeIDUnknown
}

type env struct {
	k      kase
	armed  atomic.Bool
	phase  atomic.Int32 // background flows
	nextK  atomic.Int32 // index into the BrowseNext chain
	pubN   atomic.Int32 // PublishRequests seen after arming
	subSeq atomic.Uint32
	actN   atomic.Int32 // ActivateSession requests seen
}

// faultStatus is the status of ServiceFaults / Bad service results of the current case (flags n, U)
var faultStatus = ua.StatusBadUserAccessDenied

// wrap gives the answer of the given kind: good(hdr) builds the expected type.
func wrap(kind string, req ua.Request, good func(hdr *ua.ResponseHeader) ua.Response) ua.Response {
	switch kind {
	case "ok":
		return good(sscript.Header(req, ua.StatusOK))
	case "badStatus":
		st := ua.StatusBadInternalError
		if faultStatus != ua.StatusBadUserAccessDenied {
			st = faultStatus
		}
		return good(sscript.Header(req, st))
	case "fault":
		return sscript.Fault(req, faultStatus)
	case "notResponse":
		// a decodable service message that is not a response: a request echoed back
		return &sscript.RawMessage{Body: &ua.FindServersRequest{RequestHeader: &ua.RequestHeader{
			AuthenticationToken: ua.NewTwoByteNodeID(0), Timestamp: time.Now(), RequestHandle: req.Header().RequestHandle,
			AdditionalHeader: ua.NewExtensionObject(nil)}, EndpointURL: "opc.tcp://echo"}}
	default:
		if _, ok := req.(*ua.FindServersOnNetworkRequest); ok {
			return &ua.ReadResponse{ResponseHeader: sscript.Header(req, ua.StatusOK)}
		}
		return &ua.FindServersOnNetworkResponse{ResponseHeader: sscript.Header(req, ua.StatusOK)}
	}
}

func (e *env) dataValues() []*ua.DataValue {
	r := e.k.res()
	present, tid, isArr, n := e.k.valParts()
	out := make([]*ua.DataValue, len(r))
	for i, ok := range r {
		dv := &ua.DataValue{}
		if i == 0 {
			if present {
				dv.EncodingMask |= ua.DataValueValue
				dv.Value = variantOf(tid, isArr, n)
			}
		} else {
			dv.EncodingMask |= ua.DataValueValue
			dv.Value = ua.MustVariant(int32(i))
		}
		if !ok {
			dv.EncodingMask |= ua.DataValueStatusCode
			dv.Status = ua.StatusBadNodeIDUnknown
		}
		out[i] = dv
	}
	return out
}

func (e *env) statuses() []ua.StatusCode {
	r := e.k.res()
	if len(r) == 0 && e.k.has('N') {
		return nil // a null array (-1) instead of an empty one
	}
	out := make([]ua.StatusCode, len(r))
	for i, ok := range r {
		out[i] = badOr(ok)
	}
	return out
}

func (e *env) createResults(r []bool) []*ua.MonitoredItemCreateResult {
	out := make([]*ua.MonitoredItemCreateResult, len(r))
	for i, ok := range r {
		out[i] = &ua.MonitoredItemCreateResult{StatusCode: badOr(ok), MonitoredItemID: uint32(i + 1), FilterResult: ua.NewExtensionObject(nil)}
	}
	return out
}

func allGood(n int) []bool {
	r := make([]bool, n)
	for i := range r {
		r[i] = true
	}
	return r
}

func notifEO(c byte) *ua.ExtensionObject {
	switch c {
	case 'd':
		return ua.NewExtensionObject(&ua.DataChangeNotification{MonitoredItems: []*ua.MonitoredItemNotification{{ClientHandle: 1, Value: &ua.DataValue{EncodingMask: ua.DataValueValue, Value: ua.MustVariant(int32(1))}}}})
	case 'e':
		return ua.NewExtensionObject(&ua.EventNotificationList{})
	case 's':
		return ua.NewExtensionObject(&ua.StatusChangeNotification{Status: ua.StatusGoodSubscriptionTransferred, DiagnosticInfo: &ua.DiagnosticInfo{}})
	case 'o':
		return ua.NewExtensionObject(&ua.ReadValueID{NodeID: ua.NewNumericNodeID(0, 1), DataEncoding: &ua.QualifiedName{}})
	default: // 'n': an extension object without a body
		return ua.NewExtensionObject(nil)
	}
}

const markerHandle = 999

// script answers the requests of the operation under test with the shape;
// everything else gets the default (well-behaved) answer.
func (e *env) script(s *sscript.Server, sc *uasc.SecureChannel, r ua.Request) ua.Response {
	k := e.k
	switch req := r.(type) {
	case *ua.PublishRequest:
		if !e.armed.Load() || k.op != "publish" {
			return holdForever(r)
		}
		pending := 0
		if k.has('p') {
			pending = 1
		}
		if k.has('P') {
			pending = 2
		}
		n := int(e.pubN.Add(1))
		dataMsg := func(seq uint32, results []ua.StatusCode) ua.Response {
			return &ua.PublishResponse{ResponseHeader: sscript.Header(r, ua.StatusOK), SubscriptionID: 1, Results: results,
				NotificationMessage: &ua.NotificationMessage{SequenceNumber: seq, PublishTime: time.Now(), NotificationData: []*ua.ExtensionObject{notifEO('d')}}}
		}
		switch {
		case n == 1 && pending >= 1:
			// a data notification: its acknowledgement is pending afterwards
			return dataMsg(1, []ua.StatusCode{})
		case n == 2 && pending == 2:
			// the ack of #1 is answered with a status that makes the client retry it; #2 is added: two pending
			return dataMsg(2, []ua.StatusCode{ua.StatusBadInternalError})
		case n == pending+1:
			subID := uint32(1)
			if k.has('k') {
				subID = 77
			}
			var data []*ua.ExtensionObject
			if k.notifs != "-" {
				for i := 0; i < len(k.notifs); i++ {
					data = append(data, notifEO(k.notifs[i]))
				}
			}
			return wrap(k.kind, r, func(hdr *ua.ResponseHeader) ua.Response {
				return &ua.PublishResponse{ResponseHeader: hdr, SubscriptionID: subID, Results: e.statuses(),
					NotificationMessage: &ua.NotificationMessage{SequenceNumber: uint32(n), PublishTime: time.Now(), NotificationData: data}}
			})
		case n == pending+2:
			// marker: a data change with a recognisable client handle for subscription 1
			return &ua.PublishResponse{ResponseHeader: sscript.Header(r, ua.StatusOK), SubscriptionID: 1, Results: []ua.StatusCode{},
				NotificationMessage: &ua.NotificationMessage{SequenceNumber: uint32(n), PublishTime: time.Now(), NotificationData: []*ua.ExtensionObject{
					ua.NewExtensionObject(&ua.DataChangeNotification{MonitoredItems: []*ua.MonitoredItemNotification{{ClientHandle: markerHandle, Value: &ua.DataValue{}}}})}}}
		}
		return holdForever(r)
	case *ua.CreateSubscriptionRequest:
		idv := e.subSeq.Add(1)
		if e.armed.Load() && k.op == "subscribe" {
			if k.has('z') {
				idv = 0
			} else if k.has('d') {
				idv = 1
			}
			return wrap(k.kind, r, func(hdr *ua.ResponseHeader) ua.Response {
				return &ua.CreateSubscriptionResponse{ResponseHeader: hdr, SubscriptionID: idv, RevisedPublishingInterval: 100, RevisedLifetimeCount: 100, RevisedMaxKeepAliveCount: 10}
			})
		}
		if e.phase.Load() >= 1 { // recreated subscriptions get new ids
			idv += 100
		}
		return &ua.CreateSubscriptionResponse{ResponseHeader: sscript.Header(r, ua.StatusOK), SubscriptionID: idv, RevisedPublishingInterval: 100, RevisedLifetimeCount: 100, RevisedMaxKeepAliveCount: 10}
	case *ua.CreateMonitoredItemsRequest:
		shaped := e.armed.Load() && (k.op == "subMonitor" || (k.op == "recreateItems" && e.phase.Load() >= 1))
		if shaped {
			return wrap(k.kind, r, func(hdr *ua.ResponseHeader) ua.Response {
				return &ua.CreateMonitoredItemsResponse{ResponseHeader: hdr, Results: e.createResults(k.res())}
			})
		}
		return &ua.CreateMonitoredItemsResponse{ResponseHeader: sscript.Header(r, ua.StatusOK), Results: e.createResults(allGood(len(req.ItemsToCreate)))}
	case *ua.ModifyMonitoredItemsRequest:
		return wrap(k.kind, r, func(hdr *ua.ResponseHeader) ua.Response {
			res := make([]*ua.MonitoredItemModifyResult, len(k.res()))
			for i, ok := range k.res() {
				res[i] = &ua.MonitoredItemModifyResult{StatusCode: badOr(ok), RevisedQueueSize: 5, FilterResult: ua.NewExtensionObject(nil)}
			}
			return &ua.ModifyMonitoredItemsResponse{ResponseHeader: hdr, Results: res}
		})
	case *ua.DeleteSubscriptionsRequest:
		if k.op == "subCancel" {
			return wrap(k.kind, r, func(hdr *ua.ResponseHeader) ua.Response {
				return &ua.DeleteSubscriptionsResponse{ResponseHeader: hdr, Results: e.statuses()}
			})
		}
		return &ua.DeleteSubscriptionsResponse{ResponseHeader: sscript.Header(r, ua.StatusOK), Results: []ua.StatusCode{ua.StatusOK}}
	case *ua.TransferSubscriptionsRequest:
		if k.op == "transferOnReconnect" {
			return wrap(k.kind, r, func(hdr *ua.ResponseHeader) ua.Response {
				res := make([]*ua.TransferResult, len(k.res()))
				for i, ok := range k.res() {
					st := ua.StatusOK
					if !ok {
						st = ua.StatusBadSubscriptionIDInvalid
					}
					res[i] = &ua.TransferResult{StatusCode: st}
				}
				return &ua.TransferSubscriptionsResponse{ResponseHeader: hdr, Results: res}
			})
		}
		return sscript.Fault(r, ua.StatusBadServiceUnsupported)
	case *ua.RepublishRequest:
		return sscript.Fault(r, ua.StatusBadMessageNotAvailable)
	case *ua.ActivateSessionRequest:
		// background flows: the first ActivateSession on the second connection (restoreSession) is refused,
		// so that the client recreates the session and transfers / recreates its subscriptions
		if e.phase.Load() >= 1 && e.actN.Add(1) == 1 {
			return sscript.Fault(r, ua.StatusBadSessionIDInvalid)
		}
		return nil
	}
	if !e.armed.Load() {
		return nil
	}
	switch req := r.(type) {
	case *ua.ReadRequest:
		switch k.op {
		case "read", "nodeAttributes", "nodeAttribute", "nodeClass", "browseName", "description", "displayName",
			"accessLevel", "userAccessLevel", "namespaceArray", "subStats":
			return wrap(k.kind, r, func(hdr *ua.ResponseHeader) ua.Response {
				return &ua.ReadResponse{ResponseHeader: hdr, Results: e.dataValues()}
			})
		}
		_ = req
	case *ua.WriteRequest:
		return wrap(k.kind, r, func(hdr *ua.ResponseHeader) ua.Response {
			return &ua.WriteResponse{ResponseHeader: hdr, Results: e.statuses()}
		})
	case *ua.BrowseRequest:
		return wrap(k.kind, r, func(hdr *ua.ResponseHeader) ua.Response {
			res := make([]*ua.BrowseResult, len(k.res()))
			for i, ok := range k.res() {
				res[i] = &ua.BrowseResult{StatusCode: badOr(ok), References: []*ua.ReferenceDescription{}}
				if i == 0 && k.op == "references" && len(k.links()) > 0 {
					res[i].ContinuationPoint = []byte{1}
				}
			}
			return &ua.BrowseResponse{ResponseHeader: hdr, Results: res}
		})
	case *ua.BrowseNextRequest:
		if k.op == "references" {
			links := k.links()
			i := int(e.nextK.Add(1)) - 1
			if i >= len(links) {
				return sscript.Fault(r, ua.StatusBadContinuationPointInvalid)
			}
			return wrap(links[i].kind, r, func(hdr *ua.ResponseHeader) ua.Response {
				res := make([]*ua.BrowseResult, links[i].n)
				for j := range res {
					res[j] = &ua.BrowseResult{References: []*ua.ReferenceDescription{}}
					if j == 0 && i+1 < len(links) {
						res[j].ContinuationPoint = []byte{byte(i + 2)}
					}
				}
				return &ua.BrowseNextResponse{ResponseHeader: hdr, Results: res}
			})
		}
		return wrap(k.kind, r, func(hdr *ua.ResponseHeader) ua.Response {
			res := make([]*ua.BrowseResult, len(k.res()))
			for i := range res {
				res[i] = &ua.BrowseResult{References: []*ua.ReferenceDescription{}}
			}
			return &ua.BrowseNextResponse{ResponseHeader: hdr, Results: res}
		})
	case *ua.RegisterNodesRequest:
		return wrap(k.kind, r, func(hdr *ua.ResponseHeader) ua.Response {
			ids := make([]*ua.NodeID, len(k.res()))
			for i := range ids {
				ids[i] = ua.NewNumericNodeID(1, uint32(i))
			}
			return &ua.RegisterNodesResponse{ResponseHeader: hdr, RegisteredNodeIDs: ids}
		})
	case *ua.UnregisterNodesRequest:
		return wrap(k.kind, r, func(hdr *ua.ResponseHeader) ua.Response { return &ua.UnregisterNodesResponse{ResponseHeader: hdr} })
	case *ua.HistoryReadRequest:
		return wrap(k.kind, r, func(hdr *ua.ResponseHeader) ua.Response {
			res := make([]*ua.HistoryReadResult, len(k.res()))
			for i, ok := range k.res() {
				res[i] = &ua.HistoryReadResult{StatusCode: badOr(ok), HistoryData: ua.NewExtensionObject(nil)}
			}
			return &ua.HistoryReadResponse{ResponseHeader: hdr, Results: res}
		})
	case *ua.FindServersRequest:
		return wrap(k.kind, r, func(hdr *ua.ResponseHeader) ua.Response {
			return &ua.FindServersResponse{ResponseHeader: hdr, Servers: make([]*ua.ApplicationDescription, 0)}
		})
	case *ua.FindServersOnNetworkRequest:
		return wrap(k.kind, r, func(hdr *ua.ResponseHeader) ua.Response { return &ua.FindServersOnNetworkResponse{ResponseHeader: hdr} })
	case *ua.GetEndpointsRequest:
		return wrap(k.kind, r, func(hdr *ua.ResponseHeader) ua.Response {
			return &ua.GetEndpointsResponse{ResponseHeader: hdr, Endpoints: []*ua.EndpointDescription{}}
		})
	case *ua.CallRequest:
		return wrap(k.kind, r, func(hdr *ua.ResponseHeader) ua.Response {
			res := make([]*ua.CallMethodResult, len(k.res()))
			for i, ok := range k.res() {
				res[i] = &ua.CallMethodResult{StatusCode: badOr(ok)}
			}
			return &ua.CallResponse{ResponseHeader: hdr, Results: res}
		})
	case *ua.TranslateBrowsePathsToNodeIDsRequest:
		return wrap(k.kind, r, func(hdr *ua.ResponseHeader) ua.Response {
			res := make([]*ua.BrowsePathResult, len(k.res()))
			for i, ok := range k.res() {
				res[i] = &ua.BrowsePathResult{StatusCode: badOr(ok)}
				if i == 0 {
					if !k.has('N') {
						res[i].Targets = []*ua.BrowsePathTarget{} // empty, not null
					}
					for j := 0; j < k.nReq; j++ {
						res[i].Targets = append(res[i].Targets, &ua.BrowsePathTarget{TargetID: &ua.ExpandedNodeID{NodeID: ua.NewNumericNodeID(1, uint32(j))}})
					}
				}
			}
			return &ua.TranslateBrowsePathsToNodeIDsResponse{ResponseHeader: hdr, Results: res}
		})
	case *ua.ModifySubscriptionRequest:
		return wrap(k.kind, r, func(hdr *ua.ResponseHeader) ua.Response {
			return &ua.ModifySubscriptionResponse{ResponseHeader: hdr, RevisedPublishingInterval: 50}
		})
	case *ua.DeleteMonitoredItemsRequest:
		return wrap(k.kind, r, func(hdr *ua.ResponseHeader) ua.Response {
			return &ua.DeleteMonitoredItemsResponse{ResponseHeader: hdr, Results: e.statuses()}
		})
	case *ua.SetMonitoringModeRequest:
		return wrap(k.kind, r, func(hdr *ua.ResponseHeader) ua.Response {
			return &ua.SetMonitoringModeResponse{ResponseHeader: hdr, Results: e.statuses()}
		})
	case *ua.SetTriggeringRequest:
		return wrap(k.kind, r, func(hdr *ua.ResponseHeader) ua.Response {
			return &ua.SetTriggeringResponse{ResponseHeader: hdr, AddResults: e.statuses()}
		})
	}
	return nil
}

// holdForever: no answer is sent for this request.
func holdForever(r ua.Request) ua.Response { return sscript.NoAnswer }

func items(n int) []*ua.MonitoredItemCreateRequest {
	out := make([]*ua.MonitoredItemCreateRequest, n)
	for i := range out {
		out[i] = opcua.NewMonitoredItemCreateRequestWithDefaults(ua.NewNumericNodeID(1, uint32(1000+i)), ua.AttributeIDValue, uint32(i+1))
	}
	return out
}

func nodes(n int) []*ua.NodeID {
	out := make([]*ua.NodeID, n)
	for i := range out {
		out[i] = ua.NewNumericNodeID(1, uint32(2000+i))
	}
	return out
}

// one runs one case and returns (answer line, extra text).
func one(k kase) (line, extra string) {
	e := &env{k: k}
	faultStatus = ua.StatusBadUserAccessDenied
	if k.has('n') {
		faultStatus = ua.StatusBadNothingToDo // a status some code paths like to treat as "fine"
	}
	if k.has('U') {
		faultStatus = ua.StatusBadServiceUnsupported
	}
	srv, err := sscript.Start(nil, nil, e.script)
	if err != nil {
		fmt.Println("infra listen:", err)
		os.Exit(4)
	}
	defer srv.Close()

	background := backgroundOps[k.op]
	var mu sync.Mutex
	var states []opcua.ConnState
	opts := []opcua.Option{
		opcua.SecurityMode(ua.MessageSecurityModeNone),
		opcua.AutoReconnect(k.op == "recreateItems" || k.op == "transferOnReconnect"),
		opcua.ReconnectInterval(20 * time.Millisecond),
		opcua.RequestTimeout(30 * time.Second),
		opcua.DialTimeout(30 * time.Second),
		opcua.StateChangedFunc(func(s opcua.ConnState) {
			mu.Lock()
			states = append(states, s)
			mu.Unlock()
		}),
	}
	c, err := opcua.NewClient(srv.URL(), opts...)
	if err != nil {
		fmt.Println("infra newclient:", err)
		os.Exit(4)
	}
	ctx, cancel := context.WithTimeout(context.Background(), 120*time.Second)
	defer cancel()
	if err := c.Connect(ctx); err != nil {
		return "dialfail", strings.ReplaceAll(err.Error(), "\n", " ")
	}
	defer func() {
		if !background {
			go c.Close(context.Background())
		}
	}()

	// --- preparation with well-behaved answers
	notifCh := make(chan *opcua.PublishNotificationData, 256)
	var sub *opcua.Subscription
	needSub := map[string]bool{"subCancel": true, "subMonitor": true, "subModifyItems": true, "subStats": true, "subModify": true,
		"subUnmonitor": true, "subSetMonitoringMode": true, "subSetTriggering": true, "publish": true, "recreateItems": true}
	prep := func() error {
		if needSub[k.op] || (k.op == "subscribe" && k.has('d')) {
			sub, err = c.Subscribe(ctx, &opcua.SubscriptionParameters{Interval: 100 * time.Millisecond}, notifCh)
			if err != nil {
				return err
			}
		}
		if k.op == "transferOnReconnect" {
			for i := 0; i < k.nReq; i++ {
				if _, err := c.Subscribe(ctx, &opcua.SubscriptionParameters{Interval: 100 * time.Millisecond}, notifCh); err != nil {
					return err
				}
			}
		}
		switch k.op {
		case "subModifyItems", "subSetMonitoringMode", "subUnmonitor", "recreateItems":
			if k.nReq > 0 {
				if _, err := sub.Monitor(ctx, ua.TimestampsToReturnBoth, items(k.nReq)...); err != nil {
					return err
				}
			}
		}
		return nil
	}
	if k.op != "publish" {
		if err := prep(); err != nil {
			return "infra-prep", strings.ReplaceAll(err.Error(), "\n", " ")
		}
	}

	if background {
		return runBackground(ctx, e, srv, c, k, notifCh, prep, &mu, &states)
	}

	// --- the operation under test, against the shaped answers
	e.armed.Store(true)
	defer func() {
		if x := recover(); x != nil {
			line, extra = "panic -", strings.ReplaceAll(fmt.Sprint(x), "\n", " ")
		}
	}()
	n := c.Node(ua.NewNumericNodeID(1, 5))
	ids := func() []uint32 {
		out := make([]uint32, k.nReq)
		for i := range out {
			out[i] = uint32(i + 1)
		}
		return out
	}
	switch k.op {
	case "read":
		rq := &ua.ReadRequest{}
		for _, nid := range nodes(k.nReq) {
			rq.NodesToRead = append(rq.NodesToRead, &ua.ReadValueID{NodeID: nid})
		}
		_, err = c.Read(ctx, rq)
	case "write":
		rq := &ua.WriteRequest{}
		for _, nid := range nodes(k.nReq) {
			rq.NodesToWrite = append(rq.NodesToWrite, &ua.WriteValue{NodeID: nid, AttributeID: ua.AttributeIDValue, Value: &ua.DataValue{EncodingMask: ua.DataValueValue, Value: ua.MustVariant(int32(1))}})
		}
		_, err = c.Write(ctx, rq)
	case "browse":
		rq := &ua.BrowseRequest{}
		for _, nid := range nodes(k.nReq) {
			rq.NodesToBrowse = append(rq.NodesToBrowse, &ua.BrowseDescription{NodeID: nid, ReferenceTypeID: ua.NewNumericNodeID(0, id.References)})
		}
		_, err = c.Browse(ctx, rq)
	case "browseNext":
		_, err = c.BrowseNext(ctx, &ua.BrowseNextRequest{ContinuationPoints: make([][]byte, k.nReq)})
	case "registerNodes":
		_, err = c.RegisterNodes(ctx, &ua.RegisterNodesRequest{NodesToRegister: nodes(k.nReq)})
	case "unregisterNodes":
		_, err = c.UnregisterNodes(ctx, &ua.UnregisterNodesRequest{NodesToUnregister: nodes(k.nReq)})
	case "historyRead":
		var hv []*ua.HistoryReadValueID
		for _, nid := range nodes(k.nReq) {
			hv = append(hv, &ua.HistoryReadValueID{NodeID: nid, DataEncoding: &ua.QualifiedName{}})
		}
		_, err = c.HistoryReadRawModified(ctx, hv, &ua.ReadRawModifiedDetails{StartTime: time.Now().Add(-time.Hour), EndTime: time.Now(), NumValuesPerNode: 1})
	case "findServers":
		_, err = c.FindServers(ctx)
	case "findServersOnNetwork":
		_, err = c.FindServersOnNetwork(ctx)
	case "getEndpoints":
		_, err = c.GetEndpoints(ctx)
	case "nodeAttributes":
		attrs := make([]ua.AttributeID, k.nReq)
		for i := range attrs {
			attrs[i] = ua.AttributeIDValue
		}
		_, err = n.Attributes(ctx, attrs...)
	case "call":
		_, err = c.Call(ctx, &ua.CallMethodRequest{ObjectID: ua.NewNumericNodeID(1, 1), MethodID: ua.NewNumericNodeID(1, 2)})
	case "nodeAttribute":
		_, err = n.Value(ctx)
	case "nodeClass":
		_, err = n.NodeClass(ctx)
	case "browseName":
		_, err = n.BrowseName(ctx)
	case "description":
		_, err = n.Description(ctx)
	case "displayName":
		_, err = n.DisplayName(ctx)
	case "accessLevel":
		_, err = n.HasAccessLevel(ctx, ua.AccessLevelTypeCurrentRead)
	case "userAccessLevel":
		_, err = n.HasUserAccessLevel(ctx, ua.AccessLevelTypeCurrentRead)
	case "namespaceArray":
		err = c.UpdateNamespaces(ctx)
	case "subStats":
		_, err = sub.Stats(ctx)
	case "references":
		_, err = n.ReferencedNodes(ctx, id.HierarchicalReferences, ua.BrowseDirectionForward, ua.NodeClassAll, true)
	case "translate":
		_, err = n.TranslateBrowsePathInNamespaceToNodeID(ctx, 1, "a.b")
	case "subscribe":
		_, err = c.Subscribe(ctx, nil, notifCh)
	case "subCancel":
		err = sub.Cancel(ctx)
	case "subMonitor":
		_, err = sub.Monitor(ctx, ua.TimestampsToReturnBoth, items(k.nReq)...)
	case "subModifyItems":
		var mods []*ua.MonitoredItemModifyRequest
		for i := 0; i < k.nReq; i++ {
			idv := uint32(i + 1)
			if k.has('u') && i == k.nReq-1 {
				idv = 9999
			}
			mods = append(mods, &ua.MonitoredItemModifyRequest{MonitoredItemID: idv, RequestedParameters: &ua.MonitoringParameters{ClientHandle: idv, QueueSize: 3}})
		}
		_, err = sub.ModifyMonitoredItems(ctx, ua.TimestampsToReturnBoth, mods...)
	case "subModify":
		_, err = sub.ModifySubscription(ctx, opcua.SubscriptionParameters{Interval: 50 * time.Millisecond})
	case "subUnmonitor":
		_, err = sub.Unmonitor(ctx, ids()...)
	case "subSetMonitoringMode":
		_, err = sub.SetMonitoringMode(ctx, ua.MonitoringModeSampling, ids()...)
	case "subSetTriggering":
		_, err = sub.SetTriggering(ctx, 1, ids(), nil)
	default:
		return "infra-unknown-op", k.op
	}
	if err != nil {
		return "error -", strings.ReplaceAll(err.Error(), "\n", " ")
	}
	return "value -", ""
}

func lastState(mu *sync.Mutex, states *[]opcua.ConnState) (opcua.ConnState, int) {
	mu.Lock()
	defer mu.Unlock()
	if len(*states) == 0 {
		return opcua.Closed, 0
	}
	return (*states)[len(*states)-1], len(*states)
}

// runBackground drives the flows whose code runs in the client's own goroutines.
func runBackground(ctx context.Context, e *env, srv *sscript.Server, c *opcua.Client, k kase, notifCh chan *opcua.PublishNotificationData,
	prep func() error, mu *sync.Mutex, states *[]opcua.ConnState) (string, string) {
	switch k.op {
	case "publish":
		// the first PublishRequest after Subscribe gets the shaped answer, the second one a marker
		e.armed.Store(true)
		if err := prep(); err != nil {
			return "infra-prep", err.Error()
		}
		if k.kind != "ok" {
			// the loop pauses itself / the monitor goroutine reacts: only "no panic" is observed
			time.Sleep(400 * time.Millisecond)
			return "value -", ""
		}
		// a second Subscribe resumes a paused loop, so that the marker request is sent in any case
		if _, err := c.Subscribe(ctx, &opcua.SubscriptionParameters{Interval: 100 * time.Millisecond}, notifCh); err != nil {
			return "infra-prep", err.Error()
		}
		deliv := ""
		deadline := time.After(40 * time.Second)
		for {
			select {
			case d := <-notifCh:
				if dc, ok := d.Value.(*ua.DataChangeNotification); ok && len(dc.MonitoredItems) == 1 && dc.MonitoredItems[0].ClientHandle == markerHandle {
					// the notifications that built up the pending acknowledgements are not part of the case
					skip := 0
					if k.has('p') {
						skip = 1
					}
					if k.has('P') {
						skip = 2
					}
					if len(deliv) >= skip {
						deliv = deliv[skip:]
					}
					if deliv == "" {
						deliv = "-"
					}
					return "value " + deliv, ""
				}
				if d.Error != nil {
					deliv += "e"
				} else {
					deliv += "v"
				}
			case <-deadline:
				return "infra-marker-timeout", deliv
			}
		}
	case "recreateItems", "transferOnReconnect":
		_, n0 := lastState(mu, states)
		e.armed.Store(true)
		e.phase.Store(1)
		srv.DropAll()
		deadline := time.Now().Add(60 * time.Second)
		for time.Now().Before(deadline) {
			st, n := lastState(mu, states)
			if n > n0 && st == opcua.Connected {
				time.Sleep(20 * time.Millisecond)
				return "value -", ""
			}
			time.Sleep(5 * time.Millisecond)
		}
		st, _ := lastState(mu, states)
		return "infra-reconnect-timeout", st.String() + " seen=" + strings.Join(srv.Seen(), ",")
	}
	return "infra-unknown-op", k.op
}

func child() {
	log.SetOutput(io.Discard)
	in := bufio.NewScanner(os.Stdin)
	out := bufio.NewWriter(os.Stdout)
	for in.Scan() {
		f := strings.SplitN(in.Text(), " ", 3)
		if len(f) != 3 {
			continue
		}
		k, err := parseKase(f[2])
		if err != nil {
			fmt.Println("infra bad case:", err)
			os.Exit(4)
		}
		line, extra := one(k)
		fmt.Fprintf(out, "%s %s | %s\n", f[0], line, extra)
		out.Flush()
	}
}

// ------------------------------------------------------------------ parent

func genCases(o *h.Opts, rnd *h.Rand) []kase {
	var cases []kase
	seen := map[string]bool{}
	add := func(k kase) {
		if !seen[k.String()] {
			seen[k.String()] = true
			cases = append(cases, k)
		}
	}
	kinds := []string{"ok", "badStatus", "fault", "wrongType", "notResponse"}
	gb := func(n int, pat int) string { // n results, bit i of pat set = Bad
		if n == 0 {
			return "-"
		}
		b := make([]byte, n)
		for i := range b {
			b[i] = 'g'
			if pat>>uint(i)&1 == 1 {
				b[i] = 'b'
			}
		}
		return string(b)
	}
	base := func(op string) kase { return kase{op, "ok", 1, "g", "int32:s", "-", "-", "-"} }

	for _, op := range plainOps {
		for _, kd := range kinds {
			k := base(op)
			k.kind = kd
			add(k)
		}
		for _, n := range []int{0, 1, 3} {
			for _, m := range []int{0, 1, 2, 4} {
				k := base(op)
				k.nReq, k.results = n, gb(m, rnd.Intn(1<<uint(m)))
				if op == "subSetMonitoringMode" || op == "subUnmonitor" {
					k.nReq = n
				}
				add(k)
			}
		}
	}
	vals := []string{"absent", "null:s", "byte:s", "sbyte:s", "int32:s", "qname:s", "ltext:s", "string:s", "double:s",
		"sbyte:a0", "sbyte:a2", "int32:a0", "int32:a1", "qname:a0", "qname:a1", "ltext:a0", "ltext:a2", "string:a0", "string:a2", "double:a0", "double:a3",
		"extobj:s", "extobjNoBody:s", "extobj:a0", "extobj:a2", "extobjNoBody:a0", "extobjNoBody:a1"}
	for _, op := range getterOps {
		for _, kd := range kinds {
			k := base(op)
			k.kind = kd
			add(k)
		}
		for _, v := range vals {
			for _, rs := range []string{"g", "b", "gg"} {
				k := base(op)
				k.val, k.results = v, rs
				if rs != "g" && !rnd.Chance(o.N(35, 100)) {
					continue
				}
				add(k)
			}
		}
		k := base(op)
		k.results = "-"
		add(k)
	}
	for _, kd := range kinds {
		for _, m := range []int{0, 1, 2} {
			k := base("call")
			k.kind, k.results = kd, gb(m, 0)
			add(k)
		}
		for _, op := range []string{"subCancel", "subMonitor", "subModifyItems", "recreateItems", "transferOnReconnect", "translate", "subscribe", "references"} {
			k := base(op)
			k.kind = kd
			add(k)
		}
	}
	for m := 0; m <= 3; m++ {
		for pat := 0; pat < 1<<uint(m); pat++ {
			k := base("subCancel")
			k.results = gb(m, pat)
			add(k)
			k = base("translate")
			k.results = gb(m, pat)
			for _, t := range []int{0, 1, 2} {
				k.nReq = t
				add(k)
			}
		}
	}
	for n := 0; n <= 3; n++ {
		for m := 0; m <= 5; m++ {
			for _, pat := range []int{0, 1, 1 << uint(m) >> 1, rnd.Intn(1 << uint(m))} {
				for _, op := range []string{"subMonitor", "subModifyItems", "recreateItems", "transferOnReconnect"} {
					if (op == "recreateItems" || op == "transferOnReconnect") && !o.Thorough() && pat != 0 && pat != 1 && !(m <= 2) {
						continue
					}
					k := base(op)
					k.nReq, k.results = n, gb(m, pat)
					add(k)
				}
			}
		}
	}
	for _, n := range []int{1, 2} {
		k := base("subModifyItems")
		k.nReq, k.results, k.flags = n, gb(n+1, 0), "u"
		add(k)
	}
	for _, f := range []string{"z", "d", "-"} {
		k := base("subscribe")
		k.flags = f
		add(k)
	}
	chains := []string{"-", "ok:1", "ok:0", "ok:2,ok:1", "ok:1,ok:0", "ok:1,fault:0", "ok:1,ok:1,ok:0", "badStatus:1", "wrongType:1", "fault:0", "ok:3,ok:1,ok:2"}
	for _, ch := range chains {
		for _, m := range []int{0, 1, 2} {
			k := base("references")
			k.results, k.chain = gb(m, 0), ch
			add(k)
		}
	}
	notifs := []string{"-", "d", "e", "s", "o", "n", "dd", "don", "nnd", "sed", "ood", "dnesod"}
	for _, nf := range notifs {
		for _, fl := range []string{"-", "k"} {
			for _, rs := range []string{"-", "g", "bgg"} {
				k := base("publish")
				k.nReq, k.results, k.flags, k.notifs = 0, rs, fl, nf
				if (fl == "k" || rs != "-") && !rnd.Chance(o.N(30, 100)) {
					continue
				}
				add(k)
			}
		}
	}
	for _, kd := range kinds[1:] {
		k := base("publish")
		k.kind, k.nReq, k.results, k.notifs = kd, 0, "-", "d"
		add(k)
	}
	if o.Thorough() {
		// thorough: exhaustive status patterns for request lengths 0..4 against result lengths 0..6 on the
		// length-sensitive operations, every answer kind for every getter x Variant class, random BrowseNext
		// chains and notification lists
		for n := 0; n <= 4; n++ {
			for m := 0; m <= 6; m++ {
				for pat := 0; pat < 1<<uint(m); pat++ {
					if m > 4 && pat%5 != 0 {
						continue
					}
					for _, op := range []string{"subMonitor", "subModifyItems", "subCancel", "call", "read", "write"} {
						k := base(op)
						k.nReq, k.results = n, gb(m, pat)
						add(k)
					}
				}
			}
		}
		for _, op := range getterOps {
			for _, v := range vals {
				for _, kd := range kinds {
					k := base(op)
					k.kind, k.val = kd, v
					add(k)
				}
			}
		}
		for i := 0; i < 120; i++ {
			var parts []string
			for j := 0; j < 1+rnd.Intn(5); j++ {
				parts = append(parts, fmt.Sprintf("%s:%d", kinds[[]int{0, 0, 0, 0, 1, 2, 3, 4}[rnd.Intn(8)]], rnd.Intn(4)))
			}
			k := base("references")
			k.results, k.chain = gb(rnd.Intn(3), 0), strings.Join(parts, ",")
			add(k)
		}
		letters := "desonn"
		for i := 0; i < 120; i++ {
			b := make([]byte, 1+rnd.Intn(6))
			for j := range b {
				b[j] = letters[rnd.Intn(len(letters))]
			}
			k := base("publish")
			k.nReq, k.results, k.notifs = 0, gb(rnd.Intn(4), rnd.Intn(8)), string(b)
			k.flags = []string{"-", "k", "p", "P"}[rnd.Intn(4)]
			add(k)
		}
	}
	// a fault / Bad service result whose status is one that code likes to special-case
	for _, fl := range []string{"n", "U"} {
		for _, kd := range []string{"fault", "badStatus"} {
			for _, op := range append(append([]string{}, plainOps...), "call", "nodeAttribute", "references", "translate", "subscribe",
				"subCancel", "subMonitor", "subModifyItems", "recreateItems", "transferOnReconnect", "publish") {
				if !o.Thorough() && fl == "U" && op != "transferOnReconnect" && op != "recreateItems" {
					continue
				}
				k := base(op)
				k.kind, k.flags = kd, fl
				if op == "publish" {
					k.nReq, k.results, k.notifs = 0, "-", "d"
				}
				add(k)
				if op == "transferOnReconnect" || op == "recreateItems" || op == "subMonitor" || op == "subModifyItems" {
					// … also with no and with several request items (a client without subscriptions / items)
					for _, n := range []int{0, 2} {
						k.nReq = n
						add(k)
					}
				}
			}
		}
	}
	// keep-alive and data messages for an unknown subscription, with and without ack results
	for _, nf := range []string{"-", "d", "n"} {
		for _, rs := range []string{"-", "g"} {
			for _, fl := range []string{"k", "kp"} {
				k := base("publish")
				k.nReq, k.results, k.flags, k.notifs = 0, rs, fl, nf
				add(k)
			}
		}
	}
	// empty arrays as null (-1) as well as empty (0)
	for _, op := range []string{"translate", "subCancel", "subMonitor", "subModifyItems", "call", "references", "read", "write"} {
		for _, n := range []int{0, 1} {
			k := base(op)
			k.nReq, k.results, k.flags = n, "-", "N"
			add(k)
			if op == "translate" {
				k.results = "g"
				add(k)
			}
		}
	}
	// acknowledgements pending when the response arrives: every result count against 1 and 2 pending acks
	for _, fl := range []string{"p", "P"} {
		for m := 0; m <= 3; m++ {
			for _, pat := range []int{0, (1 << uint(m)) - 1} {
				k := base("publish")
				k.nReq, k.results, k.flags, k.notifs = 0, gb(m, pat), fl, "d"
				add(k)
			}
		}
	}
	// reads of extension object values through the plain calls as well
	for _, v := range []string{"extobj:s", "extobjNoBody:s", "extobj:a0", "extobjNoBody:a0", "extobj:a2"} {
		for _, op := range []string{"read", "nodeAttributes"} {
			k := base(op)
			k.val = v
			add(k)
		}
	}
	return cases
}

func main() {
	if os.Getenv("VERIF_C21_CHILD") != "" {
		child()
		return
	}
	o := h.ParseOpts()
	r := h.NewResult("C21", o)
	d, err := h.StartDriver(o.Driver)
	if err != nil {
		r.InfraError = err.Error()
		r.Write(o.Out)
		return
	}
	defer d.Close()
	rnd := h.NewRand(o.Seed)
	r.Rule = "case = (operation, answer kind, number of request items, result array with per-result status, Variant class of the first DataValue, BrowseNext chain, flags, notification data); the real client in a child process against a scripted server (fresh client and server per case) vs Lean ClientResp.outcome; all 34 operations x 4 answer kinds, result lengths 0..5 against request lengths 0..3 with status patterns, 21 Variant classes for the 9 getters, 11 BrowseNext chains, publish loop with 12 notification lists; distinct by the whole tuple"

	var cases []kase
	if o.Replay != "" {
		k, err := parseKase(o.Replay)
		if err != nil {
			r.InfraError = "bad replay case: " + err.Error()
			r.Write(o.Out)
			return
		}
		cases = []kase{k}
	} else {
		seen := map[string]bool{}
		for _, l := range o.CorpusLines() {
			if k, err := parseKase(l); err == nil && !seen[k.String()] {
				seen[k.String()] = true
				cases = append(cases, k)
			}
		}
		for _, k := range genCases(o, rnd) {
			if !seen[k.String()] {
				seen[k.String()] = true
				cases = append(cases, k)
			}
		}
	}

	texts := make([]string, len(cases))
	for i, k := range cases {
		texts[i] = k.String()
	}
	outs := make([]sscript.Answer, len(cases))
	const workers = 8
	var wg sync.WaitGroup
	for w := 0; w < workers; w++ {
		var idx []int
		for i := w; i < len(cases); i += workers {
			idx = append(idx, i)
		}
		if len(idx) == 0 {
			continue
		}
		wg.Add(1)
		go func(idx []int) {
			defer wg.Done()
			sscript.RunBatch([]string{"VERIF_C21_CHILD=1"}, texts, idx, outs, o.Seed, 10*time.Second)
		}(idx)
	}
	wg.Wait()
	// infrastructure hiccups (dial failed, marker / reconnect timeout) are retried alone
	for i := range cases {
		for try := 0; try < 3 && outs[i].Infra == "" && outs[i].Died == "" && (outs[i].Line == "dialfail" || strings.HasPrefix(outs[i].Line, "infra-")); try++ {
			r.Hit("retry:" + outs[i].Line)
			prev := outs[i]
			outs[i] = sscript.Answer{}
			sscript.RunBatch([]string{"VERIF_C21_CHILD=1"}, texts, []int{i}, outs, o.Seed+uint64(try)+1, 10*time.Second)
			if outs[i].Line == "" && outs[i].Died == "" && outs[i].Infra == "" {
				outs[i] = prev
			}
		}
		if outs[i].Line == "dialfail" || strings.HasPrefix(outs[i].Line, "infra-") {
			outs[i].Infra = outs[i].Line + " for " + texts[i] + ": " + outs[i].Extra
		}
	}

	for i, k := range cases {
		out := outs[i]
		if out.Infra != "" {
			r.InfraError = out.Infra
			r.Write(o.Out)
			return
		}
		c := k.String()
		r.Count(c, true)
		line, msg := out.Line, out.Extra
		if out.Died != "" {
			line, msg = "panic -", out.Died
			r.Hit("panic-in-background-goroutine")
		}
		res := strings.Fields(line)[0]
		r.Hit("op:" + k.op)
		r.Hit("kind:" + k.kind)
		r.Hit("outcome:" + res)
		r.Sample(fmt.Sprintf("%s -> %s", c, line))
		r.Compare(d, "op "+c, line)
		// the signature of the defect repaired in round 2 this case would have hit (all are `fixed:`
		// now, so a panic here is reported as a new failure; the name only helps to read the report)
		sig := signature(k)

		// ---- the property's own oracle, on the implementation alone: no client call panics
		if res == "panic" {
			if sig != "" && !panicTextMatches(sig, msg) {
				sig = "" // a different panic than the repaired one
			}
			r.Fail(c, sig, "client panicked: "+msg)
		}
	}
	for _, op := range append(append([]string{}, plainOps...), append(getterOps, "call", "references", "translate", "subscribe", "subCancel",
		"subMonitor", "subModifyItems", "recreateItems", "transferOnReconnect", "publish")...) {
		if r.Distribution["op:"+op] == 0 && o.Replay == "" {
			r.Unreached = append(r.Unreached, "op:"+op)
		}
	}
	r.Write(o.Out)
}
