// Correspondence runner and property oracle for C28 (monitor notifications name
// the right node and converge to the latest value).
//
//	A. the real monitor.Subscription (AddMonitorItems / RemoveMonitorItems / pump)
//	   against a scripted server that records the client handle of every created
//	   item and later publishes a notification per item: handle map, itemLookup,
//	   handles on the wire and the node each notification is delivered under are
//	   compared with the Lean model; own oracle: a notification of the item that
//	   samples node k is delivered under node k (or as an error), never under
//	   another node.
//	B. the real monitor against the real gopcua server with concurrent writers,
//	   nodes added and removed while they write: own oracle: every message names
//	   the node whose value it carries, and after quiescence the last value
//	   delivered per node equals the value read from the server; the server's
//	   enqueue / publish events (verifPoints) must be explained by the Lean
//	   FIFO-channel + keyed-queue model.
package main

import (
	"context"
	"fmt"
	"sort"
	"strings"
	"sync"
	"time"

	"github.com/gopcua/opcua"
	"github.com/gopcua/opcua/monitor"
	"github.com/gopcua/opcua/server"
	"github.com/gopcua/opcua/ua"

	"verifharness/internal/h"
	"verifharness/internal/xreal"
	"verifharness/internal/xsubs"
)

type env struct {
	o   *h.Opts
	r   *h.Result
	d   *h.Driver
	rnd *h.Rand
}

// ---------------------------------------------------------------- A. handle map

type srvItem struct {
	id     uint32
	node   int
	handle uint32
	shared bool // created by a call in which two requests shared a parameters object
}

type held struct {
	c     *xsubs.SConn
	reqID uint32
	req   ua.Request
}

type asys struct {
	mu       sync.Mutex
	items    []srvItem
	nextID   uint32
	statuses []bool   // results for the next CreateMonitoredItems call
	lastWire []uint32 // client handles of the last create request
	shared   bool
	held     []held
	msgs     chan *monitor.DataChangeMessage
	// reconnect with recreation
	sessionValid bool
	recreating   bool     // the next CreateSubscription starts a recreated subscription
	resent       []uint32 // client handles of the requests re-sent by the recreation, in order
	recreated    int      // CreateSubscription requests seen after a fault
}

func nodeName(k int) string { return fmt.Sprintf("ns=2;s=n%d", k) }

func nodeIndex(id string) int {
	var k int
	if _, err := fmt.Sscanf(id, "ns=2;s=n%d", &k); err != nil {
		return -1
	}
	return k
}

func (a *asys) handler(s *xsubs.Scripted, c *xsubs.SConn, reqID uint32, r ua.Request) ua.Response {
	switch req := r.(type) {
	case *ua.PublishRequest:
		a.mu.Lock()
		a.held = append(a.held, held{c, reqID, r})
		a.mu.Unlock()
		return nil
	case *ua.CreateSessionRequest:
		a.mu.Lock()
		a.sessionValid = true
		a.mu.Unlock()
	case *ua.ActivateSessionRequest:
		a.mu.Lock()
		ok := a.sessionValid
		a.mu.Unlock()
		if !ok {
			return xsubs.Fault(r, ua.StatusBadSessionIDInvalid)
		}
	case *ua.CreateSubscriptionRequest:
		a.mu.Lock()
		if a.recreating {
			// the recreated subscription starts without items; the old one is gone
			a.items = nil
			a.recreated++
			a.statuses = nil
		}
		a.mu.Unlock()
	case *ua.CreateMonitoredItemsRequest:
		a.mu.Lock()
		defer a.mu.Unlock()
		res := make([]*ua.MonitoredItemCreateResult, len(req.ItemsToCreate))
		a.lastWire = nil
		if a.recreating {
			for _, it := range req.ItemsToCreate {
				a.resent = append(a.resent, it.RequestedParameters.ClientHandle)
			}
		}
		for i, it := range req.ItemsToCreate {
			hd := it.RequestedParameters.ClientHandle
			a.lastWire = append(a.lastWire, hd)
			ok := i >= len(a.statuses) || a.statuses[i]
			if ok {
				a.nextID++
				a.items = append(a.items, srvItem{a.nextID, nodeIndex(it.ItemToMonitor.NodeID.String()), hd, a.shared})
				res[i] = &ua.MonitoredItemCreateResult{StatusCode: ua.StatusOK, MonitoredItemID: a.nextID, RevisedQueueSize: 1, FilterResult: ua.NewExtensionObject(nil)}
			} else {
				res[i] = &ua.MonitoredItemCreateResult{StatusCode: ua.StatusBadNodeIDUnknown, FilterResult: ua.NewExtensionObject(nil)}
			}
		}
		return &ua.CreateMonitoredItemsResponse{ResponseHeader: xsubs.Hdr(r, ua.StatusOK), Results: res, DiagnosticInfos: []*ua.DiagnosticInfo{}}
	case *ua.DeleteMonitoredItemsRequest:
		a.mu.Lock()
		defer a.mu.Unlock()
		res := make([]ua.StatusCode, len(req.MonitoredItemIDs))
		for _, id := range req.MonitoredItemIDs {
			for j := range a.items {
				if a.items[j].id == id {
					a.items = append(a.items[:j], a.items[j+1:]...)
					break
				}
			}
		}
		return &ua.DeleteMonitoredItemsResponse{ResponseHeader: xsubs.Hdr(r, ua.StatusOK), Results: res, DiagnosticInfos: []*ua.DiagnosticInfo{}}
	}
	return s.Default(r)
}

func stateOf(m *monitor.NodeMonitor, sub *monitor.Subscription, a *asys) string {
	var hs, its, sv []string
	for _, x := range sub.VerifHandles() {
		hs = append(hs, fmt.Sprintf("%d:%d", x.Handle, nodeIndex(x.NodeID)))
	}
	for _, x := range sub.VerifItems() {
		its = append(its, fmt.Sprintf("%d:%d:%d", x.ID, nodeIndex(x.NodeID), x.Handle))
	}
	a.mu.Lock()
	for _, x := range a.items {
		sv = append(sv, fmt.Sprintf("%d:%d:%d", x.id, x.node, x.handle))
	}
	a.mu.Unlock()
	j := func(l []string) string {
		if len(l) == 0 {
			return "-"
		}
		return strings.Join(l, ",")
	}
	var st []string
	for _, x := range sub.VerifSub().VerifStoredItems() {
		st = append(st, fmt.Sprintf("%d:%d:%d", x.ID, nodeIndex(x.NodeID), x.Handle))
	}
	sort.Strings(st)
	return fmt.Sprintf("next=%d handles=%s items=%s srv=%s stored=%s", m.VerifNextHandle(), j(hs), j(its), j(sv), j(st))
}

func (e *env) handleSequence(seed uint64) {
	rnd := h.NewRand(seed)
	a := &asys{msgs: make(chan *monitor.DataChangeMessage, 1024), sessionValid: true}
	srv, err := xsubs.StartScripted(a.handler)
	if err != nil {
		e.r.InfraError = err.Error()
		return
	}
	defer srv.Close()
	c, err := opcua.NewClient(srv.URL(), opcua.SecurityMode(ua.MessageSecurityModeNone), opcua.AutoReconnect(true),
		opcua.ReconnectInterval(30*time.Millisecond), opcua.RequestTimeout(20*time.Second))
	if err != nil {
		e.r.InfraError = err.Error()
		return
	}
	ctx, cancel := context.WithTimeout(context.Background(), 30*time.Second)
	defer cancel()
	if err := c.Connect(ctx); err != nil {
		e.r.InfraError = "connect: " + err.Error()
		return
	}
	xsubs.LoopStarted(c.VerifChanLens)
	defer func() {
		cctx, cc := context.WithTimeout(context.Background(), 500*time.Millisecond)
		c.Close(cctx)
		cc()
	}()
	m, _ := monitor.NewNodeMonitor(c)
	sub, err := m.Subscribe(ctx, &opcua.SubscriptionParameters{Interval: 20 * time.Millisecond}, func(s *monitor.Subscription, msg *monitor.DataChangeMessage) {
		a.msgs <- msg
	})
	if err != nil {
		e.r.InfraError = "monitor subscribe: " + err.Error()
		return
	}
	if e.d != nil {
		e.d.Ask("reset")
	}
	name := fmt.Sprintf("handles seed=%d", seed)
	var trace []string
	nops := 3 + rnd.Intn(4)
	reconnectAt := -1
	if rnd.Chance(50) {
		reconnectAt = 1 + rnd.Intn(nops)
	}
	for op := 0; op < nops; op++ {
		if op == reconnectAt {
			// ---- the connection drops and the session is gone: the client recreates the
			// subscription and its monitored items from the stored request objects
			a.mu.Lock()
			a.sessionValid, a.recreating, a.resent, a.held = false, true, nil, nil
			before := a.recreated
			nstored := len(sub.VerifSub().VerifStoredItems())
			a.mu.Unlock()
			srv.DropConns()
			ok := xsubs.WaitFor(8*time.Second, func() bool {
				a.mu.Lock()
				defer a.mu.Unlock()
				return a.recreated > before && len(a.resent) >= nstored && c.State() == opcua.Connected
			})
			time.Sleep(150 * time.Millisecond)
			a.mu.Lock()
			a.recreating = false
			var hs []string
			for _, x := range a.resent {
				hs = append(hs, fmt.Sprint(x))
			}
			a.mu.Unlock()
			if !ok {
				e.r.InfraError = name + ": the client did not recreate the subscription within 8 s"
				return
			}
			l := "-"
			if len(hs) > 0 {
				l = strings.Join(hs, ",")
			}
			line := "recreate " + l + " 1"
			e.r.Hit("op:recreate")
			e.r.Count(name+" "+strings.Join(trace, " ; ")+" ; "+line, true)
			trace = append(trace, line)
			e.r.Compare(e.d, line, stateOf(m, sub, a))
		}
		items := sub.VerifItems()
		if len(items) > 0 && rnd.Chance(30) {
			// ---- RemoveMonitorItems
			var ids []string
			var its []monitor.Item
			n := 1 + rnd.Intn(2)
			for i := 0; i < n && i < len(items); i++ {
				x := items[(rnd.Intn(len(items))+i)%len(items)]
				dup := false
				for _, s := range ids {
					if s == fmt.Sprint(x.ID) {
						dup = true
					}
				}
				if dup {
					continue
				}
				it, _ := sub.VerifItemByID(x.ID)
				its = append(its, it)
				ids = append(ids, fmt.Sprint(x.ID))
			}
			if rnd.Chance(20) {
				pos := rnd.Intn(len(its) + 1)
				its = append(its[:pos], append([]monitor.Item{monitor.VerifMakeItem(999, 999)}, its[pos:]...)...)
				ids = append(ids[:pos], append([]string{"999"}, ids[pos:]...)...)
				e.r.Hit("op:remove-unknown")
			}
			sub.RemoveMonitorItems(ctx, its...)
			line := "remove " + strings.Join(ids, ",")
			e.r.Hit("op:remove")
			e.r.Count(name+" "+line, true)
			trace = append(trace, line)
			e.r.Compare(e.d, line, stateOf(m, sub, a))
			continue
		}
		// ---- AddMonitorItems
		n := 1 + rnd.Intn(3)
		reqs := make([]monitor.Request, n)
		var spec []string
		statuses := make([]bool, n)
		pool := map[int]*ua.MonitoringParameters{}
		ptrOf := map[*ua.MonitoringParameters]int{}
		shared := false
		for i := range reqs {
			node := rnd.Intn(5)
			reqs[i] = monitor.Request{NodeID: ua.MustParseNodeID(nodeName(node)), MonitoringMode: ua.MonitoringModeReporting}
			ptr := "-"
			switch x := rnd.Intn(10); {
			case x < 4:
			case x < 7:
				p := &ua.MonitoringParameters{DiscardOldest: true, QueueSize: 10}
				k := 10 + len(ptrOf)
				ptrOf[p] = k
				pool[k] = p
				reqs[i].MonitoringParameters = p
				ptr = fmt.Sprint(k)
			default:
				// the same object as an earlier request of this call, if there is one
				var keys []int
				for k := range pool {
					keys = append(keys, k)
				}
				sort.Ints(keys)
				if len(keys) > 0 {
					k := keys[rnd.Intn(len(keys))]
					reqs[i].MonitoringParameters = pool[k]
					ptr = fmt.Sprint(k)
					shared = true
				} else {
					p := &ua.MonitoringParameters{DiscardOldest: true, QueueSize: 10}
					k := 10 + len(ptrOf)
					ptrOf[p] = k
					pool[k] = p
					reqs[i].MonitoringParameters = p
					ptr = fmt.Sprint(k)
				}
			}
			statuses[i] = !rnd.Chance(20)
			spec = append(spec, fmt.Sprintf("%d:%s", node, ptr))
		}
		a.mu.Lock()
		a.statuses = statuses
		a.shared = shared
		a.mu.Unlock()
		sub.AddMonitorItems(ctx, reqs...)
		bits := ""
		for _, s := range statuses {
			if s {
				bits += "1"
			} else {
				bits += "0"
			}
		}
		a.mu.Lock()
		var w []string
		for _, x := range a.lastWire {
			w = append(w, fmt.Sprint(x))
		}
		a.mu.Unlock()
		line := fmt.Sprintf("add %s %s", strings.Join(spec, ","), bits)
		e.r.Hit("op:add")
		if shared {
			e.r.Hit("op:add-shared-params")
		}
		if strings.Contains(bits, "0") {
			e.r.Hit("op:add-with-failed-item")
		}
		e.r.Count(name+" "+line, true)
		trace = append(trace, line)
		e.r.Compare(e.d, line, "wire="+strings.Join(w, ",")+" "+stateOf(m, sub, a))
	}

	// ---- notification round: every item alive on the server publishes one data change
	a.mu.Lock()
	live := append([]srvItem(nil), a.items...)
	a.mu.Unlock()
	seq := uint32(0)
	for _, it := range live {
		ok := xsubs.WaitFor(3*time.Second, func() bool { a.mu.Lock(); defer a.mu.Unlock(); return len(a.held) > 0 })
		if !ok {
			e.r.InfraError = name + ": no PublishRequest outstanding at the scripted server"
			return
		}
		a.mu.Lock()
		hd := a.held[0]
		a.held = a.held[1:]
		a.mu.Unlock()
		seq++
		val := int32(it.node*1000 + int(seq))
		hd.c.Reply(hd.reqID, xsubs.DataResponse(hd.req, sub.SubscriptionID(), seq, 1, nil, it.handle, val))
		var msg *monitor.DataChangeMessage
		select {
		case msg = <-a.msgs:
		case <-time.After(3 * time.Second):
			e.r.InfraError = name + ": published notification not delivered to the callback"
			return
		}
		got := "none"
		if msg.Error == nil && msg.NodeID != nil {
			got = fmt.Sprint(nodeIndex(msg.NodeID.String()))
		}
		line := fmt.Sprintf("notify %d", it.handle)
		c := fmt.Sprintf("%s | item %d samples n%d, handle on the wire %d: %s", strings.Join(trace, " ; "), it.id, it.node, it.handle, line)
		e.r.Count(name+" "+c, true)
		e.r.Compare(e.d, line, got)
		// the property's own oracle
		switch {
		case got == "none":
			e.r.Hit("deliver:handle-not-found")
		case got == fmt.Sprint(it.node):
			e.r.Hit("deliver:right-node")
			if msg.DataValue == nil || msg.Value == nil || msg.Value.Value() != val {
				e.r.Fail(c, "", "delivered message does not carry the published value")
			}
		default:
			detail := fmt.Sprintf("a data change of the item that samples n%d (value %d) is delivered as NodeID=n%s (item created by a call with shared parameters object: %v); ops: %s", it.node, val, got, it.shared, strings.Join(trace, " ; "))
			e.r.Fail(c, "", detail)
			e.r.Hit("deliver:WRONG-NODE")
		}
	}
	if seed%1000 < 3 {
		e.r.Sample(name + ": " + strings.Join(trace, " ; ") + " => " + stateOf(m, sub, a))
	}
}

// ---------------------------------------------------------------- B. real server

type delivered struct {
	node int
	val  int32
	err  bool
}

func (e *env) converge(seed uint64, chanMode, limited bool) {
	rnd := h.NewRand(seed)
	name := fmt.Sprintf("converge seed=%d chan=%v limited=%v", seed, chanMode, limited)
	const nnodes = 4
	srv, err := xreal.StartReal(0, nnodes)
	if err != nil {
		e.r.InfraError = err.Error()
		return
	}
	defer srv.Close()
	for k := 0; k < nnodes; k++ {
		srv.Set(k, int32(k*100000))
	}
	maxPerPublish := uint32(0)
	if limited {
		maxPerPublish = 2
	}
	var emu sync.Mutex
	var obs []string
	server.VerifSetHook(func(n string, args ...interface{}) {
		switch n {
		case "mis.enqueue":
			dv, _ := args[2].(*ua.DataValue)
			v := int32(-1)
			if dv != nil && dv.Value != nil {
				if x, ok := dv.Value.Value().(int32); ok {
					v = x
				}
			}
			emu.Lock()
			obs = append(obs, fmt.Sprintf("E:%d:%d", args[1].(uint32), v))
			emu.Unlock()
		case "sub.publish":
			items, _ := args[2].([]*ua.MonitoredItemNotification)
			var p []string
			for _, it := range items {
				v := int32(-1)
				if it.Value != nil && it.Value.Value != nil {
					if x, ok := it.Value.Value.Value().(int32); ok {
						v = x
					}
				}
				p = append(p, fmt.Sprintf("%d:%d", it.ClientHandle, v))
			}
			sort.Strings(p)
			emu.Lock()
			obs = append(obs, "P:"+strings.Join(p, ","))
			emu.Unlock()
		}
	})
	defer server.VerifSetHook(nil)

	c, err := opcua.NewClient(srv.URL(), opcua.SecurityMode(ua.MessageSecurityModeNone), opcua.AutoReconnect(false), opcua.RequestTimeout(5*time.Second))
	if err != nil {
		e.r.InfraError = err.Error()
		return
	}
	ctx, cancel := context.WithTimeout(context.Background(), 40*time.Second)
	defer cancel()
	if err := c.Connect(ctx); err != nil {
		e.r.InfraError = "connect: " + err.Error()
		return
	}
	xsubs.LoopStarted(c.VerifChanLens)
	defer func() {
		cctx, cc := context.WithTimeout(context.Background(), time.Second)
		c.Close(cctx)
		cc()
	}()
	m, _ := monitor.NewNodeMonitor(c)
	var dmu sync.Mutex
	var got []delivered
	lastMsg := time.Now()
	record := func(msg *monitor.DataChangeMessage) {
		d := delivered{node: -1, err: msg.Error != nil}
		if msg.Error == nil && msg.NodeID != nil {
			d.node = nodeIdx(srv, msg.NodeID)
			if msg.DataValue != nil && msg.Value != nil {
				if x, ok := msg.Value.Value().(int32); ok {
					d.val = x
				}
			}
		}
		dmu.Lock()
		got = append(got, d)
		lastMsg = time.Now()
		dmu.Unlock()
	}
	params := &opcua.SubscriptionParameters{Interval: 20 * time.Millisecond, MaxNotificationsPerPublish: maxPerPublish}
	var sub *monitor.Subscription
	first := []string{srv.NodeID(0).String(), srv.NodeID(1).String(), srv.NodeID(2).String()}
	if chanMode {
		ch := make(chan *monitor.DataChangeMessage, 4096)
		sub, err = m.ChanSubscribe(ctx, params, ch, first...)
		go func() {
			for msg := range ch {
				record(msg)
			}
		}()
	} else {
		sub, err = m.Subscribe(ctx, params, func(s *monitor.Subscription, msg *monitor.DataChangeMessage) { record(msg) }, first...)
	}
	if err != nil {
		e.r.InfraError = "monitor subscribe: " + err.Error()
		return
	}
	// concurrent writers; node 3 is added, node 1 removed and added again while they write.
	// A write is what NodeNameSpace.SetAttribute does — store the value, then call
	// ChangeNotification — with the store serialised per node by the harness so that
	// the values stored in a node are strictly increasing (the notifications are not
	// serialised: they race each other and the initial-value goroutines).
	var wmu [nnodes]sync.Mutex
	var wctr [nnodes]int32
	write := func(node int) {
		wmu[node].Lock()
		wctr[node]++
		v := int32(node*100000) + wctr[node]
		srv.Nodes[node].SetAttribute(ua.AttributeIDValue, &ua.DataValue{EncodingMask: ua.DataValueValue | ua.DataValueSourceTimestamp, Value: ua.MustVariant(v), SourceTimestamp: time.Now()})
		wmu[node].Unlock()
		srv.NS.ChangeNotification(srv.NodeID(node))
	}
	var wg sync.WaitGroup
	nwriters, nwrites := 3, e.o.N(60, 150)
	for w := 0; w < nwriters; w++ {
		wg.Add(1)
		wr := rnd.Fork()
		go func(w int) {
			defer wg.Done()
			for k := 1; k <= nwrites; k++ {
				write(wr.Intn(nnodes))
				if wr.Chance(60) {
					time.Sleep(time.Duration(wr.Intn(12000)) * time.Microsecond)
				}
			}
			// burst: back-to-back writes, all writers on the same two nodes
			for k := 0; k < 150; k++ {
				write(k % 2)
			}
			// like one WriteRequest for all nodes: every node changes within one publishing interval
			for node := 0; node < nnodes; node++ {
				write(node)
			}
		}(w)
	}
	time.Sleep(time.Duration(20+rnd.Intn(60)) * time.Millisecond)
	if err := sub.AddNodes(ctx, srv.NodeID(3).String()); err != nil {
		e.r.InfraError = "AddNodes: " + err.Error()
		return
	}
	time.Sleep(time.Duration(10+rnd.Intn(50)) * time.Millisecond)
	if err := sub.RemoveNodes(ctx, srv.NodeID(1).String()); err != nil {
		e.r.InfraError = "RemoveNodes: " + err.Error()
		return
	}
	time.Sleep(time.Duration(10+rnd.Intn(50)) * time.Millisecond)
	if err := sub.AddNodes(ctx, srv.NodeID(1).String()); err != nil {
		e.r.InfraError = "AddNodes: " + err.Error()
		return
	}
	wg.Wait()
	// quiescence: no message for 10 publishing intervals (and at least 300 ms after the last write)
	time.Sleep(300 * time.Millisecond)
	xsubs.WaitFor(5*time.Second, func() bool { dmu.Lock(); defer dmu.Unlock(); return time.Since(lastMsg) > 200*time.Millisecond })

	e.r.Count(name, true)
	e.r.TracesValidated++
	if chanMode {
		e.r.Hit("converge:chan-subscribe")
	} else {
		e.r.Hit("converge:callback-subscribe")
	}
	current := map[int]int32{}
	for k := 0; k < nnodes; k++ {
		dv, err := c.Node(srv.NodeID(k)).Value(ctx)
		if err != nil || dv == nil {
			e.r.InfraError = fmt.Sprintf("%s: read v%d: %v", name, k, err)
			return
		}
		current[k], _ = dv.Value().(int32)
	}
	var msgs []delivered
	last := map[int]int32{}
	seen := map[int]bool{}
	nerr := 0
	// a loaded machine may deliver the last publish late: the comparison is repeated
	// (up to 2 s more, i.e. 100 publishing intervals) before a mismatch counts
	for try := 0; try < 5; try++ {
		dmu.Lock()
		msgs = append([]delivered(nil), got...)
		dmu.Unlock()
		last, seen, nerr = map[int]int32{}, map[int]bool{}, 0
		for _, d := range msgs {
			if d.err {
				nerr++
				continue
			}
			last[d.node] = d.val
			seen[d.node] = true
		}
		same := true
		for k := 0; k < nnodes; k++ {
			if !seen[k] || last[k] != current[k] {
				same = false
			}
		}
		if same {
			break
		}
		time.Sleep(500 * time.Millisecond)
	}
	// ---- own oracle 1: every message names the node whose value it carries
	for _, d := range msgs {
		if !d.err && int(d.val)/100000 != d.node {
			e.r.Fail(name, "", fmt.Sprintf("a message with NodeID v%d carries value %d, a value written to v%d", d.node, d.val, int(d.val)/100000))
			return
		}
	}
	e.r.Hit(fmt.Sprintf("converge:messages>=%d", len(msgs)/50*50))
	if nerr > 0 {
		e.r.Hit("converge:handle-not-found-after-remove")
	}
	// ---- own oracle 2: after quiescence the last delivered value is the current value
	for k := 0; k < nnodes; k++ {
		if !seen[k] {
			e.r.Fail(name, "", fmt.Sprintf("monitored node v%d never delivered a value", k))
			continue
		}
		if last[k] != current[k] {
			e.r.Fail(name, "", fmt.Sprintf("the writers stopped, no message arrived for more than 2 s, and the last value delivered for v%d is %d but Read returns %d", k, last[k], current[k]))
		} else {
			e.r.Hit("converge:last-equals-read")
		}
	}
	// ---- the server's enqueue / publish events must be explained by the model
	emu.Lock()
	line := "explain " + strings.Join(obs, " ")
	nobs := len(obs)
	emu.Unlock()
	e.r.Compare(e.d, line, "yes")
	// … and, the values stored in a node being increasing, the values enqueued for a
	// handle must never go back: ChangeNotification reads the value under the same lock
	// under which it sends
	emu.Lock()
	var enq []string
	for _, o := range obs {
		if strings.HasPrefix(o, "E:") {
			enq = append(enq, o)
		}
	}
	emu.Unlock()
	e.r.Compare(e.d, "mono "+strings.Join(enq, " "), "yes")
	if limited {
		e.r.Hit("converge:max-notifications-per-publish=2")
	}
	e.r.Sample(fmt.Sprintf("%s: %d messages (%d handle-not-found), %d server events, last=%v", name, len(msgs), nerr, nobs, last))
	_ = sub
}

func nodeIdx(srv *xreal.Real, id *ua.NodeID) int {
	for k := range srv.Nodes {
		if srv.NodeID(k).String() == id.String() {
			return k
		}
	}
	return -1
}

func main() {
	o := h.ParseOpts()
	r := h.NewResult("C28", o)
	d, err := h.StartDriver(o.Driver)
	if err != nil {
		r.InfraError = err.Error()
		r.Write(o.Out)
		return
	}
	defer d.Close()
	e := &env{o, r, d, h.NewRand(o.Seed)}
	r.Rule = "case = one AddMonitorItems / RemoveMonitorItems call or one published notification in a generated history on the real monitor.Subscription against a scripted server (state and delivered node vs the Lean model), or one run of the real monitor against the real gopcua server with 3 concurrent writers and nodes added/removed meanwhile (server enqueue/publish events vs the Lean queue model); every case is non-trivial; distinct by history text"

	if o.Replay != "" {
		var seed uint64
		f := strings.Fields(o.Replay)
		if len(f) >= 2 && f[0] == "handles" {
			fmt.Sscanf(f[1], "seed=%d", &seed)
			e.handleSequence(seed)
		} else if len(f) >= 2 && f[0] == "converge" {
			fmt.Sscanf(f[1], "seed=%d", &seed)
			e.converge(seed, strings.Contains(o.Replay, "chan=true"), strings.Contains(o.Replay, "limited=true"))
		}
		r.Write(o.Out)
		return
	}
	// recorded histories first (regression witness of the repaired C28.shared-params-handle-alias)
	for _, l := range o.CorpusLines() {
		var seed uint64
		if _, err := fmt.Sscanf(l, "handles seed=%d", &seed); err == nil {
			e.handleSequence(seed)
		}
	}
	for i := 0; i < o.N(30, 600) && r.InfraError == ""; i++ {
		e.handleSequence(o.Seed*1000 + uint64(i))
	}
	for i := 0; i < o.N(3, 30) && r.InfraError == ""; i++ {
		e.converge(o.Seed*1000+uint64(i), i%3 == 2, i%3 == 1)
	}
	for _, b := range []string{"op:add", "op:add-shared-params", "op:add-with-failed-item", "op:remove", "op:remove-unknown", "op:recreate",
		"deliver:right-node", "deliver:handle-not-found", "converge:callback-subscribe", "converge:chan-subscribe", "converge:max-notifications-per-publish=2", "converge:last-equals-read"} {
		if r.Distribution[b] == 0 {
			r.Unreached = append(r.Unreached, b)
		}
	}
	r.Write(o.Out)
}
