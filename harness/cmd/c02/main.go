// Correspondence runner and property oracle for C02 (decoding arbitrary bytes is safe).
//
// A case is (target type, byte string). The Lean decoder model predicts the outcome class
// (value / error / panic kind / divergence / call depth exceeded / allocation budget exceeded);
// the real ua.Decode is run in-process (recover, watchdog) when the prediction is harmless and
// in a child process with an address space limit, a small maximum stack and a timeout otherwise.
// Oracle on the implementation alone: Decode returns (value or error) without panic, without
// running into the timeout / stack / memory limits, and allocates at most 64·|b| + 64 MiB.
package main

import (
	"fmt"
	"math/big"
	"strings"
	"time"

	"github.com/gopcua/opcua/ua"

	"verifharness/internal/codecx"
	"verifharness/internal/h"
)

const (
	fuel       = 3000
	modelLimit = 1 << 20  // slice elements: above this the model answers "alloc" and the case goes to a child
	childAS    = 3 << 30  // address space of a child
	memBound   = 64 << 20 // oracle: 64·|b| + 64 MiB

	childTimeout = 5 * time.Second
)

type env struct {
	o         *h.Opts
	r         *h.Result
	d         *h.Driver
	rnd       *h.Rand
	targets   []codecx.Target
	byName    map[string]int
	child     int
	randChild int
	modelHex  string // the input as it was given to the model for the current case
	sigSeen   map[string]int
}

// classify maps a failure of the real decoder to a finding signature: a narrow predicate on the kind of
// failure and on the function the stack trace puts it in ("" = not a known finding).
func classify(res, stack string, ty string, in []byte) string {
	inSplit := strings.Contains(stack, "ua.split(")
	inVariant := strings.Contains(stack, "ua.(*Variant).Decode")
	inSlice := strings.Contains(stack, "ua.decodeSlice")
	switch res {
	case "fail panic-neglen":
		if inVariant && !inSplit {
			return "C02.variant-neg-len"
		}
	case "fail panic-slice", "fail panic-index":
		if inSplit && dimsWrap(ty, in) {
			return "C02.variant-dims-overflow"
		}
	case "fail hang":
		if inSplit && dimsWrap(ty, in) {
			return "C02.variant-dims-overflow"
		}
		if inSplit && dimsDeep(ty, in) {
			return "C02.variant-dims-depth"
		}
		if dimsPrealloc(stack) {
			return "C02.variant-dims-prealloc" // zeroing gigabytes for make([]int32, n) can take longer than the timeout
		}
		if inVariant && strings.Contains(stack, "reflect.MakeSlice") || inVariant && strings.Contains(stack, "decodeValue") {
			return "C02.variant-array-amplification" // 65535 elements per 5 bytes, nested: time as well as memory
		}
	case "fail stack-overflow":
		return "C02.unbounded-nesting"
	case "fail oom", "fail memory":
		switch {
		case inSplit:
			if dimsWrap(ty, in) {
				return "C02.variant-dims-overflow"
			}
			if dimsDeep(ty, in) {
				return "C02.variant-dims-depth"
			}
			return ""
		case inSlice && strings.Contains(stack, "reflect.MakeSlice") && !inVariant:
			return "C02.slice-prealloc"
		case inSlice && strings.Contains(stack, "reflect.MakeSlice") && strings.Index(stack, "ua.decodeSlice") < indexOr(stack, "ua.(*Variant).Decode"):
			return "C02.slice-prealloc"
		case dimsPrealloc(stack):
			return "C02.variant-dims-prealloc"
		case inVariant:
			return "C02.variant-array-amplification"
		}
	}
	return ""
}

// variantDims parses a top-level Variant array of a fixed-width element type with a dimension list (every entry ≥ 1):
// array length, number of dimensions, whether the int32 product equals the length, whether the exact product does.
func variantDims(ty string, b []byte) (alen int32, dl int, wrappedEq, exactEq, ok bool) {
	if ty != "variant" || len(b) < 9 || b[0]&0xc0 != 0xc0 {
		return
	}
	width := map[byte]int{1: 1, 2: 1, 3: 1, 4: 2, 5: 2, 6: 4, 7: 4, 8: 8, 9: 8, 10: 4, 11: 8, 13: 8, 19: 4}[b[0]&0x3f]
	if width == 0 {
		return
	}
	alen = int32(uint32(b[1]) | uint32(b[2])<<8 | uint32(b[3])<<16 | uint32(b[4])<<24)
	p := 5
	if alen > 0 {
		p += int(alen) * width
	}
	if alen > 65535 || len(b) < p+4 {
		return
	}
	u32 := func(i int) uint32 { return uint32(b[i]) | uint32(b[i+1])<<8 | uint32(b[i+2])<<16 | uint32(b[i+3])<<24 }
	dl = int(int32(u32(p)))
	p += 4
	if dl < 2 || dl > 1<<20 || len(b) < p+4*dl {
		return
	}
	wrapped := int32(1)
	exact := new(big.Int).SetInt64(1)
	for i := 0; i < dl; i++ {
		d := int32(u32(p + 4*i))
		if d < 1 {
			return
		}
		wrapped *= d
		if exact.BitLen() < 64 {
			exact.Mul(exact, big.NewInt(int64(d)))
		}
	}
	return alen, dl, wrapped == alen, exact.Cmp(big.NewInt(int64(alen))) == 0, true
}

// dimsWrap: the int32 product of the dimensions equals the array length although the true product differs
// (the defect behind the repaired C02.variant-dims-overflow).
func dimsWrap(ty string, b []byte) bool {
	_, _, w, e, ok := variantDims(ty, b)
	return ok && w && !e
}

// dimsDeep: a consistent dimension list with at least three entries whose length times the array length is large:
// split() builds one row per element on every level (C02.variant-dims-depth).
func dimsDeep(ty string, b []byte) bool {
	alen, dl, _, e, ok := variantDims(ty, b)
	return ok && e && dl >= 3 && int64(dl)*int64(alen) > 1<<20
}

// dimsPrealloc: the innermost library frame is (*Variant).Decode calling runtime.makeslice directly
// (make([]int32, arrayDimensionsLength)), not through reflect.
func dimsPrealloc(stack string) bool {
	i := strings.Index(stack, "github.com/gopcua/opcua/ua.")
	if i < 0 || !strings.HasPrefix(stack[i:], "github.com/gopcua/opcua/ua.(*Variant).Decode") {
		return false
	}
	head := stack[:i]
	if len(head) > 500 {
		head = head[len(head)-500:] // the frames directly above the first library frame
	}
	return strings.Contains(head, "runtime.makeslice") && !strings.Contains(head, "reflect.")
}

func indexOr(s, sub string) int {
	if i := strings.Index(s, sub); i >= 0 {
		return i
	}
	return len(s)
}

func (e *env) target(name string) int {
	i, ok := e.byName[name]
	if !ok {
		panic("unknown target " + name)
	}
	return i
}

// run evaluates one case. family names the generator (distribution only).
func (e *env) run(family string, ti int, in codecx.Input) {
	t := e.targets[ti]
	c := fmt.Sprintf("%s %s", t.Ty, in.String())
	e.r.Hit("family:" + family)
	pred := ""
	if e.d != nil {
		hexIn := in.String()
		if len(in.Prefix) > 0 {
			hexIn = h.Hex(in.Bytes())
		} else if in.Count > 0 {
			// the model stops at its depth budget: a prefix that is deeper than the budget is enough
			n := in.Count
			if n > fuel+10 {
				n = fuel + 10
			}
			hexIn = h.Hex(codecx.Input{Unit: in.Unit, Count: n, Suffix: in.Suffix}.Bytes())
			if in.Count > fuel+10 {
				hexIn = h.Hex(codecx.Input{Unit: in.Unit, Count: n}.Bytes())
			}
		}
		pred = e.d.Ask(fmt.Sprintf("dec %d %d %s %s", fuel, modelLimit, t.Ty, hexIn))
		e.modelHex = hexIn
	}
	risky := pred == "fail diverge" || pred == "fail depth" || pred == "fail alloc" || (e.d == nil && strings.HasPrefix(family, "risky"))
	if risky && !strings.HasPrefix(family, "risky") && family != "corpus" && family != "replay" {
		// randomly generated cases that need a child process: a bounded number per run (each costs up to the timeout)
		if e.randChild >= e.o.N(25, 120) {
			e.r.Hit("skipped:child-budget")
			return
		}
		e.randChild++
	}
	var o codecx.Outcome
	if risky {
		e.child++
		to := childTimeout
		if pred == "fail depth" || in.Count > 100000 {
			to = 60 * time.Second // finite: it either overflows the stack or finishes
		}
		o = codecx.DecodeInChild(ti, in, childAS, to)
		e.r.Hit("ran:child")
	} else {
		b := in.Bytes()
		a0 := codecx.AllocBytes()
		o = codecx.DecodeInProc(b, t.Type)
		o.Alloc = codecx.AllocBytes() - a0
		e.r.Hit("ran:in-process")
		if o.Res == "fail hang" || o.Res == "fail memory" {
			// the watchdog fired although the model expects a prompt return: decide in a child with a long timeout
			// (on a loaded machine a legitimate decode can be slow); the stuck goroutine cannot be stopped
			o2 := codecx.DecodeInChild(ti, in, childAS, 120*time.Second)
			if strings.HasPrefix(o2.Res, "ok ") || o2.Res == "fail err" || strings.HasPrefix(o2.Res, "fail panic") {
				e.r.Hit("slow-in-process-rerun-in-child")
				o = o2
			} else {
				e.judge(c, pred, o2, len(b), family)
				e.r.Notes = append(e.r.Notes, "run stopped early: an in-process Decode did not return: "+trunc(c, 200))
				e.r.Write(e.o.Out)
				panic("stop")
			}
		}
		if o.Alloc > uint64(64*len(b)+memBound) && strings.HasPrefix(o.Res, "fail err") || o.Alloc > uint64(64*len(b)+memBound) && strings.HasPrefix(o.Res, "ok") {
			// too much memory for this input although it returned: get the allocation site from a child with a small limit
			o2 := codecx.DecodeInChild(ti, in, childAS, childTimeout)
			if o2.Res == "fail oom" {
				o.Stack = o2.Stack
			}
			o.Res = "alloc-bound " + o.Res
		}
	}
	e.r.Count(c, !strings.HasPrefix(o.Res, "fail err") || in.Count > 0 || len(in.Suffix) > 4)
	e.judge(c, pred, o, len(in.Bytes()), family)
}

// runService evaluates one ua.DecodeService case (in-process only: inputs the model predicts to be expensive are skipped).
func (e *env) runService(family string, b []byte) {
	c := "service " + h.Hex(b)
	e.r.Hit("family:" + family)
	pred := ""
	if e.d != nil {
		pred = e.d.Ask(fmt.Sprintf("decsvc %d %d %s", fuel, modelLimit, h.Hex(b)))
		if pred == "fail diverge" || pred == "fail depth" || pred == "fail alloc" {
			e.r.Hit("skipped:service-resource")
			return
		}
	}
	o := codecx.DecodeServiceInProc(b)
	e.r.Hit("ran:service")
	if o.Res == "fail hang" || o.Res == "fail memory" {
		// no child mode for services: report and stop (the goroutine cannot be stopped)
		e.r.Fail(trunc(c, 2000), "", "DecodeService did not return: "+o.Res)
		e.r.Notes = append(e.r.Notes, "run stopped early: an in-process DecodeService did not return: "+trunc(c, 200))
		e.r.Write(e.o.Out)
		panic("stop")
	}
	e.r.Count(c, o.Res != "fail err")
	e.judge(c, pred, o, len(b), family)
}

// nodeIDWire is a NodeID with the given encoding byte: the low nibble selects the layout (0..5, otherwise only the
// byte itself), the upper four bits are as given. With exp the ExpandedNodeID tail follows (namespace URI if 0x80,
// server index if 0x40).
func nodeIDWire(enc byte, ns uint16, id uint32, exp bool) []byte {
	b := []byte{enc}
	switch enc & 0xf {
	case 0:
		b = append(b, byte(id))
	case 1:
		b = append(b, byte(ns), byte(id), byte(id>>8))
	case 2:
		b = append(append(b, byte(ns), byte(ns>>8)), le(id)...)
	case 3, 5:
		b = append(append(append(b, byte(ns), byte(ns>>8)), le(2)...), 'a', 'b')
	case 4:
		b = append(append(b, byte(ns), byte(ns>>8)), rep(byte(id), 16)...)
	}
	if exp {
		if enc&0x80 != 0 {
			b = append(append(b, le(1)...), 'u')
		}
		if enc&0x40 != 0 {
			b = append(b, le(7)...)
		}
	}
	return b
}

// nodeIDBits puts every combination of the upper four bits of the NodeID encoding byte (namespace-URI and
// server-index flags and the two reserved bits), with every layout, into every position where a NodeID or
// ExpandedNodeID is decoded: standalone, ExtensionObject type id (registered and unknown, with a body: the registry
// lookup), service type id (ua.DecodeService: the service registry lookup), Variant scalars and arrays of NodeID /
// ExpandedNodeID / ExtensionObject, and DataValue → Variant → ExtensionObject.
func (e *env) nodeIDBits() {
	tN, tE, tX, tV, tD := e.target("*ua.NodeID"), e.target("*ua.ExpandedNodeID"), e.target("*ua.ExtensionObject"), e.target("*ua.Variant"), e.target("*ua.DataValue")
	eoIDs := []uint32{121, 631, 0} // TwoByte-range registered type, FourByte-range registered type, unknown
	numID := func(s string) uint32 {
		var v uint32
		if _, err := fmt.Sscanf(s, "i=%d", &v); err != nil {
			return 0
		}
		return v
	}
	if ts := ua.VerifExtensionObjectTypes(); len(ts) > 0 {
		eoIDs[1] = numID(ts[len(ts)/2].ID)
		for _, t := range ts {
			if v := numID(t.ID); v > 0 && v < 256 {
				eoIDs[0] = v
			}
		}
	}
	svc := ua.VerifServiceTypes()
	svcIDs := []uint32{0}
	if len(svc) > 0 {
		svcIDs = append(svcIDs, numID(svc[0].ID), numID(svc[e.rnd.Intn(len(svc))].ID), numID(svc[e.rnd.Intn(len(svc))].ID))
	}
	body := func(n int) []byte { return append(le(uint32(n)), rep(0, n)...) }
	for hi := 0; hi < 16; hi++ {
		for typ := 0; typ < 8; typ++ {
			enc := byte(hi<<4 | typ)
			if typ == 6 {
				enc = byte(hi<<4 | 0xf)
			}
			e.run("nodeid-bits", tN, codecx.Plain(nodeIDWire(enc, 0, 5, false)))
			e.run("nodeid-bits", tE, codecx.Plain(nodeIDWire(enc, 0, 5, true)))
			e.run("nodeid-bits", tV, codecx.Plain(append([]byte{0x11}, nodeIDWire(enc, 1, 5, false)...)))
			e.run("nodeid-bits", tV, codecx.Plain(append([]byte{0x12}, nodeIDWire(enc, 1, 5, true)...)))
			e.run("nodeid-bits", tV, codecx.Plain(append(append([]byte{0x91}, le(2)...), append(nodeIDWire(enc, 0, 9, false), nodeIDWire(enc, 2, 9, false)...)...)))
			e.run("nodeid-bits", tV, codecx.Plain(append(append([]byte{0x92}, le(2)...), append(nodeIDWire(enc, 0, 9, true), nodeIDWire(enc, 2, 9, true)...)...)))
			for _, ns := range []uint16{0, 1} {
				for _, id := range eoIDs {
					for _, bl := range []int{0, 4, 40} {
						x := append(append(nodeIDWire(enc, ns, id, true), 1), body(bl)...)
						e.run("nodeid-bits", tX, codecx.Plain(x))
						if bl == 4 && ns == 0 {
							e.run("nodeid-bits", tV, codecx.Plain(append([]byte{0x16}, x...)))
							e.run("nodeid-bits", tV, codecx.Plain(append(append([]byte{0x96}, le(2)...), append(append([]byte{}, x...), x...)...)))
							e.run("nodeid-bits", tD, codecx.Plain(append([]byte{0x01, 0x16}, x...)))
						}
					}
					// no body / XML body: no registry lookup
					e.run("nodeid-bits", tX, codecx.Plain(append(nodeIDWire(enc, ns, id, true), 0)))
				}
				for _, id := range svcIDs {
					for _, bl := range []int{0, 24, 200} {
						e.runService("nodeid-bits", append(nodeIDWire(enc, ns, id, true), rep(0, bl)...))
					}
				}
			}
		}
	}
}

func trunc(s string, n int) string {
	if len(s) > n {
		return s[:n] + "…"
	}
	return s
}

func (e *env) judge(c, pred string, o codecx.Outcome, inLen int, family string) {
	res := o.Res
	e.r.Hit("impl:" + strings.SplitN(strings.TrimPrefix(strings.TrimPrefix(res, "alloc-bound "), "fail "), " ", 2)[0])
	// ---- model vs implementation
	if pred != "" {
		e.r.Hit("model:" + strings.SplitN(strings.TrimPrefix(pred, "fail "), " ", 2)[0])
		agree := false
		plain := strings.TrimPrefix(res, "alloc-bound ")
		switch pred {
		case "fail diverge":
			agree = res == "fail hang" || res == "fail oom"
		case "fail depth":
			agree = res == "fail stack-overflow"
		case "fail alloc":
			if res == "fail oom" || res == "fail hang" {
				agree = true
			} else if !strings.Contains(c, "rep:") && len(c) < 100000 {
				// the child had enough memory: it must then agree with the model without a budget
				ty, hx := splitCase(c)
				agree = e.d.Ask(fmt.Sprintf("dec %d - %s %s", fuel, ty, hx)) == plain
			} else {
				agree = true
			}
		default:
			agree = pred == plain
		}
		if !agree {
			e.r.Disagree("dec "+trunc(c, 3000), pred, trunc(res, 600))
		}
	}
	e.r.Sample(fmt.Sprintf("%s -> %s", trunc(c, 160), trunc(res, 120)))
	// ---- the property's own oracle, on the implementation alone
	ok := strings.HasPrefix(res, "ok ") || res == "fail err"
	if ok {
		return
	}
	ty, hx := splitCase(c)
	var raw []byte
	if in, err := codecx.ParseInput(hx); err == nil && (in.Count == 0 || len(in.Prefix) > 0) {
		raw = in.Bytes()
	}
	sig := e.signature(res, pred, o.Stack, ty, raw)
	detail := fmt.Sprintf("Decode of %d bytes: %s", inLen, trunc(res, 200))
	if strings.HasPrefix(res, "alloc-bound") {
		detail = fmt.Sprintf("Decode of %d bytes allocated %d bytes (bound 64·|b| + 64 MiB)", inLen, o.Alloc)
	}
	if sig != "" {
		e.r.Confirm(sig, trunc(c, 200)+": "+detail)
		// at most three recorded failures per known signature: they must not crowd out an unclassified one (the result keeps 50)
		e.sigSeen[sig]++
		if e.sigSeen[sig] > 3 {
			e.r.Hit("oracle-fail:" + sig)
			return
		}
	}
	e.r.Fail(trunc(c, 2000), sig, detail)
}

// signature classifies a failure of the real decoder. Resource failures (out of memory, allocation bound, timeout —
// which of them a huge allocation ends in depends on the load of the machine) are classified by what the MODEL says
// about the input: it predicts that the allocation budget is exceeded and names the allocation site whose requests
// alone exceed it, or it predicts that the call depth is exceeded. A resource failure on an input for which the
// model predicts a cheap decode stays unclassified (a new hang / leak), and so do panics and wrong values that do not
// match a panic signature. Without a model (oracle-only mode) the stack trace decides.
func (e *env) signature(res, pred, stack, ty string, raw []byte) string {
	resource := res == "fail oom" || res == "fail hang" || res == "fail memory" || strings.HasPrefix(res, "alloc-bound")
	if !resource && res != "fail stack-overflow" {
		return classify(res, stack, ty, raw) // panics
	}
	if e.d == nil {
		if strings.HasPrefix(res, "alloc-bound") {
			return classify("fail oom", stack, ty, raw)
		}
		return classify(res, stack, ty, raw)
	}
	if pred == "fail depth" {
		return "C02.unbounded-nesting" // stack overflow, or not even that far within the timeout
	}
	if res == "fail stack-overflow" {
		return ""
	}
	limit := modelLimit
	if pred != "fail alloc" {
		if !strings.HasPrefix(res, "alloc-bound") {
			return "" // the model expects a cheap decode: a genuinely new hang / memory problem
		}
		limit = 1 << 16 // in-process allocation above 64·|b| + 64 MiB although below the child threshold
	}
	switch e.d.Ask(fmt.Sprintf("allocsite %d %d %s %s", fuel, limit, ty, e.modelHex)) {
	case "slice":
		return "C02.slice-prealloc"
	case "vararray":
		return "C02.variant-array-amplification"
	case "split":
		return "C02.variant-dims-depth"
	case "dims":
		return "C02.variant-dims-prealloc"
	case "mixed":
		if strings.HasPrefix(res, "alloc-bound") {
			return classify("fail oom", stack, ty, raw)
		}
		return classify(res, stack, ty, raw)
	}
	return ""
}

func splitCase(c string) (ty, hx string) {
	i := strings.LastIndex(c, " ")
	return c[:i], c[i+1:]
}

func le(v uint32) []byte { return []byte{byte(v), byte(v >> 8), byte(v >> 16), byte(v >> 24)} }

func make1(n int) []uint32 {
	out := make([]uint32, n)
	for i := range out {
		out[i] = 1
	}
	return out
}

func rep(b byte, n int) []byte {
	out := make([]byte, n)
	for i := range out {
		out[i] = b
	}
	return out
}

// witnesses of the recorded findings and neighbours of them
func (e *env) directed() {
	v := e.target("*ua.Variant")
	un := func(s string) codecx.Input { in, _ := codecx.ParseInput(s); return in }
	// negative array length
	e.run("neg-len", v, un("86feffffff"))
	for _, m := range []byte{0x81, 0x8c, 0x98, 0xc6, 0x97} {
		for _, n := range []uint32{0xfffffffe, 0x80000000, 0xfffffff0, 0xffff0000} {
			e.run("neg-len", v, codecx.Plain(codecx.VariantHeader(m, n, nil, nil, false)))
		}
	}
	// dimension products that wrap around in int32
	e.run("risky:dims-wrap", v, un("c60100000007000000020000008"+"13d660081020000"))
	e.run("dims-wrap", v, un("c30b0000000102030405060708090a0b020000000300000059555555"))
	ns := []uint32{12}
	if e.o.Thorough() {
		ns = []uint32{1, 2, 3, 4, 5, 7, 11, 12, 30, 200, 65535}
	}
	for _, n := range ns {
		for k, dims := range codecx.WrapDims(e.rnd, n) {
			if k < e.o.N(2, 8) {
				e.run("risky:dims-wrap", v, codecx.Plain(codecx.VariantHeader(0xc3, n, rep(7, int(n)), dims, true)))
			}
		}
	}
	// empty array with huge dimensions whose product wraps to 0: split's else-branch
	e.run("risky:dims-wrap", v, codecx.Plain(codecx.VariantHeader(0xc6, 0, nil, []uint32{65536, 65536, 65536, 1}, true)))
	e.run("dims-wrap", v, codecx.Plain(codecx.VariantHeader(0xc6, 0, nil, []uint32{65536, 65536}, true)))
	// nil array with dimensions whose product wraps to -1
	e.run("dims-wrap", v, codecx.Plain(codecx.VariantHeader(0xc6, 0xffffffff, nil, []uint32{3, 5, 17, 257, 65537}, true)))
	// pre-allocation from a length prefix
	e.run("risky:prealloc", e.target("*[]*ua.ReadValueID"), un("ffffff7f"))
	if e.o.Thorough() {
		e.run("risky:prealloc", e.target("*[]string"), un("ffffff7f"))
		e.run("risky:prealloc", e.target("*[]*ua.Variant"), un("0000004001"))
	}
	e.run("risky:prealloc", v, un("c600000000ffffff7f"))
	e.run("prealloc", e.target("*[]uint32"), un("00001000"))
	e.run("prealloc", e.target("*[]uint32"), un("ffff0000"))
	// hostile length prefixes on strings, byte strings and slices (all are plain errors on the unchanged tree)
	for _, n := range []uint32{0x40000000, 0x7fffffff, 0x80000000, 0xfffffffe, 0xfffffff0, 0x00ffffff} {
		l := le(n)
		e.run("length-prefix", e.target("*string"), codecx.Plain(l))
		e.run("length-prefix", e.target("*[]uint8"), codecx.Plain(l))
		e.run("length-prefix", e.target("*[]uint32"), codecx.Plain(append(append([]byte{}, l...), 1, 2, 3, 4)))
		e.run("length-prefix", v, codecx.Plain(append([]byte{0x0c}, l...)))
		e.run("length-prefix", v, codecx.Plain(append([]byte{0x0f}, l...)))
		e.run("length-prefix", v, codecx.Plain(append([]byte{0x10}, l...)))
		e.run("length-prefix", e.target("*ua.NodeID"), codecx.Plain(append([]byte{0x03, 0, 0}, l...)))
		e.run("length-prefix", e.target("*ua.NodeID"), codecx.Plain(append([]byte{0x05, 1, 0}, l...)))
		e.run("length-prefix", e.target("*ua.LocalizedText"), codecx.Plain(append([]byte{0x03}, l...)))
		e.run("length-prefix", e.target("*ua.QualifiedName"), codecx.Plain(append([]byte{0, 0}, l...)))
		e.run("length-prefix", e.target("*ua.DiagnosticInfo"), codecx.Plain(append([]byte{0x10}, l...)))
		e.run("length-prefix", e.target("*ua.ExpandedNodeID"), codecx.Plain(append([]byte{0x80, 7}, l...)))
		e.run("length-prefix", e.target("*ua.ExtensionObject"), codecx.Plain(append([]byte{0x00, 0x00, 0x01}, l...)))
	}
	// nil arrays (length -1) with dimension lists: rejected because no product of dimensions ≥ 1 equals -1 without wrapping
	for _, dims := range [][]uint32{{1000000, 1}, {0x7fffffff, 0x7fffffff, 0x7fffffff}, {2, 3}, {1}, {5, 1, 1}} {
		e.run("nil-array-dims", v, codecx.Plain(codecx.VariantHeader(0xc6, 0xffffffff, nil, dims, true)))
	}
	// a consistent dimension list [n, 1, …, 1]: split() builds n rows on each of the k levels (quadratic)
	{
		// few elements, many dimensions: the model's cost per row is proportional to the number of elements, the
		// real decoder's to elements x dimensions (9 million rows: far beyond the child's timeout)
		n, k := 450, 30000
		head := codecx.VariantHeader(0xc3, uint32(n), rep(7, n), []uint32{uint32(n)}, true)
		head[5+n] = byte(k) // dimensions length k (little endian) instead of 1
		head[6+n] = byte(k >> 8)
		head[7+n] = byte(k >> 16)
		e.run("risky:dims-depth", v, codecx.Input{Prefix: head, Unit: []byte{1, 0, 0, 0}, Count: k - 1})
		e.run("dims-depth", v, codecx.Plain(codecx.VariantHeader(0xc3, 3, rep(7, 3), []uint32{3, 1, 1, 1}, true)))
		e.run("dims-depth", v, codecx.Plain(codecx.VariantHeader(0xc3, 24, rep(7, 24), append([]uint32{24}, make1(23)...), true)))
	}
	// Variant arrays: 65535 elements per 5 bytes, nested
	e.run("amplification", v, un("98ffff000098ffff0000"))
	e.run("risky:amplification", v, codecx.Input{Unit: []byte{0x98, 0xff, 0xff, 0, 0}, Count: 2500})
	// unbounded nesting
	for _, n := range []int{1, 10, 200} {
		e.run("nesting", v, codecx.Input{Unit: []byte{0x18}, Count: n, Suffix: []byte{0x01, 0x01}})
		e.run("nesting", e.target("*ua.DiagnosticInfo"), codecx.Input{Unit: []byte{0x40}, Count: n, Suffix: []byte{0x00}})
		e.run("nesting", e.target("*ua.DataValue"), codecx.Input{Unit: []byte{0x01, 0x17}, Count: n, Suffix: []byte{0x00}})
	}
	e.run("risky:nesting", v, codecx.Input{Unit: []byte{0x18}, Count: 800000})
	if e.o.Thorough() {
		e.run("risky:nesting", e.target("*ua.DiagnosticInfo"), codecx.Input{Unit: []byte{0x40}, Count: 800000})
		e.run("risky:nesting", e.target("*ua.DataValue"), codecx.Input{Unit: []byte{0x01, 0x17}, Count: 400000})
	}
}

// hostile Variant headers: every type id x array flags x hostile lengths
func (e *env) variantGrid() {
	v := e.target("*ua.Variant")
	n := e.o.N(600, 8000)
	for i := 0; i < n; i++ {
		mask := byte(e.rnd.Intn(64))
		if e.rnd.Chance(85) {
			mask = byte(e.rnd.Intn(26))
		}
		mask |= byte(e.rnd.Intn(4)) << 6
		alen := codecx.Hostile[e.rnd.Intn(len(codecx.Hostile))]
		if e.rnd.Chance(50) {
			alen = uint32(e.rnd.Intn(6))
		}
		if alen >= 0x10000 && alen < 0x80000000 && alen != 0x7fffffff && alen != 0x40000000 {
			alen = 3
		}
		elems := e.rnd.Bytes(e.rnd.Intn(40))
		var dims []uint32
		for k := e.rnd.Intn(4); k > 0; k-- {
			d := uint32(e.rnd.Intn(5))
			if e.rnd.Chance(10) {
				d = codecx.Hostile[e.rnd.Intn(len(codecx.Hostile))]
			}
			dims = append(dims, d)
		}
		b := codecx.VariantHeader(mask, alen, elems, dims, e.rnd.Bool())
		if mask&0x80 == 0 {
			b = append([]byte{mask}, elems...)
		}
		e.run("variant-grid", v, codecx.Plain(b))
	}
}

// mutations of valid encodings of every kind of type
func (e *env) mutations(g *codecx.Gen) {
	n := e.o.N(3000, 40000)
	for i := 0; i < n; i++ {
		ti := e.rnd.Intn(len(e.targets))
		if e.rnd.Chance(40) {
			ti = e.rnd.Intn(18)
		}
		t := e.targets[ti]
		val := g.Value(t.Type, 0)
		if val.IsNil() {
			continue
		}
		b, err := encodeQuiet(val.Interface())
		if err != nil {
			continue
		}
		if e.rnd.Chance(8) {
			e.run("valid", ti, codecx.Plain(b))
			continue
		}
		e.run("mutation", ti, codecx.Plain(codecx.Mutate(e.rnd, b)))
	}
}

func encodeQuiet(v interface{}) (b []byte, err error) {
	defer func() {
		if e := recover(); e != nil {
			err = fmt.Errorf("panic")
		}
	}()
	return ua.Encode(v)
}

// short random byte strings against the hand-written codecs
func (e *env) random() {
	n := e.o.N(3000, 40000)
	for i := 0; i < n; i++ {
		ti := e.rnd.Intn(9)
		b := e.rnd.Bytes(e.rnd.Intn(14))
		if len(b) > 0 && e.rnd.Chance(50) {
			b[0] = byte(e.rnd.Intn(32))
		}
		e.run("random", ti, codecx.Plain(b))
	}
}

func (e *env) corpus() {
	for _, l := range e.o.CorpusLines() {
		l = strings.TrimPrefix(l, "dec ")
		ty, hx := splitCase(l)
		for i, t := range e.targets {
			if t.Ty == ty {
				in, err := codecx.ParseInput(hx)
				if err == nil {
					e.run("corpus", i, in)
				}
			}
		}
	}
}

func main() {
	codecx.ChildMain()
	o := h.ParseOpts()
	r := h.NewResult("C02", o)
	d, err := h.StartDriver(o.Driver)
	if err != nil {
		r.InfraError = err.Error()
		r.Write(o.Out)
		return
	}
	defer d.Close()
	rnd := h.NewRand(o.Seed)
	e := &env{o: o, r: r, d: d, rnd: rnd, targets: codecx.Targets(), byName: map[string]int{}, sigSeen: map[string]int{}}
	for i, t := range e.targets {
		e.byName[t.Name] = i
	}
	g := &codecx.Gen{R: rnd, Reg: codecx.RegisteredTypes(), MaxDepth: 2, EmptyBodies: true}
	r.Rule = "case = (target type, byte string): outcome class of the real ua.Decode (in-process, or in a limited child process when the model predicts divergence / deep nesting / huge allocation) vs the Lean decoder model, value compared on success; non-trivial = anything but an immediate error on a short input; distinct by (type, bytes)"
	defer func() {
		if x := recover(); x != nil && fmt.Sprint(x) != "stop" {
			panic(x)
		}
	}()
	if o.Replay != "" {
		ty, hx := splitCase(strings.TrimPrefix(o.Replay, "dec "))
		if ty == "service" {
			if in, err := codecx.ParseInput(hx); err == nil {
				e.runService("replay", in.Bytes())
			}
		}
		for i, t := range e.targets {
			if t.Ty == ty {
				in, _ := codecx.ParseInput(hx)
				e.run("replay", i, in)
			}
		}
		r.Write(o.Out)
		return
	}
	t0 := time.Now()
	phase := func(name string, f func()) {
		f()
		r.Notes = append(r.Notes, fmt.Sprintf("phase %s done at %.1fs", name, time.Since(t0).Seconds()))
	}
	phase("corpus", e.corpus)
	phase("directed", e.directed)
	phase("nodeid-bits", e.nodeIDBits)
	phase("variant-grid", e.variantGrid)
	phase("mutations", func() { e.mutations(g) })
	phase("random", e.random)
	r.Notes = append(r.Notes, fmt.Sprintf("%d cases ran in a child process (address space %d MiB, max stack 16 MiB, resident set 200 MiB, timeout 5 s)", e.child, childAS>>20))
	r.Write(o.Out)
}
