// Correspondence runner and property oracle for C01 (binary codec round trip).
//
// Every case is a Go value v of a protocol type T.  On the implementation:
// b = ua.Encode(v), v' = ua.Decode(b).  The same request lines go to the Lean
// driver (encode / decode of the model) and the answers are compared.  The
// property's own oracle, evaluated on the implementation alone: Encode
// succeeds, Decode succeeds, consumes exactly len(b) bytes and v' equals v up
// to the documented normalisations (codecx.PrintNorm).
package main

import (
	"fmt"
	"os"
	"reflect"
	"strings"
	"time"

	"github.com/gopcua/opcua/ua"

	"verifharness/internal/codecx"
	"verifharness/internal/h"
)

const fuel = 400

type env struct {
	o   *h.Opts
	r   *h.Result
	d   *h.Driver
	rnd *h.Rand
	g   *codecx.Gen

	sigSeen map[string]int
}

// outcome of the implementation in the driver's vocabulary
func implEncode(v interface{}) (b []byte, res string) {
	res, msg := h.CatchMsg(func() string {
		var err error
		b, err = ua.Encode(v)
		if err != nil {
			return "fail err"
		}
		return "ok " + h.Hex(b)
	})
	if res == "panic" {
		res = "fail " + panicKind(msg)
	}
	return b, res
}

func panicKind(msg string) string {
	switch {
	case strings.Contains(msg, "reflect.Value.Type on zero Value"), strings.Contains(msg, "reflect.Value.Interface on zero Value"),
		strings.Contains(msg, "call of reflect.Value.Interface on zero Value"):
		return "panic-nilvalue"
	case strings.Contains(msg, "nil pointer dereference"):
		return "panic-nilptr"
	case strings.Contains(msg, "negative len"):
		return "panic-neglen"
	case strings.Contains(msg, "slice index out of bounds"), strings.Contains(msg, "slice bounds out of range"):
		return "panic-slice"
	case strings.Contains(msg, "index out of range"):
		return "panic-index"
	}
	return "panic-other:" + strings.ReplaceAll(msg, " ", "_")
}

func implDecode(b []byte, t reflect.Type) (out reflect.Value, n int, res string) {
	if b == nil {
		b = []byte{}
	}
	out = reflect.New(t.Elem())
	var msg string
	// the bytes come from the (possibly changed) encoder: a decoder that hangs or eats memory on them must not take the run down
	if g := codecx.Guard(180*time.Second, 6<<30, func() {
		res, msg = h.CatchMsg(func() string {
			var err error
			n, err = ua.Decode(b, out.Interface())
			if err != nil {
				return "fail err"
			}
			return fmt.Sprintf("ok %d %s", n, codecx.Print(out.Interface()))
		})
	}); g != "" {
		return out, 0, "fail " + g
	}
	if res == "panic" {
		res = "fail " + panicKind(msg)
	}
	return out, n, res
}

// roundTrip runs one case. t is a pointer type, v a value of that type.
// sig is the finding signature the case matches ("" = none).
func (e *env) roundTrip(stream string, t reflect.Type, v reflect.Value, sig string) {
	ty := codecx.TyExpr(t)
	text := codecx.Print(v.Interface())
	canon := ty + " " + text
	e.r.Hit("stream:" + stream)
	b, encRes := implEncode(v.Interface())
	e.r.Count(canon, len(b) > 1)
	if sig == "" {
		// the case lies in the domain of the round-trip theorem, and the model's normal form is the harness's
		e.r.Compare(e.d, fmt.Sprintf("wt %d %s %s", fuel, ty, text), "true")
		e.r.Compare(e.d, fmt.Sprintf("norm %d %s %s", fuel, ty, text), codecx.PrintNorm(v.Interface()))
	} else {
		e.r.Compare(e.d, fmt.Sprintf("wt %d %s %s", fuel, ty, text), "false")
	}
	e.r.Compare(e.d, fmt.Sprintf("enc %d %s %s", fuel, ty, text), encRes)
	if !strings.HasPrefix(encRes, "ok") {
		e.fail(canon, sig, "Encode: "+encRes)
		return
	}
	out, n, decRes := implDecode(b, t)
	e.r.Compare(e.d, fmt.Sprintf("dec %d - %s %s", fuel, ty, h.Hex(b)), decRes)
	e.r.Sample(fmt.Sprintf("%s -> %s -> %s", trunc(canon, 150), trunc(h.Hex(b), 60), trunc(decRes, 100)))
	// ---- the property's own oracle, on the implementation alone
	if !strings.HasPrefix(decRes, "ok") {
		e.fail(canon, sig, fmt.Sprintf("Encode gave %s but Decode: %s", trunc(h.Hex(b), 400), decRes))
		if decRes == "fail hang" || decRes == "fail memory" {
			// the decoder goroutine is still running: report what we have and stop
			e.r.Notes = append(e.r.Notes, "run stopped early: Decode of an encoder output did not return ("+decRes+")")
			e.r.Write(e.o.Out)
			os.Exit(0)
		}
		return
	}
	if n != len(b) {
		e.fail(canon, sig, fmt.Sprintf("Decode consumed %d of %d encoded bytes", n, len(b)))
		return
	}
	want := codecx.PrintNorm(v.Interface())
	got := codecx.Print(out.Interface())
	if want != got {
		e.fail(canon, sig, "round trip changed the value: "+firstDiff(want, got))
		return
	}
	if sig != "" {
		e.r.Hit("finding-shape-but-ok:" + sig)
	}
}

// fail records an oracle failure. The result keeps at most 50 of them: failures that match a known signature are
// recorded three times per signature (and counted), so that they cannot crowd out an unclassified one.
func (e *env) fail(c, sig, detail string) {
	if sig != "" {
		e.r.Confirm(sig, trunc(c, 300)+": "+detail)
		e.sigSeen[sig]++
		if e.sigSeen[sig] > 3 {
			e.r.Hit("oracle-fail:" + sig)
			return
		}
	}
	e.r.Fail(trunc(c, 2000), sig, detail)
}

// firstDiff shows the surroundings of the first difference of two value texts.
func firstDiff(want, got string) string {
	i := 0
	for i < len(want) && i < len(got) && want[i] == got[i] {
		i++
	}
	a := i - 60
	if a < 0 {
		a = 0
	}
	return fmt.Sprintf("at offset %d: want …%s got …%s", i, trunc(want[a:], 160), trunc(got[a:], 160))
}

func trunc(s string, n int) string {
	if len(s) > n {
		return s[:n] + "…"
	}
	return s
}

// types outside the registries that exercise the generic walk (slices of slices, pointers to scalars, nested structs)
type inner struct {
	A uint16
	B []string
	C *ua.NodeID
}
type generic2 struct {
	U8   uint8
	I64  int64
	F    float32
	PS   *uint32
	SS   [][]string
	BB   [][]byte
	In   inner
	PIn  *inner
	SIn  []inner
	SPIn []*inner
	E    []*ua.ExtensionObject
	V    []*ua.Variant
	D    []*ua.DataValue
	Z    []struct{}
}

// ---- finding signatures: narrow, decidable predicates on the failing case (a top-level Variant or ExtensionObject)

func countLeaves(v reflect.Value) int {
	if v.Kind() == reflect.Slice && v.Type() != reflect.TypeOf([]byte{}) {
		n := 0
		for i := 0; i < v.Len(); i++ {
			n += countLeaves(v.Index(i))
		}
		return n
	}
	return 1
}

func classify(x interface{}) string {
	switch v := x.(type) {
	case *ua.Variant:
		if v == nil {
			return ""
		}
		mask, alen, _, dims, value := ua.VerifVariantFields(v)
		isArr := mask&ua.VariantArrayValues != 0
		if isArr && alen < -1 {
			return "C01.variant-nil-inner-slice"
		}
		if len(dims) >= 2 {
			for _, d := range dims {
				if d == 0 {
					return "C01.variant-zero-dim"
				}
			}
		}
		if value == nil {
			return ""
		}
		rv := reflect.ValueOf(value)
		base, depth := codecx.VTag(rv.Type())
		if _ = base; isArr && depth >= 2 && rv.Len() == 0 && !rv.IsNil() && int(mask&0x3f) == int(ua.TypeIDVariant) {
			return "C01.variant-empty-multidim"
		}
		if isArr && len(dims) >= 2 && int(alen) != countLeaves(rv) {
			return "C01.variant-ragged"
		}
	case *ua.ExtensionObject:
		if v == nil || v.Value == nil || v.EncodingMask == ua.ExtensionObjectEmpty || v.EncodingMask == ua.ExtensionObjectXML {
			return ""
		}
		if codecx.CanEncodeEmpty(reflect.TypeOf(v.Value)) {
			return "C01.extobj-empty-body"
		}
	}
	return ""
}

// newVariant builds a Variant with the real constructor and compares fields and outcome with the model's newVariant.
func (e *env) newVariant(x interface{}) *ua.Variant {
	v, err := ua.NewVariant(x)
	base, depth, text := codecx.PrintVariantInput(x)
	impl := "fail err"
	if err == nil {
		impl = "ok " + codecx.Print(v)
	}
	e.r.Compare(e.d, fmt.Sprintf("newvar %d %d %s", base, depth, text), impl)
	if err != nil {
		return nil
	}
	return v
}

// findings replays the witnesses of the recorded findings and generates more cases of the same shapes.
func (e *env) findings() {
	tv := reflect.TypeOf((*ua.Variant)(nil))
	run := func(x interface{}) {
		v := e.newVariant(x)
		if v == nil {
			e.r.Hit("finding-stream:NewVariant-refused")
			return
		}
		e.roundTrip("findings", tv, reflect.ValueOf(v), classify(v))
	}
	// witnesses
	run([][]int32{{}, {}})
	run([][]int32{})
	run([][]byte{{1}, {2}})
	run([][][]int32{{{1}, {2}}, {{3, 4}, {5, 6}}})
	run([][]int32{nil, nil})
	run([][][]string{{nil}, {nil}})
	// arrays of ByteString (repaired: used to be encoded without their elements / refused for different lengths)
	run([][]byte{{1}, {2, 3}})
	run([][][]byte{{{1}, {}}, {nil, {2, 3}}})
	n := e.o.N(40, 2000)
	for i := 0; i < n; i++ {
		id := 1 + e.rnd.Intn(25)
		switch e.rnd.Intn(4) {
		case 0: // zero-length dimensions, empty multi-dimensional arrays
			sh := e.g.Shape(true)
			if e.rnd.Chance(30) {
				sh = codecx.VariantShape{Kind: "array", Dims: []int{0, 1 + e.rnd.Intn(2)}}
			}
			run(e.g.VariantOf(id, sh, 2))
		case 1: // arrays of ByteString
			k := 1 + e.rnd.Intn(3)
			bs := make([][]byte, k)
			for j := range bs {
				bs[j] = e.rnd.Bytes(2)
			}
			run(bs)
		case 2: // ragged 3-D arrays whose first rows are balanced
			a, b := 1+e.rnd.Intn(2), 2+e.rnd.Intn(2)
			x := make([][][]int32, 2)
			for r := range x {
				x[r] = make([][]int32, b)
				for c := range x[r] {
					x[r][c] = make([]int32, a+r)
				}
			}
			run(x)
		default: // extension objects whose value has no encoded bytes
			var reg codecx.Registered
			for {
				reg = e.g.Reg[e.rnd.Intn(len(e.g.Reg))]
				if codecx.CanEncodeEmpty(reg.Type) {
					break
				}
			}
			eo := ua.NewExtensionObject(reflect.New(reg.Type.Elem()).Interface())
			e.roundTrip("findings", reflect.TypeOf(eo), reflect.ValueOf(eo), classify(eo))
		}
	}
}

// encodeOnly compares the encoder on values outside the domain of the round-trip theorem (nil pointers,
// inconsistent masks): bytes, error or panic kind, model vs implementation. No oracle: the property does not
// quantify over these values; the theorems C01_nil_pointer_encodes_nothing / C01_nil_custom_pointer describe them.
func (e *env) encodeOnly(stream string, v interface{}) {
	t := reflect.TypeOf(v)
	ty := codecx.TyExpr(t)
	text := codecx.Print(v)
	e.r.Hit("stream:" + stream)
	_, encRes := implEncode(v)
	e.r.Count("enc "+ty+" "+text, true)
	if strings.HasPrefix(encRes, "ok") {
		e.r.Hit("ill-formed-encode:ok")
	} else {
		e.r.Hit("ill-formed-encode:" + encRes)
	}
	e.r.Compare(e.d, fmt.Sprintf("enc %d %s %s", fuel, ty, text), encRes)
}

func (e *env) illFormed() {
	// the zero value of every registered struct: every pointer nil, every slice nil
	for _, reg := range e.g.Reg {
		e.encodeOnly("zero-struct", reflect.New(reg.Type.Elem()).Interface())
	}
	g := ua.NewGUIDNodeID(1, "72962B91-FA75-4AE6-8D28-B404DC7DAF63")
	_, _, _, _, gid := ua.VerifNodeIDFields(g)
	for _, v := range []interface{}{
		&ua.DataValue{EncodingMask: 1},                                                 // value bit, nil Variant
		&ua.DataValue{EncodingMask: 0, Value: ua.MustVariant(int32(5))},                // Variant without the bit
		&ua.DiagnosticInfo{EncodingMask: 0x40},                                         // inner bit, nil inner
		&ua.DiagnosticInfo{EncodingMask: 0, InnerDiagnosticInfo: &ua.DiagnosticInfo{}}, // inner without the bit
		&ua.ExtensionObject{EncodingMask: 1},                                           // nil TypeID
		&ua.ExtensionObject{EncodingMask: 1, TypeID: ua.NewTwoByteExpandedNodeID(0)},   // nil Value, non-zero mask
		&ua.ExtensionObject{EncodingMask: 1, TypeID: ua.NewFourByteExpandedNodeID(0, 631), Value: (*ua.ReadValueID)(nil)},
		&ua.ExpandedNodeID{},                                  // nil NodeID
		ua.VerifRawNodeID(4, 1, 0, nil, nil),                  // GUID type without a GUID
		ua.VerifRawNodeID(0, 7, 300, []byte{1}, gid),          // two-byte id with everything set
		ua.VerifRawNodeID(9, 0, 0, nil, nil),                  // invalid type
		ua.VerifRawVariant(6, 0, 0, nil, nil),                 // type Int32, nil value
		ua.VerifRawVariant(0x46, 0, 3, []int32{1}, int32(7)),  // dimensions bit, length 3, one entry
		ua.VerifRawVariant(0x86, 2, 0, nil, []int32{1, 2, 3}), // length field differs from the value
		ua.VerifRawVariant(22, 0, 0, nil, (*ua.ExtensionObject)(nil)),
		ua.VerifRawVariant(17, 0, 0, nil, (*ua.NodeID)(nil)),
		ua.VerifRawVariant(18, 0, 0, nil, (*ua.ExpandedNodeID)(nil)),
		ua.VerifRawVariant(20, 0, 0, nil, (*ua.QualifiedName)(nil)),
		ua.VerifRawVariant(0x91, 2, 0, nil, []*ua.NodeID{ua.NewTwoByteNodeID(1), nil}),
		&ua.LocalizedText{EncodingMask: 0, Locale: "en", Text: "dropped"},
		&ua.ReadValueID{},
		&ua.ReadRequest{NodesToRead: []*ua.ReadValueID{nil}},
	} {
		e.encodeOnly("ill-formed", v)
	}
}

func (e *env) registered() {
	per := e.o.N(3, 60)
	for _, reg := range e.g.Reg {
		for i := 0; i < per; i++ {
			v := e.g.Value(reg.Type, 0)
			e.roundTrip("registered", reg.Type, v, "")
		}
		e.r.Hit("registered-type")
	}
}

func (e *env) builtins() {
	n := e.o.N(250, 3000)
	ts := []reflect.Type{
		reflect.TypeOf((*ua.Variant)(nil)), reflect.TypeOf((*ua.DataValue)(nil)), reflect.TypeOf((*ua.DiagnosticInfo)(nil)),
		reflect.TypeOf((*ua.NodeID)(nil)), reflect.TypeOf((*ua.ExpandedNodeID)(nil)), reflect.TypeOf((*ua.LocalizedText)(nil)),
		reflect.TypeOf((*ua.GUID)(nil)), reflect.TypeOf((*ua.ExtensionObject)(nil)), reflect.TypeOf((*ua.QualifiedName)(nil)),
		reflect.TypeOf((*generic2)(nil)), reflect.TypeOf((*[]uint16)(nil)), reflect.TypeOf((*string)(nil)), reflect.TypeOf((*float64)(nil)),
		reflect.TypeOf((*[]ua.XMLElement)(nil)),
	}
	for _, t := range ts {
		for i := 0; i < n; i++ {
			v := e.g.Value(t, 0)
			if v.Kind() == reflect.Ptr && v.IsNil() {
				continue // top-level nil *ExtensionObject: nothing to decode into
			}
			e.roundTrip("builtin:"+codecx.TyExpr(t), t, v, "")
		}
	}
	// every Variant type id x every shape
	for id := 0; id <= 25; id++ {
		for k := 0; k < e.o.N(12, 200); k++ {
			sh := e.g.Shape(false)
			x := e.g.VariantOf(id, sh, 1)
			v := e.newVariant(x)
			if v == nil {
				e.r.InfraError = "NewVariant refused a generated value"
				return
			}
			e.r.Hit(fmt.Sprintf("variant-id:%d", id))
			e.r.Hit(fmt.Sprintf("variant-shape:%s/%d", sh.Kind, len(sh.Dims)))
			e.roundTrip("variant-grid", reflect.TypeOf(v), reflect.ValueOf(v), "")
		}
	}
}

func main() {
	o := h.ParseOpts()
	r := h.NewResult("C01", o)
	d, err := h.StartDriver(o.Driver)
	if err != nil {
		r.InfraError = err.Error()
		r.Write(o.Out)
		return
	}
	defer d.Close()
	rnd := h.NewRand(o.Seed)
	e := &env{o: o, r: r, d: d, rnd: rnd, sigSeen: map[string]int{}}
	e.g = &codecx.Gen{R: rnd, Reg: codecx.RegisteredTypes(), MaxDepth: 2, Hit: nil}
	r.Rule = "case = (type, value): real ua.Encode / ua.Decode vs the Lean encode / decode on the same value and bytes; non-trivial = the encoding has more than one byte; distinct by (type, canonical value text)"
	e.findings()
	e.illFormed()
	e.registered()
	e.builtins()
	r.Write(o.Out)
}
