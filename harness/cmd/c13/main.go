// Correspondence runner and property oracle for C13 (the channel receive path
// survives any peer byte stream).
//
// Hostile and half-valid frame streams are sent over loopback TCP to real
// secure channels — client and server kind, before and after the channel is
// open, None / Sign / SignAndEncrypt — which run in a worker child process with
// an address-space limit and a deadline.  The Lean model `Raw.runRaw` gets the
// same frames (raw bytes; for secured channels the reference sealer's statement
// what a frame opens to; for OPN frames the verdict of x509/uapolicy on the
// certificate and policy).  Oracle on the implementation: no panic, no crash,
// every stream consumed up to EOF in time, retained chunks bounded.
package main

import (
	"context"
	"crypto/ecdsa"
	"crypto/elliptic"
	"crypto/rand"
	"crypto/rsa"
	"crypto/x509"
	"crypto/x509/pkix"
	"encoding/binary"
	"fmt"
	"io"
	"math/big"
	"strings"
	"time"

	"github.com/gopcua/opcua/ua"
	"github.com/gopcua/opcua/uapolicy"

	"verifharness/internal/h"
)

const (
	sigIDs = "C13.chunks-unbounded-ids"
)

type env struct {
	o       *h.Opts
	r       *h.Result
	d       *h.Driver
	rnd     *h.Rand
	w       *h.RecvWorker
	keyA    *h.KeyPair
	keyB    *h.KeyPair
	ecCert  []byte
	known   map[string]int
	blocked int // streams on which Receive got stuck
}

func (e *env) fail(c, sig, detail string) {
	if sig != "" {
		e.known[sig]++
		if e.known[sig] > 2 {
			e.r.Hit("oracle-fail:" + sig)
			return
		}
	}
	if len(c) > 3000 {
		c = c[:3000] + "…(truncated)"
	}
	e.r.Fail(c, sig, detail)
}

// ---------------------------------------------------------------- cases

type frame struct {
	raw   []byte
	opens []byte // secured channel: the signature verifies, this is the plaintext behind the security header (non-nil)
	cert  string // OPN with a policy other than None: verdict of x509/uapolicy
}

type scase struct {
	setup     string // fresh-server fresh-client open-server open (client) handshake-client
	uri       string
	mode      int
	rcvBuf    uint32
	maxChunks uint32
	maxMsg    uint32
	ackReply  []uint32
	own       uint32 // handshake-client: ReceiveBufSize of the client's own configuration
	frames    []frame
	goods     [][]byte
	ln, rn    []byte
	note      string
}

func (sc *scase) secure() bool  { return sc.mode == 2 || sc.mode == 3 }
func (sc *scase) opening() bool { return sc.setup == "fresh-server" || sc.setup == "open-server" }
func (sc *scase) open() bool    { return sc.setup == "open-server" || sc.setup == "open" }

func b2i(b bool) int {
	if b {
		return 1
	}
	return 0
}

func (e *env) line(sc *scase) string {
	toks := make([]string, len(sc.frames))
	for i, f := range sc.frames {
		t := h.Hex(f.raw)
		if f.opens != nil {
			t += "/o=" + h.Hex(f.opens)
		}
		if f.cert != "" {
			t += "/c=" + f.cert
		}
		toks[i] = t
	}
	chans := "-"
	if sc.open() {
		chans = "11"
	}
	sec := b2i(sc.secure())
	if sc.mode == 3 {
		sec = 2
	}
	return fmt.Sprintf("raw %d %d %d %d %d %s %s", sc.rcvBuf, sc.maxChunks, sc.maxMsg, sec, b2i(sc.opening()), chans, strings.Join(toks, " "))
}

func (e *env) caseText(sc *scase) string {
	return fmt.Sprintf("%s uri=%s mode=%d %s", sc.setup, sc.uri[strings.LastIndex(sc.uri, "#")+1:], sc.mode, e.line(sc))
}

func mkFrame(mt string, ct byte, ch uint32, rest []byte) []byte {
	b := make([]byte, 12, 12+len(rest))
	copy(b, mt)
	b[3] = ct
	binary.LittleEndian.PutUint32(b[8:], ch)
	b = append(b, rest...)
	binary.LittleEndian.PutUint32(b[4:], uint32(len(b)))
	return b
}

func lp(p []byte, null bool) []byte {
	l := make([]byte, 4)
	if null {
		binary.LittleEndian.PutUint32(l, 0xffffffff)
		return l
	}
	binary.LittleEndian.PutUint32(l, uint32(len(p)))
	return append(l, p...)
}

func (e *env) certClass(uri string, cert []byte, localKey *rsa.PrivateKey) string {
	c, err := uapolicy.ParseCertificate(cert)
	if err != nil {
		return "certErr"
	}
	pub, ok := c.PublicKey.(*rsa.PublicKey)
	if !ok {
		return "notRsa"
	}
	if _, err := uapolicy.Asymmetric(uri, localKey, pub); err != nil {
		return "policyErr"
	}
	return "ok"
}

func (e *env) good(sc *scase, n int, req uint32) []byte {
	payload := e.rnd.Bytes(n)
	v := &ua.WriteRequest{
		RequestHeader: &ua.RequestHeader{AuthenticationToken: ua.NewTwoByteNodeID(0), Timestamp: time.Unix(1700000000, 0).UTC(),
			RequestHandle: req, AdditionalHeader: ua.NewExtensionObject(nil)},
		NodesToWrite: []*ua.WriteValue{{NodeID: ua.NewNumericNodeID(2, 1000), AttributeID: ua.AttributeIDValue,
			Value: &ua.DataValue{EncodingMask: ua.DataValueValue, Value: ua.MustVariant(payload)}}},
	}
	tb, _ := ua.Encode(ua.NewFourByteExpandedNodeID(0, ua.ServiceTypeID(v)))
	bb, _ := ua.Encode(v)
	g := append(tb, bb...)
	sc.goods = append(sc.goods, g)
	return g
}

// plainBody: sequence header + payload for an unsecured MSG/OPN chunk
func (e *env) plainBody(sc *scase) []byte {
	var b []byte
	switch e.rnd.Intn(7) {
	case 0: // too short for a sequence header
		return e.rnd.Bytes(e.rnd.Intn(8))
	case 1:
		b = nil
	case 2:
		b = append([]byte{0x0f}, e.rnd.Bytes(e.rnd.Intn(40))...) // not a node id: the decoder refuses at once
	case 3, 4:
		b = e.good(sc, e.rnd.Pick(0, 5, 60), 1)
	case 5:
		b = h.RecvAbortBody(uint32(e.rnd.Pick(0, 0x80010000)), nil)
	default:
		b = e.good(sc, 3, 1)
		b = b[:e.rnd.Intn(len(b))] // truncated well-formed message: decode error
	}
	sh := make([]byte, 8)
	binary.LittleEndian.PutUint32(sh, uint32(e.rnd.Pick(0, 1, 2, 7, 4294967295)))
	binary.LittleEndian.PutUint32(sh[4:], uint32(e.rnd.Pick(1, 1, 2, 3, 0)))
	return append(sh, b...)
}

func (e *env) randomFrame(sc *scase, sealer *h.RecvSealer, seq *uint32) frame {
	ch := uint32(e.rnd.Pick(11, 11, 11, 11, 12, 0))
	ct := byte(e.rnd.Pick('F', 'F', 'C', 'C', 'A', 'X', 0))
	switch e.rnd.Intn(12) {
	case 0: // a bare 8..15 byte frame
		n := 8 + e.rnd.Intn(8)
		b := make([]byte, n)
		copy(b, []string{"MSG", "OPN", "CLO", "XYZ", "ERR"}[e.rnd.Intn(5)])
		b[3] = ct
		copy(b[8:], e.rnd.Bytes(n-8))
		binary.LittleEndian.PutUint32(b[4:], uint32(n))
		return frame{raw: b}
	case 1: // unknown message type
		return frame{raw: mkFrame([]string{"XYZ", "HEL", "ACK", "\x00\x00\x00", "msg"}[e.rnd.Intn(5)], ct, ch, e.rnd.Bytes(e.rnd.Intn(30)))}
	case 2: // ERR from the peer
		body := h.RecvAbortBody(0x80010000, nil)
		if e.rnd.Chance(30) {
			body = body[:e.rnd.Intn(len(body))]
		}
		return frame{raw: mkFrame("ERR", 'F', 0, body)}
	case 3, 4: // OPN
		uri := []string{ua.SecurityPolicyURINone, ua.SecurityPolicyURINone, ua.SecurityPolicyURIBasic256Sha256, ua.SecurityPolicyURIBasic128Rsa15, "http://nonsense/policy", ""}[e.rnd.Intn(6)]
		var cert []byte
		switch e.rnd.Intn(5) {
		case 0:
			cert = nil
		case 1:
			cert = e.keyB.CertDER
		case 2:
			cert = e.rnd.Bytes(e.rnd.Pick(1, 30, 300))
		case 3:
			cert = e.keyB.CertDER[:e.rnd.Intn(len(e.keyB.CertDER))]
		default:
			cert = e.ecCert
		}
		rest := append(lp([]byte(uri), false), lp(cert, cert == nil)...)
		rest = append(rest, lp(e.rnd.Bytes(e.rnd.Pick(0, 20)), e.rnd.Bool())...)
		switch e.rnd.Intn(4) {
		case 0:
			rest = rest[:e.rnd.Intn(len(rest)+1)] // header cut short
		case 1:
			rest = append(rest, e.rnd.Bytes(e.rnd.Pick(0, 5, 256))...)
		default:
			rest = append(rest, e.plainBody(sc)...)
		}
		f := frame{raw: mkFrame("OPN", ct, ch, rest)}
		if uri != ua.SecurityPolicyURINone {
			var lk *rsa.PrivateKey
			if sc.setup == "fresh-server" || sc.secure() {
				lk = e.keyA.Key
			}
			f.cert = e.certClass(uri, cert, lk)
		}
		return f
	case 5: // CLO
		return frame{raw: mkFrame("CLO", 'F', ch, append([]byte{22, 0, 0, 0}, e.rnd.Bytes(e.rnd.Intn(20))...))}
	default: // MSG
		if sc.secure() && sc.open() && e.rnd.Chance(60) {
			// a chunk with a valid signature, built from the primitives; the plaintext may be hostile
			ctb := byte(e.rnd.Pick('F', 'F', 'C', 'A'))
			var body []byte
			switch e.rnd.Intn(4) {
			case 0:
				body = h.RecvAbortBody(0x80010000, nil)
			case 1:
				body = append([]byte{0x0f}, e.rnd.Bytes(e.rnd.Intn(20))...)
			default:
				body = e.good(sc, e.rnd.Pick(0, 10), 1)
			}
			plain := make([]byte, 8, 8+len(body)+32)
			binary.LittleEndian.PutUint32(plain, *seq)
			binary.LittleEndian.PutUint32(plain[4:], uint32(e.rnd.Pick(1, 2, 3)))
			*seq++
			plain = append(plain, body...)
			if e.rnd.Chance(15) {
				plain = plain[:e.rnd.Intn(9)] // too short for a sequence header, still signed
			}
			if sc.mode == 3 {
				n := 16 - (len(plain)+sealer.SignatureLength())%16 // 1..16 padding bytes incl. the size byte
				v := byte(n - 1)                                   // well-formed
				if e.rnd.Chance(45) {                              // hostile PaddingSize under a valid signature
					v = byte(e.rnd.Pick(0, n, n+7, len(plain)+n-1, len(plain)+n, len(plain)+n+1, len(plain)+n+sealer.SignatureLength()-1, 200, 255))
				}
				for i := 0; i < n; i++ {
					plain = append(plain, v)
				}
			}
			w, err := sealer.SealPlain(ctb, 11, 22, ua.MessageSecurityMode(sc.mode), plain)
			if err == nil && len(w) <= int(sc.rcvBuf) {
				if e.rnd.Chance(20) { // damaged in transit / forged
					w = append([]byte{}, w...)
					w[16+e.rnd.Intn(len(w)-16)] ^= 0x40
					return frame{raw: w}
				}
				return frame{raw: w, opens: append([]byte{}, plain...)}
			}
		}
		if sc.secure() { // unsecured or short bytes on a secured channel
			n := e.rnd.Pick(0, 1, 4, 15, 16, 17, 31, 32, 33, 48, 64, 100)
			return frame{raw: mkFrame("MSG", ct, ch, append([]byte{22, 0, 0, 0}, e.rnd.Bytes(n)...))}
		}
		if e.rnd.Chance(10) {
			return frame{raw: mkFrame("MSG", ct, ch, e.rnd.Bytes(e.rnd.Intn(4)))} // token id cut short
		}
		return frame{raw: mkFrame("MSG", ct, ch, append([]byte{byte(e.rnd.Pick(22, 0, 99)), 0, 0, 0}, e.plainBody(sc)...))}
	}
}

func (e *env) genCase() (*scase, bool) {
	sc := &scase{uri: ua.SecurityPolicyURINone, mode: 1, rcvBuf: 65535}
	sc.setup = []string{"fresh-server", "fresh-client", "open-server", "open", "open-server", "open"}[e.rnd.Intn(6)]
	if sc.open() && e.rnd.Chance(45) {
		sc.uri = []string{ua.SecurityPolicyURIBasic256Sha256, ua.SecurityPolicyURIAes128Sha256RsaOaep, ua.SecurityPolicyURIBasic256}[e.rnd.Intn(3)]
		sc.mode = e.rnd.Pick(2, 3)
	}
	sc.rcvBuf = uint32(e.rnd.Pick(65535, 65535, 8192, 300, 12, 16, 24))
	sc.maxChunks = uint32(e.rnd.Pick(0, 1, 2, 3, 512))
	sc.maxMsg = uint32(e.rnd.Pick(0, 50, 4096, 2*1024*1024))
	sc.ln, sc.rn = e.rnd.Bytes(32), e.rnd.Bytes(32)
	var sealer *h.RecvSealer
	if sc.secure() {
		var err error
		if sealer, err = h.NewRecvSealer(sc.uri, ua.MessageSecurityMode(sc.mode), sc.ln, sc.rn); err != nil {
			e.r.InfraError = "sealer: " + err.Error()
			return nil, false
		}
	}
	seq := uint32(1)
	n := 1 + e.rnd.Intn(10)
	for i := 0; i < n; i++ {
		f := e.randomFrame(sc, sealer, &seq)
		if len(f.raw) > int(sc.rcvBuf) {
			continue // framing beyond the receive buffer is Conn.Receive's business (C05)
		}
		sc.frames = append(sc.frames, f)
		if e.rnd.Chance(15) {
			sc.frames = append(sc.frames, f)
		}
	}
	return sc, len(sc.frames) > 0
}

// ---------------------------------------------------------------- running

func (e *env) job(sc *scase) *h.RecvJob {
	frames := make([][]byte, len(sc.frames))
	for i, f := range sc.frames {
		frames[i] = f.raw
	}
	j := &h.RecvJob{Setup: sc.setup, Server: false, URI: sc.uri, Mode: sc.mode, LocalNonce: sc.ln, RemoteNonce: sc.rn, KeyDir: e.o.Keys,
		Ack: []uint32{sc.rcvBuf, 65535, sc.maxChunks, sc.maxMsg}, ChannelID: 11, TokenID: 22, Frames: frames, DeadlineMs: 20000,
		WithKey: sc.setup == "fresh-server" || sc.setup == "open-server", AckReply: sc.ackReply}
	if sc.setup == "handshake-client" {
		j.Ack[0] = sc.own // the client's own value (its Hello); the one in force afterwards comes out of the handshake
	}
	return j
}

// implOutcome translates what the real code did into the outcome words of the model.
func implOutcome(res *h.RecvJobResult) []string {
	var out []string
	for _, r := range res.Results {
		p := strings.SplitN(r, " ", 3)
		cls := p[1]
		switch {
		case p[0] == "0" && cls == "uacp", strings.Contains(cls, "read_header_failed"), strings.Contains(cls, "failed_to_decode_ERRF"):
			out = append(out, "err:uacp")
		case strings.Contains(cls, "decode_chunk_failed"):
			out = append(out, "err:decodeChunk")
		case strings.Contains(cls, "openingInstance_is_nil"):
			out = append(out, "err:noOpening")
		case strings.HasPrefix(cls, "err:x509") || strings.HasPrefix(cls, "err:asn1") || strings.Contains(cls, "certificate"):
			out = append(out, "err:cert")
		case p[0] == "0" && cls == fmt.Sprintf("status:%d", uint32(ua.StatusBadCertificateInvalid)):
			out = append(out, "err:notRsa")
		case strings.Contains(cls, "unsupported_security_policy"):
			out = append(out, "err:policy")
		case strings.Contains(cls, "unable_to_find_instance"):
			out = append(out, "err:noInstance")
		case p[0] == "0" && cls == fmt.Sprintf("status:%d", uint32(ua.StatusBadSecurityChecksFailed)):
			out = append(out, "err:security")
		case strings.Contains(cls, "decode_sequence_header_failed"):
			out = append(out, "err:seqHeader")
		default:
			out = append(out, "R "+r)
		}
	}
	switch {
	case res.Outcome == "ok":
		out = append(out, "eof-or-end")
	case strings.HasPrefix(res.Outcome, "panic") && strings.Contains(res.Outcome, "[:8] with capacity"):
		out = append(out, "panic:conn")
	case strings.HasPrefix(res.Outcome, "panic") && strings.Contains(res.Outcome, "[:12] with capacity"):
		out = append(out, "panic:hdr")
	default:
		out = append(out, strings.SplitN(res.Outcome, "\n", 2)[0])
	}
	return out
}

func modelOutcome(ans string) (out []string, held string) {
	for _, t := range strings.Fields(ans) {
		switch {
		case strings.HasPrefix(t, "held="):
			held = t
		case t == "eof", strings.HasPrefix(t, "panic:"), strings.HasPrefix(t, "err:"):
			out = append(out, t)
		default:
			if x := h.RecvExpectFromModel(t); x != "" {
				out = append(out, "R "+x)
			}
		}
	}
	if len(out) == 0 || !strings.HasPrefix(out[len(out)-1], "panic:") {
		if len(out) > 0 && out[len(out)-1] == "eof" {
			out = out[:len(out)-1]
		}
		out = append(out, "eof-or-end")
	}
	return out, held
}

func (e *env) runCase(sc *scase) {
	line := e.line(sc)
	text := e.caseText(sc)
	var ans string
	if sc.rcvBuf >= 1<<31 {
		saved := e.d
		e.d = nil // the model has no notion of a failing allocation: oracle only
		defer func() { e.d = saved }()
	}
	if e.d != nil {
		ans = e.d.Ask(line)
		for _, t := range strings.Fields(ans) {
			if strings.HasPrefix(t, "merged:") {
				b := h.UnHex(strings.Split(t, ":")[2])
				if !h.RecvSafeToDecode(b, sc.goods) {
					e.r.Hit("skipped:merged-bytes-would-hit-the-C02-allocation-defect")
					return
				}
				if _, v, err := ua.DecodeService(b); err == nil {
					if _, isOPN := v.(*ua.OpenSecureChannelRequest); isOPN {
						e.r.Hit("skipped:well-formed-OpenSecureChannelRequest")
						return
					}
				}
			}
		}
	}
	job := e.job(sc)
	res := e.w.Do(job)
	if res.Outcome == "timeout" {
		res = e.w.Do(job)
	}
	if strings.HasPrefix(res.Outcome, "setup") {
		e.r.InfraError = "worker: " + res.Outcome
		return
	}
	e.r.Count(text, len(sc.frames) >= 2)
	e.r.Hit("setup:" + sc.setup)
	e.r.Hit(fmt.Sprintf("mode:%d", sc.mode))
	impl := implOutcome(&res)
	e.r.Sample(fmt.Sprintf("%.300s -> %.300v", text, impl))
	for _, o := range impl {
		w := strings.SplitN(o, " ", 2)[0]
		if w == "R" {
			p := strings.Fields(o)
			w = "result:" + strings.SplitN(p[2], ":", 2)[0]
		}
		e.r.Hit("impl:" + strings.SplitN(w, " ", 2)[0])
	}

	// ---- model against implementation
	if e.d != nil {
		want, held := modelOutcome(ans)
		got := strings.Join(impl, " | ")
		implHeld := fmt.Sprintf("held=%d/%d/%d", res.Entries, res.Chunks, res.Bytes)
		if strings.HasPrefix(res.Outcome, "panic") || strings.HasPrefix(res.Outcome, "crash") {
			implHeld = held // the table cannot be read after a panic
		}
		if strings.Join(want, " | ") != got || held != implHeld {
			e.r.Disagree(text, ans+" => "+strings.Join(want, " | ")+" "+held, got+" "+implHeld)
		}
	}

	// ---- the property's own oracle, on the implementation alone
	switch {
	case strings.HasPrefix(res.Outcome, "panic"), strings.HasPrefix(res.Outcome, "crash"):
		if sc.note == "direct" && sc.rcvBuf < 12 && strings.HasPrefix(res.Outcome, "panic") {
			// a Conn constructed by the harness itself with a buffer below 12 bytes: not a value a
			// peer can bring about (the handshake refuses it); only the model comparison counts
			e.r.Hit("direct:small-buffer-panics-as-modelled")
			break
		}
		e.fail(text, "", "the receive path does not survive the stream: "+strings.SplitN(res.Outcome, "\n", 2)[0])
	case strings.HasPrefix(res.Outcome, "blocked"):
		// every byte was delivered and the socket half-closed, yet Receive sits on a lock/channel
		e.blocked++
		e.fail(text, "", "Receive blocks forever on a finite stream: "+res.Outcome)
	case res.Outcome == "timeout":
		e.r.InfraError = "stream not consumed within the deadline (twice): " + text[:min(len(text), 300)]
	case res.Outcome == "ok":
		limit := int(sc.maxChunks)
		if limit != 0 && res.Chunks > limit {
			ids := map[uint32]bool{}
			for _, f := range sc.frames {
				if len(f.raw) >= 24 && f.raw[3] == 'C' {
					ids[binary.LittleEndian.Uint32(f.raw[20:])] = true
				}
			}
			sig := ""
			if res.Entries > 1 { // signature: the retained chunks belong to more than one request id
				sig = sigIDs
				e.r.Confirm(sig, fmt.Sprintf("%s MaxChunkCount=%d: %d chunks (%d bytes) retained for %d request ids after the stream", sc.setup, limit, res.Chunks, res.Bytes, res.Entries))
			}
			e.fail(text, sig, fmt.Sprintf("%d chunks retained, the negotiated MaxChunkCount is %d (%d map entries)", res.Chunks, limit, res.Entries))
		}
	}
}

// flood: n intermediate chunks with n different request ids, never finished.
func (e *env) flood(setup string, n int) {
	sc := &scase{setup: setup, uri: ua.SecurityPolicyURINone, mode: 1, rcvBuf: 65535, maxChunks: 512, maxMsg: 2 * 1024 * 1024, note: "flood"}
	for i := 0; i < n; i++ {
		c := h.RecvRefChunk{Type: 'C', ChannelID: 11, TokenID: 22, Seq: uint32(i + 1), Req: uint32(i + 1), Body: []byte{byte(i)}}
		sc.frames = append(sc.frames, frame{raw: c.Raw()})
	}
	job := e.job(sc)
	job.DeadlineMs = 60000
	job.MaxResults = 4
	res := e.w.Do(job)
	text := fmt.Sprintf("flood %s %d intermediate chunks with %d request ids", setup, n, n)
	e.r.Count(text, true)
	e.r.Hit("flood:" + setup)
	if res.Outcome != "ok" {
		if strings.HasPrefix(res.Outcome, "panic") || strings.HasPrefix(res.Outcome, "crash") {
			e.fail(text, "", "the receive path does not survive the flood: "+res.Outcome)
		} else {
			e.r.InfraError = "flood: " + res.Outcome
		}
		return
	}
	if e.d != nil { // the model on a shorter flood of the same shape (the driver is slow on 10^4 frames)
		m := 300
		toks := make([]string, m)
		for i := 0; i < m; i++ {
			toks[i] = h.RecvRefChunk{Type: 'C', Seq: uint32(i + 1), Req: uint32(i + 1), Body: []byte{byte(i)}}.Token()
		}
		ans := e.d.Ask("recv 512 2097152 " + strings.Join(toks, " "))
		if !strings.HasSuffix(ans, fmt.Sprintf("held=%d/%d/%d", m, m, m)) {
			e.r.Disagree("flood-model "+fmt.Sprint(m), ans[max(0, len(ans)-40):], fmt.Sprintf("held=%d/%d/%d", m, m, m))
		}
	}
	if res.Chunks > 512 {
		sig := ""
		if res.Entries > 1 {
			sig = sigIDs
			e.r.Confirm(sig, fmt.Sprintf("%s MaxChunkCount=512: %d chunks retained in %d map entries after %d intermediate chunks with different request ids", setup, res.Chunks, res.Entries, n))
		}
		e.fail(text, sig, fmt.Sprintf("%d chunks retained, the negotiated MaxChunkCount is 512 (%d map entries)", res.Chunks, res.Entries))
	}
}

// ackMirror is what the handshake has to do with an Acknowledge (OPC UA Part 6, 7.1.2.4 and the
// client's own announcement): refuse buffer sizes below 8192, never exceed the own value.
func ackMirror(own, rcv, snd uint32) (uint32, bool) {
	if rcv < 8192 || snd < 8192 {
		return 0, false
	}
	if own != 0 && rcv > own {
		return own, true
	}
	return rcv, true
}

// ackCase: a client performs the real HEL/ACK handshake against a server that answers with the
// given (possibly hostile) buffer sizes; if the handshake succeeds it then receives one frame.
func (e *env) ackCase(own, rcv, snd uint32, frameLen int) {
	text := fmt.Sprintf("handshake own=%d ack.rcv=%d ack.snd=%d then a %d-byte frame", own, rcv, snd, frameLen)
	sc := &scase{setup: "handshake-client", uri: ua.SecurityPolicyURINone, mode: 1, own: own, maxChunks: 512, maxMsg: 2 * 1024 * 1024,
		ackReply: []uint32{rcv, snd, 2 * 1024 * 1024, 512}}
	eff, accepted := ackMirror(own, rcv, snd)
	// the handshake alone
	probe := e.job(sc)
	probe.Frames = nil
	probe.DeadlineMs = 5000
	res := e.w.Do(probe)
	implRefused := strings.HasPrefix(res.Outcome, "setup") && strings.Contains(res.Outcome, "invalid buffer sizes in ACK")
	if strings.HasPrefix(res.Outcome, "setup") && !implRefused {
		e.r.InfraError = "worker: " + res.Outcome
		return
	}
	impl := "refused"
	if !implRefused {
		impl = "accepted"
	}
	e.r.Count(text, true)
	e.r.Hit("ack:" + impl)
	if e.d != nil {
		m := e.d.Ask(fmt.Sprintf("handshake %d %d %d", own, rcv, snd))
		want := "refused"
		if accepted {
			want = fmt.Sprintf("rcvbuf=%d", eff)
		}
		if m != want || (m == "refused") != implRefused {
			e.r.Disagree(text, m, impl+" (reference: "+want+")")
		}
	}
	if implRefused {
		if accepted {
			e.fail(text, "", "the client refuses a conforming Acknowledge")
		}
		return
	}
	// accepted: the connection must survive the next frame with the size now in force; if the
	// client accepted sizes the reference refuses, the size in force is the server's value
	sc.rcvBuf = eff
	if !accepted {
		sc.rcvBuf = rcv
	}
	if frameLen > int(sc.rcvBuf) && sc.rcvBuf >= 8 {
		return
	}
	b := make([]byte, frameLen)
	copy(b, "MSGF")
	binary.LittleEndian.PutUint32(b[4:], uint32(frameLen))
	sc.frames = []frame{{raw: b}}
	e.runCase(sc)
}

// directCase: a Conn constructed with a receive buffer below 12 bytes (nothing a peer can cause).
func (e *env) directCase(rcv uint32, frameLen int) {
	sc := &scase{setup: "open", uri: ua.SecurityPolicyURINone, mode: 1, rcvBuf: rcv, maxChunks: 512, maxMsg: 2 * 1024 * 1024, note: "direct"}
	b := make([]byte, frameLen)
	copy(b, "MSGF")
	binary.LittleEndian.PutUint32(b[4:], uint32(frameLen))
	sc.frames = []frame{{raw: b}}
	e.runCase(sc)
}

// gateCase: a real client channel with its dispatcher running. The (hostile) server
// answers the first ordinary request with a message whose body is an
// OpenSecureChannelResponse, the following ones properly, and never answers an
// OpenSecureChannel request. Observed: the gate (rcvLocker) after the hostile
// response, whether request 2 gets its response, the gate after an open() has
// returned (Renew, which times out), whether request 3 gets its response.
func (e *env) gateCase() {
	cfg := h.RecvNoneConfig()
	cfg.RequestTimeout = 2 * time.Second
	rc, err := h.OpenRecvChannel(cfg, h.RecvAck(65535, 65535, 512, 2*1024*1024), false, 11, 22, 1, nil, nil)
	if err != nil {
		e.r.InfraError = "gate: " + err.Error()
		return
	}
	defer rc.Close()
	rc.SC.VerifSetRequestID(100)
	rc.SC.VerifStartDispatcher()
	respHdr := func(handle uint32) *ua.ResponseHeader {
		return &ua.ResponseHeader{Timestamp: time.Unix(1700000000, 0).UTC(), RequestHandle: handle, ServiceDiagnostics: &ua.DiagnosticInfo{}, StringTable: []string{}, AdditionalHeader: ua.NewExtensionObject(nil)}
	}
	enc := func(v interface{}) []byte {
		tb, _ := ua.Encode(ua.NewFourByteExpandedNodeID(0, ua.ServiceTypeID(v)))
		bb, _ := ua.Encode(v)
		return append(tb, bb...)
	}
	// the server side
	go func() {
		n, seq := 0, uint32(1)
		hdr := make([]byte, 8)
		for {
			rc.Peer.SetReadDeadline(time.Now().Add(30 * time.Second))
			if _, err := io.ReadFull(rc.Peer, hdr); err != nil {
				return
			}
			rest := make([]byte, binary.LittleEndian.Uint32(hdr[4:])-8)
			if _, err := io.ReadFull(rc.Peer, rest); err != nil {
				return
			}
			if string(hdr[:3]) != "MSG" || len(rest) < 16 {
				continue // an OpenSecureChannel request: never answered
			}
			req := binary.LittleEndian.Uint32(rest[12:16])
			n++
			var body []byte
			if n == 1 {
				body = enc(&ua.OpenSecureChannelResponse{ResponseHeader: respHdr(req), SecurityToken: &ua.ChannelSecurityToken{ChannelID: 11, TokenID: 23, CreatedAt: time.Unix(1700000000, 0).UTC(), RevisedLifetime: 3600000}, ServerNonce: []byte{}})
			} else {
				body = enc(&ua.ReadResponse{ResponseHeader: respHdr(req), Results: []*ua.DataValue{{EncodingMask: ua.DataValueValue, Value: ua.MustVariant(int32(n))}}})
			}
			rc.Peer.Write(h.RecvRefChunk{Type: 'F', ChannelID: 11, TokenID: 22, Seq: seq, Req: req, Body: body}.Raw())
			seq++
		}
	}()
	send := func() string {
		got := "no-response"
		ctx, cancel := context.WithTimeout(context.Background(), 10*time.Second)
		defer cancel()
		err := rc.SC.SendRequestWithTimeout(ctx, &ua.ReadRequest{NodesToRead: []*ua.ReadValueID{{NodeID: ua.NewNumericNodeID(0, 2258), AttributeID: ua.AttributeIDValue}}}, nil, 2*time.Second, func(v ua.Response) error {
			got = fmt.Sprintf("%T", v)
			return nil
		})
		if err != nil {
			return got + "/" + h.RecvErrClass(err)
		}
		return got + "/ok"
	}
	b := func(x bool) int { return b2i(x) }
	r1 := send()
	time.Sleep(100 * time.Millisecond)
	l1 := rc.SC.VerifRcvLocked()
	r2 := send()
	l2 := rc.SC.VerifRcvLocked()
	ctx, cancel := context.WithTimeout(context.Background(), 15*time.Second)
	rerr := rc.SC.Renew(ctx) // an open(): sends an OPN request nobody answers, returns by its timeout, unlocks the gate
	cancel()
	time.Sleep(200 * time.Millisecond)
	l3 := rc.SC.VerifRcvLocked()
	r3 := send()
	impl := fmt.Sprintf("req1=%s locked=%d req2=%s locked=%d renew=%s locked=%d req3=%s", r1, b(l1), r2, b(l2), h.RecvErrClass(rerr), b(l3), r3)
	line := "gate: request 101 answered with an OpenSecureChannelResponse body, request 102 answered properly, Renew (never answered), request 103 answered properly"
	e.r.Count(line, true)
	e.r.Hit("gate:hostile-opn-response")
	e.r.Notes = append(e.r.Notes, "receive gate: "+impl)
	timeoutCls := fmt.Sprintf("status:%d", uint32(ua.StatusBadTimeout))
	want := fmt.Sprintf("req1=*ua.OpenSecureChannelResponse/ok locked=1 req2=no-response/%s locked=1 renew=%s locked=0 req3=*ua.ReadResponse/ok", timeoutCls, timeoutCls)
	if e.d != nil {
		// the model: after the hostile response the gate is locked and response 2 stays queued;
		// after open() has returned response 3 is delivered (response 2 lost its handler by the timeout)
		m1 := e.d.Ask("gate r:101 a:101:1 d r:102 a:102:0 d d t:102")
		m2 := e.d.Ask("gate r:101 a:101:1 d r:102 a:102:0 d d t:102 o d r:103 a:103:0 d")
		if m1 != "locked=1 delivered=101 queued=1" || m2 != "locked=0 delivered=101,103 queued=0" || impl != want {
			e.r.Disagree(line, m1+" ; "+m2+" => "+want, impl)
		}
	}
	// oracle of C13 ("never blocks for ever"): once an open() has returned the channel must work again
	if l3 || !strings.HasSuffix(r3, "/ok") {
		e.fail(line, "", "the receive gate stays locked after open() has returned: "+impl)
	}
}

func (e *env) replay(line string) {
	// a case text: "<setup> uri=<short> mode=<m> raw <rcvBuf> <maxcc> <maxms> <secure> <opening> <chans> <frames…>"
	f := strings.Fields(line)
	if len(f) < 11 || f[3] != "raw" {
		return
	}
	sc := &scase{setup: f[0], uri: ua.SecurityPolicyURINone, mode: 1}
	fmt.Sscan(strings.TrimPrefix(f[2], "mode="), &sc.mode)
	for _, u := range []string{ua.SecurityPolicyURIBasic256Sha256, ua.SecurityPolicyURIAes128Sha256RsaOaep, ua.SecurityPolicyURIBasic256} {
		if strings.HasSuffix(u, "#"+strings.TrimPrefix(f[1], "uri=")) {
			sc.uri = u
		}
	}
	fmt.Sscan(f[4], &sc.rcvBuf)
	fmt.Sscan(f[5], &sc.maxChunks)
	fmt.Sscan(f[6], &sc.maxMsg)
	if sc.secure() {
		return // sealed frames depend on nonces: secured cases are not replayable from text
	}
	if sc.setup == "handshake-client" {
		// "handshake-client uri=None mode=1 raw <ack.rcv> …": the Acknowledge value; own 65535
		e.ackCase(65535, sc.rcvBuf, 65535, 8)
		return
	}
	if sc.rcvBuf < 12 {
		sc.note = "direct"
	}
	for _, t := range f[10:] {
		p := strings.Split(t, "/")
		fr := frame{raw: h.UnHex(p[0])}
		for _, o := range p[1:] {
			if strings.HasPrefix(o, "c=") {
				fr.cert = o[2:]
			}
		}
		sc.frames = append(sc.frames, fr)
	}
	e.runCase(sc)
}

func ecCert() []byte {
	k, err := ecdsa.GenerateKey(elliptic.P256(), rand.Reader)
	if err != nil {
		return nil
	}
	tpl := &x509.Certificate{SerialNumber: big.NewInt(1), Subject: pkix.Name{CommonName: "ec"}, NotBefore: time.Unix(1700000000, 0), NotAfter: time.Unix(1900000000, 0)}
	der, err := x509.CreateCertificate(rand.Reader, tpl, tpl, &k.PublicKey, k)
	if err != nil {
		return nil
	}
	return der
}

func main() {
	h.RecvWorkerMain()
	o := h.ParseOpts()
	r := h.NewResult("C13", o)
	d, err := h.StartDriver(o.Driver)
	if err != nil {
		r.InfraError = err.Error()
		r.Write(o.Out)
		return
	}
	defer d.Close()
	e := &env{o: o, r: r, d: d, rnd: h.NewRand(o.Seed), w: h.StartRecvWorker(3 << 20), known: map[string]int{}, ecCert: ecCert()}
	defer e.w.Close()
	if e.keyA, err = h.LoadKey(o.Keys, 2048, "a"); err == nil {
		e.keyB, err = h.LoadKey(o.Keys, 2048, "b")
	}
	if err != nil || e.ecCert == nil {
		r.InfraError = fmt.Sprintf("keys: %v", err)
		r.Write(o.Out)
		return
	}
	r.Rule = "case = (channel setup: server/client kind x fresh/open, None or policy x Sign/SignAndEncrypt, ReceiveBufSize, limits, frame stream of 1-10 frames): structure-aware hostile frames (8-15 byte frames, unknown types, ERR, OPN with policy URIs None/Basic256Sha256/Basic128Rsa15/nonsense/empty and certificates nil/real/garbage/truncated/ECDSA and cut headers, CLO, MSG with wrong channel ids, short security/sequence headers, odd chunk types, aborts, well-formed/truncated/undecodable bodies, properly sealed, damaged and unsecured chunks on secured channels, duplicates) sent over loopback TCP to a real channel in a worker process (3 GB address space, 20 s); outcome sequence and retained-chunk table vs Lean Raw.runRaw. Plus: hostile Acknowledge values adopted by a real client handshake, floods of intermediate chunks with distinct request ids. non-trivial = ≥ 2 frames; distinct by text"
	if o.Replay != "" {
		e.replay(o.Replay)
		r.Write(o.Out)
		return
	}
	for _, l := range o.CorpusLines() {
		e.replay(l)
	}
	// hostile and conforming Acknowledge values against the client's real handshake
	for _, own := range []uint32{65535, 8192, 20000} {
		for _, rcv := range []uint32{0, 4, 7, 8, 10, 11, 12, 16, 8191, 8192, 8193, 65535, 100000, 1 << 31, 4294967295} {
			for _, snd := range []uint32{65535, 8192, 8191, 0} {
				e.ackCase(own, rcv, snd, e.rnd.Pick(8, 11, 12, 16))
			}
		}
	}
	for _, rcv := range []uint32{4, 10} {
		e.directCase(rcv, 8)
	}
	e.gateCase()
	// floods
	e.flood("open-server", o.N(8000, 20000))
	e.flood("open", o.N(4000, 20000))
	n := o.N(600, 20000)
	for i := 0; i < n && r.InfraError == "" && e.blocked < 3; i++ {
		if sc, ok := e.genCase(); ok {
			e.runCase(sc)
		}
	}
	for _, b := range []string{"impl:err:decodeChunk", "impl:err:noOpening", "impl:err:cert", "impl:err:notRsa", "impl:err:policy", "impl:err:noInstance",
		"impl:err:security", "impl:err:seqHeader", "impl:panic:conn", "impl:panic:hdr", "impl:result:nil", "impl:result:status", "impl:result:toomany", "impl:result:toolarge",
		"setup:fresh-server", "setup:fresh-client", "setup:open-server", "setup:open", "setup:handshake-client", "ack:refused", "ack:accepted", "direct:small-buffer-panics-as-modelled", "gate:hostile-opn-response", "mode:1", "mode:2", "mode:3"} {
		if r.Distribution[b] == 0 {
			r.Unreached = append(r.Unreached, b)
		}
	}
	r.Notes = append(r.Notes, fmt.Sprintf("worker crashes (fatal errors of the real code): %d", e.w.Crashes))
	r.Write(o.Out)
}
