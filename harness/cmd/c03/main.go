// Correspondence runner and property oracle for C03 (decode → encode → decode is stable).
//
// A case is (target type, byte string). When the real ua.Decode accepts the bytes (value v1), the
// oracle on the implementation alone demands: ua.Encode(v1) returns bytes without error or panic, and
// ua.Decode of those bytes returns a value equal to v1. Every step is also asked of the Lean model
// (decode, encode of the printed v1, decode again) and compared; the model additionally says whether v1
// lies under the guard of the theorem C03_stable_partial (well typed and in normal form).
package main

import (
	"fmt"
	"reflect"
	"strconv"
	"strings"
	"time"

	"github.com/gopcua/opcua/ua"

	"verifharness/internal/codecx"
	"verifharness/internal/h"
)

const (
	fuel       = 3000
	modelLimit = 1 << 20
)

type env struct {
	o       *h.Opts
	r       *h.Result
	d       *h.Driver
	rnd     *h.Rand
	targets []codecx.Target
	byName  map[string]int
	sigSeen map[string]int
}

func (e *env) target(name string) int {
	i, ok := e.byName[name]
	if !ok {
		panic("unknown target " + name)
	}
	return i
}

func trunc(s string, n int) string {
	if len(s) > n {
		return s[:n] + "…"
	}
	return s
}

// encodeGuarded runs ua.Encode with recover and watchdog.
func encodeGuarded(v interface{}) (b []byte, res string) {
	var msg string
	g := codecx.Guard(30*time.Second, 6<<30, func() {
		res, msg = h.CatchMsg(func() string {
			var err error
			b, err = ua.Encode(v)
			if err != nil {
				return "fail err"
			}
			return "ok " + h.Hex(b)
		})
	})
	if g != "" {
		return nil, "fail " + g
	}
	if res == "panic" {
		res = "fail " + codecx.PanicKind(msg)
	}
	return b, res
}

// ---- finding signatures: decidable predicates on the decoded value (its canonical text) and the kind of failure

// variants lists (mask, alen) of every Variant in a value text.
func variants(toks []string) [][2]uint64 {
	var out [][2]uint64
	for i, t := range toks {
		if t == "A(" && i+2 < len(toks) {
			m, _ := strconv.ParseUint(toks[i+1], 10, 64)
			a, _ := strconv.ParseUint(toks[i+2], 10, 64)
			out = append(out, [2]uint64{m, a})
		}
	}
	return out
}

// hasNilExtObj: an ExtensionObject with a non-zero mask and Value == nil (unknown type id, or body length 0 / -1).
func hasNilExtObj(toks []string) bool {
	for i, t := range toks {
		if t != "X(" || i+2 >= len(toks) || toks[i+1] == "0" {
			continue
		}
		// skip the type id group
		j := i + 2
		if toks[j] == "n" {
			j++
		} else {
			depth := 0
			for ; j < len(toks); j++ {
				if strings.HasSuffix(toks[j], "(") {
					depth++
				} else if toks[j] == ")" {
					depth--
					if depth == 0 {
						j++
						break
					}
				}
			}
		}
		if j+1 < len(toks) && toks[j] == "-" && toks[j+1] == "n" {
			return true
		}
	}
	return false
}

var emptyBodyTypes = func() map[string]bool {
	m := map[string]bool{}
	for _, r := range codecx.RegisteredTypes() {
		if codecx.CanEncodeEmpty(r.Type) {
			m[r.Name] = true
		}
	}
	return m
}()

// hasEmptyBodyExtObj: an ExtensionObject whose decoded value is a registered struct that encodes to zero bytes
// (its re-encoding has body length 0, which decodes to Value == nil: the defect C01.extobj-empty-body).
func hasEmptyBodyExtObj(toks []string) bool {
	for i, t := range toks {
		if emptyBodyTypes[t] && i+1 < len(toks) && toks[i+1] == "p(" {
			return true
		}
	}
	return false
}

// onlyTimesDiffer: the two value texts differ, and only in DateTime tokens.
func onlyTimesDiffer(a, b []string) bool {
	if len(a) != len(b) {
		return false
	}
	diff := false
	for i := range a {
		if a[i] != b[i] {
			if !(strings.HasPrefix(a[i], "t") && strings.HasPrefix(b[i], "t") && a[i] != "tz" && b[i] != "tz") {
				return false
			}
			diff = true
		}
	}
	return diff
}

func classify(v1 string, kind string, v2 string) string {
	toks := strings.Fields(v1)
	switch kind {
	case "encode:fail panic-nilvalue":
		if hasNilExtObj(toks) {
			return "C03.extobj-nil-value"
		}
	case "decode2", "differs":
		if v2 != "" && onlyTimesDiffer(toks, strings.Fields(v2)) {
			return "C03.datetime-range"
		}
		if hasEmptyBodyExtObj(toks) {
			return "C03.extobj-empty-body"
		}
	}
	return ""
}

func (e *env) run(family string, ti int, b []byte) {
	t := e.targets[ti]
	hexIn := h.Hex(b)
	c := fmt.Sprintf("%s %s", t.Ty, hexIn)
	e.r.Hit("family:" + family)
	pred := ""
	if e.d != nil {
		pred = e.d.Ask(fmt.Sprintf("dec %d %d %s %s", fuel, modelLimit, t.Ty, hexIn))
		if pred == "fail diverge" || pred == "fail depth" || pred == "fail alloc" {
			e.r.Hit("skipped:unsafe-input(C02)")
			return
		}
	}
	o1 := codecx.DecodeInProc(b, t.Type)
	if o1.Res == "fail hang" || o1.Res == "fail memory" {
		e.r.Hit("skipped:unsafe-input(C02)")
		e.r.Notes = append(e.r.Notes, "run stopped early: an in-process Decode did not return (C02 territory): "+trunc(c, 200))
		e.r.Write(e.o.Out)
		panic("stop")
	}
	if pred != "" && pred != o1.Res {
		e.r.Disagree("dec "+trunc(c, 3000), trunc(pred, 600), trunc(o1.Res, 600))
	}
	if !strings.HasPrefix(o1.Res, "ok ") {
		e.r.Count(c, false)
		e.r.Hit("first-decode:" + strings.TrimPrefix(o1.Res, "fail "))
		return
	}
	e.r.Count(c, true)
	e.r.Hit("first-decode:ok")
	v1 := codecx.Print(o1.Value.Interface())
	if e.d != nil {
		// is v1 under the guard of C03_stable_partial?
		w := e.d.Ask(fmt.Sprintf("wt %d %s %s", fuel, t.Ty, v1))
		n := e.d.Ask(fmt.Sprintf("norm %d %s %s", fuel, t.Ty, v1))
		if w == "true" && n == v1 {
			e.r.Hit("decoded-value:under-theorem-guard")
		} else if w == "true" {
			e.r.Hit("decoded-value:well-typed-not-normal")
		} else {
			e.r.Hit("decoded-value:outside-guard")
		}
	}
	// ---- re-encode
	b2, encRes := encodeGuarded(o1.Value.Interface())
	e.r.Compare(e.d, fmt.Sprintf("enc %d %s %s", fuel, t.Ty, v1), encRes)
	if !strings.HasPrefix(encRes, "ok") {
		e.fail(c, classify(v1, "encode:"+encRes, ""), fmt.Sprintf("decoded %s but re-encoding it: %s", trunc(v1, 300), encRes))
		return
	}
	// ---- decode again
	o2 := codecx.DecodeInProc(b2, t.Type)
	if e.d != nil {
		e.r.Compare(e.d, fmt.Sprintf("dec %d %d %s %s", fuel, modelLimit, t.Ty, h.Hex(b2)), o2.Res)
	}
	e.r.Sample(fmt.Sprintf("%s -> %s -> %s", trunc(c, 120), trunc(h.Hex(b2), 60), trunc(o2.Res, 100)))
	if !strings.HasPrefix(o2.Res, "ok ") {
		e.fail(c, classify(v1, "decode2", ""), fmt.Sprintf("decoded %s, re-encoded to %s, which does not decode: %s", trunc(v1, 200), trunc(h.Hex(b2), 200), o2.Res))
		return
	}
	v2 := codecx.Print(o2.Value.Interface())
	if v1 != v2 {
		e.fail(c, classify(v1, "differs", v2), fmt.Sprintf("second decode differs: first %s second %s (re-encoded %s)", trunc(v1, 300), trunc(v2, 300), trunc(h.Hex(b2), 200)))
		return
	}
	e.r.Hit("stable")
}

// fail records an oracle failure; at most three per known signature, so that they cannot crowd out an
// unclassified one (the result keeps 50 failures).
func (e *env) fail(c, sig, detail string) {
	if sig != "" {
		e.r.Confirm(sig, trunc(c, 200)+": "+trunc(detail, 400))
		e.sigSeen[sig]++
		if e.sigSeen[sig] > 3 {
			e.r.Hit("oracle-fail:" + sig)
			return
		}
	}
	e.r.Fail(trunc(c, 2000), sig, detail)
}

func unhex(s string) []byte { return h.UnHex(strings.ReplaceAll(s, " ", "")) }

func le32(v uint32) []byte { return []byte{byte(v), byte(v >> 8), byte(v >> 16), byte(v >> 24)} }
func le64(v uint64) []byte {
	b := make([]byte, 8)
	for i := range b {
		b[i] = byte(v >> (8 * uint(i)))
	}
	return b
}

// non-canonical but decodable inputs, and the witnesses of the findings
func (e *env) directed() {
	xo := e.target("*ua.ExtensionObject")
	v := e.target("*ua.Variant")
	dv := e.target("*ua.DataValue")
	// extension objects: unknown type ids, known type id with empty / null body, every mask, XML bodies
	e.run("extobj", xo, unhex("01006300 01 02000000 aabb"))
	e.run("extobj", xo, unhex("01007900 01 00000000"))
	e.run("extobj", xo, unhex("01007900 01 ffffffff"))
	for i := 0; i < e.o.N(60, 3000); i++ {
		var tid []byte
		switch e.rnd.Intn(5) {
		case 0:
			tid = []byte{0, byte(e.rnd.Intn(256))}
		case 1:
			tid = append([]byte{1, byte(e.rnd.Intn(2))}, le32(uint32(e.rnd.Intn(30000)))[:2]...)
		case 2:
			tid = append([]byte{2, 0, 0}, le32(uint32(e.rnd.Intn(30000)))...)
		case 3:
			tid = append([]byte{3, 1, 0}, append(le32(3), 'a', 'b', 'c')...)
		default:
			tid = append([]byte{0x81, 0}, append(le32(uint32(300 + e.rnd.Intn(600)))[:2], append(le32(2), 'u', 'r')...)...)
		}
		mask := byte(e.rnd.Intn(4))
		if e.rnd.Chance(20) {
			mask = byte(e.rnd.Intn(256))
		}
		body := e.rnd.Bytes(e.rnd.Intn(12))
		if mask == 2 || e.rnd.Chance(30) {
			s := e.rnd.Bytes(e.rnd.Intn(6))
			body = append(le32(uint32(len(s))), s...)
			if e.rnd.Chance(15) {
				body = le32(0xffffffff)
			}
		}
		b := append(append([]byte{}, tid...), mask)
		if mask != 0 {
			b = append(append(b, le32(uint32(len(body)))...), body...)
		}
		e.run("extobj", xo, b)
	}
	// DateTime over the whole tick range
	tt := e.target("*time.Time")
	for _, ticks := range []uint64{0, 1, 116444736000000000, 116444736000000001, 116444735999999999, 2650467743990000000, 24212908799990000, 208677095368547758, 208677095368547759, 24212376631452242, 24212376631452241, ^uint64(0), 1 << 63} {
		e.run("datetime", tt, le64(ticks))
		e.run("datetime", v, append([]byte{13}, le64(ticks)...))
		e.run("datetime", dv, append([]byte{0x0c}, append(le64(ticks), le64(ticks+1)...)...))
	}
	for i := 0; i < e.o.N(100, 5000); i++ {
		e.run("datetime", tt, le64(e.rnd.U64()>>uint(e.rnd.Intn(8))))
	}
	// Variant: scalar with the dimensions bit, one-entry dimension lists, nil arrays, ByteString arrays, wrapped dimensions that decode
	e.run("variant", dv, unhex("03 46 2a000000 78563412"))
	e.run("variant", v, unhex("46 2a000000"))
	e.run("variant", v, unhex("c6 02000000 07000000 09000000 01000000 02000000"))
	e.run("variant", v, unhex("c6 00000000 00000000"))
	e.run("variant", v, unhex("c6 ffffffff 00000000"))
	e.run("variant", v, unhex("86 ffffffff"))
	e.run("variant", v, unhex("8f 01000000 01000000 aa"))
	e.run("variant", v, unhex("8f 00000000"))
	e.run("variant", v, unhex("c3 05000000 0102030405 02000000 03000000 57555555"))
	e.run("variant", v, unhex("c6 ffffffff 05000000 03000000 05000000 11000000 01010000 01000100"))
	for i := 0; i < e.o.N(300, 20000); i++ {
		id := 1 + e.rnd.Intn(13)
		mask := byte(id) | byte(e.rnd.Intn(4))<<6
		var b []byte
		width := map[int]int{1: 1, 2: 1, 3: 1, 4: 2, 5: 2, 6: 4, 7: 4, 8: 8, 9: 8, 10: 4, 11: 8, 13: 8}[id]
		elem := func() []byte {
			if id == 12 {
				s := e.rnd.Bytes(e.rnd.Intn(3))
				return append(le32(uint32(len(s))), s...)
			}
			return e.rnd.Bytes(width)
		}
		if mask&0x80 == 0 {
			b = append([]byte{mask}, elem()...)
		} else {
			dims := [][]uint32{{1}, {2}, {3}, {4}, {6}, {1, 1}, {2, 1}, {2, 2}, {3, 2}, {2, 3}, {2, 2, 2}, {1, 2, 3}, {6, 1}}[e.rnd.Intn(13)]
			n := uint32(1)
			for _, d := range dims {
				n *= d
			}
			if e.rnd.Chance(15) {
				n = 0xffffffff
			}
			b = append([]byte{mask}, le32(n)...)
			if n != 0xffffffff {
				for k := uint32(0); k < n; k++ {
					b = append(b, elem()...)
				}
			}
			if mask&0x40 != 0 {
				if e.rnd.Chance(15) {
					dims = nil
				}
				b = append(b, le32(uint32(len(dims)))...)
				for _, d := range dims {
					b = append(b, le32(d)...)
				}
			}
		}
		e.run("variant", v, b)
	}
	// masks with bits the codecs do not know
	for i := 0; i < e.o.N(200, 5000); i++ {
		e.run("masks", e.target("*ua.DataValue"), append([]byte{byte(e.rnd.Intn(256)) &^ 1}, e.rnd.Bytes(24)...))
		e.run("masks", e.target("*ua.DiagnosticInfo"), append([]byte{byte(e.rnd.Intn(256)) &^ 0x50}, e.rnd.Bytes(24)...))
		e.run("masks", e.target("*ua.LocalizedText"), append([]byte{byte(e.rnd.Intn(64)) << 2}, e.rnd.Bytes(4)...))
		e.run("masks", e.target("*ua.NodeID"), append([]byte{byte(e.rnd.Intn(3)) | byte(e.rnd.Intn(16))<<4}, e.rnd.Bytes(8)...))
		e.run("masks", e.target("*ua.ExpandedNodeID"), append([]byte{byte(e.rnd.Intn(3)) | byte(e.rnd.Intn(4))<<6}, append(e.rnd.Bytes(6), append(le32(1), 'x', 1, 0, 0, 0)...)...))
	}
}

func (e *env) generated(g *codecx.Gen) {
	n := e.o.N(2500, 40000)
	for i := 0; i < n; i++ {
		ti := e.rnd.Intn(len(e.targets))
		if e.rnd.Chance(40) {
			ti = e.rnd.Intn(18)
		}
		t := e.targets[ti]
		val := g.Value(t.Type, 0)
		if val.Kind() == reflect.Ptr && val.IsNil() {
			continue
		}
		b, res := encodeGuarded(val.Interface())
		if !strings.HasPrefix(res, "ok") {
			continue
		}
		if e.rnd.Chance(35) {
			e.run("valid", ti, b)
		} else {
			e.run("mutation", ti, codecx.Mutate(e.rnd, b))
		}
	}
	for i := 0; i < e.o.N(1500, 30000); i++ {
		b := e.rnd.Bytes(e.rnd.Intn(14))
		if len(b) > 0 && e.rnd.Chance(50) {
			b[0] = byte(e.rnd.Intn(32))
		}
		e.run("random", e.rnd.Intn(9), b)
	}
}

func (e *env) corpus() {
	for _, l := range e.o.CorpusLines() {
		e.replay(l)
	}
}

func (e *env) replay(l string) {
	l = strings.TrimPrefix(l, "dec ")
	i := strings.LastIndex(l, " ")
	if i < 0 {
		return
	}
	for k, t := range e.targets {
		if t.Ty == l[:i] {
			e.run("corpus", k, h.UnHex(l[i+1:]))
		}
	}
}

func main() {
	o := h.ParseOpts()
	r := h.NewResult("C03", o)
	d, err := h.StartDriver(o.Driver)
	if err != nil {
		r.InfraError = err.Error()
		r.Write(o.Out)
		return
	}
	defer d.Close()
	rnd := h.NewRand(o.Seed)
	e := &env{o: o, r: r, d: d, rnd: rnd, targets: codecx.Targets(), byName: map[string]int{}, sigSeen: map[string]int{}}
	for i, t := range e.targets {
		e.byName[t.Name] = i
	}
	// values as the public constructors build them; extension objects with empty bodies included (they decode to Value nil)
	g := &codecx.Gen{R: rnd, Reg: codecx.RegisteredTypes(), MaxDepth: 2, EmptyBodies: true}
	r.Rule = "case = (target type, byte string): ua.Decode, ua.Encode of the decoded value, ua.Decode again, each step against the Lean model; non-trivial = the first decode succeeds; distinct by (type, bytes)"
	defer func() {
		if x := recover(); x != nil && fmt.Sprint(x) != "stop" {
			panic(x)
		}
	}()
	if o.Replay != "" {
		e.replay(o.Replay)
		r.Write(o.Out)
		return
	}
	e.corpus()
	e.directed()
	e.generated(g)
	r.Write(o.Out)
}
