// Correspondence runner and property oracle for C30: real in-process servers
// for many enabled-sets × OpenSecureChannel requests with every policy / mode
// (standard uasc client channel and hand-built OPN chunks), against the Lean
// model of EnableSecurity / initEndpoints / GetEndpoints / OPN acceptance.
//
// The oracle is evaluated on the implementation alone: a channel the server
// activated must carry an enabled (policy, mode) pair, and the advertised
// endpoints must be exactly the enabled pairs.
package main

import (
	"bytes"
	"context"
	"crypto/ecdsa"
	"crypto/elliptic"
	"crypto/rand"
	"crypto/x509"
	"crypto/x509/pkix"
	"encoding/json"
	"fmt"
	"math/big"
	"os"
	"os/exec"
	"sort"
	"strconv"
	"strings"
	"sync"
	"time"

	"github.com/gopcua/opcua"
	"github.com/gopcua/opcua/server"
	"github.com/gopcua/opcua/ua"
	"github.com/gopcua/opcua/uapolicy"

	"verifharness/internal/h"
	"verifharness/internal/srvx"
)

type pair struct {
	P string // short policy name
	M uint32
}

func (p pair) String() string { return fmt.Sprintf("%s:%d", p.P, p.M) }

func pairsStr(ps []pair) string {
	if len(ps) == 0 {
		return "-"
	}
	s := make([]string, len(ps))
	for i, p := range ps {
		s[i] = p.String()
	}
	return strings.Join(s, " ")
}

func parsePairs(s string) []pair {
	var out []pair
	for _, t := range strings.Fields(strings.ReplaceAll(s, ",", " ")) {
		if t == "-" {
			continue
		}
		i := strings.LastIndex(t, ":")
		m, _ := strconv.Atoi(t[i+1:])
		out = append(out, pair{t[:i], uint32(m)})
	}
	return out
}

// the pairs a conforming client can ask for
func validPairs() []pair {
	var out []pair
	for _, uri := range uapolicy.SupportedPolicies() {
		p := srvx.Short(uri)
		if uri == ua.SecurityPolicyURINone {
			out = append(out, pair{p, 1})
		} else {
			out = append(out, pair{p, 2}, pair{p, 3})
		}
	}
	return out
}

func isSupported(p string) bool {
	for _, uri := range uapolicy.SupportedPolicies() {
		if srvx.Short(uri) == p {
			return true
		}
	}
	return false
}

// classify is the finding signature of an accepted pair (the decidable
// predicate on the case; the same function exists in Lean and is compared).
func classify(enabled []pair, s pair) string {
	hasPolicy := false
	for _, e := range enabled {
		if e == s {
			return "enabled"
		}
		if e.P == s.P {
			hasPolicy = true
		}
	}
	switch {
	case s.P == "None" && s.M == 1:
		return "C30.accept-none-not-enabled"
	case s.P == "None":
		return "C30.accept-none-policy-with-mode"
	case s.M == 1:
		return "C30.accept-secure-policy-mode-none"
	case s.M != 2 && s.M != 3:
		return "C30.accept-invalid-mode"
	case hasPolicy:
		return "C30.accept-mode-not-enabled"
	default:
		return "C30.accept-policy-not-enabled"
	}
}

// ---------------------------------------------------------------- probes

// probe describes one OpenSecureChannel attempt.
type probe struct {
	Kind string // std | raw
	P    string // policy token: short name, "-" (empty URI) or an unsupported name
	M    uint32
	Body string // plain | secured | garbage
	Cert string // absent | good | unparsable | nonrsa
	Ver  uint32
	Tok  uint32
}

func (p probe) String() string {
	return fmt.Sprintf("%s/%s/%d/%s/%s/%d/%d", p.Kind, p.P, p.M, p.Body, p.Cert, p.Ver, p.Tok)
}

func parseProbe(s string) (probe, error) {
	f := strings.Split(s, "/")
	if len(f) != 7 {
		return probe{}, fmt.Errorf("bad probe %q", s)
	}
	m, _ := strconv.Atoi(f[2])
	v, _ := strconv.Atoi(f[5])
	t, _ := strconv.Atoi(f[6])
	return probe{f[0], f[1], uint32(m), f[3], f[4], uint32(v), uint32(t)}, nil
}

func uriOf(tok string) string {
	if tok == "-" {
		return ""
	}
	return srvx.PolicyPrefix + tok
}

func stdProbe(p pair) probe {
	if p.P == "None" {
		return probe{"std", p.P, p.M, "plain", "absent", 0, 0}
	}
	return probe{"std", p.P, p.M, "secured", "good", 0, 0}
}

func rawOf(p pair) probe {
	q := stdProbe(p)
	q.Kind = "raw"
	return q
}

// the probes of one configuration: the valid pairs through the real client
// channel and as hand-built chunks, and the irregular requests.
func probesFor(rnd *h.Rand, thorough bool) []probe {
	var out []probe
	for _, p := range validPairs() {
		out = append(out, stdProbe(p), rawOf(p))
	}
	var secure []string
	for _, uri := range uapolicy.SupportedPolicies() {
		if uri != ua.SecurityPolicyURINone {
			secure = append(secure, srvx.Short(uri))
		}
	}
	pick := []string{secure[rnd.Intn(len(secure))]}
	if thorough {
		pick = secure
	}
	out = append(out,
		probe{"raw", "None", 2, "plain", "absent", 0, 0},
		probe{"raw", "None", 2, "plain", "good", 0, 0},
		probe{"raw", "None", 3, "plain", "absent", 0, 0},
		probe{"raw", "None", 0, "plain", "absent", 0, 0},
		probe{"raw", "None", 1, "plain", "good", 0, 0},
		probe{"raw", "None", 1, "plain", "absent", 1, 0},
		probe{"raw", "None", 1, "plain", "absent", 0, 5},
		probe{"raw", "Bogus", 1, "plain", "absent", 0, 0},
		probe{"raw", "Bogus", 3, "plain", "good", 0, 0},
		probe{"raw", "-", 1, "plain", "absent", 0, 0},
	)
	for _, p := range pick {
		out = append(out,
			probe{"raw", p, 1, "secured", "good", 0, 0},
			probe{"raw", p, 0, "secured", "good", 0, 0},
			probe{"raw", p, uint32(4 + rnd.Intn(200)), "secured", "good", 0, 0},
			probe{"raw", p, 3, "plain", "good", 0, 0},
			probe{"raw", p, 1, "plain", "absent", 0, 0},
			probe{"raw", p, 2, "plain", "unparsable", 0, 0},
			probe{"raw", p, 2, "plain", "nonrsa", 0, 0},
			probe{"raw", p, 3, "garbage", "good", 0, 0},
			probe{"raw", p, 3, "secured", "good", 1, 0},
			probe{"raw", p, 2, "secured", "good", 0, 7},
		)
	}
	return out
}

type ids struct {
	srv    *h.KeyPair
	cl     *srvx.Identity
	other  []byte // a certificate that is not the server's
	nonRSA []byte
}

type outcome struct {
	Res    string // accept <p> <m> | reject
	Usable string // for std probes: "usable" when a request went through the channel, else reason
	Err    string
}

// waitIdle waits until the broker holds no channel.
func waitIdle(inst *srvx.Inst) bool {
	return srvx.WaitUntil(5*time.Second, func() bool { return len(inst.V.Channels()) == 0 })
}

func runProbe(inst *srvx.Inst, id *ids, p probe) outcome {
	if !waitIdle(inst) {
		return outcome{Res: "infra", Err: "server keeps a channel from an earlier probe"}
	}
	ctx, cancel := context.WithTimeout(context.Background(), 20*time.Second)
	defer cancel()
	conn, chID, err := inst.DialRegistered(ctx)
	if err != nil {
		if strings.Contains(err.Error(), "was not registered") {
			// TCP connect and HEL/ACK worked, but the server never set up a secure channel for the connection
			return outcome{Res: "unregistered", Err: err.Error()}
		}
		return outcome{Res: "infra", Err: err.Error()}
	}
	if p.Kind == "std" {
		// the real client channel; a watcher cancels Open as soon as the server dropped the channel
		octx, ocancel := context.WithCancel(ctx)
		var verdict string
		var wg sync.WaitGroup
		wg.Add(1)
		go func() {
			defer wg.Done()
			verdict = inst.Verdict(chID)
			if !strings.HasPrefix(verdict, "accept") {
				ocancel()
			}
		}()
		c, err := srvx.OpenOn(octx, conn, inst.URL, uriOf(p.P), ua.MessageSecurityMode(p.M), id.cl, id.srv.CertDER, 6*time.Second)
		if err != nil && c == nil {
			conn.Close() // lets the watcher see the channel go away when the client refused to send anything
		}
		wg.Wait()
		ocancel()
		o := outcome{Res: verdict}
		if err != nil {
			o.Err = err.Error()
			o.Usable = "open-failed"
		}
		if c != nil {
			// one request through the channel shows that it really works
			resp, err := c.Call(ctx, &ua.GetEndpointsRequest{EndpointURL: "opc.tcp://localhost:0"}, nil, 5*time.Second)
			if err == nil && resp != nil {
				o.Usable = "usable"
			} else {
				o.Usable = fmt.Sprintf("request failed: %v", err)
			}
			c.Close()
		}
		return o
	}
	defer conn.Close()
	r := &srvx.RawOPN{PolicyURI: uriOf(p.P), ModeField: p.M, Client: id.cl, ServerCert: id.srv.CertDER,
		ProtoVer: p.Ver, AuthTokenID: p.Tok, NonceLen: -1, ReqID: 1, RequestType: ua.SecurityTokenRequestTypeIssue}
	switch p.Body {
	case "secured":
		r.Secure = true
	case "garbage":
		r.Secure = true
		r.ServerCert = id.other // encrypted to somebody else's key
	}
	switch p.Cert {
	case "good":
		r.SendCert = true
	case "unparsable":
		r.SendCert = true
		r.Client = &srvx.Identity{Key: id.cl.Key, Cert: []byte{0x30, 0x03, 0x02, 0x01, 0x01}}
	case "nonrsa":
		r.SendCert = true
		r.Client = &srvx.Identity{Key: id.cl.Key, Cert: id.nonRSA}
	}
	b, _, err := r.Build(conn.SendBufSize())
	if err != nil {
		return outcome{Res: "infra", Err: "build: " + err.Error()}
	}
	if _, err := conn.Write(b); err != nil {
		return outcome{Res: "infra", Err: "write: " + err.Error()}
	}
	return outcome{Res: inst.Verdict(chID)}
}

// ---------------------------------------------------------------- configurations

type config struct {
	Name    string
	Intent  []pair   // the pairs the embedding application wants enabled
	Calls   []string // EnableSecurity calls "name:mode" as issued (spellings, duplicates, unsupported names)
	Witness bool     // run the full-client witness of the downgrade finding here
}

func callsOf(ps []pair) []string {
	out := make([]string, len(ps))
	for i, p := range ps {
		out[i] = p.String()
	}
	return out
}

func buildConfigs(o *h.Opts, rnd *h.Rand) []config {
	all := validPairs()
	var cfgs []config
	idx := func(p pair) int {
		for i, q := range all {
			if q == p {
				return i
			}
		}
		return -1
	}
	// the configuration of the recorded witness first
	w := []pair{{"Basic256Sha256", 3}}
	cfgs = append(cfgs, config{Name: "only-Basic256Sha256:3", Intent: w, Calls: callsOf(w), Witness: true})
	for _, p := range all {
		if p == w[0] {
			continue
		}
		cfgs = append(cfgs, config{Name: "only-" + p.String(), Intent: []pair{p}, Calls: callsOf([]pair{p})})
	}
	compl := func(p pair) config {
		var ps []pair
		for _, q := range all {
			if q != p {
				ps = append(ps, q)
			}
		}
		return config{Name: "all-but-" + p.String(), Intent: ps, Calls: callsOf(ps)}
	}
	if o.Thorough() {
		for _, p := range all {
			cfgs = append(cfgs, compl(p))
		}
	} else {
		// None/None missing is the interesting complement; two more by seed
		cfgs = append(cfgs, compl(pair{"None", 1}))
		seen := map[int]bool{idx(pair{"None", 1}): true}
		for len(seen) < 4 {
			k := rnd.Intn(len(all))
			if !seen[k] {
				seen[k] = true
				cfgs = append(cfgs, compl(all[k]))
			}
		}
	}
	cfgs = append(cfgs, config{Name: "all", Intent: all, Calls: callsOf(all)})
	cfgs = append(cfgs, config{Name: "empty", Intent: nil, Calls: nil})
	// spellings: long URIs, duplicates, unsupported names
	{
		ps := []pair{{"Basic256", 2}, {"None", 1}}
		calls := []string{"Basic256:2", srvx.PolicyPrefix + "Basic256:2", "Bogus:3", srvx.PolicyPrefix + "None:1", "None:1", "basic256:2"}
		cfgs = append(cfgs, config{Name: "spellings", Intent: ps, Calls: calls})
	}
	// the same sets enabled in other ORDERS and spellings: the configured set must not depend on them
	{
		rev := make([]pair, len(all))
		for i, p := range all {
			rev[len(all)-1-i] = p
		}
		cfgs = append(cfgs, config{Name: "all-reversed", Intent: rev, Calls: callsOf(rev)})
		// reversed, URI and short spellings alternating, every call issued twice in the other spelling
		var calls []string
		for i, p := range rev {
			a, b := p.String(), srvx.PolicyPrefix+p.String()
			if i%2 == 1 {
				a, b = b, a
			}
			calls = append(calls, a, b)
		}
		cfgs = append(cfgs, config{Name: "all-reversed-mixed-spellings", Intent: rev, Calls: calls})
		// prefix-related policy names next to each other, longer name first
		ps := []pair{{"Basic256Sha256", 2}, {"Basic256", 2}, {"Basic256Sha256", 3}, {"Basic256", 3}, {"Aes256_Sha256_RsaPss", 3}, {"Aes128_Sha256_RsaOaep", 3}}
		cfgs = append(cfgs, config{Name: "all-prefix-names-longer-first", Intent: ps, Calls: callsOf(ps)})
		// a seeded permutation of everything
		perm := append([]pair(nil), all...)
		for j := len(perm) - 1; j > 0; j-- {
			k := rnd.Intn(j + 1)
			perm[j], perm[k] = perm[k], perm[j]
		}
		cfgs = append(cfgs, config{Name: "all-permuted", Intent: perm, Calls: callsOf(perm)})
	}
	// pairs EnableSecurity accepts although no client can use them: None with a signing mode
	{
		ps := []pair{{"None", 1}, {"None", 2}, {"Basic256", 3}}
		cfgs = append(cfgs, config{Name: "odd-pairs", Intent: ps, Calls: callsOf(ps)})
	}
	for i := 0; i < o.N(2, 24); i++ {
		var ps []pair
		for _, p := range all {
			if rnd.Chance(40) {
				ps = append(ps, p)
			}
		}
		// random order of the calls, some duplicates
		calls := callsOf(ps)
		for j := len(calls) - 1; j > 0; j-- {
			k := rnd.Intn(j + 1)
			calls[j], calls[k] = calls[k], calls[j]
		}
		if len(calls) > 0 && rnd.Bool() {
			calls = append(calls, calls[rnd.Intn(len(calls))])
		}
		var intent []pair
		for _, c := range calls {
			q := parsePairs(c)[0]
			dup := false
			for _, e := range intent {
				dup = dup || e == q
			}
			if !dup {
				intent = append(intent, q)
			}
		}
		cfgs = append(cfgs, config{Name: fmt.Sprintf("random-%d", i), Intent: intent, Calls: calls})
	}
	return cfgs
}

type epRow struct {
	URL string
	P   string
	M   uint32
}

func epStr(rows []epRow) string {
	if len(rows) == 0 {
		return "-"
	}
	s := make([]string, len(rows))
	for i, r := range rows {
		s[i] = fmt.Sprintf("%s|%s|%d", r.URL, r.P, r.M)
	}
	return strings.Join(s, " ")
}

func rowsOf(eps []*ua.EndpointDescription) []epRow {
	var out []epRow
	for _, e := range eps {
		out = append(out, epRow{e.EndpointURL, srvx.Short(e.SecurityPolicyURI), uint32(e.SecurityMode)})
	}
	return out
}

type renewRes struct {
	From, To pair
	Res      string // accept <p> <m> | reject | infra: …
}

type cfgResult struct {
	Renew     []renewRes
	Crash     string // the process that ran this configuration's server died: last probe and panic text
	Cfg       config
	Err       string
	Enabled   []pair   // cfg.enabledSec as the server holds it
	URLs      []string // cfg.endpoints
	Endpoints []epRow  // Server.Endpoints()
	GetEP     map[string][]epRow
	GetEPErr  string
	Probes    []probe
	Out       []outcome
	Witness   string
}

func runConfig(c config, probes []probe, id *ids) *cfgResult {
	res := &cfgResult{Cfg: c, Probes: probes, GetEP: map[string][]epRow{}}
	opts := []server.Option{server.PrivateKey(id.srv.Key), server.Certificate(id.srv.CertDER), server.EnableAuthMode(ua.UserTokenTypeAnonymous)}
	for _, call := range c.Calls {
		i := strings.LastIndex(call, ":")
		m, _ := strconv.Atoi(call[i+1:])
		opts = append(opts, server.EnableSecurity(call[:i], ua.MessageSecurityMode(m)))
	}
	inst, err := srvx.Start(opts...)
	if err != nil {
		res.Err = "start: " + err.Error()
		return res
	}
	defer inst.Close()
	ps, ms := inst.V.EnabledSec()
	for i := range ps {
		res.Enabled = append(res.Enabled, pair{srvx.Short(ps[i]), uint32(ms[i])})
	}
	res.URLs = inst.S.URLs()
	res.Endpoints = rowsOf(inst.S.Endpoints())

	bad := 0
	for _, p := range probes {
		fmt.Fprintf(os.Stderr, "PROBE %s\n", p.String())
		if bad >= 3 {
			// the server no longer gives verdicts: do not spend 8 s on each remaining probe
			res.Out = append(res.Out, outcome{Res: "skipped"})
			continue
		}
		o := runProbe(inst, id, p)
		if o.Res == "undecided" || o.Res == "infra" || o.Res == "unregistered" {
			bad++
		} else {
			bad = 0
		}
		res.Out = append(res.Out, o)
	}
	fmt.Fprintf(os.Stderr, "PROBE (after the probes)\n")

	// renewal: a conforming client opens a channel and sends a second OPN with other settings
	fmt.Fprintf(os.Stderr, "PROBE (renewals)\n")
	for _, t := range renewPairs {
		res.Renew = append(res.Renew, runRenew(inst, id, t[0], t[1]))
	}

	// GetEndpoints through a channel with the first enabled pair (None/None when nothing is enabled)
	if waitIdle(inst) {
		first := pair{"None", 1}
		if len(res.Enabled) > 0 {
			first = res.Enabled[0]
		}
		ctx, cancel := context.WithTimeout(context.Background(), 10*time.Second)
		ch, err := srvx.OpenStd(ctx, inst.URL, uriOf(first.P), ua.MessageSecurityMode(first.M), id.cl, id.srv.CertDER, 5*time.Second)
		if err != nil {
			res.GetEPErr = "channel for GetEndpoints (" + first.String() + "): " + err.Error()
		} else {
			for _, u := range getepURLs(res.URLs) {
				resp, err := ch.Call(ctx, &ua.GetEndpointsRequest{EndpointURL: u}, nil, 5*time.Second)
				if err != nil {
					res.GetEPErr = "GetEndpoints: " + err.Error()
					break
				}
				g, ok := resp.(*ua.GetEndpointsResponse)
				if !ok {
					res.GetEPErr = fmt.Sprintf("GetEndpoints: got %T", resp)
					break
				}
				res.GetEP[u] = rowsOf(g.Endpoints)
			}
			ch.Close()
		}
		cancel()
	}

	if c.Witness {
		res.Witness = witness(inst)
	}
	return res
}

const childEnv = "VERIF_C30_CHILD"

type childJob struct {
	Cfg    config
	Probes []probe
	Keys   string
}

// maybeChild: every configuration's server runs in a child process of the runner, so that a
// server that dies (a panic in a connection goroutine) is a reportable outcome.
func maybeChild() {
	js := os.Getenv(childEnv)
	if js == "" {
		return
	}
	srvx.Quiet()
	var job childJob
	if err := json.Unmarshal([]byte(js), &job); err != nil {
		fmt.Fprintln(os.Stderr, "bad job:", err)
		os.Exit(3)
	}
	id, err := loadIDs(job.Keys)
	if err != nil {
		fmt.Fprintln(os.Stderr, "keys:", err)
		os.Exit(3)
	}
	res := runConfig(job.Cfg, job.Probes, id)
	b, _ := json.Marshal(res)
	os.Stdout.Write(b)
	os.Exit(0)
}

func loadIDs(keys string) (*ids, error) {
	srvKey, err := h.LoadKey(keys, 2048, "a")
	if err != nil {
		return nil, err
	}
	clKey, err := h.LoadKey(keys, 2048, "b")
	if err != nil {
		return nil, err
	}
	return &ids{srv: srvKey, cl: &srvx.Identity{Key: clKey.Key, Cert: clKey.CertDER}, other: clKey.CertDER, nonRSA: makeNonRSACert()}, nil
}

func runConfigChild(c config, probes []probe, keys string) *cfgResult {
	js, _ := json.Marshal(childJob{c, probes, keys})
	ctx, cancel := context.WithTimeout(context.Background(), 10*time.Minute)
	defer cancel()
	cmd := exec.CommandContext(ctx, os.Args[0])
	cmd.Env = append(os.Environ(), childEnv+"="+string(js), "GOTRACEBACK=single")
	var out, errb bytes.Buffer
	cmd.Stdout, cmd.Stderr = &out, &errb
	runErr := cmd.Run()
	res := new(cfgResult)
	if runErr == nil && json.Unmarshal(out.Bytes(), res) == nil {
		return res
	}
	// the process died: which probe was it working on, and why
	last, msg := "?", ""
	for _, l := range strings.Split(errb.String(), "\n") {
		if strings.HasPrefix(l, "PROBE ") {
			last = strings.TrimPrefix(l, "PROBE ")
		}
		if (strings.HasPrefix(l, "panic: ") || strings.HasPrefix(l, "fatal error: ")) && msg == "" {
			msg = l
		}
	}
	res = &cfgResult{Cfg: c, Probes: probes, GetEP: map[string][]epRow{}}
	if msg == "" {
		res.Err = fmt.Sprintf("child process: %v: %s", runErr, tail(errb.String(), 300))
		return res
	}
	res.Crash = fmt.Sprintf("%s [%s]", last, msg)
	return res
}

func tail(s string, n int) string {
	if len(s) > n {
		return s[len(s)-n:]
	}
	return s
}

var renewPairs = [][2]pair{
	{{"Basic256Sha256", 3}, {"Basic256Sha256", 3}}, {{"Basic256Sha256", 3}, {"Basic256Sha256", 2}},
	{{"Basic256Sha256", 2}, {"Aes128_Sha256_RsaOaep", 3}}, {{"Basic256", 3}, {"None", 1}},
	{{"None", 1}, {"Basic128Rsa15", 2}}, {{"None", 1}, {"None", 1}},
}

// runRenew opens a channel with `from` through the real client code, switches the client's
// configuration to `to` and sends a renewal request; the verdict is read from the server's channel table.
func runRenew(inst *srvx.Inst, id *ids, from, to pair) renewRes {
	out := renewRes{From: from, To: to}
	if !waitIdle(inst) {
		out.Res = "infra: server keeps a channel"
		return out
	}
	ctx, cancel := context.WithTimeout(context.Background(), 30*time.Second)
	defer cancel()
	conn, chID, err := inst.DialRegistered(ctx)
	if err != nil {
		out.Res = "infra: " + err.Error()
		return out
	}
	c, err := srvx.OpenOn(ctx, conn, inst.URL, uriOf(from.P), ua.MessageSecurityMode(from.M), id.cl, id.srv.CertDER, 6*time.Second)
	if err != nil {
		out.Res = "infra: first open refused: " + err.Error()
		return out
	}
	defer c.Close()
	cfg := c.SC.VerifConfig()
	cfg.SecurityPolicyURI, cfg.SecurityMode = uriOf(to.P), ua.MessageSecurityMode(to.M)
	cfg.RequestTimeout = 2 * time.Second
	if to.P != "None" {
		cfg.Certificate, cfg.LocalKey, cfg.RemoteCertificate, cfg.Thumbprint = id.cl.Cert, id.cl.Key, id.srv.CertDER, uapolicy.Thumbprint(id.srv.CertDER)
	}
	rerr := c.SC.Renew(ctx)
	// the server's view after the renewal request
	srvx.WaitUntil(time.Second, func() bool {
		ch, ok := inst.Channel(chID)
		return !ok || (srvx.Short(ch.Policy) == to.P && uint32(ch.Mode) == to.M)
	})
	ch, ok := inst.Channel(chID)
	switch {
	case !ok:
		out.Res = "reject"
	case rerr == nil:
		out.Res = fmt.Sprintf("accept %s %d", srvx.Short(ch.Policy), uint32(ch.Mode))
		// the renewed channel must work
		if r := c.Do(&ua.GetEndpointsRequest{EndpointURL: "x"}, nil, 3*time.Second); r.Class != "ok" {
			out.Res += " unusable:" + r.Class
		}
	default:
		out.Res = "reject" // the client got no answer although the server keeps the channel registered
		if ch.Active && srvx.Short(ch.Policy) == to.P {
			out.Res = fmt.Sprintf("accept %s %d client-error", srvx.Short(ch.Policy), uint32(ch.Mode))
		}
	}
	return out
}

func getepURLs(urls []string) []string {
	if len(urls) == 0 {
		return nil
	}
	u := urls[0]
	return []string{u, strings.ToUpper(u), u + "/other"}
}

// witness: an ordinary client with default settings (policy None, mode None,
// anonymous) connects to a server that enabled only Basic256Sha256 /
// SignAndEncrypt and reads the server's clock.
func witness(inst *srvx.Inst) string {
	waitIdle(inst)
	ctx, cancel := context.WithTimeout(context.Background(), 10*time.Second)
	defer cancel()
	c, err := opcua.NewClient(inst.URL, opcua.SecurityMode(ua.MessageSecurityModeNone), opcua.AutoReconnect(false), opcua.RequestTimeout(5*time.Second))
	if err != nil {
		return "no: NewClient: " + err.Error()
	}
	if err := c.Connect(ctx); err != nil {
		return "no: Connect: " + err.Error()
	}
	defer c.Close(ctx)
	resp, err := c.Read(ctx, &ua.ReadRequest{NodesToRead: []*ua.ReadValueID{{NodeID: ua.NewNumericNodeID(0, 2258), AttributeID: ua.AttributeIDValue}}})
	if err != nil {
		return "no: Read: " + err.Error()
	}
	if len(resp.Results) != 1 || resp.Results[0].Status != ua.StatusOK || resp.Results[0].Value == nil {
		return "no: Read result not good"
	}
	if _, ok := resp.Results[0].Value.Value().(time.Time); !ok {
		return "no: value is not a time"
	}
	return "yes"
}

func makeNonRSACert() []byte {
	k, err := ecdsa.GenerateKey(elliptic.P256(), rand.Reader)
	if err != nil {
		return nil
	}
	tmpl := &x509.Certificate{SerialNumber: big.NewInt(7), Subject: pkix.Name{CommonName: "verif ecdsa"},
		NotBefore: time.Now().Add(-time.Hour), NotAfter: time.Now().Add(24 * time.Hour)}
	der, err := x509.CreateCertificate(rand.Reader, tmpl, tmpl, &k.PublicKey, k)
	if err != nil {
		return nil
	}
	return der
}

// ---------------------------------------------------------------- evaluation

func has(ps []pair, p pair) bool {
	for _, q := range ps {
		if q == p {
			return true
		}
	}
	return false
}

func sortedPairs(ps []pair) []pair {
	out := append([]pair(nil), ps...)
	sort.Slice(out, func(i, j int) bool {
		if out[i].P != out[j].P {
			return out[i].P < out[j].P
		}
		return out[i].M < out[j].M
	})
	return out
}

var failCount = map[string]int{}

func evaluate(r *h.Result, d *h.Driver, res *cfgResult) {
	c := res.Cfg
	tag := "E=" + strings.ReplaceAll(pairsStr(c.Intent), " ", ",")
	if res.Err != "" {
		r.InfraError = c.Name + ": " + res.Err
		return
	}
	if res.Crash != "" {
		r.Count(tag+" crash", true)
		r.Fail(tag+" P="+strings.Fields(res.Crash)[0], "", fmt.Sprintf("the server process (enabled {%s}) died while the runner was at probe %s", pairsStr(c.Intent), res.Crash))
		r.Hit("server-crash")
		return
	}
	r.Hit("config:" + strings.SplitN(c.Name, "-", 2)[0])

	// ---- EnableSecurity: the configured set
	{
		line := "enable " + strings.Join(c.Calls, " ")
		r.Count(line, true)
		r.Compare(d, strings.TrimSpace(line), pairsStr(res.Enabled))
		// oracle: the server holds exactly the intended pairs, in call order, once each
		if pairsStr(res.Enabled) != pairsStr(c.Intent) {
			r.Fail(tag+" calls="+strings.Join(c.Calls, ","), "", fmt.Sprintf("EnableSecurity calls %v leave enabledSec = %s, intended %s", c.Calls, pairsStr(res.Enabled), pairsStr(c.Intent)))
		}
	}
	// ---- initEndpoints: advertised = enabled × urls
	{
		line := fmt.Sprintf("endp %d %s %s", len(res.URLs), strings.Join(res.URLs, " "), pairsStr(res.Enabled))
		line = strings.TrimSuffix(line, " -")
		r.Count(line, true)
		r.Compare(d, line, epStr(res.Endpoints))
		want := map[string]int{}
		for _, p := range c.Intent {
			for _, u := range res.URLs {
				want[fmt.Sprintf("%s|%s|%d", u, p.P, p.M)]++
			}
		}
		got := map[string]int{}
		for _, e := range res.Endpoints {
			got[fmt.Sprintf("%s|%s|%d", e.URL, e.P, e.M)]++
		}
		if fmt.Sprint(want) != fmt.Sprint(got) {
			r.Fail(tag+" endpoints", "", fmt.Sprintf("Endpoints() advertises %s, enabled pairs are %s", epStr(res.Endpoints), pairsStr(c.Intent)))
		}
		r.Hit("endpoints")
	}
	// ---- GetEndpoints
	if res.GetEPErr != "" {
		r.Fail(tag+" getendpoints", "", res.GetEPErr)
	}
	for _, u := range getepURLs(res.URLs) {
		rows, ok := res.GetEP[u]
		if !ok {
			continue
		}
		line := strings.TrimSuffix(fmt.Sprintf("getep %s %d %s %s", u, len(res.URLs), strings.Join(res.URLs, " "), pairsStr(res.Enabled)), " -")
		r.Count(line, true)
		r.Compare(d, line, epStr(rows))
		r.Hit("getendpoints")
		if strings.EqualFold(u, res.URLs[0]) {
			var ps []pair
			for _, e := range rows {
				ps = append(ps, pair{e.P, e.M})
			}
			if pairsStr(sortedPairs(ps)) != pairsStr(sortedPairs(c.Intent)) {
				r.Fail(tag+" getendpoints url="+u, "", fmt.Sprintf("GetEndpoints returns pairs %s, enabled %s", pairsStr(ps), pairsStr(c.Intent)))
			}
		}
	}
	// ---- OpenSecureChannel probes
	for i, p := range res.Probes {
		o := res.Out[i]
		cs := tag + " P=" + p.String()
		if o.Res == "skipped" {
			continue
		}
		if o.Res == "infra" || o.Res == "" {
			r.InfraError = cs + ": " + o.Res + " " + o.Err
			continue
		}
		line := strings.TrimSuffix(fmt.Sprintf("opn %s %s %s %d %d %d %s", p.P, p.Cert, p.Body, p.Ver, p.Tok, p.M, pairsStr(res.Enabled)), " -")
		r.Count(line+" "+p.Kind, true)
		r.Compare(d, line, o.Res)
		r.Hit(p.Kind + ":" + strings.Fields(o.Res)[0])
		if r.Evaluations%97 == 0 {
			r.Sample(cs + " -> " + o.Res)
		}
		if p.Kind == "std" {
			// the client's view and the server's view must be the same thing
			if strings.HasPrefix(o.Res, "accept") != (o.Usable == "usable") {
				r.Fail(cs, "", fmt.Sprintf("server says %q but the client channel is %q (%s)", o.Res, o.Usable, o.Err))
			}
		}
		if !strings.HasPrefix(o.Res, "accept") {
			r.Hit("class:rejected")
			continue
		}
		f := strings.Fields(o.Res)
		m, _ := strconv.Atoi(f[2])
		got := pair{f[1], uint32(m)}
		// the property's own oracle, on the implementation alone
		if want := (pair{p.P, p.M}); got != want {
			r.Fail(cs, "", fmt.Sprintf("channel opened as %s for a request asking for %s", got, want))
		}
		cl := classify(c.Intent, got)
		r.Hit("class:" + cl)
		r.Compare(d, strings.TrimSuffix(fmt.Sprintf("class %s %d %s", got.P, got.M, pairsStr(res.Enabled)), " -"), cl)
		if cl != "enabled" {
			detail := fmt.Sprintf("server with enabled pairs {%s} opened a channel with %s (%s)", pairsStr(c.Intent), got, p.Kind)
			if failCount[cl] < 3 { // h.Result keeps 50 failures: leave room for unlisted ones
				failCount[cl]++
				r.Fail(cs, cl, detail)
			}
			if cl == "C30.accept-none-not-enabled" && res.Witness != "yes" && c.Witness {
				// the recorded witness includes reading a value; without that only the channel is confirmed
				detail += "; full client witness: " + res.Witness
			}
			r.Confirm(cl, detail)
		}
	}
	for _, t := range res.Renew {
		cs := fmt.Sprintf("%s R=%s->%s", tag, t.From, t.To)
		if strings.HasPrefix(t.Res, "infra") {
			r.InfraError = cs + ": " + t.Res
			continue
		}
		line := strings.TrimSuffix(fmt.Sprintf("renew %s %d %s %d %s", t.From.P, t.From.M, t.To.P, t.To.M, pairsStr(res.Enabled)), " -")
		r.Count(line, true)
		r.Compare(d, line, t.Res)
		r.Hit("renew:" + strings.Fields(t.Res)[0])
		if !strings.HasPrefix(t.Res, "accept") {
			continue
		}
		// oracle: the renewed channel must (still) carry an enabled pair
		cl := "enabled"
		if !has(c.Intent, t.To) {
			cl = "C30.renew-switches-security"
		}
		r.Compare(d, strings.TrimSuffix(fmt.Sprintf("classrenew %s %d %s", t.To.P, t.To.M, pairsStr(res.Enabled)), " -"), cl)
		if cl != "enabled" {
			detail := fmt.Sprintf("server with enabled pairs {%s}: a channel opened with %s was switched to %s by a renewal request", pairsStr(c.Intent), t.From, t.To)
			if failCount[cl] < 3 {
				failCount[cl]++
				r.Fail(cs, cl, detail)
			}
			r.Confirm(cl, detail)
			r.Hit("class:" + cl)
		}
	}
	if c.Witness {
		r.Hit("witness:" + strings.Fields(res.Witness + " ")[0])
		r.Sample("default client (None/None, anonymous) against enabled={" + pairsStr(c.Intent) + "}: connected and read i=2258: " + res.Witness)
	}
}

func main() {
	maybeChild()
	o := h.ParseOpts()
	srvx.Quiet()
	r := h.NewResult("C30", o)
	d, err := h.StartDriver(o.Driver)
	if err != nil {
		r.InfraError = err.Error()
		r.Write(o.Out)
		return
	}
	defer d.Close()
	rnd := h.NewRand(o.Seed)
	r.Rule = "case = (enabled set, OpenSecureChannel request): real in-process server per enabled set (all singletons, complements, full, empty, spellings, seeded random subsets) x requests for all 11 valid pairs through the real uasc client channel and as hand-built chunks, plus irregular requests (policy None with signing modes, secure policy with mode None / invalid modes, unsupported or empty URI, plain or wrongly encrypted body under a secure policy, missing / unparsable / non-RSA certificate, protocol version, authentication token); outcome observed in the server's channel table; also EnableSecurity results, Endpoints() and GetEndpoints answers; distinct by (enabled set, request)"

	var cfgs []config
	var probeSets [][]probe
	if o.Replay != "" {
		// "E=<p:m,…|-> P=<probe>"
		var e, p string
		for _, f := range strings.Fields(o.Replay) {
			if strings.HasPrefix(f, "E=") {
				e = f[2:]
			}
			if strings.HasPrefix(f, "P=") {
				p = f[2:]
			}
		}
		ps := parsePairs(e)
		c := config{Name: "replay", Intent: ps, Calls: callsOf(ps)}
		cfgs = append(cfgs, c)
		var set []probe
		if q, err := parseProbe(p); err == nil {
			set = append(set, q)
		}
		probeSets = append(probeSets, set)
	} else {
		// corpus first: recorded witnesses
		for _, l := range o.CorpusLines() {
			var e, p string
			for _, f := range strings.Fields(l) {
				if strings.HasPrefix(f, "E=") {
					e = f[2:]
				}
				if strings.HasPrefix(f, "P=") {
					p = f[2:]
				}
			}
			q, err := parseProbe(p)
			if err != nil {
				continue
			}
			ps := parsePairs(e)
			// corpus probes of the same enabled set share a server
			found := false
			for i := range cfgs {
				if cfgs[i].Name == "corpus" && pairsStr(cfgs[i].Intent) == pairsStr(ps) {
					probeSets[i] = append(probeSets[i], q)
					found = true
				}
			}
			if !found {
				cfgs = append(cfgs, config{Name: "corpus", Intent: ps, Calls: callsOf(ps)})
				probeSets = append(probeSets, []probe{q})
			}
		}
		for _, c := range buildConfigs(o, rnd) {
			cfgs = append(cfgs, c)
			probeSets = append(probeSets, probesFor(rnd, o.Thorough()))
		}
	}

	// servers run in parallel (construction of a server costs seconds of CPU);
	// results are evaluated afterwards in configuration order
	results := make([]*cfgResult, len(cfgs))
	sem := make(chan struct{}, 4)
	var wg sync.WaitGroup
	for i := range cfgs {
		wg.Add(1)
		sem <- struct{}{}
		go func(i int) {
			defer wg.Done()
			defer func() { <-sem }()
			results[i] = runConfigChild(cfgs[i], probeSets[i], o.Keys)
		}(i)
	}
	wg.Wait()
	for _, res := range results {
		evaluate(r, d, res)
	}

	for _, b := range []string{"class:enabled", "class:rejected", "class:C30.accept-none-not-enabled", "class:C30.accept-secure-policy-mode-none",
		"class:C30.accept-invalid-mode", "class:C30.accept-mode-not-enabled", "class:C30.accept-policy-not-enabled", "std:accept", "raw:accept", "raw:reject",
		"endpoints", "getendpoints", "renew:accept", "renew:reject", "class:C30.renew-switches-security"} {
		if r.Distribution[b] == 0 && o.Replay == "" {
			r.Unreached = append(r.Unreached, b)
		}
	}
	r.Notes = append(r.Notes, "model branches not exercised: certificate with an RSA key the policy refuses (rsaBadSize) - the harness cannot build a chunk secured under a policy with such a key; a second OPN on the same connection (renewal) is outside the model")
	r.Write(o.Out)
}
