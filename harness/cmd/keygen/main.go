// Command keygen writes the RSA keys and self-signed certificates used by the
// correspondence runners (run once; the files are committed).
package main

import (
	"crypto/rand"
	"crypto/rsa"
	"crypto/x509"
	"crypto/x509/pkix"
	"encoding/pem"
	"fmt"
	"math/big"
	"net"
	"net/url"
	"os"
	"time"
)

func main() {
	dir := os.Args[1]
	for _, bits := range []int{1024, 2048, 3072, 4096} {
		for _, who := range []string{"a", "b"} {
			base := fmt.Sprintf("%s/rsa%d_%s", dir, bits, who)
			if _, err := os.Stat(base + "_key.pem"); err == nil {
				continue
			}
			key, err := rsa.GenerateKey(rand.Reader, bits)
			if err != nil {
				panic(err)
			}
			uri, _ := url.Parse("urn:verif:" + who)
			tmpl := &x509.Certificate{
				SerialNumber:          big.NewInt(int64(bits)*10 + int64(who[0])),
				Subject:               pkix.Name{CommonName: "verif-" + who, Organization: []string{"verif"}},
				NotBefore:             time.Date(2020, 1, 1, 0, 0, 0, 0, time.UTC),
				NotAfter:              time.Date(2120, 1, 1, 0, 0, 0, 0, time.UTC),
				KeyUsage:              x509.KeyUsageDigitalSignature | x509.KeyUsageContentCommitment | x509.KeyUsageKeyEncipherment | x509.KeyUsageDataEncipherment | x509.KeyUsageCertSign,
				ExtKeyUsage:           []x509.ExtKeyUsage{x509.ExtKeyUsageServerAuth, x509.ExtKeyUsageClientAuth},
				BasicConstraintsValid: true,
				IsCA:                  true,
				DNSNames:              []string{"localhost"},
				IPAddresses:           []net.IP{net.ParseIP("127.0.0.1")},
				URIs:                  []*url.URL{uri},
			}
			der, err := x509.CreateCertificate(rand.Reader, tmpl, tmpl, &key.PublicKey, key)
			if err != nil {
				panic(err)
			}
			os.WriteFile(base+"_cert.der", der, 0o644)
			os.WriteFile(base+"_cert.pem", pem.EncodeToMemory(&pem.Block{Type: "CERTIFICATE", Bytes: der}), 0o644)
			os.WriteFile(base+"_key.pem", pem.EncodeToMemory(&pem.Block{Type: "RSA PRIVATE KEY", Bytes: x509.MarshalPKCS1PrivateKey(key)}), 0o644)
			fmt.Println("wrote", base)
		}
	}
}
