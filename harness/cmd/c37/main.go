// Correspondence runner and property oracle for C37: the finite table of
// supported security configurations (policy, mode, client key size, server key
// size, user token type) enumerated against the REAL server (package server)
// and the REAL client (opcua.NewClient): discovery, endpoint selection,
// OpenSecureChannel, CreateSession, ActivateSession, a write and a read back,
// close. The Lean side decides the same table (`connect cfg`), the runner
// compares per configuration.
package main

import (
	"bytes"
	"crypto/rsa"
	"context"
	"encoding/binary"
	"fmt"
	"io"
	"log"
	"net"
	"sort"
	"strings"
	"time"

	"github.com/gopcua/opcua"
	"github.com/gopcua/opcua/id"
	"github.com/gopcua/opcua/server"
	"github.com/gopcua/opcua/ua"
	"github.com/gopcua/opcua/uapolicy"
	"github.com/gopcua/opcua/uasc"

	"verifharness/internal/h"
)

func short(uri string) string { return uri[strings.LastIndex(uri, "#")+1:] }

// specBits: Part 7 key length range per policy (oracle side, written by hand)
var specBits = map[string][2]int{
	"Basic128Rsa15":         {1024, 2048},
	"Basic256":              {1024, 2048},
	"Basic256Sha256":        {2048, 4096},
	"Aes128_Sha256_RsaOaep": {2048, 4096},
	"Aes256_Sha256_RsaPss":  {2048, 4096},
}

var keySizes = []int{1024, 2048, 3072, 4096}

type cfg struct {
	pol   string // short policy name
	mode  ua.MessageSecurityMode
	cbits int // 0 = no client key (policy None)
	sbits int
	auth  string // "anonymous" | "username"
	extra string // "-" or a second, secured policy the server enables (SignAndEncrypt)
}

func (c cfg) String() string {
	return fmt.Sprintf("%s %d %d %d %s %s", c.pol, c.mode, c.cbits, c.sbits, c.auth, c.extra)
}

// table is the complete finite set of configurations the code supports:
// every supported policy x the modes a server can enable for it x every
// committed key size within the policy's limits on both sides x the user token
// types that need no external credentials.
func table() []cfg {
	var out []cfg
	for _, uri := range uapolicy.SupportedPolicies() {
		pol := short(uri)
		if uri == ua.SecurityPolicyURINone {
			// no keys needed; also with certificates configured on both sides
			out = append(out, cfg{pol, ua.MessageSecurityModeNone, 0, 0, "anonymous", "-"})
			out = append(out, cfg{pol, ua.MessageSecurityModeNone, 2048, 2048, "anonymous", "-"})
			// username login over the None endpoint of a server that also enables a
			// secured policy q: the None endpoint advertises username_q, the password
			// is encrypted with the server certificate under q
			for _, quri := range uapolicy.SupportedPolicies() {
				q := short(quri)
				qs, secured := specBits[q]
				if !secured {
					continue
				}
				for _, sb := range keySizes {
					if sb < qs[0] || sb > qs[1] {
						continue
					}
					out = append(out, cfg{pol, ua.MessageSecurityModeNone, 0, sb, "username", q})
					out = append(out, cfg{pol, ua.MessageSecurityModeNone, 2048, sb, "username", q})
				}
			}
			continue
		}
		sp := specBits[pol]
		for _, mode := range []ua.MessageSecurityMode{ua.MessageSecurityModeSign, ua.MessageSecurityModeSignAndEncrypt} {
			for _, cb := range keySizes {
				for _, sb := range keySizes {
					if cb < sp[0] || cb > sp[1] || sb < sp[0] || sb > sp[1] {
						continue
					}
					for _, auth := range []string{"anonymous", "username"} {
						out = append(out, cfg{pol, mode, cb, sb, auth, "-"})
					}
				}
			}
		}
	}
	return out
}

type env struct {
	o   *h.Opts
	r   *h.Result
	d   *h.Driver
	rnd *h.Rand
}

func freePort() (int, error) {
	l, err := net.Listen("tcp", "127.0.0.1:0")
	if err != nil {
		return 0, err
	}
	defer l.Close()
	return l.Addr().(*net.TCPAddr).Port, nil
}

type srvKey struct {
	pol   string
	mode  ua.MessageSecurityMode
	sbits int
	extra string
}

type running struct {
	s    *server.Server
	addr string
	node *ua.NodeID
	// discovery of this server failed before (detail); further rows of the
	// same server are not retried
	discFailed string
}

// a discovery failure was already seen in this run: later servers get one attempt
var discoveryFailedBefore bool

// startServer starts a real server that enables exactly (policy, mode) with
// the anonymous and username token types and one writable variable.
func (e *env) startServer(k srvKey) (*running, error) {
	var lastErr error
	for attempt := 0; attempt < 5; attempt++ {
		port, err := freePort()
		if err != nil {
			return nil, err
		}
		opts := []server.Option{
			server.EnableSecurity(k.pol, k.mode),
			server.EnableAuthMode(ua.UserTokenTypeAnonymous),
			server.EnableAuthMode(ua.UserTokenTypeUserName),
			server.EndPoint("127.0.0.1", port),
		}
		if k.extra != "-" {
			opts = append(opts, server.EnableSecurity(k.extra, ua.MessageSecurityModeSignAndEncrypt))
		}
		if k.sbits > 0 {
			kp, err := h.LoadKey(e.o.Keys, k.sbits, "b")
			if err != nil {
				return nil, err
			}
			opts = append(opts, server.PrivateKey(kp.Key), server.Certificate(kp.CertDER))
		}
		s := server.New(opts...)
		rootNS, _ := s.Namespace(0)
		ns := server.NewNodeNameSpace(s, "verif")
		s.AddNamespace(ns)
		obj := ns.Objects()
		rootNS.Objects().AddRef(obj, id.HasComponent, true)
		n := ns.AddNewVariableStringNode("rw_int32", int32(5))
		obj.AddRef(n, id.HasComponent, true)
		if err := s.Start(context.Background()); err != nil {
			lastErr = err
			continue
		}
		return &running{s: s, addr: fmt.Sprintf("opc.tcp://127.0.0.1:%d", port), node: ua.NewStringNodeID(ns.ID(), "rw_int32")}, nil
	}
	return nil, lastErr
}

// connect runs the whole pipeline for one configuration against a running
// server and reports the first stage that fails ("ok" if none).
func (e *env) connect(c cfg, srv *running, val int32) (res string, detail string) {
	ctx, cancel := context.WithTimeout(context.Background(), 90*time.Second)
	defer cancel()
	defer func() {
		if p := recover(); p != nil {
			res, detail = "panic", fmt.Sprint(p)
		}
	}()
	var eps []*ua.EndpointDescription
	var err error
	// discovery the way a client does it (opcua.GetEndpoints: unsecured channel,
	// GetEndpoints service). Each attempt has its own generous deadline; a server
	// that never answers within 3 x 10 s is a discovery failure.
	if srv.discFailed != "" {
		return "fail:discovery", srv.discFailed
	}
	for i := 0; ; i++ {
		actx, acancel := context.WithTimeout(ctx, 10*time.Second)
		eps, err = opcua.GetEndpoints(actx, srv.addr)
		acancel()
		if err == nil {
			break
		}
		if strings.Contains(err.Error(), "lookup ") {
			return "infra", "discovery: " + err.Error()
		}
		if i >= 2 || discoveryFailedBefore {
			discoveryFailedBefore = true
			srv.discFailed = err.Error() + " (opcua.GetEndpoints over the unsecured discovery channel got no answer)"
			return "fail:discovery", srv.discFailed
		}
		time.Sleep(50 * time.Millisecond)
	}
	uri := ua.SecurityPolicyURIPrefix + c.pol
	var ep *ua.EndpointDescription
	for _, x := range eps {
		if x.SecurityPolicyURI == uri && x.SecurityMode == c.mode {
			ep = x
			break
		}
	}
	if ep == nil {
		var have []string
		for _, x := range eps {
			have = append(have, fmt.Sprintf("%s/%d", short(x.SecurityPolicyURI), x.SecurityMode))
		}
		return "fail:no-endpoint", "advertised: " + strings.Join(have, ",")
	}
	tt := ua.UserTokenTypeAnonymous
	if c.auth == "username" {
		tt = ua.UserTokenTypeUserName
	}
	advertised := false
	for _, t := range ep.UserIdentityTokens {
		if t.TokenType == tt {
			advertised = true
		}
	}
	if !advertised {
		return "fail:token-not-advertised", fmt.Sprint(len(ep.UserIdentityTokens), " token policies")
	}
	opts := []opcua.Option{}
	if c.auth == "username" {
		// long enough for several RSA blocks with every key size
		opts = append(opts, opcua.AuthUsername("verif-user", strings.Repeat("p@ss-wörd/", 70)))
	} else {
		opts = append(opts, opcua.AuthAnonymous())
	}
	opts = append(opts, opcua.SecurityFromEndpoint(ep, tt))
	if c.cbits > 0 {
		kp, err := h.LoadKey(e.o.Keys, c.cbits, "a")
		if err != nil {
			return "infra", err.Error()
		}
		opts = append(opts, opcua.Certificate(kp.CertDER), opcua.PrivateKey(kp.Key))
	}
	cl, err := opcua.NewClient(srv.addr, opts...)
	if err != nil {
		return "fail:newclient", err.Error()
	}
	if err := cl.Connect(ctx); err != nil {
		return "fail:connect", err.Error()
	}
	defer cl.Close(ctx)
	// write, then read back
	wr, err := cl.Write(ctx, &ua.WriteRequest{NodesToWrite: []*ua.WriteValue{{
		NodeID: srv.node, AttributeID: ua.AttributeIDValue,
		Value: &ua.DataValue{EncodingMask: ua.DataValueValue, Value: ua.MustVariant(val)},
	}}})
	if err != nil {
		return "fail:write", err.Error()
	}
	if len(wr.Results) != 1 || wr.Results[0] != ua.StatusOK {
		return "fail:write-status", fmt.Sprint(wr.Results)
	}
	rd, err := cl.Read(ctx, &ua.ReadRequest{NodesToRead: []*ua.ReadValueID{{NodeID: srv.node, AttributeID: ua.AttributeIDValue}}})
	if err != nil {
		return "fail:read", err.Error()
	}
	if len(rd.Results) != 1 || rd.Results[0].Status != ua.StatusOK || rd.Results[0].Value == nil {
		return "fail:read-status", fmt.Sprint(rd.Results)
	}
	if got, ok := rd.Results[0].Value.Value().(int32); !ok || got != val {
		return "fail:read-value", fmt.Sprintf("wrote %d, read %v", val, rd.Results[0].Value.Value())
	}
	if c.auth == "username" && c.sbits > 0 {
		if r, d := e.password(c, cl, ep); r != "ok" {
			return r, d
		}
	}
	if err := cl.Close(ctx); err != nil {
		return "fail:close", err.Error()
	}
	return "ok", ""
}

const testPassword = "p@ss-wörd/"

// password: the client's password encryption for the advertised token policy,
// decrypted the way a conforming server would (the bundled server ignores the
// user identity token), and its length compared with the model.
func (e *env) password(c cfg, cl *opcua.Client, ep *ua.EndpointDescription) (string, string) {
	pw := strings.Repeat(testPassword, 70)
	nonce := e.rnd.Bytes(32)
	tokPol := ""
	for _, t := range ep.UserIdentityTokens {
		if t.TokenType == ua.UserTokenTypeUserName {
			tokPol = t.SecurityPolicyURI
			break
		}
	}
	ct, _, err := cl.SecureChannel().EncryptUserPassword(tokPol, pw, ep.ServerCertificate, nonce)
	if err != nil {
		return "fail:password-encrypt", err.Error()
	}
	line := fmt.Sprintf("pwlen %s %d %d", short(tokPol), c.sbits, len(pw))
	e.r.Count(line, true)
	e.r.Hit("pwlen")
	e.r.Compare(e.d, line, fmt.Sprint(len(ct)))
	sk, err1 := h.LoadKey(e.o.Keys, c.sbits, "b")
	if err1 != nil {
		return "infra", fmt.Sprint(err1)
	}
	var cpub *rsa.PublicKey
	if c.cbits > 0 {
		ck, err2 := h.LoadKey(e.o.Keys, c.cbits, "a")
		if err2 != nil {
			return "infra", fmt.Sprint(err2)
		}
		cpub = &ck.Key.PublicKey
	}
	srvAlgo, err := uapolicy.Asymmetric(tokPol, sk.Key, cpub)
	if err != nil {
		return "fail:password-server-keys", err.Error()
	}
	pt, err := srvAlgo.Decrypt(ct)
	if err != nil {
		return "fail:password-decrypt", err.Error()
	}
	want := binary.LittleEndian.AppendUint32(nil, uint32(len(pw)+len(nonce)))
	want = append(append(want, pw...), nonce...)
	if !bytes.Equal(pt, want) {
		return "fail:password-content", fmt.Sprintf("decrypted %d bytes, want %d", len(pt), len(want))
	}
	return "ok", ""
}

// opnLen secures a real OpenSecureChannel request and response with the real
// signAndEncrypt (hooks) and reports "<reqLen> <reqSizeField> <respLen> <respSizeField>".
func (e *env) opnLen(c cfg) string {
	uri := ua.SecurityPolicyURIPrefix + c.pol
	var ckey, skey *h.KeyPair
	var err error
	if c.cbits > 0 {
		if ckey, err = h.LoadKey(e.o.Keys, c.cbits, "a"); err != nil {
			return "infra " + err.Error()
		}
	}
	if c.sbits > 0 {
		if skey, err = h.LoadKey(e.o.Keys, c.sbits, "b"); err != nil {
			return "infra " + err.Error()
		}
	}
	one := func(local, remote *h.KeyPair, svc interface{}, typeID uint16) (int, int, error) {
		var inst *uasc.VerifInstance
		var err error
		if c.mode == ua.MessageSecurityModeNone {
			var cert []byte
			if local != nil {
				cert = local.CertDER
			}
			inst, err = uasc.VerifNewAsymmetricInstance(uri, c.mode, nil, nil, cert, nil)
		} else {
			inst, err = uasc.VerifNewAsymmetricInstance(uri, c.mode, local.Key, &remote.Key.PublicKey, local.CertDER, uapolicy.Thumbprint(remote.CertDER))
		}
		if err != nil {
			return 0, 0, err
		}
		m := inst.NewMessage(svc, typeID, 1)
		chunks, err := m.EncodeChunks(1 << 16)
		if err != nil {
			return 0, 0, err
		}
		if len(chunks) != 1 {
			return 0, 0, fmt.Errorf("OPN split into %d chunks", len(chunks))
		}
		out, err := inst.SignAndEncrypt(m, chunks[0])
		if err != nil {
			return 0, 0, err
		}
		return len(out), int(binary.LittleEndian.Uint32(out[4:8])), nil
	}
	a, _ := uapolicy.Asymmetric(uri, nil, nil)
	nonce := make([]byte, a.NonceLength())
	req := &ua.OpenSecureChannelRequest{
		RequestHeader: &ua.RequestHeader{AuthenticationToken: ua.NewTwoByteNodeID(0), Timestamp: time.Now(), RequestHandle: 1, TimeoutHint: 10000},
		RequestType:   ua.SecurityTokenRequestTypeIssue, SecurityMode: c.mode, ClientNonce: nonce, RequestedLifetime: 3600000}
	resp := &ua.OpenSecureChannelResponse{
		ResponseHeader: &ua.ResponseHeader{Timestamp: time.Now(), RequestHandle: 1, ServiceDiagnostics: &ua.DiagnosticInfo{},
			StringTable: []string{}, AdditionalHeader: ua.NewExtensionObject(nil)},
		SecurityToken: &ua.ChannelSecurityToken{ChannelID: 1, TokenID: 1, CreatedAt: time.Now(), RevisedLifetime: 3600000},
		ServerNonce:   nonce}
	l1, s1, err := one(ckey, skey, req, id.OpenSecureChannelRequest_Encoding_DefaultBinary)
	if err != nil {
		return "err " + err.Error()
	}
	l2, s2, err := one(skey, ckey, resp, id.OpenSecureChannelResponse_Encoding_DefaultBinary)
	if err != nil {
		return "err " + err.Error()
	}
	return fmt.Sprintf("%d %d %d %d", l1, s1, l2, s2)
}

func (e *env) runConfigs(cs []cfg) {
	// group by server
	groups := map[srvKey][]cfg{}
	var keys []srvKey
	for _, c := range cs {
		k := srvKey{c.pol, c.mode, c.sbits, c.extra}
		if _, ok := groups[k]; !ok {
			keys = append(keys, k)
		}
		groups[k] = append(groups[k], c)
	}
	sort.Slice(keys, func(i, j int) bool { return fmt.Sprint(keys[i]) < fmt.Sprint(keys[j]) })
	val := int32(100)
	for _, k := range keys {
		srv, err := e.startServer(k)
		if err != nil {
			e.r.InfraError = "start server: " + err.Error()
			return
		}
		for _, c := range groups[k] {
			val++
			res, detail := e.connect(c, srv, val)
			if res == "infra" {
				e.r.InfraError = detail
				srv.s.Close()
				return
			}
			line := "connect " + c.String()
			e.r.Count(line, true)
			e.r.TracesValidated++
			e.r.Hit("policy:" + c.pol)
			e.r.Hit(fmt.Sprintf("mode:%d", c.mode))
			e.r.Hit(fmt.Sprintf("keys:%d/%d", c.cbits, c.sbits))
			e.r.Hit("auth:" + c.auth)
			e.r.Hit("result:" + res)
			e.r.Compare(e.d, line, res)
			e.r.Sample(line + " -> " + res)
			if c.auth == "anonymous" && c.extra == "-" {
				ol := fmt.Sprintf("opnlen %s %d %d %d", c.pol, c.mode, c.cbits, c.sbits)
				got := e.opnLen(c)
				e.r.Count(ol, true)
				e.r.Hit("opnlen")
				e.r.Compare(e.d, ol, got)
				f := strings.Fields(got)
				if len(f) != 4 || f[0] != f[1] || f[2] != f[3] {
					e.r.Fail(ol, "", "secured OPN chunk: MessageSize field differs from the chunk length, or securing failed: "+got)
				}
			}
			// ---- oracle: every configuration of the table interoperates
			if res != "ok" {
				e.r.Fail(line, "", "real client and real server do not interoperate: "+res+": "+detail)
			}
		}
		srv.s.Close()
	}
}

func main() {
	log.SetOutput(io.Discard)
	o := h.ParseOpts()
	r := h.NewResult("C37", o)
	d, err := h.StartDriver(o.Driver)
	if err != nil {
		r.InfraError = err.Error()
		r.Write(o.Out)
		return
	}
	defer d.Close()
	e := &env{o: o, r: r, d: d, rnd: h.NewRand(o.Seed)}
	all := table()
	r.Rule = fmt.Sprintf("case = one configuration (policy, mode, client key bits, server key bits, user token type, extra enabled policy) of the complete finite table (%d rows: 5 secured policies x {Sign, SignAndEncrypt} x ALL pairs of committed key sizes within the policy's limits (equal and mixed) x {anonymous, username}; policy None anonymous with and without certificates; username over the None endpoint of a server that also enables a secured policy q, for every q and server key size, client key absent or 2048); per case a real server enabling exactly that policy/mode (plus q) is started on a free port and the real client runs discovery, endpoint selection, OpenSecureChannel, CreateSession, ActivateSession (username: a 700-byte password, several RSA blocks), Write, Read back, Close. thorough = the whole table (exhaustive), quick = a seeded third (every policy/mode at least once). The Lean model decides `connect` for the same row; the table itself is compared with the generated Gen.configTable.", len(all))
	// the table of the runner and the generated Lean table must be the same set
	if d != nil {
		want := d.Ask("table")
		var rows []string
		for _, c := range all {
			rows = append(rows, strings.ReplaceAll(c.String(), " ", ","))
		}
		sort.Strings(rows)
		got := fmt.Sprintf("%d %s", len(rows), strings.Join(rows, ";"))
		if want != got {
			r.Disagree("table", want, got)
		}
	}
	var sel []cfg
	switch {
	case o.Replay != "":
		f := strings.Fields(strings.TrimPrefix(o.Replay, "connect "))
		for _, c := range all {
			if strings.Join(f, " ") == c.String() {
				sel = append(sel, c)
			}
		}
		if len(sel) == 0 {
			sel = all
		}
	case o.Thorough():
		sel = all
		r.Exhaustive = true
	default:
		// a seeded third; always one row per (policy, mode)
		seen := map[string]bool{}
		pick := e.rnd.Intn(3)
		for i, c := range all {
			k := fmt.Sprintf("%s/%d", c.pol, c.mode)
			if i%3 == pick || !seen[k] {
				sel = append(sel, c)
				seen[k] = true
			}
		}
	}
	if o.Replay == "" {
		// corpus rows (past failures / extremes) always run
		have := map[string]bool{}
		for _, c := range sel {
			have[c.String()] = true
		}
		for _, l := range o.CorpusLines() {
			k := strings.TrimPrefix(l, "connect ")
			for _, c := range all {
				if c.String() == k && !have[k] {
					sel = append(sel, c)
					have[k] = true
				}
			}
		}
	}
	e.runConfigs(sel)
	r.Notes = append(r.Notes, fmt.Sprintf("%d of %d configurations run against the real client and server", len(sel), len(all)))
	r.Write(o.Out)
}
