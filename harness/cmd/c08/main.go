// Correspondence runner and property oracle for C08: secured chunks conform to
// the OPC UA Part 6 wire layout.
//
// Symmetric (MSG) chunks: the independent implementation is the Lean
// specification side (Spec.secureChunk / Spec.openChunk, reference AES-CBC /
// HMAC, keys by the specification's P_SHA).  Chunks produced by the real
// signAndEncrypt must be opened by it and equal its own bytes; chunks it
// produces (minimal padding and extra whole blocks of padding) must be opened
// by the real verifyAndDecrypt.  Several chunks are sent over the SAME channel
// instances, in both directions, interleaved.
//
// Asymmetric (OPN) chunks: the independent implementation is the reference in
// this file — Part 6 layout with Go's crypto/rsa called directly with the
// algorithms and parameters of the Part 7 profiles (no uapolicy code): for every
// policy and every ordered pair of key sizes, both directions.
package main

import (
	"bytes"
	"crypto"
	"crypto/rand"
	"crypto/rsa"
	"crypto/sha1"
	"crypto/sha256"
	"crypto/x509"
	"encoding/binary"
	"fmt"
	"hash"
	"strings"
	"time"

	"github.com/gopcua/opcua/ua"
	"github.com/gopcua/opcua/uapolicy"
	"github.com/gopcua/opcua/uasc"

	"verifharness/internal/h"
)

func short(uri string) string { return uri[strings.LastIndex(uri, "#")+1:] }

type env struct {
	o   *h.Opts
	r   *h.Result
	d   *h.Driver
	rnd *h.Rand
}

func rawChunk(mt string, flag byte, chanID, tokID, seq, req uint32, body []byte) []byte {
	b := make([]byte, 24, 24+len(body))
	copy(b, mt)
	b[3] = flag
	binary.LittleEndian.PutUint32(b[4:], uint32(24+len(body)))
	binary.LittleEndian.PutUint32(b[8:], chanID)
	binary.LittleEndian.PutUint32(b[12:], tokID)
	binary.LittleEndian.PutUint32(b[16:], seq)
	binary.LittleEndian.PutUint32(b[20:], req)
	return append(b, body...)
}

func symMessage(mt string) *uasc.Message {
	return &uasc.Message{MessageHeader: &uasc.MessageHeader{
		Header:                  uasc.NewHeader(mt, uasc.ChunkTypeFinal, 1),
		SymmetricSecurityHeader: uasc.NewSymmetricSecurityHeader(1),
		SequenceHeader:          uasc.NewSequenceHeader(1, 1),
	}}
}

// safeSec calls signAndEncrypt; a panic of the implementation is an error here.
func safeSec(inst *uasc.VerifInstance, m *uasc.Message, b []byte) (out []byte, err error) {
	defer func() {
		if x := recover(); x != nil {
			err = fmt.Errorf("panic: %v", x)
		}
	}()
	return inst.SignAndEncrypt(m, b)
}

func open(inst *uasc.VerifInstance, w []byte) string {
	return h.Catch(func() string {
		d, err := inst.VerifyAndDecryptRaw(append([]byte(nil), w...))
		if err != nil {
			return "err"
		}
		return "ok " + h.Hex(d)
	})
}

// ---------------------------------------------------------------- symmetric

func (e *env) symmetric(uri string, mode ua.MessageSecurityMode, steps int) {
	pol := short(uri)
	cn, sn := e.rnd.Bytes(32), e.rnd.Bytes(32)
	client, err := uasc.VerifNewSymmetricInstance(uri, mode, cn, sn)
	if err != nil {
		e.r.InfraError = err.Error()
		return
	}
	server, _ := uasc.VerifNewSymmetricInstance(uri, mode, sn, cn)
	for step := 0; step < steps; step++ {
		role, snd, rcv := "client", client, server
		if e.rnd.Bool() {
			role, snd, rcv = "server", server, client
		}
		n := e.rnd.Pick(0, 1, 7, 8, 9, 15, 16, 17, 23, 24, 25, 31, 32, 100+e.rnd.Intn(3000))
		body := e.rnd.Bytes(n)
		flag := byte("CFA"[e.rnd.Intn(3)])
		chanID, tokID, seq, req := uint32(e.rnd.U64()), uint32(e.rnd.U64()), uint32(e.rnd.U64()), uint32(e.rnd.U64())
		mt := "MSG"
		if e.rnd.Intn(4) == 0 {
			mt, flag = "CLO", 'F' // CloseSecureChannel: same layout, always a final chunk
		}
		e.r.Hit("sym-type:" + mt)
		raw := rawChunk(mt, flag, chanID, tokID, seq, req, body)
		payload := "ok " + h.Hex(raw[16:])
		canon := fmt.Sprintf("sym %s mode=%d %s step=%d body=%d", pol, mode, role, step, n)
		_ = canon
		e.r.Count(canon+" "+h.Hex(cn[:4]), true)
		e.r.Hit("policy:" + pol)
		e.r.Hit(fmt.Sprintf("mode:%d", mode))
		e.r.Hit(fmt.Sprintf("sym-step:%d", min(step, 3)))
		fail := func(d string) { e.r.Fail(canon, "", d) }
		args := fmt.Sprintf("%s %d %s %s %s", pol, mode, role, h.Hex(cn), h.Hex(sn))

		// (1) gopcua sends: the specification side must be able to open it, and it must be the specification's bytes
		wire, err := safeSec(snd, symMessage(mt), append([]byte(nil), raw...))
		if err != nil {
			fail("signAndEncrypt: " + err.Error())
			continue
		}
		if sz := int(binary.LittleEndian.Uint32(wire[4:])); sz != len(wire) {
			fail(fmt.Sprintf("MessageSize %d, chunk has %d bytes", sz, len(wire)))
		}
		if e.d != nil {
			if got := e.d.Ask("specopen " + args + " " + h.Hex(wire)); got != payload {
				fail("a chunk sent by gopcua is not opened by the specification-side receiver: " + got[:min(len(got), 50)])
			} else {
				e.r.Hit("spec-opens-gopcua")
			}
			secure := fmt.Sprintf("specsecure %s %s %c %d %d %d %d", args, mt, flag, chanID, tokID, seq, req)
			e.r.Compare(e.d, secure+" 0 "+h.Hex(body), h.Hex(wire))
			// (2) the specification side sends (minimal padding, and extra whole blocks): gopcua must open it
			for _, k := range []int{0, 1, e.rnd.Intn(15)} {
				if mode != ua.MessageSecurityModeSignAndEncrypt && k != 0 {
					continue
				}
				w := e.d.Ask(fmt.Sprintf("%s %d %s", secure, k, h.Hex(body)))
				if w == "err" || w == "bad-op" {
					e.r.Disagree(secure, w, "a chunk")
					continue
				}
				if got := open(rcv, h.UnHex(w)); got != payload {
					fail(fmt.Sprintf("a specification chunk with %d extra padding blocks is not opened by gopcua: %s", k, got[:min(len(got), 50)]))
				} else {
					e.r.Hit(fmt.Sprintf("gopcua-opens-spec:k=%d", min(k, 2)))
				}
			}
		}
		// gopcua opens its own peer's chunk (the same bytes), also a second time
		if got := open(rcv, wire); got != payload {
			fail("the peer instance does not open the chunk: " + got[:min(len(got), 50)])
		}
		if got := open(rcv, wire); got != payload {
			fail("the peer instance does not open the same chunk a second time")
		}
		if step == 0 {
			e.r.Sample(fmt.Sprintf("%s raw=%d wire=%d", canon, len(raw), len(wire)))
		}
	}
}

// ---------------------------------------------------------------- asymmetric reference (Part 6 / Part 7)

type asymProfile struct {
	encPKCS1   bool             // RSA-PKCS15 encryption, else OAEP with encHash
	encHash    func() hash.Hash // OAEP hash (and MGF1 hash)
	overhead   int              // bytes lost per cipher block
	sigHash    crypto.Hash
	sigPSS     bool // RSA-PSS-SHA2-256 with salt length 32, else RSA-PKCS15
	minB, maxB int  // key length limits in bits
}

var asymProfiles = map[string]asymProfile{
	"Basic128Rsa15":         {true, nil, 11, crypto.SHA1, false, 1024, 2048},
	"Basic256":              {false, sha1.New, 42, crypto.SHA1, false, 1024, 2048},
	"Basic256Sha256":        {false, sha1.New, 42, crypto.SHA256, false, 2048, 4096},
	"Aes128_Sha256_RsaOaep": {false, sha1.New, 42, crypto.SHA256, false, 2048, 4096},
	"Aes256_Sha256_RsaPss":  {false, sha256.New, 66, crypto.SHA256, true, 2048, 4096},
}

func digest(hh crypto.Hash, m []byte) []byte {
	x := hh.New()
	x.Write(m)
	return x.Sum(nil)
}

// refOpen opens an OPN chunk as a specification-following receiver holding key rcv.
func refOpen(p asymProfile, wire []byte, rcv *rsa.PrivateKey) ([]byte, error) {
	if len(wire) < 12 || string(wire[:3]) != "OPN" {
		return nil, fmt.Errorf("not an OPN chunk")
	}
	if int(binary.LittleEndian.Uint32(wire[4:])) != len(wire) {
		return nil, fmt.Errorf("MessageSize %d but %d bytes", binary.LittleEndian.Uint32(wire[4:]), len(wire))
	}
	// security header: three length-prefixed fields
	pos := 12
	var fields [3][]byte
	for i := range fields {
		if pos+4 > len(wire) {
			return nil, fmt.Errorf("security header truncated")
		}
		n := int(int32(binary.LittleEndian.Uint32(wire[pos:])))
		pos += 4
		if n > 0 {
			if pos+n > len(wire) {
				return nil, fmt.Errorf("security header field %d truncated", i)
			}
			fields[i] = wire[pos : pos+n]
			pos += n
		}
	}
	cert, err := x509.ParseCertificate(fields[1])
	if err != nil {
		return nil, fmt.Errorf("sender certificate: %v", err)
	}
	sndPub, ok := cert.PublicKey.(*rsa.PublicKey)
	if !ok {
		return nil, fmt.Errorf("sender key is not RSA")
	}
	rs := rcv.Size()
	cipherText := wire[pos:]
	if len(cipherText) == 0 || len(cipherText)%rs != 0 {
		return nil, fmt.Errorf("encrypted part of %d bytes is not a whole number of %d-byte blocks", len(cipherText), rs)
	}
	var plain []byte
	for i := 0; i < len(cipherText); i += rs {
		var blk []byte
		if p.encPKCS1 {
			blk, err = rsa.DecryptPKCS1v15(nil, rcv, cipherText[i:i+rs])
		} else {
			blk, err = rsa.DecryptOAEP(p.encHash(), nil, rcv, cipherText[i:i+rs], nil)
		}
		if err != nil {
			return nil, fmt.Errorf("block %d: %v", i/rs, err)
		}
		plain = append(plain, blk...)
	}
	ls := sndPub.Size()
	if len(plain) < ls {
		return nil, fmt.Errorf("plaintext shorter than the signature")
	}
	sig := plain[len(plain)-ls:]
	signed := append(append([]byte(nil), wire[:pos]...), plain[:len(plain)-ls]...)
	if p.sigPSS {
		err = rsa.VerifyPSS(sndPub, p.sigHash, digest(p.sigHash, signed), sig, &rsa.PSSOptions{SaltLength: 32, Hash: p.sigHash})
	} else {
		err = rsa.VerifyPKCS1v15(sndPub, p.sigHash, digest(p.sigHash, signed), sig)
	}
	if err != nil {
		return nil, fmt.Errorf("signature over the chunk does not verify: %v", err)
	}
	sp := plain[:len(plain)-ls]
	// footer: ExtraPaddingSize iff the receiver's key is longer than 2048 bits
	count, cb := 0, 1
	if rs > 256 {
		if len(sp) < 2 {
			return nil, fmt.Errorf("no footer")
		}
		count, cb = int(sp[len(sp)-1])<<8|int(sp[len(sp)-2]), 2
	} else {
		if len(sp) < 1 {
			return nil, fmt.Errorf("no footer")
		}
		count = int(sp[len(sp)-1])
	}
	if count+cb > len(sp) {
		return nil, fmt.Errorf("padding size %d exceeds the chunk", count)
	}
	start := len(sp) - count - cb
	for i := start; i < start+count+1; i++ {
		if sp[i] != byte(count) {
			return nil, fmt.Errorf("padding byte %d is %02x, padding size %d", i-start, sp[i], count)
		}
	}
	return sp[:start], nil
}

// refSecure builds an OPN chunk as a specification-following sender: raw is
// header ‖ security header ‖ sequence header ‖ body with hl header bytes; k
// extra whole blocks of padding.
func refSecure(p asymProfile, raw []byte, hl int, snd *rsa.PrivateKey, rcvPub *rsa.PublicKey, k int) ([]byte, error) {
	rs, ls := rcvPub.Size(), snd.Size()
	pbs := rs - p.overhead
	cb := 1
	if rs > 256 {
		cb = 2
	}
	clear := raw[hl:]
	count := (pbs-(len(clear)+ls+cb)%pbs)%pbs + k*pbs
	if (cb == 1 && count > 255) || count > 65535 {
		return nil, nil // not representable
	}
	plain := append([]byte(nil), clear...)
	for i := 0; i <= count; i++ {
		plain = append(plain, byte(count))
	}
	if cb == 2 {
		plain = append(plain, byte(count>>8))
	}
	blocks := (len(plain) + ls) / pbs
	hdr := append([]byte(nil), raw[:hl]...)
	binary.LittleEndian.PutUint32(hdr[4:], uint32(hl+blocks*rs))
	signed := append(append([]byte(nil), hdr...), plain...)
	var sig []byte
	var err error
	if p.sigPSS {
		sig, err = rsa.SignPSS(rand.Reader, snd, p.sigHash, digest(p.sigHash, signed), &rsa.PSSOptions{SaltLength: 32, Hash: p.sigHash})
	} else {
		sig, err = rsa.SignPKCS1v15(nil, snd, p.sigHash, digest(p.sigHash, signed))
	}
	if err != nil {
		return nil, err
	}
	plain = append(plain, sig...)
	out := hdr
	for i := 0; i < len(plain); i += pbs {
		var blk []byte
		if p.encPKCS1 {
			blk, err = rsa.EncryptPKCS1v15(rand.Reader, rcvPub, plain[i:i+pbs])
		} else {
			blk, err = rsa.EncryptOAEP(p.encHash(), rand.Reader, rcvPub, plain[i:i+pbs], nil)
		}
		if err != nil {
			return nil, err
		}
		out = append(out, blk...)
	}
	return out, nil
}

func (e *env) asymmetric(uri string, mode ua.MessageSecurityMode, a, b *h.KeyPair) {
	pol := short(uri)
	p, ok := asymProfiles[pol]
	if !ok {
		e.r.Fail("policy "+pol, "", "no Part 7 profile in the reference")
		return
	}
	allowed := a.Bits >= p.minB && a.Bits <= p.maxB && b.Bits >= p.minB && b.Bits <= p.maxB
	gop, err := uasc.VerifNewAsymmetricInstance(uri, mode, a.Key, &b.Key.PublicKey, a.CertDER, uapolicy.Thumbprint(b.CertDER))
	peerInst, err2 := uasc.VerifNewAsymmetricInstance(uri, mode, b.Key, &a.Key.PublicKey, b.CertDER, uapolicy.Thumbprint(a.CertDER))
	canon := fmt.Sprintf("opn %s mode=%d gopcua=%d peer=%d", pol, mode, a.Bits, b.Bits)
	if !allowed {
		if err == nil && err2 == nil {
			e.r.Hit("opn:key-size-outside-profile-accepted") // key-size limits are C15's subject
		} else {
			e.r.Hit("opn:key-size-refused")
		}
		return
	}
	if err != nil || err2 != nil {
		e.r.Fail(canon, "", fmt.Sprintf("constructor refuses key sizes the profile allows: %v %v", err, err2))
		return
	}
	e.r.Count(canon, true)
	e.r.Hit("opn:" + pol)
	e.r.Hit(fmt.Sprintf("opn:extra gopcua->peer=%v peer->gopcua=%v", b.Bits > 2048, a.Bits > 2048))
	fail := func(d string) { e.r.Fail(canon, "", d) }

	req := &ua.OpenSecureChannelRequest{
		RequestHeader: &ua.RequestHeader{AuthenticationToken: ua.NewTwoByteNodeID(0), Timestamp: time.Date(2024, 1, 2, 3, 4, 5, 0, time.UTC),
			RequestHandle: uint32(e.rnd.U64()), AdditionalHeader: ua.NewExtensionObject(nil)},
		RequestType: ua.SecurityTokenRequestTypeIssue, SecurityMode: mode,
		ClientNonce: e.rnd.Bytes(32 + e.rnd.Intn(64)), RequestedLifetime: 3600000,
	}
	// the service: an OpenSecureChannelRequest (client -> server) or the
	// OpenSecureChannelResponse (server -> client), as handleOpenSecureChannelRequest builds it
	var svc interface{} = req
	if e.rnd.Bool() {
		svc = &ua.OpenSecureChannelResponse{
			ResponseHeader: &ua.ResponseHeader{Timestamp: time.Date(2024, 1, 2, 3, 4, 6, 0, time.UTC), RequestHandle: req.RequestHeader.RequestHandle,
				ServiceDiagnostics: &ua.DiagnosticInfo{}, StringTable: []string{}, AdditionalHeader: ua.NewExtensionObject(nil)},
			SecurityToken: &ua.ChannelSecurityToken{ChannelID: uint32(e.rnd.U64()), TokenID: uint32(e.rnd.U64()),
				CreatedAt: time.Date(2024, 1, 2, 3, 4, 6, 0, time.UTC), RevisedLifetime: 3600000},
			ServerNonce: e.rnd.Bytes(32 + e.rnd.Intn(64)),
		}
		e.r.Hit("opn-service:response")
	} else {
		e.r.Hit("opn-service:request")
	}
	// (1) gopcua -> reference
	gop.SetSequenceNumber(uint32(e.rnd.Intn(1000)))
	m := gop.NewMessage(svc, ua.ServiceTypeID(svc), uint32(e.rnd.U64()))
	chunks, err := m.EncodeChunks(gop.MaxBodySize())
	if err != nil || len(chunks) != 1 {
		fail(fmt.Sprintf("EncodeChunks: %d chunks, %v", len(chunks), err))
		return
	}
	raw := chunks[0]
	hl := 12 + m.AsymmetricSecurityHeader.Len()
	wire, err := safeSec(gop, m, append([]byte(nil), raw...))
	if err != nil {
		fail("signAndEncrypt: " + err.Error())
		return
	}
	got, err := refOpen(p, wire, b.Key)
	switch {
	case err != nil:
		fail("an OPN chunk sent by gopcua is rejected by the Part 6 reference: " + err.Error())
	case !bytes.Equal(got, raw[hl:]):
		fail(fmt.Sprintf("the Part 6 reference recovers %d bytes from gopcua's chunk, sent %d", len(got), len(raw)-hl))
	default:
		e.r.Hit("ref-opens-gopcua")
	}
	// the model's footer for the same numbers (ties Spec.paddingSize / Spec.footer to the real plaintext)
	if e.d != nil && err == nil {
		sa := gop.Algo()
		extra := 0
		if b.Bits > 2048 {
			extra = 1
		}
		ans := strings.Fields(e.d.Ask(fmt.Sprintf("footer %d %d %d %d 0", sa.PlaintextBlockSize(), sa.SignatureLength(), extra, len(raw)-hl)))
		if plain, derr := peerInst.Algo().Decrypt(wire[hl:]); derr == nil && len(ans) == 2 {
			ft := h.UnHex(ans[1])
			end := len(plain) - sa.SignatureLength()
			implFooter := "?"
			if end-len(ft) >= 0 {
				implFooter = h.Hex(plain[end-len(ft) : end])
			}
			if implFooter != ans[1] {
				e.r.Disagree("footer "+canon, ans[1], implFooter)
			}
		}
	}
	// (2) reference -> gopcua: the same message protected by the reference with the peer's key, minimal and extra padding
	peerInst.SetSequenceNumber(uint32(e.rnd.Intn(1000)))
	pm := peerInst.NewMessage(svc, ua.ServiceTypeID(svc), uint32(e.rnd.U64()))
	pchunks, err := pm.EncodeChunks(peerInst.MaxBodySize()) // only the unsecured encoding of headers and body is taken from here
	if err != nil || len(pchunks) != 1 {
		fail("EncodeChunks(peer)")
		return
	}
	praw := pchunks[0]
	phl := 12 + pm.AsymmetricSecurityHeader.Len()
	for _, k := range []int{0, 1} {
		w, err := refSecure(p, praw, phl, b.Key, &a.Key.PublicKey, k)
		if err != nil {
			e.r.InfraError = "reference sender: " + err.Error()
			return
		}
		if w == nil {
			e.r.Hit("ref-padding-not-representable")
			continue
		}
		if back, err := refOpen(p, w, a.Key); err != nil || !bytes.Equal(back, praw[phl:]) {
			e.r.InfraError = fmt.Sprintf("reference does not open its own chunk: %v", err)
			return
		}
		if res := open(gop, w); res != "ok "+h.Hex(praw[phl:]) {
			fail(fmt.Sprintf("an OPN chunk of the Part 6 reference (%d extra padding blocks) is not opened by gopcua: %s", k, res[:min(len(res), 40)]))
		} else {
			e.r.Hit(fmt.Sprintf("gopcua-opens-ref:k=%d", k))
		}
	}
	e.r.Sample(fmt.Sprintf("%s raw=%d hl=%d wire=%d", canon, len(raw), hl, len(wire)))
}

// ---------------------------------------------------------------- main

func main() {
	o := h.ParseOpts()
	r := h.NewResult("C08", o)
	d, err := h.StartDriver(o.Driver)
	if err != nil {
		r.InfraError = err.Error()
		r.Write(o.Out)
		return
	}
	defer d.Close()
	e := &env{o, r, d, h.NewRand(o.Seed)}
	r.Rule = "symmetric case = (policy, mode, nonces, sequence of chunks on the same pair of channel instances, both directions): every chunk of the real signAndEncrypt is opened by the Lean specification-side receiver (Spec.openChunk, spec-derived keys, reference AES/HMAC) and equals Spec.secureChunk byte for byte; specification chunks with 0, 1 and a random number of extra padding blocks are opened by the real verifyAndDecrypt. asymmetric case = (policy, mode, key size of gopcua, key size of the peer; all ordered pairs the profile allows): the OPN chunk of the real signAndEncrypt is opened by a Part 6 reference built on crypto/rsa with the Part 7 algorithms (OAEP hash, PKCS1/PSS with salt 32, ExtraPaddingSize by the receiver's key, padding bytes checked); reference chunks (spec plaintext block size, 0 and 1 extra padding blocks) are opened by the real verifyAndDecrypt; the footer of the real plaintext equals Spec.footer. Distinct by canonical case text."
	if d != nil {
		if a := d.Ask("selftest"); a != "ok" {
			r.Disagree("selftest", a, "ok")
		}
	} else {
		r.Notes = append(r.Notes, "no Lean driver: the symmetric conformance oracle needs the specification side; only the asymmetric reference ran")
	}
	type pm struct {
		uri  string
		mode ua.MessageSecurityMode
	}
	var pms []pm
	for _, u := range uapolicy.SupportedPolicies() {
		if u == ua.SecurityPolicyURINone {
			pms = append(pms, pm{u, ua.MessageSecurityModeNone})
			continue
		}
		pms = append(pms, pm{u, ua.MessageSecurityModeSign}, pm{u, ua.MessageSecurityModeSignAndEncrypt})
	}
	for _, p := range pms {
		for i := 0; i < o.N(6, 80); i++ {
			e.symmetric(p.uri, p.mode, 4+e.rnd.Intn(4))
			if r.InfraError != "" {
				r.Write(o.Out)
				return
			}
		}
	}
	keys := map[int][2]*h.KeyPair{}
	for _, bits := range []int{1024, 2048, 3072, 4096} {
		a, errA := h.LoadKey(o.Keys, bits, "a")
		b, errB := h.LoadKey(o.Keys, bits, "b")
		if errA != nil || errB != nil {
			r.InfraError = fmt.Sprintf("keys rsa%d: %v %v", bits, errA, errB)
			r.Write(o.Out)
			return
		}
		keys[bits] = [2]*h.KeyPair{a, b}
	}
	for _, p := range pms {
		if p.uri == ua.SecurityPolicyURINone {
			continue
		}
		for _, ab := range []int{1024, 2048, 3072, 4096} {
			for _, bb := range []int{1024, 2048, 3072, 4096} {
				if !o.Thorough() && p.mode == ua.MessageSecurityModeSign && ab == bb && ab != 2048 {
					continue
				}
				e.asymmetric(p.uri, p.mode, keys[ab][0], keys[bb][1])
				if r.InfraError != "" {
					r.Write(o.Out)
					return
				}
			}
		}
	}
	want := []string{"opn-service:response", "opn-service:request", "ref-opens-gopcua", "gopcua-opens-ref:k=0", "gopcua-opens-ref:k=1", "opn:extra gopcua->peer=true peer->gopcua=false", "opn:extra gopcua->peer=false peer->gopcua=true"}
	if d != nil {
		want = append(want, "sym-type:CLO", "spec-opens-gopcua", "gopcua-opens-spec:k=0", "gopcua-opens-spec:k=1", "gopcua-opens-spec:k=2", "sym-step:3")
	}
	for _, b := range want {
		if r.Distribution[b] == 0 {
			r.Unreached = append(r.Unreached, b)
		}
	}
	r.Write(o.Out)
}
