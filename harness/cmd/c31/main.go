// Correspondence runner and property oracle for C31: access levels of server
// nodes are enforced for reads and writes.
//
// A case is a request history over a few freshly generated nodes (every
// presence x type x bit combination of AccessLevel / UserAccessLevel, value
// function present / absent / returning nil).  The history is executed
//   - in process through the real service handlers (AttributeService.Read /
//     Write via the VerifCallService hook, i.e. the function handleService
//     dispatches to) and
//   - for histories without a panic outcome, through a real client/server
//     round trip on a second copy of the nodes,
// and the answers plus the final node states are compared with the Lean model
// (`Access.run`).  The property's own oracle is evaluated on the implementation
// alone, with an independent classification of "lacks the flag".
package main

import (
	"context"
	"fmt"
	"io"
	"log"
	"net"
	"strconv"
	"strings"
	"time"

	"github.com/gopcua/opcua"
	"github.com/gopcua/opcua/server"
	"github.com/gopcua/opcua/ua"

	"verifharness/internal/h"
)

const sigRewrite = "C31.client-rewrites-accesslevel"

// ---------------------------------------------------------------- DV tokens

type dv struct {
	kind  int // 0 nil pointer, 1 DataValue without Variant, 2 Variant
	ty, p int
}

func (d dv) String() string {
	switch d.kind {
	case 0:
		return "nil"
	case 1:
		return "nov"
	}
	return fmt.Sprintf("%d.%d", d.ty, d.p)
}

func parseDV(s string) (dv, bool) {
	switch s {
	case "nil":
		return dv{}, true
	case "nov":
		return dv{kind: 1}, true
	}
	a, b, ok := strings.Cut(s, ".")
	if !ok {
		return dv{}, false
	}
	t, e1 := strconv.Atoi(a)
	p, e2 := strconv.Atoi(b)
	return dv{2, t, p}, e1 == nil && e2 == nil
}

// mk builds the DataValue a token stands for (a fresh object every time).
func mk(d dv) *ua.DataValue {
	switch d.kind {
	case 0:
		return nil
	case 1:
		return &ua.DataValue{}
	}
	var v *ua.Variant
	switch d.ty {
	case 0:
		v = &ua.Variant{} // Null variant, Value() == nil
	case 1:
		v = ua.MustVariant(d.p != 0)
	case 2:
		v = ua.MustVariant(int8(d.p))
	case 3:
		v = ua.MustVariant(uint8(d.p))
	case 6:
		v = ua.MustVariant(int32(d.p))
	case 7:
		v = ua.MustVariant(uint32(d.p))
	case 12:
		v = ua.MustVariant(strconv.Itoa(d.p))
	case 15:
		v = ua.MustVariant([]byte{byte(d.p)})
	case 20:
		v = ua.MustVariant(&ua.QualifiedName{Name: "q"})
	case 21:
		v = ua.MustVariant(&ua.LocalizedText{EncodingMask: ua.LocalizedTextText, Text: "t"})
	case 64 + 6:
		v = ua.MustVariant([]int32{int32(d.p)})
	case 64 + 7:
		v = ua.MustVariant([]uint32{uint32(d.p)})
	default:
		panic("mk: type " + strconv.Itoa(d.ty))
	}
	return &ua.DataValue{EncodingMask: ua.DataValueValue, Value: v}
}

// tok canonicalises a DataValue: type id (+64 for arrays) and a payload number.
func tok(x *ua.DataValue) string {
	if x == nil {
		return "nil"
	}
	if x.Value == nil {
		return "nov"
	}
	t := int(x.Value.Type())
	p := 0
	switch v := x.Value.Value().(type) {
	case nil:
	case bool:
		if v {
			p = 1
		}
	case int8:
		p = int(v)
	case uint8:
		p = int(v)
	case int32:
		p = int(v)
	case uint32:
		p = int(v)
	case string:
		p, _ = strconv.Atoi(v)
	case []byte:
		t = 15
		if len(v) > 0 {
			p = int(v[0])
		}
	case []int32:
		t += 64
		if len(v) > 0 {
			p = int(v[0])
		}
	case []uint32:
		t += 64
		if len(v) > 0 {
			p = int(v[0])
		}
	}
	return fmt.Sprintf("%d.%d", t, p)
}

// ---------------------------------------------------------------- cases

type nodeSpec struct {
	ns, key int
	val     dv
	valFunc int      // 0 no value function, 1 function returning val (nil when val is the nil pointer)
	attrs   [][2]int // attribute id, index into dvs
	dvs     []dv
}

func (n nodeSpec) String() string {
	var as []string
	for _, a := range n.attrs {
		as = append(as, fmt.Sprintf("%d=%s", a[0], n.dvs[a[1]]))
	}
	at := "-"
	if len(as) > 0 {
		at = strings.Join(as, ",")
	}
	v := n.val
	if n.valFunc == 0 {
		v = dv{}
	}
	return fmt.Sprintf("%d:%d:%s:%s", n.ns, n.key, v, at)
}

type op struct {
	write        bool
	ns, key, att int
	d            dv
	extra        int // what else the write carries: 1 status code (Good), 2 source timestamp, 4 an IndexRange (the server ignores it: the whole value is replaced)
}

func (o op) String() string {
	if o.write && o.extra != 0 {
		return fmt.Sprintf("w:%d:%d:%d:%s:f%d", o.ns, o.key, o.att, o.d, o.extra)
	}
	if o.write {
		return fmt.Sprintf("w:%d:%d:%d:%s", o.ns, o.key, o.att, o.d)
	}
	return fmt.Sprintf("r:%d:%d:%d", o.ns, o.key, o.att)
}

type hist struct {
	nodes []nodeSpec
	ops   []op
}

func (c hist) line() string {
	p := []string{"h", "3", strconv.Itoa(len(c.nodes))}
	for _, n := range c.nodes {
		p = append(p, n.String())
	}
	for _, o := range c.ops {
		p = append(p, o.String())
	}
	return strings.Join(p, " ")
}

func parseHist(line string) (hist, bool) {
	f := strings.Fields(line)
	var c hist
	if len(f) < 3 || f[0] != "h" {
		return c, false
	}
	n, err := strconv.Atoi(f[2])
	if err != nil || len(f) < 3+n {
		return c, false
	}
	for _, s := range f[3 : 3+n] {
		q := strings.Split(s, ":")
		if len(q) != 4 {
			return c, false
		}
		var sp nodeSpec
		sp.ns, _ = strconv.Atoi(q[0])
		sp.key, _ = strconv.Atoi(q[1])
		v, ok := parseDV(q[2])
		if !ok {
			return c, false
		}
		sp.val, sp.valFunc = v, 1
		if q[3] != "-" {
			for _, kv := range strings.Split(q[3], ",") {
				k, d, _ := strings.Cut(kv, "=")
				id, _ := strconv.Atoi(k)
				x, ok := parseDV(d)
				if !ok {
					return c, false
				}
				sp.attrs = append(sp.attrs, [2]int{id, len(sp.dvs)})
				sp.dvs = append(sp.dvs, x)
			}
		}
		c.nodes = append(c.nodes, sp)
	}
	for _, s := range f[3+n:] {
		q := strings.Split(s, ":")
		var o op
		switch {
		case len(q) == 4 && q[0] == "r":
		case (len(q) == 5 || len(q) == 6) && q[0] == "w":
			if len(q) == 6 {
				o.extra, _ = strconv.Atoi(strings.TrimPrefix(q[5], "f"))
			}
			o.write = true
			d, ok := parseDV(q[4])
			if !ok {
				return c, false
			}
			o.d = d
		default:
			return c, false
		}
		o.ns, _ = strconv.Atoi(q[1])
		o.key, _ = strconv.Atoi(q[2])
		o.att, _ = strconv.Atoi(q[3])
		c.ops = append(c.ops, o)
	}
	return c, true
}

// every kind of thing an access attribute can hold
var accessSlots = []dv{
	{}, {kind: 1},
	{2, 3, 0}, {2, 3, 1}, {2, 3, 2}, {2, 3, 3}, {2, 3, 4}, {2, 3, 255}, {2, 3, 0xfd}, {2, 3, 0xfe},
	{2, 7, 1}, {2, 7, 3}, {2, 6, 3}, {2, 2, 3}, {2, 12, 3}, {2, 1, 1}, {2, 0, 0}, {2, 15, 3}, {2, 64 + 7, 3},
}
var valueSlots = []dv{{}, {kind: 1}, {2, 6, 742}, {2, 7, 9}, {2, 3, 3}, {2, 12, 55}, {2, 1, 1}, {2, 64 + 6, 8}, {2, 64 + 7, 5}, {2, 15, 9}, {2, 0, 0}}
var classSlots = []dv{{}, {2, 7, 2}, {2, 6, 2}, {2, 3, 2}, {kind: 1}}

type env struct {
	o    *h.Opts
	r    *h.Result
	d    *h.Driver
	rnd  *h.Rand
	srv  *server.Server
	nss  map[int]*server.NodeNameSpace
	c    *opcua.Client
	next int
}

func (e *env) genNode(ns int, ual, al dv, absentAsEntry bool) nodeSpec {
	e.next++
	sp := nodeSpec{ns: ns, key: 1000 + e.next, valFunc: 1}
	sp.val = valueSlots[e.rnd.Intn(len(valueSlots))]
	if e.rnd.Chance(10) {
		sp.valFunc = 0
	}
	add := func(id int, d dv) {
		if d.kind == 0 && !absentAsEntry {
			return
		}
		sp.attrs = append(sp.attrs, [2]int{id, len(sp.dvs)})
		sp.dvs = append(sp.dvs, d)
	}
	add(18, ual)
	add(17, al)
	add(2, classSlots[e.rnd.Intn(len(classSlots))])
	// what sanitize() adds to every node
	sp.attrs = append(sp.attrs, [2]int{3, len(sp.dvs)}, [2]int{4, len(sp.dvs) + 1}, [2]int{5, len(sp.dvs) + 1})
	sp.dvs = append(sp.dvs, dv{2, 20, 0}, dv{2, 21, 0})
	return sp
}

func (e *env) genHist(ual, al dv) hist {
	var c hist
	c.nodes = append(c.nodes, e.genNode(1+e.rnd.Intn(2), ual, al, e.rnd.Bool()))
	for e.rnd.Chance(30) && len(c.nodes) < 3 {
		c.nodes = append(c.nodes, e.genNode(1+e.rnd.Intn(2),
			accessSlots[e.rnd.Intn(len(accessSlots))], accessSlots[e.rnd.Intn(len(accessSlots))], e.rnd.Bool()))
	}
	nops := 4 + e.rnd.Intn(8)
	for i := 0; i < nops; i++ {
		n := c.nodes[e.rnd.Intn(len(c.nodes))]
		o := op{ns: n.ns, key: n.key}
		switch {
		case e.rnd.Chance(4):
			o.ns = 7 // no such namespace
		case e.rnd.Chance(4):
			o.key = 999 // no such node
		}
		if e.rnd.Chance(45) {
			o.write = true
			o.att = e.rnd.Pick(13, 13, 13, 17, 18, 5, 2)
			switch o.att {
			case 17, 18:
				o.d = accessSlots[1+e.rnd.Intn(len(accessSlots)-1)]
				if e.rnd.Chance(15) {
					o.d = dv{}
				}
			case 2:
				o.d = classSlots[1+e.rnd.Intn(len(classSlots)-1)]
			default:
				o.d = valueSlots[e.rnd.Intn(len(valueSlots))]
			}
			if o.d.kind != 0 && e.rnd.Chance(30) {
				o.extra = 1 + e.rnd.Intn(7)
			}
		} else {
			o.att = e.rnd.Pick(13, 13, 13, 13, 17, 18, 1, 2, 12, 4, 22)
		}
		c.ops = append(c.ops, o)
	}
	return c
}

// build creates the real nodes of a history; keyShift separates the copies.
func (e *env) build(c hist, keyShift int) map[[2]int]*server.Node {
	out := map[[2]int]*server.Node{}
	for _, sp := range c.nodes {
		attrs := map[ua.AttributeID]*ua.DataValue{}
		for _, a := range sp.attrs {
			if a[0] == 3 || a[0] == 4 || a[0] == 5 {
				continue // sanitize() supplies BrowseName, DisplayName, Description
			}
			attrs[ua.AttributeID(a[0])] = mk(sp.dvs[a[1]])
		}
		var vf server.ValueFunc
		if sp.valFunc == 1 && sp.val.kind != 0 {
			x := mk(sp.val)
			vf = func() *ua.DataValue { return x }
		} else if sp.valFunc == 1 && e.rnd.Bool() {
			vf = func() *ua.DataValue { return nil }
		}
		n := server.NewNode(ua.NewNumericNodeID(uint16(sp.ns), uint32(sp.key+keyShift)), attrs, nil, vf)
		e.nss[sp.ns].AddNode(n)
		out[[2]int{sp.ns, sp.key}] = n
	}
	return out
}

func statusTok(s ua.StatusCode) string {
	switch s {
	case ua.StatusOK:
		return "ok"
	case ua.StatusBad:
		return "bad"
	case ua.StatusBadNodeIDUnknown:
		return "unk"
	case ua.StatusBadUserAccessDenied:
		return "den"
	case ua.StatusBadAttributeIDInvalid:
		return "inv"
	}
	return fmt.Sprintf("status-%08x", uint32(s))
}

func readTok(x *ua.DataValue) string {
	if x == nil {
		return "nil-result"
	}
	if x.Status != ua.StatusOK {
		return statusTok(x.Status)
	}
	return "val:" + tok(x)
}

// lacksGo is the specification-side classification, on the real node: the
// attribute is present and is not a uint8 with the bit set.
func lacksGo(n *server.Node, flag uint8) bool {
	for _, id := range []ua.AttributeID{ua.AttributeIDUserAccessLevel, ua.AttributeIDAccessLevel} {
		a, err := n.Attribute(id)
		if err != nil {
			continue // not present: no restriction
		}
		if a.Value.Value == nil {
			return true
		}
		b, ok := a.Value.Value.Value().(uint8)
		if !ok || b&flag == 0 {
			return true
		}
	}
	return false
}

func snapshot(n *server.Node) string {
	at := func(id ua.AttributeID) string {
		a, err := n.Attribute(id)
		if err != nil {
			return "nil"
		}
		return tok(a.Value)
	}
	return tok(n.Value()) + ";" + at(ua.AttributeIDAccessLevel) + ";" + at(ua.AttributeIDUserAccessLevel) + ";" + at(ua.AttributeIDNodeClass)
}

// exec runs one request against the real code and returns the result token.
func (e *env) exec(o op, keyShift int, wire bool) string {
	id := ua.NewNumericNodeID(uint16(o.ns), uint32(o.key+keyShift))
	if o.write {
		val := mk(o.d)
		if val != nil && o.extra&1 != 0 {
			val.EncodingMask |= ua.DataValueStatusCode // Status stays Good
		}
		if val != nil && o.extra&2 != 0 {
			val.EncodingMask |= ua.DataValueSourceTimestamp
			val.SourceTimestamp = time.Date(2020, 1, 1, 0, 0, 0, 0, time.UTC)
		}
		rng := ""
		if o.extra&4 != 0 {
			rng = "0"
		}
		req := &ua.WriteRequest{RequestHeader: &ua.RequestHeader{}, NodesToWrite: []*ua.WriteValue{{NodeID: id, AttributeID: ua.AttributeID(o.att), IndexRange: rng, Value: val}}}
		if wire {
			resp, err := e.c.Write(context.Background(), req)
			if err != nil || len(resp.Results) != 1 {
				return fmt.Sprintf("err(%v)", err)
			}
			return statusTok(resp.Results[0])
		}
		return h.Catch(func() string {
			resp, err, ok := e.srv.VerifCallService(nil, req)
			if !ok || err != nil {
				return fmt.Sprintf("err(%v)", err)
			}
			return statusTok(resp.(*ua.WriteResponse).Results[0])
		})
	}
	req := &ua.ReadRequest{RequestHeader: &ua.RequestHeader{}, TimestampsToReturn: ua.TimestampsToReturnNeither,
		NodesToRead: []*ua.ReadValueID{{NodeID: id, AttributeID: ua.AttributeID(o.att), DataEncoding: &ua.QualifiedName{}}}}
	if wire {
		resp, err := e.c.Read(context.Background(), req)
		if err != nil || len(resp.Results) != 1 {
			return fmt.Sprintf("err(%v)", err)
		}
		return readTok(resp.Results[0])
	}
	return h.Catch(func() string {
		resp, err, ok := e.srv.VerifCallService(nil, req)
		if !ok || err != nil {
			return fmt.Sprintf("err(%v)", err)
		}
		return readTok(resp.(*ua.ReadResponse).Results[0])
	})
}

// runHist executes a history, evaluates the oracle, returns the answer line.
func (e *env) runHist(c hist, keyShift int, wire bool) (string, bool) {
	nodes := e.build(c, keyShift)
	via := "inproc"
	if wire {
		via = "wire"
	}
	caseName := c.line() + " via=" + via
	lackedAtStart := map[[2]int]bool{}
	rewritten := map[[2]int]bool{}
	for k, n := range nodes {
		lackedAtStart[k] = lacksGo(n, 1)
	}
	var res []string
	panicked := false
	for _, o := range c.ops {
		k := [2]int{o.ns, o.key}
		n := nodes[k]
		var before string
		var lr, lw bool
		if n != nil {
			before, lr, lw = snapshot(n), lacksGo(n, 1), lacksGo(n, 2)
		}
		t := e.exec(o, keyShift, wire)
		res = append(res, t)
		if t == "panic" {
			panicked = true
		}
		e.r.Hit(via + ":" + map[bool]string{false: "read", true: "write"}[o.write] + ":" + strings.SplitN(t, ":", 2)[0])
		if n == nil {
			continue
		}
		// ---- the property's own oracle, on the implementation alone
		isVal := strings.HasPrefix(t, "val:")
		switch {
		case !o.write && o.att == 13:
			if lr {
				e.r.Hit("oracle:value-read-of-node-lacking-CurrentRead")
				if isVal {
					e.r.Fail(caseName, "", fmt.Sprintf("op %s: node lacks CurrentRead (%s) but the read returned %s", o, before, t))
				}
			} else if lackedAtStart[k] && isVal {
				sig := ""
				if rewritten[k] {
					sig = sigRewrite
				}
				if sig != "" && e.r.Distribution["oracle-fail:"+sig] >= 6 {
					e.r.Hit("oracle-fail:" + sig) // keep room in the failure list for unclassified failures
				} else {
					e.r.Fail(caseName, sig, fmt.Sprintf("op %s: node lacked CurrentRead at the start of the client history, a client write changed its access attributes, the read now returns %s", o, t))
				}
			}
		case o.write:
			if lw {
				e.r.Hit("oracle:write-to-node-lacking-CurrentWrite")
				if t == "ok" || snapshot(n) != before {
					e.r.Fail(caseName, "", fmt.Sprintf("op %s: node lacks CurrentWrite (%s) but the write answered %s and the node is now %s", o, before, t, snapshot(n)))
				}
			} else if t == "ok" && (o.att == 17 || o.att == 18) {
				rewritten[k] = true
			}
		}
	}
	final := []string{}
	for _, sp := range c.nodes {
		final = append(final, h.Catch(func() string { return snapshot(nodes[[2]int{sp.ns, sp.key}]) }))
	}
	return strings.Join(res, " ") + " | " + strings.Join(final, " "), panicked
}

func (e *env) one(c hist, allowWire bool) {
	if allowWire {
		// DataValue.Decode always allocates a Variant: a DataValue without one
		// cannot arrive over the wire, it becomes a Null Variant.  Wire cases
		// therefore write Null variants, and a stored no-Variant value reads back
		// as Null.
		for i := range c.ops {
			if c.ops[i].write && c.ops[i].d.kind == 1 {
				c.ops[i].d = dv{2, 0, 0}
			}
		}
	}
	line := c.line()
	ans, panicked := e.runHist(c, 0, false)
	e.r.Count(line, true)
	e.r.Compare(e.d, line, ans)
	e.r.Sample(line + "  ->  " + ans)
	nilWrite := false
	for _, o := range c.ops {
		nilWrite = nilWrite || (o.write && o.d.kind == 0)
	}
	if allowWire && !panicked && !nilWrite {
		// the same history on a second copy of the nodes through a real client
		wans, _ := e.runHist(c, 100000, true)
		e.r.Count(line+" wire", true)
		e.r.TracesValidated++
		res, final, _ := strings.Cut(ans, " | ")
		want := strings.ReplaceAll(res, "val:nov", "val:0.0") + " | " + final
		if wans != want {
			e.r.Disagree(line+" via=wire", want, wans)
		}
	}
}

func freePort() int {
	l, err := net.Listen("tcp", "127.0.0.1:0")
	if err != nil {
		return 0
	}
	defer l.Close()
	return l.Addr().(*net.TCPAddr).Port
}

func main() {
	log.SetOutput(io.Discard)
	o := h.ParseOpts()
	r := h.NewResult("C31", o)
	d, err := h.StartDriver(o.Driver)
	if err != nil {
		r.InfraError = err.Error()
		r.Write(o.Out)
		return
	}
	defer d.Close()
	e := &env{o: o, r: r, d: d, rnd: h.NewRand(o.Seed), nss: map[int]*server.NodeNameSpace{}}
	r.Rule = "case = request history (4-11 Read/Write requests, in process through the real AttributeService handlers; histories without a panic outcome and without nil DataValues also through a real client/server round trip) over 1-3 fresh nodes; the first node takes every (UserAccessLevel, AccessLevel) pair of 19x19 slot kinds (absent, explicit nil entry, DataValue without Variant, uint8 0/1/2/3/4/0xfd/0xfe/0xff, UInt32, Int32, SByte, String, Boolean, Null, ByteString, UInt32 array); answers and final (value, AccessLevel, UserAccessLevel, NodeClass) of every node compared with Access.run; distinct by the whole request line"

	var port int
	for try := 0; try < 5; try++ {
		port = freePort()
		e.srv = server.New(server.EnableSecurity("None", ua.MessageSecurityModeNone),
			server.EnableAuthMode(ua.UserTokenTypeAnonymous), server.EndPoint("localhost", port))
		e.nss[1] = server.NewNodeNameSpace(e.srv, "urn:verif:1")
		e.nss[2] = server.NewNodeNameSpace(e.srv, "urn:verif:2")
		if err = e.srv.Start(context.Background()); err == nil {
			break
		}
	}
	if err != nil {
		r.InfraError = "server start: " + err.Error()
		r.Write(o.Out)
		return
	}
	defer e.srv.Close()
	ctx, cancel := context.WithTimeout(context.Background(), 20*time.Second)
	e.c, err = opcua.NewClient(fmt.Sprintf("opc.tcp://localhost:%d", port), opcua.SecurityMode(ua.MessageSecurityModeNone))
	if err == nil {
		err = e.c.Connect(ctx)
	}
	cancel()
	if err != nil {
		r.InfraError = "client connect: " + fmt.Sprint(err)
		r.Write(o.Out)
		return
	}
	defer e.c.Close(context.Background())

	if o.Replay != "" {
		line := o.Replay
		wire := strings.Contains(line, " via=wire")
		line = strings.TrimSuffix(strings.TrimSuffix(line, " via=wire"), " via=inproc")
		if c, ok := parseHist(line); ok {
			e.one(c, wire)
		} else {
			r.Notes = append(r.Notes, "cannot parse replay case")
		}
		r.Write(o.Out)
		return
	}

	// the witness of the listed finding, in process and through the client
	witness := "h 3 1 1:900:6.742:17=3.2,3=20.0,4=21.0,5=21.0 r:1:900:13 w:1:900:17:3.3 r:1:900:13"
	lines := append([]string{witness}, o.CorpusLines()...)
	for i, l := range lines {
		c, ok := parseHist(l)
		if !ok {
			r.Notes = append(r.Notes, "unparsable corpus line: "+l)
			continue
		}
		for j := range c.nodes { // fresh node ids
			e.next++
			old := c.nodes[j].key
			c.nodes[j].key = 1000 + e.next
			for k := range c.ops {
				if c.ops[k].key == old && c.ops[k].ns == c.nodes[j].ns {
					c.ops[k].key = c.nodes[j].key
				}
			}
		}
		before := len(r.OracleFailures)
		e.one(c, true)
		if i == 0 {
			n := 0
			for _, f := range r.OracleFailures[before:] {
				if f.Sig == sigRewrite {
					n++
				}
			}
			if n == 2 {
				r.Confirm(sigRewrite, "write-only node (AccessLevel=2, value 742): Read -> BadUserAccessDenied, Write AccessLevel:=3 -> Good, Read -> 742; in process and through a real client")
			}
		}
	}

	// every (UserAccessLevel, AccessLevel) pair, `rounds` histories each
	rounds := o.N(2, 12)
	wireEvery := o.N(6, 2)
	k := 0
	for round := 0; round < rounds; round++ {
		for _, ual := range accessSlots {
			for _, al := range accessSlots {
				k++
				e.one(e.genHist(ual, al), k%wireEvery == 0)
			}
		}
	}
	for _, b := range []string{"inproc:read:val", "inproc:read:den", "inproc:read:inv", "inproc:read:unk", "inproc:read:bad", "inproc:read:panic",
		"inproc:write:ok", "inproc:write:den", "inproc:write:unk", "inproc:write:panic", "wire:read:val", "wire:read:den", "wire:write:ok", "wire:write:den",
		"oracle:value-read-of-node-lacking-CurrentRead", "oracle:write-to-node-lacking-CurrentWrite"} {
		if r.Distribution[b] == 0 {
			r.Unreached = append(r.Unreached, b)
		}
	}
	r.Write(o.Out)
}
