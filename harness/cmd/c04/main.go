// Correspondence runner and property oracle for C04: the real
// (*ua.NodeID).String / ua.ParseNodeID / ua.ParseExpandedNodeID / Equal (and
// the text codecs they rest on) against the Lean model
// (Model/NodeIdText.lean, Model/NodeIdParse.lean), plus the property's own
// oracle on the implementation alone.
//
// Every case is one protocol line (see lean/Drv/C04.lean); a NodeID is the
// five tokens <mask> <ns> <nid> <bidHex> <gidHex|nil>.  One extra line kind
// exists only on the Go side:
//
//	nsux <k> <idTextHex> tbl <uriHex>*
//
// = "nsu=<tbl[k]>;<idText>" must parse to the same node as
// "ns=<index of tbl[k]>;<idText>" (it is sent to the model as a parsex line).
package main

import (
	"bytes"
	"encoding/base64"
	"fmt"
	"strconv"
	"strings"

	"github.com/gopcua/opcua/ua"

	"verifharness/internal/h"
)

// escNsu: the text form of a namespace URI (Part 6 5.3.1.10): the reserved characters ';' and
// '%' are written as %3B and %25 (the specification side; the library itself renders no URIs)
func escNsu(u string) string {
	return strings.ReplaceAll(strings.ReplaceAll(u, "%", "%25"), ";", "%3B")
}

type env struct {
	o   *h.Opts
	r   *h.Result
	d   *h.Driver
	rnd *h.Rand
}

// ---------------------------------------------------------------- nodes

type parts struct {
	mask byte
	ns   uint16
	nid  uint32
	bid  []byte
	gid  []byte // nil or 16 bytes
}

func (p parts) line() string {
	g := "nil"
	if p.gid != nil {
		g = h.Hex(p.gid)
	}
	return fmt.Sprintf("%d %d %d %s %s", p.mask, p.ns, p.nid, h.Hex(p.bid), g)
}

func (p parts) node() *ua.NodeID { return ua.VerifMakeNodeID(p.mask, p.ns, p.nid, p.bid, p.gid) }

func partsOf(n *ua.NodeID) parts {
	m, ns, nid, bid, gid := ua.VerifNodeIDParts(n)
	return parts{m, ns, nid, bid, gid}
}

func parseParts(t []string) (parts, bool) {
	if len(t) != 5 {
		return parts{}, false
	}
	m, e1 := strconv.ParseUint(t[0], 10, 8)
	ns, e2 := strconv.ParseUint(t[1], 10, 16)
	nid, e3 := strconv.ParseUint(t[2], 10, 32)
	if e1 != nil || e2 != nil || e3 != nil {
		return parts{}, false
	}
	p := parts{mask: byte(m), ns: uint16(ns), nid: uint32(nid), bid: h.UnHex(t[3])}
	if t[4] != "nil" {
		p.gid = h.UnHex(t[4])
		if p.gid == nil {
			p.gid = []byte{}
		}
	}
	return p, true
}

// wf: a NodeID the library's constructors can build (the quantifier of C04)
func (p parts) wf() bool {
	switch p.mask & 0xf {
	case 0:
		return p.ns == 0 && p.nid < 256
	case 1:
		return p.ns < 256 && p.nid < 65536
	case 2, 3, 5:
		return true
	case 4:
		return len(p.gid) == 16
	}
	return false
}

// sameNode is the specification: same namespace, same identifier; numeric
// encodings of one number are one node, flag bits do not matter.
func sameNode(a, b parts) bool {
	class := func(p parts) int {
		if t := int(p.mask & 0xf); t > 2 {
			return t
		}
		return 0
	}
	if a.ns != b.ns || class(a) != class(b) {
		return false
	}
	switch class(a) {
	case 0:
		return a.nid == b.nid
	case 4:
		return bytes.Equal(a.gid, b.gid)
	default:
		return bytes.Equal(a.bid, b.bid)
	}
}

func (p parts) kind() string {
	k := []string{"twobyte", "fourbyte", "numeric", "string", "guid", "opaque"}
	t := int(p.mask & 0xf)
	if t >= len(k) {
		return "invalid-type"
	}
	s := k[t]
	if p.ns == 0 {
		return s + "/ns0"
	}
	return s + "/ns+"
}

func showNode(n *ua.NodeID, err error) string {
	if err != nil {
		return "err"
	}
	return "ok " + partsOf(n).line()
}

// ---------------------------------------------------------------- cases

func (e *env) runStr(line string, t []string) {
	p, ok := parseParts(t[1:])
	if !ok {
		e.r.InfraError = "malformed case: " + line
		return
	}
	n := p.node()
	var s string
	res := h.Catch(func() string { s = n.String(); return h.Hex([]byte(s)) })
	e.r.Count(line, true)
	e.r.Hit("str:" + p.kind())
	e.r.Compare(e.d, line, res)
	if !p.wf() {
		e.r.Hit("str:not-wellformed")
		return
	}
	if res == "panic" {
		e.r.Fail(line, "", "String() panics on a well-formed NodeID")
		return
	}
	// ---- oracle: parsing the string form yields a NodeID equal to the original
	if p.mask&0xf == 3 && p.ns == 0 && bytes.IndexByte(p.bid, ';') >= 0 {
		e.r.Hit("str:string-ns0-with-semicolon") // the shape of the repaired C04.string-ns0-semicolon
	}
	var q *ua.NodeID
	var err error
	if h.Catch(func() string { q, err = ua.ParseNodeID(s); return "" }) == "panic" {
		e.r.Fail(line, "", fmt.Sprintf("ParseNodeID(%q) panics", s))
		return
	}
	if err != nil {
		e.r.Fail(line, "", fmt.Sprintf("ParseNodeID(%q) fails: %v", s, err))
		return
	}
	if !sameNode(partsOf(q), p) {
		e.r.Fail(line, "", fmt.Sprintf("ParseNodeID(%q) = {%s}, a different node than {%s}", s, partsOf(q).line(), p.line()))
		return
	}
	if !q.Equal(n) || !n.Equal(q) {
		e.r.Fail(line, "", fmt.Sprintf("ParseNodeID(%q) is not Equal to the original", s))
	}
}

func (e *env) runEq(line string, t []string) {
	a, ok1 := parseParts(t[1:6])
	b, ok2 := parseParts(t[6:])
	if !ok1 || !ok2 {
		e.r.InfraError = "malformed case: " + line
		return
	}
	na, nb := a.node(), b.node()
	res := h.Catch(func() string { return fmt.Sprint(na.Equal(nb)) })
	e.r.Count(line, true)
	e.r.Compare(e.d, line, res)
	if !a.wf() || !b.wf() {
		e.r.Hit("eq:not-wellformed")
		return
	}
	same := sameNode(a, b)
	e.r.Hit(fmt.Sprintf("eq:same=%v", same))
	if same && (a.mask != b.mask) {
		e.r.Hit("eq:same-node-different-encoding-or-flags")
	}
	switch {
	case res == "panic":
		e.r.Fail(line, "", "Equal panics on well-formed NodeIDs")
	case res != fmt.Sprint(same):
		e.r.Fail(line, "", fmt.Sprintf("Equal = %s but same node = %v ({%s} vs {%s})", res, same, a.line(), b.line()))
	default:
		if r2 := h.Catch(func() string { return fmt.Sprint(nb.Equal(na)) }); r2 != res {
			e.r.Fail(line, "", "Equal is not symmetric")
		}
	}
}

// registry phase: ua.TypeRegistry keys its maps by the string form of the id
// (typereg.go), so it must treat two ids as one entry exactly when they are the
// same node.
type regA struct{ X int }
type regB struct{ Y int }

// reg <a> <b>: a fresh registry, Register(a, *regA); then New(b), Register(b, *regB), Lookup(*regA)
func (e *env) runReg(line string, t []string) {
	a, ok1 := parseParts(t[1:6])
	b, ok2 := parseParts(t[6:])
	if !ok1 || !ok2 || !a.wf() || !b.wf() {
		e.r.InfraError = "malformed case (reg needs two well-formed ids): " + line
		return
	}
	na, nb := a.node(), b.node()
	var hit, clash, back string
	res := h.Catch(func() string {
		reg := ua.NewTypeRegistry()
		if err := reg.Register(na, &regA{}); err != nil {
			return "register-fails"
		}
		hit = "miss"
		if v := reg.New(nb); v != nil {
			hit = "hit"
			if _, ok := v.(*regA); !ok {
				hit = "hit-wrong-type"
			}
		}
		// the same id under another type is refused, another id is accepted
		clash = "accepted"
		if err := reg.Register(nb, &regB{}); err != nil {
			clash = "refused"
		}
		back = "lost"
		if id := reg.Lookup(&regA{}); id != nil && sameNode(partsOf(id), a) {
			back = "found"
		}
		return hit
	})
	same := sameNode(a, b)
	e.r.Count(line, true)
	e.r.Hit(fmt.Sprintf("reg:same=%v", same))
	if same && a.mask&0xf != b.mask&0xf {
		e.r.Hit("reg:same-node-other-numeric-encoding")
	}
	if !same && a.nid == b.nid && a.mask&0xf <= 2 && b.mask&0xf <= 2 {
		e.r.Hit("reg:same-number-other-namespace")
	}
	e.r.Compare(e.d, line, res)
	// ---- oracle: one entry per node
	want, wantClash := "miss", "accepted"
	if same {
		want, wantClash = "hit", "refused"
	}
	switch {
	case res == "panic" || res == "register-fails":
		e.r.Fail(line, "", "TypeRegistry "+res)
	case hit != want:
		e.r.Fail(line, "", fmt.Sprintf("registered under {%s}: New({%s}) is a %s, same node = %v", a.line(), b.line(), hit, same))
	case clash != wantClash:
		e.r.Fail(line, "", fmt.Sprintf("registered under {%s}: Register({%s}, other type) is %s, same node = %v", a.line(), b.line(), clash, same))
	case back != "found":
		e.r.Fail(line, "", fmt.Sprintf("Lookup of the type registered under {%s} does not return that node", a.line()))
	}
}

// regPair: two numeric ids built to collide if a key drops the namespace or the encoding matters
func (e *env) regPair() (parts, parts) {
	enc := func(ns uint16, id uint32) parts {
		var cands []parts
		if ns == 0 && id < 256 {
			cands = append(cands, parts{mask: 0, nid: id})
		}
		if ns < 256 && id < 65536 {
			cands = append(cands, parts{mask: 1, ns: ns, nid: id})
		}
		cands = append(cands, parts{mask: 2, ns: ns, nid: id})
		return cands[e.rnd.Intn(len(cands))]
	}
	id := uint32(e.rnd.Pick(0, 1, 255, 256, 884, 886, 65534, 65535, 65536, e.rnd.Intn(70000)))
	nss := []uint16{0, 0, 1, 2, 2, 255, 256}
	n1, n2 := nss[e.rnd.Intn(len(nss))], nss[e.rnd.Intn(len(nss))]
	a, b := enc(n1, id), enc(n2, id)
	if e.rnd.Chance(15) {
		b = enc(n2, id^1)
	}
	return a, b
}

func classifyText(s string) string {
	nsval, idval := "ns=0", s
	if i := strings.IndexByte(s, ';'); i >= 0 && !strings.HasPrefix(s, "s=") {
		nsval, idval = s[:i], s[i+1:]
	}
	k := "other"
	switch {
	case s == "":
		return "parse:empty"
	case strings.HasPrefix(nsval, "nsu="):
		k = "nsu"
	case strings.HasPrefix(nsval, "ns="):
		k = "ns"
	}
	id := "bare"
	for _, p := range []string{"i=", "s=", "g=", "b=", "ns="} {
		if strings.HasPrefix(idval, p) {
			id = p
			break
		}
	}
	return "parse:" + k + "/" + id
}

func (e *env) runParse(line string, t []string) {
	s := string(h.UnHex(t[1]))
	res := h.Catch(func() string { return showNode(ua.ParseNodeID(s)) })
	e.r.Count(line, s != "")
	e.r.Hit(classifyText(s) + "/" + strings.Fields(res)[0])
	e.r.Compare(e.d, line, res)
	if res == "panic" {
		e.r.Fail(line, "", fmt.Sprintf("ParseNodeID(%q) panics", s))
	}
}

func showExp(x *ua.ExpandedNodeID, err error) string {
	if err != nil {
		return "err"
	}
	return fmt.Sprintf("ok %s %s %d", partsOf(x.NodeID).line(), h.Hex([]byte(x.NamespaceURI)), x.ServerIndex)
}

func tableOf(t []string) []string {
	if len(t) == 1 && t[0] == "nil" {
		return nil
	}
	tbl := []string{}
	for _, u := range t[1:] {
		tbl = append(tbl, string(h.UnHex(u)))
	}
	return tbl
}

func (e *env) runParsex(line string, t []string) {
	s := string(h.UnHex(t[1]))
	tbl := tableOf(t[2:])
	res := h.Catch(func() string { return showExp(ua.ParseExpandedNodeID(s, tbl)) })
	e.r.Count(line, s != "")
	e.r.Hit("x" + classifyText(s) + "/" + strings.Fields(res)[0])
	e.r.Compare(e.d, line, res)
	if res == "panic" {
		e.r.Fail(line, "", fmt.Sprintf("ParseExpandedNodeID(%q) panics", s))
	}
}

// nsux <k> <idTextHex> tbl <uriHex>*
func (e *env) runNsux(line string, t []string) {
	k, err := strconv.Atoi(t[1])
	tbl := tableOf(t[3:])
	if err != nil || k < 0 || k >= len(tbl) {
		e.r.InfraError = "malformed case: " + line
		return
	}
	id := string(h.UnHex(t[2]))
	uri := tbl[k]
	first := k
	for i, u := range tbl {
		if u == uri {
			first = i
			break
		}
	}
	for i, u := range tbl {
		if i != k && u != uri && strings.EqualFold(u, uri) {
			e.r.Hit("nsux:table-has-case-variant")
			break
		}
	}
	text := "nsu=" + escNsu(uri) + ";" + id
	ref := fmt.Sprintf("ns=%d;%s", first, id)
	// the model sees it as a plain parsex line
	e.runParsex("parsex "+h.Hex([]byte(text))+" "+strings.Join(t[3:], " "), append([]string{"parsex", h.Hex([]byte(text))}, t[3:]...))
	var x, y *ua.ExpandedNodeID
	var ex, ey error
	h.Catch(func() string { x, ex = ua.ParseExpandedNodeID(text, tbl); return "" })
	h.Catch(func() string { y, ey = ua.ParseExpandedNodeID(ref, tbl); return "" })
	switch {
	case strings.ContainsAny(uri, ";%"):
		e.r.Hit("nsux:uri-with-reserved-character") // the shape of the repaired C04.nsu-uri-semicolon
	default:
		e.r.Hit("nsux:plain-uri")
	}
	// ---- oracle: the URI form names the same node as the index form
	switch {
	case (ex == nil) != (ey == nil):
		e.r.Fail(line, "", fmt.Sprintf("ParseExpandedNodeID(%q) err=%v but (%q) err=%v", text, ex, ref, ey))
	case ex == nil && !sameNode(partsOf(x.NodeID), partsOf(y.NodeID)):
		e.r.Fail(line, "", fmt.Sprintf("ParseExpandedNodeID(%q) = {%s} but (%q) = {%s}", text, partsOf(x.NodeID).line(), ref, partsOf(y.NodeID).line()))
	}
}

func (e *env) runCodec(line string, t []string) {
	in := h.UnHex(t[1])
	var res string
	switch t[0] {
	case "b64d":
		b, err := base64.StdEncoding.DecodeString(string(in))
		if err != nil {
			res = "err"
		} else {
			res = "ok " + h.Hex(b)
		}
		e.r.Hit("b64d:" + strings.Fields(res)[0])
	case "b64e":
		res = h.Hex([]byte(base64.StdEncoding.EncodeToString(in)))
		e.r.Hit("b64e")
	case "guid":
		g := ua.NewGUID(string(in))
		if g == nil {
			res = "nil"
		} else {
			_, _, _, _, gid := ua.VerifNodeIDParts(ua.NewGUIDNodeID(0, string(in)))
			res = "ok " + h.Hex(gid)
		}
		e.r.Hit("guid:" + strings.Fields(res)[0])
	}
	e.r.Count(line, len(in) > 0)
	e.r.Compare(e.d, line, res)
}

func (e *env) run(line string) {
	t := strings.Fields(line)
	switch {
	case len(t) == 6 && t[0] == "str":
		e.runStr(line, t)
	case len(t) == 11 && t[0] == "eq":
		e.runEq(line, t)
	case len(t) == 11 && t[0] == "reg":
		e.runReg(line, t)
	case len(t) == 2 && t[0] == "parse":
		e.runParse(line, t)
	case len(t) >= 3 && t[0] == "parsex" && (t[2] == "nil" || t[2] == "tbl"):
		e.runParsex(line, t)
	case len(t) >= 4 && t[0] == "nsux" && t[3] == "tbl":
		e.runNsux(line, t)
	case len(t) == 2 && (t[0] == "b64d" || t[0] == "b64e" || t[0] == "guid"):
		e.runCodec(line, t)
	default:
		e.r.InfraError = "unknown case line: " + line
	}
}

// ---------------------------------------------------------------- generators

var biased = []byte(";;;===nnssuuiiggbb0123456789+-/ AZaz_%\r\n\x00\xff,:")

func (e *env) text(n int) []byte {
	b := make([]byte, n)
	for i := range b {
		if e.rnd.Chance(88) {
			b[i] = biased[e.rnd.Intn(len(biased))]
		} else {
			b[i] = byte(e.rnd.U64())
		}
	}
	return b
}

var prefixes = []string{"ns=", "nsu=", "i=", "s=", "g=", "b=", "ns=1;", "ns=0;", "s=a;", ";", "=", "ns=1;i=2", "nsu=x;"}

func (e *env) identText() []byte {
	switch e.rnd.Intn(8) {
	case 0:
		return nil
	case 1:
		return []byte(prefixes[e.rnd.Intn(len(prefixes))])
	case 2:
		return append([]byte(prefixes[e.rnd.Intn(len(prefixes))]), e.text(e.rnd.Intn(5))...)
	case 3:
		return []byte(fmt.Sprint(e.rnd.Intn(70000)))
	case 4:
		return e.text(1)
	default:
		return e.text(1 + e.rnd.Intn(8))
	}
}

func (e *env) nsIdx() uint16 {
	return uint16(e.rnd.Pick(0, 0, 0, 1, 2, 9, 10, 255, 256, 65535, e.rnd.Intn(65536)))
}

func (e *env) numID() uint32 {
	return uint32(e.rnd.Pick(0, 1, 9, 10, 255, 256, 65534, 65535, 65536, 1<<32-1, e.rnd.Intn(1<<32), e.rnd.Intn(300), e.rnd.Intn(70000)))
}

// wfNode: a node built the way the public constructors build it
func (e *env) wfNode() parts {
	var p parts
	switch e.rnd.Intn(8) {
	case 0:
		p = parts{mask: 0, nid: uint32(e.rnd.Intn(256))}
	case 1:
		p = parts{mask: 1, ns: uint16(e.rnd.Pick(0, 0, 1, 255, e.rnd.Intn(256))), nid: e.numID() % 65536}
	case 2:
		p = parts{mask: 2, ns: e.nsIdx(), nid: e.numID()}
	case 3, 4, 5:
		p = parts{mask: 3, ns: e.nsIdx(), bid: e.identText()}
	case 6:
		p = parts{mask: 4, ns: e.nsIdx(), gid: e.rnd.Bytes(16)}
		if e.rnd.Chance(20) {
			p.gid = bytes.Repeat([]byte{byte(e.rnd.Pick(0, 0xff, 0xab, 0x0a))}, 16)
		}
	default:
		p = parts{mask: 5, ns: e.nsIdx(), bid: e.rnd.Bytes(e.rnd.Intn(9))}
		if e.rnd.Chance(30) {
			p.bid = e.identText()
		}
	}
	if e.rnd.Chance(10) {
		p.mask |= byte(e.rnd.Pick(0x40, 0x80, 0xc0)) // flag bits never change the identity
	}
	return p
}

// relative: a node related to p — same node in another encoding, or a near miss
func (e *env) relative(p parts) parts {
	q := p
	q.bid = append([]byte(nil), p.bid...)
	q.gid = append([]byte(nil), p.gid...)
	if p.gid == nil {
		q.gid = nil
	}
	t := p.mask & 0xf
	switch e.rnd.Intn(8) {
	case 0: // another numeric encoding of the same number
		if t <= 2 {
			q.mask = 2
			if p.ns < 256 && p.nid < 65536 && e.rnd.Bool() {
				q.mask = 1
			}
		}
	case 1:
		q.mask ^= byte(e.rnd.Pick(0x40, 0x80))
	case 2:
		q.ns = e.nsIdx()
		if t == 0 {
			q.mask = 2
		}
		if t == 1 {
			q.ns %= 256
		}
	case 3:
		if t <= 2 {
			q.nid ^= 1
		} else if t == 4 {
			q.gid[e.rnd.Intn(16)] ^= 0x10
		} else {
			q.bid = append(q.bid, ';')
		}
	case 4: // same text, other kind
		if t == 3 {
			q.mask = 5
		} else if t == 5 {
			q.mask = 3
		} else if t <= 2 {
			q = parts{mask: 3, ns: p.ns, bid: []byte(fmt.Sprint(p.nid))}
		}
	case 5: // the text of another node as a string id
		q = parts{mask: 3, ns: 0, bid: []byte(p.node().String())}
		if len(q.bid) > 2 && e.rnd.Bool() {
			q.bid = q.bid[2:]
		}
	case 6:
		return e.wfNode()
	}
	if !q.wf() {
		return p
	}
	return q
}

func (e *env) mutate(s []byte) []byte {
	out := append([]byte(nil), s...)
	for k := 1 + e.rnd.Intn(3); k > 0; k-- {
		pos := e.rnd.Intn(len(out) + 1)
		switch e.rnd.Intn(4) {
		case 0:
			if len(out) > 0 {
				pos %= len(out)
				out = append(out[:pos], out[pos+1:]...)
			}
		case 1:
			out = append(out[:pos], append(e.text(1), out[pos:]...)...)
		case 2:
			if len(out) > 0 {
				out[pos%len(out)] = e.text(1)[0]
			}
		default:
			out = append(out[:pos], append([]byte(prefixes[e.rnd.Intn(len(prefixes))]), out[pos:]...)...)
		}
	}
	return out
}

func (e *env) assembled() []byte {
	var sb bytes.Buffer
	if e.rnd.Chance(70) {
		sb.WriteString([]string{"ns=", "nsu=", "ns", "NS=", "ns=+", "ns=-", "ns=0", ""}[e.rnd.Intn(8)])
		switch e.rnd.Intn(5) {
		case 0:
			fmt.Fprint(&sb, e.rnd.Pick(0, 1, 255, 256, 65535, 65536, 70000))
		case 1:
			sb.WriteString("00000000000000000000000" + fmt.Sprint(e.rnd.Intn(300)))
		case 2:
			sb.WriteString("99999999999999999999999")
		case 3:
			sb.Write(e.text(e.rnd.Intn(3)))
		default:
			fmt.Fprint(&sb, e.rnd.Intn(70000))
		}
		if e.rnd.Chance(85) {
			sb.WriteByte(';')
		}
	}
	switch e.rnd.Intn(7) {
	case 0:
		sb.WriteString("i=")
		switch e.rnd.Intn(4) {
		case 0:
			fmt.Fprint(&sb, e.numID())
		case 1:
			sb.WriteString([]string{"4294967296", "18446744073709551615", "18446744073709551616", "99999999999999999999999", "", "+1", "-1", "0x10", "1_0", " 1", "00255"}[e.rnd.Intn(11)])
		default:
			fmt.Fprint(&sb, e.rnd.Intn(70000))
		}
	case 1:
		sb.WriteString("s=")
		sb.Write(e.identText())
	case 2:
		sb.WriteString("g=")
		g := strings.ToUpper(ua.NewGUIDNodeID(0, fmt.Sprintf("%032x", e.rnd.Bytes(16))).StringID())
		switch e.rnd.Intn(5) {
		case 0:
			g = strings.ToLower(g)
		case 1:
			g = strings.ReplaceAll(g, "-", "")
		case 2:
			g = string(e.mutate([]byte(g)))
		case 3:
			g = g[:e.rnd.Intn(len(g)+1)]
		}
		sb.WriteString(g)
	case 3:
		sb.WriteString("b=")
		b := base64.StdEncoding.EncodeToString(e.rnd.Bytes(e.rnd.Intn(8)))
		switch e.rnd.Intn(5) {
		case 0:
			b = string(e.mutate([]byte(b)))
		case 1:
			b = strings.TrimRight(b, "=")
		case 2:
			b += "="
		}
		sb.WriteString(b)
	default:
		sb.Write(e.identText())
	}
	return sb.Bytes()
}

func (e *env) b64ish() []byte {
	const al = "ABCDEFGHIJKLMNOPQRSTUVWXYZabcdefghijklmnopqrstuvwxyz0123456789+/"
	n := e.rnd.Intn(10)
	b := make([]byte, n)
	for i := range b {
		switch {
		case e.rnd.Chance(80):
			b[i] = al[e.rnd.Intn(64)]
		case e.rnd.Chance(50):
			b[i] = '='
		default:
			b[i] = biased[e.rnd.Intn(len(biased))]
		}
	}
	if e.rnd.Chance(40) {
		for len(b)%4 != 0 {
			b = append(b, '=')
		}
	}
	return b
}

func hx(b []byte) string { return h.Hex(b) }

// nearURI: a different URI that a lenient comparison would take for u
func nearURI(rnd *h.Rand, u string) string {
	switch rnd.Intn(8) {
	case 0:
		return strings.ToUpper(u)
	case 1:
		return strings.ToLower(u)
	case 2:
		return u + " "
	case 3:
		return " " + u
	case 4:
		return u + "b"
	case 5:
		if len(u) > 0 {
			return u[:len(u)-1]
		}
		return "x"
	case 6:
		return u + "/"
	default:
		return strings.ReplaceAll(u, ":", "%3A")
	}
}

func main() {
	o := h.ParseOpts()
	r := h.NewResult("C04", o)
	d, err := h.StartDriver(o.Driver)
	if err != nil {
		r.InfraError = err.Error()
		r.Write(o.Out)
		return
	}
	defer d.Close()
	e := &env{o, r, d, h.NewRand(o.Seed)}
	r.Rule = "case = one protocol line. 'str <node>': String() of a NodeID built field by field vs the model, and for well-formed nodes the oracle ParseNodeID(String()) succeeds, is the same node (namespace + identifier, numeric encodings identified, flags ignored) and is Equal. 'eq a b': Equal vs the model and vs the specification's same-node relation. 'parse'/'parsex': ParseNodeID / ParseExpandedNodeID on rendered, mutated and assembled texts (alphabet biased to ; = n s u i g b, digits, CR/LF, arbitrary bytes) vs the model, every field of the result compared. 'nsux': nsu=<uri> form vs ns=<index> form against a namespace table. 'reg a b': a fresh ua.TypeRegistry with a type registered under a: New(b) hits, and Register(b, other type) is refused, exactly when a and b are the same node; Lookup returns a. 'b64d/b64e/guid': the text codecs vs encoding/base64 and ua.NewGUID. Distinct by the whole line; trivial = empty text."

	if o.Replay != "" {
		e.run(strings.Trim(o.Replay, "\""))
		r.Write(o.Out)
		return
	}
	for _, l := range o.CorpusLines() {
		e.run(l)
	}
	N := o.N(4000, 300000)
	for i := 0; i < N; i++ {
		p := e.wfNode()
		e.run("str " + p.line())
		var s string
		h.Catch(func() string { s = p.node().String(); return "" })
		e.run("parse " + hx([]byte(s)))
		if i < 6 {
			r.Sample(fmt.Sprintf("{%s}.String() = %q", p.line(), s))
		}
		q := e.relative(p)
		e.run("eq " + p.line() + " " + q.line())
		if i%2 == 0 {
			e.run("reg " + p.line() + " " + q.line())
		} else {
			ra, rb := e.regPair()
			e.run("reg " + ra.line() + " " + rb.line())
		}
		// parse-only: mutated renderings and assembled texts
		e.run("parse " + hx(e.mutate([]byte(s))))
		e.run("parse " + hx(e.assembled()))
		if i%4 == 0 {
			// namespace tables
			nt := 1 + e.rnd.Intn(4)
			tbl := make([]string, 0, nt+2)
			var plain []string
			for k := 0; k < nt; k++ {
				u := []string{"urn:a", "http://x/y", "", "urn:a;b", "urn:a", "urn:x;i=1", "a%3Bb", "nsu=urn:a", "urn:Vendor:Device", "http://Host/Path", "a%b", "a%3Bb", "a;b", "100%;", "%25", "x%3bb"}[e.rnd.Intn(16)]
				if e.rnd.Chance(25) {
					u = string(e.text(1 + e.rnd.Intn(5)))
				}
				plain = append(plain, u)
				tbl = append(tbl, hx([]byte(u)))
			}
			// near-duplicates: URIs that any lenient comparison (case folding, trimming, prefix match,
			// unescaping) would confuse with an entry already in the table
			for len(tbl) < cap(tbl) && e.rnd.Chance(60) {
				u := nearURI(e.rnd, plain[e.rnd.Intn(len(plain))])
				plain = append(plain, u)
				pos := e.rnd.Intn(len(tbl) + 1)
				tbl = append(tbl[:pos], append([]string{hx([]byte(u))}, tbl[pos:]...)...)
			}
			nt = len(tbl)
			ts := "tbl " + strings.Join(tbl, " ")
			e.run(fmt.Sprintf("nsux %d %s %s", e.rnd.Intn(nt), hx(e.assembledIdent()), ts))
			e.run("parsex " + hx(e.assembled()) + " " + ts)
			e.run("parsex " + hx(e.assembled()) + " nil")
			e.run("parsex " + hx([]byte(s)) + " " + ts)
			// a table entry named in its escaped, lower-case-escaped, raw and doubly escaped text form
			{
				u := plain[e.rnd.Intn(len(plain))]
				w := []string{escNsu(u), strings.ReplaceAll(escNsu(u), "%3B", "%3b"), u, escNsu(escNsu(u)), strings.ReplaceAll(u, ";", "%3B")}[e.rnd.Intn(5)]
				l := "parsex " + hx(append([]byte("nsu="+w+";"), e.assembledIdent()...)) + " " + ts
				before := r.Distribution["xparse:nsu/i=/ok"] + r.Distribution["xparse:nsu/s=/ok"] + r.Distribution["xparse:nsu/b=/ok"] + r.Distribution["xparse:nsu/g=/ok"] + r.Distribution["xparse:nsu/bare/ok"]
				e.run(l)
				after := r.Distribution["xparse:nsu/i=/ok"] + r.Distribution["xparse:nsu/s=/ok"] + r.Distribution["xparse:nsu/b=/ok"] + r.Distribution["xparse:nsu/g=/ok"] + r.Distribution["xparse:nsu/bare/ok"]
				if after > before && strings.Contains(w, "%") {
					r.Hit("xparse:escaped-uri/ok")
				}
			}
			// a URI that is NOT in the table but close to one that is
			e.run("parsex " + hx(append([]byte("nsu="+nearURI(e.rnd, plain[e.rnd.Intn(len(plain))])+";"), e.assembledIdent()...)) + " " + ts)
		}
		if i%4 == 1 {
			e.run("b64d " + hx(e.b64ish()))
			e.run("b64e " + hx(e.rnd.Bytes(e.rnd.Intn(10))))
			g := []byte(fmt.Sprintf("%X", e.rnd.Bytes(16)))
			if e.rnd.Bool() {
				g = e.mutate(g)
			}
			if e.rnd.Chance(30) {
				g = []byte(ua.NewGUIDNodeID(0, string(g)).StringID())
			}
			e.run("guid " + hx(g))
		}
		if i%16 == 2 {
			// not well-formed: invalid type, nil GUID, two-byte with a namespace (model tie only)
			bad := []parts{
				{mask: byte(6 + e.rnd.Intn(10)), ns: e.nsIdx(), nid: e.numID()},
				{mask: 4, ns: e.nsIdx()},
				{mask: 0, ns: e.nsIdx(), nid: e.numID()},
				{mask: 1, ns: e.nsIdx(), nid: e.numID()},
			}[e.rnd.Intn(4)]
			e.run("str " + bad.line())
			e.run("eq " + bad.line() + " " + p.line())
		}
	}
	want := []string{"str:twobyte/ns0", "str:fourbyte/ns0", "str:fourbyte/ns+", "str:numeric/ns0", "str:numeric/ns+", "str:string/ns0", "str:string/ns+",
		"str:guid/ns0", "str:guid/ns+", "str:opaque/ns0", "str:opaque/ns+", "str:invalid-type", "str:not-wellformed", "str:string-ns0-with-semicolon",
		"eq:same=true", "eq:same=false", "eq:same-node-different-encoding-or-flags",
		"reg:same=true", "reg:same=false", "reg:same-node-other-numeric-encoding", "reg:same-number-other-namespace",
		"parse:empty/ok", "parse:ns/i=/ok", "parse:ns/i=/err", "parse:ns/s=/ok", "parse:ns/g=/ok", "parse:ns/g=/err", "parse:ns/b=/ok", "parse:ns/b=/err",
		"parse:ns/ns=/err", "parse:ns/bare/ok", "parse:other/i=/err", "parse:nsu/i=/err",
		"xparse:nsu/i=/ok", "xparse:nsu/i=/err", "xparse:nsu/s=/ok", "xparse:ns/i=/ok", "nsux:plain-uri", "nsux:uri-with-reserved-character", "xparse:escaped-uri/ok", "nsux:table-has-case-variant",
		"b64d:ok", "b64d:err", "b64e", "guid:ok", "guid:nil"}
	for _, b := range want {
		if r.Distribution[b] == 0 {
			r.Unreached = append(r.Unreached, b)
		}
	}
	r.Write(o.Out)
}

// assembledIdent: an identifier part ("i=5", "s=…", bare text …) without namespace part
func (e *env) assembledIdent() []byte {
	switch e.rnd.Intn(5) {
	case 0:
		return []byte(fmt.Sprintf("i=%d", e.numID()))
	case 1:
		return append([]byte("s="), e.identText()...)
	case 2:
		return []byte("b=" + base64.StdEncoding.EncodeToString(e.rnd.Bytes(e.rnd.Intn(6))))
	case 3:
		return []byte("g=" + ua.NewGUIDNodeID(0, fmt.Sprintf("%032x", e.rnd.Bytes(16))).StringID())
	}
	return e.identText()
}
