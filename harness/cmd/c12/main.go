// Correspondence runner and property oracle for C12 (chunk streams from any
// conforming peer are reassembled correctly).
//
//	A. mergeChunks: the real function (hook VerifMergeChunks) against the Lean
//	   `mergeChunks` on chunk lists with small/equal/zero sequence numbers.
//	B. Receive: a real None-mode channel (client and server kind) over loopback
//	   TCP, fed by a reference chunk writer; the Lean `Recv.step` is fed the
//	   same chunks.  Conforming streams additionally go through the property's
//	   own oracle (every message that was not aborted is delivered unchanged, in
//	   the order of the final chunks; aborted ones report the abort status).
package main

import (
	"fmt"
	"strings"
	"time"

	"github.com/gopcua/opcua/ua"
	"github.com/gopcua/opcua/uasc"

	"verifharness/internal/h"
)

const sigSeq0 = "C12.merge-drops-seq0"

type env struct {
	o     *h.Opts
	r     *h.Result
	d     *h.Driver
	rnd   *h.Rand
	w     *h.RecvWorker
	known map[string]int // failures with a known signature written out so far, per operation
	goods [][]byte       // well-formed messages generated for the current case
}

// fail records an oracle failure; failures that match a known signature are
// written out only a few times (the list in the result is bounded and must
// keep room for unclassified ones), but always counted.
func (e *env) fail(c, sig, detail string) {
	if sig != "" {
		if e.known == nil {
			e.known = map[string]int{}
		}
		op := strings.Fields(c)[0]
		e.known[op]++
		if e.known[op] > 3 {
			e.r.Hit("oracle-fail:" + sig)
			return
		}
	}
	e.r.Fail(c, sig, detail)
}

// ------------------------------------------------------------------ part A

func (e *env) mergeCase(seqs []uint32, datas [][]byte) {
	var toks []string
	chunks := make([]*uasc.MessageChunk, len(seqs))
	for i := range seqs {
		chunks[i] = &uasc.MessageChunk{
			MessageHeader: &uasc.MessageHeader{SequenceHeader: &uasc.SequenceHeader{SequenceNumber: seqs[i], RequestID: 1}},
			Data:          datas[i],
		}
		toks = append(toks, fmt.Sprintf("%d:%s", seqs[i], h.Hex(datas[i])))
	}
	c := strings.TrimSpace("merge " + strings.Join(toks, " "))
	impl, msg := h.CatchMsg(func() string {
		b, err := uasc.VerifMergeChunks(chunks)
		if err != nil {
			return "err"
		}
		return h.Hex(b)
	})
	if impl == "panic" {
		e.r.Fail(c, "", "mergeChunks panics: "+msg)
		return
	}
	e.r.Count(c, len(seqs) >= 2)
	e.r.Hit(fmt.Sprintf("merge:n=%d", min(len(seqs), 4)))
	e.r.Compare(e.d, c, impl)
	// oracle on the implementation alone: with pairwise different numbers nothing may be lost
	distinct := true
	for i := range seqs {
		for j := 0; j < i; j++ {
			if seqs[i] == seqs[j] {
				distinct = false
			}
		}
	}
	if distinct {
		var all []byte
		for _, d := range datas {
			all = append(all, d...)
		}
		if impl != h.Hex(all) {
			sig := ""
			if len(seqs) >= 2 && seqs[0] == 0 {
				sig = sigSeq0
				e.r.Confirm(sigSeq0, fmt.Sprintf("mergeChunks(%s) = %s, want %s", strings.Join(toks, " "), impl, h.Hex(all)))
			}
			e.fail(c, sig, fmt.Sprintf("mergeChunks loses data: got %s want %s", impl, h.Hex(all)))
		}
	}
}

// dupCase: a chunk list that contains one verbatim copy directly behind its original.
func (e *env) dupCase(seqs []uint32, datas [][]byte, want []byte) {
	e.mergeCase(seqs, datas) // model against implementation
	chunks := make([]*uasc.MessageChunk, len(seqs))
	var toks []string
	for i := range seqs {
		chunks[i] = &uasc.MessageChunk{MessageHeader: &uasc.MessageHeader{SequenceHeader: &uasc.SequenceHeader{SequenceNumber: seqs[i], RequestID: 1}}, Data: datas[i]}
		toks = append(toks, fmt.Sprintf("%d:%s", seqs[i], h.Hex(datas[i])))
	}
	b, err := uasc.VerifMergeChunks(chunks)
	e.r.Hit("merge:adjacent-verbatim-copy")
	if err != nil || h.Hex(b) != h.Hex(want) {
		e.fail("merge "+strings.Join(toks, " "), "", fmt.Sprintf("a verbatim copy directly behind its original is not dropped (or more is dropped): got %s want %s", h.Hex(b), h.Hex(want)))
	}
}

// ------------------------------------------------------------------ part B

// refMsg is one message of the reference sender.
type refMsg struct {
	req     uint32
	body    []byte   // encoded service message (type id + body)
	pieces  [][]byte // payloads of the chunks that are sent
	abort   bool     // the last chunk is an abort chunk
	code    uint32
	seqs    []uint32 // filled while numbering
	expects string   // canonical result the property demands
}

func (e *env) service(n int, response bool, reqid uint32) []byte {
	payload := e.rnd.Bytes(n)
	var v interface{}
	if response {
		v = &ua.ReadResponse{
			ResponseHeader: &ua.ResponseHeader{Timestamp: time.Unix(1700000000, 0).UTC(), RequestHandle: reqid,
				ServiceDiagnostics: &ua.DiagnosticInfo{}, StringTable: []string{}, AdditionalHeader: ua.NewExtensionObject(nil)},
			Results: []*ua.DataValue{{EncodingMask: ua.DataValueValue, Value: ua.MustVariant(payload)}},
		}
	} else {
		v = &ua.WriteRequest{
			RequestHeader: &ua.RequestHeader{AuthenticationToken: ua.NewTwoByteNodeID(0), Timestamp: time.Unix(1700000000, 0).UTC(),
				RequestHandle: reqid, AdditionalHeader: ua.NewExtensionObject(nil)},
			NodesToWrite: []*ua.WriteValue{{NodeID: ua.NewNumericNodeID(2, 1000+reqid%7), AttributeID: ua.AttributeIDValue,
				Value: &ua.DataValue{EncodingMask: ua.DataValueValue, Value: ua.MustVariant(payload)}}},
		}
	}
	tb, err1 := ua.Encode(ua.NewFourByteExpandedNodeID(0, ua.ServiceTypeID(v)))
	bb, err2 := ua.Encode(v)
	if err1 != nil || err2 != nil {
		e.r.InfraError = fmt.Sprintf("reference message does not encode: %v %v", err1, err2)
		return nil
	}
	g := append(tb, bb...)
	e.goods = append(e.goods, g)
	return g
}

// split cuts b into k pieces (k ≥ 1) at random positions; pieces may be empty.
func (e *env) split(b []byte, k int) [][]byte {
	cuts := make([]int, 0, k+1)
	cuts = append(cuts, 0)
	for i := 1; i < k; i++ {
		cuts = append(cuts, e.rnd.Intn(len(b)+1))
	}
	cuts = append(cuts, len(b))
	for i := 1; i < len(cuts); i++ { // insertion sort
		for j := i; j > 0 && cuts[j] < cuts[j-1]; j-- {
			cuts[j], cuts[j-1] = cuts[j-1], cuts[j]
		}
	}
	out := make([][]byte, k)
	for i := 0; i < k; i++ {
		out[i] = b[cuts[i]:cuts[i+1]]
	}
	return out
}

type streamCase struct {
	maxChunks, maxMsg uint32
	server            bool
	conforming        bool
	chunks            []h.RecvRefChunk
	msgs              []*refMsg
	owner             []int // message index of every chunk (conforming streams)
}

// nextSeq is the reference numbering: +1, and beyond 4294966271 optionally (at
// 4294967295 necessarily) a wrap to a number below 1024.
func (e *env) nextSeq(s uint32, wrapTo uint32) uint32 {
	if s > 4294966271 && (s == 4294967295 || e.rnd.Chance(30)) {
		return wrapTo
	}
	return s + 1
}

func (e *env) conformingCase() *streamCase {
	e.goods = e.goods[:0]
	sc := &streamCase{conforming: true, server: e.rnd.Bool()}
	sc.maxChunks = uint32(e.rnd.Pick(2, 3, 5, 8, 512))
	sc.maxMsg = uint32(e.rnd.Pick(4096, 65536, 2*1024*1024))
	nm := 1 + e.rnd.Intn(4)
	base := uint32(e.rnd.Pick(1, 5, 1000, 4294967290)) // request ids
	for i := 0; i < nm; i++ {
		m := &refMsg{req: base + uint32(i)}
		size := e.rnd.Pick(0, 1, 10, 100, 1000, 3000)
		if sc.maxMsg > 4096 && e.rnd.Chance(25) {
			size = 4000 + e.rnd.Intn(e.o.N(20000, 60000))
		}
		m.body = e.service(size, !sc.server, m.req)
		if m.body == nil {
			return nil
		}
		for uint32(len(m.body)) > sc.maxMsg { // a conforming peer respects MaxMessageSize
			size /= 2
			m.body = e.service(size, !sc.server, m.req)
		}
		k := 1 + e.rnd.Intn(int(sc.maxChunks)) // 1..maxChunks chunks in total
		if k > 6 {
			k = 1 + e.rnd.Intn(6)
		}
		m.pieces = e.split(m.body, k)
		if e.rnd.Chance(15) {
			// the sender gives up after j chunks and sends an abort chunk
			j := e.rnd.Intn(k)
			m.abort = true
			m.code = uint32(e.rnd.Pick(int(ua.StatusBadRequestTooLarge), int(ua.StatusBadResponseTooLarge), int(ua.StatusBadInternalError), 0))
			var reason *string
			if e.rnd.Bool() {
				s := string(e.rnd.Bytes(e.rnd.Intn(20)))
				reason = &s
			}
			m.pieces = append(append([][]byte{}, m.pieces[:j]...), h.RecvAbortBody(m.code, reason))
			m.expects = fmt.Sprintf("%d status:%d -", m.req, m.code)
		} else {
			m.expects = h.RecvExpectMerged(m.req, m.body) // the real decoder on what the sender encoded
		}
		sc.msgs = append(sc.msgs, m)
	}
	// interleave
	e.goods = e.goods[:0]
	for _, m := range sc.msgs {
		e.goods = append(e.goods, m.body)
	}
	next := make([]int, nm)
	remaining := 0
	for _, m := range sc.msgs {
		remaining += len(m.pieces)
	}
	start := uint32(e.rnd.Pick(0, 0, 1, 2, 1023, 77777, 4294966270, 4294967290, 4294967294, 4294967295))
	wrapTo := uint32(e.rnd.Pick(0, 0, 1, 5, 1023))
	seq := start
	for remaining > 0 {
		i := e.rnd.Intn(nm)
		for next[i] >= len(sc.msgs[i].pieces) {
			i = (i + 1) % nm
		}
		m := sc.msgs[i]
		ct := byte('C')
		if next[i] == len(m.pieces)-1 {
			ct = 'F'
			if m.abort {
				ct = 'A'
			}
		}
		sc.chunks = append(sc.chunks, h.RecvRefChunk{Type: ct, ChannelID: 11, TokenID: 22, Seq: seq, Req: m.req, Body: m.pieces[next[i]]})
		sc.owner = append(sc.owner, i)
		m.seqs = append(m.seqs, seq)
		next[i]++
		remaining--
		seq = e.nextSeq(seq, wrapTo)
	}
	return sc
}

// hostileCase: streams no conforming peer sends; model against implementation only.
func (e *env) hostileCase() *streamCase {
	e.goods = e.goods[:0]
	sc := &streamCase{server: e.rnd.Bool()}
	sc.maxChunks = uint32(e.rnd.Pick(0, 1, 2, 3, 512))
	sc.maxMsg = uint32(e.rnd.Pick(0, 16, 100, 4096, 2*1024*1024))
	n := 1 + e.rnd.Intn(12)
	var good []byte
	for i := 0; i < n; i++ {
		c := h.RecvRefChunk{ChannelID: 11, TokenID: uint32(e.rnd.Pick(22, 0, 99)), Req: uint32(e.rnd.Pick(1, 1, 2, 3, 0, 4294967295))}
		c.Type = byte(e.rnd.Pick('C', 'C', 'C', 'F', 'F', 'A', 'X', 0, 'f'))
		c.Seq = uint32(e.rnd.Pick(0, 0, 1, 1, 2, 3, 4294967295))
		switch e.rnd.Intn(6) {
		case 0:
			c.Body = nil
		case 1:
			c.Body = e.rnd.Bytes(e.rnd.Intn(12))
		case 2:
			if good == nil || e.rnd.Bool() {
				good = e.service(e.rnd.Pick(0, 3, 50, 200), !sc.server, c.Req)
			}
			c.Body = good
		case 3:
			if good != nil {
				k := e.rnd.Intn(len(good) + 1)
				c.Body = good[:k]
				good = good[k:]
			}
		case 4:
			var reason *string
			if e.rnd.Bool() {
				s := "stop"
				reason = &s
			}
			c.Body = h.RecvAbortBody(uint32(e.rnd.Pick(0, 0x80010000, 0x80b90000)), reason)
			if e.rnd.Chance(30) && len(c.Body) > 0 {
				c.Body = c.Body[:e.rnd.Intn(len(c.Body))]
			}
			if e.rnd.Chance(20) {
				c.Body = append(h.RecvAbortBody(7, nil)[:4], 0xff, 0xff, 0xff, 0x7f) // reason length beyond the buffer
			}
		default:
			c.Body = e.rnd.Bytes(e.rnd.Pick(1, 17, 101, 300))
		}
		sc.chunks = append(sc.chunks, c)
		if e.rnd.Chance(20) { // verbatim duplicate
			sc.chunks = append(sc.chunks, c)
		}
	}
	return sc
}

// run feeds the case to a real channel (in the worker process) and returns the
// canonical results of Receive.
func (e *env) run(sc *streamCase) ([]string, bool) {
	frames := make([][]byte, len(sc.chunks))
	for i, c := range sc.chunks {
		frames[i] = c.Raw()
	}
	job := &h.RecvJob{Setup: "open", Server: sc.server, Ack: []uint32{65535, 65535, sc.maxChunks, sc.maxMsg}, ChannelID: 11, TokenID: 22, Frames: frames, DeadlineMs: 20000}
	res := e.w.Do(job)
	if res.Outcome == "timeout" { // a loaded machine: once more
		res = e.w.Do(job)
	}
	switch {
	case res.Outcome == "ok":
	case strings.HasPrefix(res.Outcome, "panic") || strings.HasPrefix(res.Outcome, "crash"):
		// the receive path died on this stream (a fatal error such as out of memory kills the worker)
		e.r.Count(e.caseLine(sc), true)
		if sc.conforming {
			e.fail(e.caseLine(sc), "", "Receive does not survive a conforming stream: "+res.Outcome)
		} else {
			e.r.Disagree(e.caseLine(sc), "(model: results, no crash)", res.Outcome)
		}
		return nil, false
	default:
		e.r.InfraError = "worker: " + res.Outcome
		return nil, false
	}
	if sc.conforming && res.Entries != 0 {
		e.fail(e.caseLine(sc), "", fmt.Sprintf("%d request ids still buffered after a complete conforming stream", res.Entries))
	}
	return res.Results, true
}

func (e *env) caseLine(sc *streamCase) string {
	toks := make([]string, len(sc.chunks))
	for i, c := range sc.chunks {
		toks[i] = c.Token()
	}
	op := "recv"
	if sc.conforming {
		op = "recv-conforming" // a replay rebuilds the expectation from the chunks
	}
	return fmt.Sprintf("%s %d %d %s", op, sc.maxChunks, sc.maxMsg, strings.Join(toks, " "))
}

func (e *env) streamCaseRun(sc *streamCase) {
	line := e.caseLine(sc)
	// ---- what the model says (asked first: its merged byte strings are screened, see RecvSafeToDecode)
	var ans string
	var want []string
	if e.d != nil {
		ans = e.d.Ask("recv" + strings.TrimPrefix(strings.TrimPrefix(line, "recv-conforming"), "recv"))
		for _, t := range strings.Fields(ans) {
			if strings.HasPrefix(t, "merged:") {
				p := strings.Split(t, ":")
				if !h.RecvSafeToDecode(h.UnHex(p[2]), e.goods) {
					e.r.Hit("skipped:merged-bytes-would-hit-the-C02-allocation-defect")
					return
				}
			}
		}
	} else if !sc.conforming {
		return // hostile streams are only compared with the model
	}
	if sc.conforming {
		// without a model: screen what the known defect would hand to the decoder
		for _, m := range sc.msgs {
			if len(m.pieces) >= 2 && !m.abort {
				var rest []byte
				for _, p := range m.pieces[1:] {
					rest = append(rest, p...)
				}
				if !h.RecvSafeToDecode(rest, e.goods) {
					e.r.Hit("skipped:merged-bytes-would-hit-the-C02-allocation-defect")
					return
				}
			}
		}
	}
	got, ok := e.run(sc)
	if !ok {
		return
	}
	kind := "client"
	if sc.server {
		kind = "server"
	}
	e.r.Count(line, len(sc.chunks) >= 2)
	e.r.Hit("kind:" + kind)
	if sc.conforming {
		e.r.Hit("stream:conforming")
	} else {
		e.r.Hit("stream:hostile")
	}
	e.r.Sample(fmt.Sprintf("%s %.200s -> %v", kind, line, got))

	// ---- model against implementation
	if e.d != nil {
		for _, t := range strings.Fields(ans) {
			if strings.HasPrefix(t, "held=") {
				continue
			}
			e.r.Hit("model:" + strings.SplitN(t, ":", 2)[0])
			if x := h.RecvExpectFromModel(t); x != "" {
				want = append(want, x)
			}
		}
		if strings.Join(want, " | ") != strings.Join(got, " | ") {
			e.r.Disagree(line, ans+" => "+strings.Join(want, " | "), strings.Join(got, " | "))
		}
	}

	// ---- the property's own oracle (implementation alone, conforming streams)
	if !sc.conforming {
		return
	}
	want = want[:0]
	var wantMsg []*refMsg
	for i, c := range sc.chunks {
		if c.Type != 'C' {
			want = append(want, sc.msgs[sc.owner[i]].expects)
			wantMsg = append(wantMsg, sc.msgs[sc.owner[i]])
		}
	}
	for _, m := range sc.msgs {
		if len(m.pieces) >= 2 && !m.abort {
			e.r.Hit("msg:multi-chunk")
			if m.seqs[0] == 0 {
				e.r.Hit("msg:multi-chunk-first-seq0")
			}
		} else if m.abort {
			e.r.Hit("msg:aborted")
		} else {
			e.r.Hit("msg:single-chunk")
		}
	}
	for i := 0; i < len(want) || i < len(got); i++ {
		w, g := "(nothing)", "(nothing)"
		if i < len(want) {
			w = want[i]
		}
		if i < len(got) {
			g = got[i]
		}
		if w == g {
			continue
		}
		sig := ""
		if i < len(wantMsg) {
			m := wantMsg[i]
			// signature: the message that is not delivered correctly has ≥ 2 chunks, is
			// not aborted, and its first chunk carries sequence number 0
			if len(m.pieces) >= 2 && !m.abort && m.seqs[0] == 0 {
				sig = sigSeq0
				e.r.Confirm(sigSeq0, fmt.Sprintf("request %d sent in %d chunks numbered %v: Receive returns %.80s, the message sent is %.80s", m.req, len(m.pieces), m.seqs, g, w))
			}
		}
		e.fail(line, sig, fmt.Sprintf("result %d of Receive is %.300s, the conforming stream encodes %.300s", i, g, w))
		break
	}
}

// replay re-runs one protocol line (corpus or --replay).
func (e *env) replay(line string) {
	f := strings.Fields(line)
	if len(f) == 0 {
		return
	}
	switch f[0] {
	case "merge":
		var seqs []uint32
		var datas [][]byte
		for _, t := range f[1:] {
			p := strings.SplitN(t, ":", 2)
			var s uint32
			fmt.Sscan(p[0], &s)
			seqs = append(seqs, s)
			datas = append(datas, h.UnHex(p[1]))
		}
		e.mergeCase(seqs, datas)
	case "recv", "recv-conforming":
		// conforming replay: every request id is one message; the expectation is rebuilt from the chunks
		sc := &streamCase{conforming: f[0] == "recv-conforming"}
		var mc, mm uint32
		fmt.Sscan(f[1], &mc)
		fmt.Sscan(f[2], &mm)
		sc.maxChunks, sc.maxMsg = mc, mm
		idx := map[uint32]int{}
		for _, t := range f[3:] {
			p := strings.Split(t, ":")
			var ct, seq, req uint32
			fmt.Sscan(p[0], &ct)
			fmt.Sscan(p[1], &seq)
			fmt.Sscan(p[2], &req)
			c := h.RecvRefChunk{Type: byte(ct), ChannelID: 11, TokenID: 22, Seq: seq, Req: req, Body: h.UnHex(p[3])}
			sc.chunks = append(sc.chunks, c)
			if sc.conforming {
				i, ok := idx[req]
				if !ok {
					i = len(sc.msgs)
					idx[req] = i
					sc.msgs = append(sc.msgs, &refMsg{req: req})
				}
				m := sc.msgs[i]
				m.pieces = append(m.pieces, c.Body)
				m.seqs = append(m.seqs, seq)
				if ct == 'A' {
					m.abort = true
				} else {
					m.body = append(m.body, c.Body...)
				}
				sc.owner = append(sc.owner, i)
			}
		}
		e.goods = e.goods[:0]
		for _, m := range sc.msgs {
			if !m.abort {
				e.goods = append(e.goods, m.body)
			}
		}
		for _, m := range sc.msgs {
			if m.abort {
				last := m.pieces[len(m.pieces)-1]
				code := uint32(0)
				if len(last) >= 4 {
					code = uint32(last[0]) | uint32(last[1])<<8 | uint32(last[2])<<16 | uint32(last[3])<<24
				}
				m.expects = fmt.Sprintf("%d status:%d -", m.req, code)
			} else {
				m.expects = h.RecvExpectMerged(m.req, m.body)
			}
		}
		e.streamCaseRun(sc)
	}
}

func main() {
	h.RecvWorkerMain()
	o := h.ParseOpts()
	r := h.NewResult("C12", o)
	d, err := h.StartDriver(o.Driver)
	if err != nil {
		r.InfraError = err.Error()
		r.Write(o.Out)
		return
	}
	defer d.Close()
	e := &env{o: o, r: r, d: d, rnd: h.NewRand(o.Seed), w: h.StartRecvWorker(3 << 20)}
	defer e.w.Close()
	r.Rule = "A: case = list of (sequence number, payload) → real mergeChunks vs Lean mergeChunks; non-trivial = ≥ 2 chunks. " +
		"B: case = (MaxChunkCount, MaxMessageSize, chunk stream) → results of the real Receive on a None-mode channel (client and server kind) over loopback TCP vs Lean Recv.step, the decoder applied to the model's merged bytes is the real ua.DecodeService; conforming streams (reference sender: 1-4 messages, 1-6 chunks each, random interleaving, aborts, numbering from {0,1,…,4294967295} with wrap to {0,1,5,1023}) also pass the property oracle; hostile streams (duplicates, equal numbers, limits 0, odd chunk types, bad abort bodies) only the model comparison. non-trivial = ≥ 2 chunks; distinct by full text"

	if o.Replay != "" {
		e.replay(o.Replay)
		r.Write(o.Out)
		return
	}
	for _, l := range o.CorpusLines() {
		e.replay(l)
	}

	// ---- A
	e.mergeCase([]uint32{0, 1}, [][]byte{[]byte("AA"), []byte("BB")}) // the recorded witness
	for i := 0; i < o.N(400, 12000); i++ {
		n := e.rnd.Intn(6)
		seqs := make([]uint32, n)
		datas := make([][]byte, n)
		for j := range seqs {
			seqs[j] = uint32(e.rnd.Pick(0, 0, 1, 1, 2, 3, 7, 4294967295))
			if e.rnd.Chance(30) {
				seqs[j] = uint32(e.rnd.U64())
			}
			datas[j] = e.rnd.Bytes(e.rnd.Intn(5))
		}
		e.mergeCase(seqs, datas)
	}
	// verbatim copies directly behind their original (what the duplicate filter is for), at every
	// position, with numberings from 0, through the wrap-around and elsewhere: the copy must be
	// dropped and nothing else — reference: the concatenation of the originals
	for _, start := range []uint32{0, 1, 4294967293, 4294967294, 4294967295, 77} {
		for n := 2; n <= 4; n++ {
			for dup := 0; dup < n; dup++ {
				var seqs []uint32
				var datas [][]byte
				var want []byte
				for j := 0; j < n; j++ {
					d := e.rnd.Bytes(1 + e.rnd.Intn(3))
					seqs, datas, want = append(seqs, start+uint32(j)), append(datas, d), append(want, d...)
					if j == dup {
						seqs, datas = append(seqs, start+uint32(j)), append(datas, d)
					}
				}
				e.dupCase(seqs, datas, want)
			}
		}
	}
	// ---- B
	nconf, nhost := o.N(350, 4000), o.N(250, 2500)
	for i := 0; i < nconf && r.InfraError == ""; i++ {
		if sc := e.conformingCase(); sc != nil {
			e.streamCaseRun(sc)
		}
	}
	for i := 0; i < nhost && r.InfraError == ""; i++ {
		e.streamCaseRun(e.hostileCase())
	}
	for _, b := range []string{"model:cont", "model:abort", "model:abortbad", "model:toomany", "model:toolarge", "model:merged",
		"msg:multi-chunk", "msg:multi-chunk-first-seq0", "msg:aborted", "msg:single-chunk", "kind:client", "kind:server"} {
		if r.Distribution[b] == 0 && (d != nil || !strings.HasPrefix(b, "model:")) {
			r.Unreached = append(r.Unreached, b)
		}
	}
	r.Write(o.Out)
}
