// Correspondence runner and property oracle for C09: the real
// channelInstance.verifyAndDecrypt (through the verif hooks) with real crypto
// against the Lean byte-level model, on genuine chunks, every single-byte
// modification, every truncation, extensions, chunks made with other keys, and
// chunks crafted by a key holder with hostile padding bytes; symmetric
// (MSG) channels for every policy and mode and asymmetric (OPN) chunks.
// Oracle (implementation alone): a chunk that is not byte-identical to one the
// key holder produced is never accepted, and nothing panics.
package main

import (
	"bytes"
	"context"
	"crypto/ecdsa"
	"crypto/ed25519"
	"crypto/elliptic"
	"crypto/rand"
	"crypto/rsa"
	"crypto/x509"
	"crypto/x509/pkix"
	"encoding/binary"
	"fmt"
	"io"
	"log"
	"math/big"
	"net"
	"os"
	"regexp"
	"strconv"
	"strings"
	"time"

	"github.com/gopcua/opcua/id"
	"github.com/gopcua/opcua/ua"
	"github.com/gopcua/opcua/uacp"
	"github.com/gopcua/opcua/uapolicy"
	"github.com/gopcua/opcua/uasc"

	"verifharness/internal/h"
)

func short(uri string) string { return uri[strings.LastIndex(uri, "#")+1:] }

type env struct {
	o     *h.Opts
	r     *h.Result
	d     *h.Driver
	rnd   *h.Rand
	nfail map[string]int
}

var (
	reSlice = regexp.MustCompile(`slice bounds out of range`)
	reIdx   = regexp.MustCompile(`index out of range \[-(\d+)\]`)
)

// classify maps a Go panic message to the model's site names.
func classify(msg string) string {
	switch {
	case reSlice.MatchString(msg):
		return "slice"
	case reIdx.MatchString(msg):
		if reIdx.FindStringSubmatch(msg)[1] == "1" {
			return "padByte"
		}
		return "padByte2"
	}
	return "other:" + msg
}

// chunkCtx describes one receiving instance and how the model sees it.
type chunkCtx struct {
	name string // canonical prefix of the case
	recv *uasc.VerifInstance
	enc  bool
	H    int
	RS   int
	S    int
	dec  string // "aes" | "rsa"
	sym  bool
}

// run feeds raw to the real verifyAndDecrypt and compares with the model.
// plain = post-decryption form handed to the model (nil: derive it), v =
// the signature is expected to verify (chunk made with the right keys),
// kind = how the chunk was made. want = expected data for genuine chunks.
func (e *env) run(cx *chunkCtx, kind string, raw []byte, v bool, want []byte) {
	var data []byte
	res, msg := h.CatchMsg(func() string {
		d, err := cx.recv.VerifyAndDecryptRaw(raw)
		if err != nil {
			return "err"
		}
		data = d
		return fmt.Sprintf("ok %d", len(d))
	})
	site := ""
	if res == "panic" {
		site = classify(msg) // informative only: a refactoring may move the failing expression
	}
	c := fmt.Sprintf("%s %s len=%d %s", cx.name, kind, len(raw), h.Hex(raw))
	cshort := c
	if len(cshort) > 300 {
		cshort = cshort[:300] + "…"
	}
	e.r.Count(c, true)
	e.r.Hit("kind:" + strings.SplitN(kind, "@", 2)[0])
	e.r.Hit("impl:" + strings.Fields(res)[0])

	// ---- the model
	H, decodes := e.hdrLen(raw)
	if decodes {
		b, dec := e.plainForm(cx, raw, H, v)
		req := fmt.Sprintf("vad %d %d %d %d %d %s %s", b2i(cx.enc), H, cx.RS, cx.S, b2i(v), dec, h.Hex(b))
		if e.d != nil {
			m := e.d.Ask(req)
			mf := strings.Fields(m)
			if len(mf) > 1 && mf[0] == "panic" {
				e.r.Hit("model:panic-" + mf[1])
			} else if len(mf) > 0 {
				e.r.Hit("model:" + mf[0])
			}
			mc := m
			if len(mf) > 0 && mf[0] == "panic" {
				mc = "panic" // the outcome class is compared, the site is reported
			}
			if mc != res {
				e.r.Disagree(cshort+" :: "+req[:min(len(req), 200)], m, strings.TrimSpace(res+" "+site))
			}
		}
	} else {
		e.r.Hit("model:not-asked(header-does-not-decode)")
		if res != "err" {
			e.r.Fail(cshort, "", "chunk whose headers do not decode gave "+res)
		}
	}

	// ---- the property's own oracle on the implementation
	switch {
	case strings.HasPrefix(res, "panic"):
		// no panic is tolerated any more (the three former findings are repaired)
		e.r.Fail(cshort, "", "verifyAndDecrypt panicked at "+site+": "+msg)
	case strings.HasPrefix(res, "ok"):
		if !v {
			e.r.Fail(cshort, "", fmt.Sprintf("a chunk not made with the channel's keys was accepted (%d bytes delivered)", len(data)))
		} else if want != nil && !bytes.Equal(data, want) {
			e.r.Fail(cshort, "", "genuine chunk accepted but the delivered bytes differ from sequence header + body")
		}
	default:
		if v && want != nil {
			e.r.Fail(cshort, "", "genuine chunk rejected")
		}
	}
}

func b2i(b bool) int {
	if b {
		return 1
	}
	return 0
}

// hdrLen is the headerLength the real function computes for this chunk
// (12 + security header length), false if the headers do not decode.
func (e *env) hdrLen(raw []byte) (int, bool) {
	m := new(uasc.MessageChunk)
	if _, err := m.Decode(raw); err != nil {
		return 0, false
	}
	if m.AsymmetricSecurityHeader != nil {
		return 12 + m.AsymmetricSecurityHeader.Len(), true
	}
	return 12 + m.SymmetricSecurityHeader.Len(), true
}

// plainForm returns the bytes the model is given: for chunks whose signature
// verifies the real post-decryption bytes (padding bytes matter), otherwise
// only the length matters.
func (e *env) plainForm(cx *chunkCtx, raw []byte, hl int, v bool) ([]byte, string) {
	if !cx.enc {
		return raw, "ok"
	}
	if hl > len(raw) {
		return raw, "fail" // the model answers `panic hdr` before decrypting
	}
	if cx.dec == "aes" {
		if v {
			if p, err := cx.recv.Algo().Decrypt(raw[hl:]); err == nil {
				return append(append([]byte{}, raw[:hl]...), p...), "aes"
			}
		}
		return raw, "aes"
	}
	// RSA: the decryption result is taken from the real primitive
	p, err := cx.recv.Algo().Decrypt(raw[hl:])
	if err != nil {
		return raw[:hl], "fail"
	}
	return append(append([]byte{}, raw[:hl]...), p...), "ok"
}

// ------------------------------------------------------------------ symmetric

func rawChunk(body []byte, seq uint32) ([]byte, *uasc.Message) {
	m := &uasc.Message{MessageHeader: &uasc.MessageHeader{
		Header:                  uasc.NewHeader(uasc.MessageTypeMessage, uasc.ChunkTypeFinal, 1),
		SymmetricSecurityHeader: uasc.NewSymmetricSecurityHeader(1),
		SequenceHeader:          uasc.NewSequenceHeader(seq, 1),
	}}
	b := make([]byte, 0, 24+len(body))
	b = append(b, 'M', 'S', 'G', 'F', 0, 0, 0, 0, 1, 0, 0, 0, 1, 0, 0, 0)
	b = binary.LittleEndian.AppendUint32(b, seq)
	b = binary.LittleEndian.AppendUint32(b, 1)
	b = append(b, body...)
	binary.LittleEndian.PutUint32(b[4:], uint32(len(b)))
	return b, m
}

func (e *env) symmetric(uri string, mode ua.MessageSecurityMode) {
	pol := short(uri)
	nl, nr := e.rnd.Bytes(32), e.rnd.Bytes(32)
	recv, err1 := uasc.VerifNewSymmetricInstance(uri, mode, nl, nr)
	send, err2 := uasc.VerifNewSymmetricInstance(uri, mode, nr, nl)
	other, err3 := uasc.VerifNewSymmetricInstance(uri, mode, e.rnd.Bytes(32), e.rnd.Bytes(32))
	if err1 != nil || err2 != nil || err3 != nil {
		e.r.InfraError = fmt.Sprintf("VerifNewSymmetricInstance: %v %v %v", err1, err2, err3)
		return
	}
	cx := &chunkCtx{name: fmt.Sprintf("sym %s %d", pol, mode), recv: recv, enc: mode == ua.MessageSecurityModeSignAndEncrypt,
		H: 16, RS: recv.Algo().RemoteSignatureLength(), S: recv.Algo().SignatureLength(), dec: "aes", sym: true}
	e.r.Hit("policy:" + pol)
	e.r.Hit(fmt.Sprintf("mode:%d", mode))

	bodies := []int{0, 1, 7, 23, 40 + e.rnd.Intn(60)}
	if e.o.Thorough() {
		bodies = append(bodies, 200+e.rnd.Intn(300), 1000)
	}
	for bi, n := range bodies {
		body := e.rnd.Bytes(n)
		rawb, m := rawChunk(body, uint32(10+bi))
		want := append([]byte{}, rawb[16:]...)
		c, err := send.SignAndEncrypt(m, append([]byte{}, rawb...))
		if err != nil {
			e.r.InfraError = "SignAndEncrypt: " + err.Error()
			return
		}
		if len(e.r.Samples) < 3 {
			e.r.Sample(fmt.Sprintf("%s body=%d secured=%d bytes: genuine, every 1-byte flip, every truncation 0..%d, +1..64 bytes, other keys, hostile padding", cx.name, n, len(c), len(c)-1))
		}
		e.run(cx, "genuine", c, true, want)
		// every single byte modified (one random bit; thorough: also 0xff xor)
		for i := range c {
			t := append([]byte{}, c...)
			t[i] ^= 1 << uint(e.rnd.Intn(8))
			e.run(cx, fmt.Sprintf("flip@%d", i), t, false, nil)
			if e.o.Thorough() {
				t2 := append([]byte{}, c...)
				t2[i] ^= 0xff
				e.run(cx, fmt.Sprintf("flipff@%d", i), t2, false, nil)
			}
		}
		// a few multi-byte modifications
		for j := 0; j < e.o.N(8, 64); j++ {
			t := append([]byte{}, c...)
			for k := 0; k < 2+e.rnd.Intn(6); k++ {
				t[e.rnd.Intn(len(t))] ^= byte(1 + e.rnd.Intn(255))
			}
			e.run(cx, "multi", t, false, nil)
		}
		// truncation to every length
		for t := 0; t < len(c); t++ {
			e.run(cx, fmt.Sprintf("trunc@%d", t), c[:t], false, nil)
		}
		// extension by 1..64 bytes
		for k := 1; k <= 64; k++ {
			if !e.o.Thorough() && k > 4 && k%16 != 0 && k%16 != 1 {
				continue
			}
			e.run(cx, fmt.Sprintf("append@%d", k), append(append([]byte{}, c...), e.rnd.Bytes(k)...), false, nil)
		}
		// the same chunk secured with other keys
		rawb2, m2 := rawChunk(body, uint32(10+bi))
		if c2, err := other.SignAndEncrypt(m2, rawb2); err == nil {
			e.run(cx, "other-keys", c2, false, nil)
		}
		// signature of other keys spliced onto this chunk (Sign mode)
		if !cx.enc {
			if s2, err := other.Algo().Signature(c[:len(c)-cx.RS]); err == nil {
				e.run(cx, "resigned-other-keys", append(append([]byte{}, c[:len(c)-cx.RS]...), s2...), false, nil)
			}
		}
	}
	// ---- chunks crafted by the holder of the right keys (the peer itself)
	if cx.enc {
		for _, pc := range []struct {
			body int
			last int // value of the padding-size byte; -1 = correct
		}{{7, -1}, {7, 255}, {0, 255}, {40, 200}, {40, 3}, {100, 120}, {300, 255}} {
			e.craftedSym(cx, send, pc.body, pc.last)
		}
	}
}

// craftedSym builds header ‖ seq ‖ body ‖ padding ‖ signature by hand with the
// sender's keys; last is written into the padding-size byte.
func (e *env) craftedSym(cx *chunkCtx, send *uasc.VerifInstance, n, last int) {
	body := e.rnd.Bytes(n)
	b, _ := rawChunk(body, 77)
	sl := send.Algo().SignatureLength()
	bs := send.Algo().PlaintextBlockSize()
	pad := 0
	if r := (len(b) - 16 + sl + 1) % bs; r != 0 {
		pad = bs - r
	}
	for i := 0; i <= pad; i++ {
		b = append(b, byte(pad))
	}
	okData := append([]byte{}, b[16:16+8+n]...)
	v := pad
	if last >= 0 {
		b[len(b)-1] = byte(last)
		v = last
	}
	binary.LittleEndian.PutUint32(b[4:], uint32(len(b)+sl))
	s, err := send.Algo().Signature(b)
	if err != nil {
		e.r.InfraError = "Signature: " + err.Error()
		return
	}
	p, err := send.Algo().Encrypt(append(append([]byte{}, b[16:]...), s...))
	if err != nil {
		e.r.InfraError = "Encrypt: " + err.Error()
		return
	}
	c := append(append([]byte{}, b[:16]...), p...)
	var want []byte
	if last < 0 {
		want = okData
	}
	e.run(cx, fmt.Sprintf("crafted-pad@%d/%d", v, n), c, true, want)
}

// ------------------------------------------------------------------ asymmetric

func (e *env) asymmetric(uri string, cbits, sbits int) {
	pol := short(uri)
	ck, err1 := h.LoadKey(e.o.Keys, cbits, "a")
	sk, err2 := h.LoadKey(e.o.Keys, sbits, "b")
	ok, err3 := h.LoadKey(e.o.Keys, cbits, "b")
	if err1 != nil || err2 != nil || err3 != nil {
		e.r.InfraError = fmt.Sprintf("LoadKey: %v %v %v", err1, err2, err3)
		return
	}
	mode := ua.MessageSecurityModeSignAndEncrypt
	recv, err1 := uasc.VerifNewAsymmetricInstance(uri, mode, sk.Key, &ck.Key.PublicKey, sk.CertDER, uapolicy.Thumbprint(ck.CertDER))
	send, err2 := uasc.VerifNewAsymmetricInstance(uri, mode, ck.Key, &sk.Key.PublicKey, ck.CertDER, uapolicy.Thumbprint(sk.CertDER))
	if err1 != nil || err2 != nil {
		e.r.InfraError = fmt.Sprintf("VerifNewAsymmetricInstance: %v %v", err1, err2)
		return
	}
	e.r.Hit("opn-policy:" + pol)
	e.r.Hit(fmt.Sprintf("opn-keys:%d/%d", cbits, sbits))
	req := &ua.OpenSecureChannelRequest{
		RequestHeader:     &ua.RequestHeader{AuthenticationToken: ua.NewTwoByteNodeID(0)},
		RequestType:       ua.SecurityTokenRequestTypeIssue,
		SecurityMode:      mode,
		ClientNonce:       e.rnd.Bytes(32),
		RequestedLifetime: 3600000,
	}
	msg := send.NewMessage(req, id.OpenSecureChannelRequest_Encoding_DefaultBinary, 1)
	chunks, err := msg.EncodeChunks(1 << 16)
	if err != nil || len(chunks) != 1 {
		e.r.InfraError = fmt.Sprintf("EncodeChunks: %v", err)
		return
	}
	hl := 12 + msg.AsymmetricSecurityHeader.Len()
	want := append([]byte{}, chunks[0][hl:]...)
	c, err := send.SignAndEncrypt(msg, append([]byte{}, chunks[0]...))
	if err != nil {
		e.r.InfraError = "SignAndEncrypt(OPN): " + err.Error()
		return
	}
	cx := &chunkCtx{name: fmt.Sprintf("opn %s %d/%d", pol, cbits, sbits), recv: recv, enc: true,
		H: hl, RS: recv.Algo().RemoteSignatureLength(), S: recv.Algo().SignatureLength(), dec: "rsa"}
	if len(e.r.Samples) < 6 {
		e.r.Sample(fmt.Sprintf("%s header=%d secured=%d bytes RS=%d S=%d", cx.name, hl, len(c), cx.RS, cx.S))
	}
	e.run(cx, "opn-genuine", c, true, want)

	step := e.o.N(37, 3)
	off := e.rnd.Intn(step)
	for i := range c {
		if i >= 12 && i%step != off && i != hl && i != hl-1 && i != len(c)-1 {
			continue
		}
		t := append([]byte{}, c...)
		t[i] ^= 1 << uint(e.rnd.Intn(8))
		e.run(cx, fmt.Sprintf("opn-flip@%d", i), t, false, nil)
	}
	k := sk.Key.PublicKey.Size()
	for t := 0; t < len(c); t++ {
		near := t <= 12 || t == hl || t == hl+1 || t == hl-1 || (t > hl && (t-hl)%k <= 1) || t == len(c)-1
		if !near && t%step != off {
			continue
		}
		e.run(cx, fmt.Sprintf("opn-trunc@%d", t), c[:t], false, nil)
	}
	for _, n := range []int{1, k - 1, k, k + 1} {
		e.run(cx, fmt.Sprintf("opn-append@%d", n), append(append([]byte{}, c...), e.rnd.Bytes(n)...), false, nil)
	}
	// signed with another identity's key (same header)
	if o2, err := uasc.VerifNewAsymmetricInstance(uri, mode, ok.Key, &sk.Key.PublicKey, ck.CertDER, uapolicy.Thumbprint(sk.CertDER)); err == nil {
		m2 := o2.NewMessage(req, id.OpenSecureChannelRequest_Encoding_DefaultBinary, 1)
		if ch2, err := m2.EncodeChunks(1 << 16); err == nil {
			if c2, err := o2.SignAndEncrypt(m2, ch2[0]); err == nil {
				e.run(cx, "opn-other-key", c2, false, nil)
			}
		}
	}
	// ---- crafted by the signer (any client: the verification key comes with the chunk)
	for _, pc := range []struct{ body, last int }{{3, -1}, {3, 255}, {0, 255}, {60, 250}} {
		e.craftedOPN(cx, send, uri, ck.CertDER, uapolicy.Thumbprint(sk.CertDER), pc.body, pc.last)
	}
	e.emptyBodyOPN(cx, send, uri, ck.CertDER)
}

func opnHeader(uri string, cert, thumb []byte) []byte {
	hb, _ := uasc.NewHeader(uasc.MessageTypeOpenSecureChannel, uasc.ChunkTypeFinal, 0).Encode()
	ab, _ := uasc.NewAsymmetricSecurityHeader(uri, cert, thumb).Encode()
	return append(hb, ab...)
}

// craftedOPN: header ‖ seq ‖ body ‖ padding ‖ signature with the sender's own
// key pair, padding-size byte(s) set to `last`.
func (e *env) craftedOPN(cx *chunkCtx, send *uasc.VerifInstance, uri string, cert, thumb []byte, n, last int) {
	a := send.Algo()
	b := opnHeader(uri, cert, thumb)
	hl := len(b)
	b = append(b, 1, 0, 0, 0, 1, 0, 0, 0)
	b = append(b, e.rnd.Bytes(n)...)
	two := a.RemoteSignatureLength() > 256
	pb := 1
	if two {
		pb = 2
	}
	bs := a.PlaintextBlockSize()
	pad := 0
	if r := (len(b) - hl + a.SignatureLength() + pb) % bs; r != 0 {
		pad = bs - r
	}
	okData := append([]byte{}, b[hl:]...)
	for i := 0; i <= pad; i++ {
		b = append(b, byte(pad))
	}
	if two {
		b = append(b, byte(pad>>8))
	}
	v := pad
	if last >= 0 {
		v = last
		if two {
			b[len(b)-2] = byte(last)
			b[len(b)-1] = 0
		} else {
			b[len(b)-1] = byte(last)
		}
	}
	enc := ((len(b) - hl + a.SignatureLength()) / bs) * a.BlockSize()
	binary.LittleEndian.PutUint32(b[4:], uint32(hl+enc))
	s, err := a.Signature(b)
	if err != nil {
		e.r.InfraError = "Signature(OPN): " + err.Error()
		return
	}
	p, err := a.Encrypt(append(append([]byte{}, b[hl:]...), s...))
	if err != nil {
		e.r.InfraError = "Encrypt(OPN): " + err.Error()
		return
	}
	var want []byte
	if last < 0 {
		want = okData
	}
	e.run(cx, fmt.Sprintf("opn-crafted-pad@%d/%d", v, n), append(append([]byte{}, b[:hl]...), p...), true, want)
}

// emptyBodyOPN: no encrypted part; the signature (made with the sender's own
// key) travels in the ReceiverCertificateThumbprint field, the last field of
// the security header.
func (e *env) emptyBodyOPN(cx *chunkCtx, send *uasc.VerifInstance, uri string, cert []byte) {
	a := send.Algo()
	sl := a.SignatureLength()
	b := opnHeader(uri, cert, make([]byte, sl))
	binary.LittleEndian.PutUint32(b[4:], uint32(len(b)))
	s, err := a.Signature(b[:len(b)-sl])
	if err != nil {
		e.r.InfraError = "Signature(OPN): " + err.Error()
		return
	}
	copy(b[len(b)-sl:], s)
	cx2 := *cx
	cx2.H = len(b)
	e.run(&cx2, "opn-empty-body", b, true, nil)
}

// ------------------------------------------------------------------ carve-out

// carveOut walks the truth table of the guard at the top of verifyAndDecrypt:
// an instance that holds real keys, with the channel configuration set to
// every (policy URI ∈ {real, None}) x (mode ∈ {None, Sign, SignAndEncrypt}),
// is handed an UNSIGNED plaintext MSG chunk and an unsigned plaintext OPN chunk.
// readChunk copies the SecurityPolicyURI of every incoming OPN into the
// configuration before verification, so all six rows are reachable.
func (e *env) carveOut(uri string) {
	pol := short(uri)
	inst, err := uasc.VerifNewSymmetricInstance(uri, ua.MessageSecurityModeSign, e.rnd.Bytes(32), e.rnd.Bytes(32))
	if err != nil {
		e.r.InfraError = "VerifNewSymmetricInstance: " + err.Error()
		return
	}
	msg, _ := rawChunk(e.rnd.Bytes(40), 5)
	opn := opnHeader(ua.SecurityPolicyURINone, nil, nil)
	opn = append(opn, 1, 0, 0, 0, 1, 0, 0, 0)
	opn = append(opn, e.rnd.Bytes(60)...)
	binary.LittleEndian.PutUint32(opn[4:], uint32(len(opn)))
	for _, cfgURI := range []string{uri, ua.SecurityPolicyURINone} {
		for _, mode := range []ua.MessageSecurityMode{ua.MessageSecurityModeNone, ua.MessageSecurityModeSign, ua.MessageSecurityModeSignAndEncrypt} {
			for _, asym := range []bool{false, true} {
				inst.VerifSetChannelSecurity(cfgURI, mode)
				raw := msg
				if asym {
					raw = opn
				}
				H, _ := e.hdrLen(raw)
				res := h.Catch(func() string {
					d, err := inst.VerifyAndDecryptRaw(raw)
					if err != nil {
						return "secured"
					}
					if len(d) == len(raw)-H && bytes.Equal(d, raw[H:]) {
						return "raw"
					}
					return fmt.Sprintf("ok %d", len(d))
				})
				if res == "panic" {
					res = "secured" // went past the guard (the short-chunk panics are separate findings)
				}
				c := fmt.Sprintf("carve %d %d %d", b2i(mode == ua.MessageSecurityModeNone), b2i(cfgURI == ua.SecurityPolicyURINone), b2i(asym))
				e.r.Count(c+" "+pol, true)
				e.r.Hit("carve:" + res)
				e.r.Compare(e.d, c, res)
				// ---- oracle: in Sign / SignAndEncrypt mode nothing unsigned is delivered
				if mode != ua.MessageSecurityModeNone && res != "secured" {
					e.r.Fail(fmt.Sprintf("%s policy=%s cfgPolicy=%s mode=%d asym=%v chunk=%s", c, pol, short(cfgURI), mode, asym, h.Hex(raw)), "",
						"an unsigned plaintext chunk was delivered on a channel in Sign/SignAndEncrypt mode ("+res+")")
				}
			}
		}
	}
}

// ------------------------------------------------------------------ channel level (readChunk)

// connPair returns two uacp connections joined over loopback TCP (after the
// HEL/ACK handshake): frames written to a arrive at b.
func connPair() (a, b *uacp.Conn, closeAll func(), err error) {
	l, err := net.Listen("tcp", "127.0.0.1:0")
	if err != nil {
		return nil, nil, nil, err
	}
	port := l.Addr().(*net.TCPAddr).Port
	l.Close()
	ep := fmt.Sprintf("opc.tcp://127.0.0.1:%d", port)
	ctx, cancel := context.WithTimeout(context.Background(), 20*time.Second)
	defer cancel()
	ln, err := uacp.Listen(ctx, ep, nil)
	if err != nil {
		return nil, nil, nil, err
	}
	type res struct {
		c   *uacp.Conn
		err error
	}
	ch := make(chan res, 1)
	go func() {
		c, err := ln.Accept(ctx)
		ch <- res{c, err}
	}()
	a, err = uacp.Dial(ctx, ep)
	if err != nil {
		ln.Close()
		return nil, nil, nil, err
	}
	r := <-ch
	if r.err != nil {
		a.Close()
		ln.Close()
		return nil, nil, nil, r.err
	}
	return a, r.c, func() { a.Close(); r.c.Close(); ln.Close() }, nil
}

type chanInst struct {
	tok    uint32
	ln, rn []byte
	send   *uasc.VerifInstance // the peer that shares these keys
	recv   *uasc.VerifInstance // stand-alone copy of the receiving side (to obtain plaintext for the model)
}

// chanCtx is one receiving SecureChannel with its stored instances.
type chanCtx struct {
	name    string
	uri     string
	mode    ua.MessageSecurityMode
	a       *uacp.Conn
	sc      *uasc.SecureChannel
	insts   []*chanInst // oldest first
	chanID  uint32
	opening bool
	srvKey  *h.KeyPair
}

func setSize(b []byte) []byte {
	if len(b) >= 8 {
		binary.LittleEndian.PutUint32(b[4:], uint32(len(b)))
	}
	return b
}

// instToken describes one stored instance to the model for this frame.
func (e *env) instToken(cc *chanCtx, ci *chanInst, frame []byte, v bool) string {
	rs, sl := ci.recv.Algo().RemoteSignatureLength(), ci.recv.Algo().SignatureLength()
	enc := cc.mode == ua.MessageSecurityModeSignAndEncrypt || (len(frame) >= 3 && string(frame[:3]) == "OPN")
	if !enc {
		return fmt.Sprintf("%d:%d:%d:id:-", rs, sl, b2i(v))
	}
	plain := "-"
	if v && len(frame) > 16 {
		if p, err := ci.recv.Algo().Decrypt(frame[16:]); err == nil {
			plain = h.Hex(p)
		}
	}
	return fmt.Sprintf("%d:%d:%d:aes:%s", rs, sl, b2i(v), plain)
}

// feed writes one frame to the peer connection, lets the real readChunk read
// it, and compares with the model. signer = index of the stored instance whose
// keys made the chunk (-1: none of them), derive = model token for the OPN
// branch ("none" if the certificate does not yield an algorithm).
func (e *env) feed(cc *chanCtx, kind string, frame []byte, signer int, derive string, wantBody []byte) {
	polBefore := cc.sc.VerifConfig().SecurityPolicyURI == ua.SecurityPolicyURINone
	cc.sc.VerifSetOpening(cc.opening)
	if _, err := cc.a.Write(frame); err != nil {
		e.r.InfraError = "write frame: " + err.Error()
		return
	}
	type rr struct {
		m   *uasc.MessageChunk
		err error
		p   interface{}
	}
	done := make(chan rr, 1)
	go func() {
		var out rr
		defer func() {
			out.p = recover()
			done <- out
		}()
		out.m, out.err = cc.sc.VerifReadChunk()
	}()
	var got rr
	select {
	case got = <-done:
	case <-time.After(60 * time.Second):
		e.r.InfraError = "readChunk did not return within 60 s (" + kind + ")"
		return
	}
	polAfter := cc.sc.VerifConfig().SecurityPolicyURI == ua.SecurityPolicyURINone
	res := ""
	switch {
	case got.p != nil:
		res = "panic"
	case got.err == io.EOF:
		res = "eof"
	case got.err != nil:
		res = fmt.Sprintf("err %d", b2i(polAfter))
	default:
		sh := make([]byte, 8)
		binary.LittleEndian.PutUint32(sh, got.m.SequenceHeader.SequenceNumber)
		binary.LittleEndian.PutUint32(sh[4:], got.m.SequenceHeader.RequestID)
		res = fmt.Sprintf("deliver %s %d %d", h.Hex(sh), len(got.m.Data), b2i(polAfter))
	}
	// restore the configuration for the next frame (an OPN chunk overwrites the policy URI)
	cc.sc.VerifConfig().SecurityPolicyURI = cc.uri

	c := fmt.Sprintf("%s %s len=%d %s", cc.name, kind, len(frame), h.Hex(frame))
	cshort := c
	if len(cshort) > 300 {
		cshort = cshort[:300] + "…"
	}
	e.r.Count(c, true)
	e.r.Hit("chan-kind:" + strings.SplitN(kind, "@", 2)[0])
	e.r.Hit("chan-impl:" + strings.Fields(res)[0])

	// ---- model
	var toks []string
	for i, ci := range cc.insts {
		toks = append(toks, e.instToken(cc, ci, frame, i == signer))
	}
	opening := "-"
	if cc.opening {
		// the opening instance carries the algorithm of the active (newest) instance
		opening = e.instToken(cc, cc.insts[len(cc.insts)-1], frame, false)
	}
	req := fmt.Sprintf("chan %d %d %d %s %s %d %d %s %s", b2i(cc.mode == ua.MessageSecurityModeNone), b2i(cc.mode == ua.MessageSecurityModeSignAndEncrypt),
		b2i(polBefore), opening, derive, cc.chanID, len(toks), strings.Join(toks, " "), h.Hex(frame))
	req = strings.Join(strings.Fields(req), " ")
	if e.d != nil {
		m := e.d.Ask(req)
		e.r.Hit("chan-model:" + strings.Fields(m)[0])
		if m != res {
			e.r.Disagree(cshort+" :: "+req[:min(len(req), 160)], m, res)
		}
	}
	// ---- oracle (implementation alone)
	switch {
	case res == "panic":
		e.r.Fail(cshort, "", fmt.Sprintf("readChunk panicked: %v", got.p))
	case strings.HasPrefix(res, "deliver"):
		if signer < 0 && derive == "none" {
			e.r.Fail(cshort, "", "readChunk delivered a chunk that no stored instance's keys produced")
		} else if wantBody != nil && !bytes.Equal(got.m.Data, wantBody) {
			e.r.Fail(cshort, "", "genuine chunk delivered with a different body")
		}
	default:
		if wantBody != nil {
			e.r.Fail(cshort, "", "genuine chunk of a stored instance rejected: "+res)
		}
	}
}

func (e *env) channel(uri string, mode ua.MessageSecurityMode) {
	pol := short(uri)
	a, b, closeAll, err := connPair()
	if err != nil {
		e.r.InfraError = "loopback connection pair: " + err.Error()
		return
	}
	defer closeAll()
	srvKey, err := h.LoadKey(e.o.Keys, 2048, "b")
	if err != nil {
		e.r.InfraError = err.Error()
		return
	}
	cfg := &uasc.Config{SecurityPolicyURI: uri, SecurityMode: mode, LocalKey: srvKey.Key, Certificate: srvKey.CertDER, Lifetime: 3600000, RequestTimeout: 10 * time.Second}
	const chanID = 7
	cc := &chanCtx{name: fmt.Sprintf("chan %s %d", pol, mode), uri: uri, mode: mode, a: a, chanID: chanID, srvKey: srvKey}
	errch := make(chan error, 16)
	for i := 0; i < 3; i++ { // three tokens: two renewals
		ci := &chanInst{tok: uint32(11 + i), ln: e.rnd.Bytes(32), rn: e.rnd.Bytes(32)}
		if i == 0 {
			cc.sc, err = uasc.VerifOpenChannel(b, cfg, true, chanID, ci.tok, 1, ci.ln, ci.rn, errch)
		} else {
			err = cc.sc.VerifAddInstance(chanID, ci.tok, ci.ln, ci.rn)
		}
		if err == nil {
			ci.send, err = uasc.VerifNewSymmetricInstance(uri, mode, ci.rn, ci.ln)
		}
		if err == nil {
			ci.recv, err = uasc.VerifNewSymmetricInstance(uri, mode, ci.ln, ci.rn)
		}
		if err != nil {
			e.r.InfraError = "channel setup: " + err.Error()
			return
		}
		ci.send.SetIDs(chanID, ci.tok)
		cc.insts = append(cc.insts, ci)
	}
	e.r.Hit("chan-policy:" + pol)
	mk := func(ci *chanInst, id uint32, body []byte, typ string) ([]byte, []byte) {
		rawb, m := rawChunk(body, 21)
		copy(rawb[0:3], typ)
		m.Header.MessageType = typ
		binary.LittleEndian.PutUint32(rawb[8:], id)
		binary.LittleEndian.PutUint32(rawb[12:], ci.tok)
		out, err := ci.send.SignAndEncrypt(m, append([]byte{}, rawb...))
		if err != nil {
			e.r.InfraError = "SignAndEncrypt: " + err.Error()
			return nil, nil
		}
		return out, rawb[24:]
	}
	body := e.rnd.Bytes(40 + e.rnd.Intn(40))
	// genuine chunks under each stored instance (newest, middle, oldest): the retry loop
	for i := len(cc.insts) - 1; i >= 0; i-- {
		if f, want := mk(cc.insts[i], chanID, body, "MSG"); f != nil {
			e.feed(cc, fmt.Sprintf("genuine-inst@%d", i), f, i, "none", want)
		}
	}
	// keys that are not stored
	stranger := &chanInst{tok: 99, ln: e.rnd.Bytes(32), rn: e.rnd.Bytes(32)}
	stranger.send, _ = uasc.VerifNewSymmetricInstance(uri, mode, stranger.rn, stranger.ln)
	if f, _ := mk(stranger, chanID, body, "MSG"); f != nil {
		e.feed(cc, "unknown-keys", f, -1, "none", nil)
	}
	// a genuine chunk for another SecureChannelID
	if f, _ := mk(cc.insts[2], chanID+1, body, "MSG"); f != nil {
		e.feed(cc, "unknown-channel-id", f, -1, "none", nil)
	}
	// CLO
	if f, _ := mk(cc.insts[2], chanID, body, "CLO"); f != nil {
		e.feed(cc, "clo", f, 2, "none", nil)
	}
	// every byte flipped (the MessageSize field is the framing of the transport: left intact)
	f0, _ := mk(cc.insts[1], chanID, body, "MSG")
	if f0 == nil {
		return
	}
	step := e.o.N(3, 1)
	off := e.rnd.Intn(step)
	for i := range f0 {
		if i >= 4 && i < 8 {
			continue
		}
		if i >= 16 && i%step != off {
			continue
		}
		t := append([]byte{}, f0...)
		t[i] ^= 1 << uint(e.rnd.Intn(8))
		e.feed(cc, fmt.Sprintf("flip@%d", i), t, -1, "none", nil)
	}
	// truncation to every length the transport can deliver (MessageSize rewritten)
	for t := 8; t < len(f0); t++ {
		if t > 40 && t%step != off {
			continue
		}
		e.feed(cc, fmt.Sprintf("trunc@%d", t), setSize(append([]byte{}, f0[:t]...)), -1, "none", nil)
	}
	for _, k := range []int{1, 16, 32} {
		e.feed(cc, fmt.Sprintf("append@%d", k), setSize(append(append([]byte{}, f0...), e.rnd.Bytes(k)...)), -1, "none", nil)
	}
	// ---- OPN chunks
	forged := opnHeader(ua.SecurityPolicyURINone, nil, nil)
	forged = append(forged, 1, 0, 0, 0, 1, 0, 0, 0)
	forged = setSize(append(forged, e.rnd.Bytes(56)...))
	cc.opening = false
	e.feed(cc, "opn-no-opening-instance", forged, -1, "none", nil)
	cc.opening = true
	// plaintext OPN naming policy None on a secured channel: overwrites cfg.SecurityPolicyURI before any check
	e.feed(cc, "opn-forged-policy-none", forged, -1, "none", nil)
	// OPN with a certificate that does not parse
	junk := setSize(append(opnHeader(uri, e.rnd.Bytes(300), e.rnd.Bytes(20)), e.rnd.Bytes(256)...))
	e.feed(cc, "opn-bad-certificate", junk, -1, "none", nil)
	// OPN with a WELL-FORMED certificate whose public key is not RSA (ECDSA P-256, Ed25519):
	// no algorithm can be derived -> error, before any signature check, and no panic
	for _, kind := range []string{"ecdsa", "ed25519"} {
		der, err := nonRSACert(kind)
		if err != nil {
			e.r.InfraError = "certificate generation: " + err.Error()
			return
		}
		f := setSize(append(opnHeader(uri, der, e.rnd.Bytes(20)), e.rnd.Bytes(256)...))
		e.feed(cc, "opn-"+kind+"-certificate", f, -1, "none", nil)
	}
	// genuine asymmetric OPN from a client with its own certificate, and one signed by another key
	ck, err1 := h.LoadKey(e.o.Keys, 2048, "a")
	if err1 != nil {
		e.r.InfraError = err1.Error()
		return
	}
	asym := func(signKey *h.KeyPair) ([]byte, []byte, string) {
		snd, err := uasc.VerifNewAsymmetricInstance(uri, mode, signKey.Key, &srvKey.Key.PublicKey, ck.CertDER, uapolicy.Thumbprint(srvKey.CertDER))
		if err != nil {
			return nil, nil, ""
		}
		req := &ua.OpenSecureChannelRequest{RequestHeader: &ua.RequestHeader{AuthenticationToken: ua.NewTwoByteNodeID(0)},
			RequestType: ua.SecurityTokenRequestTypeRenew, SecurityMode: mode, ClientNonce: e.rnd.Bytes(32), RequestedLifetime: 3600000}
		msg := snd.NewMessage(req, id.OpenSecureChannelRequest_Encoding_DefaultBinary, 1)
		chunks, err := msg.EncodeChunks(1 << 16)
		if err != nil {
			return nil, nil, ""
		}
		hl := 12 + msg.AsymmetricSecurityHeader.Len()
		want := append([]byte{}, chunks[0][hl+8:]...)
		out, err := snd.SignAndEncrypt(msg, chunks[0])
		if err != nil {
			return nil, nil, ""
		}
		// what the receiver derives from the certificate in the chunk
		ra, err := uapolicy.Asymmetric(uri, srvKey.Key, &ck.Key.PublicKey)
		if err != nil {
			return out, want, "none"
		}
		p, err := ra.Decrypt(out[hl:])
		if err != nil {
			return out, want, fmt.Sprintf("%d:%d:0:fail:-", ra.RemoteSignatureLength(), ra.SignatureLength())
		}
		v := ra.VerifySignature(append(append([]byte{}, out[:hl]...), p[:len(p)-ra.RemoteSignatureLength()]...), p[len(p)-ra.RemoteSignatureLength():]) == nil
		return out, want, fmt.Sprintf("%d:%d:%d:id:%s", ra.RemoteSignatureLength(), ra.SignatureLength(), b2i(v), h.Hex(p))
	}
	if f, want, tok := asym(ck); f != nil {
		e.feed(cc, "opn-genuine", f, -1, tok, want)
	}
	if other, err := h.LoadKey(e.o.Keys, 2048, "b"); err == nil {
		if f, _, tok := asym(other); f != nil { // certificate of a, signature of b
			e.feed(cc, "opn-wrong-signer", f, -1, tok, nil)
		}
	}
}

// nonRSACert returns a self-signed, well-formed X.509 certificate (DER) with an
// ECDSA P-256 or an Ed25519 key.
func nonRSACert(kind string) ([]byte, error) {
	tmpl := x509.Certificate{
		SerialNumber: big.NewInt(7),
		Subject:      pkix.Name{CommonName: "verif non-RSA " + kind},
		NotBefore:    time.Now().Add(-time.Hour),
		NotAfter:     time.Now().Add(24 * time.Hour),
		KeyUsage:     x509.KeyUsageDigitalSignature,
	}
	switch kind {
	case "ecdsa":
		k, err := ecdsa.GenerateKey(elliptic.P256(), rand.Reader)
		if err != nil {
			return nil, err
		}
		return x509.CreateCertificate(rand.Reader, &tmpl, &tmpl, &k.PublicKey, k)
	default:
		pub, priv, err := ed25519.GenerateKey(rand.Reader)
		if err != nil {
			return nil, err
		}
		return x509.CreateCertificate(rand.Reader, &tmpl, &tmpl, pub, priv)
	}
}

// ------------------------------------------------------------------ main

func (e *env) all() {
	modes := []ua.MessageSecurityMode{ua.MessageSecurityModeSign, ua.MessageSecurityModeSignAndEncrypt}
	for _, uri := range uapolicy.SupportedPolicies() {
		if uri == ua.SecurityPolicyURINone {
			continue
		}
		for _, mode := range modes {
			e.symmetric(uri, mode)
		}
	}
	type kc struct {
		uri  string
		c, s int
	}
	cfg := []kc{
		{ua.SecurityPolicyURIBasic256Sha256, 2048, 2048},
		{ua.SecurityPolicyURIBasic128Rsa15, 1024, 1024},
		{ua.SecurityPolicyURIAes256Sha256RsaPss, 2048, 4096}, // receiver key > 2048 bits: two padding-size bytes
	}
	if e.o.Thorough() {
		cfg = append(cfg, kc{ua.SecurityPolicyURIBasic256, 2048, 1024}, kc{ua.SecurityPolicyURIAes128Sha256RsaOaep, 4096, 2048},
			kc{ua.SecurityPolicyURIBasic256Sha256, 3072, 3072})
	}
	for _, k := range cfg {
		e.asymmetric(k.uri, k.c, k.s)
	}
	for _, uri := range uapolicy.SupportedPolicies() {
		if uri != ua.SecurityPolicyURINone {
			e.carveOut(uri)
		}
	}
	for _, uri := range uapolicy.SupportedPolicies() {
		if uri == ua.SecurityPolicyURINone {
			continue
		}
		for _, mode := range modes {
			e.channel(uri, mode)
			if e.r.InfraError != "" {
				return
			}
		}
	}
	// end to end through the man-in-the-middle proxy
	if e.o.Thorough() {
		e.mitmAll()
	} else {
		var plans []tamper0
		for _, dir := range []string{"s2c", "c2s"} {
			plans = append(plans, tamper0{dir, "flip", 16 + e.rnd.Intn(60)}, tamper0{dir, "flip", e.rnd.Intn(4)}, tamper0{dir, "trunc", 21}, tamper0{dir, "append", 16})
		}
		e.mitm("Basic256Sha256", ua.MessageSecurityModeSignAndEncrypt, plans)
	}
}

// replay re-runs one recorded case "sym <pol> <mode> <kind> len=<n> <hex>" /
// "opn <pol> <c>/<s> <kind> len=<n> <hex>": the chunk bytes depend on the
// random keys of the run, so the whole family is regenerated with the same seed.
func (e *env) replay(line string) {
	f := strings.Fields(line)
	if len(f) >= 3 && f[0] == "sym" {
		if m, err := strconv.Atoi(f[2]); err == nil {
			e.symmetric(ua.SecurityPolicyURIPrefix+f[1], ua.MessageSecurityMode(m))
			return
		}
	}
	if len(f) >= 3 && f[0] == "opn" {
		var c, s int
		if _, err := fmt.Sscanf(f[2], "%d/%d", &c, &s); err == nil {
			e.asymmetric(ua.SecurityPolicyURIPrefix+f[1], c, s)
			return
		}
	}
	e.all()
}

var _ *rsa.PrivateKey

func main() {
	if os.Getenv(mitmEnv) != "" {
		log.SetOutput(io.Discard)
		mitmChild()
		return
	}
	log.SetOutput(io.Discard)
	o := h.ParseOpts()
	r := h.NewResult("C09", o)
	d, err := h.StartDriver(o.Driver)
	if err != nil {
		r.InfraError = err.Error()
		r.Write(o.Out)
		return
	}
	defer d.Close()
	e := &env{o: o, r: r, d: d, rnd: h.NewRand(o.Seed), nfail: map[string]int{}}
	r.Rule = "case = (channel kind, policy, mode or key sizes, how the chunk was made, chunk bytes). Symmetric MSG chunks for the 5 secured policies x {Sign, SignAndEncrypt} x 5 body sizes (thorough 7): genuine; every byte position flipped; 8 (64) multi-byte modifications; truncation to EVERY length 0..len-1; +1..64 bytes; same chunk under other keys; other-key signature spliced on; chunks crafted with the right keys and wrong padding-size bytes. Asymmetric OPN chunks for 3 (6) policy/key-size configurations: genuine, flips and truncations at a seeded 1/37 (1/3) of the positions plus all boundaries, extensions, other signer, crafted padding, empty body with the signature in the thumbprint field. Real verifyAndDecrypt (hook VerifyAndDecryptRaw, panics recovered and classified by message) vs the Lean model given the post-decryption bytes and whether the signature can verify. Distinct by chunk bytes."
	if o.Replay != "" {
		e.replay(o.Replay)
	} else {
		for _, l := range o.CorpusLines() {
			e.replay(l)
		}
		e.all()
	}
	r.Unreached = append(r.Unreached,
		"model outcome panic (sites hdr, padByte, padByte2): only for parameter values the code never has (headerLength < 2, or fewer bytes than the decoded headers), see C09_parameter_hypotheses_needed; C09_total excludes them")
	r.Write(o.Out)
}
