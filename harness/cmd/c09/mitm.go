package main

// End-to-end run of C09 (thorough tier): real client <-> man-in-the-middle TCP
// proxy <-> real server. After an untouched handshake (OPN, CreateSession,
// ActivateSession) the proxy tampers with exactly one MSG chunk of a Read
// response (server -> client) or of a Write request (client -> server): one byte
// flipped at every position, truncated (MessageSize rewritten so that the
// transport still frames it), replaced by random bytes, or extended.
// Oracle: the client never returns a value read from a tampered response, the
// server never applies a tampered write, the server stays alive, nothing panics.
// The scenarios run in a child process (re-exec) so that a panic in any
// goroutine of the client or the server is observed instead of killing the runner.

import (
	"context"
	"encoding/binary"
	"encoding/json"
	"fmt"
	"io"
	"net"
	"os"
	"os/exec"
	"sort"
	"strings"
	"sync"
	"time"

	"github.com/gopcua/opcua"
	"github.com/gopcua/opcua/id"
	"github.com/gopcua/opcua/server"
	"github.com/gopcua/opcua/ua"

	"verifharness/internal/h"
)

const mitmEnv = "VERIF_C09_MITM"

type tamper struct {
	dir  string // "s2c" | "c2s"
	op   string // flip | trunc | replace | append
	arg  int
	done bool
	size int // length of the chunk that was tampered with (reported)
}

type proxy struct {
	ln     net.Listener
	target string
	mu     sync.Mutex
	armed  *tamper
	rnd    *h.Rand
}

func (p *proxy) addr() string {
	return fmt.Sprintf("opc.tcp://127.0.0.1:%d", p.ln.Addr().(*net.TCPAddr).Port)
}

func (p *proxy) arm(t *tamper) { p.mu.Lock(); p.armed = t; p.mu.Unlock() }

func (p *proxy) serve() {
	for {
		c, err := p.ln.Accept()
		if err != nil {
			return
		}
		s, err := net.Dial("tcp", p.target)
		if err != nil {
			c.Close()
			continue
		}
		go p.pipe(c, s, "c2s")
		go p.pipe(s, c, "s2c")
	}
}

// pipe forwards uacp frames (8-byte header: type, chunk type, size) one by one.
func (p *proxy) pipe(src, dst net.Conn, dir string) {
	defer src.Close()
	defer dst.Close()
	hdr := make([]byte, 8)
	for {
		if _, err := io.ReadFull(src, hdr); err != nil {
			return
		}
		n := int(binary.LittleEndian.Uint32(hdr[4:]))
		if n < 8 || n > 1<<24 {
			return
		}
		f := make([]byte, n)
		copy(f, hdr)
		if _, err := io.ReadFull(src, f[8:]); err != nil {
			return
		}
		if string(f[:3]) == "MSG" {
			p.mu.Lock()
			t := p.armed
			if t != nil && !t.done && t.dir == dir {
				t.done = true
				t.size = len(f)
				switch t.op {
				case "flip":
					i := t.arg % len(f)
					if i >= 4 && i < 8 {
						i = 8 // the size field is the transport's framing
					}
					f[i] ^= 1 << uint(p.rnd.Intn(8))
				case "trunc":
					k := 12 + t.arg%(len(f)-12)
					f = f[:k]
					binary.LittleEndian.PutUint32(f[4:], uint32(len(f)))
				case "replace":
					copy(f[16:], p.rnd.Bytes(len(f)-16))
				case "append":
					f = append(f, p.rnd.Bytes(t.arg)...)
					binary.LittleEndian.PutUint32(f[4:], uint32(len(f)))
				}
			}
			p.mu.Unlock()
		}
		if _, err := dst.Write(f); err != nil {
			return
		}
	}
}

type mitmResult struct {
	Case    string `json:"case"`
	Outcome string `json:"outcome"` // rejected | delivered | applied | server-dead | not-tampered | infra
	Detail  string `json:"detail"`
}

const mitmWorkers = 6

func mitmServer(keys string, pol string, mode ua.MessageSecurityMode) (*server.Server, string, []*ua.NodeID, *h.KeyPair, error) {
	l, err := net.Listen("tcp", "127.0.0.1:0")
	if err != nil {
		return nil, "", nil, nil, err
	}
	port := l.Addr().(*net.TCPAddr).Port
	l.Close()
	kp, err := h.LoadKey(keys, 2048, "b")
	if err != nil {
		return nil, "", nil, nil, err
	}
	s := server.New(server.EnableSecurity(pol, mode), server.EnableAuthMode(ua.UserTokenTypeAnonymous),
		server.EndPoint("127.0.0.1", port), server.PrivateKey(kp.Key), server.Certificate(kp.CertDER))
	rootNS, _ := s.Namespace(0)
	ns := server.NewNodeNameSpace(s, "verif")
	s.AddNamespace(ns)
	obj := ns.Objects()
	rootNS.Objects().AddRef(obj, id.HasComponent, true)
	var nodes []*ua.NodeID
	for k := 0; k < mitmWorkers; k++ {
		name := fmt.Sprintf("rw_int32_%d", k)
		n := ns.AddNewVariableStringNode(name, int32(5))
		obj.AddRef(n, id.HasComponent, true)
		nodes = append(nodes, ua.NewStringNodeID(ns.ID(), name))
	}
	if err := s.Start(context.Background()); err != nil {
		return nil, "", nil, nil, err
	}
	return s, fmt.Sprintf("opc.tcp://127.0.0.1:%d", port), nodes, kp, nil
}

func mitmClient(ctx context.Context, keys, addr string, ep *ua.EndpointDescription) (*opcua.Client, error) {
	ck, err := h.LoadKey(keys, 2048, "a")
	if err != nil {
		return nil, err
	}
	c, err := opcua.NewClient(addr, opcua.SecurityFromEndpoint(ep, ua.UserTokenTypeAnonymous), opcua.AuthAnonymous(),
		opcua.Certificate(ck.CertDER), opcua.PrivateKey(ck.Key), opcua.RequestTimeout(3*time.Second), opcua.AutoReconnect(false))
	if err != nil {
		return nil, err
	}
	if err := c.Connect(ctx); err != nil {
		return nil, err
	}
	return c, nil
}

func readInt(ctx context.Context, c *opcua.Client, node *ua.NodeID) (int32, error) {
	rd, err := c.Read(ctx, &ua.ReadRequest{NodesToRead: []*ua.ReadValueID{{NodeID: node, AttributeID: ua.AttributeIDValue}}})
	if err != nil {
		return 0, err
	}
	if len(rd.Results) != 1 || rd.Results[0].Status != ua.StatusOK || rd.Results[0].Value == nil {
		return 0, fmt.Errorf("bad read result")
	}
	v, ok := rd.Results[0].Value.Value().(int32)
	if !ok {
		return 0, fmt.Errorf("not an int32")
	}
	return v, nil
}

func writeInt(ctx context.Context, c *opcua.Client, node *ua.NodeID, v int32) error {
	wr, err := c.Write(ctx, &ua.WriteRequest{NodesToWrite: []*ua.WriteValue{{NodeID: node, AttributeID: ua.AttributeIDValue,
		Value: &ua.DataValue{EncodingMask: ua.DataValueValue, Value: ua.MustVariant(v)}}}})
	if err != nil {
		return err
	}
	if len(wr.Results) != 1 || wr.Results[0] != ua.StatusOK {
		return fmt.Errorf("write status %v", wr.Results)
	}
	return nil
}

// mitmChild runs the scenarios and prints one JSON result per line.
func mitmChild() {
	var spec struct {
		Keys  string
		Seed  uint64
		Pol   string
		Mode  int
		Plans []tamper0
	}
	if err := json.Unmarshal([]byte(os.Getenv(mitmEnv)), &spec); err != nil {
		fmt.Println(`{"case":"spec","outcome":"infra","detail":"bad spec"}`)
		return
	}
	out := json.NewEncoder(os.Stdout)
	mode := ua.MessageSecurityMode(spec.Mode)
	srv, saddr, nodes, _, err := mitmServer(spec.Keys, spec.Pol, mode)
	if err != nil {
		out.Encode(mitmResult{"server", "infra", err.Error()})
		return
	}
	defer srv.Close()
	ctx := context.Background()
	var eps []*ua.EndpointDescription
	for i := 0; i < 50; i++ {
		c2, cancel := context.WithTimeout(ctx, 10*time.Second)
		eps, err = opcua.GetEndpoints(c2, saddr)
		cancel()
		if err == nil {
			break
		}
		time.Sleep(50 * time.Millisecond)
	}
	if err != nil {
		out.Encode(mitmResult{"discovery", "infra", err.Error()})
		return
	}
	var ep *ua.EndpointDescription
	for _, x := range eps {
		if x.SecurityMode == mode && strings.HasSuffix(x.SecurityPolicyURI, "#"+spec.Pol) {
			ep = x
		}
	}
	if ep == nil {
		out.Encode(mitmResult{"discovery", "infra", "endpoint not advertised"})
		return
	}
	// a clean connection (not through the proxy) observes the server
	cctx, ccancel := context.WithTimeout(ctx, 60*time.Second)
	clean, err := mitmClient(cctx, spec.Keys, saddr, ep)
	ccancel()
	if err != nil {
		out.Encode(mitmResult{"clean-client", "infra", err.Error()})
		return
	}
	defer clean.Close(ctx)
	var outMu sync.Mutex
	emit := func(r mitmResult) { outMu.Lock(); out.Encode(r); outMu.Unlock() }
	var wg sync.WaitGroup
	for k := 0; k < mitmWorkers; k++ {
		wg.Add(1)
		go func(k int) {
			defer wg.Done()
			node := nodes[k]
			ln, err := net.Listen("tcp", "127.0.0.1:0")
			if err != nil {
				emit(mitmResult{"proxy", "infra", err.Error()})
				return
			}
			defer ln.Close()
			px := &proxy{ln: ln, target: strings.TrimPrefix(saddr, "opc.tcp://"), rnd: h.NewRand(spec.Seed + uint64(k))}
			go px.serve()
			val := int32(1000 * (k + 1))
			for pi, pl := range spec.Plans {
				if pi%mitmWorkers != k {
					continue
				}
				emit(mitmOne(ctx, spec.Keys, spec.Pol, spec.Mode, px, clean, ep, node, pl, &val))
			}
		}(k)
	}
	wg.Wait()
	// the server must still serve the clean client
	c4, cancel4 := context.WithTimeout(ctx, 20*time.Second)
	if _, err := readInt(c4, clean, nodes[0]); err != nil {
		emit(mitmResult{"mitm " + spec.Pol + " final", "server-dead", err.Error()})
	}
	cancel4()
}

func mitmOne(ctx context.Context, keys, pol string, mode int, px *proxy, clean *opcua.Client, ep *ua.EndpointDescription, node *ua.NodeID, pl tamper0, valp *int32) mitmResult {
	name := fmt.Sprintf("mitm %s %d %s %s@%d", pol, mode, pl.Dir, pl.Op, pl.Arg)
	t := &tamper{dir: pl.Dir, op: pl.Op, arg: pl.Arg}
	c1, cancel1 := context.WithTimeout(ctx, 60*time.Second)
	c, err := mitmClient(c1, keys, px.addr(), ep)
	cancel1()
	if err != nil {
		return mitmResult{name, "infra", "connect through the proxy: " + err.Error()}
	}
	*valp++
	val := *valp
	res := mitmResult{Case: name}
	c2, cancel2 := context.WithTimeout(ctx, 30*time.Second)
	defer cancel2()
	if err := writeInt(c2, clean, node, val); err != nil {
		res.Outcome, res.Detail = "infra", "clean write: "+err.Error()
	} else if pl.Dir == "s2c" {
		// the node holds a known value; the tampered Read response must not yield any value
		px.arm(t)
		got, err := readInt(c2, c, node)
		switch {
		case !t.done:
			res.Outcome = "not-tampered"
		case err == nil:
			res.Outcome, res.Detail = "delivered", fmt.Sprintf("Read returned %d from a tampered response chunk (%d bytes)", got, t.size)
		default:
			res.Outcome, res.Detail = "rejected", fmt.Sprintf("%d-byte chunk", t.size)
		}
	} else {
		px.arm(t)
		werr := writeInt(c2, c, node, -val)
		time.Sleep(20 * time.Millisecond)
		got, rerr := readInt(c2, clean, node)
		switch {
		case !t.done:
			res.Outcome = "not-tampered"
		case rerr != nil:
			res.Outcome, res.Detail = "server-dead", "the server no longer answers a clean client: "+rerr.Error()
		case got != val || werr == nil:
			res.Outcome, res.Detail = "applied", fmt.Sprintf("tampered Write request: node holds %d (expected %d), client error %v", got, val, werr)
		default:
			res.Outcome, res.Detail = "rejected", fmt.Sprintf("%d-byte chunk", t.size)
		}
	}
	px.arm(nil)
	c3, cancel3 := context.WithTimeout(ctx, 2*time.Second)
	c.Close(c3)
	cancel3()
	return res
}

type tamper0 struct {
	Dir string
	Op  string
	Arg int
}

// mitm starts the child for one (policy, mode) and merges its results.
func (e *env) mitm(pol string, mode ua.MessageSecurityMode, plans []tamper0) {
	e.mitmRun(pol, mode, plans)()
}

// mitmRun runs the child and returns a function that merges its results into
// the result record (so that concurrent children do not interleave).
func (e *env) mitmRun(pol string, mode ua.MessageSecurityMode, plans []tamper0) func() {
	seed := uint64(len(plans))*7919 + uint64(mode) + e.o.Seed
	spec, _ := json.Marshal(map[string]interface{}{"Keys": e.o.Keys, "Seed": seed, "Pol": pol, "Mode": int(mode), "Plans": plans})
	ctx, cancel := context.WithTimeout(context.Background(), 12*time.Minute)
	defer cancel()
	cmd := exec.CommandContext(ctx, os.Args[0])
	cmd.Env = append(os.Environ(), mitmEnv+"="+string(spec))
	var errb strings.Builder
	cmd.Stderr = &errb
	outb, err := cmd.Output()
	ctxErr := ctx.Err()
	errText := errb.String()
	return func() { e.mitmMerge(pol, mode, string(outb), err, ctxErr, errText) }
}

func (e *env) mitmMerge(pol string, mode ua.MessageSecurityMode, outb string, err, ctxErr error, st string) {
	n := 0
	lines := strings.Split(outb, "\n")
	sort.Strings(lines)
	for _, line := range lines {
		var r mitmResult
		if json.Unmarshal([]byte(line), &r) != nil || r.Case == "" {
			continue
		}
		n++
		e.r.Count(r.Case, true)
		e.r.TracesValidated++
		e.r.Hit("mitm:" + r.Outcome)
		switch r.Outcome {
		case "rejected":
		case "not-tampered":
			e.r.Hit("mitm:no-msg-chunk-seen")
		case "infra":
			e.r.Notes = append(e.r.Notes, "mitm infra: "+r.Case+": "+r.Detail)
		default:
			e.r.Fail(r.Case, "", "end to end through the MITM proxy: "+r.Outcome+": "+r.Detail)
		}
	}
	if err != nil {
		if i := strings.Index(st, "panic:"); i >= 0 {
			e.r.Fail(fmt.Sprintf("mitm %s %d (after %d scenarios)", pol, mode, n), "", "client/server process panicked: "+st[i:min(len(st), i+400)])
		} else if ctxErr != nil {
			e.r.Notes = append(e.r.Notes, fmt.Sprintf("mitm %s %d: child timed out after %d scenarios (machine load)", pol, mode, n))
		} else {
			e.r.Notes = append(e.r.Notes, fmt.Sprintf("mitm %s %d: child exited: %v %s", pol, mode, err, st[:min(len(st), 300)]))
		}
	}
}

func (e *env) mitmAll() {
	type pm struct {
		pol  string
		mode ua.MessageSecurityMode
		all  bool
	}
	cfgs := []pm{{"Basic256Sha256", ua.MessageSecurityModeSignAndEncrypt, true}, {"Basic256Sha256", ua.MessageSecurityModeSign, true},
		{"Aes256_Sha256_RsaPss", ua.MessageSecurityModeSignAndEncrypt, false}, {"Basic128Rsa15", ua.MessageSecurityModeSign, false}}
	type job struct {
		pol   string
		mode  ua.MessageSecurityMode
		plans []tamper0
	}
	var jobs []job
	for _, c := range cfgs {
		var plans []tamper0
		for _, dir := range []string{"s2c", "c2s"} {
			n := 160 // chunks are shorter; positions wrap around (flip uses arg % len)
			step := 1
			if !c.all {
				step = 9
			}
			for i := e.rnd.Intn(step); i < n; i += step {
				plans = append(plans, tamper0{dir, "flip", i})
			}
			for _, k := range []int{0, 4, 5, 12, 20, 21, 36, 37, 52, 53, 68} {
				plans = append(plans, tamper0{dir, "trunc", k})
			}
			plans = append(plans, tamper0{dir, "replace", 0}, tamper0{dir, "append", 1}, tamper0{dir, "append", 16}, tamper0{dir, "append", 32})
		}
		jobs = append(jobs, job{c.pol, c.mode, plans})
	}
	// the four children run concurrently; results are merged afterwards (deterministic order)
	outs := make([]func(), len(jobs))
	var wg sync.WaitGroup
	for i, j := range jobs {
		wg.Add(1)
		go func(i int, j job) {
			defer wg.Done()
			outs[i] = e.mitmRun(j.pol, j.mode, j.plans)
		}(i, j)
	}
	wg.Wait()
	for _, f := range outs {
		f()
	}
}
