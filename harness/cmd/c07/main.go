// Correspondence runner and property oracle for C07: secure-channel chunking
// round-trips every message under every policy and mode.
//
//   - e2e   two real *uasc.SecureChannel (client kind and server kind, built by
//     the hook VerifOpenChannel over loopback TCP connections) — the real send
//     loop (SendRequestWithTimeout / SendResponseWithContext) writes the chunks,
//     the harness sits on the wire (records, checks, compares with the model's
//     bytes, forwards), the real Receive of the peer reassembles.
//   - instance-level differentials of EncodeChunks, signAndEncrypt,
//     verifyAndDecrypt (also on damaged chunks) and mergeChunks.
//
// The oracle is evaluated on the implementation alone: reassembled message =
// original message, every chunk ≤ chunk size, MessageSize = chunk length, all
// chunks but the last 'C', the last 'F'.
package main

import (
	"bytes"
	"context"
	"crypto/rsa"
	"crypto/sha256"
	"encoding/binary"
	"encoding/hex"
	"fmt"
	"io"
	"net"
	"strings"
	"time"

	"github.com/gopcua/opcua/ua"
	"github.com/gopcua/opcua/uacp"
	"github.com/gopcua/opcua/uapolicy"
	"github.com/gopcua/opcua/uasc"

	"verifharness/internal/h"
)

func short(uri string) string { return uri[strings.LastIndex(uri, "#")+1:] }

func sha(b []byte) string { s := sha256.Sum256(b); return hex.EncodeToString(s[:]) }

type env struct {
	o   *h.Opts
	r   *h.Result
	d   *h.Driver
	rnd *h.Rand
	key *rsa.PrivateKey
}

// ---------------------------------------------------------------- loopback

func tcpPair() (*net.TCPConn, *net.TCPConn, error) {
	l, err := net.Listen("tcp", "127.0.0.1:0")
	if err != nil {
		return nil, nil, err
	}
	defer l.Close()
	type res struct {
		c   net.Conn
		err error
	}
	ch := make(chan res, 1)
	go func() { c, err := l.Accept(); ch <- res{c, err} }()
	a, err := net.Dial("tcp", l.Addr().String())
	if err != nil {
		return nil, nil, err
	}
	rb := <-ch
	if rb.err != nil {
		a.Close()
		return nil, nil, rb.err
	}
	return a.(*net.TCPConn), rb.c.(*net.TCPConn), nil
}

// readWireChunk reads one UACP message (8-byte header with the size) from c.
func readWireChunk(c net.Conn) ([]byte, error) {
	hdr := make([]byte, 8)
	if _, err := io.ReadFull(c, hdr); err != nil {
		return nil, err
	}
	n := int(binary.LittleEndian.Uint32(hdr[4:]))
	if n < 8 || n > 1<<26 {
		return nil, fmt.Errorf("wire: size field %d", n)
	}
	b := make([]byte, n)
	copy(b, hdr)
	if _, err := io.ReadFull(c, b[8:]); err != nil {
		return nil, err
	}
	return b, nil
}

// ---------------------------------------------------------------- messages

// payloadRequest is a WriteRequest whose encoding has 'extra' payload bytes.
func payloadRequest(payload []byte) *ua.WriteRequest {
	return &ua.WriteRequest{NodesToWrite: []*ua.WriteValue{{
		NodeID: ua.NewNumericNodeID(0, 2258), AttributeID: ua.AttributeIDValue,
		Value: &ua.DataValue{EncodingMask: ua.DataValueValue, Value: ua.MustVariant(payload)},
	}}}
}

func payloadResponse(payload []byte, handle uint32) *ua.ReadResponse {
	return &ua.ReadResponse{
		ResponseHeader: &ua.ResponseHeader{
			Timestamp: time.Date(2024, 5, 6, 7, 8, 9, 0, time.UTC), RequestHandle: handle,
			ServiceDiagnostics: &ua.DiagnosticInfo{}, StringTable: []string{}, AdditionalHeader: ua.NewExtensionObject(nil),
		},
		Results: []*ua.DataValue{{EncodingMask: ua.DataValueValue, Value: ua.MustVariant(payload)}},
	}
}

// bodyOf is what EncodeChunks splits: TypeID ‖ Service.
func bodyOf(svc interface{}) ([]byte, error) {
	id := ua.ServiceTypeID(svc)
	if id == 0 {
		return nil, fmt.Errorf("no type id for %T", svc)
	}
	a, err := ua.Encode(ua.NewFourByteExpandedNodeID(0, id))
	if err != nil {
		return nil, err
	}
	b, err := ua.Encode(svc)
	if err != nil {
		return nil, err
	}
	return append(a, b...), nil
}

// ---------------------------------------------------------------- e2e

type e2eCase struct {
	uri      string
	mode     ua.MessageSecurityMode
	cs       int
	fromSrv  bool // the server-kind channel sends (a response), else the client kind sends (a request)
	bodySize int  // wanted size of TypeID‖Service (raised to the minimum possible)
	seq      int64 // initial sequence counter of the sender, -1 = drawn
}

func (e *env) cfg(c e2eCase, seed uint32) *uasc.Config {
	cfg := &uasc.Config{SecurityPolicyURI: c.uri, SecurityMode: c.mode, RequestTimeout: 20 * time.Second, RequestIDSeed: seed}
	if c.uri != ua.SecurityPolicyURINone {
		cfg.LocalKey = e.key
	}
	return cfg
}

func (e *env) e2e(c e2eCase) {
	pol := short(c.uri)
	nS, nR := e.rnd.Bytes(32), e.rnd.Bytes(32)
	chanID, tokID := uint32(e.rnd.U64()), uint32(e.rnd.U64())
	seq := uint32(e.rnd.Intn(1024))
	switch e.rnd.Intn(8) {
	case 0:
		seq = 4294966272 - uint32(e.rnd.Intn(3)) // the counter wraps inside this message
	case 1:
		seq = 0
	case 2:
		seq = 4294967295 // the first chunk gets sequence number 0
	}
	if c.seq >= 0 {
		seq = uint32(c.seq)
	}
	reqSeed := uint32(e.rnd.U64())
	if reqSeed == 0xffffffff {
		reqSeed = 7
	}

	// sender --tcp1--> harness --tcp2--> receiver
	sTCP, wireIn, err := tcpPair()
	if err != nil {
		e.r.InfraError = "tcp: " + err.Error()
		return
	}
	wireOut, rTCP, err := tcpPair()
	if err != nil {
		e.r.InfraError = "tcp: " + err.Error()
		return
	}
	defer sTCP.Close()
	defer wireIn.Close()
	defer wireOut.Close()
	defer rTCP.Close()
	maxChunks, maxMsg := 4096, 1<<26
	if e.rnd.Intn(4) == 0 {
		maxChunks, maxMsg = 0, 0 // 0 = no limit
		e.r.Hit("limits:none")
	}
	sConn, _ := uacp.NewConn(sTCP, &uacp.Acknowledge{ReceiveBufSize: uint32(c.cs), SendBufSize: uint32(c.cs), MaxChunkCount: uint32(maxChunks), MaxMessageSize: uint32(maxMsg)})
	rConn, _ := uacp.NewConn(rTCP, &uacp.Acknowledge{ReceiveBufSize: uint32(c.cs), SendBufSize: uint32(c.cs), MaxChunkCount: uint32(maxChunks), MaxMessageSize: uint32(maxMsg)})
	errS, errR := make(chan error, 4), make(chan error, 4)
	snd, err := uasc.VerifOpenChannel(sConn, e.cfg(c, reqSeed), c.fromSrv, chanID, tokID, seq, nS, nR, errS)
	if err != nil {
		e.r.InfraError = "VerifOpenChannel(sender): " + err.Error()
		return
	}
	rcv, err := uasc.VerifOpenChannel(rConn, e.cfg(c, 1), !c.fromSrv, chanID, tokID, uint32(e.rnd.Intn(1024)), nR, nS, errR)
	if err != nil {
		e.r.InfraError = "VerifOpenChannel(receiver): " + err.Error()
		return
	}
	mb := int(snd.VerifActive().MaxBodySize())

	// the message: payload sized so that TypeID‖Service has the wanted size
	var svc interface{}
	var reqID uint32
	mk := func(n int) interface{} {
		if c.fromSrv {
			return payloadResponse(make([]byte, n), 77)
		}
		return payloadRequest(make([]byte, n))
	}
	base := 0
	if c.fromSrv {
		b0, _ := bodyOf(mk(0))
		base = len(b0)
	} else {
		// SendRequest fills in the request header (two-byte token, timestamp, handle, timeout)
		r0 := payloadRequest(nil)
		r0.SetHeader(&ua.RequestHeader{AuthenticationToken: ua.NewTwoByteNodeID(0), Timestamp: time.Now(), RequestHandle: 1, TimeoutHint: 1})
		b0, _ := bodyOf(r0)
		base = len(b0)
	}
	want := c.bodySize
	if want < base+1 {
		want = base + 1 // at least one payload byte: an empty ByteString decodes to a null one (codec matter, C01)
	}
	payload := e.rnd.Bytes(want - base)
	if c.fromSrv {
		svc = payloadResponse(payload, 77)
		reqID = uint32(e.rnd.U64())
	} else {
		svc = payloadRequest(payload)
		reqID = reqSeed + 1
	}

	ctx, cancel := context.WithTimeout(context.Background(), 30*time.Second)
	defer cancel()
	sendErr := make(chan error, 1)
	go func() {
		defer func() {
			if x := recover(); x != nil {
				sendErr <- fmt.Errorf("panic in the send path: %v", x)
			}
		}()
		if c.fromSrv {
			sendErr <- snd.SendResponseWithContext(ctx, reqID, svc.(ua.Response))
		} else {
			sendErr <- snd.SendRequestWithTimeout(ctx, svc.(ua.Request), nil, 20*time.Second, nil)
		}
	}()
	// on the wire
	wireIn.SetReadDeadline(time.Now().Add(30 * time.Second))
	var wire [][]byte
	for {
		w, err := readWireChunk(wireIn)
		if err != nil {
			e.r.InfraError = fmt.Sprintf("wire read after %d chunks: %v", len(wire), err)
			return
		}
		wire = append(wire, w)
		if len(w) < 4 || w[3] != 'C' || len(wire) > 4096 {
			break
		}
	}
	if err := <-sendErr; err != nil {
		e.r.Fail(fmt.Sprintf("e2e %s %d cs=%d", pol, c.mode, c.cs), "", "send failed: "+err.Error())
		return
	}
	body, err := bodyOf(svc) // after the send: the request header is filled in
	if err != nil {
		e.r.InfraError = "bodyOf: " + err.Error()
		return
	}
	seqAfter := snd.VerifActive().SequenceNumber()

	cname := fmt.Sprintf("send %s %d %d %d %d %d %d %s %s", pol, c.mode, c.cs, seq, chanID, tokID, reqID, h.Hex(nS), h.Hex(nR))
	canon := fmt.Sprintf("e2e %s mode=%d cs=%d fromSrv=%v body=%d seq=%d", pol, c.mode, c.cs, c.fromSrv, len(body), seq)
	e.r.Count(canon, true)
	e.r.Hit("policy:" + pol)
	e.r.Hit(fmt.Sprintf("mode:%d", c.mode))
	e.r.Hit(fmt.Sprintf("e2e-chunks:%d", min(len(wire), 4)))
	if c.fromSrv {
		e.r.Hit("e2e-dir:server->client")
	} else {
		e.r.Hit("e2e-dir:client->server")
	}
	switch {
	case len(body)%mb == 0:
		e.r.Hit("body:exact-multiple")
	case len(body)%mb == 1:
		e.r.Hit("body:multiple+1")
	case len(body)%mb == mb-1:
		e.r.Hit("body:multiple-1")
	default:
		e.r.Hit("body:other")
	}
	if uint64(seq)+uint64(len(wire)) > 4294966272 {
		e.r.Hit("seq:wraps")
	}
	if seq == 4294967295 {
		e.r.Hit("seq:first-chunk-0")
	}
	e.r.Sample(fmt.Sprintf("%s maxBody=%d chunks=%d lens=%v", canon, mb, len(wire), lens(wire)))

	// ---- oracle on the wire (implementation alone)
	for i, w := range wire {
		if len(w) > c.cs {
			e.r.Fail(canon, "", fmt.Sprintf("chunk %d has %d bytes > chunk size %d", i, len(w), c.cs))
		}
		if sz := int(binary.LittleEndian.Uint32(w[4:])); sz != len(w) {
			e.r.Fail(canon, "", fmt.Sprintf("chunk %d: MessageSize %d but %d bytes", i, sz, len(w)))
		}
		wantFlag := byte('C')
		if i == len(wire)-1 {
			wantFlag = 'F'
		}
		if w[3] != wantFlag {
			e.r.Fail(canon, "", fmt.Sprintf("chunk %d of %d has chunk type %q", i, len(wire), w[3]))
		}
	}
	if want := len(body)/mb + 1; len(wire) != want {
		e.r.Fail(canon, "", fmt.Sprintf("%d chunks for a body of %d bytes with maxBody %d, expected %d", len(wire), len(body), mb, want))
	}

	// ---- model: same bytes?
	impl := fmt.Sprintf("ok %d %d", seqAfter, len(wire))
	for _, w := range wire {
		impl += fmt.Sprintf(" %d.%c.%d.%s", len(w), w[3], binary.LittleEndian.Uint32(w[4:]), sha(w))
	}
	if !e.r.Compare(e.d, cname+" "+h.Hex(body), impl) && e.d != nil {
		e.r.Notes = append(e.r.Notes, "first differing chunk: "+e.firstDiff(strings.Replace(cname, "send", "sendhex", 1)+" "+h.Hex(body), wire))
	}

	// ---- forward to the receiver, the real Receive reassembles
	got := make(chan *uasc.MessageBody, 1)
	go func() {
		defer func() {
			if x := recover(); x != nil {
				got <- &uasc.MessageBody{Err: fmt.Errorf("panic in Receive: %v", x)}
			}
		}()
		got <- rcv.Receive(ctx)
	}()
	for _, w := range wire {
		wireOut.SetWriteDeadline(time.Now().Add(20 * time.Second))
		if _, err := wireOut.Write(w); err != nil {
			e.r.InfraError = "wire write: " + err.Error()
			return
		}
	}
	var msg *uasc.MessageBody
	select {
	case msg = <-got:
	case <-time.After(25 * time.Second):
		e.r.Fail(canon, "", "receiver did not return a message")
		return
	}
	implRecv := "err"
	if msg.Err != nil {
		e.r.Fail(canon, "", "receiver: "+msg.Err.Error())
	} else {
		var gotSvc interface{}
		if c.fromSrv {
			gotSvc = msg.Response()
		} else {
			gotSvc = msg.Request()
		}
		gb, err := bodyOf(gotSvc)
		switch {
		case gotSvc == nil || err != nil:
			e.r.Fail(canon, "", fmt.Sprintf("receiver returned %T", gotSvc))
		case !bytes.Equal(gb, body):
			e.r.Fail(canon, "", fmt.Sprintf("reassembled message differs from the original (%d vs %d bytes)", len(gb), len(body)))
		case msg.RequestID != reqID:
			e.r.Fail(canon, "", fmt.Sprintf("request id %d, sent %d", msg.RequestID, reqID))
		}
		if err == nil {
			implRecv = fmt.Sprintf("ok %d %d %d %s 0", msg.RequestID, msg.SecureChannelID, len(gb), sha(gb))
		}
	}
	if entries, _, _ := rcv.VerifChunkTable(); entries != 0 {
		e.r.Fail(canon, "", fmt.Sprintf("receiver keeps %d chunk-table entries after the message", entries))
	}
	hexes := make([]string, len(wire))
	for i, w := range wire {
		hexes[i] = h.Hex(w)
	}
	e.r.Compare(e.d, fmt.Sprintf("recv %s %d %d %d %s %s %s", pol, c.mode, maxChunks, maxMsg, h.Hex(nR), h.Hex(nS), strings.Join(hexes, " ")), implRecv)
	e.r.TracesValidated++
}

func lens(w [][]byte) []int {
	out := make([]int, len(w))
	for i := range w {
		out[i] = len(w[i])
	}
	return out
}

func (e *env) firstDiff(req string, wire [][]byte) string {
	ans := strings.Fields(e.d.Ask(req))
	if len(ans) < 2 || ans[0] != "ok" {
		return strings.Join(ans, " ")
	}
	for i, w := range wire {
		if 2+i >= len(ans) {
			return fmt.Sprintf("model has only %d chunks", len(ans)-2)
		}
		m := h.UnHex(ans[2+i])
		for k := 0; k < len(w) && k < len(m); k++ {
			if w[k] != m[k] {
				return fmt.Sprintf("chunk %d offset %d: impl %02x model %02x (lens %d/%d)", i, k, w[k], m[k], len(w), len(m))
			}
		}
		if len(w) != len(m) {
			return fmt.Sprintf("chunk %d: lengths %d/%d", i, len(w), len(m))
		}
	}
	return "none"
}

// ---------------------------------------------------------------- e2e session: several messages over ONE pair of channels

func (e *env) session(c e2eCase, nMsgs int) {
	pol := short(c.uri)
	segmented := e.rnd.Intn(3) != 0
	nS, nR := e.rnd.Bytes(32), e.rnd.Bytes(32)
	chanID, tokID := uint32(e.rnd.U64()), uint32(e.rnd.U64())
	seq := uint32(e.rnd.Intn(1024))
	switch e.rnd.Intn(3) {
	case 0:
		seq = 4294966272 - uint32(e.rnd.Intn(4)) // wraps inside the session
	case 1:
		seq = 4294967295 - uint32(e.rnd.Intn(2))
	}
	reqSeed := uint32(e.rnd.Intn(1 << 30))
	sTCP, wireIn, err := tcpPair()
	if err != nil {
		e.r.InfraError = "tcp: " + err.Error()
		return
	}
	wireOut, rTCP, err := tcpPair()
	if err != nil {
		e.r.InfraError = "tcp: " + err.Error()
		return
	}
	defer sTCP.Close()
	defer wireIn.Close()
	defer wireOut.Close()
	defer rTCP.Close()
	wireOut.SetNoDelay(true)
	ack := &uacp.Acknowledge{ReceiveBufSize: uint32(c.cs), SendBufSize: uint32(c.cs), MaxChunkCount: 0, MaxMessageSize: 0}
	sConn, _ := uacp.NewConn(sTCP, ack)
	rConn, _ := uacp.NewConn(rTCP, ack)
	snd, err := uasc.VerifOpenChannel(sConn, e.cfg(c, reqSeed), c.fromSrv, chanID, tokID, seq, nS, nR, make(chan error, 4))
	if err != nil {
		e.r.InfraError = "VerifOpenChannel(sender): " + err.Error()
		return
	}
	rcv, err := uasc.VerifOpenChannel(rConn, e.cfg(c, 1), !c.fromSrv, chanID, tokID, 5, nR, nS, make(chan error, 4))
	if err != nil {
		e.r.InfraError = "VerifOpenChannel(receiver): " + err.Error()
		return
	}
	mb := int(snd.VerifActive().MaxBodySize())
	canon := fmt.Sprintf("session %s mode=%d cs=%d fromSrv=%v msgs=%d seq=%d", pol, c.mode, c.cs, c.fromSrv, nMsgs, seq)
	e.r.Count(canon+" "+h.Hex(nS[:4]), true)
	e.r.Hit("session")
	ctx, cancel := context.WithTimeout(context.Background(), 60*time.Second)
	defer cancel()
	var allWire [][]byte
	var msgToks, implRecv []string
	for k := 0; k < nMsgs; k++ {
		want := []int{60 + e.rnd.Intn(200), mb, mb + 1 + e.rnd.Intn(mb), 2 * mb}[e.rnd.Intn(4)]
		var svc interface{}
		var reqID uint32
		if c.fromSrv {
			b0, _ := bodyOf(payloadResponse(nil, 77))
			if want < len(b0)+1 {
				want = len(b0) + 1
			}
			svc = payloadResponse(e.rnd.Bytes(want-len(b0)), 77)
			reqID = uint32(e.rnd.U64())
		} else {
			r0 := payloadRequest(nil)
			r0.SetHeader(&ua.RequestHeader{AuthenticationToken: ua.NewTwoByteNodeID(0), Timestamp: time.Now(), RequestHandle: 1, TimeoutHint: 1})
			b0, _ := bodyOf(r0)
			if want < len(b0)+1 {
				want = len(b0) + 1
			}
			svc = payloadRequest(e.rnd.Bytes(want - len(b0)))
			reqID = reqSeed + uint32(k) + 1
		}
		sendErr := make(chan error, 1)
		go func() {
			defer func() {
				if x := recover(); x != nil {
					sendErr <- fmt.Errorf("panic in the send path: %v", x)
				}
			}()
			if c.fromSrv {
				sendErr <- snd.SendResponseWithContext(ctx, reqID, svc.(ua.Response))
			} else {
				sendErr <- snd.SendRequestWithTimeout(ctx, svc.(ua.Request), nil, 20*time.Second, nil)
			}
		}()
		wireIn.SetReadDeadline(time.Now().Add(60 * time.Second))
		var wire [][]byte
		for {
			w, err := readWireChunk(wireIn)
			if err != nil {
				e.r.InfraError = fmt.Sprintf("session wire read: %v", err)
				return
			}
			wire = append(wire, w)
			if len(w) < 4 || w[3] != 'C' || len(wire) > 4096 {
				break
			}
		}
		if err := <-sendErr; err != nil {
			e.r.Fail(canon, "", fmt.Sprintf("message %d: send failed: %v", k, err))
			return
		}
		body, _ := bodyOf(svc)
		msgToks = append(msgToks, fmt.Sprintf("%d:%s", reqID, h.Hex(body)))
		allWire = append(allWire, wire...)
		got := make(chan *uasc.MessageBody, 1)
		go func() {
			defer func() {
				if x := recover(); x != nil {
					got <- &uasc.MessageBody{Err: fmt.Errorf("panic in Receive: %v", x)}
				}
			}()
			got <- rcv.Receive(ctx)
		}()
		// the segmenting writer: the chunks of the message are written to the receiver's TCP
		// connection cut at arbitrary positions (inside headers, across chunk boundaries,
		// single bytes) — the composed statement C07_stack_roundtrip
		var stream []byte
		for _, w := range wire {
			stream = append(stream, w...)
		}
		var segs []string
		for pos := 0; pos < len(stream); {
			n := []int{1, 2, 7, 8, 9, 1 + e.rnd.Intn(64), 1 + e.rnd.Intn(4096), len(stream)}[e.rnd.Intn(8)]
			if !segmented || pos+n > len(stream) {
				n = len(stream) - pos
			}
			wireOut.SetWriteDeadline(time.Now().Add(30 * time.Second))
			if _, err := wireOut.Write(stream[pos : pos+n]); err != nil {
				e.r.InfraError = "wire write: " + err.Error()
				return
			}
			segs = append(segs, h.Hex(stream[pos:pos+n]))
			pos += n
			if segmented && e.rnd.Intn(4) == 0 {
				time.Sleep(200 * time.Microsecond) // let the segment leave on its own
			}
		}
		if segmented {
			e.r.Hit("session:segmented")
			e.r.Hit(fmt.Sprintf("segments-per-message:%d+", min(len(segs)/8*8, 32)))
			// the framing model on exactly this segmentation delivers exactly the chunks
			want := fmt.Sprintf("%d eof", len(wire))
			for _, w := range wire {
				want += " " + sha(w)
			}
			e.r.Compare(e.d, fmt.Sprintf("frames %d %s", c.cs, strings.Join(segs, " ")), want)
		}
		var msg *uasc.MessageBody
		select {
		case msg = <-got:
		case <-time.After(60 * time.Second):
			e.r.InfraError = "session: receiver did not return within 60 s"
			return
		}
		if msg.Err != nil {
			e.r.Fail(canon, "", fmt.Sprintf("message %d of the session: receiver: %v", k, msg.Err))
			return
		}
		var gotSvc interface{}
		if c.fromSrv {
			gotSvc = msg.Response()
		} else {
			gotSvc = msg.Request()
		}
		gb, err := bodyOf(gotSvc)
		if err != nil || !bytes.Equal(gb, body) || msg.RequestID != reqID {
			e.r.Fail(canon, "", fmt.Sprintf("message %d of the session is not received as sent (request id %d/%d, %d/%d bytes)", k, msg.RequestID, reqID, len(gb), len(body)))
			return
		}
		implRecv = append(implRecv, fmt.Sprintf("%d.%d.%d.%s", msg.RequestID, msg.SecureChannelID, len(gb), sha(gb)))
	}
	if uint64(seq)+uint64(len(allWire)) > 4294966272 {
		e.r.Hit("session:counter-wraps")
	}
	e.r.Hit(fmt.Sprintf("session-chunks:%d", min(len(allWire)/4*4, 12)))
	e.r.Sample(fmt.Sprintf("%s chunks=%d", canon, len(allWire)))
	impl := fmt.Sprintf("ok %d %d", snd.VerifActive().SequenceNumber(), len(allWire))
	hexes := make([]string, len(allWire))
	for i, w := range allWire {
		impl += fmt.Sprintf(" %d.%c.%d.%s", len(w), w[3], binary.LittleEndian.Uint32(w[4:]), sha(w))
		hexes[i] = h.Hex(w)
	}
	e.r.Compare(e.d, fmt.Sprintf("session %s %d %d %d %d %d %s %s %s", pol, c.mode, c.cs, seq, chanID, tokID, h.Hex(nS), h.Hex(nR), strings.Join(msgToks, " ")), impl)
	e.r.Compare(e.d, fmt.Sprintf("recvmany %s %d 0 0 %s %s %s", pol, c.mode, h.Hex(nR), h.Hex(nS), strings.Join(hexes, " ")),
		fmt.Sprintf("%d %s", len(implRecv), strings.Join(implRecv, " ")))
	e.r.TracesValidated++
}

// ---------------------------------------------------------------- instance level

// safeSec calls signAndEncrypt; a panic of the implementation is an error here.
func safeSec(inst *uasc.VerifInstance, m *uasc.Message, b []byte) (out []byte, err error) {
	defer func() {
		if x := recover(); x != nil {
			err = fmt.Errorf("panic: %v", x)
		}
	}()
	return inst.SignAndEncrypt(m, b)
}

func safeEncode(m *uasc.Message, maxBody uint32) (out [][]byte, err error) {
	defer func() {
		if x := recover(); x != nil {
			err = fmt.Errorf("panic: %v", x)
		}
	}()
	return m.EncodeChunks(maxBody)
}

type rawService []byte

func (r rawService) Encode() ([]byte, error) { return []byte(r), nil }

// encodeDiff: the real EncodeChunks against the model for arbitrary maxBodySize.
func (e *env) encodeDiff(maxBody uint32, tail []byte) {
	chanID, tokID, seq, req := uint32(e.rnd.U64()), uint32(e.rnd.U64()), uint32(e.rnd.U64()), uint32(e.rnd.U64())
	m := &uasc.Message{MessageHeader: &uasc.MessageHeader{
		Header:                  uasc.NewHeader(uasc.MessageTypeMessage, uasc.ChunkTypeFinal, chanID),
		SymmetricSecurityHeader: uasc.NewSymmetricSecurityHeader(tokID),
		SequenceHeader:          uasc.NewSequenceHeader(seq, req),
	}, TypeID: ua.NewFourByteExpandedNodeID(0, 631), Service: rawService(tail)}
	chunks, err := safeEncode(m, maxBody)
	if err != nil {
		e.r.Fail(fmt.Sprintf("enc %d body=%d", maxBody, 4+len(tail)), "", "EncodeChunks: "+err.Error())
		return
	}
	tid, _ := ua.Encode(m.TypeID)
	body := append(tid, tail...)
	impl := fmt.Sprint(len(chunks))
	for _, c := range chunks {
		impl += " " + sha(c)
	}
	req0 := fmt.Sprintf("enc %d MSG %d %d %d %d %s", maxBody, chanID, tokID, seq, req, h.Hex(body))
	e.r.Count(fmt.Sprintf("enc %d %d", maxBody, len(body)), true)
	e.r.Hit("enc")
	if maxBody == 0 {
		e.r.Hit("enc:maxBody=0")
	}
	e.r.Compare(e.d, req0, impl)
	// oracle: concatenation of the chunk bodies is the body, flags C…CF, size fields
	var cat []byte
	eff := int(maxBody)
	if eff == 0 {
		eff = 4096
	}
	for i, c := range chunks {
		if len(c) < 24 || int(binary.LittleEndian.Uint32(c[4:])) != len(c) {
			e.r.Fail(req0[:40], "", fmt.Sprintf("raw chunk %d: size field/length", i))
			return
		}
		if len(c)-24 > eff {
			e.r.Fail(req0[:40], "", fmt.Sprintf("raw chunk %d has a body of %d > maxBodySize %d", i, len(c)-24, eff))
		}
		flag := byte('C')
		if i == len(chunks)-1 {
			flag = 'F'
		}
		if c[3] != flag {
			e.r.Fail(req0[:40], "", fmt.Sprintf("raw chunk %d has type %q", i, c[3]))
		}
		cat = append(cat, c[24:]...)
	}
	if !bytes.Equal(cat, body) {
		e.r.Fail(req0[:40], "", "chunk bodies do not concatenate to the message body")
	}
}

func rawChunk(flag byte, chanID, tokID, seq, req uint32, body []byte) []byte {
	b := make([]byte, 24, 24+len(body))
	copy(b, "MSG")
	b[3] = flag
	binary.LittleEndian.PutUint32(b[4:], uint32(24+len(body)))
	binary.LittleEndian.PutUint32(b[8:], chanID)
	binary.LittleEndian.PutUint32(b[12:], tokID)
	binary.LittleEndian.PutUint32(b[16:], seq)
	binary.LittleEndian.PutUint32(b[20:], req)
	return append(b, body...)
}

// secDiff: signAndEncrypt and verifyAndDecrypt (also on damaged chunks) against the model.
func (e *env) secDiff(uri string, mode ua.MessageSecurityMode, n int) {
	pol := short(uri)
	nS, nR := e.rnd.Bytes(32), e.rnd.Bytes(32)
	snd, err := uasc.VerifNewSymmetricInstance(uri, mode, nS, nR)
	if err != nil {
		e.r.InfraError = err.Error()
		return
	}
	rcv, _ := uasc.VerifNewSymmetricInstance(uri, mode, nR, nS)
	body := e.rnd.Bytes(n)
	raw := rawChunk('F', 1, 1, uint32(e.rnd.U64()), uint32(e.rnd.U64()), body)
	m := &uasc.Message{MessageHeader: &uasc.MessageHeader{
		Header:                  uasc.NewHeader(uasc.MessageTypeMessage, uasc.ChunkTypeFinal, 1),
		SymmetricSecurityHeader: uasc.NewSymmetricSecurityHeader(1),
		SequenceHeader:          uasc.NewSequenceHeader(1, 1),
	}}
	rawHex := h.Hex(raw)
	wire, err := safeSec(snd, m, append([]byte(nil), raw...))
	c := fmt.Sprintf("sec %s %d %s %s %s", pol, mode, h.Hex(nS), h.Hex(nR), rawHex)
	e.r.Count(fmt.Sprintf("sec %s %d %d", pol, mode, n), true)
	e.r.Hit("sec")
	if err != nil {
		e.r.Compare(e.d, c, "err")
		e.r.Fail(fmt.Sprintf("sec %s %d body=%d", pol, mode, n), "", "signAndEncrypt: "+err.Error())
		return
	}
	e.r.Compare(e.d, c, fmt.Sprintf("ok %d %s", len(wire), sha(wire)))

	vad := func(w []byte, tag string) string {
		res := h.Catch(func() string {
			d, err := rcv.VerifyAndDecryptRaw(append([]byte(nil), w...))
			if err != nil {
				return "err"
			}
			return "ok " + h.Hex(d)
		})
		e.r.Hit("vad:" + tag + ":" + strings.Fields(res)[0])
		e.r.Count(fmt.Sprintf("vad %s %d %s %d", pol, mode, tag, len(w)), true)
		e.r.Compare(e.d, fmt.Sprintf("vad %s %d %s %s %s", pol, mode, h.Hex(nR), h.Hex(nS), h.Hex(w)), res)
		return res
	}
	// intact: the oracle of the property — the plaintext comes back
	if res := vad(wire, "intact"); res != "ok "+h.Hex(raw[16:]) {
		e.r.Fail(fmt.Sprintf("vad %s %d body=%d", pol, mode, n), "", "verifyAndDecrypt of an intact chunk: "+res[:min(len(res), 60)])
	}
	// damaged (differential only: model and code must agree on ok / err / panic)
	if len(wire) > 17 {
		w := append([]byte(nil), wire...)
		w[16+e.rnd.Intn(len(w)-16)] ^= 1 << uint(e.rnd.Intn(8))
		vad(w, "bitflip")
		cut := 16 + e.rnd.Intn(len(wire)-16)
		if mode == ua.MessageSecurityModeSignAndEncrypt {
			cut = 16 + (cut-16)/16*16 // whole cipher blocks, so that the tail logic is reached
		}
		vad(wire[:cut], "truncated")
		vad(wire[:16], "header-only")
		// the sender's own view: a reflected chunk (checked by C14 on the oracle side)
	}
}

func (e *env) mergeDiff() {
	n := e.rnd.Intn(6)
	var chunks []*uasc.MessageChunk
	var toks []string
	seq := uint32(e.rnd.Intn(3))
	for i := 0; i < n; i++ {
		switch e.rnd.Intn(4) {
		case 0: // duplicate
		case 1:
			seq = uint32(e.rnd.Intn(3))
		default:
			seq++
		}
		d := e.rnd.Bytes(e.rnd.Intn(5))
		chunks = append(chunks, &uasc.MessageChunk{MessageHeader: &uasc.MessageHeader{SequenceHeader: &uasc.SequenceHeader{SequenceNumber: seq}}, Data: d})
		toks = append(toks, fmt.Sprintf("%d:%s", seq, h.Hex(d)))
	}
	b, _ := uasc.VerifMergeChunks(chunks)
	e.r.Count("merge "+strings.Join(toks, " "), true)
	e.r.Hit("merge")
	e.r.Compare(e.d, strings.TrimSpace("merge "+strings.Join(toks, " ")), h.Hex(b))
}

// ---------------------------------------------------------------- OPN (asymmetric, never split)

// opn: an OpenSecureChannel request chunk secured by a sender with key size
// ls for a receiver with key size rs (all pairs the policy allows), opened by
// the receiver.  Oracle: the plaintext comes back and MessageSize = length.
// Differential: the constructor's numbers, the secured length / size field and
// the receiver's signature-split / padding-strip logic against the model (the
// RSA operations themselves are done by the real code: C15 is about them).
func (e *env) opn(uri string, mode ua.MessageSecurityMode, snd, rcv *h.KeyPair, nonceLen int) {
	pol := short(uri)
	canon := fmt.Sprintf("opn %s mode=%d sender=%d receiver=%d", pol, mode, snd.Bits, rcv.Bits)
	thumb := uapolicy.Thumbprint(rcv.CertDER)
	sInst, err := uasc.VerifNewAsymmetricInstance(uri, mode, snd.Key, &rcv.Key.PublicKey, snd.CertDER, thumb)
	if err != nil {
		e.r.Hit("opn:constructor-refuses")
		return
	}
	rInst, err := uasc.VerifNewAsymmetricInstance(uri, mode, rcv.Key, &snd.Key.PublicKey, rcv.CertDER, uapolicy.Thumbprint(snd.CertDER))
	if err != nil {
		e.r.Hit("opn:constructor-refuses")
		return
	}
	e.r.Count(canon, true)
	e.r.Hit("opn")
	e.r.Hit(fmt.Sprintf("opn:extra-padding sender=%v receiver=%v", rcv.Bits > 2048, snd.Bits > 2048))
	ls, rs := snd.Bits/8, rcv.Bits/8
	sa, ra := sInst.Algo(), rInst.Algo()
	pad := sa.BlockSize() - sa.PlaintextBlockSize()
	e.r.Compare(e.d, fmt.Sprintf("asymparams %d %d %d", ls, rs, pad),
		fmt.Sprintf("%d %d %d %d", sa.BlockSize(), sa.PlaintextBlockSize(), sa.SignatureLength(), sa.RemoteSignatureLength()))
	e.r.Compare(e.d, fmt.Sprintf("asymparams %d %d %d", rs, ls, ra.BlockSize()-ra.PlaintextBlockSize()),
		fmt.Sprintf("%d %d %d %d", ra.BlockSize(), ra.PlaintextBlockSize(), ra.SignatureLength(), ra.RemoteSignatureLength()))

	req := &ua.OpenSecureChannelRequest{
		RequestHeader: &ua.RequestHeader{AuthenticationToken: ua.NewTwoByteNodeID(0), Timestamp: time.Date(2024, 1, 2, 3, 4, 5, 0, time.UTC),
			RequestHandle: uint32(e.rnd.U64()), AdditionalHeader: ua.NewExtensionObject(nil)},
		RequestType: ua.SecurityTokenRequestTypeIssue, SecurityMode: mode,
		ClientNonce: e.rnd.Bytes(nonceLen + e.rnd.Intn(40)), RequestedLifetime: 3600000,
	}
	sInst.SetSequenceNumber(uint32(e.rnd.Intn(1000)))
	m := sInst.NewMessage(req, ua.ServiceTypeID(req), uint32(e.rnd.U64()))
	chunks, err := safeEncode(m, sInst.MaxBodySize())
	if err != nil || len(chunks) != 1 {
		e.r.Fail(canon, "", fmt.Sprintf("EncodeChunks of an OPN: %d chunks, err %v", len(chunks), err))
		return
	}
	raw := chunks[0]
	hl := 12 + m.AsymmetricSecurityHeader.Len()
	wire, err := safeSec(sInst, m, append([]byte(nil), raw...))
	if err != nil {
		e.r.Fail(canon, "", "signAndEncrypt: "+err.Error())
		return
	}
	e.r.Sample(fmt.Sprintf("%s raw=%d hl=%d wire=%d", canon, len(raw), hl, len(wire)))
	size := int(binary.LittleEndian.Uint32(wire[4:]))
	if size != len(wire) {
		e.r.Fail(canon, "", fmt.Sprintf("MessageSize %d but the chunk has %d bytes", size, len(wire)))
	}
	e.r.Compare(e.d, fmt.Sprintf("asymlen %d %d %d %d %d %d %d", mode, sa.SignatureLength(), sa.RemoteSignatureLength(), sa.PlaintextBlockSize(), sa.BlockSize(), hl, len(raw)),
		fmt.Sprintf("ok %d %d", len(wire), size))
	res := h.Catch(func() string {
		d, err := rInst.VerifyAndDecryptRaw(append([]byte(nil), wire...))
		if err != nil {
			return "err"
		}
		return "ok " + h.Hex(d)
	})
	if res != "ok "+h.Hex(raw[hl:]) {
		e.r.Fail(canon, "", "the receiver does not get the plaintext back: "+res[:min(len(res), 40)])
	}
	if plain, err := ra.Decrypt(wire[hl:]); err == nil {
		e.r.Compare(e.d, fmt.Sprintf("asymtail %d %d %d %d %s", mode, ra.SignatureLength(), ra.RemoteSignatureLength(), hl, h.Hex(append(append([]byte(nil), wire[:hl]...), plain...))), res)
	} else {
		e.r.Fail(canon, "", "the receiver's algorithm does not decrypt the chunk: "+err.Error())
	}
}

// ---------------------------------------------------------------- main

func main() {
	o := h.ParseOpts()
	r := h.NewResult("C07", o)
	d, err := h.StartDriver(o.Driver)
	if err != nil {
		r.InfraError = err.Error()
		r.Write(o.Out)
		return
	}
	defer d.Close()
	kp, err := h.LoadKey(o.Keys, 2048, "a")
	if err != nil {
		r.InfraError = "key: " + err.Error()
		r.Write(o.Out)
		return
	}
	e := &env{o, r, d, h.NewRand(o.Seed), kp.Key}
	r.Rule = "e2e case = (policy, mode, chunk size, direction, body size, sequence counter): a real SecureChannel sends one message over loopback TCP, the harness checks the wire chunks (≤ chunk size, MessageSize = length, flags C…CF, count), compares them byte for byte (SHA-256) with the Lean model's chunks for the same nonces, forwards them, the peer's real Receive must return the original message; the model's receive path is run on the real bytes. Plus instance-level differentials: EncodeChunks (any maxBodySize incl. 0), signAndEncrypt, verifyAndDecrypt on intact / bit-flipped / truncated chunks (ok|err|panic), mergeChunks. Distinct by canonical case text."

	if d != nil {
		if a := d.Ask("selftest"); a != "ok" {
			r.Disagree("selftest", a, "ok")
		}
	}

	uris := uapolicy.SupportedPolicies()
	type pm struct {
		uri  string
		mode ua.MessageSecurityMode
	}
	var pms []pm
	for _, u := range uris {
		if u == ua.SecurityPolicyURINone {
			pms = append(pms, pm{u, ua.MessageSecurityModeNone})
			continue
		}
		pms = append(pms, pm{u, ua.MessageSecurityModeSign}, pm{u, ua.MessageSecurityModeSignAndEncrypt})
	}

	// --- replay of one e2e case: "e2e <policy> mode=<m> cs=<n> fromSrv=<b> body=<n> seq=<n>"
	if strings.HasPrefix(o.Replay, "e2e ") {
		var pol string
		var mode, cs, body int
		var seq int64
		var fromSrv bool
		if _, err := fmt.Sscanf(o.Replay, "e2e %s mode=%d cs=%d fromSrv=%t body=%d seq=%d", &pol, &mode, &cs, &fromSrv, &body, &seq); err == nil {
			for _, u := range uris {
				if short(u) == pol {
					e.e2e(e2eCase{u, ua.MessageSecurityMode(mode), cs, fromSrv, body, seq})
				}
			}
			r.Write(o.Out)
			return
		}
	}

	// --- e2e
	sizes := []int{8192, 8193 + e.rnd.Intn(15), 8208 + e.rnd.Intn(4000), 12208 + e.rnd.Intn(20000)}
	if o.Thorough() {
		for cs := 8192; cs <= 8192+40; cs++ {
			sizes = append(sizes, cs)
		}
		sizes = append(sizes, 65535, 65536, 1<<17+5, 1<<20)
	}
	for _, p := range pms {
		for si, cs := range sizes {
			inst, err := uasc.VerifNewSymmetricInstance(p.uri, p.mode, make([]byte, 32), make([]byte, 32))
			if err != nil {
				r.InfraError = err.Error()
				break
			}
			mb := int(inst.SetMaximumBodySize(cs))
			bodies := []int{0, mb - 1, mb, mb + 1, 2*mb - 1, 2 * mb, 2*mb + 1, e.rnd.Intn(3*mb + 1)}
			if !o.Thorough() && si > 0 {
				bodies = []int{mb, 2 * mb, mb + 1 + e.rnd.Intn(mb)}
			}
			if o.Thorough() && cs > 1<<16 {
				bodies = []int{mb, 2*mb + 1}
			}
			for bi, n := range bodies {
				e.e2e(e2eCase{p.uri, p.mode, cs, (bi+si)%2 == 1, n, -1})
				if r.InfraError != "" {
					r.Write(o.Out)
					return
				}
			}
		}
	}
	// the default chunk size, one message per policy/mode
	for i, p := range pms {
		inst, _ := uasc.VerifNewSymmetricInstance(p.uri, p.mode, make([]byte, 32), make([]byte, 32))
		mb := int(inst.SetMaximumBodySize(65535))
		e.e2e(e2eCase{p.uri, p.mode, 65535, i%2 == 0, []int{mb, mb + 1, 2 * mb}[i%3], -1})
		e.e2e(e2eCase{p.uri, p.mode, 65535, i%2 == 1, []int{2*mb + 1, mb - 1, e.rnd.Intn(3 * mb)}[i%3], -1})
	}

	// --- sessions: several messages over one pair of channels
	for i, p := range pms {
		for k := 0; k < o.N(2, 12); k++ {
			e.session(e2eCase{p.uri, p.mode, 8192 + e.rnd.Intn(64), (i+k)%2 == 0, 0, -1}, 3+e.rnd.Intn(4))
			if r.InfraError != "" {
				r.Write(o.Out)
				return
			}
		}
	}

	// --- instance level
	for _, mbs := range []uint32{0, 1, 2, 5, 16, 4096, 8120} {
		for _, k := range []int{0, 1, 2, 3} {
			for _, dlt := range []int{-1, 0, 1} {
				eff := int(mbs)
				if eff == 0 {
					eff = 4096
				}
				n := k*eff + dlt
				if n < 4 || n > 40000 {
					continue
				}
				e.encodeDiff(mbs, e.rnd.Bytes(n-4))
			}
		}
		e.encodeDiff(mbs, e.rnd.Bytes(e.rnd.Intn(300)))
	}
	for _, p := range pms {
		for _, n := range []int{0, 1, 2, 3, 7, 8, 15, 16, 17, e.rnd.Intn(2000), e.rnd.Intn(9000)} {
			e.secDiff(p.uri, p.mode, n)
		}
		for i := 0; i < o.N(0, 80); i++ {
			e.secDiff(p.uri, p.mode, e.rnd.Intn(20000))
		}
	}
	for i := 0; i < o.N(300, 5000); i++ {
		e.mergeDiff()
	}

	// --- OPN chunks: every policy, both modes, every ordered pair of key sizes
	keys := map[int][2]*h.KeyPair{}
	for _, bits := range []int{1024, 2048, 3072, 4096} {
		a, errA := h.LoadKey(o.Keys, bits, "a")
		b, errB := h.LoadKey(o.Keys, bits, "b")
		if errA != nil || errB != nil {
			r.InfraError = fmt.Sprintf("keys rsa%d: %v %v", bits, errA, errB)
			r.Write(o.Out)
			return
		}
		keys[bits] = [2]*h.KeyPair{a, b}
	}
	for _, p := range pms {
		if p.uri == ua.SecurityPolicyURINone {
			continue
		}
		nl := 32
		if short(p.uri) == "Basic128Rsa15" {
			nl = 16
		}
		for _, sb := range []int{1024, 2048, 3072, 4096} {
			for _, rb := range []int{1024, 2048, 3072, 4096} {
				if !o.Thorough() && sb == rb && sb != 2048 && p.mode == ua.MessageSecurityModeSign {
					continue // quick: equal sizes once per policy, all unequal pairs
				}
				e.opn(p.uri, p.mode, keys[sb][0], keys[rb][1], nl)
			}
		}
	}
	for _, b := range []string{"vad:intact:ok", "vad:bitflip:err", "vad:truncated:err", "session", "session:segmented", "session:counter-wraps", "seq:wraps", "seq:first-chunk-0", "limits:none", "body:exact-multiple", "enc:maxBody=0", "opn:extra-padding sender=true receiver=false", "opn:extra-padding sender=false receiver=true", "opn:extra-padding sender=true receiver=true", "opn:extra-padding sender=false receiver=false"} {
		if r.Distribution[b] == 0 {
			r.Unreached = append(r.Unreached, b)
		}
	}
	r.Write(o.Out)
}
